(** Facts about the shell model (Model/Shell.v): string library functions, paths, the
    formula-file loader, the archive writer / loader round trip, the result labels.
    Used by Properties/C16.v and Properties/C17.v. *)
From HCTL Require Import Base Tokenizer TT Shell.

(** * 0. Regression examples: the model against the Rust library on the same inputs
    (expected values are the output of a Rust program, rustc 1.95, Unix) *)
Example lines_ex0 : lines [] = []. (* "" *)
Proof. reflexivity. Qed.
Example lines_ex1 : lines [10]%N = [[]]. (* "\n" *)
Proof. reflexivity. Qed.
Example lines_ex2 : lines [97]%N = [[97]%N]. (* "a" *)
Proof. reflexivity. Qed.
Example lines_ex3 : lines [97; 10]%N = [[97]%N]. (* "a\n" *)
Proof. reflexivity. Qed.
Example lines_ex4 : lines [97; 13]%N = [[97; 13]%N]. (* "a\r" *)
Proof. reflexivity. Qed.
Example lines_ex5 : lines [97; 13; 10]%N = [[97]%N]. (* "a\r\n" *)
Proof. reflexivity. Qed.
Example lines_ex6 : lines [97; 13; 13; 10]%N = [[97; 13]%N]. (* "a\r\r\n" *)
Proof. reflexivity. Qed.
Example lines_ex7 : lines [97; 10; 10; 98]%N = [[97]%N; []; [98]%N]. (* "a\n\nb" *)
Proof. reflexivity. Qed.
Example lines_ex8 : lines [97; 10; 10]%N = [[97]%N; []]. (* "a\n\n" *)
Proof. reflexivity. Qed.
Example lines_ex9 : lines [13]%N = [[13]%N]. (* "\r" *)
Proof. reflexivity. Qed.
Example lines_ex10 : lines [13; 10]%N = [[]]. (* "\r\n" *)
Proof. reflexivity. Qed.
Example lines_ex11 : lines [97; 13; 98; 10]%N = [[97; 13; 98]%N]. (* "a\rb\n" *)
Proof. reflexivity. Qed.
Example lines_ex12 : lines [97; 10; 13]%N = [[97]%N; [13]%N]. (* "a\n\r" *)
Proof. reflexivity. Qed.

Example path_ex0 : (file_name [46; 98; 100; 100]%N, extension [46; 98; 100; 100]%N)
  = (Some [46; 98; 100; 100]%N, None). (* ".bdd" *)
Proof. reflexivity. Qed.
Example path_ex1 : (file_name [97; 46; 98; 100; 100]%N, extension [97; 46; 98; 100; 100]%N)
  = (Some [97; 46; 98; 100; 100]%N, Some [98; 100; 100]%N). (* "a.bdd" *)
Proof. reflexivity. Qed.
Example path_ex2 : (file_name [97; 47; 46; 98; 100; 100]%N, extension [97; 47; 46; 98; 100; 100]%N)
  = (Some [46; 98; 100; 100]%N, None). (* "a/.bdd" *)
Proof. reflexivity. Qed.
Example path_ex3 : (file_name [47; 46; 98; 100; 100]%N, extension [47; 46; 98; 100; 100]%N)
  = (Some [46; 98; 100; 100]%N, None). (* "/.bdd" *)
Proof. reflexivity. Qed.
Example path_ex4 : (file_name [46; 120; 46; 98; 100; 100]%N, extension [46; 120; 46; 98; 100; 100]%N)
  = (Some [46; 120; 46; 98; 100; 100]%N, Some [98; 100; 100]%N). (* ".x.bdd" *)
Proof. reflexivity. Qed.
Example path_ex5 :
  (file_name [97; 47; 98; 46; 98; 100; 100]%N, extension [97; 47; 98; 46; 98; 100; 100]%N)
  = (Some [98; 46; 98; 100; 100]%N, Some [98; 100; 100]%N). (* "a/b.bdd" *)
Proof. reflexivity. Qed.
Example path_ex6 :
  (file_name [97; 47; 46; 47; 46; 98; 100; 100]%N, extension [97; 47; 46; 47; 46; 98; 100; 100]%N)
  = (Some [46; 98; 100; 100]%N, None). (* "a/./.bdd" *)
Proof. reflexivity. Qed.
Example path_ex7 : (file_name [46; 46; 98; 100; 100]%N, extension [46; 46; 98; 100; 100]%N)
  = (Some [46; 46; 98; 100; 100]%N, Some [98; 100; 100]%N). (* "..bdd" *)
Proof. reflexivity. Qed.
Example path_ex8 : (file_name [97; 46; 98; 100; 100; 47]%N, extension [97; 46; 98; 100; 100; 47]%N)
  = (Some [97; 46; 98; 100; 100]%N, Some [98; 100; 100]%N). (* "a.bdd/" *)
Proof. reflexivity. Qed.
Example path_ex9 :
  (file_name [97; 46; 98; 100; 100; 47; 46]%N, extension [97; 46; 98; 100; 100; 47; 46]%N)
  = (Some [97; 46; 98; 100; 100]%N, Some [98; 100; 100]%N). (* "a.bdd/." *)
Proof. reflexivity. Qed.
Example path_ex10 :
  (file_name [97; 46; 98; 100; 100; 47; 46; 46]%N, extension [97; 46; 98; 100; 100; 47; 46; 46]%N)
  = (None, None). (* "a.bdd/.." *)
Proof. reflexivity. Qed.
Example path_ex11 :
  (file_name [97; 46; 98; 100; 100; 47; 47]%N, extension [97; 46; 98; 100; 100; 47; 47]%N)
  = (Some [97; 46; 98; 100; 100]%N, Some [98; 100; 100]%N). (* "a.bdd//" *)
Proof. reflexivity. Qed.
Example path_ex12 :
  (file_name [120; 47; 97; 46; 98; 100; 100; 47; 46; 47]%N,
   extension [120; 47; 97; 46; 98; 100; 100; 47; 46; 47]%N)
  = (Some [97; 46; 98; 100; 100]%N, Some [98; 100; 100]%N). (* "x/a.bdd/./" *)
Proof. reflexivity. Qed.
Example path_ex13 : (file_name [102; 111; 111; 46]%N, extension [102; 111; 111; 46]%N)
  = (Some [102; 111; 111; 46]%N, Some []). (* "foo." *)
Proof. reflexivity. Qed.
Example path_ex14 : (file_name [46; 46]%N, extension [46; 46]%N) = (None, None). (* ".." *)
Proof. reflexivity. Qed.
Example path_ex15 : (file_name [46; 46; 46]%N, extension [46; 46; 46]%N)
  = (Some [46; 46; 46]%N, Some []). (* "..." *)
Proof. reflexivity. Qed.
Example path_ex16 : (file_name [97; 47; 46; 46]%N, extension [97; 47; 46; 46]%N) = (None, None).
  (* "a/.." *)
Proof. reflexivity. Qed.
Example path_ex17 : (file_name [46]%N, extension [46]%N) = (None, None). (* "." *)
Proof. reflexivity. Qed.
Example path_ex18 :
  (file_name [46; 47; 97; 46; 98; 100; 100]%N, extension [46; 47; 97; 46; 98; 100; 100]%N)
  = (Some [97; 46; 98; 100; 100]%N, Some [98; 100; 100]%N). (* "./a.bdd" *)
Proof. reflexivity. Qed.
Example path_ex19 : (file_name [98; 100; 100]%N, extension [98; 100; 100]%N)
  = (Some [98; 100; 100]%N, None). (* "bdd" *)
Proof. reflexivity. Qed.
Example path_ex20 :
  (file_name [97; 46; 46; 98; 100; 100]%N, extension [97; 46; 46; 98; 100; 100]%N)
  = (Some [97; 46; 46; 98; 100; 100]%N, Some [98; 100; 100]%N). (* "a..bdd" *)
Proof. reflexivity. Qed.
Example path_ex21 : (file_name [47]%N, extension [47]%N) = (None, None). (* "/" *)
Proof. reflexivity. Qed.
Example path_ex22 : (file_name [], extension []) = (None, None). (* "" *)
Proof. reflexivity. Qed.
Example path_ex23 : (file_name [32; 46; 98; 100; 100]%N, extension [32; 46; 98; 100; 100]%N)
  = (Some [32; 46; 98; 100; 100]%N, Some [98; 100; 100]%N). (* " .bdd" *)
Proof. reflexivity. Qed.

(** * 1. Strings and association lists *)

Lemma seqb_eq : forall a b : str, str_eqb a b = true <-> a = b.
Proof.
  unfold str_eqb. induction a as [|x a IH]; intros [|y b]; cbn [list_eqb]; split; intros H;
    try reflexivity; try discriminate.
  - apply andb_true_iff in H. destruct H as [Hx Hr]. apply N.eqb_eq in Hx. apply IH in Hr.
    subst. reflexivity.
  - inversion H; subst. apply andb_true_iff. split; [apply N.eqb_refl | apply IH; reflexivity].
Qed.

Lemma seqb_refl : forall a : str, str_eqb a a = true.
Proof. intros a. apply seqb_eq. reflexivity. Qed.

Lemma seqb_neq : forall a b : str, a <> b -> str_eqb a b = false.
Proof.
  intros a b Hne. destruct (str_eqb a b) eqn:E; [|reflexivity].
  apply seqb_eq in E. contradiction.
Qed.

Lemma str_eq_dec : forall a b : str, {a = b} + {a <> b}.
Proof. apply list_eq_dec. apply N.eq_dec. Qed.

Lemma existsb_seqb : forall (x : str) l, existsb (str_eqb x) l = true <-> In x l.
Proof.
  intros x l. rewrite existsb_exists. split.
  - intros [y [Hy He]]. apply seqb_eq in He. subst. exact Hy.
  - intros Hx. exists x. split; [exact Hx | apply seqb_refl].
Qed.

Section Alist.
  Context {B : Type}.
  Implicit Types (m : list (str * B)) (k : str) (v : B).

  Lemma alookup_In : forall m k v, alookup str_eqb k m = Some v -> In (k, v) m.
  Proof.
    induction m as [|[k' v'] m IH]; intros k v H; cbn [alookup] in H; [discriminate|].
    destruct (str_eqb k k') eqn:E.
    - apply seqb_eq in E. inversion H; subst. left. reflexivity.
    - right. apply IH. exact H.
  Qed.

  Lemma alookup_None : forall m k, alookup str_eqb k m = None <-> ~ In k (map fst m).
  Proof.
    induction m as [|[k' v'] m IH]; intros k; cbn [alookup map fst In].
    - split; [intros _ H; exact H | reflexivity].
    - destruct (str_eqb k k') eqn:E.
      + apply seqb_eq in E. subst. split; [discriminate | intros H; exfalso; apply H; left; reflexivity].
      + rewrite IH. split.
        * intros Hn [He | Hi]; [subst; rewrite seqb_refl in E; discriminate | exact (Hn Hi)].
        * intros Hn Hi. apply Hn. right. exact Hi.
  Qed.

  Lemma In_alookup : forall m k v, NoDup (map fst m) -> In (k, v) m -> alookup str_eqb k m = Some v.
  Proof.
    induction m as [|[k' v'] m IH]; intros k v Hnd Hin; [destruct Hin|].
    cbn [map fst] in Hnd. inversion Hnd as [|? ? Hnotin Hnd']; subst.
    cbn [alookup]. destruct Hin as [He | Hin].
    - inversion He; subst. rewrite seqb_refl. reflexivity.
    - destruct (str_eqb k k') eqn:E.
      + apply seqb_eq in E. subst. exfalso. apply Hnotin.
        apply in_map_iff. exists (k', v). split; [reflexivity | exact Hin].
      + apply IH; assumption.
  Qed.

  Lemma alookup_In_iff : forall m k v, NoDup (map fst m) ->
    (In (k, v) m <-> alookup str_eqb k m = Some v).
  Proof. intros m k v Hnd. split; [apply In_alookup; exact Hnd | apply alookup_In]. Qed.

  Lemma aremove_keys : forall m k k', In k' (map fst (aremove str_eqb k m)) <->
    In k' (map fst m) /\ k' <> k.
  Proof.
    induction m as [|[k0 v0] m IH]; intros k k'; cbn [aremove map fst In].
    - split; [intros [] | intros [[] _]].
    - destruct (str_eqb k k0) eqn:E.
      + apply seqb_eq in E. subst k0. rewrite IH. split.
        * intros [Hi Hne]. split; [right; exact Hi | exact Hne].
        * intros [[He | Hi] Hne]; [subst; contradiction | split; assumption].
      + cbn [map fst In]. rewrite IH. split.
        * intros [He | [Hi Hne]]; [|split; [right; exact Hi | exact Hne]].
          subst k'. split; [left; reflexivity|]. intros He. subst. rewrite seqb_refl in E. discriminate.
        * intros [[He | Hi] Hne]; [left; exact He | right; split; assumption].
  Qed.

  Lemma aremove_NoDup : forall m k, NoDup (map fst m) -> NoDup (map fst (aremove str_eqb k m)).
  Proof.
    induction m as [|[k0 v0] m IH]; intros k Hnd; cbn [aremove map fst]; [constructor|].
    cbn [map fst] in Hnd. inversion Hnd as [|? ? Hnotin Hnd']; subst.
    destruct (str_eqb k k0); [apply IH; exact Hnd'|].
    cbn [map fst]. constructor; [|apply IH; exact Hnd'].
    intros Hi. apply aremove_keys in Hi. apply Hnotin. apply Hi.
  Qed.

  Lemma aremove_notin : forall m k, ~ In k (map fst m) -> aremove str_eqb k m = m.
  Proof.
    induction m as [|[k0 v0] m IH]; intros k Hn; cbn [aremove]; [reflexivity|].
    cbn [map fst In] in Hn. destruct (str_eqb k k0) eqn:E.
    - apply seqb_eq in E. subst. exfalso. apply Hn. left. reflexivity.
    - f_equal. apply IH. intros Hi. apply Hn. right. exact Hi.
  Qed.

  Lemma ainsert_NoDup : forall m k v, NoDup (map fst m) -> NoDup (map fst (ainsert str_eqb k v m)).
  Proof.
    intros m k v Hnd. unfold ainsert. cbn [map fst]. constructor.
    - intros Hi. apply aremove_keys in Hi. destruct Hi as [_ Hne]. apply Hne. reflexivity.
    - apply aremove_NoDup. exact Hnd.
  Qed.

  Lemma alookup_aremove_other : forall m k k', k' <> k ->
    alookup str_eqb k' (aremove str_eqb k m) = alookup str_eqb k' m.
  Proof.
    induction m as [|[k0 v0] m IH]; intros k k' Hne; cbn [aremove alookup]; [reflexivity|].
    destruct (str_eqb k k0) eqn:E.
    - apply seqb_eq in E. subst k0. rewrite (seqb_neq k' k Hne). apply IH. exact Hne.
    - cbn [alookup]. destruct (str_eqb k' k0); [reflexivity | apply IH; exact Hne].
  Qed.

  Lemma alookup_ainsert_same : forall m k v, alookup str_eqb k (ainsert str_eqb k v m) = Some v.
  Proof. intros m k v. unfold ainsert. cbn [alookup]. rewrite seqb_refl. reflexivity. Qed.

  Lemma alookup_ainsert_other : forall m k v k', k' <> k ->
    alookup str_eqb k' (ainsert str_eqb k v m) = alookup str_eqb k' m.
  Proof.
    intros m k v k' Hne. unfold ainsert. cbn [alookup]. rewrite (seqb_neq k' k Hne).
    apply alookup_aremove_other. exact Hne.
  Qed.
End Alist.

(** * 2. strip_prefix / strip_suffix *)

Lemma strip_prefix_spec : forall p s r, strip_prefix p s = Some r <-> s = p ++ r.
Proof.
  induction p as [|x p IH]; intros s r; cbn [strip_prefix app].
  - split; intros H; [inversion H; reflexivity | subst; reflexivity].
  - destruct s as [|y s].
    + split; intros H; discriminate.
    + destruct (N.eqb x y) eqn:E.
      * apply N.eqb_eq in E. subst y. rewrite IH. split; intros H; [subst; reflexivity|].
        inversion H. reflexivity.
      * apply N.eqb_neq in E. split; [discriminate|]. intros H. inversion H. subst. contradiction.
Qed.

Lemma strip_suffix_spec : forall p s r, strip_suffix p s = Some r <-> s = r ++ p.
Proof.
  intros p s r. unfold strip_suffix. destruct (strip_prefix (rev p) (rev s)) as [q|] eqn:E.
  - apply strip_prefix_spec in E. split; intros H.
    + inversion H; subst. rewrite <- (rev_involutive s), E, rev_app_distr, rev_involutive.
      reflexivity.
    + subst s. rewrite rev_app_distr in E. apply app_inv_head in E. subst q.
      rewrite rev_involutive. reflexivity.
  - split; [discriminate|]. intros H. subst s. rewrite rev_app_distr in E.
    assert (Hs : strip_prefix (rev p) (rev p ++ rev r) = Some (rev r))
      by (apply strip_prefix_spec; reflexivity).
    rewrite Hs in E. discriminate.
Qed.

Lemma strip_suffix_app : forall p r, strip_suffix p (r ++ p) = Some r.
Proof. intros p r. apply strip_suffix_spec. reflexivity. Qed.

Lemma strip_suffix_none : forall p s, (forall r, s <> r ++ p) -> strip_suffix p s = None.
Proof.
  intros p s H. destruct (strip_suffix p s) as [r|] eqn:E; [|reflexivity].
  apply strip_suffix_spec in E. exfalso. exact (H r E).
Qed.

(** * 3. split *)

Lemma split_nonempty : forall sep s, split sep s <> [].
Proof.
  intros sep [|c s]; cbn [split]; [discriminate|].
  destruct (N.eqb c sep); [discriminate|]. destruct (split sep s); discriminate.
Qed.

Lemma split_nosep : forall sep b, ~ In sep b -> split sep b = [b].
Proof.
  induction b as [|c b IH]; intros Hn; cbn [split]; [reflexivity|].
  destruct (N.eqb c sep) eqn:E.
  - apply N.eqb_eq in E. subst. exfalso. apply Hn. left. reflexivity.
  - rewrite IH; [reflexivity|]. intros Hi. apply Hn. right. exact Hi.
Qed.

Lemma split_app_sep : forall sep a b, split sep (a ++ sep :: b) = split sep a ++ split sep b.
Proof.
  induction a as [|c a IH]; intros b; cbn [split app].
  - rewrite N.eqb_refl. reflexivity.
  - destruct (N.eqb c sep); [rewrite IH; reflexivity|].
    rewrite IH. destruct (split sep a) as [|seg segs] eqn:E; [|reflexivity].
    exfalso. exact (split_nonempty _ _ E).
Qed.

(** appending a separator-free string extends the last segment *)
Lemma split_app_nosep : forall sep a b, ~ In sep b ->
  exists pre lst, split sep a = pre ++ [lst] /\ split sep (a ++ b) = pre ++ [lst ++ b].
Proof.
  induction a as [|c a IH]; intros b Hn.
  - exists [], []. cbn [app split]. split; [reflexivity | apply split_nosep; exact Hn].
  - destruct (IH b Hn) as [pre [lst [Ha Hab]]]. cbn [split app]. destruct (N.eqb c sep).
    + exists ([] :: pre), lst. rewrite Ha, Hab. split; reflexivity.
    + rewrite Ha, Hab. destruct pre as [|p pre]; cbn [app].
      * exists [], (c :: lst). split; reflexivity.
      * exists ((c :: p) :: pre), lst. split; reflexivity.
Qed.

(** the last segment is empty exactly for the empty string and for strings ending with [sep] *)
Lemma split_last_empty : forall sep a pre lst, split sep a = pre ++ [lst] ->
  (lst = [] <-> a = [] \/ exists a', a = a' ++ [sep]).
Proof.
  intros sep a pre lst Hs. destruct a as [|c0 a0].
  - cbn [split] in Hs. change [@nil N] with ([] ++ [@nil N]) in Hs.
    apply app_inj_tail in Hs. destruct Hs as [_ Hl]. subst lst.
    split; [intros _; left; reflexivity | reflexivity].
  - assert (Hne0 : c0 :: a0 <> []) by discriminate.
    destruct (exists_last Hne0) as [a' [x Hx]]. rewrite Hx in *. clear Hx Hne0.
    destruct (N.eq_dec x sep) as [He | Hne].
    + subst x. rewrite split_app_sep in Hs. cbn [split] in Hs.
      apply app_inj_tail in Hs. destruct Hs as [_ Hl]. subst lst.
      split; [intros _; right; exists a'; reflexivity | reflexivity].
    + assert (Hn : ~ In sep [x]) by (intros [Hi | []]; subst; apply Hne; reflexivity).
      destruct (split_app_nosep sep a' [x] Hn) as [pre' [lst' [_ Hab]]].
      rewrite Hab in Hs. apply app_inj_tail in Hs. destruct Hs as [_ Hl]. subst lst.
      split.
      * intros He. destruct lst'; discriminate.
      * intros [He | [a'' He]].
        -- destruct a'; discriminate.
        -- apply app_inj_tail in He. destruct He as [_ He]. subst. exfalso. apply Hne. reflexivity.
Qed.

Lemma split_singleton_nil : forall sep s, split sep s = [[]] -> s = [].
Proof.
  intros sep [|c s] H; [reflexivity|]. cbn [split] in H. destruct (N.eqb c sep).
  - inversion H as [Hs]. exfalso. exact (split_nonempty _ _ Hs).
  - destruct (split sep s); discriminate.
Qed.

(** * 4. Paths: the extension of "label.bdd" *)

Lemma admissible_iff : forall l,
  admissible l <-> ~ (l = [] \/ exists a, l = a ++ [c_slash]).
Proof.
  intros l. unfold admissible. split.
  - intros [Hne Hlast] [He | [a He]]; [contradiction|].
    subst l. rewrite last_last in Hlast. apply Hlast. reflexivity.
  - intros H. assert (Hne : l <> []) by (intros He; apply H; left; exact He).
    split; [exact Hne|]. intros Hl. destruct (exists_last Hne) as [a [x Hx]]. subst l.
    rewrite last_last in Hl. subst x. apply H. right. exists a. reflexivity.
Qed.

Lemma admissible_dec : forall l, {admissible l} + {~ admissible l}.
Proof.
  intros l. unfold admissible. destruct l as [|c l].
  - right. intros [H _]. apply H. reflexivity.
  - destruct (N.eq_dec (last (c :: l) 0%N) c_slash) as [He | Hne].
    + right. intros [_ H]. contradiction.
    + left. split; [discriminate | exact Hne].
Qed.

Lemma not_in_slash_dot_bdd : ~ In c_slash s_dot_bdd.
Proof. cbv. intros H. repeat (destruct H as [H | H]; [discriminate|]). exact H. Qed.

Lemma not_in_dot_bdd : ~ In c_dot s_bdd.
Proof. cbv. intros H. repeat (destruct H as [H | H]; [discriminate|]). exact H. Qed.

Lemma file_name_bdd : forall l pre lst, split c_slash l = pre ++ [lst] ->
  file_name (l ++ s_dot_bdd) = Some (lst ++ s_dot_bdd).
Proof.
  intros l pre lst Hs.
  destruct (split_app_nosep c_slash l s_dot_bdd not_in_slash_dot_bdd) as [pre' [lst' [Ha Hab]]].
  rewrite Hs in Ha. apply app_inj_tail in Ha. destruct Ha as [Hp Hl]. subst pre' lst'.
  unfold file_name. rewrite Hab, rev_app_distr. cbn [rev app skip_trivial].
  assert (Hlen : forall t : str, length t < 4 -> str_eqb (lst ++ s_dot_bdd) t = false).
  { intros t Ht. apply seqb_neq. intros He. apply (f_equal (@length N)) in He.
    rewrite app_length in He. cbn [length s_dot_bdd s_bdd] in He. lia. }
  assert (He : is_empty (lst ++ s_dot_bdd) = false) by (destruct lst; reflexivity).
  rewrite He, (Hlen s_dot) by (cbn; lia). cbn [orb].
  rewrite (Hlen s_dotdot) by (cbn; lia). reflexivity.
Qed.

Lemma extension_of_file_name_bdd : forall lst,
  extension_of_file_name (lst ++ s_dot_bdd) = if is_empty lst then None else Some s_bdd.
Proof.
  intros lst. unfold extension_of_file_name, s_dot_bdd.
  rewrite split_app_sep, (split_nosep c_dot s_bdd not_in_dot_bdd), rev_app_distr.
  cbn [rev app]. destruct (rev (split c_dot lst)) as [|bl rest] eqn:E.
  - exfalso. apply (f_equal (@rev str)) in E. rewrite rev_involutive in E.
    exact (split_nonempty _ _ E).
  - destruct lst as [|c lst]; [cbn in E; inversion E; reflexivity|].
    cbn [is_empty]. destruct bl as [|x bl]; [|reflexivity]. destruct rest as [|r rest]; [|reflexivity].
    exfalso. apply (f_equal (@rev str)) in E. rewrite rev_involutive in E. cbn [rev app] in E.
    apply split_singleton_nil in E. discriminate.
Qed.

Lemma split_ends : forall sep a, exists pre lst, split sep a = pre ++ [lst].
Proof.
  intros sep a. assert (Hn : ~ In sep []) by (intros []).
  destruct (split_app_nosep sep a [] Hn) as [pre [lst [H _]]]. exists pre, lst. exact H.
Qed.

Lemma extension_bdd_admissible : forall l, admissible l -> extension (l ++ s_dot_bdd) = Some s_bdd.
Proof.
  intros l Hadm. destruct (split_ends c_slash l) as [pre [lst Hs]].
  unfold extension. rewrite (file_name_bdd l pre lst Hs), extension_of_file_name_bdd.
  destruct lst as [|c lst]; [|reflexivity]. exfalso.
  apply admissible_iff in Hadm. apply Hadm. apply (split_last_empty _ _ _ _ Hs). reflexivity.
Qed.

Lemma extension_bdd_inadmissible : forall l, ~ admissible l -> extension (l ++ s_dot_bdd) = None.
Proof.
  intros l Hadm. destruct (split_ends c_slash l) as [pre [lst Hs]].
  unfold extension. rewrite (file_name_bdd l pre lst Hs), extension_of_file_name_bdd.
  destruct lst as [|c lst]; [reflexivity|]. exfalso. apply Hadm. apply admissible_iff.
  intros H. apply (split_last_empty _ _ _ _ Hs) in H. discriminate.
Qed.

(** the exact condition under which the entry written for a label is read back *)
Lemma extension_bdd_iff : forall l, extension (l ++ s_dot_bdd) = Some s_bdd <-> admissible l.
Proof.
  intros l. split; [|apply extension_bdd_admissible].
  intros H. destruct (admissible_dec l) as [Ha | Hn]; [exact Ha|].
  rewrite (extension_bdd_inadmissible l Hn) in H. discriminate.
Qed.

Lemma is_bdd_label : forall l,
  opt_eqb str_eqb (extension (l ++ s_dot_bdd)) (Some s_bdd) = true <-> admissible l.
Proof.
  intros l. rewrite <- extension_bdd_iff. destruct (extension (l ++ s_dot_bdd)) as [e|]; cbn [opt_eqb].
  - rewrite seqb_eq. split; intros H; [subst; reflexivity | inversion H; reflexivity].
  - split; discriminate.
Qed.

(** * 5. The archive writer / loader round trip *)

Lemma bdd_name_inj : forall l l', l ++ s_dot_bdd = l' ++ s_dot_bdd -> l = l'.
Proof. intros l l' H. apply app_inv_tail in H. exact H. Qed.

Lemma model_aeon_not_bdd : forall l, s_model_aeon <> l ++ s_dot_bdd.
Proof.
  intros l H. assert (Hs : strip_suffix s_dot_bdd s_model_aeon = None) by reflexivity.
  rewrite H, strip_suffix_app in Hs. discriminate.
Qed.

Lemma formulae_txt_not_bdd : forall l, s_formulae_txt <> l ++ s_dot_bdd.
Proof.
  intros l H. assert (Hs : strip_suffix s_dot_bdd s_formulae_txt = None) by reflexivity.
  rewrite H, strip_suffix_app in Hs. discriminate.
Qed.

Lemma model_aeon_ext : opt_eqb str_eqb (extension s_model_aeon) (Some s_bdd) = false.
Proof. reflexivity. Qed.

Lemma formulae_txt_ext : opt_eqb str_eqb (extension s_formulae_txt) (Some s_bdd) = false.
Proof. reflexivity. Qed.

Lemma by_name_In : forall (a : archive) n c, NoDup (map fst a) -> In (n, c) a ->
  by_name n a = Some c.
Proof.
  intros a n c Hnd Hin. unfold by_name. apply In_alookup.
  - rewrite map_rev. apply NoDup_rev. exact Hnd.
  - apply in_rev in Hin. exact Hin.
Qed.

Lemma dedup_NoDup_id : forall l, NoDup l -> dedup l = l.
Proof.
  induction l as [|x l IH]; intros Hnd; cbn [dedup]; [reflexivity|].
  inversion Hnd as [|? ? Hnotin Hnd']; subst.
  destruct (existsb (str_eqb x) l) eqn:E.
  - apply existsb_seqb in E. contradiction.
  - rewrite IH; [reflexivity | exact Hnd'].
Qed.

Lemma dedup_In : forall l x, In x (dedup l) <-> In x l.
Proof.
  induction l as [|y l IH]; intros x; cbn [dedup]; [reflexivity|].
  destruct (existsb (str_eqb y) l) eqn:E.
  - rewrite IH. apply existsb_seqb in E. split; [intros H; right; exact H|].
    intros [He | H]; [subst; exact E | exact H].
  - cbn [In]. rewrite IH. reflexivity.
Qed.

Lemma dedup_NoDup : forall l, NoDup (dedup l).
Proof.
  induction l as [|y l IH]; cbn [dedup]; [constructor|].
  destruct (existsb (str_eqb y) l) eqn:E; [exact IH|].
  constructor; [|exact IH]. rewrite dedup_In. intros H. apply existsb_seqb in H.
  rewrite H in E. discriminate.
Qed.

(** the executable [file_names] is one of the possible results of [ZipArchive::file_names] *)
Lemma file_names_ok : forall a, is_file_names a (file_names a).
Proof. intros a. split; [apply dedup_NoDup | intros n; apply dedup_In]. Qed.

Section RoundTrip.
  Variable print : tt -> str.
  Variable parse : str -> option tt.
  Hypothesis parse_print : forall b, parse (print b) = Some b.

  Local Notation build := (build_result_archive print).
  Local Notation loadn := (load_names parse).

  Lemma build_length : forall (sets : setmap) model fs,
    length (build sets model fs) = length sets + 2.
  Proof.
    intros sets model fs. unfold build_result_archive. rewrite app_length, map_length.
    reflexivity.
  Qed.

  Lemma build_names : forall (sets : setmap) model fs,
    map fst (build sets model fs)
    = map (fun l => l ++ s_dot_bdd) (map fst sets) ++ [s_model_aeon; s_formulae_txt].
  Proof.
    intros sets model fs. unfold build_result_archive. rewrite map_app, !map_map. reflexivity.
  Qed.

  Lemma bdd_names_NoDup : forall ls : list str, NoDup ls ->
    NoDup (map (fun l => l ++ s_dot_bdd) ls ++ [s_model_aeon; s_formulae_txt]).
  Proof.
    induction ls as [|l ls IH]; intros Hnd; cbn [map app].
    - constructor; [intros [H | []]; discriminate|]. constructor; [intros []|constructor].
    - inversion Hnd as [|? ? Hnotin Hnd']; subst. constructor; [|apply IH; exact Hnd'].
      intros Hin. apply in_app_or in Hin. destruct Hin as [Hin | [He | [He | []]]].
      + apply in_map_iff in Hin. destruct Hin as [l' [He Hl']]. apply bdd_name_inj in He.
        subst l'. contradiction.
      + exact (model_aeon_not_bdd l He).
      + exact (formulae_txt_not_bdd l He).
  Qed.

  Lemma build_names_NoDup : forall (sets : setmap) model fs, NoDup (map fst sets) ->
    NoDup (map fst (build sets model fs)).
  Proof. intros sets model fs Hnd. rewrite build_names. apply bdd_names_NoDup. exact Hnd. Qed.

  Lemma by_name_build_set : forall (sets : setmap) model fs l b, NoDup (map fst sets) ->
    In (l, b) sets -> by_name (l ++ s_dot_bdd) (build sets model fs) = Some (print b).
  Proof.
    intros sets model fs l b Hnd Hin. apply by_name_In; [apply build_names_NoDup; exact Hnd|].
    unfold build_result_archive. apply in_or_app. left.
    apply in_map_iff. exists (l, b). split; [reflexivity | exact Hin].
  Qed.

  (** the two metadata entries are found whatever the labels are (they are the last two
      entries and no "*.bdd" name can hide them) *)
  Lemma by_name_build_model : forall (sets : setmap) model fs,
    by_name s_model_aeon (build sets model fs) = Some model.
  Proof.
    intros sets model fs. unfold by_name, build_result_archive. rewrite rev_app_distr.
    cbn [rev app alookup].
    assert (H : str_eqb s_model_aeon s_formulae_txt = false) by reflexivity.
    rewrite H, seqb_refl. reflexivity.
  Qed.

  Lemma by_name_build_formulae : forall (sets : setmap) model fs,
    by_name s_formulae_txt (build sets model fs) = Some (formulae_txt fs).
  Proof.
    intros sets model fs. unfold by_name, build_result_archive. rewrite rev_app_distr.
    cbn [rev app alookup]. rewrite seqb_refl. reflexivity.
  Qed.

  (** entries that are not "*.bdd" files are skipped, whatever the archive *)
  Lemma load_names_skip : forall n names a acc,
    opt_eqb str_eqb (extension n) (Some s_bdd) = false ->
    loadn (n :: names) a acc = loadn names a acc.
  Proof. intros n names a acc H. cbn [load_names]. rewrite H. reflexivity. Qed.

  Lemma load_names_skip_metadata : forall n names a acc,
    n = s_model_aeon \/ n = s_formulae_txt -> loadn (n :: names) a acc = loadn names a acc.
  Proof.
    intros n names a acc [H | H]; subst n; apply load_names_skip; reflexivity.
  Qed.

  (** what the loop has established after visiting [names]: the visited admissible labels
      are bound as in [sets], everything else is as in the accumulator *)
  Definition loaded_post (sets : setmap) (names : list str) (acc m : setmap) : Prop :=
    (NoDup (map fst acc) -> NoDup (map fst m)) /\
    forall l,
      (In (l ++ s_dot_bdd) names -> admissible l ->
       alookup str_eqb l m = alookup str_eqb l sets) /\
      (~ (In (l ++ s_dot_bdd) names /\ admissible l) ->
       alookup str_eqb l m = alookup str_eqb l acc).

  Lemma loaded_post_skip : forall sets n names acc m,
    (forall l, n = l ++ s_dot_bdd -> ~ admissible l) ->
    loaded_post sets names acc m -> loaded_post sets (n :: names) acc m.
  Proof.
    intros sets n names acc m Hn [Hnd Hl]. split; [exact Hnd|]. intros l. split.
    - intros [He | Hin] Ha; [exfalso; exact (Hn l He Ha) | apply Hl; assumption].
    - intros Hnot. apply Hl. intros [Hin Ha]. apply Hnot. split; [right; exact Hin | exact Ha].
  Qed.

  Lemma load_names_build : forall (sets : setmap) model fs, NoDup (map fst sets) ->
    forall names acc, NoDup names ->
      (forall n, In n names -> In n (map fst (build sets model fs))) ->
      exists m, loadn names (build sets model fs) acc = LOk m /\ loaded_post sets names acc m.
  Proof.
    intros sets model fs Hsets. induction names as [|n rest IH]; intros acc Hnd Hsub.
    - exists acc. split; [reflexivity|]. split; [intros H; exact H|].
      intros l. split; [intros [] | reflexivity].
    - inversion Hnd as [|? ? Hnotin Hnd']; subst.
      assert (Hsub' : forall n', In n' rest -> In n' (map fst (build sets model fs)))
        by (intros n' Hn'; apply Hsub; right; exact Hn').
      assert (Hn : In n (map fst (build sets model fs))) by (apply Hsub; left; reflexivity).
      rewrite build_names in Hn. apply in_app_or in Hn. destruct Hn as [Hn | Hn].
      + apply in_map_iff in Hn. destruct Hn as [l0 [He Hl0]]. subst n.
        apply in_map_iff in Hl0. destruct Hl0 as [[l0' b0] [He Hin0]]. cbn [fst] in He. subst l0'.
        destruct (admissible_dec l0) as [Ha0 | Hna0].
        * destruct (IH (ainsert str_eqb l0 b0 acc) Hnd' Hsub') as [m [Hm [Hndm Hl]]].
          exists m. split.
          { cbn [load_names]. rewrite (proj2 (is_bdd_label l0) Ha0), strip_suffix_app.
            rewrite (by_name_build_set sets model fs l0 b0 Hsets Hin0), parse_print. exact Hm. }
          split; [intros Hacc; apply Hndm; apply ainsert_NoDup; exact Hacc|].
          intros l. destruct (str_eq_dec l l0) as [He | Hne].
          -- subst l. split.
             ++ intros _ _. destruct (Hl l0) as [_ H2]. rewrite H2.
                ** rewrite alookup_ainsert_same. symmetry. apply In_alookup; assumption.
                ** intros [Hin _]. contradiction.
             ++ intros Hnot. exfalso. apply Hnot. split; [left; reflexivity | exact Ha0].
          -- split.
             ++ intros [He | Hin] Ha; [apply bdd_name_inj in He; subst; contradiction|].
                apply Hl; assumption.
             ++ intros Hnot. destruct (Hl l) as [_ H2]. rewrite H2.
                ** apply alookup_ainsert_other. exact Hne.
                ** intros [Hin Ha]. apply Hnot. split; [right; exact Hin | exact Ha].
        * destruct (IH acc Hnd' Hsub') as [m [Hm Hpost]]. exists m. split.
          { rewrite load_names_skip; [exact Hm|].
            destruct (opt_eqb str_eqb (extension (l0 ++ s_dot_bdd)) (Some s_bdd)) eqn:E;
              [|reflexivity].
            apply is_bdd_label in E. contradiction. }
          apply loaded_post_skip; [|exact Hpost].
          intros l He. apply bdd_name_inj in He. subst l. exact Hna0.
      + assert (Hmeta : n = s_model_aeon \/ n = s_formulae_txt).
        { destruct Hn as [H | [H | []]]; [left | right]; symmetry; exact H. }
        destruct (IH acc Hnd' Hsub') as [m [Hm Hpost]]. exists m. split.
        { rewrite load_names_skip_metadata; [exact Hm | exact Hmeta]. }
        apply loaded_post_skip; [|exact Hpost].
        intros l He. exfalso. destruct Hmeta as [H | H]; subst n;
          [exact (model_aeon_not_bdd l He) | exact (formulae_txt_not_bdd l He)].
  Qed.

  (** Round trip, whatever the iteration orders: the loader succeeds and the loaded map binds
      exactly the admissible labels of [sets], to the same sets. *)
  Theorem roundtrip_general : forall (sets : setmap) model fs names,
    NoDup (map fst sets) -> is_file_names (build sets model fs) names ->
    exists m, loadn names (build sets model fs) [] = LOk m /\
      NoDup (map fst m) /\
      forall l, alookup str_eqb l m
                = if admissible_dec l then alookup str_eqb l sets else None.
  Proof.
    intros sets model fs names Hsets [Hnd Hnames].
    destruct (load_names_build sets model fs Hsets names [] Hnd) as [m [Hm [Hndm Hl]]].
    { intros n Hn. apply Hnames. exact Hn. }
    exists m. split; [exact Hm|]. split; [apply Hndm; constructor|].
    intros l. destruct (admissible_dec l) as [Ha | Hna].
    - destruct (in_dec str_eq_dec (l ++ s_dot_bdd) names) as [Hin | Hnin].
      + apply Hl; assumption.
      + destruct (Hl l) as [_ H2]. rewrite H2; [|intros [Hin _]; contradiction].
        cbn [alookup]. symmetry. apply alookup_None. intros Hk. apply Hnin. apply Hnames.
        rewrite build_names. apply in_or_app. left. apply (in_map (fun l => l ++ s_dot_bdd)). exact Hk.
    - destruct (Hl l) as [_ H2]. rewrite H2; [reflexivity|]. intros [_ Ha]. contradiction.
  Qed.

  Theorem roundtrip_general_entries : forall (sets : setmap) model fs names,
    NoDup (map fst sets) -> is_file_names (build sets model fs) names ->
    exists m, loadn names (build sets model fs) [] = LOk m /\
      NoDup (map fst m) /\
      forall l b, In (l, b) m <-> In (l, b) sets /\ admissible l.
  Proof.
    intros sets model fs names Hsets Hnames.
    destruct (roundtrip_general sets model fs names Hsets Hnames) as [m [Hm [Hndm Hl]]].
    exists m. split; [exact Hm|]. split; [exact Hndm|]. intros l b.
    rewrite (alookup_In_iff m l b Hndm), (alookup_In_iff sets l b Hsets), Hl.
    destruct (admissible_dec l) as [Ha | Hna].
    - split; [intros H; split; [exact H | exact Ha] | intros [H _]; exact H].
    - split; [discriminate | intros [_ Ha]; contradiction].
  Qed.

  Lemma same_lookup_same_entries : forall (m sets : setmap),
    NoDup (map fst m) -> NoDup (map fst sets) ->
    (forall l, alookup str_eqb l m = alookup str_eqb l sets) ->
    forall l b, In (l, b) m <-> In (l, b) sets.
  Proof.
    intros m sets Hm Hs Hl l b. rewrite (alookup_In_iff m l b Hm), (alookup_In_iff sets l b Hs), Hl.
    reflexivity.
  Qed.

  (** Round trip for admissible labels: the same association list up to order *)
  Theorem roundtrip : forall (sets : setmap) model fs names,
    NoDup (map fst sets) -> Forall admissible (map fst sets) ->
    is_file_names (build sets model fs) names ->
    exists m, loadn names (build sets model fs) [] = LOk m /\
      NoDup (map fst m) /\
      (forall l, alookup str_eqb l m = alookup str_eqb l sets) /\
      (forall l b, In (l, b) m <-> In (l, b) sets) /\
      length m = length sets.
  Proof.
    intros sets model fs names Hsets Hadm Hnames.
    destruct (roundtrip_general sets model fs names Hsets Hnames) as [m [Hm [Hndm Hl]]].
    assert (Hlk : forall l, alookup str_eqb l m = alookup str_eqb l sets).
    { intros l. rewrite Hl. destruct (admissible_dec l) as [Ha | Hna]; [reflexivity|].
      symmetry. apply alookup_None. intros Hk. apply Hna.
      rewrite Forall_forall in Hadm. apply Hadm. exact Hk. }
    assert (Hin : forall l b, In (l, b) m <-> In (l, b) sets)
      by (apply same_lookup_same_entries; assumption).
    exists m. split; [exact Hm|]. split; [exact Hndm|]. split; [exact Hlk|]. split; [exact Hin|].
    assert (Hkeys : forall k, In k (map fst m) <-> In k (map fst sets)).
    { intros k. rewrite !in_map_iff. split; intros [[l b] [He Hi]]; exists (l, b);
        (split; [exact He | apply Hin; exact Hi]). }
    rewrite <- (map_length fst m), <- (map_length fst sets).
    apply Nat.le_antisymm; apply NoDup_incl_length; try assumption; intros k Hk; apply Hkeys; exact Hk.
  Qed.

  Lemma load_names_exact : forall (sets : setmap) model fs,
    NoDup (map fst sets) -> Forall admissible (map fst sets) ->
    forall s2 s1, sets = s1 ++ s2 ->
      loadn (map (fun ls => fst ls ++ s_dot_bdd) s2 ++ [s_model_aeon; s_formulae_txt])
            (build sets model fs) (rev s1) = LOk (rev sets).
  Proof.
    intros sets model fs Hsets Hadm. induction s2 as [|[l b] s2 IH]; intros s1 He.
    - cbn [map app]. rewrite !load_names_skip_metadata by (auto). cbn [load_names].
      rewrite He, app_nil_r. reflexivity.
    - assert (Hin : In (l, b) sets) by (rewrite He; apply in_or_app; right; left; reflexivity).
      assert (Ha : admissible l).
      { rewrite Forall_forall in Hadm. apply Hadm. apply in_map_iff. exists (l, b).
        split; [reflexivity | exact Hin]. }
      cbn [map app fst load_names].
      rewrite (proj2 (is_bdd_label l) Ha), strip_suffix_app.
      rewrite (by_name_build_set sets model fs l b Hsets Hin), parse_print.
      assert (Hnotin : ~ In l (map fst (rev s1))).
      { rewrite He, map_app in Hsets. cbn [map fst] in Hsets. apply NoDup_remove_2 in Hsets.
        intros Hi. apply Hsets. apply in_or_app. left. rewrite map_rev in Hi.
        apply in_rev in Hi. exact Hi. }
      unfold ainsert. rewrite (aremove_notin _ _ Hnotin), <- rev_unit.
      apply IH. rewrite <- app_assoc. exact He.
  Qed.

  (** Round trip with the entries visited in archive order: exactly [sets], in reverse
      insertion order *)
  Theorem roundtrip_exact : forall (sets : setmap) model fs,
    NoDup (map fst sets) -> Forall admissible (map fst sets) ->
    load_bdd_bundle parse (build sets model fs) = LOk (rev sets).
  Proof.
    intros sets model fs Hsets Hadm. unfold load_bdd_bundle, file_names.
    rewrite (dedup_NoDup_id _ (build_names_NoDup sets model fs Hsets)), build_names, map_map.
    apply (load_names_exact sets model fs Hsets Hadm sets []). reflexivity.
  Qed.
End RoundTrip.

(** * 6. lines *)

Lemma split_inclusive_concat : forall s, concat (split_inclusive s) = s.
Proof.
  induction s as [|c s IH]; cbn [split_inclusive]; [reflexivity|].
  destruct (N.eqb c c_nl).
  - cbn [concat app]. rewrite IH. reflexivity.
  - destruct (split_inclusive s) as [|p ps]; cbn [concat app] in *; rewrite <- IH; reflexivity.
Qed.

Lemma split_inclusive_line : forall f rest, ~ In c_nl f ->
  split_inclusive (f ++ c_nl :: rest) = (f ++ [c_nl]) :: split_inclusive rest.
Proof.
  induction f as [|c f IH]; intros rest Hn; cbn [app split_inclusive].
  - rewrite N.eqb_refl. reflexivity.
  - destruct (N.eqb c c_nl) eqn:E.
    + apply N.eqb_eq in E. exfalso. apply Hn. left. exact E.
    + rewrite IH; [reflexivity|]. intros Hi. apply Hn. right. exact Hi.
Qed.

Lemma split_inclusive_rest : forall f, ~ In c_nl f -> f <> [] -> split_inclusive f = [f].
Proof.
  induction f as [|c f IH]; intros Hn Hne; [contradiction|]. cbn [split_inclusive].
  destruct (N.eqb c c_nl) eqn:E.
  - apply N.eqb_eq in E. exfalso. apply Hn. left. exact E.
  - destruct f as [|d f]; [reflexivity|]. rewrite IH; [reflexivity | | discriminate].
    intros Hi. apply Hn. right. exact Hi.
Qed.

Lemma split_inclusive_pieces : forall s p, In p (split_inclusive s) ->
  exists body, ~ In c_nl body /\ (p = body ++ [c_nl] \/ p = body).
Proof.
  induction s as [|c s IH]; intros p Hp; cbn [split_inclusive] in Hp; [destruct Hp|].
  destruct (N.eqb c c_nl) eqn:E.
  - destruct Hp as [He | Hp]; [|apply IH; exact Hp]. apply N.eqb_eq in E. subst.
    exists []. split; [intros []|left; reflexivity].
  - apply N.eqb_neq in E. destruct (split_inclusive s) as [|q qs].
    + destruct Hp as [He | []]. subst p. exists [c]. split; [|right; reflexivity].
      intros [Hi | []]. apply E. exact Hi.
    + destruct Hp as [He | Hp]; [|apply IH; right; exact Hp]. subst p.
      destruct (IH q (or_introl eq_refl)) as [body [Hb Hq]]. exists (c :: body). split.
      * intros [Hi | Hi]; [apply E; exact Hi | exact (Hb Hi)].
      * destruct Hq as [Hq | Hq]; subst q; [left | right]; reflexivity.
Qed.

Lemma lines_map_terminated : forall f, one_line f -> lines_map (f ++ [c_nl]) = f.
Proof.
  intros f [_ Hcr]. unfold lines_map. rewrite strip_suffix_app.
  rewrite strip_suffix_none; [reflexivity | exact Hcr].
Qed.

Lemma lines_map_unterminated : forall f, ~ In c_nl f -> lines_map f = f.
Proof.
  intros f Hn. unfold lines_map. rewrite strip_suffix_none; [reflexivity|].
  intros r He. apply Hn. rewrite He. apply in_or_app. right. left. reflexivity.
Qed.

(** the lines of a text never contain a line feed *)
Lemma lines_no_nl : forall s l, In l (lines s) -> ~ In c_nl l.
Proof.
  intros s l Hl. unfold lines in Hl. apply in_map_iff in Hl. destruct Hl as [p [He Hp]].
  destruct (split_inclusive_pieces s p Hp) as [body [Hb [Hq | Hq]]]; subst p.
  - unfold lines_map in He. rewrite strip_suffix_app in He.
    destruct (strip_suffix [c_cr] body) as [l'|] eqn:E; subst l; [|exact Hb].
    apply strip_suffix_spec in E. intros Hi. apply Hb. rewrite E. apply in_or_app. left. exact Hi.
  - rewrite (lines_map_unterminated body Hb) in He. subst l. exact Hb.
Qed.

(** what [writeln!] wrote line by line is read back line by line *)
Lemma lines_formulae_txt : forall fs, Forall one_line fs -> lines (formulae_txt fs) = fs.
Proof.
  induction fs as [|f fs IH]; intros Hall; [reflexivity|].
  inversion Hall as [|? ? Hf Hfs]; subst. unfold formulae_txt. cbn [map concat].
  rewrite <- app_assoc. cbn [app]. unfold lines.
  rewrite (split_inclusive_line f _ (proj1 Hf)). cbn [map].
  rewrite (lines_map_terminated f Hf). f_equal. apply IH. exact Hfs.
Qed.

Lemma join_nl_cons : forall f g fs, join_nl (f :: g :: fs) = f ++ c_nl :: join_nl (g :: fs).
Proof. reflexivity. Qed.

Lemma lines_join_nl : forall fs, Forall one_line fs -> Forall (fun f => f <> []) fs ->
  lines (join_nl fs) = fs.
Proof.
  induction fs as [|f fs IH]; intros Hall Hne; [reflexivity|].
  inversion Hall as [|? ? Hf Hfs]; subst. inversion Hne as [|? ? Hfne Hfsne]; subst.
  destruct fs as [|g fs].
  - cbn [join_nl]. unfold lines. rewrite (split_inclusive_rest f (proj1 Hf) Hfne). cbn [map].
    rewrite (lines_map_unterminated f (proj1 Hf)). reflexivity.
  - rewrite join_nl_cons. unfold lines. rewrite (split_inclusive_line f _ (proj1 Hf)). cbn [map].
    rewrite (lines_map_terminated f Hf). f_equal. apply IH; assumption.
Qed.

(** * 7. trim *)

Lemma skip_ws_spec : forall s, exists a, s = a ++ skip_ws s /\ forallb is_ws a = true /\
  (forall c r, skip_ws s = c :: r -> is_ws c = false).
Proof.
  induction s as [|c s IH]; cbn [skip_ws].
  - exists []. split; [reflexivity|]. split; [reflexivity | intros c r H; discriminate].
  - destruct (is_ws c) eqn:E.
    + destruct IH as [a [Hs [Ha Hh]]]. exists (c :: a). cbn [app forallb]. rewrite E, Ha.
      split; [f_equal; exact Hs|]. split; [reflexivity | exact Hh].
    + exists []. split; [reflexivity|]. split; [reflexivity|].
      intros c' r H. inversion H; subst. exact E.
Qed.

Lemma skip_ws_app_ws : forall a s, forallb is_ws a = true -> skip_ws (a ++ s) = skip_ws s.
Proof.
  induction a as [|c a IH]; intros s Ha; [reflexivity|]. cbn [forallb] in Ha.
  apply andb_true_iff in Ha. destruct Ha as [Hc Ha]. cbn [app skip_ws]. rewrite Hc.
  apply IH. exact Ha.
Qed.

Lemma skip_ws_nonws : forall c r, is_ws c = false -> skip_ws (c :: r) = c :: r.
Proof. intros c r H. cbn [skip_ws]. rewrite H. reflexivity. Qed.

Lemma skip_ws_all_ws : forall a, forallb is_ws a = true -> skip_ws a = [].
Proof.
  intros a Ha. rewrite <- (app_nil_r a). rewrite skip_ws_app_ws; [reflexivity | exact Ha].
Qed.

Lemma forallb_rev : forall (f : N -> bool) l, forallb f (rev l) = forallb f l.
Proof.
  intros f l. destruct (forallb f l) eqn:E.
  - rewrite forallb_forall in *. intros x Hx. apply E. apply in_rev. exact Hx.
  - destruct (forallb f (rev l)) eqn:E'; [|reflexivity].
    rewrite <- E. symmetry. rewrite forallb_forall in *. intros x Hx. apply E'.
    apply in_rev in Hx. exact Hx.
Qed.

(** [trim s] is the middle part of a decomposition [s = a ++ t ++ b] with [a], [b] white
    space and [t] without white space at its ends ... *)
Lemma trim_spec : forall s, exists a b,
  s = a ++ trim s ++ b /\ forallb is_ws a = true /\ forallb is_ws b = true /\ no_ws_ends (trim s).
Proof.
  intros s. unfold trim, trim_end, trim_start.
  destruct (skip_ws_spec s) as [a [Hs [Ha Hh]]].
  destruct (skip_ws_spec (rev (skip_ws s))) as [b' [Hr [Hb Hh']]].
  set (u := skip_ws s) in *. set (v := skip_ws (rev u)) in *.
  assert (Hu : u = rev v ++ rev b').
  { rewrite <- (rev_involutive u), Hr, rev_app_distr. reflexivity. }
  exists a, (rev b'). split; [rewrite <- Hu; exact Hs|]. split; [exact Ha|].
  split; [rewrite forallb_rev; exact Hb|]. split.
  - intros c r Hv. apply (Hh c (r ++ rev b')). rewrite Hu, Hv. reflexivity.
  - intros r c Hv. apply (Hh' c (rev r)). rewrite <- (rev_involutive v), Hv, rev_app_distr.
    reflexivity.
Qed.

(** ... and it is the only such middle part *)
Lemma trim_unique : forall s a t b, s = a ++ t ++ b ->
  forallb is_ws a = true -> forallb is_ws b = true -> no_ws_ends t -> trim s = t.
Proof.
  intros s a t b Hs Ha Hb [Hhd Hlast]. subst s. unfold trim, trim_end, trim_start.
  rewrite (skip_ws_app_ws a _ Ha). destruct t as [|c t].
  - cbn [app]. rewrite (skip_ws_all_ws b Hb). reflexivity.
  - cbn [app]. rewrite (skip_ws_nonws c _ (Hhd c t eq_refl)).
    change (c :: t ++ b) with ((c :: t) ++ b). rewrite rev_app_distr.
    rewrite skip_ws_app_ws by (rewrite forallb_rev; exact Hb).
    assert (Hne : c :: t <> []) by discriminate.
    destruct (exists_last Hne) as [r [x Hx]]. rewrite Hx, rev_unit.
    rewrite (skip_ws_nonws x _ (Hlast r x Hx)). rewrite <- rev_unit, rev_involutive. reflexivity.
Qed.

Lemma trim_fixed : forall t, no_ws_ends t -> trim t = t.
Proof.
  intros t Ht. apply (trim_unique t [] t []); [rewrite app_nil_r; reflexivity | | | exact Ht];
    reflexivity.
Qed.

Lemma trim_no_ws_ends : forall s, no_ws_ends (trim s).
Proof. intros s. destruct (trim_spec s) as [a [b [_ [_ [_ H]]]]]. exact H. Qed.

Lemma trim_idempotent : forall s, trim (trim s) = trim s.
Proof. intros s. apply trim_fixed. apply trim_no_ws_ends. Qed.

Lemma trim_In : forall s c, In c (trim s) -> In c s.
Proof.
  intros s c Hc. destruct (trim_spec s) as [a [b [Hs _]]]. rewrite Hs.
  apply in_or_app. right. apply in_or_app. left. exact Hc.
Qed.

(** * 8. load_formulae *)

Lemma keep_formula_spec : forall t,
  keep_formula t = true <-> t <> [] /\ hd_error t <> Some c_hash.
Proof.
  intros [|c t]; unfold keep_formula; cbn [is_empty negb andb peek_is hd_error].
  - split; [discriminate | intros [H _]; exfalso; apply H; reflexivity].
  - destruct (N.eqb c c_hash) eqn:E; cbn [negb].
    + apply N.eqb_eq in E. subst c. split; [discriminate|]. intros [_ H]. exfalso. apply H. reflexivity.
    + apply N.eqb_neq in E. split; [|reflexivity]. intros _. split; [discriminate|].
      intros H. inversion H. contradiction.
Qed.

Lemma kept_line_spec : forall l, kept_line l <-> keep_formula (trim l) = true.
Proof. intros l. unfold kept_line. rewrite keep_formula_spec. reflexivity. Qed.

Lemma increasing_map_S : forall idx, increasing idx -> increasing (map S idx).
Proof.
  induction idx as [|x idx IH]; intros H; cbn [map increasing] in *; [exact I|].
  destruct H as [Hx Hr]. split; [|apply IH; exact Hr].
  intros y Hy. apply in_map_iff in Hy. destruct Hy as [y' [He Hy']]. subst y.
  apply Hx in Hy'. lia.
Qed.

(** two strictly increasing lists with the same elements are equal *)
Lemma increasing_unique : forall l1 l2, increasing l1 -> increasing l2 ->
  (forall k, In k l1 <-> In k l2) -> l1 = l2.
Proof.
  induction l1 as [|x l1 IH]; intros [|y l2] H1 H2 Hk.
  - reflexivity.
  - exfalso. apply (Hk y). left. reflexivity.
  - exfalso. apply (Hk x). left. reflexivity.
  - cbn [increasing] in H1, H2. destruct H1 as [Hx H1]. destruct H2 as [Hy H2].
    assert (Hxy : x = y).
    { assert (Hx2 : In x (y :: l2)) by (apply Hk; left; reflexivity).
      assert (Hy1 : In y (x :: l1)) by (apply Hk; left; reflexivity).
      destruct Hx2 as [He | Hx2]; [symmetry; exact He|].
      destruct Hy1 as [He | Hy1]; [exact He|].
      apply Hy in Hx2. apply Hx in Hy1. lia. }
    subst y. f_equal. apply IH; [exact H1 | exact H2|]. intros k. split; intros Hin.
    + assert (H : In k (x :: l2)) by (apply Hk; right; exact Hin).
      destruct H as [He | H]; [|exact H]. subst k. apply Hx in Hin. lia.
    + assert (H : In k (x :: l1)) by (apply Hk; right; exact Hin).
      destruct H as [He | H]; [|exact H]. subst k. apply Hy in Hin. lia.
Qed.

(** [filter p (map f l)] described by the increasing list of the positions kept *)
Lemma filter_map_indices : forall {A B} (f : A -> B) (p : B -> bool) (d : A) (l : list A),
  exists idx, increasing idx /\
    (forall k, In k idx <-> k < length l /\ p (f (nth k l d)) = true) /\
    filter p (map f l) = map (fun k => f (nth k l d)) idx.
Proof.
  intros A B f p d. induction l as [|x l IH].
  - exists []. split; [exact I|]. split; [|reflexivity].
    intros k. cbn [In length]. split; [intros [] | intros [H _]; lia].
  - destruct IH as [idx [Hinc [Hmem Heq]]].
    assert (HmemS : forall k, In k (map S idx) <->
                              k < length (x :: l) /\ p (f (nth k (x :: l) d)) = true /\ k <> 0).
    { intros k. rewrite in_map_iff. split.
      - intros [k' [He Hk']]. subst k. apply Hmem in Hk'. cbn [length nth].
        split; [lia|]. split; [apply Hk' | discriminate].
      - intros [Hlt [Hp Hne]]. destruct k as [|k']; [contradiction|]. exists k'.
        split; [reflexivity|]. apply Hmem. cbn [length nth] in Hlt, Hp. split; [lia | exact Hp]. }
    assert (HeqS : filter p (map f l) = map (fun k => f (nth k (x :: l) d)) (map S idx)).
    { rewrite map_map. cbn [nth]. exact Heq. }
    cbn [map filter]. destruct (p (f x)) eqn:E.
    + exists (0 :: map S idx). split; [|split].
      * cbn [increasing]. split; [|apply increasing_map_S; exact Hinc].
        intros y Hy. apply HmemS in Hy. lia.
      * intros k. cbn [In]. rewrite HmemS. split.
        -- intros [He | [Hlt [Hp _]]]; [subst k; cbn [length nth]; split; [lia | exact E]|].
           split; assumption.
        -- intros [Hlt Hp]. destruct k as [|k']; [left; reflexivity|]. right.
           split; [exact Hlt|]. split; [exact Hp | discriminate].
      * cbn [map nth]. f_equal. exact HeqS.
    + exists (map S idx). split; [apply increasing_map_S; exact Hinc|]. split; [|exact HeqS].
      intros k. rewrite HmemS. split.
      * intros [Hlt [Hp _]]. split; assumption.
      * intros [Hlt Hp]. split; [exact Hlt|]. split; [exact Hp|].
        intros He. subst k. cbn [nth] in Hp. rewrite Hp in E. discriminate.
Qed.

(** Specification of the loader: the formulae are the trimmed kept lines, in file order.
    [idx] lists the positions (in [lines content]) of the kept lines. *)
Theorem load_formulae_spec : forall content,
  exists idx, increasing idx /\
    (forall k, In k idx <-> k < length (lines content) /\ kept_line (nth k (lines content) [])) /\
    load_formulae content = map (fun k => trim (nth k (lines content) [])) idx.
Proof.
  intros content.
  destruct (filter_map_indices trim keep_formula [] (lines content)) as [idx [Hinc [Hmem Heq]]].
  exists idx. split; [exact Hinc|]. split; [|exact Heq].
  intros k. rewrite Hmem, kept_line_spec. reflexivity.
Qed.

(** the specification determines the result *)
Theorem load_formulae_spec_unique : forall content idx,
  increasing idx ->
  (forall k, In k idx <-> k < length (lines content) /\ kept_line (nth k (lines content) [])) ->
  load_formulae content = map (fun k => trim (nth k (lines content) [])) idx.
Proof.
  intros content idx Hinc Hmem.
  destruct (load_formulae_spec content) as [idx' [Hinc' [Hmem' Heq]]].
  rewrite Heq. f_equal. apply increasing_unique; [exact Hinc' | exact Hinc|].
  intros k. rewrite Hmem, Hmem'. reflexivity.
Qed.

Theorem load_formulae_In : forall content f,
  In f (load_formulae content) <->
  exists l, In l (lines content) /\ f = trim l /\ f <> [] /\ hd_error f <> Some c_hash.
Proof.
  intros content f. unfold load_formulae. rewrite filter_In, in_map_iff, keep_formula_spec.
  split.
  - intros [[l [He Hl]] [Hne Hhd]]. exists l. split; [exact Hl|]. split; [symmetry; exact He|].
    split; assumption.
  - intros [l [Hl [He [Hne Hhd]]]]. split; [exists l; split; [symmetry; exact He | exact Hl]|].
    split; assumption.
Qed.

Lemma is_ws_cr : is_ws c_cr = true.
Proof. reflexivity. Qed.

Lemma clean_one_line : forall f, clean_formula f -> one_line f.
Proof.
  intros f [_ [_ [[_ Hlast] Hnl]]]. split; [exact Hnl|]. intros r He.
  apply Hlast in He. rewrite is_ws_cr in He. discriminate.
Qed.

(** the loader never returns an empty string, a comment, a string with white space at
    either end or a string with a line break *)
Theorem load_formulae_clean : forall content, Forall clean_formula (load_formulae content).
Proof.
  intros content. apply Forall_forall. intros f Hf. apply load_formulae_In in Hf.
  destruct Hf as [l [Hl [He [Hne Hhd]]]]. split; [exact Hne|]. split; [exact Hhd|]. subst f.
  split; [apply trim_no_ws_ends|]. intros Hi. apply trim_In in Hi.
  exact (lines_no_nl content l Hl Hi).
Qed.

Lemma filter_trim_clean : forall fs, Forall clean_formula fs ->
  filter keep_formula (map trim fs) = fs.
Proof.
  induction fs as [|f fs IH]; intros Hall; [reflexivity|].
  inversion Hall as [|? ? Hf Hfs]; subst. destruct Hf as [Hne [Hhd [Hws Hnl]]].
  cbn [map filter]. rewrite (trim_fixed f Hws).
  rewrite (proj2 (keep_formula_spec f) (conj Hne Hhd)). f_equal. apply IH. exact Hfs.
Qed.

Lemma clean_all_one_line : forall fs, Forall clean_formula fs -> Forall one_line fs.
Proof.
  intros fs H. rewrite Forall_forall in *. intros f Hf. apply clean_one_line. apply H. exact Hf.
Qed.

(** every list of clean formulae is returned unchanged when written one per line, in
    either format ("\n"-separated or "\n"-terminated as in formulae.txt) *)
Theorem load_formulae_fixed : forall fs, Forall clean_formula fs ->
  load_formulae (join_nl fs) = fs /\ load_formulae (formulae_txt fs) = fs.
Proof.
  intros fs Hall. unfold load_formulae. split.
  - rewrite lines_join_nl; [apply filter_trim_clean; exact Hall | apply clean_all_one_line; exact Hall|].
    rewrite Forall_forall in *. intros f Hf. apply (Hall f Hf).
  - rewrite lines_formulae_txt; [apply filter_trim_clean; exact Hall|].
    apply clean_all_one_line. exact Hall.
Qed.

Theorem load_formulae_idempotent : forall content,
  load_formulae (join_nl (load_formulae content)) = load_formulae content /\
  load_formulae (formulae_txt (load_formulae content)) = load_formulae content.
Proof. intros content. apply load_formulae_fixed. apply load_formulae_clean. Qed.

(** * 9. Decimal rendering and the labels of the results *)

(** the number read from a digit string, most significant digit first *)
Definition digits_value (s : str) (n0 : N) : N :=
  fold_left (fun a d => (a * 10 + (d - 48))%N) s n0.

Lemma dec_digits_value : forall f n acc, (n < 2 ^ N.of_nat f)%N ->
  digits_value (dec_digits f n acc) 0 = digits_value acc n.
Proof.
  induction f as [|f IH]; intros n acc Hlt.
  - change (2 ^ N.of_nat 0)%N with 1%N in Hlt. assert (n = 0%N) by lia. subst n. reflexivity.
  - cbn [dec_digits].
    assert (Hdm : n = (10 * (n / 10) + n mod 10)%N) by (apply N.div_mod; discriminate).
    assert (Hm : (n mod 10 < 10)%N) by (apply N.mod_lt; discriminate).
    rewrite Nat2N.inj_succ, N.pow_succ_r' in Hlt.
    set (d := (n mod 10)%N) in *. set (q := (n / 10)%N) in *.
    destruct (N.eqb q 0) eqn:E.
    + apply N.eqb_eq in E. unfold digits_value. cbn [fold_left]. f_equal. lia.
    + rewrite IH by lia. unfold digits_value. cbn [fold_left]. f_equal. lia.
Qed.

Lemma dec_of_N_value : forall n, digits_value (dec_of_N n) 0 = n.
Proof.
  intros n. unfold dec_of_N. rewrite dec_digits_value; [reflexivity|].
  rewrite Nat2N.inj_succ, N2Nat.id. destruct (N.eq_dec n 0) as [He | Hne].
  - subst n. reflexivity.
  - apply N.log2_spec. lia.
Qed.

Lemma dec_of_N_inj : forall a b, dec_of_N a = dec_of_N b -> a = b.
Proof. intros a b H. rewrite <- (dec_of_N_value a), H. apply dec_of_N_value. Qed.

Lemma dec_digits_suffix : forall f n acc, exists pre, dec_digits f n acc = pre ++ acc.
Proof.
  induction f as [|f IH]; intros n acc; cbn [dec_digits]; [exists []; reflexivity|].
  destruct (N.eqb (n / 10) 0).
  - exists [(48 + n mod 10)%N]. reflexivity.
  - destruct (IH (n / 10)%N ((48 + n mod 10)%N :: acc)) as [pre H]. exists (pre ++ [(48 + n mod 10)%N]).
    rewrite H, <- app_assoc. reflexivity.
Qed.

Lemma dec_of_N_last : forall n, exists pre, dec_of_N n = pre ++ [(48 + n mod 10)%N].
Proof.
  intros n. unfold dec_of_N. cbn [dec_digits]. destruct (N.eqb (n / 10) 0).
  - exists []. reflexivity.
  - apply dec_digits_suffix.
Qed.

Lemma result_label_inj : forall i j, result_label i = result_label j -> i = j.
Proof.
  intros i j H. unfold result_label in H. apply app_inv_head in H. apply dec_of_N_inj in H.
  apply Nat2N.inj. exact H.
Qed.

Lemma result_label_admissible : forall i, admissible (result_label i).
Proof.
  intros i. unfold result_label. destruct (dec_of_N_last (N.of_nat i)) as [pre H].
  rewrite H, app_assoc. split.
  - intros He. apply app_eq_nil in He. destruct He as [_ He]. discriminate.
  - rewrite last_last. unfold c_slash. generalize (N.of_nat i mod 10)%N. intros x. lia.
Qed.

Lemma insert_results_lookup : forall rs i (acc : setmap),
  (forall k, k < length rs ->
     alookup str_eqb (result_label (i + k)) (insert_results i rs acc) = nth_error rs k) /\
  (forall l, (forall k, k < length rs -> l <> result_label (i + k)) ->
     alookup str_eqb l (insert_results i rs acc) = alookup str_eqb l acc) /\
  (NoDup (map fst acc) -> NoDup (map fst (insert_results i rs acc))).
Proof.
  induction rs as [|r rs IH]; intros i acc; cbn [insert_results length].
  - split; [intros k Hk; lia|]. split; [reflexivity | intros H; exact H].
  - destruct (IH (S i) (ainsert str_eqb (result_label i) r acc)) as [H1 [H2 H3]].
    split; [|split].
    + intros [|k] Hk.
      * rewrite Nat.add_0_r, H2; [apply alookup_ainsert_same|].
        intros k Hk' He. apply result_label_inj in He. lia.
      * replace (i + S k) with (S i + k) by lia. cbn [nth_error]. apply H1. lia.
    + intros l Hl. rewrite H2.
      * apply alookup_ainsert_other. specialize (Hl 0). rewrite Nat.add_0_r in Hl. apply Hl. lia.
      * intros k Hk. replace (S i + k) with (i + S k) by lia. apply Hl. lia.
    + intros Hacc. apply H3. apply ainsert_NoDup. exact Hacc.
Qed.

(** the map built by the CLI binds "formula-i" to the i-th result and nothing else *)
Lemma analysis_results_lookup : forall rs i,
  alookup str_eqb (result_label i) (analysis_results rs) = nth_error rs i.
Proof.
  intros rs i. unfold analysis_results.
  destruct (insert_results_lookup rs 0 []) as [H1 [H2 _]].
  destruct (Nat.lt_ge_cases i (length rs)) as [Hlt | Hge].
  - apply (H1 i Hlt).
  - rewrite H2.
    + symmetry. apply nth_error_None. exact Hge.
    + intros k Hk He. apply result_label_inj in He. cbn [Nat.add] in He. lia.
Qed.

Lemma analysis_results_other : forall rs l, (forall i, i < length rs -> l <> result_label i) ->
  alookup str_eqb l (analysis_results rs) = None.
Proof.
  intros rs l Hl. unfold analysis_results.
  destruct (insert_results_lookup rs 0 []) as [_ [H2 _]]. rewrite H2; [reflexivity|].
  intros k Hk. apply Hl. exact Hk.
Qed.

Lemma analysis_results_NoDup : forall rs, NoDup (map fst (analysis_results rs)).
Proof.
  intros rs. unfold analysis_results.
  destruct (insert_results_lookup rs 0 []) as [_ [_ H3]]. apply H3. constructor.
Qed.

Lemma analysis_results_labels : forall rs l, In l (map fst (analysis_results rs)) ->
  exists i, i < length rs /\ l = result_label i.
Proof.
  intros rs l Hin.
  destruct (in_dec str_eq_dec l (map result_label (seq 0 (length rs)))) as [Hi | Hni].
  - apply in_map_iff in Hi. destruct Hi as [i [He Hi]]. apply in_seq in Hi.
    exists i. split; [lia | symmetry; exact He].
  - exfalso. revert Hin. apply alookup_None. apply analysis_results_other.
    intros i Hi He. apply Hni. apply in_map_iff. exists i. split; [symmetry; exact He|].
    apply in_seq. lia.
Qed.

Lemma analysis_results_spec : forall rs,
  NoDup (map fst (analysis_results rs)) /\
  (forall i, alookup str_eqb (result_label i) (analysis_results rs) = nth_error rs i) /\
  (forall l, (forall i, i < length rs -> l <> result_label i) ->
             alookup str_eqb l (analysis_results rs) = None).
Proof.
  intros rs. split; [apply analysis_results_NoDup|].
  split; [apply analysis_results_lookup | apply analysis_results_other].
Qed.

Lemma same_entries_same_lookup : forall {B} (m1 m2 : list (str * B)),
  NoDup (map fst m1) -> NoDup (map fst m2) ->
  (forall l b, In (l, b) m1 <-> In (l, b) m2) ->
  forall l, alookup str_eqb l m1 = alookup str_eqb l m2.
Proof.
  intros B m1 m2 H1 H2 Hin l. destruct (alookup str_eqb l m1) as [b|] eqn:E1.
  - symmetry. apply In_alookup; [exact H2|]. apply Hin. apply alookup_In. exact E1.
  - destruct (alookup str_eqb l m2) as [b|] eqn:E2; [|reflexivity].
    apply alookup_In in E2. apply Hin in E2. apply (In_alookup _ _ _ H1) in E2.
    rewrite E2 in E1. discriminate.
Qed.

Section CliRoundTrip.
  Variable print : tt -> str.
  Variable parse : str -> option tt.
  Hypothesis parse_print : forall b, parse (print b) = Some b.

  (** line i of the formulae.txt entry is formula i *)
  Lemma formula_order : forall (sets : setmap) model fs, Forall one_line fs ->
    exists content, by_name s_formulae_txt (build_result_archive print sets model fs) = Some content /\
      lines content = fs /\ forall i, nth_error (lines content) i = nth_error fs i.
  Proof.
    intros sets model fs Hfs. exists (formulae_txt fs).
    split; [apply by_name_build_formulae|]. rewrite (lines_formulae_txt fs Hfs).
    split; reflexivity.
  Qed.

  (** The archive written by the CLI for the results [rs] reloads to the same results under
      the same labels.  [results] is the CLI's result map in the order in which
      [build_result_archive] happens to iterate over it, [names] the order in which the loader
      happens to visit the entries. *)
  Theorem cli_archive_reloads : forall rs (results : setmap) model fs names,
    NoDup (map fst results) ->
    (forall l b, In (l, b) results <-> In (l, b) (analysis_results rs)) ->
    is_file_names (build_result_archive print results model fs) names ->
    exists m, load_names parse names (build_result_archive print results model fs) [] = LOk m /\
      NoDup (map fst m) /\
      (forall i, alookup str_eqb (result_label i) m = nth_error rs i) /\
      (forall l, (forall i, i < length rs -> l <> result_label i) -> alookup str_eqb l m = None) /\
      (forall l b, In (l, b) m <-> In (l, b) (analysis_results rs)).
  Proof.
    intros rs results model fs names Hnd Hsame Hnames.
    assert (Hadm : Forall admissible (map fst results)).
    { apply Forall_forall. intros l Hl. apply in_map_iff in Hl. destruct Hl as [[l' b] [He Hin]].
      cbn [fst] in He. subst l'. apply Hsame in Hin.
      destruct (analysis_results_labels rs l) as [i [_ Hi]].
      - apply in_map_iff. exists (l, b). split; [reflexivity | exact Hin].
      - subst l. apply result_label_admissible. }
    destruct (roundtrip print parse parse_print results model fs names Hnd Hadm Hnames)
      as [m [Hm [Hndm [Hlk [Hin _]]]]].
    assert (Hlk' : forall l, alookup str_eqb l m = alookup str_eqb l (analysis_results rs)).
    { intros l. rewrite Hlk. apply same_entries_same_lookup;
        [exact Hnd | apply analysis_results_NoDup | exact Hsame]. }
    exists m. split; [exact Hm|]. split; [exact Hndm|]. split; [|split].
    - intros i. rewrite Hlk'. apply analysis_results_lookup.
    - intros l Hl. rewrite Hlk'. apply analysis_results_other. exact Hl.
    - intros l b. rewrite Hin. apply Hsame.
  Qed.
End CliRoundTrip.
