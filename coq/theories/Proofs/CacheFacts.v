(** The sub-formula cache of [eval_node] is transparent for plain formulae (property C04).

    - [spec_substitute]: the meaning of [substitute_hctl_var] (renaming of a spare copy),
    - [sat_rename]: a formula with a single variable name, and the same formula with another
      name, are satisfied by valuations that differ by the corresponding move of a copy,
    - [hit_ok]: under the cache invariant a cache hit returns the result of the cache-free
      evaluator [peval] and never panics,
    - [eval_node_cache]: [eval_node] returns what [peval] returns and keeps the invariant,
    - [eval_all_cache], [mark_duplicates_dups_ok]: batches. *)
From HCTL Require Import Base Syntax Preprocess Canon MarkDup TT Ops Eval Pipeline Kripke HCTL.
From HCTL Require Import TTFacts OpsFacts FixFacts SemFacts HybridFacts EvalPure Main Termination.
From HCTL Require Import IndepFacts PrepFacts RoundTrip CanonFacts CanonAlpha MarkDupFacts RenameFacts.

(** * 1. Renaming a spare copy *)

(** [v] with copy [e0] := copy [e] of [v] *)
Definition copy_from (e0 e : nat) (v : val) : val :=
  fun g => match g with
           | TX i e' => if Nat.eqb e0 e' then v (TX i e) else v g
           | _ => v g
           end.

Section Subst.
Variable G : genv.
Variable names : list str.
Variable U : tt.
Hypothesis WF : wf_env G names U.
Local Notation L := (g_L G).
Local Notation n := (g_n G).
Local Notation k := (g_k G).

Lemma shaped_cmp2 e1 e2 : shaped L (comparator_two_vars G e1 e2).
Proof.
  unfold comparator_two_vars. apply shaped_fold_tand; [apply shaped_full|].
  intro i. apply shaped_tiff; apply shaped_lit.
Qed.

Lemma mem_cmp2 e1 e2 v : e1 < k -> e2 < k ->
  (mem L (comparator_two_vars G e1 e2) v = true <-> forall i, i < n -> v (TX i e1) = v (TX i e2)).
Proof.
  intros H1 H2. unfold comparator_two_vars.
  rewrite mem_fold_tand by (try apply shaped_full; intro; apply shaped_tiff; apply shaped_lit).
  rewrite mem_full. split.
  - intros [_ H] i Hi. specialize (H i (proj2 (in_range i n) Hi)).
    rewrite mem_tiff in H by apply shaped_lit.
    rewrite !mem_lit in H by (try apply (wf_nodup _ _ _ WF); apply (wf_TX_in _ _ _ WF); assumption).
    apply Bool.eqb_prop in H. exact H.
  - intro H. split; [reflexivity|]. intros i Hi. apply in_range in Hi.
    rewrite mem_tiff by apply shaped_lit.
    rewrite !mem_lit by (try apply (wf_nodup _ _ _ WF); apply (wf_TX_in _ _ _ WF); assumption).
    rewrite (H i Hi). apply Bool.eqb_reflx.
Qed.

Lemma U_copy_from e0 e v : mem L U (copy_from e0 e v) = mem L U v.
Proof. apply (wf_U_colour _ _ _ WF). intro j. reflexivity. Qed.

Lemma spec_substitute A P e0 e : e0 < k -> e < k -> e0 <> e -> spec_of G U A P ->
  spec_of G U (substitute_hctl_var G A e0 e) (fun v => P (copy_from e0 e v)).
Proof.
  intros H0 He NE [SA EA]. unfold substitute_hctl_var.
  apply Nat.eqb_neq in NE. rewrite NE. unfold project_out_hctl_var.
  pose proof (shaped_cmp2 e0 e) as SC. pose proof (wf_nodup _ _ _ WF) as ND.
  split; [apply shaped_exq, shaped_tand; assumption|]. intro v.
  rewrite mem_exq by (try apply shaped_tand; assumption). split.
  - intros [w [Hw Hm]]. rewrite mem_tand in Hm by assumption.
    apply andb_true_iff in Hm. destruct Hm as [Ha Hc].
    rewrite (mem_cmp2 e0 e w H0 He) in Hc.
    assert (AG : agree L w (copy_from e0 e v)).
    { intros g Hg. destruct g as [j|i|i e']; cbn [copy_from]; try (apply Hw; reflexivity).
      destruct (Nat.eqb e0 e') eqn:E.
      - apply Nat.eqb_eq in E. subst e'. rewrite (Hc i (wf_TX_bound _ _ _ WF _ _ Hg)).
        apply Hw. cbn [is_copy]. exact NE.
      - apply Hw. cbn [is_copy]. exact E. }
    rewrite (mem_agree L A _ _ AG) in Ha. apply EA in Ha. destruct Ha as [Hu Hp].
    rewrite U_copy_from in Hu. split; assumption.
  - intros [Hu Hp]. exists (copy_from e0 e v). split.
    + intros g Hg. destruct g as [j|i|i e']; cbn [copy_from]; try reflexivity.
      cbn [is_copy] in Hg. rewrite Hg. reflexivity.
    + rewrite mem_tand by assumption. apply andb_true_iff. split.
      * apply EA. rewrite U_copy_from. split; assumption.
      * apply (mem_cmp2 e0 e _ H0 He). intros i Hi. cbn [copy_from].
        rewrite Nat.eqb_refl, NE. reflexivity.
Qed.

(** ** the same formula with another name for its only variable *)

Variable Gamma : str -> val -> Prop.

(** same colour, same state, copy [e] of [v] is copy [e0] of [w] *)
Definition crel (e e0 : nat) (v w : val) : Prop :=
  (forall j, v (TP j) = w (TP j)) /\ (forall i, v (TS i) = w (TS i))
  /\ (forall i, v (TX i e) = w (TX i e0)).

Lemma crel_en e e0 i v w : i < n -> crel e e0 v w -> enabled G i v = enabled G i w.
Proof.
  intros _ (H1 & H2 & _). unfold enabled. rewrite (H2 i). f_equal.
  apply (wf_upd_extras _ _ _ WF). intros [j|i'|i' e'] Hg; simpl in Hg; auto. discriminate.
Qed.

Lemma crel_flip e e0 i v w : crel e e0 v w -> crel e e0 (vflip (TS i) v) (vflip (TS i) w).
Proof.
  intros (H1 & H2 & H3). unfold vflip. split; [|split].
  - intro j. simpl. apply H1.
  - intro i'. simpl. rewrite H2. reflexivity.
  - intro i'. simpl. apply H3.
Qed.

Lemma crel_set_copy e e0 u u' v w : (forall i, u (TS i) = u' (TS i)) -> crel e e0 v w ->
  crel e e0 (set_copy e u v) (set_copy e0 u' w).
Proof.
  intros Hu (H1 & H2 & H3). unfold set_copy. split; [|split].
  - intro j. apply H1.
  - intro i. apply H2.
  - intro i. rewrite !Nat.eqb_refl. apply Hu.
Qed.

Lemma crel_set_state e e0 v w : crel e e0 v w -> crel e e0 (set_state e v) (set_state e0 w).
Proof.
  intros (H1 & H2 & H3). unfold set_state. split; [|split].
  - intro j. apply H1.
  - intro i. apply H3.
  - intro i. apply H3.
Qed.

Theorem sat_rename x x0 e e0 : var_of G x = Some e -> var_of G x0 = Some e0 ->
  forall s, plainf s -> forall v w, crel e e0 v w ->
    (sat G names Gamma (vmap (fun _ => x) s) v <-> sat G names Gamma (vmap (fun _ => x0) s) w).
Proof.
  intros Ex Ex0.
  induction s as [a | o a IH | o a IHa b IHb | o y d a IH]; intros Hpl v w Hr.
  - destruct a as [nm|y| | |l]; cbn [vmap sat] in *.
    + destruct Hr as (_ & H2 & _).
      split; intros [i [Hi Hv]]; exists i; (split; [exact Hi|]); [rewrite <- H2 | rewrite H2]; exact Hv.
    + destruct Hr as (_ & H2 & H3). unfold copy_is_state. split.
      * intros (e' & He' & Hc). assert (e' = e) by congruence. subst e'.
        exists e0. split; [exact Ex0|]. intros i Hi. rewrite <- H3, <- H2. apply Hc, Hi.
      * intros (e' & He' & Hc). assert (e' = e0) by congruence. subst e'.
        exists e. split; [exact Ex|]. intros i Hi. rewrite H3, H2. apply Hc, Hi.
    + tauto.
    + tauto.
    + contradiction.
  - cbn [plainf] in Hpl. specialize (IH Hpl).
    destruct o; cbn [vmap sat].
    + specialize (IH v w Hr). tauto.
    + apply (EXs_bisim G G (crel e e0) eq_refl (crel_en e e0) (crel_flip e e0)); assumption.
    + apply (AXs_bisim G G (crel e e0) eq_refl (crel_en e e0) (crel_flip e e0)); assumption.
    + apply (EFs_bisim G G (crel e e0) eq_refl (crel_en e e0) (crel_flip e e0)); assumption.
    + apply (AFs_bisim G G (crel e e0) eq_refl (crel_en e e0) (crel_flip e e0)); assumption.
    + apply (EGs_bisim G G (crel e e0) eq_refl (crel_en e e0) (crel_flip e e0)); assumption.
    + apply (AGs_bisim G G (crel e e0) eq_refl (crel_en e e0) (crel_flip e e0)); assumption.
  - cbn [plainf] in Hpl. destruct Hpl as [Hpa Hpb]. specialize (IHa Hpa). specialize (IHb Hpb).
    destruct o; cbn [vmap sat].
    + specialize (IHa v w Hr). specialize (IHb v w Hr). tauto.
    + specialize (IHa v w Hr). specialize (IHb v w Hr). tauto.
    + specialize (IHa v w Hr). specialize (IHb v w Hr). tauto.
    + specialize (IHa v w Hr). specialize (IHb v w Hr). tauto.
    + specialize (IHa v w Hr). specialize (IHb v w Hr). tauto.
    + apply (EUs_bisim G G (crel e e0) eq_refl (crel_en e e0) (crel_flip e e0)); assumption.
    + apply (AUs_bisim G G (crel e e0) eq_refl (crel_en e e0) (crel_flip e e0)); assumption.
    + apply (EWs_bisim G G (crel e e0) eq_refl (crel_en e e0) (crel_flip e e0)); assumption.
    + apply (AWs_bisim G G (crel e e0) eq_refl (crel_en e e0) (crel_flip e e0)); assumption.
  - cbn [plainf] in Hpl. destruct Hpl as [-> Hpa]. specialize (IH Hpa).
    assert (Kb : forall u u', (forall i, u (TS i) = u' (TS i)) ->
              (sat G names Gamma (vmap (fun _ => x) a) (set_copy e u v)
               <-> sat G names Gamma (vmap (fun _ => x0) a) (set_copy e0 u' w)))
      by (intros u u' Hu; apply IH; apply crel_set_copy; assumption).
    pose proof Hr as (H1 & H2 & H3).
    destruct o; cbn [vmap sat dom].
    + split.
      * intros (e' & He' & _ & Hs). assert (e' = e) by congruence. subst e'.
        exists e0. split; [exact Ex0|]. split; [exact I|]. apply (Kb v w H2), Hs.
      * intros (e' & He' & _ & Hs). assert (e' = e0) by congruence. subst e'.
        exists e. split; [exact Ex|]. split; [exact I|]. apply (Kb v w H2), Hs.
    + split.
      * intros (e' & He' & Hs). assert (e' = e) by congruence. subst e'.
        exists e0. split; [exact Ex0|]. apply (IH _ _ (crel_set_state e e0 v w Hr)), Hs.
      * intros (e' & He' & Hs). assert (e' = e0) by congruence. subst e'.
        exists e. split; [exact Ex|]. apply (IH _ _ (crel_set_state e e0 v w Hr)), Hs.
    + split.
      * intros (e' & He' & u & _ & Hs). assert (e' = e) by congruence. subst e'.
        exists e0. split; [exact Ex0|]. exists u. split; [exact I|].
        apply (Kb u u (fun _ => eq_refl)), Hs.
      * intros (e' & He' & u & _ & Hs). assert (e' = e0) by congruence. subst e'.
        exists e. split; [exact Ex|]. exists u. split; [exact I|].
        apply (Kb u u (fun _ => eq_refl)), Hs.
    + split.
      * intros (e' & He' & Hs). assert (e' = e) by congruence. subst e'.
        exists e0. split; [exact Ex0|]. intros u _. apply (Kb u u (fun _ => eq_refl)), Hs. exact I.
      * intros (e' & He' & Hs). assert (e' = e0) by congruence. subst e'.
        exists e. split; [exact Ex|]. intros u _. apply (Kb u u (fun _ => eq_refl)), Hs. exact I.
Qed.

Lemma crel_copy_from e e0 v : crel e e0 v (copy_from e0 e v).
Proof.
  split; [|split]; intros; cbn [copy_from]; try reflexivity. rewrite Nat.eqb_refl. reflexivity.
Qed.

End Subst.

(** * 2. The cache invariant *)

Lemma supported_occurs G t y : supported G t -> occurs y t -> var_of G y <> None.
Proof.
  induction t as [a | o c IH | o l IHl r IHr | o x d c IH]; cbn [supported occurs].
  - destruct a as [p | x | | | w]; [intros _ [] | intros H ->; exact H | intros _ [] ..].
  - exact IH.
  - intros [Hl Hr] [H | H]; [apply IHl | apply IHr]; assumption.
  - intros [Hx Hc] [-> | H]; [exact Hx | apply IH; assumption].
Qed.

Lemma in_amem {B} (k : key) (l : list (key * B)) :
  amem key_eqb k l = true -> exists v, In (k, v) l.
Proof.
  unfold amem. destruct (alookup key_eqb k l) as [v|] eqn:E; [|discriminate].
  intros _. exists v. apply alookup_key_in, E.
Qed.

Section Cache.
Variable ext_alnum : N -> bool.
Variable ext : bool.
Variable G : genv.
Variable names : list str.
Variable sw : switches.
Variable U : tt.
Hypothesis WF : wf_env G names U.
Local Notation L := (g_L G).
Local Notation st := (steady_of G U).
Local Notation pev := (peval G names sw st).

(** the trees the evaluator meets: plain sub-formulae of validated, preprocessed formulae *)
Definition good (t : tree) : Prop :=
  plainf t /\ supported G t /\ props_known names t /\ well_named ext_alnum ext t
  /\ exists d, depth_named d t.

(** a cache entry is the cache-free result of some good tree with that canonical text, whose
    renaming map (stored with the set) has at most one entry *)
Definition entry_ok (k : key) (S : tt) (rn : list (str * str)) : Prop :=
  exists t0, good t0 /\ canonize (render t0) = (fst k, rn) /\ length rn <= 1
             /\ pev t0 U = Ok S.

Definition cache_okL (ca : list (key * (tt * list (str * str)))) : Prop :=
  forall k S rn, In (k, (S, rn)) ca -> entry_ok k S rn.

(** every sub-formula of a preprocessed formula with this canonical text has an at most
    one-entry renaming map *)
Definition single_text (canon : str) : Prop :=
  forall t d, well_named ext_alnum ext t -> depth_named d t ->
    fst (canonize (render t)) = canon -> length (snd (canonize (render t))) <= 1.

Definition dups_okL (du : list (key * nat)) : Prop :=
  forall k m, In (k, m) du -> single_text (fst k).

Definition cache_ok (c : ectx) : Prop := cache_okL (cache c).
Definition dups_ok (c : ectx) : Prop := dups_okL (duplicates c).

(** one witness is enough *)
Lemma single_text_witness t d :
  well_named ext_alnum ext t -> depth_named d t -> length (snd (canonize (render t))) <= 1 ->
  single_text (fst (canonize (render t))).
Proof.
  intros W DN LEN t' d' W' DN' E.
  apply (single_transfer ext_alnum ext d' d t' t); assumption.
Qed.

Lemma good_sub_unary o a : good (Unary o a) -> good a.
Proof. intros (A & B & C & D & d & E). repeat split; try assumption. exists d. exact E. Qed.

Lemma good_sub_binary o a b : good (Binary o a b) -> good a /\ good b.
Proof.
  intros ([A A'] & [B B'] & [C C'] & [D D'] & d & [E E']).
  split; (repeat split; try assumption); exists d; assumption.
Qed.

Lemma good_sub_hybrid o x dm a : good (Hybrid o x dm a) -> good a.
Proof.
  intros ([_ A] & [_ B] & C & (_ & _ & D) & d & E). repeat split; try assumption.
  cbn [depth_named] in E. destruct (is_quantifier o); [exists (S d) | exists d]; apply E.
Qed.

Lemma pev_total t : good t -> exists R, pev t U = Ok R /\ shaped L R.
Proof.
  intros (A & B & C & _). destruct WF.
  apply (peval_total G names sw st U); try assumption. apply shaped_steady_of; assumption.
Qed.

(** ** a cache hit *)
Theorem hit_ok t canon ren dm S rn :
  good t -> canonize (render t) = (canon, ren) -> entry_ok (canon, dm) S rn ->
  exists R, rename_back G rn ren S = Ok R /\ pev t U = Ok R.
Proof.
  intros GT CT (t0 & GT0 & CT0 & LEN & P0). cbn [fst] in CT0.
  pose proof GT as (Pl & Su & Pk & W & d & DN).
  pose proof GT0 as (Pl0 & Su0 & Pk0 & W0 & d0 & DN0).
  assert (fst (canonize (render t)) = fst (canonize (render t0))) as E by (rewrite CT, CT0; reflexivity).
  assert (length (snd (canonize (render t0))) <= 1) as LEN0 by (rewrite CT0; exact LEN).
  destruct (hit_shape ext_alnum ext d d0 t t0 W W0 DN DN0 E LEN0)
    as [[M0 ->] | (x0 & x & cn & M0 & M & O0 & O & OV0 & ET)];
    rewrite CT0 in M0; cbn [snd] in M0; subst rn.
  - exists S. split; [reflexivity | exact P0].
  - rewrite CT in M. cbn [snd] in M. subst ren.
    destruct (var_of G x0) as [e0|] eqn:V0; [|exfalso; exact (supported_occurs G t0 x0 Su0 O0 V0)].
    destruct (var_of G x) as [e|] eqn:V; [|exfalso; exact (supported_occurs G t x Su O V)].
    pose proof (var_of_id G x0 e0 V0) as I0. pose proof (var_of_id G x e V) as I1.
    destruct (var_id_of G x0 e0 I0) as [_ K0]. destruct (var_id_of G x e I1) as [_ K1].
    exists (substitute_hctl_var G S e0 e). split.
    { cbn [rename_back find snd]. rewrite str_eqb_refl. rewrite I0, I1. reflexivity. }
    pose proof (only_var_vmap x0 t0 OV0) as ET0.
    destruct (Nat.eq_dec e0 e) as [EQ | NE].
    + (* same copy: same name, same tree *)
      subst e0. unfold substitute_hctl_var. rewrite Nat.eqb_refl.
      destruct (occurs_depth_named t0 d0 x0 DN0 O0) as [j0 ->].
      destruct (occurs_depth_named t d x DN O) as [j ->].
      unfold var_of in V0, V. cbn [xs repeat_n] in V0, V. fold (xs j0) in V0. fold (xs j) in V.
      rewrite xs_length in V0, V.
      destruct (Nat.ltb j0 (g_k G)); [|discriminate]. destruct (Nat.ltb j (g_k G)); [|discriminate].
      assert (j0 = j) by congruence. subst j0. rewrite ET, ET0. exact P0.
    + destruct (pev_total t GT) as (R' & PT & SH'). rewrite PT. f_equal.
      pose proof (peval_correct G names U WF (fun _ _ => True) sw t0 S Pl0 Su0 P0) as SP0.
      pose proof (peval_correct G names U WF (fun _ _ => True) sw t R' Pl Su PT) as [_ SP].
      destruct (spec_substitute G names U WF S _ e0 e K0 K1 NE SP0) as [SH SPs].
      apply (tt_ext L); try assumption; [apply (wf_nodup _ _ _ WF)|]. intro v.
      assert (sat G names (fun _ _ => True) t v
              <-> sat G names (fun _ _ => True) t0 (copy_from e0 e v)) as RN.
      { rewrite ET at 1. rewrite <- ET0 at 2.
        apply (sat_rename G names U WF (fun _ _ => True) x x0 e e0 V V0 t0 Pl0).
        apply crel_copy_from. }
      destruct (mem L R' v) eqn:A; destruct (mem L (substitute_hctl_var G S e0 e) v) eqn:B;
        try reflexivity.
      * apply SP in A. destruct A as [Hu Hs]. apply RN in Hs.
        rewrite (proj2 (SPs v) (conj Hu Hs)) in B. discriminate.
      * apply SPs in B. destruct B as [Hu Hs]. apply RN in Hs.
        rewrite (proj2 (SP v) (conj Hu Hs)) in A. discriminate.
Qed.

(** ** preservation of the invariants by the context updates *)

Lemma cache_okL_aremove k ca : cache_okL ca -> cache_okL (aremove key_eqb k ca).
Proof. intros H k' S rn IN. apply H. eapply in_aremove; exact IN. Qed.

Lemma cache_okL_ainsert k S rn ca :
  entry_ok k S rn -> cache_okL ca -> cache_okL (ainsert key_eqb k (S, rn) ca).
Proof.
  intros E H k' S' rn' [EQ | IN].
  - injection EQ as <- <- <-. exact E.
  - apply H. eapply in_aremove; exact IN.
Qed.

Lemma dups_okL_aremove k du : dups_okL du -> dups_okL (aremove key_eqb k du).
Proof. intros H k' m IN. apply (H k' m). eapply in_aremove; exact IN. Qed.

Lemma dups_okL_ainsert k m du :
  single_text (fst k) -> dups_okL du -> dups_okL (ainsert key_eqb k m du).
Proof.
  intros E H k' m' [EQ | IN].
  - injection EQ as <- <-. exact E.
  - apply (H k' m'). eapply in_aremove; exact IN.
Qed.

(** the context after a cache hit *)
Definition hit_ctx (t : tree) (k : key) (c : ectx) : ectx :=
  if is_wild_terminal t then c
  else match alookup key_eqb k (duplicates c) with
       | Some (S O) | Some O =>
           set_cache (set_dups c (aremove key_eqb k (duplicates c)))
                     (aremove key_eqb k (cache c))
       | Some (S m) => set_dups c (ainsert key_eqb k m (duplicates c))
       | None => c
       end.

Lemma hit_ctx_ok t k c : cache_ok c -> dups_ok c -> cache_ok (hit_ctx t k c) /\ dups_ok (hit_ctx t k c).
Proof.
  intros CO DO. unfold hit_ctx. destruct (is_wild_terminal t); [split; assumption|].
  destruct (alookup key_eqb k (duplicates c)) as [[|[|m]]|] eqn:E; unfold cache_ok, dups_ok; cbn [cache duplicates set_cache set_dups].
  - split; [apply cache_okL_aremove, CO | apply dups_okL_aremove, DO].
  - split; [apply cache_okL_aremove, CO | apply dups_okL_aremove, DO].
  - split; [exact CO|]. apply dups_okL_ainsert; [|exact DO].
    apply (DO k (S (S m))). apply alookup_key_in, E.
  - split; assumption.
Qed.

(** the end of a cache miss *)
Definition finish_at (k : key) (ren : list (str * str)) (save : bool) (rc : tt * ectx)
  : res (tt * ectx) :=
  if save then Ok (fst rc, set_cache (snd rc) (ainsert key_eqb k (fst rc, ren) (cache (snd rc))))
  else Ok rc.

Lemma finish_ok t k save R c1 :
  good t -> fst k = fst (canonize (render t)) -> pev t U = Ok R ->
  (save = true -> length (snd (canonize (render t))) <= 1) ->
  cache_ok c1 -> dups_ok c1 ->
  exists c', finish_at k (snd (canonize (render t))) save (R, c1) = Ok (R, c')
             /\ cache_ok c' /\ dups_ok c'.
Proof.
  intros GT EK PT LEN CO DO. unfold finish_at. destruct save.
  - eexists. split; [reflexivity|]. cbn [fst snd]. split; [|exact DO].
    unfold cache_ok. cbn [cache set_cache fst snd]. apply cache_okL_ainsert; [|exact CO].
    exists t. split; [exact GT|]. split; [|split; [apply LEN; reflexivity | exact PT]].
    rewrite EK. destruct (canonize (render t)); reflexivity.
  - exists c1. split; [reflexivity|]. split; assumption.
Qed.

(** ** [eval_node], unfolded once *)

Definition key_of (c : ectx) (t : tree) : key :=
  (fst (canonize (render t)), canon_domains (free_doms c) (snd (canonize (render t))) []).

Definition eval_miss (steady : tt) (finish : tt * ectx -> res (tt * ectx))
           (t : tree) (U : tt) (c : ectx) : res (tt * ectx) :=
  if use_patterns sw && is_attractor_pattern t then
    let* e := hctl_var_id G (pattern_var t) in
    let* r := attractors G U e in
    finish (r, c)
  else if use_patterns sw && is_fixed_point_pattern t then Ok (steady, c)
  else
  match t with
  | Terminal a =>
      match a with
      | ATrue => finish (U, c)
      | AFalse => finish (empty G, c)
      | AVar name => let* e := hctl_var_id G name in finish (eval_hctl_var G U e, c)
      | AProp name =>
          match index_of name names 0 with
          | Some i => finish (eval_prop G U i, c)
          | None => Panic PPropLookup
          end
      | AWild _ => Panic PWildCardUnreachable
      end
  | Unary o ch =>
      let* (x, c1) := eval_node G names sw steady ch U c in
      let* r :=
        match o with
        | Not => Ok (eval_neg U x)
        | EX => Ok (eval_ex G x steady)
        | AX => Ok (eval_ax G U x steady)
        | EF => eval_ef_saturated G U x
        | AF => eval_af G U x steady
        | EG => eval_eg G x steady
        | AG => eval_ag G U x
        end in
      finish (r, c1)
  | Binary o l r =>
      let* (a, c1) := eval_node G names sw steady l U c in
      let* (b, c2) := eval_node G names sw steady r U c1 in
      let* res :=
        match o with
        | And => Ok (tand a b)
        | Or => Ok (tor a b)
        | Xor => Ok (eval_xor U a b)
        | Imp => Ok (eval_imp U a b)
        | Iff => Ok (eval_equiv U a b)
        | EU => eval_eu_saturated G a b
        | AU => eval_au G U a b steady
        | EW => eval_ew G U a b steady
        | AW => eval_aw G U a b
        end in
      finish (res, c2)
  | Hybrid Jump x _ ch =>
      let* (a, c1) := eval_node G names sw steady ch U c in
      let* e := hctl_var_id G x in
      finish (eval_jump G U a e, c1)
  | Hybrid o x d ch =>
      let c0 := set_free c (sinsert x d (free_doms c)) in
      let close (c1 : ectx) := set_free c1 (aremove str_eqb x (free_doms c1)) in
      match d with
      | None =>
          let* (a, c1) := eval_node G names sw steady ch U c0 in
          let* e := hctl_var_id G x in
          let* r := eval_hybrid_quantifier G U U o e a in
          finish (r, close c1)
      | Some dl =>
          match alookup str_eqb dl (domain_sets c0) with
          | None => Panic PDomainLookup
          | Some dset =>
              let* e := hctl_var_id G x in
              let var_domain := compute_valid_domain_for_var G U dset e in
              let Ur := tand U var_domain in
              if is_empty Ur then
                Ok (match o with Forall => U | _ => empty G end, close c0)
              else
                let* (a, c1) := eval_node G names sw steady ch Ur c0 in
                let* r := eval_hybrid_quantifier G U Ur o e a in
                finish (r, close c1)
          end
      end
  end.

Lemma eval_node_unfold steady t U' c :
  eval_node G names sw steady t U' c =
  match (if amem key_eqb (key_of c t) (duplicates c)
         then alookup key_eqb (key_of c t) (cache c) else None) with
  | Some (cached, cren) =>
      let* r := rename_back G cren (snd (canonize (render t))) cached in
      Ok (r, hit_ctx t (key_of c t) c)
  | None =>
      eval_miss steady
        (finish_at (key_of c t) (snd (canonize (render t)))
           (amem key_eqb (key_of c t) (duplicates c)
            && negb (foreign_restriction (free_doms c) (snd (canonize (render t))))))
        t U' c
  end.
Proof.
  destruct t as [a | o ch | o l r | o x d ch]; cbn [eval_node]; unfold key_of;
    match goal with |- context [canonize (render ?t)] => destruct (canonize (render t)) as [canon ren] end;
    cbn [fst snd]; reflexivity.
Qed.

(** ** the main invariant: [eval_node] returns what [peval] returns *)

Lemma save_single t c :
  good t -> dups_ok c ->
  amem key_eqb (key_of c t) (duplicates c)
  && negb (foreign_restriction (free_doms c) (snd (canonize (render t)))) = true ->
  length (snd (canonize (render t))) <= 1.
Proof.
  intros (_ & _ & _ & W & d & DN) DO H. apply andb_true_iff in H. destruct H as [H _].
  destruct (in_amem _ _ H) as [m IN]. apply (DO _ _ IN t d W DN). reflexivity.
Qed.

Lemma hit_case t c cached cren R :
  good t -> cache_ok c -> dups_ok c -> pev t U = Ok R ->
  alookup key_eqb (key_of c t) (cache c) = Some (cached, cren) ->
  exists c', (let* r := rename_back G cren (snd (canonize (render t))) cached in
              Ok (r, hit_ctx t (key_of c t) c)) = Ok (R, c')
             /\ pev t U = Ok R /\ cache_ok c' /\ dups_ok c'.
Proof.
  intros GT CO DO PT Hit. apply alookup_key_in in Hit.
  destruct (hit_ok t _ _ _ cached cren GT (surjective_pairing _) (CO _ _ _ Hit)) as (R' & RB & PR).
  rewrite RB. cbn [bind]. assert (R' = R) as -> by congruence.
  destruct (hit_ctx_ok t (key_of c t) c CO DO) as [CO' DO'].
  eexists. split; [reflexivity|]. split; [exact PT|]. split; assumption.
Qed.

Theorem eval_node_cache : forall t c,
  good t -> cache_ok c -> dups_ok c ->
  exists R c', eval_node G names sw st t U c = Ok (R, c') /\ pev t U = Ok R
               /\ cache_ok c' /\ dups_ok c'.
Proof.
  induction t as [a | o a IH | o a IHa b IHb | o x d a IH]; intros c GT CO DO;
    destruct (pev_total _ GT) as (R & PT & _); exists R;
    rewrite eval_node_unfold;
    match goal with
    | |- context [finish_at ?k ?ren ?save] =>
        pose proof (fun c1 CO1 DO1 =>
          finish_ok _ k save R c1 GT eq_refl PT (save_single _ c GT DO) CO1 DO1) as FIN;
        let F := fresh "F" in set (F := finish_at k ren save) in *; clearbody F
    end;
    match goal with
    | |- context [eval_miss ?s ?F ?t ?U ?c] =>
        assert (exists c', eval_miss s F t U c = Ok (R, c') /\ cache_ok c' /\ dups_ok c') as MISS;
        [| destruct MISS as (c' & EM & CO' & DO');
           assert (exists c', eval_miss s F t U c = Ok (R, c') /\ pev t U = Ok R
                              /\ cache_ok c' /\ dups_ok c') as MISS
             by (exists c'; repeat split; assumption);
           destruct (amem key_eqb (key_of c _) (duplicates c)) eqn:Dup;
           [destruct (alookup key_eqb (key_of c _) (cache c)) as [[cached cren]|] eqn:Hit;
            [eapply hit_case; eassumption | exact MISS] | exact MISS] ]
    end.
  - (* terminal *)
    unfold eval_miss. cbn [peval is_attractor_pattern is_fixed_point_pattern] in *.
    rewrite !andb_false_r in *.
    destruct a as [nm | y | | | w]; cbn [bind] in *.
    + destruct (index_of nm names 0); [|discriminate PT]. injection PT as <-. exact (FIN c CO DO).
    + destruct (hctl_var_id G y); cbn [bind] in *; try discriminate PT.
      injection PT as <-. exact (FIN c CO DO).
    + injection PT as <-. exact (FIN c CO DO).
    + injection PT as <-. exact (FIN c CO DO).
    + discriminate PT.
  - (* unary *)
    destruct (IH c (good_sub_unary _ _ GT) CO DO) as (A & c1 & EA & PA & CO1 & DO1).
    unfold eval_miss. cbn [peval is_attractor_pattern is_fixed_point_pattern] in *.
    rewrite !andb_false_r in *. rewrite EA. rewrite PA in PT. cbn [bind] in *.
    rewrite PT. cbn [bind]. exact (FIN c1 CO1 DO1).
  - (* binary *)
    destruct (good_sub_binary _ _ _ GT) as [GA GB].
    destruct (IHa c GA CO DO) as (A & c1 & EA & PA & CO1 & DO1).
    destruct (IHb c1 GB CO1 DO1) as (B & c2 & EB & PB & CO2 & DO2).
    unfold eval_miss. cbn [peval is_attractor_pattern is_fixed_point_pattern] in *.
    rewrite !andb_false_r in *. rewrite EA. rewrite PA in PT. cbn [bind] in *.
    rewrite EB. rewrite PB in PT. cbn [bind] in *.
    rewrite PT. cbn [bind]. exact (FIN c2 CO2 DO2).
  - (* hybrid *)
    pose proof (good_sub_hybrid _ _ _ _ GT) as GA.
    assert (d = None) as -> by (destruct GT as ((E & _) & _); exact E).
    rewrite peval_unfold_hybrid in PT. unfold eval_miss.
    destruct (use_patterns sw && is_attractor_pattern (Hybrid o x None a)) eqn:PAt.
    { destruct (hctl_var_id G (pattern_var (Hybrid o x None a))); cbn [bind] in *; try discriminate PT.
      rewrite PT. cbn [bind]. exact (FIN c CO DO). }
    destruct (use_patterns sw && is_fixed_point_pattern (Hybrid o x None a)) eqn:PFx.
    { injection PT as <-. exists c. split; [reflexivity|]. split; assumption. }
    destruct o.
    + destruct (IH (set_free c (sinsert x None (free_doms c))) GA CO DO) as (A & c1 & EA & PA & CO1 & DO1).
      rewrite EA. rewrite PA in PT. cbn [bind] in *.
      destruct (hctl_var_id G x); cbn [bind] in *; try discriminate PT.
      rewrite PT. cbn [bind]. apply FIN; assumption.
    + destruct (IH c GA CO DO) as (A & c1 & EA & PA & CO1 & DO1).
      rewrite EA. rewrite PA in PT. cbn [bind] in *.
      destruct (hctl_var_id G x); cbn [bind] in *; try discriminate PT.
      injection PT as <-. apply FIN; assumption.
    + destruct (IH (set_free c (sinsert x None (free_doms c))) GA CO DO) as (A & c1 & EA & PA & CO1 & DO1).
      rewrite EA. rewrite PA in PT. cbn [bind] in *.
      destruct (hctl_var_id G x); cbn [bind] in *; try discriminate PT.
      rewrite PT. cbn [bind]. apply FIN; assumption.
    + destruct (IH (set_free c (sinsert x None (free_doms c))) GA CO DO) as (A & c1 & EA & PA & CO1 & DO1).
      rewrite EA. rewrite PA in PT. cbn [bind] in *.
      destruct (hctl_var_id G x); cbn [bind] in *; try discriminate PT.
      rewrite PT. cbn [bind]. apply FIN; assumption.
Qed.

End Cache.

(** * 3. [mark_duplicates] only marks canonical texts with an at most one-entry map *)

(** every reported key is the key of a node whose renaming map has at most one entry *)
Definition dups_wit (roots : list tree) (dups : list (key * nat)) : Prop :=
  forall k m, In (k, m) dups ->
    exists t doms, occ roots (t, doms) /\ fst (node_key t doms) = k
                   /\ length (snd (node_key t doms)) <= 1.

Lemma incr_dup_wit roots k dups t doms :
  occ roots (t, doms) -> fst (node_key t doms) = k -> length (snd (node_key t doms)) <= 1 ->
  dups_wit roots dups -> dups_wit roots (incr_dup k dups).
Proof.
  intros OCC KEY LEN OK k' n' IN. unfold incr_dup, ainsert in IN.
  destruct (alookup key_eqb k dups) as [m|]; cbn [In] in IN; destruct IN as [E | IN];
    try (apply (OK k' n'); eapply in_aremove; exact IN);
    injection E as <- <-; exists t, doms; repeat split; assumption.
Qed.

Lemma mark_loop_wit roots :
  forall fuel queue last_h same dups,
    (forall x, In x queue -> occ roots x) -> dups_wit roots dups ->
    dups_wit roots (mark_loop fuel queue last_h same dups).
Proof.
  induction fuel as [|fuel IH]; intros queue last_h same dups Q D; cbn [mark_loop]; [exact D|].
  destruct (pop_height (max_height queue) queue) as [[[t doms] queue']|] eqn:P; [|exact D].
  destruct (pop_height_in _ _ _ _ P) as [INx SUB].
  assert (forall x, In x queue' -> occ roots x) as Q' by (intros x IN; apply Q, SUB, IN).
  assert (forall x, In x (queue' ++ children t doms) -> occ roots x) as Q''.
  { intros x IN. apply in_app_or in IN. destruct IN as [IN | IN]; [apply Q', IN|].
    eapply occ_child; [apply Q, INx | exact IN]. }
  destruct (is_terminal t && negb (is_wild_terminal t)); [apply IH; assumption|].
  destruct (node_key t doms) as [k ren] eqn:NK.
  destruct (Nat.eqb last_h (height t)); [|apply IH; assumption].
  destruct (Nat.leb (length ren) 1 && existsb (key_eqb k) same) eqn:C; [|apply IH; assumption].
  apply andb_true_iff in C. destruct C as [C _]. apply Nat.leb_le in C.
  apply IH; [exact Q'|].
  eapply incr_dup_wit; [apply Q, INx | rewrite NK; reflexivity | rewrite NK; exact C | exact D].
Qed.

Theorem mark_duplicates_wit roots : dups_wit roots (mark_duplicates roots).
Proof.
  unfold mark_duplicates. apply mark_loop_wit.
  - intros x IN. apply in_map_iff in IN. destruct IN as (t & <- & IN). apply occ_root, IN.
  - intros k m [].
Qed.

Lemma subtree_well_named ea ext s t : subtree s t -> well_named ea ext t -> well_named ea ext s.
Proof.
  intro H. induction H; intro W; cbn [well_named] in W; try exact W.
  - apply IHsubtree, W.
  - apply IHsubtree, W.
  - apply IHsubtree, W.
  - apply IHsubtree, W.
Qed.

Lemma subtree_depth_named s t : subtree s t -> forall d, depth_named d t -> exists d', depth_named d' s.
Proof.
  intro H. induction H; intros d0 DN; cbn [depth_named] in DN.
  - exists d0. exact DN.
  - eapply IHsubtree; exact DN.
  - eapply IHsubtree; apply DN.
  - eapply IHsubtree; apply DN.
  - destruct (is_quantifier o); eapply IHsubtree; apply DN.
Qed.

Lemma subtree_plainf s t : subtree s t -> plainf t -> plainf s.
Proof. intro H. induction H; intro W; cbn [plainf] in W; try exact W; apply IHsubtree, W. Qed.

Lemma subtree_supported G s t : subtree s t -> supported G t -> supported G s.
Proof. intro H. induction H; intro W; cbn [supported] in W; try exact W; apply IHsubtree, W. Qed.

Lemma subtree_props_known names s t : subtree s t -> props_known names t -> props_known names s.
Proof. intro H. induction H; intro W; cbn [props_known] in W; try exact W; apply IHsubtree, W. Qed.

Section Batch.
Variable ext_alnum : N -> bool.
Variable ext : bool.
Variable G : genv.
Variable names : list str.
Variable sw : switches.
Variable U : tt.
Hypothesis WF : wf_env G names U.
Local Notation st := (steady_of G U).
Local Notation pev := (peval G names sw st).
Local Notation good := (good ext_alnum ext G names).
Local Notation cache_ok := (cache_ok ext_alnum ext G names sw U).
Local Notation dups_ok := (dups_ok ext_alnum ext).

(** the context built by the entry points satisfies the invariants *)
Theorem mark_duplicates_dups_ok roots :
  List.Forall (fun t => well_named ext_alnum ext t /\ exists d, depth_named d t) roots ->
  dups_ok (ctx_new (mark_duplicates roots)).
Proof.
  intros F k m IN. cbn [ctx_new duplicates] in IN.
  destruct (mark_duplicates_wit roots k m IN) as (t & doms & OCC & KEY & LEN).
  destruct (occ_subtree roots _ OCC) as (r & INr & SUB). cbn [fst] in SUB.
  rewrite Forall_forall in F. destruct (F r INr) as [W [d DN]].
  pose proof (subtree_well_named _ _ _ _ SUB W) as Wt.
  destruct (subtree_depth_named _ _ SUB d DN) as [d' DNt].
  unfold node_key in KEY, LEN. destruct (canonize (render t)) as [cn ren] eqn:CT.
  cbn [fst snd] in KEY, LEN. subst k. cbn [fst].
  replace cn with (fst (canonize (render t))) by (rewrite CT; reflexivity).
  apply (single_text_witness ext_alnum ext t d' Wt DNt). rewrite CT. exact LEN.
Qed.

Lemma ctx_new_cache_ok dups : cache_ok (ctx_new dups).
Proof. intros k S rn []. Qed.

(** batches: whatever the (invariant-respecting) starting context, every formula gets the
    result of the cache-free evaluator *)
Theorem eval_all_cache : forall ts c,
  List.Forall good ts -> cache_ok c -> dups_ok c ->
  exists rs, eval_all G names sw st U ts c = Ok rs
             /\ List.Forall2 (fun t R => pev t U = Ok R) ts rs.
Proof.
  induction ts as [|t ts IH]; intros c F CO DO; cbn [eval_all].
  - exists []. split; [reflexivity | constructor].
  - inversion F as [|? ? GT F']; subst.
    destruct (eval_node_cache ext_alnum ext G names sw U WF t c GT CO DO)
      as (R & c' & E & P & CO' & DO').
    rewrite E. cbn [bind]. destruct (IH c' F' CO' DO') as (rs & E' & F2).
    rewrite E'. cbn [bind]. exists (R :: rs). split; [reflexivity|]. constructor; assumption.
Qed.

End Batch.

(** * 4. The entry point: a batch is evaluated formula by formula *)

From Coq Require Import Permutation.
From HCTL Require Import LayoutFacts PipelineFacts.

Fixpoint mapM {A B} (f : A -> res B) (l : list A) : res (list B) :=
  match l with
  | [] => Ok []
  | x :: r => let* y := f x in let* ys := mapM f r in Ok (y :: ys)
  end.

Lemma mapM_Forall2 {A B} (f : A -> res B) l rs :
  mapM f l = Ok rs <-> List.Forall2 (fun x r => f x = Ok r) l rs.
Proof.
  revert rs. induction l as [|x l IH]; intro rs; cbn [mapM].
  - split; [intro H; injection H as <-; constructor | intro H; inversion H; reflexivity].
  - split.
    + destruct (f x) as [y| | |] eqn:E; cbn [bind]; try discriminate.
      destruct (mapM f l) as [ys| | |] eqn:E'; cbn [bind]; try discriminate.
      intro H. injection H as <-. constructor; [exact E | apply IH; reflexivity].
    + intro H. inversion H as [|? y ? ys E F]; subst. rewrite E. cbn [bind].
      rewrite (proj2 (IH ys) F). reflexivity.
Qed.

Lemma Forall2_fun {A B} (P : A -> B -> Prop) l rs rs' :
  (forall x r r', P x r -> P x r' -> r = r') ->
  List.Forall2 P l rs -> List.Forall2 P l rs' -> rs = rs'.
Proof.
  intros FN H. revert rs'. induction H as [|x r l rs HP _ IH]; intros rs' H'; inversion H'; subst;
    [reflexivity|]. f_equal; [eapply FN; eassumption | apply IH; assumption].
Qed.

Lemma Forall2_nth {A B} (P : A -> B -> Prop) l rs i da db :
  List.Forall2 P l rs -> i < length l -> P (nth i l da) (nth i rs db).
Proof.
  intro H. revert i. induction H as [|x r l rs HP _ IH]; intros i LT; cbn [length] in LT; [lia|].
  destruct i as [|i]; cbn [nth]; [exact HP | apply IH; lia].
Qed.

(** the result of a batch as a function of the formula *)
Lemma mapM_map {A B} (f : A -> res B) (g : A -> B) l :
  (forall x, In x l -> f x = Ok (g x)) -> mapM f l = Ok (map g l).
Proof.
  induction l as [|x l IH]; intro H; cbn [mapM map]; [reflexivity|].
  rewrite (H x (or_introl eq_refl)). cbn [bind]. rewrite IH by (intros y IN; apply H; right; exact IN).
  reflexivity.
Qed.

Lemma combine_map_r {A B} (g : A -> B) l : combine l (map g l) = map (fun x => (x, g x)) l.
Proof. induction l as [|x l IH]; cbn [combine map]; [reflexivity | rewrite IH; reflexivity]. Qed.

Theorem mapM_permutation {A B} (f : A -> res B) (d : B) l l' rs :
  Permutation l l' -> mapM f l = Ok rs ->
  exists rs', mapM f l' = Ok rs' /\ Permutation (combine l rs) (combine l' rs').
Proof.
  intros PM H.
  set (g := fun x => match f x with Ok r => r | _ => d end).
  assert (forall x, In x l -> f x = Ok (g x)) as FG.
  { apply mapM_Forall2 in H. intros x IN. clear PM.
    induction H as [|y r l rs E _ IH]; [destruct IN|].
    destruct IN as [<- | IN]; [|apply IH, IN]. unfold g. rewrite E. reflexivity. }
  assert (rs = map g l) as ->.
  { pose proof (mapM_map f g l FG) as H'. congruence. }
  exists (map g l'). split.
  - apply mapM_map. intros x IN. apply FG. eapply Permutation_in; [apply Permutation_sym; exact PM | exact IN].
  - rewrite !combine_map_r. apply Permutation_map, PM.
Qed.

Section World.
Variable ext_alnum : N -> bool.
Variable ext : bool.
Variable w : world.
Variable k : nat.
Hypothesis upd_ok : List.Forall (shaped (Lpn (w_p w) (w_n w))) (w_upd w).
Hypothesis unit_ok : shaped (Lpn (w_p w) (w_n w)) (w_unit w).
Hypothesis unit_colour : forall v v', (forall j, v (TP j) = v' (TP j)) ->
  mem (Lpn (w_p w) (w_n w)) (w_unit w) v = mem (Lpn (w_p w) (w_n w)) (w_unit w) v'.
Hypothesis names_ok : length (w_names w) <= w_n w.

Let G := genv_of w k.
Let U := unit_of w k.
Local Notation good := (good ext_alnum ext G (w_names w)).

Let WF : wf_env G (w_names w) U := world_wf w k upd_ok unit_ok unit_colour names_ok.

(** what the entry point returns for one formula: the cache-free evaluator, then the
    sanitiser if the mode asks for it *)
Definition single (m : mode) (t : tree) : res tt :=
  let* r := peval G (w_names w) {| use_patterns := negb (m_nopatterns m) |} (steady_of G U) t U in
  if m_sanitize m then sanitize G r else Ok r.

Lemma post_map m ts rs :
  List.Forall2 (fun t R => peval G (w_names w) {| use_patterns := negb (m_nopatterns m) |}
                             (steady_of G U) t U = Ok R) ts rs ->
  (if m_sanitize m then sanitize_all G rs else Ok rs) = mapM (single m) ts.
Proof.
  intro F. induction F as [|t R ts rs E _ IH]; cbn [mapM sanitize_all].
  - destruct (m_sanitize m); reflexivity.
  - unfold single at 1. rewrite E. cbn [bind]. rewrite <- IH.
    destruct (m_sanitize m); [|reflexivity].
    destruct (sanitize G R); cbn [bind]; reflexivity.
Qed.

Lemma good_named t : good t -> well_named ext_alnum ext t /\ exists d, depth_named d t.
Proof. intros (_ & _ & _ & W & D). split; assumption. Qed.

Theorem check_trees_map m ts :
  m_ext m = false -> m_unsafe_ex m = false -> List.Forall good ts ->
  check_trees w k m ts [] [] = mapM (single m) ts.
Proof.
  intros He Hu F. unfold check_trees. rewrite He, Hu. fold G U.
  set (sw := {| use_patterns := negb (m_nopatterns m) |}).
  assert (dups_ok ext_alnum ext (ctx_new (if m_nocache m then [] else mark_duplicates ts))) as DO.
  { destruct (m_nocache m); [intros k0 m0 [] |].
    apply mark_duplicates_dups_ok. eapply Forall_impl; [|exact F]. intros t. apply good_named. }
  destruct (eval_all_cache ext_alnum ext G (w_names w) sw U WF ts _ F
              (ctx_new_cache_ok ext_alnum ext G (w_names w) sw U _) DO) as (rs & E & F2).
  rewrite E. cbn [bind]. apply post_map, F2.
Qed.

End World.

(** * 5. Corollaries in the words of the property *)

From HCTL Require Import NoPanic ParsedNamed.

(** the trees returned by [validate_all] satisfy the side conditions of the invariant *)
Lemma prepared_good ea Gv props f t' :
  prepared ea props (g_k Gv) f t' -> good ea false Gv props t'.
Proof.
  intro P. destruct (prepared_evaluable ea Gv props f t' P) as (A & B & C & D).
  split; [exact A|]. split; [exact C|]. split; [exact B|].
  split; [eapply prepared_well_named; exact P | exists 0; exact D].
Qed.

Theorem validate_all_good ea (w : world) k ctx fs r :
  validate_all ea false (w_names w) k ctx fs = Ok r ->
  exists ts', r = (ts', [], []) /\ List.Forall (good ea false (genv_of w k) (w_names w)) ts'.
Proof.
  intro H. apply validate_all_ok_iff in H. destruct H as (ts' & -> & F).
  exists ts'. split; [reflexivity|]. clear ctx.
  induction F as [|f t' fs ts' P _ IH]; constructor; [|exact IH].
  apply (prepared_good ea (genv_of w k) (w_names w) f t'). exact P.
Qed.

Section Corollaries.
Variable ext_alnum : N -> bool.
Variable ext : bool.
Variable w : world.
Variable k : nat.
Hypothesis upd_ok : List.Forall (shaped (Lpn (w_p w) (w_n w))) (w_upd w).
Hypothesis unit_ok : shaped (Lpn (w_p w) (w_n w)) (w_unit w).
Hypothesis unit_colour : forall v v', (forall j, v (TP j) = v' (TP j)) ->
  mem (Lpn (w_p w) (w_n w)) (w_unit w) v = mem (Lpn (w_p w) (w_n w)) (w_unit w) v'.
Hypothesis names_ok : length (w_names w) <= w_n w.

Local Notation G := (genv_of w k).
Local Notation U := (unit_of w k).
Local Notation good := (good ext_alnum ext G (w_names w)).
Local Notation ctm := (check_trees_map ext_alnum ext w k upd_ok unit_ok unit_colour names_ok).

(** (a) the mode that marks no duplicates returns the same outcome *)
Theorem cache_mode_irrelevant m m' ts :
  m_ext m = false -> m_unsafe_ex m = false -> m_ext m' = false -> m_unsafe_ex m' = false ->
  m_sanitize m = m_sanitize m' -> m_nopatterns m = m_nopatterns m' ->
  List.Forall good ts ->
  check_trees w k m ts [] [] = check_trees w k m' ts [] [].
Proof.
  intros He Hu He' Hu' Hs Hp F. rewrite (ctm m ts He Hu F), (ctm m' ts He' Hu' F).
  unfold single. rewrite Hs, Hp. reflexivity.
Qed.

(** (b) the result at position [i] is the result of the formula evaluated alone *)
Theorem batch_position m ts rs i dt dr :
  m_ext m = false -> m_unsafe_ex m = false -> List.Forall good ts ->
  check_trees w k m ts [] [] = Ok rs -> i < length ts ->
  check_trees w k m [nth i ts dt] [] [] = Ok [nth i rs dr].
Proof.
  intros He Hu F H LT. rewrite (ctm m ts He Hu F) in H.
  assert (good (nth i ts dt)) as GI by (rewrite Forall_forall in F; apply F, nth_In, LT).
  rewrite (ctm m [nth i ts dt] He Hu (Forall_cons _ GI (Forall_nil _))).
  apply mapM_Forall2 in H. pose proof (Forall2_nth _ ts rs i dt dr H LT) as E.
  cbn [mapM]. rewrite E. reflexivity.
Qed.

(** (c) permuting the batch permutes the results accordingly *)
Theorem batch_permutation m ts ts' rs :
  m_ext m = false -> m_unsafe_ex m = false -> List.Forall good ts -> Permutation ts ts' ->
  check_trees w k m ts [] [] = Ok rs ->
  exists rs', check_trees w k m ts' [] [] = Ok rs'
              /\ Permutation (combine ts rs) (combine ts' rs').
Proof.
  intros He Hu F PM H. rewrite (ctm m ts He Hu F) in H.
  assert (List.Forall good ts') as F'.
  { rewrite Forall_forall in *. intros t IN. apply F. eapply Permutation_in; [apply Permutation_sym; exact PM | exact IN]. }
  rewrite (ctm m ts' He Hu F'). exact (mapM_permutation (single w k m) (Leaf false) ts ts' rs PM H).
Qed.

(** ... and a repeated formula gets the same result twice *)
Theorem batch_repetition m t ts r1 r2 rs :
  m_ext m = false -> m_unsafe_ex m = false -> List.Forall good (t :: t :: ts) ->
  check_trees w k m (t :: t :: ts) [] [] = Ok (r1 :: r2 :: rs) ->
  r1 = r2 /\ check_trees w k m (t :: ts) [] [] = Ok (r1 :: rs).
Proof.
  intros He Hu F H. rewrite (ctm m _ He Hu F) in H.
  assert (List.Forall good (t :: ts)) as F' by (inversion F; assumption).
  rewrite (ctm m _ He Hu F'). apply mapM_Forall2 in H.
  inversion H as [|? ? ? ? E1 H']; subst. inversion H' as [|? ? ? ? E2 H'']; subst.
  split; [congruence|]. apply mapM_Forall2. constructor; assumption.
Qed.

(** (d) two runs from different contexts that satisfy the invariant agree: the counters and
    the cache contents (the evaluation history) do not matter *)
Theorem history_independent sw ts c1 c2 rs1 rs2 :
  List.Forall good ts ->
  cache_ok ext_alnum ext G (w_names w) sw U c1 -> dups_ok ext_alnum ext c1 ->
  cache_ok ext_alnum ext G (w_names w) sw U c2 -> dups_ok ext_alnum ext c2 ->
  eval_all G (w_names w) sw (steady_of G U) U ts c1 = Ok rs1 ->
  eval_all G (w_names w) sw (steady_of G U) U ts c2 = Ok rs2 -> rs1 = rs2.
Proof.
  intros F CO1 DO1 CO2 DO2 E1 E2.
  pose proof (world_wf w k upd_ok unit_ok unit_colour names_ok) as WF.
  destruct (eval_all_cache ext_alnum ext G (w_names w) sw U WF ts c1 F CO1 DO1) as (r1 & E1' & F1).
  destruct (eval_all_cache ext_alnum ext G (w_names w) sw U WF ts c2 F CO2 DO2) as (r2 & E2' & F2).
  assert (r1 = rs1) by congruence. assert (r2 = rs2) by congruence. subst.
  eapply Forall2_fun; [|exact F1 | exact F2]. intros; congruence.
Qed.

End Corollaries.

(** the string entry point: the evaluation context without duplicates gives the same outcome,
    for every list of formula strings (accepted or not) *)
Theorem model_check_cache_mode_irrelevant ea (w : world) k m m' ctx fs :
  List.Forall (shaped (Lpn (w_p w) (w_n w))) (w_upd w) ->
  shaped (Lpn (w_p w) (w_n w)) (w_unit w) ->
  (forall v v', (forall j, v (TP j) = v' (TP j)) ->
     mem (Lpn (w_p w) (w_n w)) (w_unit w) v = mem (Lpn (w_p w) (w_n w)) (w_unit w) v') ->
  length (w_names w) <= w_n w ->
  m_ext m = false -> m_unsafe_ex m = false -> m_ext m' = false -> m_unsafe_ex m' = false ->
  m_sanitize m = m_sanitize m' -> m_nopatterns m = m_nopatterns m' ->
  model_check ea w k m ctx fs = model_check ea w k m' ctx fs.
Proof.
  intros H1 H2 H3 H4 He Hu He' Hu' Hs Hp. unfold model_check. rewrite He, He'.
  destruct (validate_all ea false (w_names w) k ctx fs) as [r| | |] eqn:V; try reflexivity.
  destruct (validate_all_good ea w k ctx fs r V) as (ts' & -> & F). cbn [bind fst snd].
  apply (cache_mode_irrelevant ea false w k H1 H2 H3 H4); assumption.
Qed.

(** * 6. The statements of C04 in implication form *)

Section Statements.
Variable ext_alnum : N -> bool.
Variable ext : bool.
Variable G : genv.
Variable names : list str.
Variable sw : switches.
Variable U : tt.
Hypothesis WF : wf_env G names U.
Local Notation st := (steady_of G U).
Local Notation pev := (peval G names sw st).
Local Notation good := (good ext_alnum ext G names).
Local Notation cache_ok := (cache_ok ext_alnum ext G names sw U).
Local Notation dups_ok := (dups_ok ext_alnum ext).

Theorem eval_node_cache_transparent t c R c' :
  good t -> cache_ok c -> dups_ok c ->
  eval_node G names sw st t U c = Ok (R, c') ->
  pev t U = Ok R /\ cache_ok c' /\ dups_ok c'.
Proof.
  intros GT CO DO E.
  destruct (eval_node_cache ext_alnum ext G names sw U WF t c GT CO DO) as (R0 & c0 & E0 & P & CO' & DO').
  rewrite E in E0. injection E0 as <- <-. repeat split; assumption.
Qed.

(** no panic (in particular no [PReverseRenaming]), no exhausted fuel, no error *)
Theorem eval_node_cache_total t c :
  good t -> cache_ok c -> dups_ok c ->
  exists R c', eval_node G names sw st t U c = Ok (R, c').
Proof.
  intros GT CO DO.
  destruct (eval_node_cache ext_alnum ext G names sw U WF t c GT CO DO) as (R0 & c0 & E0 & _).
  exists R0, c0. exact E0.
Qed.

(** with the cache, [eval_node] still returns exactly the satisfying valuations (C01) *)
Theorem eval_node_cache_correct (Gamma : str -> val -> Prop) t c R c' :
  good t -> cache_ok c -> dups_ok c ->
  eval_node G names sw st t U c = Ok (R, c') ->
  shaped (g_L G) R /\
  forall v, mem (g_L G) R v = true <-> (mem (g_L G) U v = true /\ sat G names Gamma t v).
Proof.
  intros GT CO DO E.
  destruct (eval_node_cache_transparent t c R c' GT CO DO E) as (P & _).
  destruct GT as (Pl & Su & _). exact (peval_correct G names U WF Gamma sw t R Pl Su P).
Qed.

Theorem batch_transparent ts c rs :
  List.Forall good ts -> cache_ok c -> dups_ok c ->
  eval_all G names sw st U ts c = Ok rs ->
  List.Forall2 (fun t R => pev t U = Ok R) ts rs.
Proof.
  intros F CO DO E.
  destruct (eval_all_cache ext_alnum ext G names sw U WF ts c F CO DO) as (rs0 & E0 & F2).
  rewrite E in E0. injection E0 as <-. exact F2.
Qed.

Theorem batch_transparent_marked ts rs :
  List.Forall good ts ->
  eval_all G names sw st U ts (ctx_new (mark_duplicates ts)) = Ok rs ->
  List.Forall2 (fun t R => pev t U = Ok R) ts rs.
Proof.
  intros F E. apply (batch_transparent ts (ctx_new (mark_duplicates ts)) rs F); try assumption.
  - apply ctx_new_cache_ok.
  - apply mark_duplicates_dups_ok. eapply Forall_impl; [|exact F].
    intros t (_ & _ & _ & W & D). split; assumption.
Qed.

Theorem batch_total ts c :
  List.Forall good ts -> cache_ok c -> dups_ok c ->
  exists rs, eval_all G names sw st U ts c = Ok rs.
Proof.
  intros F CO DO.
  destruct (eval_all_cache ext_alnum ext G names sw U WF ts c F CO DO) as (rs0 & E0 & _).
  exists rs0. exact E0.
Qed.

End Statements.

(** * 7. The scopes recorded in the context are restored (frame property) *)

Lemma bind_ok_inv {A B} (r : res A) (f : A -> res B) (b : B) :
  bind r f = Ok b -> exists a, r = Ok a /\ f a = Ok b.
Proof. destruct r as [a| | |]; cbn [bind]; try discriminate. intro H. exists a. auto. Qed.

Lemma aremove_sinsert {B} (x : str) (v : B) (l : list (str * B)) :
  aremove str_eqb x (sinsert x v l) = aremove str_eqb x l.
Proof.
  induction l as [|[k' v'] l IH]; cbn [sinsert aremove].
  - rewrite str_eqb_refl. reflexivity.
  - destruct (str_eqb x k') eqn:E.
    + cbn [aremove]. rewrite str_eqb_refl. reflexivity.
    + destruct (str_ltb x k'); cbn [aremove]; rewrite ?str_eqb_refl, E; [reflexivity|].
      rewrite IH. reflexivity.
Qed.

Lemma aremove_absent {B} (x : str) (l : list (str * B)) :
  alookup str_eqb x l = None -> aremove str_eqb x l = l.
Proof.
  induction l as [|[k' v'] l IH]; cbn [alookup aremove]; [reflexivity|].
  destruct (str_eqb x k'); [discriminate|]. intro H. rewrite (IH H). reflexivity.
Qed.

Lemma alookup_sinsert {B} (x y : str) (v : B) (l : list (str * B)) :
  y <> x -> alookup str_eqb y (sinsert x v l) = alookup str_eqb y l.
Proof.
  intro NE. induction l as [|[k' v'] l IH]; cbn [sinsert alookup].
  - apply str_eqb_neq in NE. rewrite NE. reflexivity.
  - destruct (str_eqb x k') eqn:E.
    + str_eq. subst k'. cbn [alookup]. apply str_eqb_neq in NE. rewrite NE. reflexivity.
    + destruct (str_ltb x k'); cbn [alookup].
      * pose proof NE as NE'. apply str_eqb_neq in NE'. rewrite NE'. reflexivity.
      * rewrite IH. reflexivity.
Qed.

Section Frame.
Variable G : genv.
Variable names : list str.
Variable sw : switches.
Variable steady : tt.

Lemma finish_at_free k ren save r c1 R c' :
  finish_at k ren save (r, c1) = Ok (R, c') -> free_doms c' = free_doms c1.
Proof. unfold finish_at. destruct save; intro H; injection H as _ <-; reflexivity. Qed.

Lemma hit_ctx_free t k c : free_doms (hit_ctx t k c) = free_doms c.
Proof.
  unfold hit_ctx. destruct (is_wild_terminal t); [reflexivity|].
  destruct (alookup key_eqb k (duplicates c)) as [[|[|m]]|]; reflexivity.
Qed.

(** the open scopes [free_doms] are the same before and after a node, for a plain
    sub-formula found below [d] quantifiers when no deeper binder name is in scope *)
Theorem eval_node_free_doms : forall t d U c R c',
  plainf t -> depth_named d t ->
  (forall j, d <= j -> alookup str_eqb (xs (S j)) (free_doms c) = None) ->
  eval_node G names sw steady t U c = Ok (R, c') -> free_doms c' = free_doms c.
Proof.
  induction t as [a | o a IH | o a IHa b IHb | o x dm a IH]; intros d U c R c' PL DN FR E;
    rewrite eval_node_unfold in E;
    (destruct (amem key_eqb (key_of c _) (duplicates c));
     [destruct (alookup key_eqb (key_of c _) (cache c)) as [[cached cren]|]|]);
    try (apply bind_ok_inv in E; destruct E as (r & _ & E); injection E as _ <-; apply hit_ctx_free);
    unfold eval_miss in E.
  all: try (cbn [is_attractor_pattern is_fixed_point_pattern] in E; rewrite !andb_false_r in E).
  - destruct a as [nm | y | | | w].
    + destruct (index_of nm names 0); [|discriminate E]. eapply finish_at_free; exact E.
    + apply bind_ok_inv in E. destruct E as (e & _ & E). eapply finish_at_free; exact E.
    + eapply finish_at_free; exact E.
    + eapply finish_at_free; exact E.
    + discriminate E.
  - destruct a as [nm | y | | | w].
    + destruct (index_of nm names 0); [|discriminate E]. eapply finish_at_free; exact E.
    + apply bind_ok_inv in E. destruct E as (e & _ & E). eapply finish_at_free; exact E.
    + eapply finish_at_free; exact E.
    + eapply finish_at_free; exact E.
    + discriminate E.
  - apply bind_ok_inv in E. destruct E as ([x1 c1] & E1 & E).
    apply bind_ok_inv in E. destruct E as (r & _ & E).
    rewrite (finish_at_free _ _ _ _ _ _ _ E). eapply IH; eassumption.
  - apply bind_ok_inv in E. destruct E as ([x1 c1] & E1 & E).
    apply bind_ok_inv in E. destruct E as (r & _ & E).
    rewrite (finish_at_free _ _ _ _ _ _ _ E). eapply IH; eassumption.
  - cbn [plainf depth_named] in PL, DN. destruct PL as [PLa PLb]. destruct DN as [DNa DNb].
    apply bind_ok_inv in E. destruct E as ([x1 c1] & E1 & E).
    apply bind_ok_inv in E. destruct E as ([x2 c2] & E2 & E).
    apply bind_ok_inv in E. destruct E as (r & _ & E).
    rewrite (finish_at_free _ _ _ _ _ _ _ E).
    pose proof (IHa d U c x1 c1 PLa DNa FR E1) as F1.
    rewrite (IHb d U c1 x2 c2 PLb DNb); [exact F1 | rewrite F1; exact FR | exact E2].
  - cbn [plainf depth_named] in PL, DN. destruct PL as [PLa PLb]. destruct DN as [DNa DNb].
    apply bind_ok_inv in E. destruct E as ([x1 c1] & E1 & E).
    apply bind_ok_inv in E. destruct E as ([x2 c2] & E2 & E).
    apply bind_ok_inv in E. destruct E as (r & _ & E).
    rewrite (finish_at_free _ _ _ _ _ _ _ E).
    pose proof (IHa d U c x1 c1 PLa DNa FR E1) as F1.
    rewrite (IHb d U c1 x2 c2 PLb DNb); [exact F1 | rewrite F1; exact FR | exact E2].
  - cbn [plainf depth_named] in PL, DN; destruct PL as [-> PLa].
    destruct (use_patterns sw && is_attractor_pattern (Hybrid o x None a));
    [apply bind_ok_inv in E; destruct E as (e & _ & E);
     apply bind_ok_inv in E; destruct E as (r & _ & E); eapply finish_at_free; exact E|].
    destruct (use_patterns sw && is_fixed_point_pattern (Hybrid o x None a));
    [injection E as _ <-; reflexivity|].
    assert (Q : forall c1,
         free_doms c1 = sinsert x None (free_doms c) -> x = xs (S d) ->
         free_doms (set_free c1 (aremove str_eqb x (free_doms c1))) = free_doms c)
    by (intros c1 F1 ->; cbn [free_doms set_free]; rewrite F1, aremove_sinsert;
        apply aremove_absent, FR; lia).
    assert (P : x = xs (S d) -> forall j, S d <= j ->
         alookup str_eqb (xs (S j)) (free_doms (set_free c (sinsert x None (free_doms c)))) = None)
    by (intros -> j LE; cbn [free_doms set_free]; rewrite alookup_sinsert;
        [apply FR; lia | intro EQ; apply xs_inj in EQ; lia]).
    destruct o; cbn [is_quantifier] in DN; destruct DN as [DNx DNa];
    apply bind_ok_inv in E; destruct E as ([x1 c1] & E1 & E);
    apply bind_ok_inv in E; destruct E as (e & _ & E);
    try (apply bind_ok_inv in E; destruct E as (r & _ & E));
    rewrite (finish_at_free _ _ _ _ _ _ _ E);
    first [ eapply IH; eassumption
          | apply (Q c1); [|exact DNx];
            apply (IH (S d) U _ x1 c1 PLa DNa (P DNx) E1) ].
  - cbn [plainf depth_named] in PL, DN; destruct PL as [-> PLa].
    destruct (use_patterns sw && is_attractor_pattern (Hybrid o x None a));
    [apply bind_ok_inv in E; destruct E as (e & _ & E);
     apply bind_ok_inv in E; destruct E as (r & _ & E); eapply finish_at_free; exact E|].
    destruct (use_patterns sw && is_fixed_point_pattern (Hybrid o x None a));
    [injection E as _ <-; reflexivity|].
    assert (Q : forall c1,
         free_doms c1 = sinsert x None (free_doms c) -> x = xs (S d) ->
         free_doms (set_free c1 (aremove str_eqb x (free_doms c1))) = free_doms c)
    by (intros c1 F1 ->; cbn [free_doms set_free]; rewrite F1, aremove_sinsert;
        apply aremove_absent, FR; lia).
    assert (P : x = xs (S d) -> forall j, S d <= j ->
         alookup str_eqb (xs (S j)) (free_doms (set_free c (sinsert x None (free_doms c)))) = None)
    by (intros -> j LE; cbn [free_doms set_free]; rewrite alookup_sinsert;
        [apply FR; lia | intro EQ; apply xs_inj in EQ; lia]).
    destruct o; cbn [is_quantifier] in DN; destruct DN as [DNx DNa];
    apply bind_ok_inv in E; destruct E as ([x1 c1] & E1 & E);
    apply bind_ok_inv in E; destruct E as (e & _ & E);
    try (apply bind_ok_inv in E; destruct E as (r & _ & E));
    rewrite (finish_at_free _ _ _ _ _ _ _ E);
    first [ eapply IH; eassumption
          | apply (Q c1); [|exact DNx];
            apply (IH (S d) U _ x1 c1 PLa DNa (P DNx) E1) ].
Qed.

End Frame.
