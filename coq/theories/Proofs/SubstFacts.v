(** C10 -- pre-computed results can be substituted for sub-formulae.

    1. [subst_closed psi w t] replaces every occurrence of the sub-tree [psi] of [t] by the
       wild-card proposition [%w%]; if the context maps [w] to the meaning of [psi], the
       meaning of the formula does not change ([substitute_sat], no closedness needed; the
       version relative to a set of valuations closed under everything [sat] moves along,
       [subst_sat_inv], is what the evaluator needs: a raw result is exact inside the unit only).
    2. Evaluating the substituted formula with [w] bound to (any set that inside the unit is)
       the raw result of [psi] gives, inside the unit, the members of the result for [t]
       ([substitute_eval] and variants; the link to [eval_node]).  For a closed [psi] the raw
       result does not read the spare copies inside the unit, it can be sanitised, and the
       lifted sanitised set can be handed back ([substitute_sanitized]).
    3. With empty contexts the extended entry points are the plain ones. *)
From HCTL Require Import Base Syntax Canon MarkDup TT Ops Eval Pipeline Kripke HCTL.
From HCTL Require Import TTFacts OpsFacts EvalPure Main LayoutFacts IndepFacts.
From HCTL Require Import ExtSem ExtFacts ExtEval ExtLink PipelineFacts.

(** * 0. [tree_eqb] decides equality of trees *)

Lemma unop_eqb_eq a b : unop_eqb a b = true <-> a = b.
Proof. destruct a, b; cbn [unop_eqb]; split; congruence. Qed.

Lemma binop_eqb_eq a b : binop_eqb a b = true <-> a = b.
Proof. destruct a, b; cbn [binop_eqb]; split; congruence. Qed.

Lemma hybop_eqb_eq a b : hybop_eqb a b = true <-> a = b.
Proof. destruct a, b; cbn [hybop_eqb]; split; congruence. Qed.

Lemma atom_eqb_eq a b : atom_eqb a b = true <-> a = b.
Proof.
  destruct a as [x|x| | |x], b as [y|y| | |y]; cbn [atom_eqb];
    try rewrite str_eqb_eq; split; congruence.
Qed.

Lemma tree_eqb_eq : forall a b, tree_eqb a b = true <-> a = b.
Proof.
  induction a as [x | o a IH | o a IHa b IHb | o x d a IH];
    intros [y | o' a' | o' a' b' | o' x' d' a']; cbn [tree_eqb];
    try (split; congruence).
  - rewrite atom_eqb_eq. split; congruence.
  - rewrite andb_true_iff, unop_eqb_eq, IH.
    split; [intros [-> ->]; reflexivity | intro E; injection E; auto].
  - rewrite !andb_true_iff, binop_eqb_eq, IHa, IHb.
    split; [intros [[-> ->] ->]; reflexivity | intro E; injection E; auto].
  - rewrite !andb_true_iff, hybop_eqb_eq, str_eqb_eq, (opt_eqb_eq str_eqb str_eqb_eq), IH.
    split; [intros [[[-> ->] ->] ->]; reflexivity | intro E; injection E; auto].
Qed.

Lemma tree_eqb_refl t : tree_eqb t t = true.
Proof. apply tree_eqb_eq. reflexivity. Qed.

Lemma tree_eq_dec (a b : tree) : {a = b} + {a <> b}.
Proof.
  destruct (tree_eqb a b) eqn:E.
  - left. apply tree_eqb_eq. exact E.
  - right. intro H. apply tree_eqb_eq in H. congruence.
Qed.

Lemma str_eqb_refl s : str_eqb s s = true.
Proof. apply str_eqb_eq. reflexivity. Qed.

Lemma str_eqb_neq a b : a <> b -> str_eqb a b = false.
Proof. intro H. destruct (str_eqb a b) eqn:E; [apply str_eqb_eq in E; contradiction | reflexivity]. Qed.

(** * 1. Substitution of a wild-card proposition for a sub-tree *)

(** every occurrence of [psi] in [t] becomes [%w%] (outermost occurrences first: what is
    inside a replaced occurrence disappears with it) *)
Fixpoint subst_closed (psi : tree) (w : str) (t : tree) {struct t} : tree :=
  if tree_eqb psi t then Terminal (AWild w)
  else match t with
       | Terminal a => Terminal a
       | Unary o a => Unary o (subst_closed psi w a)
       | Binary o a b => Binary o (subst_closed psi w a) (subst_closed psi w b)
       | Hybrid o x d a => Hybrid o x d (subst_closed psi w a)
       end.

(** [w] is not a label of [t]: neither a wild-card proposition nor a quantifier domain *)
Fixpoint fresh_label (w : str) (t : tree) : Prop :=
  match t with
  | Terminal (AWild l) => l <> w
  | Terminal _ => True
  | Unary _ a => fresh_label w a
  | Binary _ a b => fresh_label w a /\ fresh_label w b
  | Hybrid _ _ d a => d <> Some w /\ fresh_label w a
  end.

(** every label of [t] outside the occurrences of [psi] satisfies [Lab] *)
Fixpoint labels_outside (psi : tree) (Lab : str -> Prop) (t : tree) {struct t} : Prop :=
  if tree_eqb psi t then True
  else match t with
       | Terminal (AWild l) => Lab l
       | Terminal _ => True
       | Unary _ a => labels_outside psi Lab a
       | Binary _ a b => labels_outside psi Lab a /\ labels_outside psi Lab b
       | Hybrid _ _ d a => (forall l, d = Some l -> Lab l) /\ labels_outside psi Lab a
       end.

(** [w] is not a label of [t] outside the occurrences of [psi] (all that the substitution
    needs) *)
Definition fresh_outside (psi : tree) (w : str) (t : tree) : Prop :=
  labels_outside psi (fun l => l <> w) t.

Lemma fresh_label_outside psi w : forall t, fresh_label w t -> fresh_outside psi w t.
Proof.
  unfold fresh_outside.
  induction t as [a | o a IH | o a IHa b IHb | o x d a IH]; intro H;
    cbn [labels_outside]; destruct (tree_eqb psi _); try exact I; cbn [fresh_label] in H.
  - exact H.
  - apply IH. exact H.
  - destruct H as [Ha Hb]. split; [apply IHa | apply IHb]; assumption.
  - destruct H as [Hd Ha]. split; [intros l -> X; apply Hd; congruence | apply IH; exact Ha].
Qed.

Lemma labels_outside_all psi (Lab : str -> Prop) : (forall l, Lab l) ->
  forall t, labels_outside psi Lab t.
Proof.
  intro H. induction t as [a | o a IH | o a IHa b IHb | o x d a IH];
    cbn [labels_outside]; destruct (tree_eqb psi _); try exact I; auto.
  destruct a; auto.
Qed.

(** [psi] occurs in [t] *)
Fixpoint subterm (psi t : tree) : Prop :=
  psi = t \/
  match t with
  | Terminal _ => False
  | Unary _ a => subterm psi a
  | Binary _ a b => subterm psi a \/ subterm psi b
  | Hybrid _ _ _ a => subterm psi a
  end.

Lemma subst_closed_self psi w : subst_closed psi w psi = Terminal (AWild w).
Proof. destruct psi; cbn [subst_closed]; rewrite tree_eqb_refl; reflexivity. Qed.

(** nothing to replace: the formula is unchanged *)
Lemma subst_closed_absent psi w : forall t, ~ subterm psi t -> subst_closed psi w t = t.
Proof.
  induction t as [a | o a IH | o a IHa b IHb | o x d a IH]; intro H; cbn [subst_closed];
    (destruct (tree_eqb psi _) eqn:E;
     [apply tree_eqb_eq in E; exfalso; apply H; left; exact E|]).
  - reflexivity.
  - rewrite IH; [reflexivity|]. intro X. apply H. right. exact X.
  - rewrite IHa, IHb; [reflexivity| |]; intro X; apply H; right; [right|left]; exact X.
  - rewrite IH; [reflexivity|]. intro X. apply H. right. exact X.
Qed.

(** replacing [%w%] by [%w%] *)
Lemma subst_closed_wild_id w : forall t, subst_closed (Terminal (AWild w)) w t = t.
Proof.
  induction t as [a | o a IH | o a IHa b IHb | o x d a IH]; cbn [subst_closed];
    (destruct (tree_eqb (Terminal (AWild w)) _) eqn:E; [apply tree_eqb_eq in E; exact E|]).
  - reflexivity.
  - rewrite IH. reflexivity.
  - rewrite IHa, IHb. reflexivity.
  - rewrite IH. reflexivity.
Qed.

(** * 2. The semantic core *)

(** the context [Gamma] with label [w] re-bound to the predicate [P] *)
Definition ctx_with (Gamma : str -> val -> Prop) (w : str) (P : val -> Prop)
  : str -> val -> Prop :=
  fun l v => if str_eqb l w then P v else Gamma l v.

Lemma ctx_with_same Gamma w P v : ctx_with Gamma w P w v <-> P v.
Proof. unfold ctx_with. rewrite str_eqb_refl. reflexivity. Qed.

Lemma ctx_with_other Gamma w P l v : l <> w -> (ctx_with Gamma w P l v <-> Gamma l v).
Proof. intro H. unfold ctx_with. rewrite (str_eqb_neq _ _ H). reflexivity. Qed.

(** ** congruence of the temporal operators on a set of valuations closed under transitions *)
Section InvCongr.
Variable G : genv.
Variable Inv : val -> Prop.
Hypothesis Inv_flip : forall i v, Inv v -> Inv (vflip (TS i) v).

Definition rel_inv (v w : val) : Prop := v = w /\ Inv v.

Lemma rel_inv_en i v w : i < g_n G -> rel_inv v w -> enabled G i v = enabled G i w.
Proof. intros _ [-> _]. reflexivity. Qed.

Lemma rel_inv_flip i v w : rel_inv v w -> rel_inv (vflip (TS i) v) (vflip (TS i) w).
Proof. intros [-> H]. split; [reflexivity | apply Inv_flip; exact H]. Qed.

Lemma rel_inv_pred (P P' : val -> Prop) : (forall v, Inv v -> (P v <-> P' v)) ->
  forall v w, rel_inv v w -> (P v <-> P' w).
Proof. intros H v w [<- Hv]. apply H. exact Hv. Qed.

Section Pred.
Variables P P' Q Q' : val -> Prop.
Hypothesis HP : forall v, Inv v -> (P v <-> P' v).
Hypothesis HQ : forall v, Inv v -> (Q v <-> Q' v).

Lemma EXs_inv v : Inv v -> (EXs G P v <-> EXs G P' v).
Proof.
  intro Hv. apply (EXs_bisim G G rel_inv eq_refl rel_inv_en rel_inv_flip P P' (rel_inv_pred _ _ HP)).
  split; [reflexivity | exact Hv].
Qed.
Lemma AXs_inv v : Inv v -> (AXs G P v <-> AXs G P' v).
Proof.
  intro Hv. apply (AXs_bisim G G rel_inv eq_refl rel_inv_en rel_inv_flip P P' (rel_inv_pred _ _ HP)).
  split; [reflexivity | exact Hv].
Qed.
Lemma EFs_inv v : Inv v -> (EFs G P v <-> EFs G P' v).
Proof.
  intro Hv. apply (EFs_bisim G G rel_inv eq_refl rel_inv_en rel_inv_flip P P' (rel_inv_pred _ _ HP)).
  split; [reflexivity | exact Hv].
Qed.
Lemma AFs_inv v : Inv v -> (AFs G P v <-> AFs G P' v).
Proof.
  intro Hv. apply (AFs_bisim G G rel_inv eq_refl rel_inv_en rel_inv_flip P P' (rel_inv_pred _ _ HP)).
  split; [reflexivity | exact Hv].
Qed.
Lemma EGs_inv v : Inv v -> (EGs G P v <-> EGs G P' v).
Proof.
  intro Hv. apply (EGs_bisim G G rel_inv eq_refl rel_inv_en rel_inv_flip P P' (rel_inv_pred _ _ HP)).
  split; [reflexivity | exact Hv].
Qed.
Lemma AGs_inv v : Inv v -> (AGs G P v <-> AGs G P' v).
Proof.
  intro Hv. apply (AGs_bisim G G rel_inv eq_refl rel_inv_en rel_inv_flip P P' (rel_inv_pred _ _ HP)).
  split; [reflexivity | exact Hv].
Qed.
Lemma EUs_inv v : Inv v -> (EUs G P Q v <-> EUs G P' Q' v).
Proof.
  intro Hv. apply (EUs_bisim G G rel_inv eq_refl rel_inv_en rel_inv_flip P P' Q Q'
                     (rel_inv_pred _ _ HP) (rel_inv_pred _ _ HQ)).
  split; [reflexivity | exact Hv].
Qed.
Lemma AUs_inv v : Inv v -> (AUs G P Q v <-> AUs G P' Q' v).
Proof.
  intro Hv. apply (AUs_bisim G G rel_inv eq_refl rel_inv_en rel_inv_flip P P' Q Q'
                     (rel_inv_pred _ _ HP) (rel_inv_pred _ _ HQ)).
  split; [reflexivity | exact Hv].
Qed.
Lemma EWs_inv v : Inv v -> (EWs G P Q v <-> EWs G P' Q' v).
Proof.
  intro Hv. apply (EWs_bisim G G rel_inv eq_refl rel_inv_en rel_inv_flip P P' Q Q'
                     (rel_inv_pred _ _ HP) (rel_inv_pred _ _ HQ)).
  split; [reflexivity | exact Hv].
Qed.
Lemma AWs_inv v : Inv v -> (AWs G P Q v <-> AWs G P' Q' v).
Proof.
  intro Hv. apply (AWs_bisim G G rel_inv eq_refl rel_inv_en rel_inv_flip P P' Q Q'
                     (rel_inv_pred _ _ HP) (rel_inv_pred _ _ HQ)).
  split; [reflexivity | exact Hv].
Qed.
End Pred.
End InvCongr.

(** ** substitution preserves satisfaction *)
Section SubstSat.
Variable G : genv.
Variable names : list str.

(** a set of valuations closed under everything [sat] moves along: transitions, storing a
    state into a copy, jumping to a copy, changing the state *)
Variable Inv : val -> Prop.
Hypothesis Inv_flip : forall i v, Inv v -> Inv (vflip (TS i) v).
Hypothesis Inv_set_copy : forall e u v, Inv v -> Inv (set_copy e u v).
Hypothesis Inv_set_state : forall e v, Inv v -> Inv (set_state e v).
Hypothesis Inv_with_state : forall u v, Inv v -> Inv (with_state u v).

Variables Gamma Gamma2 : str -> val -> Prop.
Variable psi : tree.
Variable w : str.
Variable Lab : str -> Prop.
(** on that set, the new context agrees with the old one on the labels in [Lab] ... *)
Hypothesis Hother : forall l v, Lab l -> Inv v -> (Gamma2 l v <-> Gamma l v).

Lemma dom_inv d v : (forall l, d = Some l -> Lab l) -> Inv v ->
  (dom Gamma2 d v <-> dom Gamma d v).
Proof.
  intros Hd Hv. destruct d as [l|]; cbn [dom]; [|reflexivity].
  apply Hother; [apply Hd; reflexivity | exact Hv].
Qed.

(** ... and, if [psi] occurs at all, gives [w] the meaning of [psi] *)
Theorem subst_sat_inv_gen : forall t,
  (subterm psi t -> forall v, Inv v -> (Gamma2 w v <-> sat G names Gamma psi v)) ->
  labels_outside psi Lab t -> forall v, Inv v ->
  (sat G names Gamma2 (subst_closed psi w t) v <-> sat G names Gamma t v).
Proof.
  induction t as [a | o a IH | o a IHa b IHb | o x d a IH]; intros Hw Hf v Hv;
    cbn [subst_closed labels_outside] in *;
    (destruct (tree_eqb psi _) eqn:E;
     [apply tree_eqb_eq in E; rewrite <- E; cbn [sat]; apply Hw; [left; exact E | exact Hv]|]).
  - (* terminals *)
    destruct a as [nm | x | | | l]; cbn [sat]; try reflexivity.
    apply Hother; assumption.
  - (* unary *)
    specialize (IH (fun X => Hw (or_intror X)) Hf).
    destruct o; cbn [sat].
    + rewrite (IH v Hv). reflexivity.
    + apply EXs_inv with (Inv := Inv); assumption.
    + apply AXs_inv with (Inv := Inv); assumption.
    + apply EFs_inv with (Inv := Inv); assumption.
    + apply AFs_inv with (Inv := Inv); assumption.
    + apply EGs_inv with (Inv := Inv); assumption.
    + apply AGs_inv with (Inv := Inv); assumption.
  - (* binary *)
    destruct Hf as [Hfa Hfb].
    specialize (IHa (fun X => Hw (or_intror (or_introl X))) Hfa).
    specialize (IHb (fun X => Hw (or_intror (or_intror X))) Hfb).
    pose proof (IHa v Hv) as Ea. pose proof (IHb v Hv) as Eb.
    destruct o; cbn [sat]; try tauto.
    + apply EUs_inv with (Inv := Inv); assumption.
    + apply AUs_inv with (Inv := Inv); assumption.
    + apply EWs_inv with (Inv := Inv); assumption.
    + apply AWs_inv with (Inv := Inv); assumption.
  - (* hybrid *)
    destruct Hf as [Hd Hfa]. specialize (IH (fun X => Hw (or_intror X)) Hfa).
    destruct o; cbn [sat].
    + apply ex_guard_iff. intros e He.
      rewrite (dom_inv d v Hd Hv), (IH (set_copy e v v) (Inv_set_copy e v v Hv)). reflexivity.
    + apply ex_guard_iff. intros e He. apply IH. apply Inv_set_state. exact Hv.
    + apply ex_guard_iff. intros e He.
      split; intros [u [Hdu Hs]]; exists u.
      * split; [apply (dom_inv d _ Hd (Inv_with_state u v Hv)); exact Hdu
               | apply (IH _ (Inv_set_copy e u v Hv)); exact Hs].
      * split; [apply (dom_inv d _ Hd (Inv_with_state u v Hv)); exact Hdu
               | apply (IH _ (Inv_set_copy e u v Hv)); exact Hs].
    + apply ex_guard_iff. intros e He.
      split; intros Hall u Hdu.
      * apply (IH _ (Inv_set_copy e u v Hv)). apply Hall.
        apply (dom_inv d _ Hd (Inv_with_state u v Hv)). exact Hdu.
      * apply (IH _ (Inv_set_copy e u v Hv)). apply Hall.
        apply (dom_inv d _ Hd (Inv_with_state u v Hv)). exact Hdu.
Qed.

Corollary subst_sat_inv : (forall v, Inv v -> (Gamma2 w v <-> sat G names Gamma psi v)) ->
  forall t, labels_outside psi Lab t -> forall v, Inv v ->
  (sat G names Gamma2 (subst_closed psi w t) v <-> sat G names Gamma t v).
Proof. intros Hw t. apply subst_sat_inv_gen. intros _. exact Hw. Qed.

End SubstSat.

(** two contexts that agree (on a closed set of valuations) on the labels of a formula give
    it the same meaning there *)
Fixpoint labels_ok (Lab : str -> Prop) (t : tree) : Prop :=
  match t with
  | Terminal (AWild l) => Lab l
  | Terminal _ => True
  | Unary _ a => labels_ok Lab a
  | Binary _ a b => labels_ok Lab a /\ labels_ok Lab b
  | Hybrid _ _ d a => (forall l, d = Some l -> Lab l) /\ labels_ok Lab a
  end.

Lemma labels_ok_outside psi Lab : forall t, labels_ok Lab t -> labels_outside psi Lab t.
Proof.
  induction t as [a | o a IH | o a IHa b IHb | o x d a IH]; intro H;
    cbn [labels_outside]; destruct (tree_eqb psi _); try exact I; cbn [labels_ok] in H.
  - exact H.
  - apply IH. exact H.
  - destruct H as [Ha Hb]. split; [apply IHa | apply IHb]; assumption.
  - destruct H as [Hd Ha]. split; [exact Hd | apply IH; exact Ha].
Qed.

Lemma fresh_label_labels_ok w : forall t, fresh_label w t <-> labels_ok (fun l => l <> w) t.
Proof.
  induction t as [a | o a IH | o a IHa b IHb | o x d a IH]; cbn [fresh_label labels_ok].
  - destruct a; reflexivity.
  - exact IH.
  - rewrite IHa, IHb. reflexivity.
  - rewrite IH. split; intros [Hd Ha]; (split; [|exact Ha]).
    + intros l -> X. apply Hd. congruence.
    + intro X. apply (Hd w X). reflexivity.
Qed.

Theorem sat_ctx_agree_inv G names (Inv : val -> Prop) Gamma Gamma2 (Lab : str -> Prop) :
  (forall i v, Inv v -> Inv (vflip (TS i) v)) ->
  (forall e u v, Inv v -> Inv (set_copy e u v)) ->
  (forall e v, Inv v -> Inv (set_state e v)) ->
  (forall u v, Inv v -> Inv (with_state u v)) ->
  (forall l v, Lab l -> Inv v -> (Gamma2 l v <-> Gamma l v)) ->
  forall t, labels_ok Lab t ->
  forall v, Inv v -> (sat G names Gamma2 t v <-> sat G names Gamma t v).
Proof.
  intros I1 I2 I3 I4 Ho t Hf v Hv.
  (* replace a wild-card that either does not occur or keeps its meaning by itself *)
  rewrite <- (subst_closed_wild_id [] t) at 1.
  apply (subst_sat_inv_gen G names Inv I1 I2 I3 I4 Gamma Gamma2 (Terminal (AWild [])) [] Lab Ho).
  - (* if [%%] occurs it is one of the labels *)
    intros Hsub v0 Hv0. cbn [sat]. apply Ho; [|exact Hv0].
    clear - Hsub Hf. induction t as [a | o a IH | o a IHa b IHb | o x d a IH];
      cbn [subterm labels_ok] in *.
    + destruct Hsub as [X|[]]. injection X as <-. exact Hf.
    + destruct Hsub as [X|X]; [discriminate | exact (IH Hf X)].
    + destruct Hf as [Ha Hb]. destruct Hsub as [X|[X|X]]; [discriminate | exact (IHa Ha X) | exact (IHb Hb X)].
    + destruct Hf as [_ Ha]. destruct Hsub as [X|X]; [discriminate | exact (IH Ha X)].
  - apply labels_ok_outside. exact Hf.
  - exact Hv.
Qed.

Lemma labels_ok_all (Lab : str -> Prop) : (forall l, Lab l) -> forall t, labels_ok Lab t.
Proof.
  intro H. induction t as [a | o a IH | o a IHa b IHb | o x d a IH]; cbn [labels_ok]; auto.
  destruct a; auto.
Qed.

(** several replacements, one after the other *)
Fixpoint subst_list (ps : list (tree * str)) (t : tree) : tree :=
  match ps with
  | [] => t
  | (psi, w) :: r => subst_list r (subst_closed psi w t)
  end.

Fixpoint fresh_list (ps : list (tree * str)) (t : tree) : Prop :=
  match ps with
  | [] => True
  | (psi, w) :: r => fresh_outside psi w t /\ fresh_list r (subst_closed psi w t)
  end.

(** a label different from [w] that was fresh stays fresh *)
Lemma fresh_label_subst psi w w' : w' <> w -> forall t,
  fresh_label w' t -> fresh_label w' (subst_closed psi w t).
Proof.
  intro Hne. induction t as [a | o a IH | o a IHa b IHb | o x d a IH]; intro H;
    cbn [subst_closed]; (destruct (tree_eqb psi _); [cbn [fresh_label]; congruence|]);
    cbn [fresh_label] in *.
  - exact H.
  - apply IH. exact H.
  - destruct H as [Ha Hb]. split; [apply IHa | apply IHb]; assumption.
  - destruct H as [Hd Ha]. split; [exact Hd | apply IH; exact Ha].
Qed.

(** new, pairwise different labels can be used one after the other *)
Lemma fresh_list_of_labels : forall ps t, NoDup (map snd ps) ->
  (forall q, In q ps -> fresh_label (snd q) t) -> fresh_list ps t.
Proof.
  induction ps as [|[psi w] r IH]; intros t Hnd Hf; cbn [fresh_list]; [exact I|].
  cbn [map snd] in Hnd. inversion Hnd as [|? ? Hnin Hnd']; subst.
  split.
  - apply fresh_label_outside. apply (Hf (psi, w)). left. reflexivity.
  - apply IH; [exact Hnd'|]. intros q Hq. apply fresh_label_subst.
    + intro X. apply Hnin. rewrite <- X. apply in_map. exact Hq.
    + apply Hf. right. exact Hq.
Qed.

(** ** the statements at all valuations *)
Section SubstSatAll.
Variable G : genv.
Variable names : list str.

(** C10, semantic core: re-binding [w] to the meaning of [psi] and replacing [psi] by [%w%]
    does not change the meaning of the formula, at any valuation (closedness is not needed) *)
Theorem substitute_sat Gamma psi w t : fresh_outside psi w t -> forall v,
  sat G names (ctx_with Gamma w (sat G names Gamma psi)) (subst_closed psi w t) v <->
  sat G names Gamma t v.
Proof.
  intros Hf v.
  apply (subst_sat_inv G names (fun _ => True)) with (w := w) (psi := psi) (Lab := fun l => l <> w); auto.
  - intros l v0 Hl _. apply ctx_with_other. exact Hl.
  - intros v0 _. apply ctx_with_same.
Qed.

(** contexts that agree on the labels of the formula *)
Theorem sat_ctx_agree Gamma Gamma2 (Lab : str -> Prop) t :
  (forall l v, Lab l -> (Gamma2 l v <-> Gamma l v)) -> labels_ok Lab t ->
  forall v, sat G names Gamma2 t v <-> sat G names Gamma t v.
Proof.
  intros Ho Hf v.
  apply (sat_ctx_agree_inv G names (fun _ => True)) with (Lab := Lab); auto.
Qed.

Corollary sat_ctx_equiv Gamma Gamma2 t : (forall l v, Gamma2 l v <-> Gamma l v) ->
  forall v, sat G names Gamma2 t v <-> sat G names Gamma t v.
Proof.
  intros Ho v. apply sat_ctx_agree with (Lab := fun _ => True); auto.
  apply labels_ok_all. auto.
Qed.

(** a label the formula does not use can be re-bound at will *)
Corollary sat_ctx_with_fresh Gamma w P t : fresh_label w t -> forall v,
  sat G names (ctx_with Gamma w P) t v <-> sat G names Gamma t v.
Proof.
  intros Hf v. apply sat_ctx_agree with (Lab := fun l => l <> w).
  - intros l v0 Hl. apply ctx_with_other. exact Hl.
  - apply fresh_label_labels_ok. exact Hf.
Qed.

(** the context after several replacements, built one after the other: each sub-formula is
    read in the context of the replacements made before it *)
Fixpoint ctx_list (Gamma : str -> val -> Prop) (ps : list (tree * str)) : str -> val -> Prop :=
  match ps with
  | [] => Gamma
  | (psi, w) :: r => ctx_list (ctx_with Gamma w (sat G names Gamma psi)) r
  end.

Theorem substitute_sat_list : forall ps Gamma t, fresh_list ps t -> forall v,
  sat G names (ctx_list Gamma ps) (subst_list ps t) v <-> sat G names Gamma t v.
Proof.
  induction ps as [|[psi w] r IH]; intros Gamma t Hf v; cbn [ctx_list subst_list].
  - reflexivity.
  - destruct Hf as [Hf1 Hf2]. rewrite (IH _ _ Hf2 v). apply substitute_sat. exact Hf1.
Qed.

(** the context of simultaneous replacements: every sub-formula is read in the ORIGINAL
    context *)
Fixpoint ctx_all (Gamma : str -> val -> Prop) (ps : list (tree * str)) : str -> val -> Prop :=
  fun l v =>
  match ps with
  | [] => Gamma l v
  | (psi, w) :: r => if str_eqb l w then sat G names Gamma psi v else ctx_all Gamma r l v
  end.

Lemma ctx_all_ctx_with Gamma w P : forall r,
  (forall q, In q r -> snd q <> w /\ fresh_label w (fst q)) ->
  forall l v, ctx_all (ctx_with Gamma w P) r l v <->
              (if str_eqb l w then P v else ctx_all Gamma r l v).
Proof.
  induction r as [|[psi2 w2] r IH]; intros Hr l v; cbn [ctx_all].
  - unfold ctx_with. reflexivity.
  - destruct (Hr (psi2, w2) (or_introl eq_refl)) as [Hne Hfr]. cbn [fst snd] in Hne, Hfr.
    destruct (str_eqb l w2) eqn:E2.
    + apply str_eqb_eq in E2. subst l. rewrite (str_eqb_neq _ _ Hne).
      apply sat_ctx_with_fresh. exact Hfr.
    + apply IH. intros q Hq. apply Hr. right. exact Hq.
Qed.

Lemma ctx_list_all : forall ps Gamma, NoDup (map snd ps) ->
  (forall q q', In q ps -> In q' ps -> fresh_label (snd q) (fst q')) ->
  forall l v, ctx_list Gamma ps l v <-> ctx_all Gamma ps l v.
Proof.
  induction ps as [|[psi w] r IH]; intros Gamma Hnd Hfr l v; cbn [ctx_list ctx_all].
  - reflexivity.
  - cbn [map snd] in Hnd. inversion Hnd as [|? ? Hnin Hnd']; subst.
    rewrite IH; [| exact Hnd' | intros q q' Hq Hq'; apply Hfr; right; assumption].
    apply ctx_all_ctx_with. intros q Hq. split.
    + intro X. apply Hnin. rewrite <- X. apply in_map. exact Hq.
    + apply (Hfr (psi, w) q); [left; reflexivity | right; exact Hq].
Qed.

(** C10 for several simultaneous replacements: new, pairwise different labels [w_i] that
    occur neither in [t] nor in the sub-formulae [psi_j]; label [w_i] means [psi_i] *)
Theorem substitute_sat_simultaneous ps Gamma t :
  NoDup (map snd ps) ->
  (forall q, In q ps -> fresh_label (snd q) t) ->
  (forall q q', In q ps -> In q' ps -> fresh_label (snd q) (fst q')) ->
  forall v, sat G names (ctx_all Gamma ps) (subst_list ps t) v <-> sat G names Gamma t v.
Proof.
  intros Hnd Hft Hfp v.
  rewrite <- (substitute_sat_list ps Gamma t (fresh_list_of_labels ps t Hnd Hft) v).
  apply sat_ctx_equiv. intros l v0. symmetry. apply ctx_list_all; assumption.
Qed.

End SubstSatAll.

(** * 3. Substitution and the evaluator *)

(** ** syntactic side conditions are preserved *)

Lemma scoped_weaken G : forall t bound bound', (forall e, In e bound' -> In e bound) ->
  scoped G bound t -> scoped G bound' t.
Proof.
  induction t as [a | o a IH | o a IHa b IHb | o x d a IH]; intros bound bound' Hi H;
    cbn [scoped] in *.
  - exact H.
  - eapply IH; eauto.
  - destruct H as [Ha Hb]. split; [eapply IHa | eapply IHb]; eauto.
  - destruct o.
    + destruct H as [e [He [Hn Ha]]]. exists e. split; [exact He|]. split; [intro X; apply Hn, Hi, X|].
      eapply IH; [|exact Ha]. destruct d; [|exact Hi].
      intros e' [<-|X]; [left; reflexivity | right; apply Hi; exact X].
    + destruct H as [Hx Ha]. split; [exact Hx | eapply IH; eauto].
    + destruct H as [e [He [Hn Ha]]]. exists e. split; [exact He|]. split; [intro X; apply Hn, Hi, X|].
      eapply IH; [|exact Ha]. destruct d; [|exact Hi].
      intros e' [<-|X]; [left; reflexivity | right; apply Hi; exact X].
    + destruct H as [e [He [Hn Ha]]]. exists e. split; [exact He|]. split; [intro X; apply Hn, Hi, X|].
      eapply IH; [|exact Ha]. destruct d; [|exact Hi].
      intros e' [<-|X]; [left; reflexivity | right; apply Hi; exact X].
Qed.

(** a sub-formula of a well-scoped formula is well scoped at the top level *)
Lemma scoped_subterm G psi : forall t bound, scoped G bound t -> subterm psi t -> scoped G [] psi.
Proof.
  induction t as [a | o a IH | o a IHa b IHb | o x d a IH]; intros bound H Hs;
    cbn [subterm] in Hs;
    (destruct Hs as [->|Hs]; [eapply scoped_weaken; [|exact H]; intros e []|]);
    cbn [scoped] in H.
  - destruct Hs.
  - eapply IH; eauto.
  - destruct H as [Ha Hb]. destruct Hs as [Hs|Hs]; [eapply IHa | eapply IHb]; eauto.
  - destruct o.
    + destruct H as [e [_ [_ Ha]]]. eapply IH; eauto.
    + destruct H as [_ Ha]. eapply IH; eauto.
    + destruct H as [e [_ [_ Ha]]]. eapply IH; eauto.
    + destruct H as [e [_ [_ Ha]]]. eapply IH; eauto.
Qed.

Lemma scoped_subst G psi w : forall t bound, scoped G bound t ->
  scoped G bound (subst_closed psi w t).
Proof.
  induction t as [a | o a IH | o a IHa b IHb | o x d a IH]; intros bound H;
    cbn [subst_closed]; (destruct (tree_eqb psi _); [exact I|]); cbn [scoped] in *.
  - exact H.
  - apply IH. exact H.
  - destruct H as [Ha Hb]. split; [apply IHa | apply IHb]; assumption.
  - destruct o.
    + destruct H as [e [He [Hn Ha]]]. exists e. split; [exact He|]. split; [exact Hn | apply IH; exact Ha].
    + destruct H as [Hx Ha]. split; [exact Hx | apply IH; exact Ha].
    + destruct H as [e [He [Hn Ha]]]. exists e. split; [exact He|]. split; [exact Hn | apply IH; exact Ha].
    + destruct H as [e [He [Hn Ha]]]. exists e. split; [exact He|]. split; [exact Hn | apply IH; exact Ha].
Qed.

Lemma linkable_subst psi w : linkable (Terminal (AWild w)) -> forall t, linkable t ->
  linkable (subst_closed psi w t).
Proof.
  intro Hw. induction t as [a | o a IH | o a IHa b IHb | o x d a IH]; intro H;
    cbn [subst_closed]; (destruct (tree_eqb psi _); [exact Hw|]); cbn [linkable] in *.
  - exact H.
  - apply IH. exact H.
  - destruct H as [Ha Hb]. split; [apply IHa | apply IHb]; assumption.
  - apply IH. exact H.
Qed.

(** the domain labels of a formula *)
Fixpoint dom_labels_ok (Lab : str -> Prop) (t : tree) : Prop :=
  match t with
  | Terminal _ => True
  | Unary _ a => dom_labels_ok Lab a
  | Binary _ a b => dom_labels_ok Lab a /\ dom_labels_ok Lab b
  | Hybrid _ _ d a => (forall l, d = Some l -> Lab l) /\ dom_labels_ok Lab a
  end.

(** after the substitution no domain label is [w] *)
Lemma subst_dom_labels psi w : forall t, fresh_outside psi w t ->
  dom_labels_ok (fun l => l <> w) (subst_closed psi w t).
Proof.
  unfold fresh_outside.
  induction t as [a | o a IH | o a IHa b IHb | o x d a IH]; intro H;
    cbn [subst_closed labels_outside] in *; (destruct (tree_eqb psi _); [exact I|]);
    cbn [dom_labels_ok].
  - exact I.
  - apply IH. exact H.
  - destruct H as [Ha Hb]. split; [apply IHa | apply IHb]; assumption.
  - destruct H as [Hd Ha]. split; [exact Hd | apply IH; exact Ha].
Qed.

(** ** the evaluator only looks up the labels of the formula *)
Section Lookup.
Variable G : genv.
Variable names : list str.
Variable sw : switches.
Variable steady : tt.

Lemma peval_ext_doms_agree wild d1 d2 : forall t U,
  dom_labels_ok (fun l => alookup str_eqb l d1 = alookup str_eqb l d2) t ->
  peval_ext G names sw steady wild d1 t U = peval_ext G names sw steady wild d2 t U.
Proof.
  induction t as [a | o a IH | o a IHa b IHb | o x d a IH]; intros U H; cbn [dom_labels_ok] in H.
  - destruct a; reflexivity.
  - cbn [peval_ext]. rewrite (IH U H). reflexivity.
  - destruct H as [Ha Hb]. cbn [peval_ext]. rewrite (IHa U Ha), (IHb U Hb). reflexivity.
  - destruct H as [Hd Ha].
    rewrite (peval_ext_eq G names sw steady wild d1), (peval_ext_eq G names sw steady wild d2).
    destruct (use_patterns sw && is_attractor_pattern (Hybrid o x d a)); [reflexivity|].
    destruct (use_patterns sw && is_fixed_point_pattern (Hybrid o x d a)); [reflexivity|].
    destruct o; cbn [peval_ext_body]; try (rewrite (IH U Ha); reflexivity);
      (destruct d as [dl|]; [|rewrite (IH U Ha); reflexivity]);
      rewrite (Hd dl eq_refl); destruct (alookup str_eqb dl d2) as [dset|]; try reflexivity;
      destruct (hctl_var_id G x) as [e| | |]; cbn [bind]; try reflexivity;
      destruct (is_empty _); try reflexivity; rewrite (IH _ Ha); reflexivity.
Qed.

End Lookup.

(** ** the unit is closed under everything [sat] moves along *)
Section UnitClosed.
Variable G : genv.
Variable names : list str.
Variable Utop : tt.
Hypothesis WF : wf_env G names Utop.
Local Notation L := (g_L G).
Local Notation inU v := (mem L Utop v = true).

Lemma inU_flip i v : inU v -> inU (vflip (TS i) v).
Proof. intro H. rewrite (Utop_moves G names Utop WF). exact H. Qed.
Lemma inU_set_copy e u v : inU v -> inU (set_copy e u v).
Proof. intro H. rewrite <- H. apply (wf_U_colour _ _ _ WF). intro j. reflexivity. Qed.
Lemma inU_set_state e v : inU v -> inU (set_state e v).
Proof. intro H. rewrite <- H. apply (wf_U_colour _ _ _ WF). intro j. reflexivity. Qed.
Lemma inU_with_state u v : inU v -> inU (with_state u v).
Proof. intro H. rewrite <- H. apply (wf_U_colour _ _ _ WF). intro j. reflexivity. Qed.

(** the substitution lemma inside the unit *)
Lemma subst_sat_unit Gamma Gamma2 psi w t :
  (forall l v, l <> w -> inU v -> (Gamma2 l v <-> Gamma l v)) ->
  (forall v, inU v -> (Gamma2 w v <-> sat G names Gamma psi v)) ->
  fresh_outside psi w t -> forall v, inU v ->
  (sat G names Gamma2 (subst_closed psi w t) v <-> sat G names Gamma t v).
Proof.
  intros Ho Hw Hf v Hv.
  apply (subst_sat_inv G names (fun v => inU v) inU_flip inU_set_copy inU_set_state inU_with_state
           Gamma Gamma2 psi w (fun l => l <> w) Ho Hw t Hf v Hv).
Qed.

End UnitClosed.

Lemma bool_eq_iff (a b : bool) : (a = true <-> b = true) -> a = b.
Proof.
  destruct a, b; intros [H1 H2]; try reflexivity.
  - symmetry. apply H1. reflexivity.
  - apply H2. reflexivity.
Qed.

(** ** C10 for the cache-free extended evaluator *)
Section SubstEval.
Variable G : genv.
Variable names : list str.
Variable Utop : tt.
Hypothesis WF : wf_env G names Utop.
Variable Gamma : str -> val -> Prop.
Variable sw : switches.
Variable wild doms : list (str * tt).
Hypothesis wild_ok : wild_sets_ok G Gamma wild.
Hypothesis doms_ok : dom_sets_ok G Gamma doms.
Local Notation L := (g_L G).
Local Notation st := (steady_of G Utop).
Local Notation inU v := (mem L Utop v = true).

(** the general form: [w] is bound to any set [S] that, INSIDE THE UNIT, is the meaning of
    [psi] (outside it is arbitrary); the other wild-card labels and the domain labels other
    than [w] are bound as before *)
Theorem substitute_eval_gen psi w S t wild' doms' R R' :
  scoped G [] t -> fresh_outside psi w t ->
  shaped L S -> (forall v, inU v -> (mem L S v = true <-> sat G names Gamma psi v)) ->
  alookup str_eqb w wild' = Some S ->
  (forall l, l <> w -> alookup str_eqb l wild' = alookup str_eqb l wild) ->
  (forall l, l <> w -> alookup str_eqb l doms' = alookup str_eqb l doms) ->
  peval_ext G names sw st wild doms t Utop = Ok R ->
  peval_ext G names sw st wild' doms' (subst_closed psi w t) Utop = Ok R' ->
  shaped L R' /\ forall v, inU v -> mem L R' v = mem L R v.
Proof.
  intros Hsc Hf SS ES Ew Ewild Edoms HR HR'.
  set (Gamma2 := fun l v => if str_eqb l w then mem L S v = true else Gamma l v).
  assert (W2 : wild_sets_ok G Gamma2 wild').
  { intros l s El. unfold Gamma2. destruct (str_eqb l w) eqn:E.
    - apply str_eqb_eq in E. subst l. rewrite Ew in El. injection El as <-.
      split; [exact SS | intro v; reflexivity].
    - assert (Hne : l <> w) by (intro X; subst l; rewrite str_eqb_refl in E; discriminate).
      rewrite (Ewild l Hne) in El. exact (wild_ok l s El). }
  set (doms2 := aremove str_eqb w doms').
  assert (D2 : dom_sets_ok G Gamma2 doms2).
  { intros l s El. unfold Gamma2, doms2 in *. destruct (str_eqb l w) eqn:E.
    - apply str_eqb_eq in E. subst l.
      rewrite (alookup_aremove_same str_eqb) in El. discriminate.
    - assert (Hne : l <> w) by (intro X; subst l; rewrite str_eqb_refl in E; discriminate).
      rewrite (alookup_aremove_other str_eqb str_eqb_eq) in El by exact Hne.
      rewrite (Edoms l Hne) in El. exact (doms_ok l s El). }
  assert (HR2 : peval_ext G names sw st wild' doms2 (subst_closed psi w t) Utop = Ok R').
  { rewrite <- HR'. symmetry. apply peval_ext_doms_agree.
    assert (Hm : forall (P Q : str -> Prop), (forall l, P l -> Q l) ->
              forall t0, dom_labels_ok P t0 -> dom_labels_ok Q t0).
    { intros P Q HPQ. induction t0 as [a | o a IH | o a IHa b IHb | o x d a IH];
        cbn [dom_labels_ok]; auto.
      - intros [Ha Hb]. split; auto.
      - intros [Hd Ha]. split; auto. }
    apply (Hm (fun l => l <> w)); [|apply subst_dom_labels; exact Hf].
    intros l Hne. unfold doms2.
    rewrite (alookup_aremove_other str_eqb str_eqb_eq) by exact Hne. reflexivity. }
  destruct (peval_ext_correct G names Utop WF Gamma sw wild doms wild_ok doms_ok t R Hsc HR)
    as [_ ER].
  destruct (peval_ext_correct G names Utop WF Gamma2 sw wild' doms2 W2 D2 _ R'
              (scoped_subst G psi w t [] Hsc) HR2) as [SR' ER'].
  split; [exact SR'|].
  intros v Hv. apply bool_eq_iff.
  rewrite (ER' v Hv), (ER v Hv).
  apply (subst_sat_unit G names Utop WF Gamma Gamma2 psi w t); try assumption.
  - intros l v0 Hne _. unfold Gamma2. rewrite (str_eqb_neq _ _ Hne). reflexivity.
  - intros v0 Hv0. unfold Gamma2. rewrite str_eqb_refl. apply ES. exact Hv0.
Qed.

(** C10: [w] is bound to the raw result of [psi] *)
Theorem substitute_eval psi w t Rpsi R R' :
  scoped G [] t -> scoped G [] psi -> fresh_outside psi w t ->
  peval_ext G names sw st wild doms psi Utop = Ok Rpsi ->
  peval_ext G names sw st wild doms t Utop = Ok R ->
  peval_ext G names sw st ((w, Rpsi) :: wild) doms (subst_closed psi w t) Utop = Ok R' ->
  forall v, inU v -> mem L R' v = mem L R v.
Proof.
  intros Hsc Hsp Hf HP HR HR'.
  destruct (peval_ext_correct G names Utop WF Gamma sw wild doms wild_ok doms_ok psi Rpsi Hsp HP)
    as [SP EP].
  apply (substitute_eval_gen psi w Rpsi t ((w, Rpsi) :: wild) doms R R'); try assumption.
  - cbn [alookup]. rewrite str_eqb_refl. reflexivity.
  - intros l Hne. cbn [alookup]. rewrite (str_eqb_neq _ _ Hne). reflexivity.
  - reflexivity.
Qed.

(** the same when [psi] is known to occur in [t] (its scoping is then inherited) *)
Corollary substitute_eval_subterm psi w t Rpsi R R' :
  scoped G [] t -> subterm psi t -> fresh_outside psi w t ->
  peval_ext G names sw st wild doms psi Utop = Ok Rpsi ->
  peval_ext G names sw st wild doms t Utop = Ok R ->
  peval_ext G names sw st ((w, Rpsi) :: wild) doms (subst_closed psi w t) Utop = Ok R' ->
  forall v, inU v -> mem L R' v = mem L R v.
Proof.
  intros Hsc Hsub. apply substitute_eval; [exact Hsc|]. eapply scoped_subterm; eauto.
Qed.

(** a plain [psi], evaluated by the plain evaluator of C01 *)
Corollary substitute_eval_plain psi w t Rpsi R R' :
  scoped G [] t -> scoped G [] psi -> plainf psi -> fresh_outside psi w t ->
  peval G names sw st psi Utop = Ok Rpsi ->
  peval_ext G names sw st wild doms t Utop = Ok R ->
  peval_ext G names sw st ((w, Rpsi) :: wild) doms (subst_closed psi w t) Utop = Ok R' ->
  forall v, inU v -> mem L R' v = mem L R v.
Proof.
  intros Hsc Hsp Hpl Hf HP. apply substitute_eval; try assumption.
  rewrite (peval_ext_plain G names sw st wild doms psi Utop Hpl). exact HP.
Qed.

(** ** closed sub-formulae: the raw result does not read the spare copies *)

(** inside the unit, for any extended closed formula whose context sets read the colour and
    the state only *)
Theorem closed_result_ignores_copies psi Rpsi :
  (forall l v w, (forall j, v (TP j) = w (TP j)) -> (forall i, v (TS i) = w (TS i)) ->
                 (Gamma l v <-> Gamma l w)) ->
  scoped G [] psi -> closed_copies G psi ->
  peval_ext G names sw st wild doms psi Utop = Ok Rpsi ->
  forall v w, inU v -> (forall j, v (TP j) = w (TP j)) -> (forall i, v (TS i) = w (TS i)) ->
    mem L Rpsi v = mem L Rpsi w.
Proof.
  intros HG Hsp Hcl HP v w Hv Hp Hs.
  destruct (peval_ext_correct G names Utop WF Gamma sw wild doms wild_ok doms_ok psi Rpsi Hsp HP)
    as [_ EP].
  assert (Hw : inU w) by (rewrite <- Hv; symmetry; apply (wf_U_colour _ _ _ WF); exact Hp).
  apply bool_eq_iff. rewrite (EP v Hv), (EP w Hw).
  apply sat_closed_ignores_copies; try assumption.
  apply (wf_upd_extras _ _ _ WF).
Qed.

End SubstEval.

(** ** handing back the SANITISED result of a closed plain sub-formula *)
Section Sanitized.
Variable G : genv.
Variable names : list str.
Variable Utop : tt.
Hypothesis WF : wf_env G names Utop.
Variable Gamma : str -> val -> Prop.
Variable sw : switches.
Variable wild doms : list (str * tt).
Hypothesis wild_ok : wild_sets_ok G Gamma wild.
Hypothesis doms_ok : dom_sets_ok G Gamma doms.
Local Notation L := (g_L G).
Local Notation st := (steady_of G Utop).
Local Notation inU v := (mem L Utop v = true).

(** whenever the raw result of the plain sub-formula [psi] can be sanitised (it always can
    when [psi] is closed, [closed_sanitize_defined]), the sanitised set, lifted back to the
    layout with spare copies as the entry points lift context sets ([Pipeline.lift] is
    [expand not_extra] of the layout), can stand for [psi] *)
Theorem substitute_sanitized psi w t Rpsi S0 R R' :
  scoped G [] t -> plainf psi -> supported G psi -> fresh_outside psi w t ->
  peval G names sw st psi Utop = Ok Rpsi ->
  sanitize G Rpsi = Ok S0 ->
  peval_ext G names sw st wild doms t Utop = Ok R ->
  peval_ext G names sw st ((w, expand not_extra L S0) :: wild) doms (subst_closed psi w t) Utop
    = Ok R' ->
  forall v, inU v -> mem L R' v = mem L R v.
Proof.
  intros Hsc Hpl Hsup Hf HP HS HR HR'.
  destruct (peval_correct G names Utop WF Gamma sw psi Rpsi Hpl Hsup HP) as [SP EP].
  assert (SS : shaped (filter not_extra L) S0).
  { unfold sanitize in HS. destruct (restrict not_extra L Rpsi) as [s|] eqn:E; [|discriminate].
    injection HS as <-. eapply restrict_shaped; eauto. }
  destruct (sanitize_Ok_indep G Rpsi S0 HS) as [EM _].
  apply (substitute_eval_gen G names Utop WF Gamma sw wild doms wild_ok doms_ok
           psi w (expand not_extra L S0) t ((w, expand not_extra L S0) :: wild) doms R R');
    try assumption.
  - apply shaped_expand. exact SS.
  - intros v Hv. rewrite (mem_expand not_extra L S0 v SS), (EM v), (EP v). tauto.
  - cbn [alookup]. rewrite str_eqb_refl. reflexivity.
  - intros l Hne. cbn [alookup]. rewrite (str_eqb_neq _ _ Hne). reflexivity.
  - reflexivity.
Qed.

(** closedness is what makes the sanitised result exist *)
Theorem closed_sanitize_defined psi Rpsi :
  plainf psi -> supported G psi -> closed_copies G psi ->
  peval G names sw st psi Utop = Ok Rpsi ->
  exists S0, sanitize G Rpsi = Ok S0.
Proof.
  intros Hpl Hsup Hcl HP.
  destruct (sanitize_eq_raw G names Utop WF sw psi Rpsi Hpl Hsup Hcl HP) as [S0 [E _]].
  exists S0. exact E.
Qed.

End Sanitized.

(** ** C10 for [eval_node], driven as the extended entry points drive it (no sub-formula
    marked as duplicate) *)
Section SubstEvalNode.
Variable G : genv.
Variable names : list str.
Variable Utop : tt.
Hypothesis WF : wf_env G names Utop.
Variable Gamma : str -> val -> Prop.
Variable sw : switches.
Local Notation L := (g_L G).
Local Notation st := (steady_of G Utop).
Local Notation inU v := (mem L Utop v = true).

Variable wprops dprops : list (str * tt).
Hypothesis wprops_ok : forall l s, In (l, s) wprops ->
  shaped L s /\ forall v, mem L s v = true <-> Gamma l v.
Hypothesis dprops_ok : forall l s, In (l, s) dprops ->
  shaped L s /\ extras_indep G s /\ forall v, mem L s v = true <-> Gamma l v.

(** eval_node on such a context is [peval_ext] on the stored sets *)
Lemma eval_node_is_peval_ext wp t R c' : linkable t ->
  eval_node G names sw st t Utop (extend_context wp dprops (ctx_new [])) = Ok (R, c') ->
  peval_ext G names sw st (rev wp)
            (fold_left (fun acc pd => ainsert str_eqb (fst pd) (snd pd) acc) dprops []) t Utop
    = Ok R.
Proof.
  intros Hl H.
  set (c := extend_context wp dprops (ctx_new [])) in *.
  destruct (extend_context_store wp dprops) as [HS _]. fold c in HS.
  destruct (eval_node_ext G names sw st (duplicates c) (cache c) (domain_sets c)
              (rev wp) HS t Utop c Hl (conj eq_refl (conj eq_refl eq_refl))) as [c1 [_ E]].
  rewrite E in H.
  assert (ED : domain_sets c =
               fold_left (fun acc pd => ainsert str_eqb (fst pd) (snd pd) acc) dprops []).
  { unfold c, extend_context. cbn [domain_sets set_domsets].
    rewrite extend_props_domsets. reflexivity. }
  rewrite ED in H.
  destruct (peval_ext G names sw st (rev wp) _ t Utop) as [r| | |]; cbn [bind] in H;
    try discriminate.
  injection H as <- _. reflexivity.
Qed.

Theorem substitute_eval_node psi w S t R R' c1 c2 :
  scoped G [] t -> linkable t -> linkable (Terminal (AWild w)) -> fresh_outside psi w t ->
  shaped L S -> (forall v, inU v -> (mem L S v = true <-> sat G names Gamma psi v)) ->
  eval_node G names sw st t Utop (extend_context wprops dprops (ctx_new [])) = Ok (R, c1) ->
  eval_node G names sw st (subst_closed psi w t) Utop
            (extend_context (wprops ++ [(w, S)]) dprops (ctx_new [])) = Ok (R', c2) ->
  forall v, inU v -> mem L R' v = mem L R v.
Proof.
  intros Hsc Hl Hlw Hf SS ES HR HR'.
  apply eval_node_is_peval_ext in HR; [|exact Hl].
  apply eval_node_is_peval_ext in HR'; [|apply linkable_subst; assumption].
  rewrite rev_app_distr in HR'. cbn [rev app] in HR'.
  set (DS := fold_left (fun acc pd => ainsert str_eqb (fst pd) (snd pd) acc) dprops []) in *.
  assert (W : wild_sets_ok G Gamma (rev wprops)).
  { intros l s El. apply (alookup_in str_eqb str_eqb_eq) in El. apply in_rev in El.
    apply wprops_ok. exact El. }
  assert (D : dom_sets_ok G Gamma DS).
  { intros l s El. destruct (extend_context_store wprops dprops) as [_ HD].
    apply dprops_ok. apply HD. unfold extend_context. cbn [domain_sets set_domsets].
    rewrite extend_props_domsets. exact El. }
  apply (substitute_eval_gen G names Utop WF Gamma sw (rev wprops) DS W D
           psi w S t ((w, S) :: rev wprops) DS R R'); try assumption.
  - cbn [alookup]. rewrite str_eqb_refl. reflexivity.
  - intros l Hne. cbn [alookup]. rewrite (str_eqb_neq _ _ Hne). reflexivity.
  - reflexivity.
Qed.

(** ... with the set computed by [eval_node] itself on [psi], in the same context *)
Corollary substitute_eval_node_result psi w t Rpsi R R' c0 c1 c2 :
  scoped G [] t -> scoped G [] psi -> linkable t -> linkable psi ->
  linkable (Terminal (AWild w)) -> fresh_outside psi w t ->
  eval_node G names sw st psi Utop (extend_context wprops dprops (ctx_new [])) = Ok (Rpsi, c0) ->
  eval_node G names sw st t Utop (extend_context wprops dprops (ctx_new [])) = Ok (R, c1) ->
  eval_node G names sw st (subst_closed psi w t) Utop
            (extend_context (wprops ++ [(w, Rpsi)]) dprops (ctx_new [])) = Ok (R', c2) ->
  forall v, inU v -> mem L R' v = mem L R v.
Proof.
  intros Hsc Hsp Hl Hlp Hlw Hf HP HR HR'.
  destruct (eval_node_ext_correct G names Utop WF Gamma sw wprops dprops wprops_ok dprops_ok
              psi Rpsi c0 Hsp Hlp HP) as [SP EP].
  exact (substitute_eval_node psi w Rpsi t R R' c1 c2 Hsc Hl Hlw Hf SP EP HR HR').
Qed.

End SubstEvalNode.

(** * 4. Empty contexts: the extended entry points are the plain ones *)

Lemma extend_context_nil c : extend_context [] [] c = c.
Proof. destruct c. reflexivity. Qed.

(** the evaluator: no label is looked up in a plain formula *)
Lemma peval_ext_empty_plain G names sw steady t U : plainf t ->
  peval_ext G names sw steady [] [] t U = peval G names sw steady t U.
Proof. apply peval_ext_plain. Qed.

(** [eval_node]: extending a context by nothing changes nothing (any formula, any context) *)
Lemma eval_node_empty_context G names sw steady t U c :
  eval_node G names sw steady t U (extend_context [] [] c) = eval_node G names sw steady t U c.
Proof. rewrite extend_context_nil. reflexivity. Qed.

(** [check_trees] with empty contexts does not look at the [m_ext] switch at all: whatever the
    trees, with or without cache *)
Theorem check_trees_empty_context w k m m' ts :
  m_sanitize m = m_sanitize m' -> m_unsafe_ex m = m_unsafe_ex m' ->
  m_nocache m = m_nocache m' -> m_nopatterns m = m_nopatterns m' ->
  check_trees w k m ts [] [] = check_trees w k m' ts [] [].
Proof.
  intros H1 H2 H3 H4. unfold check_trees. rewrite H1, H2, H3, H4.
  cbn [dedup_labels fold_right map]. rewrite !extend_context_nil.
  destruct (m_ext m), (m_ext m'); reflexivity.
Qed.

Corollary check_trees_ext_switch w k s u nc np ts :
  check_trees w k {| m_ext := true; m_sanitize := s; m_unsafe_ex := u;
                     m_nocache := nc; m_nopatterns := np |} ts [] [] =
  check_trees w k {| m_ext := false; m_sanitize := s; m_unsafe_ex := u;
                     m_nocache := nc; m_nopatterns := np |} ts [] [].
Proof. apply check_trees_empty_context; reflexivity. Qed.

(** hence the extended entry point on plain trees, in no-cache mode, is correct as the plain
    one is (C01) *)
Theorem check_trees_ext_empty_correct (w : world) (k : nat) :
  List.Forall (shaped (Lpn (w_p w) (w_n w))) (w_upd w) ->
  shaped (Lpn (w_p w) (w_n w)) (w_unit w) ->
  (forall v v', (forall j, v (TP j) = v' (TP j)) ->
     mem (Lpn (w_p w) (w_n w)) (w_unit w) v = mem (Lpn (w_p w) (w_n w)) (w_unit w) v') ->
  length (w_names w) <= w_n w ->
  forall (Gamma : str -> val -> Prop) m ts rs,
  m_ext m = true -> m_sanitize m = false -> m_unsafe_ex m = false -> m_nocache m = true ->
  List.Forall plainf ts -> List.Forall (supported (genv_of w k)) ts ->
  check_trees w k m ts [] [] = Ok rs ->
  List.Forall2 (fun t R => forall v,
     mem (g_L (genv_of w k)) R v = true <->
     (mem (g_L (genv_of w k)) (unit_of w k) v = true /\ sat (genv_of w k) (w_names w) Gamma t v))
    ts rs.
Proof.
  intros Hu Hun Hc Hn Gamma m ts rs He Hs Hx Hnc Hpl Hsup H.
  set (m' := {| m_ext := false; m_sanitize := m_sanitize m; m_unsafe_ex := m_unsafe_ex m;
                m_nocache := m_nocache m; m_nopatterns := m_nopatterns m |}).
  rewrite (check_trees_empty_context w k m m' ts eq_refl eq_refl eq_refl eq_refl) in H.
  apply (check_trees_nocache_correct w k Hu Hun Hc Hn Gamma m' ts rs); try assumption; reflexivity.
Qed.

(** ** the whole story for a closed plain sub-formula: its raw result can be sanitised, and
    the sanitised set, lifted, can be handed back in its place *)
Theorem substitute_closed_sanitized G names Utop (WF : wf_env G names Utop)
        Gamma sw wild doms psi w t Rpsi R :
  wild_sets_ok G Gamma wild -> dom_sets_ok G Gamma doms ->
  scoped G [] t -> plainf psi -> supported G psi -> closed_copies G psi ->
  fresh_outside psi w t ->
  peval G names sw (steady_of G Utop) psi Utop = Ok Rpsi ->
  peval_ext G names sw (steady_of G Utop) wild doms t Utop = Ok R ->
  exists S0, sanitize G Rpsi = Ok S0 /\
    forall R',
      peval_ext G names sw (steady_of G Utop) ((w, expand not_extra (g_L G) S0) :: wild) doms
                (subst_closed psi w t) Utop = Ok R' ->
      forall v, mem (g_L G) Utop v = true -> mem (g_L G) R' v = mem (g_L G) R v.
Proof.
  intros Hw Hd Hsc Hpl Hsup Hcl Hf HP HR.
  destruct (closed_sanitize_defined G names Utop WF sw psi Rpsi Hpl Hsup Hcl HP) as [S0 HS].
  exists S0. split; [exact HS|]. intros R' HR'.
  exact (substitute_sanitized G names Utop WF Gamma sw wild doms Hw Hd psi w t Rpsi S0 R R'
           Hsc Hpl Hsup Hf HP HS HR HR').
Qed.

(** ** the headline statements with the plain freshness condition *)
Corollary substitute_sat_fresh G names Gamma psi w t : fresh_label w t -> forall v,
  sat G names (ctx_with Gamma w (sat G names Gamma psi)) (subst_closed psi w t) v <->
  sat G names Gamma t v.
Proof. intro Hf. apply substitute_sat. apply fresh_label_outside. exact Hf. Qed.

Corollary substitute_eval_fresh G names Utop (WF : wf_env G names Utop) Gamma sw wild doms
          (Hw : wild_sets_ok G Gamma wild) (Hd : dom_sets_ok G Gamma doms) psi w t Rpsi R R' :
  scoped G [] t -> scoped G [] psi -> fresh_label w t ->
  peval_ext G names sw (steady_of G Utop) wild doms psi Utop = Ok Rpsi ->
  peval_ext G names sw (steady_of G Utop) wild doms t Utop = Ok R ->
  peval_ext G names sw (steady_of G Utop) ((w, Rpsi) :: wild) doms (subst_closed psi w t) Utop
    = Ok R' ->
  forall v, mem (g_L G) Utop v = true -> mem (g_L G) R' v = mem (g_L G) R v.
Proof.
  intros Hsc Hsp Hf. apply (substitute_eval G names Utop WF Gamma sw wild doms Hw Hd); try assumption.
  apply fresh_label_outside. exact Hf.
Qed.
