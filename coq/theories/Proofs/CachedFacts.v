(** The cache-free theorems C01, C02, C03, C10, C12, C14, C15, C18, C20 lifted to the
    configuration the real entry points use: duplicate sub-formulae marked by
    [mark_duplicates], sub-formula cache on ([m_nocache = false]).

    Everything goes through the cache-transparency theorems of C04b / C04c:
      plain modes     [check_trees_mapS]  check_trees w k m ts [] [] = mapM (singleS w k m) ts
      extended mode   [check_trees_mapX]  check_trees w k m ts cp cd = mapM (singleX w k cp cd m) ts
    which hold for BOTH values of [m_nocache]; [singleS] / [singleX] are the cache-free
    evaluators [peval] / [peval_ext] followed by the sanitiser, to which the cache-free
    theorems apply formula by formula.  The lemmas of sections 1-4 are therefore stated without
    any hypothesis on [m_nocache]; section 5 restates them with [m_nocache = false], word for
    word as in Properties/Cached.v.

    Contents.
      0.  lists                    1.  what [validate_all] returns, position by position
      2.  plain modes: C01, C03, C12, C15 (check_trees and model_check), C18, C20 (the network
          instantiated by a colour as a [world]: [colour_world], [genv_of_colour_world])
      2b. NEW (not a transfer): no operator of Model/Ops.v makes a set read a spare copy that
          its arguments do not read, and a quantifier over the variable stored in a copy
          projects that copy out ([hok], [peval_ext_hok]); hence the raw result of a CLOSED
          formula -- plain or extended, any self-loop set that ignores the copies -- ignores
          all spare copies EVERYWHERE ([all_copies_indep]) and can be sanitised.  This gives
          C14 for the sanitised unsafe_ex entry point and for the extended entry points, and
          C15 (sanitised = raw) for extended formulae.
      3.  extended mode: C02, C03, C12, C14, C15; validation of extended strings classified
          ([acceptedx], [rejectedx], [validate_all_casesx]); the extended string entry point
      4.  C18 with both sides in the default configuration
      5.  the statements of Properties/Cached.v *)
From Coq Require Import Permutation.
From HCTL Require Import Base Syntax Tokenizer Parser Preprocess Canon MarkDup TT Ops Eval Pipeline Kripke HCTL.
From HCTL Require Import TTFacts OpsFacts SemFacts EvalPure Main Termination PrepFacts RoundTrip CanonFacts CanonAlpha
  MarkDupFacts LayoutFacts PipelineFacts NoPanic RenameFacts ParsedNamed CacheFacts CopyRel CacheGen.
From HCTL Require Import ExtSem ExtFacts ExtEval ExtLink CacheExt CacheExtEntry.
From HCTL Require Import Unsafe ColourFacts IndepFacts ClosedIndep SubstFacts.

(** * 0. Lists *)

Lemma Forall2_weaken {A B} (P : A -> Prop) (Q R : A -> B -> Prop) l rs :
  List.Forall P l -> List.Forall2 Q l rs -> (forall x r, P x -> Q x r -> R x r) ->
  List.Forall2 R l rs.
Proof.
  intros F H K. induction H as [|x r l rs HQ _ IH]; [constructor|].
  inversion F; subst. constructor; [apply K; assumption | apply IH; assumption].
Qed.

Lemma Forall2_join {A B C} (P : A -> Prop) (Q : A -> B -> Prop) (Q' : A -> C -> Prop)
      (R : B -> C -> Prop) l rs rs' :
  List.Forall P l -> List.Forall2 Q l rs -> List.Forall2 Q' l rs' ->
  (forall x r r', P x -> Q x r -> Q' x r' -> R r r') -> List.Forall2 R rs rs'.
Proof.
  intros F H. revert rs'. induction H as [|x r l rs HQ _ IH]; intros rs' H' K; inversion H'; subst;
    [constructor|].
  inversion F; subst. constructor; [eapply K; eassumption | apply IH; assumption].
Qed.

Lemma Forall2_total {A B} (P : A -> Prop) (Q : A -> B -> Prop) l :
  List.Forall P l -> (forall x, P x -> exists r, Q x r) -> exists rs, List.Forall2 Q l rs.
Proof.
  intros F K. induction F as [|x l HP _ [rs IH]]; [exists []; constructor|].
  destruct (K x HP) as [r HQ]. exists (r :: rs). constructor; assumption.
Qed.

Lemma Forall2_len {A B} (R : A -> B -> Prop) l l' : List.Forall2 R l l' -> length l = length l'.
Proof. induction 1 as [|x y l l' _ _ IH]; cbn [length]; [reflexivity | rewrite IH; reflexivity]. Qed.

Lemma Forall_and {A} (P Q : A -> Prop) l :
  List.Forall P l -> List.Forall Q l -> List.Forall (fun x => P x /\ Q x) l.
Proof. intros F1 F2. induction F1; inversion F2; subst; constructor; auto. Qed.

(** * 1. What [validate_all] returns, position by position *)

Lemma validate_all_parsed ea ext props k ctx : forall fs ts cp cd,
  validate_all ea ext props k ctx fs = Ok (ts, cp, cd) ->
  List.Forall2 (fun f t => parse_and_minimize ea ext props f = Ok t) fs ts.
Proof.
  induction fs as [|f fs IH]; intros ts cp cd H; cbn [validate_all] in H.
  - injection H as <- _ _. constructor.
  - destruct (parse_and_minimize ea ext props f) as [t| | |] eqn:PM; cbn [bind] in H; try discriminate.
    destruct (Nat.ltb k (num_hctl_vars t)); [discriminate|].
    destruct (if ext then divide_wild_cards t ctx else Ok ([], [])) as [[cp1 cd1]| | |];
      cbn [bind] in H; try discriminate.
    destruct (validate_all ea ext props k ctx fs) as [[[ts' cp'] cd']| | |] eqn:V; cbn [bind] in H;
      try discriminate.
    injection H as <- _ _. cbn [fst]. constructor; [exact PM | eapply IH; reflexivity].
Qed.

Lemma parse_and_minimize_rename ea ext props f t :
  parse_and_minimize ea ext props f = Ok t ->
  exists t0, parse_formula ea ext f = Ok t0 /\ well_scoped props [] t0 /\ t = rename [] t0.
Proof.
  unfold parse_and_minimize. destruct (parse_formula ea ext f) as [t0| | |]; cbn [bind]; try discriminate.
  intro H. apply preprocess_ok_iff in H. destruct H as [WS ->]. exists t0. auto.
Qed.

(** the trees of the plain entry points: good (C04b) and closed *)
Definition vplain (ea : N -> bool) (w : world) (k : nat) (t : tree) : Prop :=
  good ea false (genv_of w k) (w_names w) t /\ depth_named 0 t.

Lemma validate_all_vplain ea (w : world) k ctx fs r :
  validate_all ea false (w_names w) k ctx fs = Ok r ->
  exists ts, r = (ts, [], []) /\ List.Forall (vplain ea w k) ts
             /\ List.Forall2 (fun f t => parse_and_minimize ea false (w_names w) f = Ok t) fs ts.
Proof.
  intro H. pose proof H as H0. apply validate_all_ok_iff in H. destruct H as (ts & -> & F).
  exists ts. split; [reflexivity|]. split; [|exact (validate_all_parsed _ _ _ _ _ _ _ _ _ H0)].
  clear H0. induction F as [|f t' fs ts P _ IH]; constructor; [|exact IH].
  split; [apply (prepared_good ea (genv_of w k) (w_names w) f t'); exact P|].
  apply (prepared_evaluable ea (genv_of w k) (w_names w) f t' P).
Qed.

(** closedness: a tree named by depth from depth 0 has no free variable *)
Lemma depth_named_closed_names : forall t d B,
  depth_named d t -> (forall j, j < d -> In (xs (S j)) B) -> closed_names B t.
Proof.
  induction t as [a | o a IH | o a IHa b IHb | o x dm a IH]; intros d B DN HB.
  - destruct a as [nm | x | | | l]; cbn [closed_names]; try exact I.
    cbn [depth_named] in DN. destruct DN as [j [Hj ->]]. apply HB, Hj.
  - cbn [closed_names]. cbn [depth_named] in DN. eapply IH; eassumption.
  - cbn [closed_names]. cbn [depth_named] in DN. destruct DN as [Da Db].
    split; [eapply IHa | eapply IHb]; eassumption.
  - cbn [depth_named] in DN.
    assert (forall j, j < S d -> In (xs (S j)) (xs (S d) :: B)) as HB'.
    { intros j Hj. destruct (Nat.eq_dec j d) as [-> | NE]; [left; reflexivity | right; apply HB; lia]. }
    destruct o; cbn [is_quantifier] in DN; cbn [closed_names].
    + destruct DN as [-> Da]. eapply IH; eassumption.
    + destruct DN as [[j [Hj ->]] Da]. split; [apply HB, Hj | eapply IH; eassumption].
    + destruct DN as [-> Da]. eapply IH; eassumption.
    + destruct DN as [-> Da]. eapply IH; eassumption.
Qed.

Lemma depth_named_closed_copies G t : depth_named 0 t -> closed_copies G t.
Proof.
  intro DN. apply closed_names_closed_copies.
  eapply depth_named_closed_names; [exact DN | intros j Hj; lia].
Qed.

(** the mode with the duplicate marking switched on / off *)
Definition set_nocache (b : bool) (m : mode) : mode :=
  {| m_ext := m_ext m; m_sanitize := m_sanitize m; m_unsafe_ex := m_unsafe_ex m;
     m_nocache := b; m_nopatterns := m_nopatterns m |}.

(** * 2. Plain modes *)

Section PlainWorld.
Variable ea : N -> bool.
Variable ext : bool.
Variable w : world.
Variable k : nat.
Hypothesis WOK : world_ok w.
Let upd_ok : List.Forall (shaped (Lpn (w_p w) (w_n w))) (w_upd w) := proj1 WOK.
Let unit_ok : shaped (Lpn (w_p w) (w_n w)) (w_unit w) := proj1 (proj2 WOK).
Let unit_colour : forall v v', (forall j, v (TP j) = v' (TP j)) ->
  mem (Lpn (w_p w) (w_n w)) (w_unit w) v = mem (Lpn (w_p w) (w_n w)) (w_unit w) v' :=
  proj1 (proj2 (proj2 WOK)).
Let names_ok : length (w_names w) <= w_n w := proj2 (proj2 (proj2 WOK)).

Local Notation G := (genv_of w k).
Local Notation U := (unit_of w k).
Local Notation names := (w_names w).
Local Notation good := (good ea ext G names).
Local Notation swm m := {| use_patterns := negb (m_nopatterns m) |}.

Let WF : wf_env G names U := world_wf w k upd_ok unit_ok unit_colour names_ok.

(** the bridge: with or without duplicate marking, position by position *)
Lemma ct_plain_single m ts rs :
  m_ext m = false -> List.Forall good ts -> check_trees w k m ts [] [] = Ok rs ->
  List.Forall2 (fun t R => singleS w k m t = Ok R) ts rs.
Proof.
  intros He F H. rewrite (check_trees_mapS ea ext w k upd_ok unit_ok unit_colour names_ok m ts He F) in H.
  apply mapM_Forall2, H.
Qed.

Lemma ct_plain_single_rev m ts rs :
  m_ext m = false -> List.Forall good ts ->
  List.Forall2 (fun t R => singleS w k m t = Ok R) ts rs -> check_trees w k m ts [] [] = Ok rs.
Proof.
  intros He F H. rewrite (check_trees_mapS ea ext w k upd_ok unit_ok unit_colour names_ok m ts He F).
  apply mapM_Forall2, H.
Qed.

Lemma singleS_dirty m t R :
  m_sanitize m = false ->
  (singleS w k m t = Ok R <-> peval G names (swm m) (steady_of_mode w k m) t U = Ok R).
Proof.
  intro Hs. unfold singleS. rewrite Hs.
  destruct (peval G names (swm m) (steady_of_mode w k m) t U); cbn [bind]; split; congruence.
Qed.

Lemma singleS_sanitized m t S :
  m_sanitize m = true ->
  (singleS w k m t = Ok S <->
   exists R, peval G names (swm m) (steady_of_mode w k m) t U = Ok R /\ sanitize G R = Ok S).
Proof.
  intro Hs. unfold singleS. rewrite Hs.
  destruct (peval G names (swm m) (steady_of_mode w k m) t U) as [R| | |]; cbn [bind]; split.
  - intro H. exists R. auto.
  - intros (R' & E & H). injection E as <-. exact H.
  - discriminate.
  - intros (R' & E & _). discriminate.
  - discriminate.
  - intros (R' & E & _). discriminate.
  - discriminate.
  - intros (R' & E & _). discriminate.
Qed.

Lemma steady_std m : m_unsafe_ex m = false -> steady_of_mode w k m = steady_of G U.
Proof. intro Hu. unfold steady_of_mode. rewrite Hu. reflexivity. Qed.

Lemma ct_plain_peval m ts rs :
  m_ext m = false -> m_sanitize m = false -> m_unsafe_ex m = false ->
  List.Forall good ts -> check_trees w k m ts [] [] = Ok rs ->
  List.Forall2 (fun t R => peval G names (swm m) (steady_of G U) t U = Ok R) ts rs.
Proof.
  intros He Hs Hu F H. eapply Forall2_weaken; [exact F | exact (ct_plain_single m ts rs He F H)|].
  intros t R _ E. apply (singleS_dirty m t R Hs) in E. rewrite (steady_std m Hu) in E. exact E.
Qed.

(** the cache-free evaluator on good trees: total, and independent of the switches *)
Lemma good_peval_total sw t : good t ->
  exists R, peval G names sw (steady_of G U) t U = Ok R /\ shaped (g_L G) R.
Proof.
  intros (PL & SUP & PK & _).
  assert (shaped (g_L G) (steady_of G U)) as SS.
  { apply shaped_steady_of; [apply (wf_upd_shaped _ _ _ WF) | apply (wf_U_shaped _ _ _ WF)]. }
  exact (peval_total G names sw (steady_of G U) U (wf_nodup _ _ _ WF) (wf_upd_shaped _ _ _ WF)
           (wf_U_shaped _ _ _ WF) SS t PL SUP PK).
Qed.

Lemma peval_sw_irrelevant sw sw' t : good t ->
  peval G names sw (steady_of G U) t U = peval G names sw' (steady_of G U) t U.
Proof.
  intro GT. destruct (good_peval_total sw t GT) as (R & E & _).
  destruct (good_peval_total sw' t GT) as (R' & E' & _). rewrite E, E'. f_equal.
  destruct GT as (PL & SUP & _).
  destruct (peval_correct G names U WF (fun _ _ => True) sw t R PL SUP E) as [S1 E1].
  destruct (peval_correct G names U WF (fun _ _ => True) sw' t R' PL SUP E') as [S2 E2].
  apply (tt_ext (g_L G)); try assumption; [apply (wf_nodup _ _ _ WF)|].
  intro v. destruct (mem (g_L G) R v) eqn:A; destruct (mem (g_L G) R' v) eqn:B; try reflexivity.
  - apply E1 in A. apply E2 in A. congruence.
  - apply E2 in B. apply E1 in B. congruence.
Qed.

(** ** C01 *)

Theorem cached_C01_check_trees (Gamma : str -> val -> Prop) m ts rs :
  m_ext m = false -> m_sanitize m = false -> m_unsafe_ex m = false ->
  List.Forall good ts -> check_trees w k m ts [] [] = Ok rs ->
  List.Forall2 (fun t R => forall v,
     mem (g_L G) R v = true <-> (mem (g_L G) U v = true /\ sat G names Gamma t v)) ts rs.
Proof.
  intros He Hs Hu F H. eapply Forall2_weaken; [exact F | exact (ct_plain_peval m ts rs He Hs Hu F H)|].
  intros t R (PL & SUP & _) E. exact (proj2 (peval_correct G names U WF Gamma _ t R PL SUP E)).
Qed.

(** ** C03 *)

Theorem cached_C03_within_unit m ts rs :
  m_ext m = false -> m_sanitize m = false -> m_unsafe_ex m = false ->
  List.Forall good ts -> check_trees w k m ts [] [] = Ok rs ->
  List.Forall (fun R => forall v, mem (g_L G) R v = true -> mem (g_L G) U v = true) rs.
Proof.
  intros He Hs Hu F H.
  pose proof (cached_C01_check_trees (fun _ _ => True) m ts rs He Hs Hu F H) as F2.
  clear - F2. induction F2 as [|t R ts rs E _ IH]; constructor; [|exact IH].
  intros v Hv. apply E in Hv. tauto.
Qed.

Theorem cached_C03_closed_ignores_copies m ts rs :
  m_ext m = false -> m_sanitize m = false -> m_unsafe_ex m = false ->
  List.Forall good ts -> List.Forall (depth_named 0) ts -> check_trees w k m ts [] [] = Ok rs ->
  List.Forall (fun R => forall v v', (forall j, v (TP j) = v' (TP j)) -> (forall i, v (TS i) = v' (TS i)) ->
                 mem (g_L G) R v = mem (g_L G) R v') rs.
Proof.
  intros He Hs Hu F D H.
  pose proof (Forall2_weaken _ _
     (fun t R => forall v v', (forall j, v (TP j) = v' (TP j)) -> (forall i, v (TS i) = v' (TS i)) ->
                 mem (g_L G) R v = mem (g_L G) R v') ts rs
     (Forall_and _ _ _ F D) (ct_plain_peval m ts rs He Hs Hu F H)) as F2.
  assert (List.Forall2 (fun (_ : tree) R => forall v v', (forall j, v (TP j) = v' (TP j)) ->
            (forall i, v (TS i) = v' (TS i)) -> mem (g_L G) R v = mem (g_L G) R v') ts rs) as F3.
  { apply F2. intros t R [(PL & SUP & _) DN] E.
    exact (closed_ignores_copies G names U WF _ t R PL SUP (depth_named_closed_copies G t DN) E). }
  clear - F3. induction F3; constructor; assumption.
Qed.

(** ** C12 *)

Lemma singleS_patterns m m' t :
  m_unsafe_ex m = false -> m_unsafe_ex m' = false -> m_sanitize m = m_sanitize m' ->
  good t -> singleS w k m t = singleS w k m' t.
Proof.
  intros Hu Hu' Hs GT. unfold singleS. rewrite (steady_std m Hu), (steady_std m' Hu'), Hs.
  rewrite (peval_sw_irrelevant (swm m) (swm m') t GT). reflexivity.
Qed.

Lemma mapM_ext_in {A B} (f g : A -> res B) l :
  (forall x, In x l -> f x = g x) -> mapM f l = mapM g l.
Proof.
  induction l as [|x l IH]; intro H; cbn [mapM]; [reflexivity|].
  rewrite (H x (or_introl eq_refl)), IH; [reflexivity|]. intros y IN. apply H. right. exact IN.
Qed.

(** the pattern switch AND the cache switch are both irrelevant *)
Theorem cached_C12_check_trees m m' ts :
  m_ext m = false -> m_ext m' = false -> m_unsafe_ex m = false -> m_unsafe_ex m' = false ->
  m_sanitize m = m_sanitize m' ->
  List.Forall good ts ->
  check_trees w k m ts [] [] = check_trees w k m' ts [] [].
Proof.
  intros He He' Hu Hu' Hs F.
  rewrite (check_trees_mapS ea ext w k upd_ok unit_ok unit_colour names_ok m ts He F).
  rewrite (check_trees_mapS ea ext w k upd_ok unit_ok unit_colour names_ok m' ts He' F).
  apply mapM_ext_in. intros t IN. apply singleS_patterns; try assumption.
  rewrite Forall_forall in F. apply F, IN.
Qed.

(** ** C15: sanitised = raw *)

Theorem cached_C15_sanitize_eq_raw m m' ts rs :
  m_ext m = false -> m_ext m' = false -> m_unsafe_ex m = false -> m_unsafe_ex m' = false ->
  m_sanitize m = false -> m_sanitize m' = true ->
  List.Forall good ts -> List.Forall (depth_named 0) ts ->
  check_trees w k m ts [] [] = Ok rs ->
  exists ss, check_trees w k m' ts [] [] = Ok ss
    /\ List.Forall2 (fun R S => shaped (filter not_extra (g_L G)) S /\
                       forall v, mem (filter not_extra (g_L G)) S v = mem (g_L G) R v) rs ss.
Proof.
  intros He He' Hu Hu' Hs Hs' F D H.
  pose proof (ct_plain_peval m ts rs He Hs Hu F H) as F2.
  assert (exists ss, List.Forall2 (fun t S => singleS w k m' t = Ok S) ts ss
            /\ List.Forall2 (fun R S => shaped (filter not_extra (g_L G)) S /\
                       forall v, mem (filter not_extra (g_L G)) S v = mem (g_L G) R v) rs ss) as (ss & A & B).
  { clear H. revert F D. induction F2 as [|t R ts rs E _ IH]; intros F D.
    - exists []. split; constructor.
    - inversion F as [|? ? GT F']; subst. inversion D as [|? ? DN D']; subst.
      destruct (IH F' D') as (ss & A & B).
      rewrite (peval_sw_irrelevant _ (swm m') t GT) in E.
      destruct GT as (PL & SUP & _).
      destruct (sanitize_eq_raw G names U WF (swm m') t R PL SUP (depth_named_closed_copies G t DN) E)
        as (S & ES & SH & HM).
      exists (S :: ss). split; constructor; try assumption; [|split; assumption].
      apply (singleS_sanitized m' t S Hs'). exists R. rewrite (steady_std m' Hu'). auto. }
  exists ss. split; [apply (ct_plain_single_rev m' ts ss He' F A) | exact B].
Qed.

End PlainWorld.

(** ** C10: the extended entry point with empty contexts, on plain trees *)

Theorem cached_C10_check_trees_ext_empty ea ext (w : world) k :
  world_ok w ->
  forall (Gamma : str -> val -> Prop) m ts rs,
  m_ext m = true -> m_sanitize m = false -> m_unsafe_ex m = false ->
  List.Forall (good ea ext (genv_of w k) (w_names w)) ts ->
  check_trees w k m ts [] [] = Ok rs ->
  List.Forall2 (fun t R => forall v,
     mem (g_L (genv_of w k)) R v = true <->
     (mem (g_L (genv_of w k)) (unit_of w k) v = true /\ sat (genv_of w k) (w_names w) Gamma t v)) ts rs.
Proof.
  intros WOK Gamma m ts rs He Hs Hu F H.
  set (m' := {| m_ext := false; m_sanitize := m_sanitize m; m_unsafe_ex := m_unsafe_ex m;
                m_nocache := m_nocache m; m_nopatterns := m_nopatterns m |}).
  rewrite (check_trees_empty_context w k m m' ts eq_refl eq_refl eq_refl eq_refl) in H.
  exact (cached_C01_check_trees ea ext w k WOK Gamma m' ts rs eq_refl Hs Hu F H).
Qed.

(** ** C15: the sanitised results do not depend on the number of spare copies *)

Section KIndepWorld.
Variable ea : N -> bool.
Variable ext : bool.
Variable w : world.
Variables k k' : nat.
Hypothesis WOK : world_ok w.
Let upd_ok : List.Forall (shaped (Lpn (w_p w) (w_n w))) (w_upd w) := proj1 WOK.
Let unit_ok : shaped (Lpn (w_p w) (w_n w)) (w_unit w) := proj1 (proj2 WOK).
Let unit_colour : forall v v', (forall j, v (TP j) = v' (TP j)) ->
  mem (Lpn (w_p w) (w_n w)) (w_unit w) v = mem (Lpn (w_p w) (w_n w)) (w_unit w) v' :=
  proj1 (proj2 (proj2 WOK)).
Let names_ok : length (w_names w) <= w_n w := proj2 (proj2 (proj2 WOK)).

Local Notation names := (w_names w).
Local Notation swm m := {| use_patterns := negb (m_nopatterns m) |}.

Theorem cached_C15_k_independent m m' ts ss :
  m_ext m = false -> m_ext m' = false -> m_unsafe_ex m = false -> m_unsafe_ex m' = false ->
  m_sanitize m = true -> m_sanitize m' = true ->
  List.Forall (good ea ext (genv_of w k) names) ts ->
  List.Forall (good ea ext (genv_of w k') names) ts ->
  List.Forall (depth_named 0) ts ->
  check_trees w k m ts [] [] = Ok ss ->
  check_trees w k' m' ts [] [] = Ok ss
  /\ List.Forall2 (fun t S => shaped (Lpn (w_p w) (w_n w)) S /\
       forall (Gamma : str -> val -> Prop) v, mem (Lpn (w_p w) (w_n w)) S v = true <->
         (mem (Lpn (w_p w) (w_n w)) (w_unit w) v = true /\ sat (genv_of w k) names Gamma t v)) ts ss.
Proof.
  intros He He' Hu Hu' Hs Hs' F F' D H.
  pose proof (ct_plain_single ea ext w k WOK m ts ss He F H) as F2.
  assert (List.Forall2 (fun t S => singleS w k' m' t = Ok S /\ (shaped (Lpn (w_p w) (w_n w)) S /\
       forall (Gamma : str -> val -> Prop) v, mem (Lpn (w_p w) (w_n w)) S v = true <->
         (mem (Lpn (w_p w) (w_n w)) (w_unit w) v = true /\ sat (genv_of w k) names Gamma t v))) ts ss) as F3.
  { clear H. revert F F' D. induction F2 as [|t S ts ss E _ IH]; intros F F' D; [constructor|].
    inversion F as [|? ? GT Fr]; subst. inversion F' as [|? ? GT' Fr']; subst.
    inversion D as [|? ? DN Dr]; subst. constructor; [|apply IH; assumption].
    apply (singleS_sanitized w k m t S Hs) in E. destruct E as (R & E & ES).
    rewrite (steady_std w k m Hu) in E.
    destruct (good_peval_total ea ext w k' WOK (swm m') t GT') as (R' & E' & _).
    destruct GT as (PL & SUP & _). destruct GT' as (_ & SUP' & _).
    destruct (k_independent (w_p w) (w_n w) k k' (w_upd w) (w_unit w) names upd_ok unit_ok unit_colour names_ok
                (swm m) (swm m') t R R' PL SUP SUP' (depth_named_closed_copies _ t DN) E E')
      as (S0 & A & B & C & D0).
    change (mk_genv (w_p w) (w_n w) k (w_upd w)) with (genv_of w k) in A, D0.
    change (mk_genv (w_p w) (w_n w) k' (w_upd w)) with (genv_of w k') in B.
    assert (S0 = S) as -> by congruence.
    split; [|split; assumption].
    apply (singleS_sanitized w k' m' t S Hs'). exists R'. rewrite (steady_std w k' m' Hu'). auto. }
  split.
  - apply (ct_plain_single_rev ea ext w k' WOK m' ts ss He' F').
    clear - F3. induction F3 as [|? ? ? ? [A _] _ IH]; constructor; assumption.
  - clear - F3. induction F3 as [|? ? ? ? [_ A] _ IH]; constructor; assumption.
Qed.

End KIndepWorld.

(** ** the plain string entry point *)

Section PlainEntry.
Variable ea : N -> bool.
Variable w : world.
Variable k : nat.
Hypothesis WOK : world_ok w.
Let upd_ok : List.Forall (shaped (Lpn (w_p w) (w_n w))) (w_upd w) := proj1 WOK.
Let unit_ok : shaped (Lpn (w_p w) (w_n w)) (w_unit w) := proj1 (proj2 WOK).
Let unit_colour : forall v v', (forall j, v (TP j) = v' (TP j)) ->
  mem (Lpn (w_p w) (w_n w)) (w_unit w) v = mem (Lpn (w_p w) (w_n w)) (w_unit w) v' :=
  proj1 (proj2 (proj2 WOK)).
Let names_ok : length (w_names w) <= w_n w := proj2 (proj2 (proj2 WOK)).

Local Notation G := (genv_of w k).
Local Notation U := (unit_of w k).
Local Notation names := (w_names w).
Local Notation parsed fs ts :=
  (List.Forall2 (fun f t => parse_and_minimize ea false names f = Ok t) fs ts).

Lemma model_check_plain_inv m ctx fs rs :
  m_ext m = false -> model_check ea w k m ctx fs = Ok rs ->
  exists ts, List.Forall (vplain ea w k) ts /\ parsed fs ts /\ check_trees w k m ts [] [] = Ok rs.
Proof.
  intros He H. unfold model_check in H. rewrite He in H.
  destruct (validate_all ea false names k ctx fs) as [r| | |] eqn:V; cbn [bind] in H; try discriminate.
  destruct (validate_all_vplain ea w k ctx fs r V) as (ts & -> & F & P). cbn [fst snd] in H.
  exists ts. auto.
Qed.

Lemma model_check_plain_congr m m' ctx fs :
  m_ext m = false -> m_ext m' = false ->
  (forall ts, List.Forall (vplain ea w k) ts -> parsed fs ts ->
     check_trees w k m ts [] [] = check_trees w k m' ts [] []) ->
  model_check ea w k m ctx fs = model_check ea w k m' ctx fs.
Proof.
  intros He He' K. unfold model_check. rewrite He, He'.
  destruct (validate_all ea false names k ctx fs) as [r| | |] eqn:V; cbn [bind]; try reflexivity.
  destruct (validate_all_vplain ea w k ctx fs r V) as (ts & -> & F & P). cbn [fst snd].
  apply K; assumption.
Qed.

Lemma vplain_good ts : List.Forall (vplain ea w k) ts -> List.Forall (good ea false G names) ts.
Proof. apply Forall_impl. intros t [A _]. exact A. Qed.

Lemma vplain_closed ts : List.Forall (vplain ea w k) ts -> List.Forall (depth_named 0) ts.
Proof. apply Forall_impl. intros t [_ A]. exact A. Qed.

Theorem cached_C01_model_check (Gamma : str -> val -> Prop) m ctx fs rs :
  m_ext m = false -> m_sanitize m = false -> m_unsafe_ex m = false ->
  model_check ea w k m ctx fs = Ok rs ->
  exists ts, parsed fs ts /\
    List.Forall2 (fun t R => forall v,
       mem (g_L G) R v = true <-> (mem (g_L G) U v = true /\ sat G names Gamma t v)) ts rs.
Proof.
  intros He Hs Hu H. destruct (model_check_plain_inv m ctx fs rs He H) as (ts & F & P & C).
  exists ts. split; [exact P|].
  exact (cached_C01_check_trees ea false w k WOK Gamma m ts rs
           He Hs Hu (vplain_good ts F) C).
Qed.

Theorem cached_C03_model_check m ctx fs rs :
  m_ext m = false -> m_sanitize m = false -> m_unsafe_ex m = false ->
  model_check ea w k m ctx fs = Ok rs ->
  List.Forall (fun R =>
      (forall v, mem (g_L G) R v = true -> mem (g_L G) U v = true)
      /\ (forall v v', (forall j, v (TP j) = v' (TP j)) -> (forall i, v (TS i) = v' (TS i)) ->
            mem (g_L G) R v = mem (g_L G) R v')) rs.
Proof.
  intros He Hs Hu H. destruct (model_check_plain_inv m ctx fs rs He H) as (ts & F & P & C).
  apply Forall_and.
  - exact (cached_C03_within_unit ea false w k WOK m ts rs
             He Hs Hu (vplain_good ts F) C).
  - exact (cached_C03_closed_ignores_copies ea false w k WOK m ts rs
             He Hs Hu (vplain_good ts F) (vplain_closed ts F) C).
Qed.

Theorem cached_C12_model_check m m' ctx fs :
  m_ext m = false -> m_ext m' = false -> m_unsafe_ex m = false -> m_unsafe_ex m' = false ->
  m_sanitize m = m_sanitize m' ->
  model_check ea w k m ctx fs = model_check ea w k m' ctx fs.
Proof.
  intros He He' Hu Hu' Hs. apply model_check_plain_congr; try assumption. intros ts F _.
  exact (cached_C12_check_trees ea false w k WOK m m' ts
           He He' Hu Hu' Hs (vplain_good ts F)).
Qed.

Theorem cached_C15_model_check_sanitize_eq_raw m m' ctx fs rs :
  m_ext m = false -> m_ext m' = false -> m_unsafe_ex m = false -> m_unsafe_ex m' = false ->
  m_sanitize m = false -> m_sanitize m' = true ->
  model_check ea w k m ctx fs = Ok rs ->
  exists ss, model_check ea w k m' ctx fs = Ok ss
    /\ List.Forall2 (fun R S => shaped (filter not_extra (g_L G)) S /\
                       forall v, mem (filter not_extra (g_L G)) S v = mem (g_L G) R v) rs ss.
Proof.
  intros He He' Hu Hu' Hs Hs' H. unfold model_check in *. rewrite He in H. rewrite He'.
  destruct (validate_all ea false names k ctx fs) as [r| | |] eqn:V; cbn [bind] in *; try discriminate.
  destruct (validate_all_vplain ea w k ctx fs r V) as (ts & -> & F & P). cbn [fst snd] in *.
  exact (cached_C15_sanitize_eq_raw ea false w k WOK m m' ts rs
           He He' Hu Hu' Hs Hs' (vplain_good ts F) (vplain_closed ts F) H).
Qed.

End PlainEntry.

Theorem cached_C15_model_check_k_independent ea (w : world) k k' m m' ctx ctx' fs ss ss' :
  world_ok w ->
  m_ext m = false -> m_ext m' = false -> m_unsafe_ex m = false -> m_unsafe_ex m' = false ->
  m_sanitize m = true -> m_sanitize m' = true ->
  model_check ea w k m ctx fs = Ok ss -> model_check ea w k' m' ctx' fs = Ok ss' ->
  ss = ss'
  /\ exists ts, List.Forall2 (fun f t => parse_and_minimize ea false (w_names w) f = Ok t) fs ts
     /\ List.Forall2 (fun t S => shaped (Lpn (w_p w) (w_n w)) S /\
          forall (Gamma : str -> val -> Prop) v, mem (Lpn (w_p w) (w_n w)) S v = true <->
            (mem (Lpn (w_p w) (w_n w)) (w_unit w) v = true /\ sat (genv_of w k) (w_names w) Gamma t v)) ts ss.
Proof.
  intros WOK He He' Hu Hu' Hs Hs' H H'.
  destruct (model_check_plain_inv ea w k m ctx fs ss He H) as (ts & F & P & C).
  destruct (model_check_plain_inv ea w k' m' ctx' fs ss' He' H') as (ts' & F' & P' & C').
  assert (ts' = ts) as ->.
  { eapply Forall2_fun; [|exact P' | exact P]. intros; congruence. }
  destruct (cached_C15_k_independent ea false w k k' WOK m m' ts ss He He' Hu Hu' Hs Hs'
              (vplain_good ea w k ts F) (vplain_good ea w k' ts F') (vplain_closed ea w k ts F) C) as [A B].
  split; [congruence|]. exists ts. auto.
Qed.

(** ** C18: the self-loop-free variant (any cache mode, plain or extended) *)

Lemma eval_all_fragment G names sw s1 s2 U : forall ts c, List.Forall in_fragment ts ->
  eval_all G names sw s1 U ts c = eval_all G names sw s2 U ts c.
Proof.
  induction ts as [|t ts IH]; intros c F; cbn [eval_all]; [reflexivity|].
  inversion F as [|? ? Ft Fr]; subst.
  rewrite (fragment_ignores_steady G names sw s1 s2 t U c Ft).
  destruct (eval_node G names sw s2 t U c) as [[r c']| | |]; cbn [bind]; try reflexivity.
  rewrite (IH c' Fr). reflexivity.
Qed.

Theorem cached_C18_fragment_check_trees (w : world) k m m' ts cp cd :
  m_ext m = m_ext m' -> m_sanitize m = m_sanitize m' -> m_nocache m = m_nocache m' ->
  m_nopatterns m = m_nopatterns m' -> List.Forall in_fragment ts ->
  check_trees w k m ts cp cd = check_trees w k m' ts cp cd.
Proof.
  intros He Hs Hn Hp F. unfold check_trees. rewrite <- He, <- Hs, <- Hn, <- Hp.
  rewrite (eval_all_fragment _ _ _ (if m_unsafe_ex m then empty (genv_of w k)
                                       else steady_of (genv_of w k) (unit_of w k))
             (if m_unsafe_ex m' then empty (genv_of w k)
              else steady_of (genv_of w k) (unit_of w k)) _ ts _ F).
  reflexivity.
Qed.

Lemma in_fragment_rename t : forall scope, in_fragment (rename scope t) <-> in_fragment t.
Proof.
  induction t as [a | o c IH | o a IHa b IHb | o x d c IH]; intro scope; cbn [rename].
  - destruct a; cbn [in_fragment]; tauto.
  - destruct o; cbn [in_fragment]; try tauto; apply IH.
  - destruct o; cbn [in_fragment]; try tauto; rewrite IHa, IHb; tauto.
  - destruct (is_quantifier o); cbn [in_fragment]; apply IH.
Qed.

Theorem cached_C18_fragment_model_check ea (w : world) k m m' ctx fs :
  m_ext m = m_ext m' -> m_sanitize m = m_sanitize m' -> m_nocache m = m_nocache m' ->
  m_nopatterns m = m_nopatterns m' ->
  (forall f t0, In f fs -> parse_formula ea (m_ext m) f = Ok t0 -> in_fragment t0) ->
  model_check ea w k m ctx fs = model_check ea w k m' ctx fs.
Proof.
  intros He Hs Hn Hp K. unfold model_check. rewrite <- He.
  destruct (validate_all ea (m_ext m) (w_names w) k ctx fs) as [[[ts cp] cd]| | |] eqn:V; cbn [bind];
    try reflexivity.
  cbn [fst snd]. apply cached_C18_fragment_check_trees; try assumption.
  pose proof (validate_all_parsed _ _ _ _ _ _ _ _ _ V) as P. clear V.
  induction P as [|f t fs ts PM _ IH]; constructor.
  - destruct (parse_and_minimize_rename _ _ _ _ _ PM) as (t0 & PF & _ & ->).
    apply in_fragment_rename. apply (K f t0 (or_introl eq_refl) PF).
  - apply IH. intros f' t0 IN. apply K. right. exact IN.
Qed.

Section NoSteadyWorld.
Variable w : world.
Variable k : nat.
Hypothesis WOK : world_ok w.
Let upd_ok : List.Forall (shaped (Lpn (w_p w) (w_n w))) (w_upd w) := proj1 WOK.
Let unit_ok : shaped (Lpn (w_p w) (w_n w)) (w_unit w) := proj1 (proj2 WOK).
Let unit_colour : forall v v', (forall j, v (TP j) = v' (TP j)) ->
  mem (Lpn (w_p w) (w_n w)) (w_unit w) v = mem (Lpn (w_p w) (w_n w)) (w_unit w) v' :=
  proj1 (proj2 (proj2 WOK)).
Let names_ok : length (w_names w) <= w_n w := proj2 (proj2 (proj2 WOK)).
Hypothesis no_steady : forall v, mem (g_L (genv_of w k)) (unit_of w k) v = true -> ~ vsteady (genv_of w k) v.

Theorem cached_C18_no_steady_check_trees m m' ts cp cd :
  m_ext m = m_ext m' -> m_sanitize m = m_sanitize m' -> m_nocache m = m_nocache m' ->
  m_nopatterns m = m_nopatterns m' ->
  check_trees w k m ts cp cd = check_trees w k m' ts cp cd.
Proof.
  intros He Hs Hn Hp. unfold check_trees. rewrite <- He, <- Hs, <- Hn, <- Hp.
  pose proof (world_wf w k upd_ok unit_ok unit_colour names_ok) as WF.
  rewrite (no_steady_states_empty (genv_of w k) (wf_nodup _ _ _ WF) (wf_upd_shaped _ _ _ WF)
             (wf_TS_in _ _ _ WF) (unit_of w k) (wf_U_shaped _ _ _ WF) no_steady).
  destruct (m_unsafe_ex m), (m_unsafe_ex m'); reflexivity.
Qed.

Theorem cached_C18_no_steady_model_check ea m m' ctx fs :
  m_ext m = m_ext m' -> m_sanitize m = m_sanitize m' -> m_nocache m = m_nocache m' ->
  m_nopatterns m = m_nopatterns m' ->
  model_check ea w k m ctx fs = model_check ea w k m' ctx fs.
Proof.
  intros He Hs Hn Hp. unfold model_check. rewrite <- He.
  destruct (validate_all ea (m_ext m) (w_names w) k ctx fs) as [[[ts cp] cd]| | |]; cbn [bind];
    try reflexivity.
  apply cached_C18_no_steady_check_trees; assumption.
Qed.

End NoSteadyWorld.

(** ** C20: the colour slice *)

(** the network instantiated by a colour, as a world (with a unit set of its own) *)
Definition colour_world (c : val) (u' : tt) (w : world) : world :=
  {| w_p := w_p w; w_n := w_n w; w_names := w_names w;
     w_upd := map (fix_colour c (Lpn (w_p w) (w_n w))) (w_upd w);
     w_unit := u' |}.

Lemma expand_fix_colour c : forall L t,
  expand not_extra L (fix_colour c (filter not_extra L) t) = fix_colour c L (expand not_extra L t).
Proof.
  induction L as [|h L IH]; intro t; [reflexivity|].
  cbn [filter]. destruct (not_extra h) eqn:K.
  - destruct t as [b|lo hi].
    + cbn [fix_colour expand]. rewrite K. symmetry. apply (fix_colour_const c (h :: L) b).
    + destruct h as [j|i|i e]; [| |discriminate K]; cbn [fix_colour expand]; rewrite K; cbn [fix_colour].
      * rewrite IH. destruct (c (TP j)); reflexivity.
      * rewrite !IH. reflexivity.
  - destruct h as [j|i|i e]; [discriminate K | discriminate K|].
    cbn [expand]. rewrite K. cbn [fix_colour]. rewrite IH. reflexivity.
Qed.

Lemma genv_of_colour_world c u' (w : world) k :
  genv_of (colour_world c u' w) k = instantiate c (genv_of w k).
Proof.
  unfold genv_of, colour_world, instantiate, mk_genv. cbn [w_p w_n w_upd g_n g_p g_k g_L g_upd].
  f_equal. rewrite !map_map. apply map_ext. intro t.
  change (fun g => negb (is_extra_tag g)) with not_extra.
  rewrite <- expand_fix_colour, filter_not_extra_layout. reflexivity.
Qed.

Section ColourWorld.
Variable ea : N -> bool.
Variable ext : bool.
Variable w : world.
Variable k : nat.
Hypothesis WOK : world_ok w.
Let upd_ok : List.Forall (shaped (Lpn (w_p w) (w_n w))) (w_upd w) := proj1 WOK.
Let unit_ok : shaped (Lpn (w_p w) (w_n w)) (w_unit w) := proj1 (proj2 WOK).
Let unit_colour : forall v v', (forall j, v (TP j) = v' (TP j)) ->
  mem (Lpn (w_p w) (w_n w)) (w_unit w) v = mem (Lpn (w_p w) (w_n w)) (w_unit w) v' :=
  proj1 (proj2 (proj2 WOK)).
Let names_ok : length (w_names w) <= w_n w := proj2 (proj2 (proj2 WOK)).
Variable c : val.
Variable u' : tt.
Hypothesis unit_ok' : shaped (Lpn (w_p w) (w_n w)) u'.
Hypothesis unit_colour' : forall v v', (forall j, v (TP j) = v' (TP j)) ->
  mem (Lpn (w_p w) (w_n w)) u' v = mem (Lpn (w_p w) (w_n w)) u' v'.

Local Notation G := (genv_of w k).
Local Notation U := (unit_of w k).
Local Notation names := (w_names w).
Local Notation w' := (colour_world c u' w).

Lemma colour_world_upd_ok : List.Forall (shaped (Lpn (w_p w') (w_n w'))) (w_upd w').
Proof.
  cbn [colour_world w_p w_n w_upd]. apply Forall_forall. intros t IN. apply in_map_iff in IN.
  destruct IN as (t0 & <- & IN). apply shaped_fix_colour. rewrite Forall_forall in upd_ok. apply upd_ok, IN.
Qed.

Lemma colour_world_ok : world_ok w'.
Proof. exact (conj colour_world_upd_ok (conj unit_ok' (conj unit_colour' names_ok))). Qed.

Lemma colour_world_good t : good ea ext G names t -> good ea ext (genv_of w' k) names t.
Proof.
  intros (A & B & C & D). rewrite genv_of_colour_world. split; [exact A|].
  split; [apply supported_instantiate, B | split; [exact C | exact D]].
Qed.

Theorem cached_C20_check_trees m m' ts rs rs' :
  m_ext m = false -> m_ext m' = false -> m_sanitize m = false -> m_sanitize m' = false ->
  m_unsafe_ex m = false -> m_unsafe_ex m' = false ->
  List.Forall (good ea ext G names) ts ->
  check_trees w k m ts [] [] = Ok rs -> check_trees w' k m' ts [] [] = Ok rs' ->
  List.Forall2 (fun R R' => forall v, (forall j, v (TP j) = c (TP j)) ->
     mem (g_L G) U v = true -> mem (g_L G) (unit_of w' k) v = true ->
     mem (g_L G) R v = mem (g_L G) R' v) rs rs'.
Proof.
  intros He He' Hs Hs' Hu Hu' F H H'.
  pose proof (world_wf w k upd_ok unit_ok unit_colour names_ok) as WF.
  pose proof (world_wf w' k colour_world_upd_ok unit_ok' unit_colour' names_ok) as WF'.
  pose proof (ct_plain_peval ea ext w k WOK m ts rs He Hs Hu F H) as F2.
  assert (List.Forall (good ea ext (genv_of w' k) names) ts) as FG'.
  { eapply Forall_impl; [|exact F]. apply colour_world_good. }
  pose proof (ct_plain_peval ea ext w' k colour_world_ok m' ts rs'
                He' Hs' Hu' FG' H') as F2'.
  cbn [w_names colour_world] in F2', WF'. rewrite genv_of_colour_world in F2', WF'.
  eapply Forall2_join; [exact F | exact F2 | exact F2' |].
  intros t R R' (PL & SUP & _) E E' v Hc HU HU'.
  exact (peval_colour_slice G names c U (unit_of w' k) WF WF' _ _ t R R' PL SUP E E' v Hc HU HU').
Qed.

End ColourWorld.

Theorem cached_C20_model_check ea (w : world) k c u' m m' ctx ctx' fs rs rs' :
  world_ok w ->
  shaped (Lpn (w_p w) (w_n w)) u' ->
  (forall v v', (forall j, v (TP j) = v' (TP j)) ->
     mem (Lpn (w_p w) (w_n w)) u' v = mem (Lpn (w_p w) (w_n w)) u' v') ->
  m_ext m = false -> m_ext m' = false -> m_sanitize m = false -> m_sanitize m' = false ->
  m_unsafe_ex m = false -> m_unsafe_ex m' = false ->
  model_check ea w k m ctx fs = Ok rs -> model_check ea (colour_world c u' w) k m' ctx' fs = Ok rs' ->
  List.Forall2 (fun R R' => forall v, (forall j, v (TP j) = c (TP j)) ->
     mem (g_L (genv_of w k)) (unit_of w k) v = true ->
     mem (g_L (genv_of w k)) (unit_of (colour_world c u' w) k) v = true ->
     mem (g_L (genv_of w k)) R v = mem (g_L (genv_of w k)) R' v) rs rs'.
Proof.
  intros WOK H5 H6 He He' Hs Hs' Hu Hu' H H'.
  destruct (model_check_plain_inv ea w k m ctx fs rs He H) as (ts & F & P & C).
  destruct (model_check_plain_inv ea (colour_world c u' w) k m' ctx' fs rs' He' H') as (ts' & F' & P' & C').
  assert (ts' = ts) as ->.
  { eapply Forall2_fun; [|exact P' | exact P]. cbn [w_names colour_world]. intros; congruence. }
  exact (cached_C20_check_trees ea false w k WOK c u' H5 H6 m m' ts rs rs'
           He He' Hs Hs' Hu Hu' (vplain_good ea w k ts F) C C').
Qed.

(** * 2b. The raw result of a closed extended formula does not read the spare copies --
    everywhere, not only inside the unit (which is what the sanitiser needs)

    [hok e A]: the set [A] is shaped and does not read spare copy [e].  Every operator of
    Model/Ops.v keeps [hok e] (a syntactic argument on decision trees: no semantics, no
    termination argument); a quantifier over the variable stored in copy [e] projects that
    copy out, whatever its body returns.  Hence for a formula without free variable in copy
    [e] the result is [hok e]; a closed formula is [hok e] for every [e]. *)

Section HiddenCopy.
Variable G : genv.
Variable names : list str.
Variable Utop : tt.
Hypothesis WF : wf_env G names Utop.
Local Notation L := (g_L G).
Local Notation n := (g_n G).
Local Notation k := (g_k G).
Variable e : nat.

Definition hrel (v w : val) : Prop := forall g, is_copy e g = false -> v g = w g.
Definition hok (A : tt) : Prop :=
  shaped L A /\ forall v w, hrel v w -> mem L A v = mem L A w.

Local Notation ND := (wf_nodup _ _ _ WF).

Lemma hok_shaped A : hok A -> shaped L A.
Proof. intros [H _]. exact H. Qed.

Lemma hok_const b : hok (const L b).
Proof. split; [apply shaped_const|]. intros. rewrite !mem_const. reflexivity. Qed.

Lemma hok_lit g : In g L -> is_copy e g = false -> hok (lit L g).
Proof.
  intros IN Hg. split; [apply shaped_lit|]. intros v w H.
  rewrite !(mem_lit L g) by (try apply ND; exact IN). apply H, Hg.
Qed.

Lemma hok_map2 f a b : hok a -> hok b -> hok (map2 f a b).
Proof.
  intros [S1 H1] [S2 H2]. split; [apply shaped_map2; assumption|]. intros v w H.
  rewrite !mem_map2 by assumption. rewrite (H1 v w H), (H2 v w H). reflexivity.
Qed.

Lemma hrel_vflip g v w : hrel v w -> hrel (vflip g v) (vflip g w).
Proof. intros H g' Hg'. unfold vflip. rewrite (H g' Hg'). reflexivity. Qed.

Lemma hok_flip g a : hok a -> hok (flip g L a).
Proof.
  intros [S1 H1]. split; [apply shaped_flip; exact S1|]. intros v w H.
  rewrite !mem_flip by (try apply ND; exact S1). apply H1, hrel_vflip, H.
Qed.

(** projecting any variables out keeps the property ... *)
Lemma hok_exq q a : hok a -> hok (exq q L a).
Proof.
  intros [S1 H1]. split; [apply shaped_exq; exact S1|]. intros v w H. apply bool_eq_iff.
  rewrite !(mem_exq q L a) by (try apply ND; exact S1).
  split; intros (u & SO & M).
  - exists (fun g => if q g then u g else w g). split.
    + intros g Hq. rewrite Hq. reflexivity.
    + rewrite <- M. symmetry. apply H1. intros g Hg. destruct (q g) eqn:Hq; [reflexivity|].
      rewrite (SO g Hq). apply H, Hg.
  - exists (fun g => if q g then u g else v g). split.
    + intros g Hq. rewrite Hq. reflexivity.
    + rewrite <- M. symmetry. apply H1. intros g Hg. destruct (q g) eqn:Hq; [reflexivity|].
      rewrite (SO g Hq). symmetry. apply H, Hg.
Qed.

(** ... and projecting copy [e] out establishes it *)
Lemma hok_exq_hidden a : shaped L a -> hok (exq (is_copy e) L a).
Proof.
  intro S1. split; [apply shaped_exq; exact S1|]. intros v w H. apply bool_eq_iff.
  rewrite !(mem_exq (is_copy e) L a) by (try apply ND; exact S1).
  split; intros (u & SO & M); exists u; (split; [|exact M]); intros g Hg; rewrite (SO g Hg).
  - apply H, Hg.
  - symmetry. apply H, Hg.
Qed.

Lemma hok_fold {A} (f : tt -> A -> tt) (l : list A) :
  (forall acc x, In x l -> hok acc -> hok (f acc x)) ->
  forall acc, hok acc -> hok (fold_left f l acc).
Proof.
  induction l as [|x l IH]; intros K acc H; cbn [fold_left]; [exact H|].
  apply IH; [intros acc' y IN; apply K; right; exact IN|]. apply K; [left; reflexivity | exact H].
Qed.

Lemma hok_top : hok Utop.
Proof.
  split; [apply (wf_U_shaped _ _ _ WF)|]. intros v w H. apply (wf_U_colour _ _ _ WF).
  intro j. apply H. reflexivity.
Qed.

Lemma hok_extras_indep S : shaped L S -> extras_indep G S -> hok S.
Proof.
  intros SS X. split; [exact SS|]. intros v w H. apply X. intros g Hg. apply H.
  destruct g; try reflexivity. discriminate Hg.
Qed.

Lemma hok_upd i : hok (upd_of G i).
Proof.
  apply hok_extras_indep; [apply (wf_upd_shaped _ _ _ WF)|]. intros v w H. apply (wf_upd_extras _ _ _ WF), H.
Qed.

Lemma hok_can_update i : i < n -> hok (can_update G i).
Proof.
  intro Hi. unfold can_update. apply hok_map2; [apply hok_upd|].
  apply hok_lit; [apply (wf_TS_in _ _ _ WF), Hi | reflexivity].
Qed.

Lemma hok_var_pre i S : i < n -> hok S -> hok (var_pre G i S).
Proof. intros Hi H. unfold var_pre. apply hok_map2; [apply hok_flip, H | apply hok_can_update, Hi]. Qed.

Lemma hok_pre S : hok S -> hok (pre G S).
Proof.
  intro H. unfold pre. apply hok_fold; [|apply hok_const].
  intros acc i IN Ha. apply hok_map2; [exact Ha|]. apply hok_var_pre; [apply in_range, IN | exact H].
Qed.

Lemma hok_steady_of U : hok U -> hok (steady_of G U).
Proof.
  intro H. unfold steady_of. apply hok_fold; [|exact H].
  intros acc i IN Ha. apply hok_map2; [exact Ha|]. apply hok_can_update, in_range, IN.
Qed.

Lemma hok_neg U S : hok U -> hok S -> hok (eval_neg U S).
Proof. intros. unfold eval_neg. apply hok_map2; assumption. Qed.

Lemma hok_ex S st : hok S -> hok st -> hok (eval_ex G S st).
Proof. intros. unfold eval_ex. apply hok_map2; [apply hok_pre | apply hok_map2]; assumption. Qed.

Lemma hok_ax U S st : hok U -> hok S -> hok st -> hok (eval_ax G U S st).
Proof. intros. unfold eval_ax. apply hok_neg; [|apply hok_ex; [apply hok_neg|]]; assumption. Qed.

Lemma hok_imp U a b : hok U -> hok a -> hok b -> hok (eval_imp U a b).
Proof. intros. unfold eval_imp. apply hok_map2; [apply hok_neg|]; assumption. Qed.

Lemma hok_equiv U a b : hok U -> hok a -> hok b -> hok (eval_equiv U a b).
Proof. intros. unfold eval_equiv. apply hok_map2; apply hok_map2; try apply hok_neg; assumption. Qed.

Lemma hok_xor U a b : hok U -> hok a -> hok b -> hok (eval_xor U a b).
Proof. intros. unfold eval_xor. apply hok_neg; [|apply hok_equiv]; assumption. Qed.

(** the loops *)
Lemma hok_while_neq (F : tt -> tt) : (forall x, hok x -> hok (F x)) ->
  forall fuel x y r, hok x -> while_neq fuel F x y = Ok r -> hok r.
Proof.
  intro K. induction fuel as [|f IH]; intros x y r Hx; cbn [while_neq];
    destruct (tt_eqb x y); try discriminate.
  - intro H; injection H as <-; exact Hx.
  - intro H; injection H as <-; exact Hx.
  - intro H. eapply IH; [|exact H]. apply K, Hx.
Qed.

Lemma hok_sat_step phi1 : hok phi1 -> forall vars result r,
  (forall i, In i vars -> i < n) -> hok result -> sat_step G vars phi1 result = Some r -> hok r.
Proof.
  intro H1. induction vars as [|i vars IH]; intros result r K Hr; cbn [sat_step]; [discriminate|].
  destruct (is_empty _).
  - apply IH; [intros j IN; apply K; right; exact IN | exact Hr].
  - intro H. injection H as <-. apply hok_map2; [exact Hr|]. apply hok_map2; [|exact Hr].
    apply hok_map2; [exact H1|]. apply hok_var_pre; [apply K; left; reflexivity | exact Hr].
Qed.

Lemma hok_eu_loop phi1 : hok phi1 -> forall fuel result r,
  hok result -> eu_loop G fuel phi1 result = Ok r -> hok r.
Proof.
  intro H1. induction fuel as [|f IH]; intros result r Hr; cbn [eu_loop]; [discriminate|].
  destruct (sat_step G (rev (range n)) phi1 result) as [r'|] eqn:E.
  - apply IH. eapply (hok_sat_step phi1 H1); [|exact Hr | exact E].
    intros i IN. apply in_range. apply in_rev. exact IN.
  - intro H. injection H as <-. exact Hr.
Qed.

Lemma hok_eu a b r : hok a -> hok b -> eval_eu_saturated G a b = Ok r -> hok r.
Proof. intros Ha Hb. apply hok_eu_loop; assumption. Qed.

Lemma hok_ef U a r : hok U -> hok a -> eval_ef_saturated G U a = Ok r -> hok r.
Proof. intros HU Ha. apply hok_eu; assumption. Qed.

Lemma hok_eg a st r : hok a -> hok st -> eval_eg G a st = Ok r -> hok r.
Proof.
  intros Ha Hs. unfold eval_eg. apply hok_while_neq; [|exact Ha].
  intros x Hx. apply hok_map2; [exact Hx | apply hok_ex; assumption].
Qed.

Lemma hok_au U a b st r : hok U -> hok a -> hok b -> hok st -> eval_au G U a b st = Ok r -> hok r.
Proof.
  intros HU Ha Hb Hs. unfold eval_au. apply hok_while_neq; [|exact Hb].
  intros x Hx. apply hok_map2; [exact Hx|]. apply hok_map2; [exact Ha | apply hok_ax; assumption].
Qed.

Lemma hok_af U a st r : hok U -> hok a -> hok st -> eval_af G U a st = Ok r -> hok r.
Proof.
  intros HU Ha Hs. unfold eval_af.
  destruct (eval_eg G (eval_neg U a) st) as [x| | |] eqn:E; cbn [bind]; try discriminate.
  intro H. injection H as <-. apply hok_neg; [exact HU|].
  eapply hok_eg; [| |exact E]; [apply hok_neg|]; assumption.
Qed.

Lemma hok_ag U a r : hok U -> hok a -> eval_ag G U a = Ok r -> hok r.
Proof.
  intros HU Ha. unfold eval_ag.
  destruct (eval_ef_saturated G U (eval_neg U a)) as [x| | |] eqn:E; cbn [bind]; try discriminate.
  intro H. injection H as <-. apply hok_neg; [exact HU|].
  eapply hok_ef; [| |exact E]; [|apply hok_neg]; assumption.
Qed.

Lemma hok_ew U a b st r : hok U -> hok a -> hok b -> hok st -> eval_ew G U a b st = Ok r -> hok r.
Proof.
  intros HU Ha Hb Hs. unfold eval_ew.
  destruct (eval_au G U (eval_neg U b) (tand (eval_neg U a) (eval_neg U b)) st) as [x| | |] eqn:E;
    cbn [bind]; try discriminate.
  intro H. injection H as <-. apply hok_neg; [exact HU|].
  eapply hok_au; [| | | |exact E]; try assumption; [apply hok_neg | apply hok_map2; apply hok_neg]; assumption.
Qed.

Lemma hok_aw U a b r : hok U -> hok a -> hok b -> eval_aw G U a b = Ok r -> hok r.
Proof.
  intros HU Ha Hb. unfold eval_aw.
  destruct (eval_eu_saturated G (eval_neg U b) (tand (eval_neg U a) (eval_neg U b))) as [x| | |] eqn:E;
    cbn [bind]; try discriminate.
  intro H. injection H as <-. apply hok_neg; [exact HU|].
  eapply hok_eu; [| |exact E]; [apply hok_neg | apply hok_map2; apply hok_neg]; assumption.
Qed.

(** the hybrid operators: a variable stored in another copy [e'] ... *)
Lemma hok_cmp U e' : hok U -> e' <> e -> e' < k -> hok (comparator_var_state G U e').
Proof.
  intros HU NE LT. unfold comparator_var_state. apply hok_map2; [|exact HU].
  apply hok_fold; [|exact HU]. intros acc i IN Ha. apply hok_map2; [exact Ha|].
  apply in_range in IN. apply hok_map2; apply hok_lit.
  - apply (wf_TX_in _ _ _ WF); assumption.
  - cbn [is_copy]. apply Nat.eqb_neq. exact (fun X => NE (eq_sym X)).
  - apply (wf_TS_in _ _ _ WF), IN.
  - reflexivity.
Qed.

Lemma shaped_cmp U e' : shaped L U -> shaped L (comparator_var_state G U e').
Proof. intro HU. apply (HybridFacts.shaped_comparator G U HU). Qed.

Lemma hok_prop U i : hok U -> i < n -> hok (eval_prop G U i).
Proof.
  intros HU Hi. unfold eval_prop. apply hok_map2; [|exact HU].
  apply hok_lit; [apply (wf_TS_in _ _ _ WF), Hi | reflexivity].
Qed.

Lemma hok_jump U a e' : hok U -> hok a -> e' <> e -> e' < k -> hok (eval_jump G U a e').
Proof.
  intros HU Ha NE LT. unfold eval_jump, project_out_bn_vars. apply hok_exq.
  apply hok_map2; [apply hok_cmp; assumption | exact Ha].
Qed.

Lemma hok_domain U dset e' : hok U -> hok dset -> e' <> e -> e' < k ->
  hok (compute_valid_domain_for_var G U dset e').
Proof.
  intros HU Hd NE LT. unfold compute_valid_domain_for_var, project_out_bn_vars. apply hok_exq.
  apply hok_map2; [exact Hd | apply hok_cmp; assumption].
Qed.

(** ... and a quantifier: over another copy it keeps the property; over copy [e] itself it
    establishes it whatever (shaped) set its body returned, in whatever restricted unit *)
Lemma hok_quantifier U Ur o e' a r : hok U -> shaped L Ur -> shaped L a -> e' < k ->
  (e' <> e -> hok Ur /\ hok a) ->
  eval_hybrid_quantifier G U Ur o e' a = Ok r -> hok r.
Proof.
  intros HU SR SA LT K. destruct (Nat.eq_dec e' e) as [-> | NE].
  - destruct o; cbn [eval_hybrid_quantifier]; intro H; try discriminate; injection H as <-.
    + unfold eval_bind, project_out_hctl_var. apply hok_exq_hidden.
      apply shaped_tand; [apply shaped_cmp, (hok_shaped _ HU) | apply shaped_tand; assumption].
    + unfold eval_exists, project_out_hctl_var. apply hok_exq_hidden. apply shaped_tand; assumption.
    + apply hok_neg; [exact HU|]. unfold eval_exists, project_out_hctl_var. apply hok_exq_hidden.
      unfold eval_neg. apply shaped_tminus; assumption.
  - destruct (K NE) as [HR HA].
    destruct o; cbn [eval_hybrid_quantifier]; intro H; try discriminate; injection H as <-.
    + unfold eval_bind, project_out_hctl_var. apply hok_exq.
      apply hok_map2; [apply hok_cmp; assumption | apply hok_map2; assumption].
    + unfold eval_exists, project_out_hctl_var. apply hok_exq. apply hok_map2; assumption.
    + apply hok_neg; [exact HU|]. unfold eval_exists, project_out_hctl_var. apply hok_exq.
      apply hok_neg; assumption.
Qed.

End HiddenCopy.

Section HiddenCopyEval.
Variable G : genv.
Variable names : list str.
Variable Utop : tt.
Hypothesis WF : wf_env G names Utop.
Variable sw : switches.
Variable wild doms : list (str * tt).
Variable e : nat.
Variable st : tt.     (* the self-loop set handed to the evaluator: any set that is [hok] *)
Local Notation L := (g_L G).
Local Notation hok := (hok G e).
Local Notation pevx := (peval_ext G names sw st wild doms).

Hypothesis st_hok : hok st.
Hypothesis wild_hok : forall l s, alookup str_eqb l wild = Some s -> hok s.
Hypothesis doms_hok : forall l s, alookup str_eqb l doms = Some s -> hok s.

Lemma st_shaped : shaped L st.
Proof. exact (hok_shaped G e st st_hok). Qed.

Lemma pevx_shaped t U R : shaped L U -> knownx names wild doms t -> supported G t ->
  pevx t U = Ok R -> shaped L R.
Proof.
  intros HU Hk Hs E.
  destruct (peval_ext_total G names sw st wild doms (wf_nodup _ _ _ WF) (wf_upd_shaped _ _ _ WF) st_shaped
              (fun l s X => hok_shaped G e s (wild_hok l s X))
              (fun l s X => hok_shaped G e s (doms_hok l s X)) t U HU Hk Hs) as (R' & E' & S').
  congruence.
Qed.

Theorem peval_ext_hok : forall t U R,
  hok U -> knownx names wild doms t -> supported G t -> avoids_copy G e t ->
  pevx t U = Ok R -> hok R.
Proof.
  induction t as [a | o a IH | o a IHa b IHb | o x d a IH]; intros U R HU Hk Hs Ha; rewrite peval_ext_eq.
  - cbn [is_attractor_pattern is_fixed_point_pattern]. rewrite !andb_false_r.
    destruct a as [nm | y | | | l]; cbn [peval_ext_body knownx supported] in *.
    + destruct (index_of nm names 0) as [i|] eqn:E; [|discriminate]. intro H. injection H as <-.
      apply (hok_prop G names Utop WF e U i HU). apply (wf_names _ _ _ WF nm i E).
    + destruct (hctl_var_id G y) as [e'| | |] eqn:E; cbn [bind]; try discriminate.
      intro H. injection H as <-. destruct (var_id_of G y e' E) as [V LT].
      unfold eval_hctl_var. apply (hok_cmp G names Utop WF e U e' HU); [|exact LT].
      unfold avoids_copy in Ha. cbn [copies_ok] in Ha. apply Ha, V.
    + intro H. injection H as <-. exact HU.
    + intro H. injection H as <-. apply hok_const.
    + destruct (alookup str_eqb l wild) as [s|] eqn:E; [|discriminate]. intro H. injection H as <-.
      apply (wild_hok l s E).
  - cbn [is_attractor_pattern is_fixed_point_pattern]. rewrite !andb_false_r.
    cbn [peval_ext_body knownx supported] in *. unfold avoids_copy in Ha. cbn [copies_ok] in Ha.
    destruct (pevx a U) as [A| | |] eqn:EA; cbn [bind]; try discriminate.
    pose proof (IH U A HU Hk Hs Ha EA) as HA.
    pose proof st_hok as HS.
    destruct o; intro H.
    + injection H as <-. apply hok_neg; assumption.
    + injection H as <-. apply (hok_ex G names Utop WF e); assumption.
    + injection H as <-. apply (hok_ax G names Utop WF e); assumption.
    + eapply (hok_ef G names Utop WF e); [exact HU | exact HA | exact H].
    + eapply (hok_af G names Utop WF e); [exact HU | exact HA | exact HS | exact H].
    + eapply (hok_eg G names Utop WF e); [exact HA | exact HS | exact H].
    + eapply (hok_ag G names Utop WF e); [exact HU | exact HA | exact H].
  - cbn [is_attractor_pattern is_fixed_point_pattern]. rewrite !andb_false_r.
    cbn [peval_ext_body knownx supported] in *. unfold avoids_copy in Ha. cbn [copies_ok] in Ha.
    destruct Hk as [Hka Hkb]. destruct Hs as [Hsa Hsb]. destruct Ha as [Haa Hab].
    destruct (pevx a U) as [A| | |] eqn:EA; cbn [bind]; try discriminate.
    destruct (pevx b U) as [B| | |] eqn:EB; cbn [bind]; try discriminate.
    pose proof (IHa U A HU Hka Hsa Haa EA) as HA. pose proof (IHb U B HU Hkb Hsb Hab EB) as HB.
    pose proof st_hok as HS.
    destruct o; intro H.
    + injection H as <-. apply hok_map2; assumption.
    + injection H as <-. apply hok_map2; assumption.
    + injection H as <-. apply hok_xor; assumption.
    + injection H as <-. apply hok_imp; assumption.
    + injection H as <-. apply hok_equiv; assumption.
    + eapply (hok_eu G names Utop WF e); [exact HA | exact HB | exact H].
    + eapply (hok_au G names Utop WF e); [exact HU | exact HA | exact HB | exact HS | exact H].
    + eapply (hok_ew G names Utop WF e); [exact HU | exact HA | exact HB | exact HS | exact H].
    + eapply (hok_aw G names Utop WF e); [exact HU | exact HA | exact HB | exact H].
  - cbn [knownx supported] in *. destruct Hk as [Hkd Hka]. destruct Hs as [Hvx Hsa].
    pose proof (hok_shaped G e U HU) as SU.
    destruct (use_patterns sw && is_attractor_pattern (Hybrid o x d a)).
    { cbn [pattern_var]. destruct (hctl_var_id G x) as [e'| | |] eqn:E; cbn [bind]; try discriminate.
      destruct (var_id_of G x e' E) as [V LT]. unfold attractors.
      assert (shaped L (eval_hctl_var G U e')) as SV by (apply shaped_cmp, SU).
      destruct (ef_terminates G (wf_nodup _ _ _ WF) (wf_upd_shaped _ _ _ WF) U _ SU SV) as (ef & E1 & S1).
      rewrite E1. cbn [bind].
      destruct (ag_terminates G (wf_nodup _ _ _ WF) (wf_upd_shaped _ _ _ WF) U ef SU S1) as (ag & E2 & S2).
      rewrite E2. cbn [bind]. intro H.
      apply (hok_quantifier G names Utop WF e U U Bind e' ag R HU SU S2 LT); [|exact H].
      intro NE. split; [exact HU|].
      eapply (hok_ag G names Utop WF e); [exact HU | | exact E2].
      eapply (hok_ef G names Utop WF e); [exact HU | | exact E1].
      apply (hok_cmp G names Utop WF e); assumption. }
    destruct (use_patterns sw && is_fixed_point_pattern (Hybrid o x d a)).
    { intro H. injection H as <-. exact st_hok. }
    cbn [peval_ext_body]. unfold avoids_copy in Ha.
    assert (forall e', var_of G x = Some e' -> e' <> e -> avoids_copy G e a) as AV.
    { intros e' V NE. destruct o; cbn [copies_ok] in Ha; try (exact (proj2 Ha));
        (eapply copies_ok_mono; [|apply (Ha e' V)]; intros e'' [-> | X]; assumption). }
    assert (Q : forall o', o' <> Jump -> o = o' ->
      match d with
      | Some dl =>
          match alookup str_eqb dl doms with
          | Some dset =>
              let* e' := hctl_var_id G x in
              let Ur := tand U (compute_valid_domain_for_var G U dset e') in
              if is_empty Ur then Ok match o' with Forall => U | _ => empty G end
              else let* r := pevx a Ur in eval_hybrid_quantifier G U Ur o' e' r
          | None => Panic PDomainLookup
          end
      | None =>
          let* r := pevx a U in
          let* e' := hctl_var_id G x in eval_hybrid_quantifier G U U o' e' r
      end = Ok R -> hok R).
    { intros o' Ho' ->. destruct d as [dl|].
      - destruct (alookup str_eqb dl doms) as [dset|] eqn:ED; [|discriminate].
        pose proof (doms_hok _ _ ED) as HD.
        destruct (hctl_var_id G x) as [e'| | |] eqn:E; cbn [bind]; try discriminate.
        destruct (var_id_of G x e' E) as [V LT]. cbv zeta.
        assert (shaped L (tand U (compute_valid_domain_for_var G U dset e'))) as SR.
        { apply shaped_tand; [exact SU|]. unfold compute_valid_domain_for_var, project_out_bn_vars.
          apply shaped_exq, shaped_tand; [apply (hok_shaped G e dset HD) | apply shaped_cmp, SU]. }
        destruct (is_empty (tand U (compute_valid_domain_for_var G U dset e'))).
        + intro H. injection H as <-. destruct o'; try exact HU; apply hok_const.
        + destruct (pevx a (tand U (compute_valid_domain_for_var G U dset e'))) as [r| | |] eqn:ER;
            cbn [bind]; try discriminate.
          apply (hok_quantifier G names Utop WF e U _ o' e' r R HU SR (pevx_shaped a _ r SR Hka Hsa ER) LT).
          intro NE.
          assert (hok (tand U (compute_valid_domain_for_var G U dset e'))) as HR.
          { apply hok_map2; [exact HU|]. apply (hok_domain G names Utop WF e); assumption. }
          split; [exact HR|]. exact (IH _ r HR Hka Hsa (AV e' V NE) ER).
      - destruct (pevx a U) as [r| | |] eqn:ER; cbn [bind]; try discriminate.
        destruct (hctl_var_id G x) as [e'| | |] eqn:E; cbn [bind]; try discriminate.
        destruct (var_id_of G x e' E) as [V LT].
        apply (hok_quantifier G names Utop WF e U U o' e' r R HU SU (pevx_shaped a U r SU Hka Hsa ER) LT).
        intro NE. split; [exact HU|]. exact (IH U r HU Hka Hsa (AV e' V NE) ER). }
    destruct o.
    + apply (Q Bind); [discriminate | reflexivity].
    + cbn [copies_ok] in Ha. destruct Ha as [Hx Haa].
      destruct (pevx a U) as [r| | |] eqn:ER; cbn [bind]; try discriminate.
      destruct (hctl_var_id G x) as [e'| | |] eqn:E; cbn [bind]; try discriminate.
      destruct (var_id_of G x e' E) as [V LT]. intro H. injection H as <-.
      apply (hok_jump G names Utop WF e); [exact HU | exact (IH U r HU Hka Hsa Haa ER) | exact (Hx e' V) | exact LT].
    + apply (Q Exists); [discriminate | reflexivity].
    + apply (Q Forall); [discriminate | reflexivity].
Qed.

End HiddenCopyEval.

(** independent of every single spare copy, hence of all of them (layout of [mk_genv]) *)
Definition mix_copies (j : nat) (v w : val) : val :=
  fun g => match g with TX _ e' => if Nat.ltb e' j then w g else v g | _ => v g end.

Lemma all_copies_indep p n k R :
  (forall e v w, hrel e v w -> mem (mk_layout p n k) R v = mem (mk_layout p n k) R w) ->
  indep_dropped not_extra (mk_layout p n k) R.
Proof.
  intros H v w A.
  assert (forall j, mem (mk_layout p n k) R v = mem (mk_layout p n k) R (mix_copies j v w)) as K.
  { induction j as [|j IH].
    - apply mem_agree. intros g _. destruct g; reflexivity.
    - rewrite IH. apply (H j). intros g Hg. destruct g as [a|a|a e']; try reflexivity.
      cbn [mix_copies]. cbn [is_copy] in Hg. apply Nat.eqb_neq in Hg.
      destruct (Nat.ltb_spec e' j), (Nat.ltb_spec e' (S j)); try reflexivity; lia. }
  rewrite (K k). apply mem_agree. intros g IN. destruct g as [a|a|a e']; cbn [mix_copies].
  - apply A. reflexivity.
  - apply A. reflexivity.
  - apply in_mk_layout in IN. destruct IN as [_ LT]. apply Nat.ltb_lt in LT. rewrite LT. reflexivity.
Qed.

(** ** plain modes, all of them: closed results can always be sanitised

    (also with the empty self-loop set of [m_unsafe_ex], sanitised -- the combination that
    C14 leaves out) *)

Lemma plain_no_labels t : plainf t -> forall l, ~ has_wild l t /\ ~ has_dom l t.
Proof.
  induction t as [a | o a IH | o a IHa b IHb | o x d a IH]; cbn [plainf has_wild has_dom]; intros PL l.
  - destruct a; try tauto.
  - apply IH, PL.
  - destruct PL as [Pa Pb]. destruct (IHa Pa l), (IHb Pb l). tauto.
  - destruct PL as [-> Pa]. destruct (IH Pa l). split; [tauto|]. intros [X | X]; [discriminate X | tauto].
Qed.

Section PlainAllModes.
Variable ea : N -> bool.
Variable ext : bool.
Variable w : world.
Variable k : nat.
Hypothesis WOK : world_ok w.
Let upd_ok : List.Forall (shaped (Lpn (w_p w) (w_n w))) (w_upd w) := proj1 WOK.
Let unit_ok : shaped (Lpn (w_p w) (w_n w)) (w_unit w) := proj1 (proj2 WOK).
Let unit_colour : forall v v', (forall j, v (TP j) = v' (TP j)) ->
  mem (Lpn (w_p w) (w_n w)) (w_unit w) v = mem (Lpn (w_p w) (w_n w)) (w_unit w) v' :=
  proj1 (proj2 (proj2 WOK)).
Let names_ok : length (w_names w) <= w_n w := proj2 (proj2 (proj2 WOK)).

Local Notation G := (genv_of w k).
Local Notation U := (unit_of w k).
Local Notation names := (w_names w).
Local Notation good := (good ea ext G names).
Local Notation swm m := {| use_patterns := negb (m_nopatterns m) |}.

Let WF : wf_env G names U := world_wf w k upd_ok unit_ok unit_colour names_ok.

Lemma steady_of_mode_hok m e : hok G e (steady_of_mode w k m).
Proof.
  unfold steady_of_mode. destruct (m_unsafe_ex m); [apply hok_const|].
  apply (hok_steady_of G names U WF e), (hok_top G names U WF e).
Qed.

(** the raw result of a closed plain formula, in every plain mode, ignores the spare copies *)
Theorem plain_closed_result_indep m t R : good t -> depth_named 0 t ->
  peval G names (swm m) (steady_of_mode w k m) t U = Ok R ->
  indep_dropped not_extra (g_L G) R.
Proof.
  intros (PL & SUP & PK & _) DN E.
  rewrite <- (peval_ext_plain G names (swm m) (steady_of_mode w k m) [] [] t U PL) in E.
  apply (all_copies_indep (w_p w) (w_n w) k R). intros e v v' H.
  assert (avoids_copy G e t) as AV.
  { unfold avoids_copy. eapply copies_ok_mono; [|exact (depth_named_closed_copies G t DN)]. intros e' []. }
  assert (knownx names [] [] t) as KN.
  { apply knownx_intro; [exact PK | |]; intros l Hl; exfalso; destruct (plain_no_labels t PL l); tauto. }
  assert (forall l s, alookup str_eqb l (@nil (str * tt)) = Some s -> hok G e s) as NIL
    by (intros l s X; discriminate X).
  exact (proj2 (peval_ext_hok G names U WF (swm m) [] [] e (steady_of_mode w k m) (steady_of_mode_hok m e)
                  NIL NIL t U R (hok_top G names U WF e) KN SUP AV E) v v' H).
Qed.

Lemma singleS_total m t : good t -> depth_named 0 t -> exists R, singleS w k m t = Ok R.
Proof.
  intros GT DN. pose proof GT as (PL & SUP & PK & _).
  assert (shaped (g_L G) (steady_of_mode w k m)) as SS by exact (hok_shaped G 0 _ (steady_of_mode_hok m 0)).
  destruct (peval_total G names (swm m) (steady_of_mode w k m) U (wf_nodup _ _ _ WF) (wf_upd_shaped _ _ _ WF)
              (wf_U_shaped _ _ _ WF) SS t PL SUP PK) as (R & E & SH).
  unfold singleS. rewrite E. cbn [bind]. destruct (m_sanitize m); [|exists R; reflexivity].
  destruct (restrict_indep_Some not_extra (g_L G) R (wf_nodup _ _ _ WF) SH
              (plain_closed_result_indep m t R GT DN E)) as (S & ES & _).
  exists S. unfold sanitize. rewrite ES. reflexivity.
Qed.

(** [check_trees] on validated trees answers with one set per formula in EVERY plain mode *)
Theorem cached_C14_check_trees_total m ts :
  m_ext m = false -> List.Forall good ts -> List.Forall (depth_named 0) ts ->
  exists rs, check_trees w k m ts [] [] = Ok rs /\ length rs = length ts.
Proof.
  intros He F D. rewrite (check_trees_mapS ea ext w k upd_ok unit_ok unit_colour names_ok m ts He F).
  revert D. induction F as [|t ts GT _ IH]; intro D; cbn [mapM].
  - exists []. split; reflexivity.
  - inversion D as [|? ? DN D']; subst. destruct (IH D') as (rs & -> & LEN).
    destruct (singleS_total m t GT DN) as (R & ->). cbn [bind].
    exists (R :: rs). split; [reflexivity | cbn [length]; lia].
Qed.

End PlainAllModes.

(** ** C14 for the plain string entry point, every plain mode *)

Section PlainNoPanic.
Variable ea : N -> bool.
Variable w : world.
Variable k : nat.
Hypothesis WOK : world_ok w.
Local Notation names := (w_names w).
Local Notation accepted := (accepted ea names k).
Local Notation rejected := (rejected ea names k).

Theorem cached_C14_cases m ctx fs :
  m_ext m = false ->
  (exists rs, model_check ea w k m ctx fs = Ok rs /\ length rs = length fs
              /\ List.Forall accepted fs)
  \/ (exists e, model_check ea w k m ctx fs = Err e /\ first_reject accepted rejected fs e).
Proof.
  intros He. unfold model_check. rewrite He.
  destruct (validate_all_cases ea names k ctx fs) as [(ts & V & F) | (e & -> & FR)];
    [|right; exists e; auto].
  left. destruct (validate_all_vplain ea w k ctx fs _ V) as (ts' & X & FV & _).
  injection X as <-. rewrite V. cbn [bind fst snd].
  destruct (cached_C14_check_trees_total ea false w k WOK m ts He (vplain_good ea w k ts FV)
              (vplain_closed ea w k ts FV)) as (rs & -> & L).
  exists rs. split; [reflexivity|]. split.
  - rewrite L. symmetry. exact (Forall2_len _ _ _ F).
  - clear - F. induction F as [|f t' fs ts P _ IH]; constructor; [|exact IH]. eapply prepared_accepted, P.
Qed.

Theorem cached_C14_no_panic m ctx fs :
  m_ext m = false ->
  (forall p, model_check ea w k m ctx fs <> Panic p) /\ model_check ea w k m ctx fs <> OutOfFuel.
Proof.
  intro He. destruct (cached_C14_cases m ctx fs He) as [(rs & -> & _) | (e & -> & _)];
    split; try intro p; discriminate.
Qed.

Theorem cached_C14_err_iff m ctx fs e :
  m_ext m = false ->
  (model_check ea w k m ctx fs = Err e <-> first_reject accepted rejected fs e).
Proof.
  intro He. split.
  - intro H. destruct (cached_C14_cases m ctx fs He) as [(rs & E & _) | (e' & E & FR)];
      rewrite E in H; [discriminate|]. injection H as <-. exact FR.
  - intro FR. unfold model_check. rewrite He.
    rewrite (first_reject_validate ea names k ctx fs e FR). reflexivity.
Qed.

Theorem cached_C14_ok_iff m ctx fs :
  m_ext m = false ->
  ((exists rs, model_check ea w k m ctx fs = Ok rs) <-> List.Forall accepted fs).
Proof.
  intro He. split.
  - intros [rs H]. destruct (cached_C14_cases m ctx fs He) as [(rs' & _ & _ & AC) | (e & E & _)];
      [exact AC | congruence].
  - intro AC. destruct (cached_C14_cases m ctx fs He) as [(rs & E & _) | (e & _ & FR)];
      [exists rs; exact E|].
    exfalso. clear - AC FR. induction FR as [f l e RJ | f l e _ _ IH].
    + inversion AC; subst. eapply accepted_not_rejected; eassumption.
    + inversion AC; subst. apply IH. assumption.
Qed.

Theorem cached_C14_err_iff_parsed m ctx fs ts e :
  m_ext m = false ->
  Forall2 (fun f t => parse_formula ea false f = Ok t) fs ts ->
  (model_check ea w k m ctx fs = Err e
   <-> exists ts1 t ts2,
         ts = ts1 ++ t :: ts2
         /\ List.Forall (fun t1 => well_scoped names [] t1 /\ qdepth t1 <= k) ts1
         /\ (scope_violation names [] t e
             \/ (well_scoped names [] t /\ k < qdepth t /\ e = EVarSupport))).
Proof.
  intros He P. rewrite (cached_C14_err_iff m ctx fs e He).
  rewrite (first_reject_parsed ea names k fs ts e P).
  apply first_reject_split.
Qed.

Theorem cached_C14_errs_iff_parsed m ctx fs ts :
  m_ext m = false ->
  Forall2 (fun f t => parse_formula ea false f = Ok t) fs ts ->
  ((exists e, model_check ea w k m ctx fs = Err e)
   <-> List.Exists (fun t => ~ well_scoped names [] t \/ k < qdepth t) ts).
Proof.
  intros He P. split.
  - intros [e H]. apply (cached_C14_err_iff_parsed m ctx fs ts e He P) in H.
    destruct H as [ts1 [t [ts2 [-> [_ R]]]]]. apply Exists_app. right. apply Exists_cons_hd.
    apply tree_rejected_iff. exists e. exact R.
  - intro EX. destruct (cached_C14_cases m ctx fs He) as [(rs & _ & _ & AC) | (e & E & _)];
      [|exists e; exact E].
    exfalso. clear - EX AC P. induction P as [|f t fs ts HP _ IH]; [inversion EX|].
    inversion AC as [|? ? [t0 [HP0 [WS LE]]] AC']; subst.
    assert (t0 = t) as -> by congruence.
    inversion EX as [? ? [N | GT] | ? ? EX']; subst; [contradiction | lia | auto].
Qed.

End PlainNoPanic.


(** * 3. The extended mode: wild-card propositions and quantifier domains *)

Lemma ctx_ignores_copies_iff (Gamma : str -> val -> Prop) : ctx_ignores_copies Gamma ->
  forall l v w, (forall j, v (TP j) = w (TP j)) -> (forall i, v (TS i) = w (TS i)) ->
    (Gamma l v <-> Gamma l w).
Proof.
  intros Gx l v w H1 H2. split; apply Gx; intros [j|i|i e] X; try discriminate X; auto.
Qed.

Lemma mapM_ok_or_panic {A B} (f : A -> res B) (p0 : panicsite) l :
  (forall x, In x l -> (exists r, f x = Ok r) \/ f x = Panic p0) ->
  (exists rs, mapM f l = Ok rs /\ length rs = length l) \/ mapM f l = Panic p0.
Proof.
  induction l as [|x l IH]; intro K; cbn [mapM].
  - left. exists []. split; reflexivity.
  - destruct (K x (or_introl eq_refl)) as [[r ->] | ->]; cbn [bind]; [|right; reflexivity].
    destruct IH as [(rs & -> & LEN) | ->]; cbn [bind].
    + intros y IN. apply K. right. exact IN.
    + left. exists (r :: rs). split; [reflexivity | cbn [length]; lia].
    + right. reflexivity.
Qed.

Section ExtWorld.
Variable ea : N -> bool.
Variable w : world.
Variable k : nat.
Hypothesis WOK : world_ok w.
Let upd_ok : List.Forall (shaped (Lpn (w_p w) (w_n w))) (w_upd w) := proj1 WOK.
Let unit_ok : shaped (Lpn (w_p w) (w_n w)) (w_unit w) := proj1 (proj2 WOK).
Let unit_colour : forall v v', (forall j, v (TP j) = v' (TP j)) ->
  mem (Lpn (w_p w) (w_n w)) (w_unit w) v = mem (Lpn (w_p w) (w_n w)) (w_unit w) v' :=
  proj1 (proj2 (proj2 WOK)).
Let names_ok : length (w_names w) <= w_n w := proj2 (proj2 (proj2 WOK)).
Variable cprops cdoms : list (str * tt).
Variable Gamma : str -> val -> Prop.

Local Notation G := (genv_of w k).
Local Notation U := (unit_of w k).
Local Notation names := (w_names w).
Local Notation wild := (wild_of w k cprops).
Local Notation doms := (doms_of w k cprops cdoms).
Local Notation swm m := {| use_patterns := negb (m_nopatterns m) |}.
Local Notation topx := (topx ea G names wild doms).
Local Notation pevx m := (peval_ext G names (swm m) (steady_of G U) wild doms).

Hypothesis Gx : ctx_ignores_copies Gamma.
Hypothesis wild_ok : wild_sets_ok G Gamma wild.
Hypothesis doms_ok : dom_sets_ok G Gamma doms.

Let WF : wf_env G names U := world_wf w k upd_ok unit_ok unit_colour names_ok.

Local Notation ctmX := (check_trees_mapX ea w k upd_ok unit_ok unit_colour names_ok cprops cdoms
                          Gamma Gx wild_ok doms_ok).

Lemma ct_ext_single m ts rs :
  m_ext m = true -> m_unsafe_ex m = false -> List.Forall topx ts ->
  check_trees w k m ts cprops cdoms = Ok rs ->
  List.Forall2 (fun t R => singleX w k cprops cdoms m t = Ok R) ts rs.
Proof. intros He Hu F H. rewrite (ctmX m ts He Hu F) in H. apply mapM_Forall2, H. Qed.

Lemma ct_ext_peval m ts rs :
  m_ext m = true -> m_unsafe_ex m = false -> m_sanitize m = false -> List.Forall topx ts ->
  check_trees w k m ts cprops cdoms = Ok rs ->
  List.Forall2 (fun t R => pevx m t U = Ok R) ts rs.
Proof.
  intros He Hu Hs F H. eapply Forall2_weaken; [exact F | exact (ct_ext_single m ts rs He Hu F H)|].
  intros t R _ E. unfold singleX in E. rewrite Hs in E.
  destruct (pevx m t U); cbn [bind] in E; congruence.
Qed.

Lemma topx_peval_ext_total sw t : topx t ->
  exists R, peval_ext G names sw (steady_of G U) wild doms t U = Ok R /\ shaped (g_L G) R.
Proof.
  intros ((_ & KN & SUP) & _ & _).
  apply (peval_ext_total G names sw (steady_of G U) wild doms (wf_nodup _ _ _ WF) (wf_upd_shaped _ _ _ WF)).
  - apply shaped_steady_of; [apply (wf_upd_shaped _ _ _ WF) | apply (wf_U_shaped _ _ _ WF)].
  - intros l s E. exact (proj1 (wild_ok l s E)).
  - intros l s E. exact (proj1 (doms_ok l s E)).
  - apply (wf_U_shaped _ _ _ WF).
  - exact KN.
  - exact SUP.
Qed.

(** the context sets do not read the spare copies *)
Lemma ext_wild_hok e l s : alookup str_eqb l wild = Some s -> hok G e s.
Proof.
  intro E. destruct (wild_ok l s E) as [SS HM]. apply hok_extras_indep; [exact SS|].
  intros v v' H. apply bool_eq_iff. rewrite (HM v), (HM v'). split; apply Gx; intros g Hg;
    [|symmetry]; apply H, Hg.
Qed.

Lemma ext_doms_hok e l s : alookup str_eqb l doms = Some s -> hok G e s.
Proof.
  intro E. destruct (doms_ok l s E) as (SS & X & _). apply hok_extras_indep; assumption.
Qed.

(** the raw result of a closed extended formula does not read the spare copies at all *)
Theorem topx_result_extras_indep sw t R : topx t ->
  peval_ext G names sw (steady_of G U) wild doms t U = Ok R ->
  indep_dropped not_extra (g_L G) R.
Proof.
  intros ((_ & KN & SUP) & DN & _) E.
  apply (all_copies_indep (w_p w) (w_n w) k R). intros e v v' H.
  assert (avoids_copy G e t) as AV.
  { unfold avoids_copy. eapply copies_ok_mono; [|exact (depth_named_closed_copies G t DN)]. intros e' []. }
  exact (proj2 (peval_ext_hok G names U WF sw wild doms e (steady_of G U)
                  (hok_steady_of G names U WF e U (hok_top G names U WF e))
                  (ext_wild_hok e) (ext_doms_hok e)
                  t U R (hok_top G names U WF e) KN SUP AV E) v v' H).
Qed.

(** ... so it can be sanitised, and the sanitised set has the same members *)
Theorem topx_result_sanitize sw t R : topx t ->
  peval_ext G names sw (steady_of G U) wild doms t U = Ok R ->
  exists S, sanitize G R = Ok S /\ shaped (filter not_extra (g_L G)) S /\
            forall v, mem (filter not_extra (g_L G)) S v = mem (g_L G) R v.
Proof.
  intros TX E. destruct (topx_peval_ext_total sw t TX) as (R' & E' & SH).
  assert (R' = R) as -> by congruence.
  destruct (restrict_indep_Some not_extra (g_L G) R (wf_nodup _ _ _ WF) SH
              (topx_result_extras_indep sw t R TX E)) as (S & ES & X).
  exists S. unfold sanitize. rewrite ES. auto.
Qed.

(** ** C02 / C10 *)

Theorem cached_C02_check_trees m ts rs :
  m_ext m = true -> m_sanitize m = false -> m_unsafe_ex m = false ->
  List.Forall topx ts -> check_trees w k m ts cprops cdoms = Ok rs ->
  List.Forall2 (fun t R => shaped (g_L G) R /\
     forall v, mem (g_L G) U v = true -> (mem (g_L G) R v = true <-> sat G names Gamma t v)) ts rs.
Proof.
  intros He Hs Hu F H. eapply Forall2_weaken; [exact F | exact (ct_ext_peval m ts rs He Hu Hs F H)|].
  intros t R (_ & _ & SC) E.
  exact (peval_ext_correct G names U WF Gamma _ wild doms wild_ok doms_ok t R SC E).
Qed.

(** ** C03 *)

(** inside the unit the result is exact: its intersection with the unit is the set of the
    valuations of the unit that satisfy the formula *)
Theorem cached_C03_ext_in_unit m ts rs :
  m_ext m = true -> m_sanitize m = false -> m_unsafe_ex m = false ->
  List.Forall topx ts -> check_trees w k m ts cprops cdoms = Ok rs ->
  List.Forall2 (fun t R => forall v,
     mem (g_L G) (tand R U) v = true <-> (mem (g_L G) U v = true /\ sat G names Gamma t v)) ts rs.
Proof.
  intros He Hs Hu F H.
  pose proof (cached_C02_check_trees m ts rs He Hs Hu F H) as F2.
  clear - F2 WF. induction F2 as [|t R ts rs [SH E] _ IH]; constructor; [|exact IH].
  intro v. rewrite (mem_tand (g_L G) R U v SH (wf_U_shaped _ _ _ WF)), andb_true_iff.
  split.
  - intros [A B]. split; [exact B | apply (E v B), A].
  - intros [B S]. split; [apply (E v B), S | exact B].
Qed.

Theorem cached_C03_ext_closed_ignores_copies m ts rs :
  m_ext m = true -> m_sanitize m = false -> m_unsafe_ex m = false ->
  List.Forall topx ts -> check_trees w k m ts cprops cdoms = Ok rs ->
  List.Forall (fun R => forall v v',
                 (forall j, v (TP j) = v' (TP j)) -> (forall i, v (TS i) = v' (TS i)) ->
                 mem (g_L G) R v = mem (g_L G) R v') rs.
Proof.
  intros He Hs Hu F H.
  assert (List.Forall2 (fun (_ : tree) R => forall v v',
            (forall j, v (TP j) = v' (TP j)) -> (forall i, v (TS i) = v' (TS i)) ->
            mem (g_L G) R v = mem (g_L G) R v') ts rs) as F3.
  { eapply Forall2_weaken; [exact F | exact (ct_ext_peval m ts rs He Hu Hs F H)|].
    intros t R TX E v v' H1 H2. apply (topx_result_extras_indep _ t R TX E).
    intros [j|i|i e] X; [apply H1 | apply H2 | discriminate X]. }
  clear - F3. induction F3; constructor; assumption.
Qed.

(** ** C12: inside the unit the pattern switch is irrelevant *)

Theorem cached_C12_ext_in_unit m m' ts rs rs' :
  m_ext m = true -> m_ext m' = true -> m_sanitize m = false -> m_sanitize m' = false ->
  m_unsafe_ex m = false -> m_unsafe_ex m' = false ->
  List.Forall topx ts ->
  check_trees w k m ts cprops cdoms = Ok rs -> check_trees w k m' ts cprops cdoms = Ok rs' ->
  List.Forall2 (fun R R' => forall v, mem (g_L G) U v = true -> mem (g_L G) R v = mem (g_L G) R' v) rs rs'.
Proof.
  intros He He' Hs Hs' Hu Hu' F H H'.
  eapply Forall2_join; [exact F | exact (cached_C02_check_trees m ts rs He Hs Hu F H)
                        | exact (cached_C02_check_trees m' ts rs' He' Hs' Hu' F H') |].
  intros t R R' _ [_ E] [_ E'] v Hv.
  destruct (mem (g_L G) R v) eqn:A; destruct (mem (g_L G) R' v) eqn:B; try reflexivity.
  - apply (E v Hv), (E' v Hv) in A. congruence.
  - apply (E' v Hv), (E v Hv) in B. congruence.
Qed.

(** ** C14: [check_trees] on validated extended trees *)

Theorem cached_C14_ext_check_trees_total m ts :
  m_ext m = true -> m_unsafe_ex m = false -> List.Forall topx ts ->
  exists rs, check_trees w k m ts cprops cdoms = Ok rs /\ length rs = length ts.
Proof.
  intros He Hu F. rewrite (ctmX m ts He Hu F).
  induction F as [|t ts FT _ (rs & IH & LEN)]; cbn [mapM].
  - exists []. split; reflexivity.
  - destruct (topx_peval_ext_total (swm m) t FT) as (R & E & _).
    unfold singleX at 1. rewrite E. cbn [bind]. rewrite IH.
    destruct (m_sanitize m).
    + destruct (topx_result_sanitize (swm m) t R FT E) as (S & -> & _). cbn [bind].
      exists (S :: rs). split; [reflexivity | cbn [length]; lia].
    + cbn [bind]. exists (R :: rs). split; [reflexivity | cbn [length]; lia].
Qed.

(** ** C15 for extended formulae: sanitised = raw *)

Theorem cached_C15_ext_sanitize_eq_raw m m' ts rs :
  m_ext m = true -> m_ext m' = true -> m_unsafe_ex m = false -> m_unsafe_ex m' = false ->
  m_sanitize m = false -> m_sanitize m' = true -> m_nopatterns m = m_nopatterns m' ->
  List.Forall topx ts ->
  check_trees w k m ts cprops cdoms = Ok rs ->
  exists ss, check_trees w k m' ts cprops cdoms = Ok ss
    /\ List.Forall2 (fun R S => shaped (filter not_extra (g_L G)) S /\
                       forall v, mem (filter not_extra (g_L G)) S v = mem (g_L G) R v) rs ss.
Proof.
  intros He He' Hu Hu' Hs Hs' Hp F H.
  pose proof (ct_ext_peval m ts rs He Hu Hs F H) as F2.
  rewrite (ctmX m' ts He' Hu' F). clear H.
  induction F2 as [|t R ts rs E _ IH]; cbn [mapM].
  - exists []. split; [reflexivity | constructor].
  - inversion F as [|? ? FT F']; subst. destruct (IH F') as (ss & -> & B).
    unfold singleX at 1. rewrite <- Hp, E, Hs'. cbn [bind].
    destruct (topx_result_sanitize (swm m) t R FT E) as (S & -> & SH & HM). cbn [bind].
    exists (S :: ss). split; [reflexivity|]. constructor; [split; assumption | exact B].
Qed.

End ExtWorld.

Theorem closed_ext_result_ignores_copies :
  forall ea (w : world) (k : nat), world_ok w ->
  forall cprops cdoms (Gamma : str -> val -> Prop),
    ctx_ignores_copies Gamma ->
    wild_sets_ok (genv_of w k) Gamma (wild_of w k cprops) ->
    dom_sets_ok (genv_of w k) Gamma (doms_of w k cprops cdoms) ->
  forall sw t R,
    topx ea (genv_of w k) (w_names w) (wild_of w k cprops) (doms_of w k cprops cdoms) t ->
    peval_ext (genv_of w k) (w_names w) sw (steady_of (genv_of w k) (unit_of w k))
              (wild_of w k cprops) (doms_of w k cprops cdoms) t (unit_of w k) = Ok R ->
    (forall v v', (forall g, is_extra_tag g = false -> v g = v' g) ->
       mem (g_L (genv_of w k)) R v = mem (g_L (genv_of w k)) R v')
    /\ exists S, sanitize (genv_of w k) R = Ok S.
Proof.
  intros ea w k WOK cprops cdoms Gamma Gx WO DO sw t R TX E. split.
  - intros v v' H. apply (topx_result_extras_indep ea w k WOK cprops cdoms Gamma Gx WO DO sw t R TX E).
    intros g Hg. apply H. unfold not_extra in Hg. apply negb_true_iff in Hg. exact Hg.
  - destruct (topx_result_sanitize ea w k WOK cprops cdoms Gamma Gx WO DO sw t R TX E) as (S & ES & _).
    exists S. exact ES.
Qed.

(** ** the extended string entry point: validation, classified *)

Section ValidateXCases.
Variable ea : N -> bool.
Variable props : list str.
Variable k : nat.
Variable ctx : list (str * tt).

(** every label of the formula (wild-card proposition or domain) is bound in the context *)
Definition labels_known (t : tree) : Prop :=
  forall l, has_wild l t \/ has_dom l t -> alookup str_eqb l ctx <> None.
Definition label_missing (t : tree) : Prop :=
  exists l, (has_wild l t \/ has_dom l t) /\ alookup str_eqb l ctx = None.

Lemma labels_known_not_missing t : labels_known t -> ~ label_missing t.
Proof. intros K (l & H & N). exact (K l H N). Qed.

Lemma labels_known_rename t scope : labels_known (rename scope t) <-> labels_known t.
Proof.
  unfold labels_known. split; intros K l H; apply K; revert H;
    rewrite (has_wild_rename l t scope), (has_dom_rename l t scope); tauto.
Qed.

Lemma label_missing_rename t scope : label_missing (rename scope t) <-> label_missing t.
Proof.
  unfold label_missing. split; intros (l & H & N); exists l; (split; [|exact N]); revert H;
    rewrite (has_wild_rename l t scope), (has_dom_rename l t scope); tauto.
Qed.

Lemma pick_context_cases labels :
  (exists r, pick_context labels ctx = Ok r /\ forall l, In l labels -> alookup str_eqb l ctx <> None)
  \/ (pick_context labels ctx = Err EMissingContext
      /\ exists l, In l labels /\ alookup str_eqb l ctx = None).
Proof.
  induction labels as [|l labels IH]; cbn [pick_context].
  - left. exists []. split; [reflexivity | intros l []].
  - destruct (alookup str_eqb l ctx) as [s|] eqn:E.
    + destruct IH as [(r & -> & K) | (-> & l' & IN & N)]; cbn [bind].
      * left. eexists. split; [reflexivity|]. intros l0 [<- | IN]; [congruence | apply K, IN].
      * right. split; [reflexivity|]. exists l'. split; [right; exact IN | exact N].
    + right. split; [reflexivity|]. exists l. split; [left; reflexivity | exact E].
Qed.

Lemma collect_wild_inv t : forall acc,
  (forall l, In l (fst (collect_wild t acc)) -> has_wild l t \/ In l (fst acc))
  /\ (forall l, In l (snd (collect_wild t acc)) -> has_dom l t \/ In l (snd acc)).
Proof.
  induction t as [a | o c IH | o a IHa b IHb | o x d c IH]; intro acc; cbn [collect_wild has_wild has_dom].
  - destruct a as [nm | y | | | p]; cbn [fst snd]; try (split; intros l H; right; exact H).
    split.
    + intros l H. apply in_add_unique in H. destruct H as [-> | H]; [left; reflexivity | right; exact H].
    + intros l H. right. exact H.
  - apply IH.
  - destruct (IHa acc) as [A1 A2]. destruct (IHb (collect_wild a acc)) as [B1 B2]. split.
    + intros l H. destruct (B1 l H) as [X | X]; [left; right; exact X|].
      destruct (A1 l X) as [Y | Y]; [left; left; exact Y | right; exact Y].
    + intros l H. destruct (B2 l H) as [X | X]; [left; right; exact X|].
      destruct (A2 l X) as [Y | Y]; [left; left; exact Y | right; exact Y].
  - destruct (IH (match d with Some l => (fst acc, add_unique l (snd acc)) | None => acc end)) as [A1 A2].
    split.
    + intros l H. destruct (A1 l H) as [X | X]; [left; exact X | right; destruct d; exact X].
    + intros l H. destruct (A2 l H) as [X | X]; [left; right; exact X|].
      destruct d as [dl|]; [|right; exact X]. cbn [snd] in X. apply in_add_unique in X.
      destruct X as [-> | X]; [left; left; reflexivity | right; exact X].
Qed.

Lemma divide_cases t :
  (exists cp cd, divide_wild_cards t ctx = Ok (cp, cd) /\ labels_known t)
  \/ (divide_wild_cards t ctx = Err EMissingContext /\ label_missing t).
Proof.
  unfold divide_wild_cards.
  destruct (collect_wild_spec t ([], [])) as [W1 W2]. destruct (collect_wild_inv t ([], [])) as [I1 I2].
  destruct (collect_wild t ([], [])) as [ps ds]. cbn [fst snd] in *.
  destruct (pick_context_cases ps) as [(cp & -> & K1) | (-> & l & IN & N)]; cbn [bind].
  - destruct (pick_context_cases ds) as [(cd & -> & K2) | (-> & l & IN & N)]; cbn [bind].
    + left. exists cp, cd. split; [reflexivity|].
      intros l [H | H]; [apply K1, W1 | apply K2, W2]; left; exact H.
    + right. split; [reflexivity|]. exists l. split; [|exact N].
      destruct (I2 l IN) as [H | []]. right. exact H.
  - right. split; [reflexivity|]. exists l. split; [|exact N].
    destruct (I1 l IN) as [H | []]. left. exact H.
Qed.

(** verdict on a formula string (extended syntax) *)
Definition acceptedx (f : str) : Prop :=
  exists t, parse_formula ea true f = Ok t /\ tree_ok props k t /\ labels_known t.

Definition rejectedx (f : str) (e : errkind) : Prop :=
  (tokenize ea true f = Err ELex /\ e = ELex)
  \/ (exists ts, tokenize ea true f = Ok ts /\ parse_tokens ts = Err EParse /\ e = EParse)
  \/ (exists t, parse_formula ea true f = Ok t
                /\ (tree_rejected props k t e
                    \/ (tree_ok props k t /\ label_missing t /\ e = EMissingContext))).

(** one round of [validate_all] for the extended entry points *)
Definition validate_onex (f : str) : res (tree * list (str * tt) * list (str * tt)) :=
  let* t := parse_and_minimize ea true props f in
  if Nat.ltb k (num_hctl_vars t) then Err EVarSupport
  else let* (cp, cd) := divide_wild_cards t ctx in Ok (t, cp, cd).

Lemma validate_all_consx f rest :
  validate_all ea true props k ctx (f :: rest) =
  let* (tc, cd) := validate_onex f in
  let* (tsp, ds) := validate_all ea true props k ctx rest in
  Ok (fst tc :: fst tsp, snd tc ++ snd tsp, cd ++ ds).
Proof.
  cbn [validate_all]. unfold validate_onex.
  destruct (parse_and_minimize ea true props f) as [t| | |]; cbn [bind]; try reflexivity.
  destruct (Nat.ltb k (num_hctl_vars t)); [reflexivity|].
  destruct (divide_wild_cards t ctx) as [[cp cd]| | |]; cbn [bind fst snd]; reflexivity.
Qed.

Lemma validate_onex_accepts f t :
  parse_formula ea true f = Ok t -> tree_ok props k t -> labels_known t ->
  exists cp cd, validate_onex f = Ok (rename [] t, cp, cd).
Proof.
  intros HP [WS LE] LK. unfold validate_onex, parse_and_minimize. rewrite HP. cbn [bind].
  rewrite (proj2 (preprocess_ok_iff props t (rename [] t)) (conj WS eq_refl)). cbn [bind].
  rewrite num_hctl_vars_rename. destruct (Nat.ltb_spec k (qdepth t)); [lia|].
  destruct (divide_cases (rename [] t)) as [(cp & cd & -> & _) | (_ & M)]; cbn [bind].
  - exists cp, cd. reflexivity.
  - exfalso. exact (labels_known_not_missing t LK (proj1 (label_missing_rename t []) M)).
Qed.

Lemma validate_onex_rejects f e : rejectedx f e -> validate_onex f = Err e.
Proof.
  unfold validate_onex, parse_and_minimize.
  intros [[HT ->] | [[ts [HT [HP ->]]] | [t [HP [[V | [WS [GT ->]]] | [[WS LE] [M ->]]]]]]].
  - unfold parse_formula. rewrite HT. reflexivity.
  - unfold parse_formula. rewrite HT. cbn [bind]. rewrite HP. reflexivity.
  - rewrite HP. cbn [bind]. rewrite (proj2 (preprocess_err_iff props t e) V). reflexivity.
  - rewrite HP. cbn [bind].
    rewrite (proj2 (preprocess_ok_iff props t (rename [] t)) (conj WS eq_refl)). cbn [bind].
    rewrite num_hctl_vars_rename. destruct (Nat.ltb_spec k (qdepth t)); [reflexivity | lia].
  - rewrite HP. cbn [bind].
    rewrite (proj2 (preprocess_ok_iff props t (rename [] t)) (conj WS eq_refl)). cbn [bind].
    rewrite num_hctl_vars_rename. destruct (Nat.ltb_spec k (qdepth t)); [lia|].
    destruct (divide_cases (rename [] t)) as [(cp & cd & _ & LK) | (-> & _)]; [|reflexivity].
    exfalso. exact (labels_known_not_missing t (proj1 (labels_known_rename t []) LK) M).
Qed.

Lemma classifyx f : acceptedx f \/ exists e, rejectedx f e.
Proof.
  destruct (parse_formula_cases ea true f) as [[ts [t [HT [HP HF]]]] | [[HT HF] | [ts [HT [HP HF]]]]].
  - destruct (tree_ok_or_rejected props k t) as [OK | [e R]].
    + destruct (divide_cases t) as [(cp & cd & _ & LK) | (_ & M)].
      * left. exists t. auto.
      * right. exists EMissingContext. right. right. exists t. split; [exact HF|]. right. auto.
    + right. exists e. right. right. exists t. auto.
  - right. exists ELex. left. auto.
  - right. exists EParse. right. left. exists ts. auto.
Qed.

Lemma acceptedx_not_rejectedx f e : acceptedx f -> ~ rejectedx f e.
Proof.
  intros (t & HP & OK & LK) RJ. apply validate_onex_rejects in RJ.
  destruct (validate_onex_accepts f t HP OK LK) as (cp & cd & E). rewrite E in RJ. discriminate RJ.
Qed.

Lemma rejectedx_unique f e e' : rejectedx f e -> rejectedx f e' -> e = e'.
Proof. intros R R'. apply validate_onex_rejects in R, R'. congruence. Qed.

Lemma rejectedx_class f e : rejectedx f e ->
  e = ELex \/ e = EParse \/ e = EFreeVar \/ e = ERequantified \/ e = EUnknownProp
  \/ e = EVarSupport \/ e = EMissingContext.
Proof.
  intros [[_ ->] | [[ts [_ [_ ->]]] | [t [_ [[V | [_ [_ ->]]] | [_ [_ ->]]]]]]]; auto 10.
  destruct (scope_violation_class _ _ _ _ V) as [-> | [-> | ->]]; auto 10.
Qed.

Theorem validate_all_casesx fs :
  (exists ts cp cd, validate_all ea true props k ctx fs = Ok (ts, cp, cd)
                    /\ length ts = length fs /\ List.Forall acceptedx fs)
  \/ (exists e, validate_all ea true props k ctx fs = Err e
                /\ first_reject acceptedx rejectedx fs e).
Proof.
  induction fs as [|f rest IH].
  - left. exists [], [], []. split; [reflexivity|]. split; [reflexivity | constructor].
  - rewrite validate_all_consx. destruct (classifyx f) as [AC | [e RJ]].
    + pose proof AC as (t & HP & OK & LK).
      destruct (validate_onex_accepts f t HP OK LK) as (cp & cd & ->). cbn [bind].
      destruct IH as [(ts & cp' & cd' & -> & LEN & F) | (e & -> & FR)]; cbn [bind fst snd].
      * left. do 3 eexists. split; [reflexivity|]. split; [cbn [length]; lia | constructor; assumption].
      * right. exists e. split; [reflexivity | apply FR_later; assumption].
    + rewrite (validate_onex_rejects f e RJ). right. exists e. split; [reflexivity | apply FR_here, RJ].
Qed.

Lemma first_reject_validatex fs e :
  first_reject acceptedx rejectedx fs e -> validate_all ea true props k ctx fs = Err e.
Proof.
  induction 1 as [f rest e RJ | f rest e (t & HP & OK & LK) _ IH]; rewrite validate_all_consx.
  - rewrite (validate_onex_rejects f e RJ). reflexivity.
  - destruct (validate_onex_accepts f t HP OK LK) as (cp & cd & ->). cbn [bind]. rewrite IH. reflexivity.
Qed.

Lemma all_accepted_no_reject fs e :
  List.Forall acceptedx fs -> ~ first_reject acceptedx rejectedx fs e.
Proof.
  intros AC FR. induction FR as [f l e RJ | f l e _ _ IH].
  - inversion AC; subst. eapply acceptedx_not_rejectedx; eassumption.
  - inversion AC; subst. apply IH. assumption.
Qed.

(** with every formula parsed: the verdicts are those of the trees *)
Definition treex_ok (t : tree) : Prop := tree_ok props k t /\ labels_known t.
Definition treex_rejected (t : tree) (e : errkind) : Prop :=
  tree_rejected props k t e \/ (tree_ok props k t /\ label_missing t /\ e = EMissingContext).

Lemma first_reject_parsedx fs ts e :
  Forall2 (fun f t => parse_formula ea true f = Ok t) fs ts ->
  (first_reject acceptedx rejectedx fs e <-> first_reject treex_ok treex_rejected ts e).
Proof.
  induction 1 as [|f t fs ts HP _ IH].
  - split; intro H; inversion H.
  - assert (PF := HP). unfold parse_formula in PF.
    split; intro H; inversion H as [x l e0 RJ | x l e0 OK FR]; subst.
    + apply FR_here. destruct RJ as [[HT _] | [[tk [HT [HPk _]]] | [t0 [HP0 R]]]].
      * rewrite HT in PF. discriminate PF.
      * rewrite HT in PF. cbn [bind] in PF. congruence.
      * assert (t0 = t) as -> by congruence. exact R.
    + apply FR_later; [|apply IH, FR]. destruct OK as [t0 [HP0 OK]].
      assert (t0 = t) as -> by congruence. exact OK.
    + apply FR_here. right. right. exists t. auto.
    + apply FR_later; [exists t; destruct OK; auto | apply IH, FR].
Qed.

End ValidateXCases.

(** ** the extended string entry point *)

Section ExtEntry.
Variable ea : N -> bool.
Variable w : world.
Variable k : nat.
Hypothesis WOK : world_ok w.
Let upd_ok : List.Forall (shaped (Lpn (w_p w) (w_n w))) (w_upd w) := proj1 WOK.
Let unit_ok : shaped (Lpn (w_p w) (w_n w)) (w_unit w) := proj1 (proj2 WOK).
Let unit_colour : forall v v', (forall j, v (TP j) = v' (TP j)) ->
  mem (Lpn (w_p w) (w_n w)) (w_unit w) v = mem (Lpn (w_p w) (w_n w)) (w_unit w) v' :=
  proj1 (proj2 (proj2 WOK)).
Let names_ok : length (w_names w) <= w_n w := proj2 (proj2 (proj2 WOK)).
Variable ctx : list (str * tt).
Hypothesis ctx_shaped : forall l s, alookup str_eqb l ctx = Some s -> shaped (Lpn (w_p w) (w_n w)) s.

Local Notation G := (genv_of w k).
Local Notation U := (unit_of w k).
Local Notation names := (w_names w).
(** the meaning of the labels: membership in the user's sets (lifted to the spare copies) *)
Local Notation GammaC := (Gamma_of G (ctx_lifted w k ctx)).
Local Notation parsedx fs ts :=
  (List.Forall2 (fun f t => parse_and_minimize ea true names f = Ok t) fs ts).
Local Notation acceptedx := (acceptedx ea names k ctx).
Local Notation rejectedx := (rejectedx ea names k ctx).

Lemma ext_entry_hyps fs ts cp cd :
  validate_all ea true names k ctx fs = Ok (ts, cp, cd) ->
  ctx_ignores_copies GammaC
  /\ wild_sets_ok G GammaC (wild_of w k cp)
  /\ dom_sets_ok G GammaC (doms_of w k cp cd)
  /\ List.Forall (topx ea G names (wild_of w k cp) (doms_of w k cp cd)) ts.
Proof.
  intro V. destruct (validate_all_ext_spec ea names k ctx fs ts cp cd V) as (F & C1 & C2).
  pose proof (ctx_lifted_ok w k ctx ctx_shaped) as CO.
  split; [apply Gamma_of_ignores_copies, CO|].
  split; [apply (picked_wild_ok _ _ CO), (wild_picked w k ctx cp C1)|].
  split; [apply (picked_doms_ok _ _ CO), (doms_picked w k ctx cp cd C2)|].
  eapply Forall_impl; [|exact F]. intros t. apply validx_topx.
Qed.

Lemma model_check_ext_inv m fs rs :
  m_ext m = true -> model_check ea w k m ctx fs = Ok rs ->
  exists ts cp cd, validate_all ea true names k ctx fs = Ok (ts, cp, cd)
                   /\ check_trees w k m ts cp cd = Ok rs.
Proof.
  intros He H. unfold model_check in H. rewrite He in H.
  destruct (validate_all ea true names k ctx fs) as [[[ts cp] cd]| | |]; cbn [bind] in H; try discriminate.
  exists ts, cp, cd. auto.
Qed.

Theorem cached_C02_model_check m fs rs :
  m_ext m = true -> m_sanitize m = false -> m_unsafe_ex m = false ->
  model_check ea w k m ctx fs = Ok rs ->
  exists ts, parsedx fs ts /\
    List.Forall2 (fun t R => shaped (g_L G) R /\
       forall v, mem (g_L G) U v = true -> (mem (g_L G) R v = true <-> sat G names GammaC t v)) ts rs.
Proof.
  intros He Hs Hu H. destruct (model_check_ext_inv m fs rs He H) as (ts & cp & cd & V & C).
  destruct (ext_entry_hyps fs ts cp cd V) as (Gx & WO & DO & F).
  exists ts. split; [exact (validate_all_parsed _ _ _ _ _ _ _ _ _ V)|].
  exact (cached_C02_check_trees ea w k WOK cp cd GammaC Gx WO DO m ts rs
           He Hs Hu F C).
Qed.

Theorem cached_C03_ext_model_check m fs rs :
  m_ext m = true -> m_sanitize m = false -> m_unsafe_ex m = false ->
  model_check ea w k m ctx fs = Ok rs ->
  (exists ts, parsedx fs ts /\
     List.Forall2 (fun t R => forall v,
       mem (g_L G) (tand R U) v = true <-> (mem (g_L G) U v = true /\ sat G names GammaC t v)) ts rs)
  /\ List.Forall (fun R => forall v v',
                    (forall j, v (TP j) = v' (TP j)) -> (forall i, v (TS i) = v' (TS i)) ->
                    mem (g_L G) R v = mem (g_L G) R v') rs.
Proof.
  intros He Hs Hu H. destruct (model_check_ext_inv m fs rs He H) as (ts & cp & cd & V & C).
  destruct (ext_entry_hyps fs ts cp cd V) as (Gx & WO & DO & F). split.
  - exists ts. split; [exact (validate_all_parsed _ _ _ _ _ _ _ _ _ V)|].
    exact (cached_C03_ext_in_unit ea w k WOK cp cd GammaC Gx WO DO m ts rs
             He Hs Hu F C).
  - exact (cached_C03_ext_closed_ignores_copies ea w k WOK cp cd GammaC
             Gx WO DO m ts rs He Hs Hu F C).
Qed.

Theorem cached_C12_ext_model_check m m' fs rs rs' :
  m_ext m = true -> m_ext m' = true -> m_sanitize m = false -> m_sanitize m' = false ->
  m_unsafe_ex m = false -> m_unsafe_ex m' = false ->
  model_check ea w k m ctx fs = Ok rs -> model_check ea w k m' ctx fs = Ok rs' ->
  List.Forall2 (fun R R' => forall v, mem (g_L G) U v = true -> mem (g_L G) R v = mem (g_L G) R' v) rs rs'.
Proof.
  intros He He' Hs Hs' Hu Hu' H H'.
  destruct (model_check_ext_inv m fs rs He H) as (ts & cp & cd & V & C).
  destruct (model_check_ext_inv m' fs rs' He' H') as (ts' & cp' & cd' & V' & C').
  rewrite V in V'. injection V' as <- <- <-.
  destruct (ext_entry_hyps fs ts cp cd V) as (Gx & WO & DO & F).
  exact (cached_C12_ext_in_unit ea w k WOK cp cd GammaC Gx WO DO
           m m' ts rs rs' He He' Hs Hs' Hu Hu' F C C').
Qed.

(** ** C14, extended mode: sanitised or dirty *)

(** the outcome: one set per formula when every formula is accepted; otherwise the error of
    the first rejected formula *)
Theorem cached_C14_ext_cases m fs :
  m_ext m = true -> m_unsafe_ex m = false ->
  (exists rs, model_check ea w k m ctx fs = Ok rs /\ length rs = length fs
              /\ List.Forall acceptedx fs)
  \/ (exists e, model_check ea w k m ctx fs = Err e /\ first_reject acceptedx rejectedx fs e).
Proof.
  intros He Hu. unfold model_check. rewrite He.
  destruct (validate_all_casesx ea names k ctx fs) as [(ts & cp & cd & V & LEN & AC) | (e & -> & FR)];
    [|right; exists e; auto].
  destruct (ext_entry_hyps fs ts cp cd V) as (Gx & WO & DO & F). rewrite V. cbn [bind fst snd].
  destruct (cached_C14_ext_check_trees_total ea w k WOK cp cd GammaC Gx WO DO m ts He Hu F)
    as (rs & -> & L).
  left. exists rs. split; [reflexivity|]. split; [lia | exact AC].
Qed.

Theorem cached_C14_ext_no_panic m fs :
  m_ext m = true -> m_unsafe_ex m = false ->
  (forall p, model_check ea w k m ctx fs <> Panic p) /\ model_check ea w k m ctx fs <> OutOfFuel.
Proof.
  intros He Hu. destruct (cached_C14_ext_cases m fs He Hu) as [(rs & -> & _) | (e & -> & _)];
    split; try intro p; discriminate.
Qed.

(** an error exactly when some formula is rejected *)
Theorem cached_C14_ext_err_iff m fs e :
  m_ext m = true -> m_unsafe_ex m = false ->
  (model_check ea w k m ctx fs = Err e <-> first_reject acceptedx rejectedx fs e).
Proof.
  intros He Hu. split.
  - intro H. destruct (cached_C14_ext_cases m fs He Hu) as [(rs & E & _) | (e' & E & FR)];
      rewrite E in H; try discriminate. injection H as <-. exact FR.
  - intro FR. unfold model_check. rewrite He.
    rewrite (first_reject_validatex ea names k ctx fs e FR). reflexivity.
Qed.

Theorem cached_C14_ext_ok_iff m fs :
  m_ext m = true -> m_unsafe_ex m = false ->
  ((exists rs, model_check ea w k m ctx fs = Ok rs) <-> List.Forall acceptedx fs).
Proof.
  intros He Hu. split.
  - intros [rs H]. destruct (cached_C14_ext_cases m fs He Hu) as [(rs' & _ & _ & AC) | (e & E & _)];
      [exact AC | congruence].
  - intro AC. destruct (cached_C14_ext_cases m fs He Hu) as [(rs & E & _) | (e & _ & FR)];
      [exists rs; exact E|].
    exfalso. exact (all_accepted_no_reject ea names k ctx fs e AC FR).
Qed.

(** ** C15, extended mode: sanitised = raw *)
Theorem cached_C15_ext_model_check_sanitize_eq_raw m m' fs rs :
  m_ext m = true -> m_ext m' = true -> m_unsafe_ex m = false -> m_unsafe_ex m' = false ->
  m_sanitize m = false -> m_sanitize m' = true -> m_nopatterns m = m_nopatterns m' ->
  model_check ea w k m ctx fs = Ok rs ->
  exists ss, model_check ea w k m' ctx fs = Ok ss
    /\ List.Forall2 (fun R S => shaped (filter not_extra (g_L G)) S /\
                       forall v, mem (filter not_extra (g_L G)) S v = mem (g_L G) R v) rs ss.
Proof.
  intros He He' Hu Hu' Hs Hs' Hp H.
  destruct (model_check_ext_inv m fs rs He H) as (ts & cp & cd & V & C).
  destruct (ext_entry_hyps fs ts cp cd V) as (Gx & WO & DO & F).
  unfold model_check. rewrite He', V. cbn [bind fst snd].
  exact (cached_C15_ext_sanitize_eq_raw ea w k WOK cp cd GammaC Gx WO DO m m' ts rs
           He He' Hu Hu' Hs Hs' Hp F C).
Qed.

Theorem cached_C14_ext_err_iff_parsed m fs ts e :
  m_ext m = true -> m_unsafe_ex m = false ->
  Forall2 (fun f t => parse_formula ea true f = Ok t) fs ts ->
  (model_check ea w k m ctx fs = Err e
   <-> exists ts1 t ts2,
         ts = ts1 ++ t :: ts2
         /\ List.Forall (fun t1 => (well_scoped names [] t1 /\ qdepth t1 <= k)
                                   /\ labels_known ctx t1) ts1
         /\ ((scope_violation names [] t e
              \/ (well_scoped names [] t /\ k < qdepth t /\ e = EVarSupport))
             \/ ((well_scoped names [] t /\ qdepth t <= k) /\ label_missing ctx t
                 /\ e = EMissingContext))).
Proof.
  intros He Hu P. rewrite (cached_C14_ext_err_iff m fs e He Hu).
  rewrite (first_reject_parsedx ea names k ctx fs ts e P).
  apply first_reject_split.
Qed.

End ExtEntry.

(** * 4. C18 with both sides in the default configuration (duplicates marked) *)

Theorem cached_C18_fragment_check_trees_on (w : world) k m m' ts cp cd :
  m_nocache m = false -> m_nocache m' = false ->
  m_ext m = m_ext m' -> m_sanitize m = m_sanitize m' -> m_nopatterns m = m_nopatterns m' ->
  List.Forall in_fragment ts ->
  check_trees w k m ts cp cd = check_trees w k m' ts cp cd.
Proof. intros Hn Hn'. intros. apply cached_C18_fragment_check_trees; first [assumption | congruence]. Qed.

Theorem cached_C18_fragment_model_check_on ea (w : world) k m m' ctx fs :
  m_nocache m = false -> m_nocache m' = false ->
  m_ext m = m_ext m' -> m_sanitize m = m_sanitize m' -> m_nopatterns m = m_nopatterns m' ->
  (forall f t0, In f fs -> parse_formula ea (m_ext m) f = Ok t0 -> in_fragment t0) ->
  model_check ea w k m ctx fs = model_check ea w k m' ctx fs.
Proof. intros Hn Hn'. intros. apply cached_C18_fragment_model_check; first [assumption | congruence]. Qed.

Theorem cached_C18_no_steady_check_trees_on (w : world) k :
  world_ok w ->
  (forall v, mem (g_L (genv_of w k)) (unit_of w k) v = true -> ~ vsteady (genv_of w k) v) ->
  forall m m' ts cp cd,
  m_nocache m = false -> m_nocache m' = false ->
  m_ext m = m_ext m' -> m_sanitize m = m_sanitize m' -> m_nopatterns m = m_nopatterns m' ->
  check_trees w k m ts cp cd = check_trees w k m' ts cp cd.
Proof. intros WOK NS m m' ts cp cd Hn Hn'. intros. apply cached_C18_no_steady_check_trees; first [assumption | congruence]. Qed.

Theorem cached_C18_no_steady_model_check_on ea (w : world) k :
  world_ok w ->
  (forall v, mem (g_L (genv_of w k)) (unit_of w k) v = true -> ~ vsteady (genv_of w k) v) ->
  forall m m' ctx fs,
  m_nocache m = false -> m_nocache m' = false ->
  m_ext m = m_ext m' -> m_sanitize m = m_sanitize m' -> m_nopatterns m = m_nopatterns m' ->
  model_check ea w k m ctx fs = model_check ea w k m' ctx fs.
Proof. intros WOK NS m m' ctx fs Hn Hn'. intros. apply cached_C18_no_steady_model_check; first [assumption | congruence]. Qed.

(** * 5. The statements of Properties/Cached.v: both sides in the default configuration
    ([m_nocache = false]) *)

Lemma cached_C01_check_trees_on :
  forall ea ext (w : world) (k : nat), world_ok w ->
  forall (Gamma : str -> val -> Prop) m ts rs,
    m_ext m = false -> m_sanitize m = false -> m_unsafe_ex m = false -> m_nocache m = false ->
    List.Forall (good ea ext (genv_of w k) (w_names w)) ts ->
    check_trees w k m ts [] [] = Ok rs ->
    List.Forall2 (fun t R => forall v,
       mem (g_L (genv_of w k)) R v = true <->
       (mem (g_L (genv_of w k)) (unit_of w k) v = true /\ sat (genv_of w k) (w_names w) Gamma t v)) ts rs.
Proof. intros. eapply cached_C01_check_trees with (ea := ea) (ext := ext) (Gamma := Gamma) (m := m) (ts := ts) (rs := rs); eassumption. Qed.

Lemma cached_C01_model_check_on :
  forall ea (w : world) (k : nat), world_ok w ->
  forall (Gamma : str -> val -> Prop) m ctx fs rs,
    m_ext m = false -> m_sanitize m = false -> m_unsafe_ex m = false -> m_nocache m = false ->
    model_check ea w k m ctx fs = Ok rs ->
    exists ts,
      List.Forall2 (fun f t => parse_and_minimize ea false (w_names w) f = Ok t) fs ts
      /\ List.Forall2 (fun t R => forall v,
           mem (g_L (genv_of w k)) R v = true <->
           (mem (g_L (genv_of w k)) (unit_of w k) v = true /\ sat (genv_of w k) (w_names w) Gamma t v)) ts rs.
Proof. intros. eapply cached_C01_model_check with (ea := ea) (Gamma := Gamma) (m := m) (fs := fs) (ctx := ctx) (rs := rs); eassumption. Qed.

Lemma cached_C02_check_trees_on :
  forall ea (w : world) (k : nat), world_ok w ->
  forall cprops cdoms (Gamma : str -> val -> Prop),
    ctx_ignores_copies Gamma ->
    wild_sets_ok (genv_of w k) Gamma (wild_of w k cprops) ->
    dom_sets_ok (genv_of w k) Gamma (doms_of w k cprops cdoms) ->
  forall m ts rs,
    m_ext m = true -> m_sanitize m = false -> m_unsafe_ex m = false -> m_nocache m = false ->
    List.Forall (topx ea (genv_of w k) (w_names w) (wild_of w k cprops) (doms_of w k cprops cdoms)) ts ->
    check_trees w k m ts cprops cdoms = Ok rs ->
    List.Forall2 (fun t R => shaped (g_L (genv_of w k)) R /\
       forall v, mem (g_L (genv_of w k)) (unit_of w k) v = true ->
                 (mem (g_L (genv_of w k)) R v = true <-> sat (genv_of w k) (w_names w) Gamma t v)) ts rs.
Proof. intros. eapply cached_C02_check_trees with (ea := ea) (Gamma := Gamma) (m := m) (ts := ts) (cprops := cprops) (cdoms := cdoms) (rs := rs); eassumption. Qed.

Lemma cached_C02_model_check_on :
  forall ea (w : world) (k : nat), world_ok w ->
  forall ctx, (forall l s, alookup str_eqb l ctx = Some s -> shaped (Lpn (w_p w) (w_n w)) s) ->
  forall m fs rs,
    m_ext m = true -> m_sanitize m = false -> m_unsafe_ex m = false -> m_nocache m = false ->
    model_check ea w k m ctx fs = Ok rs ->
    exists ts,
      List.Forall2 (fun f t => parse_and_minimize ea true (w_names w) f = Ok t) fs ts
      /\ List.Forall2 (fun t R => shaped (g_L (genv_of w k)) R /\
           forall v, mem (g_L (genv_of w k)) (unit_of w k) v = true ->
             (mem (g_L (genv_of w k)) R v = true <->
              sat (genv_of w k) (w_names w) (Gamma_of (genv_of w k) (ctx_lifted w k ctx)) t v)) ts rs.
Proof. intros. eapply cached_C02_model_check with (ea := ea) (m := m) (fs := fs) (ctx := ctx) (rs := rs); eassumption. Qed.

Lemma cached_C10_check_trees_ext_empty_on :
  forall ea ext (w : world) (k : nat), world_ok w ->
  forall (Gamma : str -> val -> Prop) m ts rs,
    m_ext m = true -> m_sanitize m = false -> m_unsafe_ex m = false -> m_nocache m = false ->
    List.Forall (good ea ext (genv_of w k) (w_names w)) ts ->
    check_trees w k m ts [] [] = Ok rs ->
    List.Forall2 (fun t R => forall v,
       mem (g_L (genv_of w k)) R v = true <->
       (mem (g_L (genv_of w k)) (unit_of w k) v = true /\ sat (genv_of w k) (w_names w) Gamma t v)) ts rs.
Proof. intros. eapply cached_C10_check_trees_ext_empty with (ea := ea) (ext := ext) (Gamma := Gamma) (m := m) (ts := ts) (rs := rs); eassumption. Qed.

Lemma cached_C03_within_unit_on :
  forall ea ext (w : world) (k : nat), world_ok w ->
  forall m ts rs,
    m_ext m = false -> m_sanitize m = false -> m_unsafe_ex m = false -> m_nocache m = false ->
    List.Forall (good ea ext (genv_of w k) (w_names w)) ts ->
    check_trees w k m ts [] [] = Ok rs ->
    List.Forall (fun R => forall v,
       mem (g_L (genv_of w k)) R v = true -> mem (g_L (genv_of w k)) (unit_of w k) v = true) rs.
Proof. intros. eapply cached_C03_within_unit with (ea := ea) (ext := ext) (m := m) (ts := ts) (rs := rs); eassumption. Qed.

Lemma cached_C03_closed_ignores_copies_on :
  forall ea ext (w : world) (k : nat), world_ok w ->
  forall m ts rs,
    m_ext m = false -> m_sanitize m = false -> m_unsafe_ex m = false -> m_nocache m = false ->
    List.Forall (good ea ext (genv_of w k) (w_names w)) ts -> List.Forall (depth_named 0) ts ->
    check_trees w k m ts [] [] = Ok rs ->
    List.Forall (fun R => forall v v',
       (forall j, v (TP j) = v' (TP j)) -> (forall i, v (TS i) = v' (TS i)) ->
       mem (g_L (genv_of w k)) R v = mem (g_L (genv_of w k)) R v') rs.
Proof. intros. eapply cached_C03_closed_ignores_copies with (ea := ea) (ext := ext) (m := m) (ts := ts) (rs := rs); eassumption. Qed.

Lemma cached_C03_model_check_on :
  forall ea (w : world) (k : nat), world_ok w ->
  forall m ctx fs rs,
    m_ext m = false -> m_sanitize m = false -> m_unsafe_ex m = false -> m_nocache m = false ->
    model_check ea w k m ctx fs = Ok rs ->
    List.Forall (fun R =>
        (forall v, mem (g_L (genv_of w k)) R v = true -> mem (g_L (genv_of w k)) (unit_of w k) v = true)
        /\ (forall v v', (forall j, v (TP j) = v' (TP j)) -> (forall i, v (TS i) = v' (TS i)) ->
              mem (g_L (genv_of w k)) R v = mem (g_L (genv_of w k)) R v')) rs.
Proof. intros. eapply cached_C03_model_check with (ea := ea) (m := m) (fs := fs) (ctx := ctx) (rs := rs); eassumption. Qed.

Lemma cached_C03_ext_in_unit_on :
  forall ea (w : world) (k : nat), world_ok w ->
  forall cprops cdoms (Gamma : str -> val -> Prop),
    ctx_ignores_copies Gamma ->
    wild_sets_ok (genv_of w k) Gamma (wild_of w k cprops) ->
    dom_sets_ok (genv_of w k) Gamma (doms_of w k cprops cdoms) ->
  forall m ts rs,
    m_ext m = true -> m_sanitize m = false -> m_unsafe_ex m = false -> m_nocache m = false ->
    List.Forall (topx ea (genv_of w k) (w_names w) (wild_of w k cprops) (doms_of w k cprops cdoms)) ts ->
    check_trees w k m ts cprops cdoms = Ok rs ->
    List.Forall2 (fun t R => forall v,
       mem (g_L (genv_of w k)) (tand R (unit_of w k)) v = true <->
       (mem (g_L (genv_of w k)) (unit_of w k) v = true /\ sat (genv_of w k) (w_names w) Gamma t v)) ts rs.
Proof. intros. eapply cached_C03_ext_in_unit with (ea := ea) (Gamma := Gamma) (m := m) (ts := ts) (cprops := cprops) (cdoms := cdoms) (rs := rs); eassumption. Qed.

Lemma cached_C03_ext_closed_ignores_copies_on :
  forall ea (w : world) (k : nat), world_ok w ->
  forall cprops cdoms (Gamma : str -> val -> Prop),
    ctx_ignores_copies Gamma ->
    wild_sets_ok (genv_of w k) Gamma (wild_of w k cprops) ->
    dom_sets_ok (genv_of w k) Gamma (doms_of w k cprops cdoms) ->
  forall m ts rs,
    m_ext m = true -> m_sanitize m = false -> m_unsafe_ex m = false -> m_nocache m = false ->
    List.Forall (topx ea (genv_of w k) (w_names w) (wild_of w k cprops) (doms_of w k cprops cdoms)) ts ->
    check_trees w k m ts cprops cdoms = Ok rs ->
    List.Forall (fun R => forall v v',
       (forall j, v (TP j) = v' (TP j)) -> (forall i, v (TS i) = v' (TS i)) ->
       mem (g_L (genv_of w k)) R v = mem (g_L (genv_of w k)) R v') rs.
Proof. intros. eapply cached_C03_ext_closed_ignores_copies with (ea := ea) (Gamma := Gamma) (m := m) (ts := ts) (cprops := cprops) (cdoms := cdoms) (rs := rs); eassumption. Qed.

Lemma cached_C03_ext_model_check_on :
  forall ea (w : world) (k : nat), world_ok w ->
  forall ctx, (forall l s, alookup str_eqb l ctx = Some s -> shaped (Lpn (w_p w) (w_n w)) s) ->
  forall m fs rs,
    m_ext m = true -> m_sanitize m = false -> m_unsafe_ex m = false -> m_nocache m = false ->
    model_check ea w k m ctx fs = Ok rs ->
    (exists ts,
       List.Forall2 (fun f t => parse_and_minimize ea true (w_names w) f = Ok t) fs ts
       /\ List.Forall2 (fun t R => forall v,
            mem (g_L (genv_of w k)) (tand R (unit_of w k)) v = true <->
            (mem (g_L (genv_of w k)) (unit_of w k) v = true
             /\ sat (genv_of w k) (w_names w) (Gamma_of (genv_of w k) (ctx_lifted w k ctx)) t v)) ts rs)
    /\ List.Forall (fun R => forall v v',
          (forall j, v (TP j) = v' (TP j)) -> (forall i, v (TS i) = v' (TS i)) ->
          mem (g_L (genv_of w k)) R v = mem (g_L (genv_of w k)) R v') rs.
Proof. intros. eapply cached_C03_ext_model_check with (ea := ea) (m := m) (fs := fs) (ctx := ctx) (rs := rs); eassumption. Qed.

Lemma cached_C12_check_trees_on :
  forall ea ext (w : world) (k : nat), world_ok w ->
  forall m m' ts,
    m_ext m = false -> m_ext m' = false -> m_unsafe_ex m = false -> m_unsafe_ex m' = false ->
    m_nocache m = false -> m_nocache m' = false -> m_sanitize m = m_sanitize m' ->
    m_nopatterns m = false -> m_nopatterns m' = true ->
    List.Forall (good ea ext (genv_of w k) (w_names w)) ts ->
    check_trees w k m ts [] [] = check_trees w k m' ts [] [].
Proof. intros. eapply cached_C12_check_trees with (ea := ea) (ext := ext) (m := m) (m' := m') (ts := ts); eassumption. Qed.

Lemma cached_C12_model_check_on :
  forall ea (w : world) (k : nat), world_ok w ->
  forall m m' ctx fs,
    m_ext m = false -> m_ext m' = false -> m_unsafe_ex m = false -> m_unsafe_ex m' = false ->
    m_nocache m = false -> m_nocache m' = false -> m_sanitize m = m_sanitize m' ->
    m_nopatterns m = false -> m_nopatterns m' = true ->
    model_check ea w k m ctx fs = model_check ea w k m' ctx fs.
Proof. intros. eapply cached_C12_model_check with (ea := ea) (m := m) (m' := m') (fs := fs) (ctx := ctx); eassumption. Qed.

Lemma cached_C12_ext_in_unit_on :
  forall ea (w : world) (k : nat), world_ok w ->
  forall cprops cdoms (Gamma : str -> val -> Prop),
    ctx_ignores_copies Gamma ->
    wild_sets_ok (genv_of w k) Gamma (wild_of w k cprops) ->
    dom_sets_ok (genv_of w k) Gamma (doms_of w k cprops cdoms) ->
  forall m m' ts rs rs',
    m_ext m = true -> m_ext m' = true -> m_sanitize m = false -> m_sanitize m' = false ->
    m_unsafe_ex m = false -> m_unsafe_ex m' = false -> m_nocache m = false -> m_nocache m' = false ->
    m_nopatterns m = false -> m_nopatterns m' = true ->
    List.Forall (topx ea (genv_of w k) (w_names w) (wild_of w k cprops) (doms_of w k cprops cdoms)) ts ->
    check_trees w k m ts cprops cdoms = Ok rs -> check_trees w k m' ts cprops cdoms = Ok rs' ->
    List.Forall2 (fun R R' => forall v, mem (g_L (genv_of w k)) (unit_of w k) v = true ->
       mem (g_L (genv_of w k)) R v = mem (g_L (genv_of w k)) R' v) rs rs'.
Proof. intros. eapply cached_C12_ext_in_unit with (ea := ea) (Gamma := Gamma) (m := m) (m' := m') (ts := ts) (cprops := cprops) (cdoms := cdoms) (rs := rs) (rs' := rs'); eassumption. Qed.

Lemma cached_C12_ext_model_check_on :
  forall ea (w : world) (k : nat), world_ok w ->
  forall ctx, (forall l s, alookup str_eqb l ctx = Some s -> shaped (Lpn (w_p w) (w_n w)) s) ->
  forall m m' fs rs rs',
    m_ext m = true -> m_ext m' = true -> m_sanitize m = false -> m_sanitize m' = false ->
    m_unsafe_ex m = false -> m_unsafe_ex m' = false -> m_nocache m = false -> m_nocache m' = false ->
    m_nopatterns m = false -> m_nopatterns m' = true ->
    model_check ea w k m ctx fs = Ok rs -> model_check ea w k m' ctx fs = Ok rs' ->
    List.Forall2 (fun R R' => forall v, mem (g_L (genv_of w k)) (unit_of w k) v = true ->
       mem (g_L (genv_of w k)) R v = mem (g_L (genv_of w k)) R' v) rs rs'.
Proof. intros. eapply cached_C12_ext_model_check with (ea := ea) (m := m) (m' := m') (fs := fs) (ctx := ctx) (rs := rs) (rs' := rs'); eassumption. Qed.

Lemma cached_C14_no_panic_on :
  forall ea (w : world) (k : nat) m ctx fs,
    world_ok w -> m_ext m = false -> m_nocache m = false ->
    (forall p, model_check ea w k m ctx fs <> Panic p) /\ model_check ea w k m ctx fs <> OutOfFuel.
Proof. intros. eapply cached_C14_no_panic with (ea := ea) (m := m) (fs := fs) (ctx := ctx); eassumption. Qed.

Lemma cached_C14_cases_on :
  forall ea (w : world) (k : nat) m ctx fs,
    world_ok w -> m_ext m = false -> m_nocache m = false ->
    (exists rs, model_check ea w k m ctx fs = Ok rs /\ length rs = length fs
                /\ List.Forall (accepted ea (w_names w) k) fs)
    \/ (exists e, model_check ea w k m ctx fs = Err e
                  /\ first_reject (accepted ea (w_names w) k) (rejected ea (w_names w) k) fs e).
Proof. intros. eapply cached_C14_cases with (ea := ea) (m := m) (fs := fs) (ctx := ctx); eassumption. Qed.

Lemma cached_C14_err_iff_on :
  forall ea (w : world) (k : nat) m ctx fs e,
    world_ok w -> m_ext m = false -> m_nocache m = false ->
    (model_check ea w k m ctx fs = Err e
     <-> first_reject (accepted ea (w_names w) k) (rejected ea (w_names w) k) fs e).
Proof. intros. eapply cached_C14_err_iff with (ea := ea) (m := m) (fs := fs) (ctx := ctx) (e := e); eassumption. Qed.

Lemma cached_C14_ok_iff_on :
  forall ea (w : world) (k : nat) m ctx fs,
    world_ok w -> m_ext m = false -> m_nocache m = false ->
    ((exists rs, model_check ea w k m ctx fs = Ok rs) <-> List.Forall (accepted ea (w_names w) k) fs).
Proof. intros. eapply cached_C14_ok_iff with (ea := ea) (m := m) (fs := fs) (ctx := ctx); eassumption. Qed.

Lemma cached_C14_err_iff_parsed_on :
  forall ea (w : world) (k : nat) m ctx fs ts e,
    world_ok w -> m_ext m = false -> m_nocache m = false ->
    Forall2 (fun f t => parse_formula ea false f = Ok t) fs ts ->
    (model_check ea w k m ctx fs = Err e
     <-> exists ts1 t ts2,
           ts = ts1 ++ t :: ts2
           /\ List.Forall (fun t1 => well_scoped (w_names w) [] t1 /\ qdepth t1 <= k) ts1
           /\ (scope_violation (w_names w) [] t e
               \/ (well_scoped (w_names w) [] t /\ k < qdepth t /\ e = EVarSupport))).
Proof. intros. eapply cached_C14_err_iff_parsed with (ea := ea) (m := m) (ts := ts) (fs := fs) (ctx := ctx) (e := e); eassumption. Qed.

Lemma cached_C14_errs_iff_parsed_on :
  forall ea (w : world) (k : nat) m ctx fs ts,
    world_ok w -> m_ext m = false -> m_nocache m = false ->
    Forall2 (fun f t => parse_formula ea false f = Ok t) fs ts ->
    ((exists e, model_check ea w k m ctx fs = Err e)
     <-> List.Exists (fun t => ~ well_scoped (w_names w) [] t \/ k < qdepth t) ts).
Proof. intros. eapply cached_C14_errs_iff_parsed with (ea := ea) (m := m) (ts := ts) (fs := fs) (ctx := ctx); eassumption. Qed.

Lemma cached_C14_ext_no_panic_on :
  forall ea (w : world) (k : nat), world_ok w ->
  forall ctx, (forall l s, alookup str_eqb l ctx = Some s -> shaped (Lpn (w_p w) (w_n w)) s) ->
  forall m fs,
    m_ext m = true -> m_unsafe_ex m = false -> m_nocache m = false ->
    (forall p, model_check ea w k m ctx fs <> Panic p) /\ model_check ea w k m ctx fs <> OutOfFuel.
Proof. intros. eapply cached_C14_ext_no_panic with (ea := ea) (m := m) (fs := fs) (ctx := ctx); eassumption. Qed.

Lemma cached_C14_ext_cases_on :
  forall ea (w : world) (k : nat), world_ok w ->
  forall ctx, (forall l s, alookup str_eqb l ctx = Some s -> shaped (Lpn (w_p w) (w_n w)) s) ->
  forall m fs,
    m_ext m = true -> m_unsafe_ex m = false -> m_nocache m = false ->
    (exists rs, model_check ea w k m ctx fs = Ok rs /\ length rs = length fs
                /\ List.Forall (acceptedx ea (w_names w) k ctx) fs)
    \/ (exists e, model_check ea w k m ctx fs = Err e
                  /\ first_reject (acceptedx ea (w_names w) k ctx) (rejectedx ea (w_names w) k ctx) fs e).
Proof. intros. eapply cached_C14_ext_cases with (ea := ea) (m := m) (fs := fs) (ctx := ctx); eassumption. Qed.

Lemma cached_C14_ext_err_iff_on :
  forall ea (w : world) (k : nat), world_ok w ->
  forall ctx, (forall l s, alookup str_eqb l ctx = Some s -> shaped (Lpn (w_p w) (w_n w)) s) ->
  forall m fs e,
    m_ext m = true -> m_unsafe_ex m = false -> m_nocache m = false ->
    (model_check ea w k m ctx fs = Err e
     <-> first_reject (acceptedx ea (w_names w) k ctx) (rejectedx ea (w_names w) k ctx) fs e).
Proof. intros. eapply cached_C14_ext_err_iff with (ea := ea) (m := m) (fs := fs) (ctx := ctx) (e := e); eassumption. Qed.

Lemma cached_C14_ext_ok_iff_on :
  forall ea (w : world) (k : nat), world_ok w ->
  forall ctx, (forall l s, alookup str_eqb l ctx = Some s -> shaped (Lpn (w_p w) (w_n w)) s) ->
  forall m fs,
    m_ext m = true -> m_unsafe_ex m = false -> m_nocache m = false ->
    ((exists rs, model_check ea w k m ctx fs = Ok rs)
     <-> List.Forall (acceptedx ea (w_names w) k ctx) fs).
Proof. intros. eapply cached_C14_ext_ok_iff with (ea := ea) (m := m) (fs := fs) (ctx := ctx); eassumption. Qed.

Lemma cached_C14_ext_err_iff_parsed_on :
  forall ea (w : world) (k : nat), world_ok w ->
  forall ctx, (forall l s, alookup str_eqb l ctx = Some s -> shaped (Lpn (w_p w) (w_n w)) s) ->
  forall m fs ts e,
    m_ext m = true -> m_unsafe_ex m = false -> m_nocache m = false ->
    Forall2 (fun f t => parse_formula ea true f = Ok t) fs ts ->
    (model_check ea w k m ctx fs = Err e
     <-> exists ts1 t ts2,
           ts = ts1 ++ t :: ts2
           /\ List.Forall (fun t1 => (well_scoped (w_names w) [] t1 /\ qdepth t1 <= k)
                                     /\ labels_known ctx t1) ts1
           /\ ((scope_violation (w_names w) [] t e
                \/ (well_scoped (w_names w) [] t /\ k < qdepth t /\ e = EVarSupport))
               \/ ((well_scoped (w_names w) [] t /\ qdepth t <= k) /\ label_missing ctx t
                   /\ e = EMissingContext))).
Proof. intros. eapply cached_C14_ext_err_iff_parsed with (ea := ea) (m := m) (ts := ts) (fs := fs) (ctx := ctx) (e := e); eassumption. Qed.

Lemma cached_C15_sanitize_eq_raw_on :
  forall ea ext (w : world) (k : nat), world_ok w ->
  forall m m' ts rs,
    m_ext m = false -> m_ext m' = false -> m_unsafe_ex m = false -> m_unsafe_ex m' = false ->
    m_nocache m = false -> m_nocache m' = false ->
    m_sanitize m = false -> m_sanitize m' = true ->
    List.Forall (good ea ext (genv_of w k) (w_names w)) ts -> List.Forall (depth_named 0) ts ->
    check_trees w k m ts [] [] = Ok rs ->
    exists ss, check_trees w k m' ts [] [] = Ok ss
      /\ List.Forall2 (fun R S => shaped (filter not_extra (g_L (genv_of w k))) S /\
           forall v, mem (filter not_extra (g_L (genv_of w k))) S v = mem (g_L (genv_of w k)) R v) rs ss.
Proof. intros. eapply cached_C15_sanitize_eq_raw with (ea := ea) (ext := ext) (m := m) (m' := m') (ts := ts) (rs := rs); eassumption. Qed.

Lemma cached_C15_model_check_sanitize_eq_raw_on :
  forall ea (w : world) (k : nat), world_ok w ->
  forall m m' ctx fs rs,
    m_ext m = false -> m_ext m' = false -> m_unsafe_ex m = false -> m_unsafe_ex m' = false ->
    m_nocache m = false -> m_nocache m' = false ->
    m_sanitize m = false -> m_sanitize m' = true ->
    model_check ea w k m ctx fs = Ok rs ->
    exists ss, model_check ea w k m' ctx fs = Ok ss
      /\ List.Forall2 (fun R S => shaped (filter not_extra (g_L (genv_of w k))) S /\
           forall v, mem (filter not_extra (g_L (genv_of w k))) S v = mem (g_L (genv_of w k)) R v) rs ss.
Proof. intros. eapply cached_C15_model_check_sanitize_eq_raw with (ea := ea) (m := m) (m' := m') (fs := fs) (ctx := ctx) (rs := rs); eassumption. Qed.

Lemma cached_C15_ext_sanitize_eq_raw_on :
  forall ea (w : world) (k : nat), world_ok w ->
  forall cprops cdoms (Gamma : str -> val -> Prop),
    ctx_ignores_copies Gamma ->
    wild_sets_ok (genv_of w k) Gamma (wild_of w k cprops) ->
    dom_sets_ok (genv_of w k) Gamma (doms_of w k cprops cdoms) ->
  forall m m' ts rs,
    m_ext m = true -> m_ext m' = true -> m_unsafe_ex m = false -> m_unsafe_ex m' = false ->
    m_nocache m = false -> m_nocache m' = false ->
    m_sanitize m = false -> m_sanitize m' = true -> m_nopatterns m = m_nopatterns m' ->
    List.Forall (topx ea (genv_of w k) (w_names w) (wild_of w k cprops) (doms_of w k cprops cdoms)) ts ->
    check_trees w k m ts cprops cdoms = Ok rs ->
    exists ss, check_trees w k m' ts cprops cdoms = Ok ss
      /\ List.Forall2 (fun R S => shaped (filter not_extra (g_L (genv_of w k))) S /\
           forall v, mem (filter not_extra (g_L (genv_of w k))) S v = mem (g_L (genv_of w k)) R v) rs ss.
Proof. intros. eapply cached_C15_ext_sanitize_eq_raw with (ea := ea) (Gamma := Gamma) (m := m) (m' := m') (ts := ts) (cprops := cprops) (cdoms := cdoms) (rs := rs); eassumption. Qed.

Lemma cached_C15_ext_model_check_sanitize_eq_raw_on :
  forall ea (w : world) (k : nat), world_ok w ->
  forall ctx, (forall l s, alookup str_eqb l ctx = Some s -> shaped (Lpn (w_p w) (w_n w)) s) ->
  forall m m' fs rs,
    m_ext m = true -> m_ext m' = true -> m_unsafe_ex m = false -> m_unsafe_ex m' = false ->
    m_nocache m = false -> m_nocache m' = false ->
    m_sanitize m = false -> m_sanitize m' = true -> m_nopatterns m = m_nopatterns m' ->
    model_check ea w k m ctx fs = Ok rs ->
    exists ss, model_check ea w k m' ctx fs = Ok ss
      /\ List.Forall2 (fun R S => shaped (filter not_extra (g_L (genv_of w k))) S /\
           forall v, mem (filter not_extra (g_L (genv_of w k))) S v = mem (g_L (genv_of w k)) R v) rs ss.
Proof. intros. eapply cached_C15_ext_model_check_sanitize_eq_raw with (ea := ea) (m := m) (m' := m') (fs := fs) (ctx := ctx) (rs := rs); eassumption. Qed.

Lemma cached_C15_k_independent_on :
  forall ea ext (w : world) (k k' : nat), world_ok w ->
  forall m m' ts ss,
    m_ext m = false -> m_ext m' = false -> m_unsafe_ex m = false -> m_unsafe_ex m' = false ->
    m_nocache m = false -> m_nocache m' = false ->
    m_sanitize m = true -> m_sanitize m' = true ->
    List.Forall (good ea ext (genv_of w k) (w_names w)) ts ->
    List.Forall (good ea ext (genv_of w k') (w_names w)) ts ->
    List.Forall (depth_named 0) ts ->
    check_trees w k m ts [] [] = Ok ss ->
    check_trees w k' m' ts [] [] = Ok ss
    /\ List.Forall2 (fun t S => shaped (Lpn (w_p w) (w_n w)) S /\
         forall (Gamma : str -> val -> Prop) v, mem (Lpn (w_p w) (w_n w)) S v = true <->
           (mem (Lpn (w_p w) (w_n w)) (w_unit w) v = true /\ sat (genv_of w k) (w_names w) Gamma t v)) ts ss.
Proof. intros. eapply cached_C15_k_independent with (ea := ea) (ext := ext) (m := m) (m' := m') (ts := ts) (k' := k') (ss := ss); eassumption. Qed.

Lemma cached_C15_model_check_k_independent_on :
  forall ea (w : world) (k k' : nat) m m' ctx ctx' fs ss ss',
    world_ok w ->
    m_ext m = false -> m_ext m' = false -> m_unsafe_ex m = false -> m_unsafe_ex m' = false ->
    m_nocache m = false -> m_nocache m' = false ->
    m_sanitize m = true -> m_sanitize m' = true ->
    model_check ea w k m ctx fs = Ok ss -> model_check ea w k' m' ctx' fs = Ok ss' ->
    ss = ss'
    /\ exists ts, List.Forall2 (fun f t => parse_and_minimize ea false (w_names w) f = Ok t) fs ts
       /\ List.Forall2 (fun t S => shaped (Lpn (w_p w) (w_n w)) S /\
            forall (Gamma : str -> val -> Prop) v, mem (Lpn (w_p w) (w_n w)) S v = true <->
              (mem (Lpn (w_p w) (w_n w)) (w_unit w) v = true /\ sat (genv_of w k) (w_names w) Gamma t v)) ts ss.
Proof. intros. eapply cached_C15_model_check_k_independent with (ea := ea) (m := m) (m' := m') (fs := fs) (ctx := ctx) (ctx' := ctx') (k' := k') (ss := ss) (ss' := ss'); eassumption. Qed.

Lemma cached_C20_check_trees_on :
  forall ea ext (w : world) (k : nat), world_ok w ->
  forall (c : val) (u' : tt),
    shaped (Lpn (w_p w) (w_n w)) u' ->
    (forall v v', (forall j, v (TP j) = v' (TP j)) ->
       mem (Lpn (w_p w) (w_n w)) u' v = mem (Lpn (w_p w) (w_n w)) u' v') ->
  forall m m' ts rs rs',
    m_ext m = false -> m_ext m' = false -> m_sanitize m = false -> m_sanitize m' = false ->
    m_unsafe_ex m = false -> m_unsafe_ex m' = false -> m_nocache m = false -> m_nocache m' = false ->
    List.Forall (good ea ext (genv_of w k) (w_names w)) ts ->
    check_trees w k m ts [] [] = Ok rs -> check_trees (colour_world c u' w) k m' ts [] [] = Ok rs' ->
    List.Forall2 (fun R R' => forall v, (forall j, v (TP j) = c (TP j)) ->
       mem (g_L (genv_of w k)) (unit_of w k) v = true ->
       mem (g_L (genv_of w k)) (unit_of (colour_world c u' w) k) v = true ->
       mem (g_L (genv_of w k)) R v = mem (g_L (genv_of w k)) R' v) rs rs'.
Proof. intros. eapply cached_C20_check_trees with (ea := ea) (ext := ext) (m := m) (m' := m') (ts := ts) (c := c) (u' := u') (rs := rs) (rs' := rs'); eassumption. Qed.

Lemma cached_C20_model_check_on :
  forall ea (w : world) (k : nat) (c : val) (u' : tt) m m' ctx ctx' fs rs rs',
    world_ok w ->
    shaped (Lpn (w_p w) (w_n w)) u' ->
    (forall v v', (forall j, v (TP j) = v' (TP j)) ->
       mem (Lpn (w_p w) (w_n w)) u' v = mem (Lpn (w_p w) (w_n w)) u' v') ->
    m_ext m = false -> m_ext m' = false -> m_sanitize m = false -> m_sanitize m' = false ->
    m_unsafe_ex m = false -> m_unsafe_ex m' = false -> m_nocache m = false -> m_nocache m' = false ->
    model_check ea w k m ctx fs = Ok rs -> model_check ea (colour_world c u' w) k m' ctx' fs = Ok rs' ->
    List.Forall2 (fun R R' => forall v, (forall j, v (TP j) = c (TP j)) ->
       mem (g_L (genv_of w k)) (unit_of w k) v = true ->
       mem (g_L (genv_of w k)) (unit_of (colour_world c u' w) k) v = true ->
       mem (g_L (genv_of w k)) R v = mem (g_L (genv_of w k)) R' v) rs rs'.
Proof. intros. eapply cached_C20_model_check with (ea := ea) (m := m) (m' := m') (fs := fs) (ctx := ctx) (ctx' := ctx') (c := c) (u' := u') (rs := rs) (rs' := rs'); eassumption. Qed.

