(** Facts about the precedence parser of Model/Parser.v (property C05):
    the documented grammar as inductive relations, soundness and completeness of
    [parse_tokens] with respect to it, sufficiency of [parse_fuel], absence of
    Panic / OutOfFuel outcomes, and "no token is dropped". *)
From HCTL Require Import Base Syntax Parser.

(** * The documented grammar

    Binding strength, tightest first: unary operators, binary temporal operators
    (EU AU EW AW), then [&], [^], [|], [=>], [<=>].  All binary operators are
    right-associative.  Hybrid operators bind weakest and may only occur at the start of a
    formula or of a parenthesised group.

    [op_level o] is the precedence class of a binary operator;  [L n] derives the
    expressions whose top-level binary operators all have class [< n]. *)
Definition op_level (o : binop) : nat :=
  match o with
  | EU | AU | EW | AW => 0
  | And => 1
  | Xor => 2
  | Or => 3
  | Imp => 4
  | Iff => 5
  end.

Inductive G : list token -> tree -> Prop :=
| G_hyb : forall o x d ts t, G ts t -> G (THyb o x d :: ts) (Hybrid o x d t)
| G_expr : forall ts t, L 6 ts t -> G ts t
with L : nat -> list token -> tree -> Prop :=
| L_unary : forall ts t, U ts t -> L 0 ts t
| L_bin : forall n o l r a b,
    op_level o = n -> L n l a -> L (S n) r b ->
    L (S n) (l ++ TBin o :: r) (Binary o a b)
| L_skip : forall n ts t, L n ts t -> L (S n) ts t
with U : list token -> tree -> Prop :=
| U_un : forall o ts t, U ts t -> U (TUn o :: ts) (Unary o t)
| U_prop : forall name, U [TAtom (AProp name)] (Terminal (atom_of_prop_name name))
| U_var : forall x, U [TAtom (AVar x)] (Terminal (AVar x))
| U_wild : forall p, U [TAtom (AWild p)] (Terminal (AWild p))
| U_group : forall ts t, G ts t -> U [TGroup ts] t.

Scheme G_mind := Minimality for G Sort Prop
  with L_mind := Minimality for L Sort Prop
  with U_mind := Minimality for U Sort Prop.
Combined Scheme GLU_mutind from G_mind, L_mind, U_mind.

(** * Flattening of token lists and reading of trees (for "no token is dropped") *)

(** [strip] removes the group structure (the parentheses) and keeps every other token. *)
Fixpoint strip_tok (x : token) : list token :=
  match x with
  | TGroup ts => (fix go (l : list token) : list token :=
                    match l with [] => [] | y :: l' => strip_tok y ++ go l' end) ts
  | _ => [x]
  end.
Definition strip (ts : list token) : list token :=
  (fix go (l : list token) : list token :=
     match l with [] => [] | y :: l' => strip_tok y ++ go l' end) ts.

(** operators and atoms of a tree in reading order *)
Fixpoint leaves (t : tree) : list token :=
  match t with
  | Terminal a => [TAtom a]
  | Unary o c => TUn o :: leaves c
  | Binary o l r => leaves l ++ TBin o :: leaves r
  | Hybrid o x d c => THyb o x d :: leaves c
  end.

(** the only rewriting the parser does on a token: the proposition names
    true/True/1 and false/False/0 become constants *)
Definition norm_tok (x : token) : token :=
  match x with
  | TAtom (AProp name) => TAtom (atom_of_prop_name name)
  | _ => x
  end.

Definition is_atom_tok (x : token) : bool :=
  match x with TAtom _ => true | _ => false end.
Definition not_group (x : token) : Prop :=
  match x with TGroup _ => False | _ => True end.

(** acceptable outcomes of the parser: a tree or a parse error *)
Definition benign (r : res tree) : Prop :=
  (exists t, r = Ok t) \/ r = Err EParse.

(** * [split_first] *)

Lemma split_first_some : forall p ts l x r,
  split_first p ts = Some (l, x, r) ->
  ts = l ++ x :: r /\ p x = true /\ List.Forall (fun y => p y = false) l.
Proof.
  intros p ts; induction ts as [|y ts IH]; intros l x r H.
  - discriminate H.
  - cbn [split_first] in H. destruct (p y) eqn:Py.
    + injection H as <- <- <-. auto.
    + destruct (split_first p ts) as [[[l' x'] r']|]; [|discriminate H].
      injection H as <- <- <-.
      destruct (IH _ _ _ eq_refl) as (E & Px & Fl). subst ts.
      repeat split; auto.
Qed.

Lemma split_first_none : forall p ts,
  split_first p ts = None -> List.Forall (fun y => p y = false) ts.
Proof.
  intros p ts; induction ts as [|y ts IH]; intros H.
  - constructor.
  - cbn [split_first] in H. destruct (p y) eqn:Py; [discriminate H|].
    destruct (split_first p ts) as [[[l' x'] r']|]; [discriminate H|].
    constructor; auto.
Qed.

Lemma split_first_app : forall p l x r,
  List.Forall (fun y => p y = false) l -> p x = true ->
  split_first p (l ++ x :: r) = Some (l, x, r).
Proof.
  intros p l x r Fl Px; induction Fl as [|y l Py Fl IH].
  - cbn [app split_first]. rewrite Px. reflexivity.
  - cbn [app split_first]. rewrite Py, IH. reflexivity.
Qed.

Lemma split_first_none_intro : forall p ts,
  List.Forall (fun y => p y = false) ts -> split_first p ts = None.
Proof.
  intros p ts Fl; induction Fl as [|y l Py Fl IH].
  - reflexivity.
  - cbn [split_first]. rewrite Py, IH. reflexivity.
Qed.

(** full characterisation *)
Lemma split_first_some_iff : forall p ts l x r,
  split_first p ts = Some (l, x, r) <->
  ts = l ++ x :: r /\ p x = true /\ List.Forall (fun y => p y = false) l.
Proof.
  intros; split.
  - apply split_first_some.
  - intros (-> & Px & Fl). apply split_first_app; assumption.
Qed.

Lemma split_first_none_iff : forall p ts,
  split_first p ts = None <-> List.Forall (fun y => p y = false) ts.
Proof.
  intros; split; [apply split_first_none | apply split_first_none_intro].
Qed.

(** * Sizes *)

Lemma tok_size_group : forall ts, tok_size (TGroup ts) = S (toks_size ts).
Proof. reflexivity. Qed.

Lemma toks_size_nil : toks_size [] = 0.
Proof. reflexivity. Qed.

Lemma toks_size_cons : forall x l, toks_size (x :: l) = tok_size x + toks_size l.
Proof. reflexivity. Qed.

Lemma toks_size_app : forall l r, toks_size (l ++ r) = toks_size l + toks_size r.
Proof.
  intros l r; induction l as [|x l IH].
  - reflexivity.
  - cbn [app]. rewrite !toks_size_cons, IH. lia.
Qed.

Lemma tok_size_pos : forall x, 1 <= tok_size x.
Proof. intros x; destruct x; cbn [tok_size]; lia. Qed.

(** * Unfolding equations of [parse_lvl], one per level *)

Lemma parse_eq_1 : forall f ts,
  parse_lvl (S f) 1 ts =
  match split_first is_hybrid ts with
  | Some (l, THyb o x d, r) =>
      match l with
      | [] => let* c := parse_lvl f 1 r in Ok (Hybrid o x d c)
      | _ => Err EParse
      end
  | Some _ => Panic PShape
  | None => parse_lvl f 2 ts
  end.
Proof. reflexivity. Qed.

Lemma parse_eq_bin : forall f lvl o ts,
  level_binop lvl = Some o ->
  parse_lvl (S f) lvl ts =
  match split_first (is_bin o) ts with
  | Some (l, _, r) =>
      let* a := parse_lvl f (S lvl) l in
      let* b := parse_lvl f lvl r in
      Ok (Binary o a b)
  | None => parse_lvl f (S lvl) ts
  end.
Proof.
  intros f lvl o ts H.
  do 7 (destruct lvl as [|lvl]; [try discriminate H; try (injection H as <-; reflexivity)|]).
  discriminate H.
Qed.

Lemma parse_eq_7 : forall f ts,
  parse_lvl (S f) 7 ts =
  match split_first is_binary_temporal ts with
  | Some (l, TBin o, r) =>
      let* a := parse_lvl f 8 l in
      let* b := parse_lvl f 7 r in
      Ok (Binary o a b)
  | Some _ => Panic PShape
  | None => parse_lvl f 8 ts
  end.
Proof. reflexivity. Qed.

Lemma parse_eq_8 : forall f ts,
  parse_lvl (S f) 8 ts =
  match split_first is_unary ts with
  | Some (l, TUn o, r) =>
      match l with
      | [] => let* c := parse_lvl f 8 r in Ok (Unary o c)
      | _ => Err EParse
      end
  | Some _ => Panic PShape
  | None => parse_lvl f 9 ts
  end.
Proof. reflexivity. Qed.

Lemma parse_eq_9 : forall f lvl ts,
  lvl = 0 \/ 9 <= lvl ->
  parse_lvl (S f) lvl ts =
  match ts with
  | [TAtom (AProp name)] => Ok (Terminal (atom_of_prop_name name))
  | [TAtom (AVar name)] => Ok (Terminal (AVar name))
  | [TAtom (AWild name)] => Ok (Terminal (AWild name))
  | [TGroup inner] => parse_lvl f 1 inner
  | _ => Err EParse
  end.
Proof.
  intros f lvl ts H.
  destruct lvl as [|lvl]; [reflexivity|].
  do 8 (destruct lvl as [|lvl]; [exfalso; lia|]).
  reflexivity.
Qed.

(** * Small facts on [bind], the token predicates and [benign] *)

Lemma bind_ok : forall (A B : Type) (r : res A) (k : A -> res B) (b : B),
  bind r k = Ok b -> exists a, r = Ok a /\ k a = Ok b.
Proof.
  intros A B r k b H; destruct r as [a|e|p|]; try discriminate H.
  exists a; auto.
Qed.

Lemma binop_eqb_refl : forall o, binop_eqb o o = true.
Proof. intros o; destruct o; reflexivity. Qed.

Lemma binop_eqb_eq : forall o o', binop_eqb o o' = true -> o = o'.
Proof. intros o o' H; destruct o, o'; try discriminate H; reflexivity. Qed.

Lemma is_bin_true : forall o x, is_bin o x = true -> x = TBin o.
Proof.
  intros o x H; destruct x as [u|o'|h y d|a|g]; try discriminate H.
  cbn [is_bin] in H. apply binop_eqb_eq in H. subst o'. reflexivity.
Qed.

Lemma is_binary_temporal_true : forall x,
  is_binary_temporal x = true -> exists o, x = TBin o /\ op_level o = 0.
Proof.
  intros x H; destruct x as [u|o|h y d|a|g]; try discriminate H.
  exists o; split; [reflexivity|]. destruct o; try discriminate H; reflexivity.
Qed.

Lemma is_binary_temporal_intro : forall o,
  op_level o = 0 -> is_binary_temporal (TBin o) = true.
Proof. intros o H; destruct o; try discriminate H; reflexivity. Qed.

Lemma is_hybrid_true : forall x, is_hybrid x = true -> exists o y d, x = THyb o y d.
Proof.
  intros x H; destruct x as [u|o|h y d|a|g]; try discriminate H.
  exists h, y, d; reflexivity.
Qed.

Lemma is_unary_true : forall x, is_unary x = true -> exists o, x = TUn o.
Proof.
  intros x H; destruct x as [u|o|h y d|a|g]; try discriminate H.
  exists u; reflexivity.
Qed.

Lemma level_binop_op_level : forall lvl o,
  level_binop lvl = Some o -> lvl = 7 - op_level o /\ 1 <= op_level o <= 5.
Proof.
  intros lvl o H.
  do 7 (destruct lvl as [|lvl]; [try discriminate H; try (injection H as <-; cbn; lia)|]).
  discriminate H.
Qed.

Lemma benign_ok : forall t, benign (Ok t).
Proof. intros t; left; exists t; reflexivity. Qed.

Lemma benign_err : benign (Err EParse).
Proof. right; reflexivity. Qed.

Lemma benign_bind : forall (r : res tree) (k : tree -> res tree),
  benign r -> (forall a, benign (k a)) -> benign (bind r k).
Proof.
  intros r k [(t & ->)| ->] Hk.
  - cbn [bind]. apply Hk.
  - cbn [bind]. apply benign_err.
Qed.

Lemma benign_not_panic : forall r p, benign r -> r <> Panic p.
Proof. intros r p [(t & ->)| ->]; discriminate. Qed.

Lemma benign_not_oof : forall r, benign r -> r <> OutOfFuel.
Proof. intros r [(t & ->)| ->]; discriminate. Qed.

(** * Soundness: every accepted token list is derived by the grammar *)

(** what a successful run at level [lvl] establishes *)
Definition spec (lvl : nat) (ts : list token) (t : tree) : Prop :=
  match lvl with
  | 1 => G ts t
  | 2 => L 6 ts t
  | 3 => L 5 ts t
  | 4 => L 4 ts t
  | 5 => L 3 ts t
  | 6 => L 2 ts t
  | 7 => L 1 ts t
  | _ => U ts t
  end.

Lemma sound_bin_step : forall f lvl o n ts t,
  level_binop lvl = Some o -> op_level o = n ->
  (forall ts' t', parse_lvl f (S lvl) ts' = Ok t' -> L n ts' t') ->
  (forall ts' t', parse_lvl f lvl ts' = Ok t' -> L (S n) ts' t') ->
  parse_lvl (S f) lvl ts = Ok t -> L (S n) ts t.
Proof.
  intros f lvl o n ts t Hlvl Hn IHl IHr H.
  rewrite (parse_eq_bin f lvl o ts Hlvl) in H.
  destruct (split_first (is_bin o) ts) as [[[l x] r]|] eqn:E.
  - apply split_first_some in E. destruct E as (-> & Px & _).
    apply is_bin_true in Px. subst x.
    apply bind_ok in H. destruct H as (a & Ha & H).
    apply bind_ok in H. destruct H as (b & Hb & H).
    injection H as <-.
    apply L_bin; auto.
  - apply L_skip. apply IHl. exact H.
Qed.

Lemma parse_lvl_sound : forall f lvl ts t,
  parse_lvl f lvl ts = Ok t -> spec lvl ts t.
Proof.
  induction f as [|f IH]; intros lvl ts t H; [discriminate H|].
  destruct lvl as [|[|[|[|[|[|[|[|[|lvl]]]]]]]]].
  - (* level 0 behaves as level 9 *)
    rewrite parse_eq_9 in H by lia. cbn [spec].
    destruct ts as [|[u|o|h y d|[s|s| | |s]|g] [|x' ts']]; try discriminate H.
    + injection H as <-. apply U_prop.
    + injection H as <-. apply U_var.
    + injection H as <-. apply U_wild.
    + apply U_group. exact (IH 1 _ _ H).
  - (* 1: hybrid *)
    rewrite parse_eq_1 in H. cbn [spec].
    destruct (split_first is_hybrid ts) as [[[l x] r]|] eqn:E.
    + apply split_first_some in E. destruct E as (-> & Px & _).
      apply is_hybrid_true in Px. destruct Px as (o & y & d & ->).
      destruct l as [|z l]; [|discriminate H].
      apply bind_ok in H. destruct H as (c & Hc & H). injection H as <-.
      cbn [app]. apply G_hyb. exact (IH 1 _ _ Hc).
    + apply G_expr. exact (IH 2 _ _ H).
  - eapply (sound_bin_step f 2 Iff 5); [reflexivity|reflexivity| |exact (IH 2)|exact H].
    exact (IH 3).
  - eapply (sound_bin_step f 3 Imp 4); [reflexivity|reflexivity| |exact (IH 3)|exact H].
    exact (IH 4).
  - eapply (sound_bin_step f 4 Or 3); [reflexivity|reflexivity| |exact (IH 4)|exact H].
    exact (IH 5).
  - eapply (sound_bin_step f 5 Xor 2); [reflexivity|reflexivity| |exact (IH 5)|exact H].
    exact (IH 6).
  - eapply (sound_bin_step f 6 And 1); [reflexivity|reflexivity| |exact (IH 6)|exact H].
    exact (IH 7).
  - (* 7: binary temporal *)
    rewrite parse_eq_7 in H. cbn [spec].
    destruct (split_first is_binary_temporal ts) as [[[l x] r]|] eqn:E.
    + apply split_first_some in E. destruct E as (-> & Px & _).
      apply is_binary_temporal_true in Px. destruct Px as (o & -> & Ho).
      apply bind_ok in H. destruct H as (a & Ha & H).
      apply bind_ok in H. destruct H as (b & Hb & H).
      injection H as <-.
      apply L_bin; [exact Ho| |exact (IH 7 _ _ Hb)].
      apply L_unary. exact (IH 8 _ _ Ha).
    + apply L_skip, L_unary. exact (IH 8 _ _ H).
  - (* 8: unary *)
    rewrite parse_eq_8 in H. cbn [spec].
    destruct (split_first is_unary ts) as [[[l x] r]|] eqn:E.
    + apply split_first_some in E. destruct E as (-> & Px & _).
      apply is_unary_true in Px. destruct Px as (o & ->).
      destruct l as [|z l]; [|discriminate H].
      apply bind_ok in H. destruct H as (c & Hc & H). injection H as <-.
      cbn [app]. apply U_un. exact (IH 8 _ _ Hc).
    + exact (IH 9 _ _ H).
  - (* 9 and above: atom or group *)
    rewrite parse_eq_9 in H by lia. cbn [spec].
    destruct ts as [|[u|o|h y d|[s|s| | |s]|g] [|x' ts']]; try discriminate H.
    + injection H as <-. apply U_prop.
    + injection H as <-. apply U_var.
    + injection H as <-. apply U_wild.
    + apply U_group. exact (IH 1 _ _ H).
Qed.

Theorem parse_sound : forall ts t, parse_tokens ts = Ok t -> G ts t.
Proof. intros ts t H. exact (parse_lvl_sound _ 1 ts t H). Qed.

(** * Top-level tokens of derived lists

    Groups are single tokens, so the tokens at the top level of a list derived by [L n]
    are unary operators, atoms, groups and binary operators of class [< n]. *)
Definition top_ok (n : nat) (x : token) : Prop :=
  match x with
  | TBin o => op_level o < n
  | THyb _ _ _ => False
  | _ => True
  end.

Lemma top_ok_mono : forall n m x, n <= m -> top_ok n x -> top_ok m x.
Proof. intros n m x Hnm H; destruct x; cbn [top_ok] in *; auto; lia. Qed.

Lemma derived_top :
  (forall ts t, G ts t -> True) /\
  (forall n ts t, L n ts t -> List.Forall (top_ok n) ts) /\
  (forall ts t, U ts t -> List.Forall (top_ok 0) ts).
Proof.
  apply GLU_mutind.
  - auto.
  - auto.
  - intros ts t _ IH. exact IH.
  - intros n o l r a b Ho _ IHl _ IHr.
    apply Forall_app; split.
    + eapply Forall_impl; [|exact IHl]. intros x Hx. eapply top_ok_mono; [|exact Hx]. lia.
    + constructor; [cbn [top_ok]; lia|exact IHr].
  - intros n ts t _ IH.
    eapply Forall_impl; [|exact IH]. intros x Hx. eapply top_ok_mono; [|exact Hx]. lia.
  - intros o ts t _ IH. constructor; [exact I|exact IH].
  - intros name. repeat constructor.
  - intros x. repeat constructor.
  - intros p. repeat constructor.
  - intros ts t _ _. repeat constructor.
Qed.

Lemma L_top : forall n ts t, L n ts t -> List.Forall (top_ok n) ts.
Proof. exact (proj1 (proj2 derived_top)). Qed.

Lemma U_top : forall ts t, U ts t -> List.Forall (top_ok 0) ts.
Proof. exact (proj2 (proj2 derived_top)). Qed.

Lemma top_ok_not_bin : forall n o x,
  top_ok n x -> n <= op_level o -> is_bin o x = false.
Proof.
  intros n o x H Hn; destruct x as [u|o'|h y d|a|g]; try reflexivity.
  cbn [top_ok] in H. cbn [is_bin].
  destruct (binop_eqb o o') eqn:E; [|reflexivity].
  apply binop_eqb_eq in E. subst o'. lia.
Qed.

Lemma top_ok_not_temporal : forall n x,
  top_ok n x -> n = 0 -> is_binary_temporal x = false.
Proof.
  intros n x H Hn; destruct x as [u|o'|h y d|a|g]; try reflexivity.
  cbn [top_ok] in H. lia.
Qed.

Lemma top_ok_not_temporal_1 : forall x,
  top_ok 0 x -> is_binary_temporal x = false.
Proof. intros x H. eapply top_ok_not_temporal; eauto. Qed.

Lemma top_ok_not_hybrid : forall n x, top_ok n x -> is_hybrid x = false.
Proof.
  intros n x H; destruct x as [u|o'|h y d|a|g]; try reflexivity.
  cbn [top_ok] in H. contradiction.
Qed.

(** * Completeness: every derived token list is accepted, with the fuel of [parse_tokens] *)

Lemma complete_bin_step : forall f lvl o l r a b,
  level_binop lvl = Some o ->
  List.Forall (fun y => is_bin o y = false) l ->
  parse_lvl f (S lvl) l = Ok a -> parse_lvl f lvl r = Ok b ->
  parse_lvl (S f) lvl (l ++ TBin o :: r) = Ok (Binary o a b).
Proof.
  intros f lvl o l r a b Hlvl Fl Ha Hb.
  rewrite (parse_eq_bin f lvl o _ Hlvl).
  rewrite (split_first_app (is_bin o) l (TBin o) r Fl)
    by (cbn [is_bin]; apply binop_eqb_refl).
  rewrite Ha, Hb. reflexivity.
Qed.

Lemma complete_bin_skip : forall f lvl o ts t,
  level_binop lvl = Some o ->
  List.Forall (fun y => is_bin o y = false) ts ->
  parse_lvl f (S lvl) ts = Ok t ->
  parse_lvl (S f) lvl ts = Ok t.
Proof.
  intros f lvl o ts t Hlvl Fl Ht.
  rewrite (parse_eq_bin f lvl o _ Hlvl).
  rewrite (split_first_none_intro _ _ Fl). exact Ht.
Qed.

Lemma complete_temp_step : forall f o l r a b,
  op_level o = 0 ->
  List.Forall (fun y => is_binary_temporal y = false) l ->
  parse_lvl f 8 l = Ok a -> parse_lvl f 7 r = Ok b ->
  parse_lvl (S f) 7 (l ++ TBin o :: r) = Ok (Binary o a b).
Proof.
  intros f o l r a b Ho Fl Ha Hb.
  rewrite parse_eq_7.
  rewrite (split_first_app is_binary_temporal l (TBin o) r Fl)
    by (apply is_binary_temporal_intro; exact Ho).
  rewrite Ha, Hb. reflexivity.
Qed.

Lemma complete_temp_skip : forall f ts t,
  List.Forall (fun y => is_binary_temporal y = false) ts ->
  parse_lvl f 8 ts = Ok t ->
  parse_lvl (S f) 7 ts = Ok t.
Proof.
  intros f ts t Fl Ht.
  rewrite parse_eq_7.
  rewrite (split_first_none_intro _ _ Fl). exact Ht.
Qed.

Lemma Forall_top_not_bin : forall n o ts,
  List.Forall (top_ok n) ts -> n <= op_level o -> List.Forall (fun y => is_bin o y = false) ts.
Proof.
  intros n o ts F Hn. eapply Forall_impl; [|exact F].
  intros x Hx. eapply top_ok_not_bin; eauto.
Qed.

Lemma Forall_top_not_temporal : forall ts,
  List.Forall (top_ok 0) ts -> List.Forall (fun y => is_binary_temporal y = false) ts.
Proof.
  intros ts F. eapply Forall_impl; [|exact F]. exact top_ok_not_temporal_1.
Qed.

Lemma Forall_top_not_hybrid : forall n ts,
  List.Forall (top_ok n) ts -> List.Forall (fun y => is_hybrid y = false) ts.
Proof.
  intros n ts F. eapply Forall_impl; [|exact F]. exact (top_ok_not_hybrid n).
Qed.

(** fuel [10 * size + (10 - level)] is enough at every level *)
Lemma complete_mut :
  (forall ts t, G ts t ->
     forall f, 10 * toks_size ts + 9 <= f -> parse_lvl f 1 ts = Ok t) /\
  (forall n ts t, L n ts t -> n <= 6 ->
     forall f, 10 * toks_size ts + 2 + n <= f -> parse_lvl f (8 - n) ts = Ok t) /\
  (forall ts t, U ts t ->
     forall f, 10 * toks_size ts + 2 <= f -> parse_lvl f 8 ts = Ok t).
Proof.
  apply GLU_mutind.
  - (* G_hyb *)
    intros o x d ts t _ IH f Hf.
    rewrite toks_size_cons in Hf. cbn [tok_size] in Hf.
    destruct f as [|f]; [exfalso; lia|].
    rewrite parse_eq_1. cbn [split_first is_hybrid].
    rewrite IH by lia. reflexivity.
  - (* G_expr *)
    intros ts t HL IH f Hf.
    destruct f as [|f]; [exfalso; lia|].
    rewrite parse_eq_1.
    rewrite (split_first_none_intro is_hybrid ts)
      by (eapply Forall_top_not_hybrid, L_top; exact HL).
    apply (IH (Nat.le_refl 6)). lia.
  - (* L_unary *)
    intros ts t _ IH _ f Hf. cbn [Nat.sub]. apply IH. lia.
  - (* L_bin *)
    intros n o l r a b Ho HLl IHl _ IHr Hn f Hf.
    rewrite toks_size_app, toks_size_cons in Hf. cbn [tok_size] in Hf.
    destruct f as [|f]; [exfalso; lia|].
    assert (Ha : parse_lvl f (8 - n) l = Ok a) by (apply IHl; lia).
    assert (Hb : parse_lvl f (8 - S n) r = Ok b) by (apply IHr; lia).
    apply L_top in HLl.
    destruct o; cbn [op_level] in Ho; subst n; cbn [Nat.sub] in Ha, Hb |- *.
    + apply complete_bin_step; [reflexivity| |exact Ha|exact Hb].
      eapply Forall_top_not_bin; [exact HLl|cbn [op_level]; lia].
    + apply complete_bin_step; [reflexivity| |exact Ha|exact Hb].
      eapply Forall_top_not_bin; [exact HLl|cbn [op_level]; lia].
    + apply complete_bin_step; [reflexivity| |exact Ha|exact Hb].
      eapply Forall_top_not_bin; [exact HLl|cbn [op_level]; lia].
    + apply complete_bin_step; [reflexivity| |exact Ha|exact Hb].
      eapply Forall_top_not_bin; [exact HLl|cbn [op_level]; lia].
    + apply complete_bin_step; [reflexivity| |exact Ha|exact Hb].
      eapply Forall_top_not_bin; [exact HLl|cbn [op_level]; lia].
    + apply complete_temp_step; [reflexivity| |exact Ha|exact Hb].
      apply Forall_top_not_temporal; exact HLl.
    + apply complete_temp_step; [reflexivity| |exact Ha|exact Hb].
      apply Forall_top_not_temporal; exact HLl.
    + apply complete_temp_step; [reflexivity| |exact Ha|exact Hb].
      apply Forall_top_not_temporal; exact HLl.
    + apply complete_temp_step; [reflexivity| |exact Ha|exact Hb].
      apply Forall_top_not_temporal; exact HLl.
  - (* L_skip *)
    intros n ts t HL IH Hn f Hf.
    destruct f as [|f]; [exfalso; lia|].
    assert (Ht : parse_lvl f (8 - n) ts = Ok t) by (apply IH; lia).
    apply L_top in HL.
    destruct n as [|[|[|[|[|[|n]]]]]]; cbn [Nat.sub] in Ht |- *.
    + apply complete_temp_skip; [|exact Ht].
      apply Forall_top_not_temporal; exact HL.
    + eapply (complete_bin_skip f 6 And); [reflexivity| |exact Ht].
      eapply Forall_top_not_bin; [exact HL|cbn [op_level]; lia].
    + eapply (complete_bin_skip f 5 Xor); [reflexivity| |exact Ht].
      eapply Forall_top_not_bin; [exact HL|cbn [op_level]; lia].
    + eapply (complete_bin_skip f 4 Or); [reflexivity| |exact Ht].
      eapply Forall_top_not_bin; [exact HL|cbn [op_level]; lia].
    + eapply (complete_bin_skip f 3 Imp); [reflexivity| |exact Ht].
      eapply Forall_top_not_bin; [exact HL|cbn [op_level]; lia].
    + eapply (complete_bin_skip f 2 Iff); [reflexivity| |exact Ht].
      eapply Forall_top_not_bin; [exact HL|cbn [op_level]; lia].
    + exfalso; lia.
  - (* U_un *)
    intros o ts t _ IH f Hf.
    rewrite toks_size_cons in Hf. cbn [tok_size] in Hf.
    destruct f as [|f]; [exfalso; lia|].
    rewrite parse_eq_8. cbn [split_first is_unary].
    rewrite IH by lia. reflexivity.
  - (* U_prop *)
    intros name f Hf.
    destruct f as [|[|f]]; [exfalso; lia|exfalso; lia|].
    rewrite parse_eq_8. cbn [split_first is_unary].
    rewrite parse_eq_9 by lia. reflexivity.
  - (* U_var *)
    intros x f Hf.
    destruct f as [|[|f]]; [exfalso; lia|exfalso; lia|].
    rewrite parse_eq_8. cbn [split_first is_unary].
    rewrite parse_eq_9 by lia. reflexivity.
  - (* U_wild *)
    intros p f Hf.
    destruct f as [|[|f]]; [exfalso; lia|exfalso; lia|].
    rewrite parse_eq_8. cbn [split_first is_unary].
    rewrite parse_eq_9 by lia. reflexivity.
  - (* U_group *)
    intros ts t _ IH f Hf.
    rewrite toks_size_cons, tok_size_group, toks_size_nil in Hf.
    destruct f as [|[|f]]; [exfalso; lia|exfalso; lia|].
    rewrite parse_eq_8. cbn [split_first is_unary].
    rewrite parse_eq_9 by lia.
    apply IH. lia.
Qed.

Theorem parse_complete : forall ts t, G ts t -> parse_tokens ts = Ok t.
Proof.
  intros ts t H. unfold parse_tokens, parse_fuel.
  apply (proj1 complete_mut ts t H). lia.
Qed.

Theorem parse_iff : forall ts t, parse_tokens ts = Ok t <-> G ts t.
Proof. intros; split; [apply parse_sound | apply parse_complete]. Qed.

Theorem grammar_functional : forall ts t t', G ts t -> G ts t' -> t = t'.
Proof.
  intros ts t t' H H'.
  apply parse_complete in H. apply parse_complete in H'.
  rewrite H in H'. injection H' as <-. reflexivity.
Qed.

(** * The parser never panics and never runs out of fuel *)

Lemma total_bin_step : forall f lvl o ts,
  level_binop lvl = Some o ->
  (forall l x r, ts = l ++ x :: r -> benign (parse_lvl f (S lvl) l)) ->
  (forall l x r, ts = l ++ x :: r -> benign (parse_lvl f lvl r)) ->
  benign (parse_lvl f (S lvl) ts) ->
  benign (parse_lvl (S f) lvl ts).
Proof.
  intros f lvl o ts Hlvl Hl Hr Hs.
  rewrite (parse_eq_bin f lvl o ts Hlvl).
  destruct (split_first (is_bin o) ts) as [[[l x] r]|] eqn:E.
  - apply split_first_some in E. destruct E as (E & _ & _).
    apply benign_bind; [exact (Hl l x r E)|]. intros a.
    apply benign_bind; [exact (Hr l x r E)|]. intros b.
    apply benign_ok.
  - exact Hs.
Qed.

Lemma parse_lvl_total : forall f lvl ts,
  1 <= lvl <= 9 -> 10 * toks_size ts + 10 - lvl <= f ->
  benign (parse_lvl f lvl ts).
Proof.
  induction f as [|f IH]; intros lvl ts Hlvl Hf; [exfalso; lia|].
  assert (Hsplit : forall l x r, ts = l ++ x :: r ->
            toks_size ts = toks_size l + tok_size x + toks_size r /\ 1 <= tok_size x).
  { intros l x r ->. rewrite toks_size_app, toks_size_cons.
    pose proof (tok_size_pos x). lia. }
  destruct lvl as [|[|[|[|[|[|[|[|[|lvl]]]]]]]]]; [exfalso; lia| | | | | | | | |].
  - (* 1 *)
    rewrite parse_eq_1.
    destruct (split_first is_hybrid ts) as [[[l x] r]|] eqn:E.
    + apply split_first_some in E. destruct E as (E & Px & _).
      apply is_hybrid_true in Px. destruct Px as (o & y & d & ->).
      destruct l as [|z l]; [|apply benign_err].
      destruct (Hsplit _ _ _ E) as (Hs & _).
      rewrite toks_size_nil in Hs. cbn [tok_size] in Hs.
      apply benign_bind; [apply IH; lia|]. intros c. apply benign_ok.
    + apply IH; lia.
  - apply (total_bin_step f 2 Iff); [reflexivity| | |apply IH; lia];
      intros l x r E; destruct (Hsplit _ _ _ E); apply IH; lia.
  - apply (total_bin_step f 3 Imp); [reflexivity| | |apply IH; lia];
      intros l x r E; destruct (Hsplit _ _ _ E); apply IH; lia.
  - apply (total_bin_step f 4 Or); [reflexivity| | |apply IH; lia];
      intros l x r E; destruct (Hsplit _ _ _ E); apply IH; lia.
  - apply (total_bin_step f 5 Xor); [reflexivity| | |apply IH; lia];
      intros l x r E; destruct (Hsplit _ _ _ E); apply IH; lia.
  - apply (total_bin_step f 6 And); [reflexivity| | |apply IH; lia];
      intros l x r E; destruct (Hsplit _ _ _ E); apply IH; lia.
  - (* 7 *)
    rewrite parse_eq_7.
    destruct (split_first is_binary_temporal ts) as [[[l x] r]|] eqn:E.
    + apply split_first_some in E. destruct E as (E & Px & _).
      apply is_binary_temporal_true in Px. destruct Px as (o & -> & _).
      destruct (Hsplit _ _ _ E) as (Hs & _). cbn [tok_size] in Hs.
      apply benign_bind; [apply IH; lia|]. intros a.
      apply benign_bind; [apply IH; lia|]. intros b.
      apply benign_ok.
    + apply IH; lia.
  - (* 8 *)
    rewrite parse_eq_8.
    destruct (split_first is_unary ts) as [[[l x] r]|] eqn:E.
    + apply split_first_some in E. destruct E as (E & Px & _).
      apply is_unary_true in Px. destruct Px as (o & ->).
      destruct l as [|z l]; [|apply benign_err].
      destruct (Hsplit _ _ _ E) as (Hs & _).
      rewrite toks_size_nil in Hs. cbn [tok_size] in Hs.
      apply benign_bind; [apply IH; lia|]. intros c. apply benign_ok.
    + apply IH; lia.
  - (* 9 *)
    assert (lvl = 0) by lia. subst lvl.
    rewrite parse_eq_9 by lia.
    destruct ts as [|[u|o|h y d|[s|s| | |s]|g] [|x' ts']];
      try apply benign_err; try apply benign_ok.
    rewrite toks_size_cons, tok_size_group, toks_size_nil in Hf.
    apply IH; lia.
Qed.

Theorem parse_tokens_benign : forall ts, benign (parse_tokens ts).
Proof.
  intros ts. unfold parse_tokens, parse_fuel. apply parse_lvl_total; lia.
Qed.

Theorem parse_tokens_no_panic : forall ts p, parse_tokens ts <> Panic p.
Proof. intros ts p. apply benign_not_panic, parse_tokens_benign. Qed.

Theorem parse_tokens_no_oof : forall ts, parse_tokens ts <> OutOfFuel.
Proof. intros ts. apply benign_not_oof, parse_tokens_benign. Qed.

(** every token list outside the grammar is rejected with a parse error *)
Theorem parse_reject : forall ts,
  (forall t, ~ G ts t) -> parse_tokens ts = Err EParse.
Proof.
  intros ts H. destruct (parse_tokens_benign ts) as [(t & Ht)|Ht]; [|exact Ht].
  exfalso. exact (H t (parse_sound _ _ Ht)).
Qed.

(** * No token is dropped *)

Lemma strip_nil : strip [] = [].
Proof. reflexivity. Qed.

Lemma strip_cons : forall x l, strip (x :: l) = strip_tok x ++ strip l.
Proof. reflexivity. Qed.

Lemma strip_tok_group : forall ts, strip_tok (TGroup ts) = strip ts.
Proof. reflexivity. Qed.

Lemma strip_app : forall l r, strip (l ++ r) = strip l ++ strip r.
Proof.
  intros l r; induction l as [|x l IH].
  - reflexivity.
  - cbn [app]. rewrite !strip_cons, IH, app_assoc. reflexivity.
Qed.

Lemma leaves_mut :
  (forall ts t, G ts t -> leaves t = map norm_tok (strip ts)) /\
  (forall (n : nat) ts t, L n ts t -> leaves t = map norm_tok (strip ts)) /\
  (forall ts t, U ts t -> leaves t = map norm_tok (strip ts)).
Proof.
  apply GLU_mutind.
  - intros o x d ts t _ IH. rewrite strip_cons. cbn [strip_tok app map norm_tok leaves].
    rewrite IH. reflexivity.
  - intros ts t _ IH. exact IH.
  - intros ts t _ IH. exact IH.
  - intros n o l r a b _ _ IHl _ IHr.
    rewrite strip_app, strip_cons. cbn [strip_tok app leaves].
    rewrite map_app. cbn [map norm_tok]. rewrite IHl, IHr. reflexivity.
  - intros n ts t _ IH. exact IH.
  - intros o ts t _ IH. rewrite strip_cons. cbn [strip_tok app map norm_tok leaves].
    rewrite IH. reflexivity.
  - intros name. reflexivity.
  - intros x. reflexivity.
  - intros p. reflexivity.
  - intros ts t _ IH. rewrite strip_cons, strip_tok_group, strip_nil, app_nil_r. exact IH.
Qed.

(** the tree read in order is exactly the input without its parentheses, up to the
    spelling of the constants *)
Theorem leaves_strip : forall ts t, G ts t -> leaves t = map norm_tok (strip ts).
Proof. exact (proj1 leaves_mut). Qed.

Corollary leaves_length : forall ts t, G ts t -> length (leaves t) = length (strip ts).
Proof. intros ts t H. rewrite (leaves_strip ts t H). apply map_length. Qed.

Lemma is_atom_norm : forall x, is_atom_tok (norm_tok x) = is_atom_tok x.
Proof. intros x; destruct x as [u|o|h y d|[s|s| | |s]|g]; reflexivity. Qed.

Lemma norm_tok_non_atom : forall x, is_atom_tok x = false -> norm_tok x = x.
Proof. intros x H; destruct x as [u|o|h y d|a|g]; try reflexivity; discriminate H. Qed.

Lemma filter_ops_norm : forall l,
  filter (fun x => negb (is_atom_tok x)) (map norm_tok l) =
  filter (fun x => negb (is_atom_tok x)) l.
Proof.
  induction l as [|x l IH]; [reflexivity|].
  cbn [map filter]. rewrite is_atom_norm, IH.
  destruct (is_atom_tok x) eqn:E; cbn [negb]; [reflexivity|].
  rewrite (norm_tok_non_atom x E). reflexivity.
Qed.

(** the operator tokens (unary, binary, hybrid) are preserved exactly, in order *)
Corollary leaves_operators : forall ts t, G ts t ->
  filter (fun x => negb (is_atom_tok x)) (leaves t) =
  filter (fun x => negb (is_atom_tok x)) (strip ts).
Proof. intros ts t H. rewrite (leaves_strip ts t H). apply filter_ops_norm. Qed.

(** the atoms are preserved in order, up to the spelling of constants *)
Corollary leaves_atoms : forall ts t, G ts t ->
  filter is_atom_tok (leaves t) = map norm_tok (filter is_atom_tok (strip ts)).
Proof.
  intros ts t H. rewrite (leaves_strip ts t H).
  induction (strip ts) as [|x l IH]; [reflexivity|].
  cbn [map filter]. rewrite is_atom_norm.
  destruct (is_atom_tok x); cbn [map]; rewrite IH; reflexivity.
Qed.

(** sanity of the definitions: [strip] leaves no group, [leaves] produces none *)
Lemma strip_tok_no_group : forall x, List.Forall not_group (strip_tok x).
Proof.
  fix IH 1. intros x; destruct x as [u|o|h y d|a|g];
    try (constructor; [exact I|constructor]).
  rewrite strip_tok_group.
  induction g as [|x g IHg]; [constructor|].
  rewrite strip_cons. apply Forall_app; split; [apply IH|exact IHg].
Qed.

Lemma strip_no_group : forall ts, List.Forall not_group (strip ts).
Proof.
  induction ts as [|x ts IH]; [constructor|].
  rewrite strip_cons. apply Forall_app; split; [apply strip_tok_no_group|exact IH].
Qed.

Lemma leaves_no_group : forall t, List.Forall not_group (leaves t).
Proof.
  induction t as [a|o c IH|o l IHl r IHr|o x d c IH]; cbn [leaves].
  - repeat constructor.
  - constructor; [exact I|exact IH].
  - apply Forall_app; split; [exact IHl|]. constructor; [exact I|exact IHr].
  - constructor; [exact I|exact IH].
Qed.
