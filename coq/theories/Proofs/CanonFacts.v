(** Facts about the character-level canoniser [canonize] of Model/Canon.v (property C09).

    1. a tree-level canoniser [ctree] and the commutation [canonize (render t) = render (ctree t)];
    2. the renaming map is injective and contains every variable met;
    3. canonisation is idempotent.
    The characterisation of equal canonical texts (alpha-equivalence) is in CanonAlpha.v. *)
From HCTL Require Import Base Syntax Preprocess Canon.
From HCTL Require Import PrepFacts RoundTrip.
From HCTL Require ShellFacts.

(** * 1. Characters *)

(** characters the loop copies without looking at them ... *)
Definition plain_char (c : N) : Prop := c <> c_lpar /\ c <> c_rpar /\ c <> c_lbrace.
(** ... whatever follows them *)
Definition nb_char (c : N) : Prop := c <> c_bang /\ c <> c_three /\ c <> c_V.

Definition plain (s : str) : Prop := List.Forall plain_char s.

Definition plainb (c : N) : bool :=
  negb (N.eqb c c_lpar) && negb (N.eqb c c_rpar) && negb (N.eqb c c_lbrace).

Lemma plainb_sound (c : N) : plainb c = true -> plain_char c.
Proof.
  unfold plainb, plain_char. rewrite !andb_true_iff, !negb_true_iff, !N.eqb_neq. tauto.
Qed.

Lemma plain_of_forallb (s : str) : forallb plainb s = true -> plain s.
Proof.
  intro H. apply Forall_forall. intros c IN.
  apply plainb_sound. exact (proj1 (forallb_forall _ _) H c IN).
Qed.

Lemma plain_app (a b : str) : plain a -> plain b -> plain (a ++ b).
Proof. intros Ha Hb. apply Forall_app. split; assumption. Qed.

(** the next character is not an opening brace *)
Definition nlb (cs : str) : Prop :=
  match cs with c :: _ => c <> c_lbrace | [] => True end.

Lemma nlb_plain_app (s rest : str) : plain s -> nlb rest -> nlb (s ++ rest).
Proof.
  intros Hs Hr. destruct s as [|c s]; [exact Hr|].
  cbn [app nlb]. inversion Hs as [|c' s' Hc Hs' E]; subst. apply Hc.
Qed.

(** * 2. [read_to_rbrace] *)

Definition var_ok (x : str) : Prop := ~ In c_rbrace x.

Lemma rtr_app (x rest : str) :
  var_ok x -> read_to_rbrace (x ++ c_rbrace :: rest) = (x, rest).
Proof.
  unfold var_ok. induction x as [|c x IH]; intro NIN.
  - cbn [app read_to_rbrace]. rewrite N.eqb_refl. reflexivity.
  - cbn [app read_to_rbrace]. cbn [In] in NIN.
    destruct (N.eqb_spec c c_rbrace) as [E|NE]; [exfalso; apply NIN; left; congruence|].
    rewrite IH by (intro IN; apply NIN; right; exact IN). reflexivity.
Qed.

Lemma rtr_len (cs : str) : length (snd (read_to_rbrace cs)) <= length cs.
Proof.
  induction cs as [|c cs IH]; cbn [read_to_rbrace]; [cbn [snd length]; lia|].
  destruct (N.eqb c c_rbrace); [cbn [snd length]; lia|].
  destruct (read_to_rbrace cs) as [n r]. cbn [snd length] in *. lia.
Qed.

(** * 3. The loop does not depend on its fuel *)

Lemma canon_loop_fuel :
  forall f1 f2 cs ren out cnt depth,
    length cs < f1 -> length cs < f2 ->
    canon_loop f1 cs ren out cnt depth = canon_loop f2 cs ren out cnt depth.
Proof.
  induction f1 as [|f1 IH]; intros f2 cs ren out cnt depth L1 L2; [lia|].
  destruct f2 as [|f2]; [lia|].
  destruct cs as [|c rest]; [reflexivity|].
  cbn [length] in L1, L2. cbn [canon_loop].
  destruct (N.eqb c c_lpar); [apply IH; lia|].
  destruct (N.eqb c c_rpar).
  { destruct depth as [|d]; [reflexivity | apply IH; lia]. }
  destruct ((N.eqb c c_bang || N.eqb c c_three || N.eqb c c_V)
            && match rest with c2 :: _ => N.eqb c2 c_lbrace | [] => false end).
  { pose proof (rtr_len (tl rest)) as LEN.
    assert (length (tl rest) <= length rest) as LT by (destruct rest; cbn [tl length]; lia).
    destruct (read_to_rbrace (tl rest)) as [name rest']. cbn [snd] in LEN.
    apply IH; lia. }
  destruct (N.eqb c c_lbrace).
  { pose proof (rtr_len rest) as LEN.
    destruct (read_to_rbrace rest) as [name rest']. cbn [snd] in LEN.
    destruct (alookup str_eqb name ren); apply IH; lia. }
  apply IH; lia.
Qed.

(** the loop with enough fuel, the output so far given in reading order *)
Definition cl (cs : str) (ren : list (str * str)) (pre : str) (cnt : N) (depth : nat)
  : str * list (str * str) :=
  canon_loop (S (length cs)) cs ren (rev pre) cnt depth.

Lemma canon_loop_S f c rest ren out cnt depth :
  canon_loop (S f) (c :: rest) ren out cnt depth =
  if N.eqb c c_lpar then canon_loop f rest ren (c :: out) cnt (S depth)
  else if N.eqb c c_rpar then
    match depth with
    | O => (rev (c :: out), ren)
    | S d => canon_loop f rest ren (c :: out) cnt d
    end
  else if (N.eqb c c_bang || N.eqb c c_three || N.eqb c c_V)
          && match rest with c2 :: _ => N.eqb c2 c_lbrace | [] => false end then
    let (name, rest') := read_to_rbrace (tl rest) in
    let cn := canon_name cnt in
    canon_loop f rest' (ainsert str_eqb name cn ren)
               (rev (c :: c_lbrace :: cn ++ [c_rbrace]) ++ out) (cnt + 1)%N depth
  else if N.eqb c c_lbrace then
    let (name, rest') := read_to_rbrace rest in
    match alookup str_eqb name ren with
    | Some cn =>
        canon_loop f rest' ren (rev (c_lbrace :: cn ++ [c_rbrace]) ++ out) cnt depth
    | None =>
        let cn := canon_name cnt in
        canon_loop f rest' (ainsert str_eqb name cn ren)
                   (rev (c_lbrace :: cn ++ [c_rbrace]) ++ out) (cnt + 1)%N depth
    end
  else canon_loop f rest ren (c :: out) cnt depth.
Proof. reflexivity. Qed.

Lemma canonize_cl (cs : str) : canonize cs = cl cs [] [] 0%N 0.
Proof. reflexivity. Qed.

Lemma cl_nil ren pre cnt depth : cl [] ren pre cnt depth = (pre, ren).
Proof. unfold cl. cbn [length canon_loop]. rewrite rev_involutive. reflexivity. Qed.

Lemma cl_lpar rest ren pre cnt depth :
  cl (c_lpar :: rest) ren pre cnt depth = cl rest ren (pre ++ [c_lpar]) cnt (S depth).
Proof.
  unfold cl. rewrite canon_loop_S. rewrite N.eqb_refl, rev_unit. reflexivity.
Qed.

Lemma cl_rpar rest ren pre cnt depth :
  cl (c_rpar :: rest) ren pre cnt (S depth) = cl rest ren (pre ++ [c_rpar]) cnt depth.
Proof.
  unfold cl. rewrite canon_loop_S.
  change (N.eqb c_rpar c_lpar) with false. rewrite N.eqb_refl, rev_unit. reflexivity.
Qed.

Lemma cl_plain1 c rest ren pre cnt depth :
  plain_char c -> nb_char c \/ nlb rest ->
  cl (c :: rest) ren pre cnt depth = cl rest ren (pre ++ [c]) cnt depth.
Proof.
  intros (N1 & N2 & N3) NB. unfold cl. rewrite canon_loop_S.
  apply N.eqb_neq in N1, N2, N3. rewrite N1, N2, N3.
  assert ((N.eqb c c_bang || N.eqb c c_three || N.eqb c c_V)
          && match rest with c2 :: _ => N.eqb c2 c_lbrace | [] => false end = false) as ->.
  { destruct NB as [(B1 & B2 & B3) | NL].
    - apply N.eqb_neq in B1, B2, B3. rewrite B1, B2, B3. reflexivity.
    - destruct rest as [|c2 r]; [apply andb_false_r|].
      cbn [nlb] in NL. apply N.eqb_neq in NL. rewrite NL. apply andb_false_r. }
  rewrite rev_unit. reflexivity.
Qed.

Lemma cl_copy s : forall rest ren pre cnt depth,
  plain s -> nlb rest ->
  cl (s ++ rest) ren pre cnt depth = cl rest ren (pre ++ s) cnt depth.
Proof.
  induction s as [|c s IH]; intros rest ren pre cnt depth Hs Hr.
  - cbn [app]. rewrite app_nil_r. reflexivity.
  - inversion Hs as [|c' s' Hc Hs' E]; subst. cbn [app].
    rewrite cl_plain1; [|exact Hc | right; apply nlb_plain_app; assumption].
    rewrite IH by assumption. rewrite <- app_assoc. reflexivity.
Qed.

(** a plain word followed by a character that is not the first of a binder *)
Lemma cl_copy_sp s c rest ren pre cnt depth :
  plain s -> plain_char c -> nb_char c ->
  cl (s ++ c :: rest) ren pre cnt depth = cl rest ren (pre ++ s ++ [c]) cnt depth.
Proof.
  intros Hs Hc Hn. rewrite cl_copy; [|exact Hs | cbn [nlb]; apply Hc].
  rewrite cl_plain1; [|exact Hc | left; exact Hn]. rewrite <- app_assoc. reflexivity.
Qed.

Definition binder_char (c : N) : Prop := c = c_bang \/ c = c_three \/ c = c_V.

Lemma cl_binder c x rest ren pre cnt depth :
  binder_char c -> var_ok x ->
  cl (c :: c_lbrace :: x ++ c_rbrace :: rest) ren pre cnt depth =
  cl rest (ainsert str_eqb x (canon_name cnt) ren)
     (pre ++ c :: c_lbrace :: canon_name cnt ++ [c_rbrace]) (cnt + 1)%N depth.
Proof.
  intros BC OK. unfold cl. rewrite canon_loop_S.
  assert (N.eqb c c_lpar = false /\ N.eqb c c_rpar = false
          /\ (N.eqb c c_bang || N.eqb c c_three || N.eqb c c_V) = true) as (E1 & E2 & E3).
  { destruct BC as [-> | [-> | ->]]; repeat split; reflexivity. }
  rewrite E1, E2, E3, N.eqb_refl. cbn [andb tl].
  rewrite (rtr_app x rest OK). rewrite <- rev_app_distr.
  apply canon_loop_fuel; [|lia]. cbn [length]. rewrite app_length. cbn [length]. lia.
Qed.

Lemma cl_occ x rest ren pre cnt depth :
  var_ok x ->
  cl (c_lbrace :: x ++ c_rbrace :: rest) ren pre cnt depth =
  match alookup str_eqb x ren with
  | Some cn => cl rest ren (pre ++ c_lbrace :: cn ++ [c_rbrace]) cnt depth
  | None => cl rest (ainsert str_eqb x (canon_name cnt) ren)
               (pre ++ c_lbrace :: canon_name cnt ++ [c_rbrace]) (cnt + 1)%N depth
  end.
Proof.
  intros OK. unfold cl. rewrite canon_loop_S.
  change (N.eqb c_lbrace c_lpar) with false. change (N.eqb c_lbrace c_rpar) with false.
  change (N.eqb c_lbrace c_bang || N.eqb c_lbrace c_three || N.eqb c_lbrace c_V) with false.
  cbn [andb]. rewrite N.eqb_refl. rewrite (rtr_app x rest OK).
  assert (length rest < length (c_lbrace :: x ++ c_rbrace :: rest)) as LT
    by (cbn [length]; rewrite app_length; cbn [length]; lia).
  destruct (alookup str_eqb x ren) as [cn|]; rewrite <- rev_app_distr;
    apply canon_loop_fuel; lia.
Qed.

(** * 4. The tree-level canoniser *)

(** counter and renaming map *)
Definition cstate := (N * list (str * str))%type.

(** a binder: always a fresh canonical name, the map entry is overwritten *)
Definition cbind (x : str) (s : cstate) : str * cstate :=
  (canon_name (fst s),
   ((fst s + 1)%N, ainsert str_eqb x (canon_name (fst s)) (snd s))).

(** an occurrence or a jump target: the mapped name, a fresh one if there is none *)
Definition cocc (x : str) (s : cstate) : str * cstate :=
  match alookup str_eqb x (snd s) with
  | Some cn => (cn, s)
  | None => cbind x s
  end.

(** visit order = order of the rendered text (the variable of a jump is printed first) *)
Fixpoint ctree (t : tree) (s : cstate) : tree * cstate :=
  match t with
  | Terminal (AVar x) => let (cn, s') := cocc x s in (Terminal (AVar cn), s')
  | Terminal _ => (t, s)
  | Unary o c => let (c', s') := ctree c s in (Unary o c', s')
  | Binary o l r =>
      let (l', s1) := ctree l s in
      let (r', s2) := ctree r s1 in
      (Binary o l' r', s2)
  | Hybrid o x d c =>
      let (cn, s1) := if is_quantifier o then cbind x s else cocc x s in
      let (c', s2) := ctree c s1 in
      (Hybrid o cn d c', s2)
  end.

Definition canon_tree (t : tree) : tree := fst (ctree t (0%N, [])).
Definition canon_map (t : tree) : list (str * str) := snd (snd (ctree t (0%N, []))).

(** the side condition: variable names do not contain '}', the names printed bare or between
    '%' (propositions, wild-cards, domains) contain none of '(' ')' '{' *)
Definition atom_cok (a : atom) : Prop :=
  match a with
  | AProp p => plain p
  | AVar x => var_ok x
  | AWild p => plain p
  | ATrue | AFalse => True
  end.

Definition dom_cok (d : option str) : Prop :=
  match d with Some l => plain l | None => True end.

Fixpoint canon_ok (t : tree) : Prop :=
  match t with
  | Terminal a => atom_cok a
  | Unary _ c => canon_ok c
  | Binary _ l r => canon_ok l /\ canon_ok r
  | Hybrid _ x d c => var_ok x /\ dom_cok d /\ canon_ok c
  end.

Lemma plain_unop_sp o : plain (unop_str o).
Proof. apply plain_of_forallb. destruct o; reflexivity. Qed.

Lemma plain_binop o : plain (c_space :: binop_str o).
Proof. apply plain_of_forallb. destruct o; reflexivity. Qed.

Lemma plain_space : plain_char c_space.
Proof. apply plainb_sound. reflexivity. Qed.

Lemma nb_space : nb_char c_space.
Proof. repeat split; discriminate. Qed.

Lemma plain_domain d : dom_cok d -> plain (domain_str d ++ [c_colon]).
Proof.
  intro H. destruct d as [l|]; cbn [domain_str dom_cok] in *.
  - apply plain_app; [|apply plain_of_forallb; reflexivity].
    change (plain ([c_space; c_i; c_n; c_space; c_pct] ++ l ++ [c_pct])).
    apply plain_app; [apply plain_of_forallb; reflexivity|].
    apply plain_app; [exact H | apply plain_of_forallb; reflexivity].
  - apply plain_of_forallb. reflexivity.
Qed.

Lemma cl_render (t : tree) :
  canon_ok t ->
  forall rest ren pre cnt depth, nlb rest ->
    cl (render t ++ rest) ren pre cnt depth =
    cl rest (snd (snd (ctree t (cnt, ren))))
       (pre ++ render (fst (ctree t (cnt, ren))))
       (fst (snd (ctree t (cnt, ren)))) depth.
Proof.
  induction t as [a | o c IH | o l IHl r IHr | o x d c IH];
    intros OK rest ren pre cnt depth NL; cbn [canon_ok] in OK.
  - destruct a as [p | x | | | w]; cbn [atom_cok] in OK; cbn [ctree fst snd render atom_str].
    + apply cl_copy; assumption.
    + cbn [app]. rewrite <- app_assoc. cbn [app]. rewrite (cl_occ x) by exact OK.
      unfold cocc, cbind. cbn [fst snd].
      destruct (alookup str_eqb x ren) as [cn|]; cbn [fst snd render atom_str]; reflexivity.
    + apply cl_copy; [apply plain_of_forallb; reflexivity | exact NL].
    + apply cl_copy; [apply plain_of_forallb; reflexivity | exact NL].
    + apply cl_copy; [|exact NL].
      change (plain ([c_pct] ++ w ++ [c_pct])).
      apply plain_app; [apply plain_of_forallb; reflexivity|].
      apply plain_app; [exact OK | apply plain_of_forallb; reflexivity].
  - rewrite render_unary_app, cl_lpar. cbn [ctree].
    assert (forall s0 c0 pre',
      plain s0 -> plain_char c0 -> nb_char c0 ->
      cl (s0 ++ c0 :: render c ++ c_rpar :: rest) ren pre' cnt (S depth) =
      cl rest (snd (snd (ctree c (cnt, ren))))
         (pre' ++ s0 ++ c0 :: render (fst (ctree c (cnt, ren))) ++ [c_rpar])
         (fst (snd (ctree c (cnt, ren)))) depth) as STEP.
    { intros s0 c0 pre' Hs Hc Hn.
      rewrite cl_copy_sp by assumption.
      rewrite IH by (try exact OK; cbn [nlb]; discriminate).
      rewrite cl_rpar. f_equal. repeat rewrite <- app_assoc. cbn [app]. reflexivity. }
    destruct (ctree c (cnt, ren)) as [c' [cnt' ren']] eqn:E. cbn [fst snd] in *.
    assert (plain_char c_tilde /\ nb_char c_tilde) as [PT NT]
      by (split; [apply plainb_sound; reflexivity | repeat split; discriminate]).
    destruct o;
      [ rewrite (STEP [] c_tilde) by (try assumption; constructor)
      | rewrite STEP by (try apply plain_unop_sp; try apply plain_space; apply nb_space) .. ];
      f_equal; cbn [render unop_str app]; repeat rewrite <- app_assoc; reflexivity.
  - destruct OK as [OKl OKr]. rewrite render_binary_app, cl_lpar. cbn [ctree].
    rewrite IHl by (try exact OKl; cbn [nlb]; discriminate).
    destruct (ctree l (cnt, ren)) as [l' [cnt1 ren1]] eqn:El. cbn [fst snd].
    change (c_space :: binop_str o ++ c_space :: render r ++ c_rpar :: rest)
      with ((c_space :: binop_str o) ++ c_space :: render r ++ c_rpar :: rest).
    rewrite cl_copy_sp; [|apply plain_binop | apply plain_space | apply nb_space].
    rewrite IHr by (try exact OKr; cbn [nlb]; discriminate).
    destruct (ctree r (cnt1, ren1)) as [r' [cnt2 ren2]] eqn:Er. cbn [fst snd].
    rewrite cl_rpar. f_equal. cbn [render]. repeat rewrite <- app_assoc. cbn [app].
    repeat rewrite <- app_assoc. reflexivity.
  - destruct OK as (OKx & OKd & OKc). rewrite render_hybrid_app, cl_lpar. cbn [ctree].
    assert (forall ren1 cnt1 pre',
      cl (domain_str d ++ c_colon :: c_space :: render c ++ c_rpar :: rest) ren1 pre' cnt1
         (S depth) =
      cl rest (snd (snd (ctree c (cnt1, ren1))))
         (pre' ++ domain_str d ++ c_colon :: c_space
            :: render (fst (ctree c (cnt1, ren1))) ++ [c_rpar])
         (fst (snd (ctree c (cnt1, ren1)))) depth) as STEP.
    { intros ren1 cnt1 pre'.
      replace (domain_str d ++ c_colon :: c_space :: render c ++ c_rpar :: rest)
        with ((domain_str d ++ [c_colon]) ++ c_space :: render c ++ c_rpar :: rest)
        by (rewrite <- app_assoc; reflexivity).
      rewrite cl_copy_sp; [|apply plain_domain, OKd | apply plain_space | apply nb_space].
      rewrite IH by (try exact OKc; cbn [nlb]; discriminate).
      rewrite cl_rpar. f_equal. repeat rewrite <- app_assoc. cbn [app]. reflexivity. }
    destruct (is_quantifier o) eqn:Q.
    + assert (exists b, hybop_str o = [b] /\ binder_char b) as (b & Eb & BC).
      { destruct o; try discriminate Q; eexists; (split; [reflexivity|]); unfold binder_char; auto. }
      rewrite Eb. cbn [app]. rewrite cl_binder by assumption.
      unfold cbind. cbn [fst snd]. rewrite STEP.
      destruct (ctree c ((cnt + 1)%N, ainsert str_eqb x (canon_name cnt) ren))
        as [c' [cnt2 ren2]] eqn:Ec. cbn [fst snd].
      f_equal. cbn [render]. rewrite Eb. repeat rewrite <- app_assoc. cbn [app].
      repeat rewrite <- app_assoc. reflexivity.
    + assert (o = Jump) as -> by (destruct o; try discriminate Q; reflexivity).
      cbn [hybop_str app].
      rewrite cl_plain1; [|apply plainb_sound; reflexivity | left; repeat split; discriminate].
      rewrite cl_occ by exact OKx. unfold cocc, cbind. cbn [fst snd].
      destruct (alookup str_eqb x ren) as [cn|]; rewrite STEP.
      * destruct (ctree c (cnt, ren)) as [c' [cnt2 ren2]] eqn:Ec. cbn [fst snd].
        f_equal. cbn [render hybop_str]. repeat rewrite <- app_assoc. cbn [app].
        repeat rewrite <- app_assoc. reflexivity.
      * destruct (ctree c ((cnt + 1)%N, ainsert str_eqb x (canon_name cnt) ren))
          as [c' [cnt2 ren2]] eqn:Ec. cbn [fst snd].
        f_equal. cbn [render hybop_str]. repeat rewrite <- app_assoc. cbn [app].
        repeat rewrite <- app_assoc. reflexivity.
Qed.

(** the same statement about [canon_loop] itself, for any sufficient fuel *)
Lemma canon_loop_render (t : tree) (rest : str) (ren : list (str * str)) (pre : str) (cnt : N)
      (depth fuel : nat) :
  canon_ok t ->
  match rest with c :: _ => c <> c_lbrace | [] => True end ->
  length (render t ++ rest) < fuel ->
  canon_loop fuel (render t ++ rest) ren (rev pre) cnt depth
  = canon_loop (S (length rest)) rest (snd (snd (ctree t (cnt, ren))))
               (rev (pre ++ render (fst (ctree t (cnt, ren)))))
               (fst (snd (ctree t (cnt, ren)))) depth.
Proof.
  intros OK NL LT.
  transitivity (cl (render t ++ rest) ren pre cnt depth).
  - unfold cl. apply canon_loop_fuel; lia.
  - rewrite (cl_render t OK rest ren pre cnt depth NL). reflexivity.
Qed.

Theorem canon_commutes (t : tree) :
  canon_ok t -> canonize (render t) = (render (canon_tree t), canon_map t).
Proof.
  intro OK. rewrite canonize_cl.
  rewrite <- (app_nil_r (render t)).
  rewrite (cl_render t OK [] [] [] 0%N 0 I). rewrite cl_nil. reflexivity.
Qed.

(** * 5. Canonical names *)

Lemma canon_name_inj (a b : N) : canon_name a = canon_name b -> a = b.
Proof.
  unfold canon_name. intro E. apply app_inv_head in E. apply ShellFacts.dec_of_N_inj, E.
Qed.

Definition digit (c : N) : Prop := (48 <= c <= 57)%N.

Lemma dec_digits_digit : forall f n acc,
  List.Forall digit acc -> List.Forall digit (dec_digits f n acc).
Proof.
  induction f as [|f IH]; intros n acc H; cbn [dec_digits]; [exact H|].
  assert (List.Forall digit ((48 + n mod 10)%N :: acc)) as H'.
  { constructor; [|exact H]. unfold digit.
    assert (n mod 10 < 10)%N as LT by (apply N.mod_lt; discriminate).
    generalize dependent (n mod 10)%N. intros m LT. lia. }
  destruct (N.eqb (n / 10) 0); [exact H' | apply IH, H'].
Qed.

Lemma dec_of_N_digit (n : N) : List.Forall digit (dec_of_N n).
Proof. apply dec_digits_digit. constructor. Qed.

(** letters and digits below 128 *)
Definition ascii_alnum (c : N) : Prop :=
  (48 <= c <= 57 \/ 65 <= c <= 90 \/ 97 <= c <= 122)%N.

Lemma canon_name_alnum (n : N) : List.Forall ascii_alnum (canon_name n).
Proof.
  unfold canon_name. apply Forall_app. split.
  - unfold s_var, ascii_alnum. repeat constructor; lia.
  - eapply Forall_impl; [|apply dec_of_N_digit]. unfold digit, ascii_alnum. intros c H. lia.
Qed.

Lemma canon_name_var_ok (n : N) : var_ok (canon_name n).
Proof.
  unfold var_ok. intro IN.
  pose proof (proj1 (Forall_forall _ _) (canon_name_alnum n) _ IN) as H.
  unfold ascii_alnum, c_rbrace in H. lia.
Qed.

Lemma canon_name_name_ok (ext_alnum : N -> bool) (n : N) : name_ok ext_alnum (canon_name n).
Proof.
  split; [unfold canon_name, s_var; discriminate|].
  eapply Forall_impl; [|apply canon_name_alnum].
  intros c H. unfold ascii_alnum in H.
  unfold Tokenizer.is_name_char, Tokenizer.is_alnum, Tokenizer.in_range.
  destruct (N.ltb_spec c 128) as [LT|GE]; [|lia].
  apply orb_true_iff. left. rewrite !orb_true_iff, !andb_true_iff, !N.leb_le. lia.
Qed.

(** * 6. Association lists *)

Lemma alookup_ainsert (x y v : str) (l : list (str * str)) :
  alookup str_eqb y (ainsert str_eqb x v l)
  = if str_eqb y x then Some v else alookup str_eqb y l.
Proof.
  unfold ainsert. cbn [alookup]. destruct (str_eqb y x) eqn:E; [reflexivity|].
  str_eq. apply alookup_aremove_neq, E.
Qed.

(** * 7. The renaming map: every value is an issued canonical name, distinct keys have
      distinct values, keys are never removed *)

Definition map_inv (s : cstate) : Prop :=
  (forall x cn, alookup str_eqb x (snd s) = Some cn ->
                exists i, (i < fst s)%N /\ cn = canon_name i)
  /\ (forall x y cn, alookup str_eqb x (snd s) = Some cn ->
                     alookup str_eqb y (snd s) = Some cn -> x = y).

Lemma map_inv_init : map_inv (0%N, []).
Proof. split; cbn [snd alookup]; intros; discriminate. Qed.

Lemma map_inv_cbind (x : str) (s : cstate) : map_inv s -> map_inv (snd (cbind x s)).
Proof.
  intros [VAL INJ]. unfold map_inv, cbind. cbn [fst snd]. split.
  - intros y cn L. rewrite alookup_ainsert in L.
    destruct (str_eqb y x).
    + injection L as <-. exists (fst s). split; [lia | reflexivity].
    + destruct (VAL y cn L) as (i & LT & ->). exists i. split; [lia | reflexivity].
  - intros y z cn Ly Lz. rewrite alookup_ainsert in Ly, Lz.
    destruct (str_eqb y x) eqn:Ey, (str_eqb z x) eqn:Ez; str_eq.
    + congruence.
    + injection Ly as <-. destruct (VAL z _ Lz) as (i & LT & E).
      apply canon_name_inj in E. lia.
    + injection Lz as <-. destruct (VAL y _ Ly) as (i & LT & E).
      apply canon_name_inj in E. lia.
    + eapply INJ; eassumption.
Qed.

Lemma map_inv_cocc (x : str) (s : cstate) : map_inv s -> map_inv (snd (cocc x s)).
Proof.
  intro H. unfold cocc. destruct (alookup str_eqb x (snd s)); [exact H | apply map_inv_cbind, H].
Qed.

Lemma map_inv_ctree (t : tree) : forall s, map_inv s -> map_inv (snd (ctree t s)).
Proof.
  induction t as [a | o c IH | o l IHl r IHr | o x d c IH]; intros s H; cbn [ctree].
  - destruct a as [p | x | | | w]; try exact H.
    pose proof (map_inv_cocc x s H) as H'. destruct (cocc x s) as [cn s']. exact H'.
  - specialize (IH s H). destruct (ctree c s) as [c' s']. exact IH.
  - specialize (IHl s H). destruct (ctree l s) as [l' s1]. cbn [snd] in IHl.
    specialize (IHr s1 IHl). destruct (ctree r s1) as [r' s2]. exact IHr.
  - assert (map_inv (snd (if is_quantifier o then cbind x s else cocc x s))) as H1
      by (destruct (is_quantifier o); [apply map_inv_cbind | apply map_inv_cocc]; exact H).
    destruct (if is_quantifier o then cbind x s else cocc x s) as [cn s1]. cbn [snd] in H1.
    specialize (IH s1 H1). destruct (ctree c s1) as [c' s2]. exact IH.
Qed.

(** [x] is the name of a binder, of a variable occurrence or of a jump target of [t] *)
Fixpoint occurs (x : str) (t : tree) : Prop :=
  match t with
  | Terminal (AVar y) => x = y
  | Terminal _ => False
  | Unary _ c => occurs x c
  | Binary _ l r => occurs x l \/ occurs x r
  | Hybrid _ y _ c => x = y \/ occurs x c
  end.

(** [x] occurs free in [t] *)
Fixpoint free_in (x : str) (t : tree) : Prop :=
  match t with
  | Terminal (AVar y) => x = y
  | Terminal _ => False
  | Unary _ c => free_in x c
  | Binary _ l r => free_in x l \/ free_in x r
  | Hybrid o y _ c =>
      if is_quantifier o then x <> y /\ free_in x c else x = y \/ free_in x c
  end.

Lemma free_in_occurs (x : str) (t : tree) : free_in x t -> occurs x t.
Proof.
  induction t as [a | o c IH | o l IHl r IHr | o y d c IH]; cbn [free_in occurs].
  - destruct a; auto.
  - exact IH.
  - intros [H|H]; [left | right]; auto.
  - destruct (is_quantifier o); [intros [_ H] | intros [H|H]]; auto.
Qed.

Definition mapped (x : str) (s : cstate) : Prop := amem str_eqb x (snd s) = true.

Lemma mapped_cbind_same (x : str) (s : cstate) : mapped x (snd (cbind x s)).
Proof.
  unfold mapped, amem, cbind. cbn [snd]. rewrite alookup_ainsert, str_eqb_refl. reflexivity.
Qed.

Lemma mapped_cbind (x y : str) (s : cstate) : mapped y s -> mapped y (snd (cbind x s)).
Proof.
  unfold mapped, amem, cbind. cbn [snd]. rewrite alookup_ainsert.
  destruct (str_eqb y x); [reflexivity | exact (fun H => H)].
Qed.

Lemma mapped_cocc_same (x : str) (s : cstate) : mapped x (snd (cocc x s)).
Proof.
  unfold cocc. destruct (alookup str_eqb x (snd s)) eqn:L.
  - unfold mapped, amem. cbn [snd]. rewrite L. reflexivity.
  - apply mapped_cbind_same.
Qed.

Lemma mapped_cocc (x y : str) (s : cstate) : mapped y s -> mapped y (snd (cocc x s)).
Proof.
  intro H. unfold cocc. destruct (alookup str_eqb x (snd s)); [exact H | apply mapped_cbind, H].
Qed.

Lemma mapped_ctree (t : tree) :
  forall s, (forall y, mapped y s -> mapped y (snd (ctree t s)))
            /\ (forall y, occurs y t -> mapped y (snd (ctree t s))).
Proof.
  induction t as [a | o c IH | o l IHl r IHr | o x d c IH]; intros s; cbn [ctree occurs].
  - destruct a as [p | x | | | w]; try (split; [intros y H; exact H | intros y []]).
    pose proof (mapped_cocc_same x s) as S.
    destruct (cocc x s) as [cn s'] eqn:E. cbn [snd] in *. split.
    + intros y H. pose proof (mapped_cocc x y s H) as M. rewrite E in M. exact M.
    + intros y ->. exact S.
  - specialize (IH s). destruct (ctree c s) as [c' s']. exact IH.
  - destruct (IHl s) as [Kl Ol]. destruct (ctree l s) as [l' s1]. cbn [snd] in *.
    destruct (IHr s1) as [Kr Or]. destruct (ctree r s1) as [r' s2]. cbn [snd] in *. split.
    + intros y H. apply Kr, Kl, H.
    + intros y [H|H]; [apply Kr, Ol, H | apply Or, H].
  - assert ((forall y, mapped y s ->
               mapped y (snd (if is_quantifier o then cbind x s else cocc x s)))
            /\ mapped x (snd (if is_quantifier o then cbind x s else cocc x s))) as [K1 S1].
    { destruct (is_quantifier o); split;
        auto using mapped_cbind, mapped_cocc, mapped_cbind_same, mapped_cocc_same. }
    destruct (if is_quantifier o then cbind x s else cocc x s) as [cn s1]. cbn [snd] in *.
    destruct (IH s1) as [K O]. destruct (ctree c s1) as [c' s2]. cbn [snd] in *. split.
    + intros y H. apply K, K1, H.
    + intros y [-> | H]; [apply K, S1 | apply O, H].
Qed.

Theorem canon_map_spec (t : tree) :
  (forall x, occurs x t -> exists i, alookup str_eqb x (canon_map t) = Some (canon_name i))
  /\ (forall x y cn, alookup str_eqb x (canon_map t) = Some cn ->
                     alookup str_eqb y (canon_map t) = Some cn -> x = y).
Proof.
  unfold canon_map.
  pose proof (map_inv_ctree t _ map_inv_init) as [VAL INJ].
  destruct (mapped_ctree t (0%N, [])) as [_ OCC]. split.
  - intros x H. specialize (OCC x H). unfold mapped, amem in OCC.
    destruct (alookup str_eqb x (snd (snd (ctree t (0%N, []))))) as [cn|] eqn:L; [|discriminate].
    destruct (VAL x cn L) as (i & _ & ->). exists i. reflexivity.
  - exact INJ.
Qed.

Theorem canon_renaming_injective (t : tree) :
  canon_ok t ->
  (forall x, free_in x t ->
     exists i, alookup str_eqb x (snd (canonize (render t))) = Some (canon_name i))
  /\ (forall x y cn, alookup str_eqb x (snd (canonize (render t))) = Some cn ->
                     alookup str_eqb y (snd (canonize (render t))) = Some cn -> x = y).
Proof.
  intro OK. rewrite (canon_commutes t OK). cbn [snd].
  destruct (canon_map_spec t) as [OCC INJ]. split; [|exact INJ].
  intros x H. apply OCC, free_in_occurs, H.
Qed.

(** * 8. Idempotence *)

(** [ren2] is the map built when the canonical text is canonised again *)
Definition idem_inv (cnt : N) (ren ren2 : list (str * str)) : Prop :=
  (forall x cn, alookup str_eqb x ren = Some cn -> alookup str_eqb cn ren2 = Some cn)
  /\ (forall k v, alookup str_eqb k ren2 = Some v -> exists i, (i < cnt)%N /\ k = canon_name i).

Lemma idem_inv_fresh cnt ren ren2 :
  idem_inv cnt ren ren2 -> alookup str_eqb (canon_name cnt) ren2 = None.
Proof.
  intros [_ KEYS]. destruct (alookup str_eqb (canon_name cnt) ren2) as [v|] eqn:L; [|reflexivity].
  destruct (KEYS _ _ L) as (i & LT & E). apply canon_name_inj in E. lia.
Qed.

Lemma idem_inv_bind cnt ren ren2 x :
  idem_inv cnt ren ren2 ->
  idem_inv (cnt + 1) (ainsert str_eqb x (canon_name cnt) ren)
           (ainsert str_eqb (canon_name cnt) (canon_name cnt) ren2).
Proof.
  intros H. pose proof (idem_inv_fresh _ _ _ H) as FR. destruct H as [FIX KEYS]. split.
  - intros y cn L. rewrite alookup_ainsert in L. rewrite alookup_ainsert.
    destruct (str_eqb y x).
    + injection L as <-. rewrite str_eqb_refl. reflexivity.
    + specialize (FIX y cn L). destruct (str_eqb cn (canon_name cnt)) eqn:E; str_eq.
      * congruence.
      * exact FIX.
  - intros k v L. rewrite alookup_ainsert in L.
    destruct (str_eqb k (canon_name cnt)) eqn:E; str_eq.
    + exists cnt. split; [lia | exact E].
    + destruct (KEYS k v L) as (i & LT & ->). exists i. split; [lia | reflexivity].
Qed.

Lemma cbind_idem cnt ren ren2 x :
  idem_inv cnt ren ren2 ->
  exists ren2',
    cbind (fst (cbind x (cnt, ren))) (cnt, ren2)
    = (fst (cbind x (cnt, ren)), (fst (snd (cbind x (cnt, ren))), ren2'))
    /\ idem_inv (fst (snd (cbind x (cnt, ren)))) (snd (snd (cbind x (cnt, ren)))) ren2'.
Proof.
  intro H. unfold cbind. cbn [fst snd]. eexists. split; [reflexivity|].
  apply idem_inv_bind, H.
Qed.

Lemma cocc_idem cnt ren ren2 x :
  idem_inv cnt ren ren2 ->
  exists ren2',
    cocc (fst (cocc x (cnt, ren))) (cnt, ren2)
    = (fst (cocc x (cnt, ren)), (fst (snd (cocc x (cnt, ren))), ren2'))
    /\ idem_inv (fst (snd (cocc x (cnt, ren)))) (snd (snd (cocc x (cnt, ren)))) ren2'.
Proof.
  intro H. destruct (alookup str_eqb x ren) as [cn|] eqn:L.
  - assert (cocc x (cnt, ren) = (cn, (cnt, ren))) as ->
      by (unfold cocc; cbn [snd]; rewrite L; reflexivity).
    cbn [fst snd]. exists ren2. split; [|exact H].
    unfold cocc. cbn [snd]. rewrite (proj1 H x cn L). reflexivity.
  - assert (cocc x (cnt, ren) = cbind x (cnt, ren)) as ->
      by (unfold cocc; cbn [snd]; rewrite L; reflexivity).
    destruct (cbind_idem cnt ren ren2 x H) as (ren2' & E & H').
    exists ren2'. split; [|exact H']. rewrite <- E.
    unfold cocc. cbn [snd]. change (fst (cbind x (cnt, ren))) with (canon_name cnt).
    rewrite (idem_inv_fresh _ _ _ H). reflexivity.
Qed.

Lemma ctree_idem (t : tree) :
  forall cnt ren ren2,
    idem_inv cnt ren ren2 ->
    exists ren2',
      ctree (fst (ctree t (cnt, ren))) (cnt, ren2)
      = (fst (ctree t (cnt, ren)), (fst (snd (ctree t (cnt, ren))), ren2'))
      /\ idem_inv (fst (snd (ctree t (cnt, ren)))) (snd (snd (ctree t (cnt, ren)))) ren2'.
Proof.
  induction t as [a | o c IH | o l IHl r IHr | o x d c IH]; intros cnt ren ren2 H; cbn [ctree].
  - destruct a as [p | x | | | w]; try (exists ren2; split; [reflexivity | exact H]).
    destruct (cocc_idem cnt ren ren2 x H) as (ren2' & E & H').
    destruct (cocc x (cnt, ren)) as [cn [cnt' ren']]. cbn [fst snd] in *.
    exists ren2'. split; [|exact H']. cbn [ctree]. rewrite E. reflexivity.
  - destruct (IH cnt ren ren2 H) as (ren2' & E & H').
    destruct (ctree c (cnt, ren)) as [c' [cnt' ren']]. cbn [fst snd] in *.
    exists ren2'. split; [|exact H']. cbn [ctree]. rewrite E. reflexivity.
  - destruct (IHl cnt ren ren2 H) as (ren2a & El & Ha).
    destruct (ctree l (cnt, ren)) as [l' [cnt1 ren1]]. cbn [fst snd] in *.
    destruct (IHr cnt1 ren1 ren2a Ha) as (ren2b & Er & Hb).
    destruct (ctree r (cnt1, ren1)) as [r' [cnt2 ren2']]. cbn [fst snd] in *.
    exists ren2b. split; [|exact Hb]. cbn [ctree]. rewrite El, Er. reflexivity.
  - assert (exists ren2a,
      (if is_quantifier o then cbind else cocc)
         (fst (if is_quantifier o then cbind x (cnt, ren) else cocc x (cnt, ren))) (cnt, ren2)
      = (fst (if is_quantifier o then cbind x (cnt, ren) else cocc x (cnt, ren)),
         (fst (snd (if is_quantifier o then cbind x (cnt, ren) else cocc x (cnt, ren))), ren2a))
      /\ idem_inv (fst (snd (if is_quantifier o then cbind x (cnt, ren) else cocc x (cnt, ren))))
                  (snd (snd (if is_quantifier o then cbind x (cnt, ren) else cocc x (cnt, ren))))
                  ren2a) as (ren2a & Ex & Ha).
    { destruct (is_quantifier o); [apply cbind_idem | apply cocc_idem]; exact H. }
    destruct (if is_quantifier o then cbind x (cnt, ren) else cocc x (cnt, ren))
      as [cn [cnt1 ren1]]. cbn [fst snd] in *.
    destruct (IH cnt1 ren1 ren2a Ha) as (ren2b & Ec & Hb).
    destruct (ctree c (cnt1, ren1)) as [c' [cnt2 ren2']]. cbn [fst snd] in *.
    exists ren2b. split; [|exact Hb]. cbn [ctree].
    destruct (is_quantifier o); rewrite Ex, Ec; reflexivity.
Qed.

Lemma idem_inv_init : idem_inv 0 [] [].
Proof. split; cbn [alookup]; intros; discriminate. Qed.

Lemma canon_tree_idem (t : tree) : canon_tree (canon_tree t) = canon_tree t.
Proof.
  unfold canon_tree.
  destruct (ctree_idem t 0%N [] [] idem_inv_init) as (ren2' & E & _).
  rewrite E. reflexivity.
Qed.

(** canonical trees satisfy the side condition again *)
Lemma cbind_var_ok x s : var_ok (fst (cbind x s)).
Proof. apply canon_name_var_ok. Qed.

Definition vals_ok (s : cstate) : Prop :=
  forall x cn, alookup str_eqb x (snd s) = Some cn -> var_ok cn.

Lemma vals_ok_cbind x s : vals_ok s -> vals_ok (snd (cbind x s)).
Proof.
  intros H y cn L. unfold cbind in L. cbn [snd] in L. rewrite alookup_ainsert in L.
  destruct (str_eqb y x); [injection L as <-; apply canon_name_var_ok | exact (H y cn L)].
Qed.

Lemma cocc_var_ok x s : vals_ok s -> var_ok (fst (cocc x s)) /\ vals_ok (snd (cocc x s)).
Proof.
  intro H. unfold cocc. destruct (alookup str_eqb x (snd s)) as [cn|] eqn:L.
  - split; [exact (H x cn L) | exact H].
  - split; [apply cbind_var_ok | apply vals_ok_cbind, H].
Qed.

Lemma ctree_canon_ok (t : tree) :
  forall s, canon_ok t -> vals_ok s ->
            canon_ok (fst (ctree t s)) /\ vals_ok (snd (ctree t s)).
Proof.
  induction t as [a | o c IH | o l IHl r IHr | o x d c IH]; intros s OK V;
    cbn [canon_ok] in OK; cbn [ctree].
  - destruct a as [p | x | | | w]; try (split; [exact OK | exact V]).
    destruct (cocc_var_ok x s V) as [A B]. destruct (cocc x s) as [cn s']. split; assumption.
  - destruct (IH s OK V) as [A B]. destruct (ctree c s) as [c' s']. split; assumption.
  - destruct OK as [OKl OKr].
    destruct (IHl s OKl V) as [A B]. destruct (ctree l s) as [l' s1]. cbn [fst snd] in *.
    destruct (IHr s1 OKr B) as [A' B']. destruct (ctree r s1) as [r' s2]. cbn [fst snd] in *.
    split; [split|]; assumption.
  - destruct OK as (OKx & OKd & OKc).
    assert (var_ok (fst (if is_quantifier o then cbind x s else cocc x s))
            /\ vals_ok (snd (if is_quantifier o then cbind x s else cocc x s))) as [A B].
    { destruct (is_quantifier o); [split; [apply cbind_var_ok | apply vals_ok_cbind, V]|].
      apply cocc_var_ok, V. }
    destruct (if is_quantifier o then cbind x s else cocc x s) as [cn s1]. cbn [fst snd] in *.
    destruct (IH s1 OKc B) as [A' B']. destruct (ctree c s1) as [c' s2]. cbn [fst snd] in *.
    split; [repeat split|]; assumption.
Qed.

Lemma canon_tree_ok (t : tree) : canon_ok t -> canon_ok (canon_tree t).
Proof.
  intro OK. apply (ctree_canon_ok t (0%N, []) OK). intros x cn L. discriminate L.
Qed.

Theorem canon_idempotent (t : tree) :
  canon_ok t ->
  fst (canonize (fst (canonize (render t)))) = fst (canonize (render t)).
Proof.
  intro OK. rewrite (canon_commutes t OK). cbn [fst].
  rewrite (canon_commutes _ (canon_tree_ok t OK)). cbn [fst].
  rewrite canon_tree_idem. reflexivity.
Qed.

(** the side condition follows from the one of the parser round trip *)
Lemma name_char_plain (ext_alnum : N -> bool) (c : N) :
  Tokenizer.is_name_char ext_alnum c = true -> plain_char c /\ c <> c_rbrace.
Proof.
  intro H. apply name_char_cases in H.
  unfold plain_char, c_lpar, c_rpar, c_lbrace, c_rbrace. lia.
Qed.

Lemma name_ok_plain (ext_alnum : N -> bool) (n : str) :
  name_ok ext_alnum n -> plain n /\ var_ok n.
Proof.
  intros [_ H]. split.
  - eapply Forall_impl; [|exact H]. intros c Hc. apply (name_char_plain ext_alnum c Hc).
  - intro IN. pose proof (proj1 (Forall_forall _ _) H _ IN) as Hc.
    apply (name_char_plain ext_alnum) in Hc. apply (proj2 Hc). reflexivity.
Qed.

Lemma well_named_canon_ok (ext_alnum : N -> bool) (ext : bool) (t : tree) :
  well_named ext_alnum ext t -> canon_ok t.
Proof.
  induction t as [a | o c IH | o l IHl r IHr | o x d c IH]; intro H;
    cbn [well_named canon_ok] in *.
  - destruct a as [p | x | | | w]; cbn [atom_ok atom_cok] in *; try exact I.
    + apply (name_ok_plain ext_alnum), H.
    + apply (name_ok_plain ext_alnum), H.
    + apply (name_ok_plain ext_alnum), H.
  - auto.
  - destruct H; auto.
  - destruct H as (Hx & Hd & Hc). split; [apply (name_ok_plain ext_alnum), Hx|].
    split; [|auto]. destruct d as [l|]; cbn [dom_ok dom_cok] in *; [|exact I].
    apply (name_ok_plain ext_alnum), Hd.
Qed.
