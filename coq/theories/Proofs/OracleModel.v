(** The oracle [sem_eval] on what the pipeline feeds it:
    - the output of [preprocess] is named by depth, so [sem_eval_sound] applies to it;
    - for a plain closed formula the oracle's answer and the sanitised answer of the symbolic
      model are the same tree over [Lpn] (both denote [sat] inside the unit). *)
From HCTL Require Import Base Syntax Preprocess TT Ops Eval Pipeline Kripke HCTL Sem.
From HCTL Require Import TTFacts OpsFacts EvalPure LayoutFacts PrepFacts IndepFacts SemFacts2.

Lemma qdepth_rename t : forall scope, qdepth (rename scope t) = qdepth t.
Proof.
  induction t as [a | o c IH | o l IHl r IHr | o x d c IH]; intro scope; cbn [rename].
  - destruct a; reflexivity.
  - cbn [qdepth]. apply IH.
  - cbn [qdepth]. rewrite IHl, IHr. reflexivity.
  - destruct (is_quantifier o) eqn:Q; cbn [qdepth]; rewrite Q, IH; reflexivity.
Qed.

Lemma NoDup_Lpn n p : NoDup (Sem.Lpn n p).
Proof.
  unfold Sem.Lpn, Sem.Lp, Sem.Ln. apply NoDup_app_intro.
  - apply NoDup_map_inj; [intros x y H; congruence | apply NoDup_range].
  - apply NoDup_map_inj; [intros x y H; congruence | apply NoDup_range].
  - intros g Hg Hg'. apply in_map_iff in Hg. destruct Hg as [j [<- _]].
    apply in_map_iff in Hg'. destruct Hg' as [i [E _]]. discriminate.
Qed.

Section OracleModel.
Variables n p k : nat.
Variable upd : list tt.
Variable names : list str.
Variable ctxs : list (str * tt).
Variable unit_pn : tt.
Hypothesis upd_shaped : List.Forall (shaped (Sem.Lpn n p)) upd.
Hypothesis names_bound : length names <= n.
Hypothesis unit_shaped : shaped (Sem.Lpn n p) unit_pn.

Local Notation G := (mk_genv p n k upd).

(** the oracle on a preprocessed formula with at most [k] nested quantifiers *)
Theorem sem_eval_preprocessed props t t' R :
  preprocess props t = Ok t' -> qdepth t <= k ->
  sem_eval n p upd names ctxs unit_pn t' = Ok R ->
  shaped (Sem.Lpn n p) R /\
  forall v, mem (Sem.Lpn n p) R v = true <->
    (mem (Sem.Lpn n p) unit_pn v = true /\ sat G names (ctx_Gamma n p ctxs) t' v).
Proof.
  intros HP LE H. destruct (preprocess_names_by_depth props t t' HP) as [E [DN _]].
  eapply sem_eval_sound; try eassumption. rewrite E, qdepth_rename. exact LE.
Qed.

(** oracle = sanitised model result (plain closed formulae) *)
Theorem oracle_agrees_with_model sw t Rm S Ro :
  (forall v w, (forall j, v (TP j) = w (TP j)) ->
     mem (Sem.Lpn n p) unit_pn v = mem (Sem.Lpn n p) unit_pn w) ->
  let U := expand not_extra (mk_layout p n k) unit_pn in
  plainf t -> supported G t -> closed_copies G t ->
  depth_named 0 t -> qdepth t <= k ->
  peval G names sw (steady_of G U) t U = Ok Rm ->
  sanitize G Rm = Ok S ->
  sem_eval n p upd names ctxs unit_pn t = Ok Ro ->
  S = Ro.
Proof.
  intros UC U Hpl Hsup Hcl DN LE HM HS HO.
  destruct (k_independent p n k k upd unit_pn names upd_shaped unit_shaped UC names_bound
              sw sw t Rm Rm Hpl Hsup Hsup Hcl HM HM) as [S' [E1 [_ [SS ES]]]].
  rewrite HS in E1. injection E1 as <-.
  destruct (sem_eval_sound n p k upd names ctxs upd_shaped names_bound unit_pn t Ro
              unit_shaped DN LE HO) as [SO EO].
  apply (tt_ext (Sem.Lpn n p)); [apply NoDup_Lpn | exact SS | exact SO |].
  intro v. apply eq_true_iff_eq.
  rewrite (ES (ctx_Gamma n p ctxs) v). change (LayoutFacts.Lpn p n) with (Sem.Lpn n p).
  rewrite (EO v). reflexivity.
Qed.

End OracleModel.
