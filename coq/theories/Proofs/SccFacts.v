(** Graph-theoretic meaning of the two pattern formulae (C12b).

      !{x}: AG EF {x}   holds exactly at the valuations lying in a bottom (terminal) strongly
                        connected component of the asynchronous transition graph;
      !{x}: AX {x}      holds exactly at the valuations without an enabled update.

    [reach] is the reflexive-transitive closure of the proper moves of Spec/Kripke.v (one
    enabled state bit is flipped), up to pointwise equality of valuations ([veq]; valuations
    are functions).  A move changes one state bit TS i, i < n, and nothing else, so two
    valuations related by [reach] have the same colour (TP bits) and the same spare copies
    (TX bits): [reach] is reachability inside the transition system of one colour.  The
    artificial self-loops on steady valuations do not change reachability ([reach_loops_iff]). *)
From HCTL Require Import Base Syntax TT Ops Eval Kripke HCTL Paths.
From HCTL Require Import TTFacts OpsFacts SemFacts EvalPure Main PathFacts Termination.

Section Scc.
Variable G : genv.
Local Notation n := (g_n G).
Local Notation L := (g_L G).

(** one proper move of the asynchronous transition relation (no self-loop) *)
Definition move (v w : val) : Prop :=
  exists i, i < n /\ enabled G i v = true /\ veq w (vflip (TS i) v).

Inductive reach : val -> val -> Prop :=
| reach_here v w : veq v w -> reach v w
| reach_move v u w : move v u -> reach u w -> reach v w.

(** the same closure over [step] of Spec/Paths.v, which counts the self-loops *)
Inductive reach_loops : val -> val -> Prop :=
| rl_here v w : veq v w -> reach_loops v w
| rl_step v u w : step G v u -> reach_loops u w -> reach_loops v w.

Lemma move_step v w : move v w -> step G v w.
Proof. intro H. left. exact H. Qed.

Lemma step_cases v w : step G v w -> move v w \/ (vsteady G v /\ veq w v).
Proof. intros [H|H]; [left | right]; exact H. Qed.

Lemma move_veq v v' w w' : veq v v' -> veq w w' -> move v w -> move v' w'.
Proof.
  intros Hv Hw [i [Hi [He Hm]]]. exists i. split; [exact Hi|].
  split; [rewrite <- (enabled_veq G i v v' Hv); exact He|].
  eapply veq_trans; [apply veq_sym; exact Hw|]. eapply veq_trans; [exact Hm|]. apply vflip_veq, Hv.
Qed.

Lemma move_flip v i : i < n -> enabled G i v = true -> move v (vflip (TS i) v).
Proof. intros Hi He. exists i. split; [exact Hi|]. split; [exact He | apply veq_refl]. Qed.

(** a move really changes the valuation: no real self-transition exists *)
Lemma move_neq v w : move v w -> ~ veq w v.
Proof.
  intros [i [_ [_ Hm]]] E. pose proof (Hm (TS i)) as H. rewrite (E (TS i)) in H.
  unfold vflip in H. rewrite tag_eqb_refl in H. destruct (v (TS i)); discriminate.
Qed.

Lemma reach_refl v : reach v v.
Proof. apply reach_here, veq_refl. Qed.

Lemma reach_veq_l v v' w : veq v v' -> reach v w -> reach v' w.
Proof.
  intros Hv H. destruct H as [v w H | v u w Hm H].
  - apply reach_here. eapply veq_trans; [apply veq_sym; exact Hv | exact H].
  - eapply reach_move; [|exact H]. eapply move_veq; [exact Hv | apply veq_refl | exact Hm].
Qed.

Lemma reach_veq_r v w w' : veq w w' -> reach v w -> reach v w'.
Proof.
  intros Hw H. induction H as [v w H | v u w Hm _ IH].
  - apply reach_here. eapply veq_trans; eassumption.
  - eapply reach_move; [exact Hm | apply IH; exact Hw].
Qed.

Lemma reach_trans u v w : reach u v -> reach v w -> reach u w.
Proof.
  intros H1 H2. induction H1 as [u v H | u x v Hm _ IH].
  - eapply reach_veq_l; [apply veq_sym; exact H | exact H2].
  - eapply reach_move; [exact Hm | apply IH; exact H2].
Qed.

Lemma reach_one v w : move v w -> reach v w.
Proof. intro H. eapply reach_move; [exact H | apply reach_refl]. Qed.

Lemma reach_snoc u v w : reach u v -> move v w -> reach u w.
Proof. intros H1 H2. eapply reach_trans; [exact H1 | apply reach_one; exact H2]. Qed.

(** counting the self-loops does not change reachability *)
Theorem reach_loops_iff v w : reach_loops v w <-> reach v w.
Proof.
  split; intro H.
  - induction H as [v w H | v u w Hs _ IH]; [apply reach_here; exact H|].
    destruct (step_cases v u Hs) as [Hm|[_ E]].
    + eapply reach_move; eassumption.
    + eapply reach_veq_l; eassumption.
  - induction H as [v w H | v u w Hm _ IH]; [apply rl_here; exact H|].
    eapply rl_step; [apply move_step; exact Hm | exact IH].
Qed.

(** reachable valuations differ in the state bits only: same colour, same spare copies *)
Lemma reach_same_out v w : reach v w -> same_out n v w.
Proof.
  intro H. induction H as [v w H | v u w Hm _ IH].
  - apply same_out_veq, veq_sym, H.
  - intros g Hg. rewrite (IH g Hg).
    exact (same_out_step G v v u (same_out_veq n v v (veq_refl v)) (move_step v u Hm) g Hg).
Qed.

Lemma reach_colour v w : reach v w -> forall j, w (TP j) = v (TP j).
Proof. intros H j. apply (reach_same_out v w H). intros i _. discriminate. Qed.

Lemma reach_copies v w : reach v w -> forall i e, w (TX i e) = v (TX i e).
Proof. intros H i e. apply (reach_same_out v w H). intros i' _. discriminate. Qed.

Lemma reach_high_bits v w : reach v w -> forall i, n <= i -> w (TS i) = v (TS i).
Proof. intros H i Hi. apply (reach_same_out v w H). intros i' Hi' E. injection E as ->. lia. Qed.

Lemma reach_unfold v w : reach v w <-> (veq v w \/ exists u, move v u /\ reach u w).
Proof.
  split.
  - intro H. destruct H as [v w H | v u w Hm H]; [left; exact H | right; exists u; split; assumption].
  - intros [H|[u [Hm H]]]; [apply reach_here; exact H | eapply reach_move; eassumption].
Qed.

Theorem reach_frame v w : reach v w ->
  (forall j, w (TP j) = v (TP j)) /\ (forall i e, w (TX i e) = v (TX i e)) /\
  (forall i, n <= i -> w (TS i) = v (TS i)).
Proof.
  intro H. split; [apply reach_colour; exact H|]. split; [apply reach_copies; exact H | apply reach_high_bits; exact H].
Qed.

(** [reach] through the operators of the specification and through paths *)
Lemma EUs_reach (Q : val -> Prop) v : EFs G Q v -> exists w, reach v w /\ Q w.
Proof.
  intro H. induction H as [v Hq | v i _ Hi He _ [w [Hr Hq]]].
  - exists v. split; [apply reach_refl | exact Hq].
  - exists w. split; [|exact Hq]. eapply reach_move; [apply move_flip; eassumption | exact Hr].
Qed.

Lemma reach_EFs (Q : val -> Prop) v w : respects Q -> reach v w -> Q w -> EFs G Q v.
Proof.
  intros RQ H Hq. induction H as [v w H | v u w Hm _ IH].
  - apply EUs_here. eapply RQ; [apply veq_sym; exact H | exact Hq].
  - destruct Hm as [i [Hi [He Hm]]]. apply EUs_step with (i := i); [exact I | exact Hi | exact He|].
    eapply (EUs_respects G (fun _ => True) Q); [intros ? ? ? ?; exact I | exact RQ | exact Hm | apply IH; exact Hq].
Qed.

Theorem reach_iff_EF v w : reach v w <-> EFs G (fun u => veq u w) v.
Proof.
  split.
  - intro H. eapply reach_EFs; [|exact H | apply veq_refl].
    intros a b Hab Ha. eapply veq_trans; [apply veq_sym; exact Hab | exact Ha].
  - intro H. destruct (EUs_reach _ v H) as [u [Hr Hu]]. eapply reach_veq_r; eassumption.
Qed.

(** ... so [reach v w] says that some path from v visits w *)
Theorem reach_iff_path v w :
  reach v w <-> exists pi, path G pi /\ veq (pi 0) v /\ exists j, veq (pi j) w.
Proof.
  assert (RQ : respects (fun u => veq u w)).
  { intros a b Hab Ha. eapply veq_trans; [apply veq_sym; exact Hab | exact Ha]. }
  rewrite reach_iff_EF. split.
  - intro H. destruct (EUs_EU_p G _ _ v H) as [pi [Hp [H0 [j [Hj _]]]]].
    exists pi. split; [exact Hp|]. split; [exact H0|]. exists j. exact Hj.
  - intros [pi [Hp [H0 [j Hj]]]]. apply (EU_p_EUs G (fun _ => True) _ v); [intros ? ? ? ?; exact I | exact RQ|].
    exists pi. split; [exact Hp|]. split; [exact H0|]. exists j. split; [exact Hj | intros; exact I].
Qed.

(** AG through [reach] *)
Lemma AGs_reach (P : val -> Prop) v w : respects P -> AGs G P v -> reach v w -> P w.
Proof.
  intros RP [X [Xv HX]] H.
  assert (Inv : vcl X w).
  { assert (V : vcl X v) by (apply vcl_in; exact Xv). clear Xv.
    induction H as [v w H | v u w Hm _ IH].
    - eapply vcl_respects; eassumption.
    - apply IH. destruct V as [v' [Hv Xv']]. destruct (HX v' Xv') as [_ HA].
      eapply (AXs_step G); [apply vcl_respects | eapply AXs_vcl; [exact Hv | exact HA] | apply move_step; exact Hm]. }
  destruct Inv as [u [Hu Xu]]. eapply RP; [exact Hu|]. apply (HX u Xu).
Qed.

Lemma reach_AGs (P : val -> Prop) v : (forall w, reach v w -> P w) -> AGs G P v.
Proof.
  intro H. exists (reach v). split; [apply reach_refl|].
  intros u Hu. split; [apply H; exact Hu|]. split.
  - intros i Hi He. eapply reach_snoc; [exact Hu | apply move_flip; assumption].
  - intros _. exact Hu.
Qed.

Theorem AG_iff_reach (P : val -> Prop) v : respects P -> (AGs G P v <-> forall w, reach v w -> P w).
Proof.
  intro RP. split; [intros H w Hw; eapply AGs_reach; eassumption | apply reach_AGs].
Qed.

(** ---- terminal (bottom) strongly connected components ---- *)
(** v lies in a terminal SCC: whatever is reachable from v can reach v back *)
Definition terminal (v : val) : Prop := forall w, reach v w -> reach w v.

Definition strongly_connected (S : val -> Prop) : Prop := forall a b, S a -> S b -> reach a b.
Definition succ_closed (S : val -> Prop) : Prop := forall a b, S a -> move a b -> S b.
(** a bottom SCC: a non-empty strongly connected set that no move leaves.  Such a set is
    automatically a maximal strongly connected set ([bottom_scc_maximal]) and is the whole
    set of valuations reachable from any of its members ([bottom_scc_is_reach_set]). *)
Definition bottom_scc (S : val -> Prop) : Prop :=
  (exists v, S v) /\ respects S /\ strongly_connected S /\ succ_closed S.

Lemma terminal_veq v v' : veq v v' -> terminal v -> terminal v'.
Proof.
  intros Hv T w Hw. eapply reach_veq_r; [exact Hv|]. apply T. eapply reach_veq_l; [apply veq_sym; exact Hv | exact Hw].
Qed.

(** the set of terminal valuations is closed under [reach] *)
Theorem terminal_closed v w : terminal v -> reach v w -> terminal w.
Proof.
  intros T Hw u Hu. eapply reach_trans; [|exact Hw]. apply T. eapply reach_trans; eassumption.
Qed.

Lemma succ_closed_reach (S : val -> Prop) a b : respects S -> succ_closed S -> S a -> reach a b -> S b.
Proof.
  intros RS HS Sa H. induction H as [a b H | a u b Hm _ IH].
  - eapply RS; eassumption.
  - apply IH. eapply HS; eassumption.
Qed.

Lemma succ_closed_step (S : val -> Prop) a b : respects S -> succ_closed S -> S a -> step G a b -> S b.
Proof.
  intros RS HS Sa H. destruct (step_cases a b H) as [Hm|[_ E]].
  - eapply HS; eassumption.
  - eapply RS; [apply veq_sym; exact E | exact Sa].
Qed.

(** for terminal v, the valuations reachable from v form a bottom SCC that contains v *)
Theorem terminal_bottom_scc v : terminal v -> bottom_scc (reach v) /\ reach v v.
Proof.
  intro T. split; [|apply reach_refl]. split; [exists v; apply reach_refl|]. split; [|split].
  - intros a b Hab Ha. eapply reach_veq_r; eassumption.
  - intros a b Ha Hb. eapply reach_trans; [apply T; exact Ha | exact Hb].
  - intros a b Ha Hm. eapply reach_snoc; eassumption.
Qed.

(** conversely every member of a bottom SCC is terminal *)
Theorem bottom_scc_terminal (S : val -> Prop) v : bottom_scc S -> S v -> terminal v.
Proof.
  intros [_ [RS [SC CL]]] Sv w Hw. apply SC; [|exact Sv].
  eapply succ_closed_reach; eassumption.
Qed.

Theorem terminal_iff_bottom_scc v : terminal v <-> exists S, bottom_scc S /\ S v.
Proof.
  split.
  - intro T. exists (reach v). apply terminal_bottom_scc, T.
  - intros [S [HS Sv]]. eapply bottom_scc_terminal; eassumption.
Qed.

(** a bottom SCC is exactly what is reachable from any of its members ... *)
Theorem bottom_scc_is_reach_set (S : val -> Prop) v : bottom_scc S -> S v -> forall w, S w <-> reach v w.
Proof.
  intros [_ [RS [SC CL]]] Sv w. split.
  - intro Sw. apply SC; assumption.
  - intro Hw. eapply succ_closed_reach; eassumption.
Qed.

(** ... and is a maximal strongly connected set: a strongly connected set that meets it lies
    inside it *)
Theorem bottom_scc_maximal (S T : val -> Prop) : bottom_scc S -> strongly_connected T ->
  (exists a, S a /\ T a) -> forall b, T b -> S b.
Proof.
  intros [_ [RS [_ CL]]] ST [a [Sa Ta]] b Tb.
  eapply succ_closed_reach; [exact RS | exact CL | exact Sa | apply ST; assumption].
Qed.

(** ---- steady valuations ---- *)
Lemma vsteady_no_move v : vsteady G v <-> forall w, ~ move v w.
Proof.
  split.
  - intros Hs w [i [Hi [He _]]]. rewrite (Hs i Hi) in He. discriminate.
  - intros H i Hi. destruct (enabled G i v) eqn:He; [|reflexivity].
    exfalso. apply (H (vflip (TS i) v)). apply move_flip; assumption.
Qed.

(** steady = the only successor is the valuation itself (the self-loop) *)
Theorem vsteady_only_loop v : vsteady G v <-> forall w, step G v w -> veq w v.
Proof.
  split.
  - intros Hs w H. destruct (step_cases v w H) as [Hm|[_ E]]; [|exact E].
    exfalso. exact (proj1 (vsteady_no_move v) Hs w Hm).
  - intro H. apply vsteady_no_move. intros w Hm. apply (move_neq v w Hm). apply H, move_step, Hm.
Qed.

(** steady = nothing but the valuation itself is reachable *)
Theorem vsteady_iff_reach_self v : vsteady G v <-> forall w, reach v w -> veq v w.
Proof.
  split.
  - intros Hs w H. destruct H as [v w H | v u w Hm _]; [exact H|].
    exfalso. exact (proj1 (vsteady_no_move v) Hs u Hm).
  - intro H. apply vsteady_no_move. intros w Hm. apply (move_neq v w Hm).
    apply veq_sym, H, reach_one, Hm.
Qed.

(** a steady valuation is a bottom SCC of its own *)
Theorem vsteady_terminal v : vsteady G v -> terminal v.
Proof.
  intros Hs w Hw. apply reach_here, veq_sym. apply (proj1 (vsteady_iff_reach_self v) Hs w Hw).
Qed.

(** ---- the update functions do not read the spare copies ---- *)
Definition agree_ne (v w : val) : Prop := forall g, is_extra_tag g = false -> v g = w g.
(** the spare copies of x around the colour and state of b *)
Definition graft (x b : val) : val := fun g => if is_extra_tag g then x g else b g.

Section Extras.
Hypothesis upd_extras : forall i v w, (forall g, is_extra_tag g = false -> v g = w g) ->
  mem L (upd_of G i) v = mem L (upd_of G i) w.

Lemma enabled_agree i v w : agree_ne v w -> enabled G i v = enabled G i w.
Proof.
  intro H. unfold enabled. rewrite (upd_extras i v w H). rewrite (H (TS i)); reflexivity.
Qed.

Lemma vsteady_agree v w : agree_ne v w -> vsteady G v -> vsteady G w.
Proof. intros H Hs i Hi. rewrite <- (enabled_agree i v w H). apply Hs, Hi. Qed.

Lemma agree_ne_sym v w : agree_ne v w -> agree_ne w v.
Proof. intros H g Hg. symmetry. apply H, Hg. Qed.

Lemma agree_ne_graft x b : agree_ne (graft x b) b.
Proof. intros g Hg. unfold graft. rewrite Hg. reflexivity. Qed.

Lemma agree_ne_set_copy e u v : agree_ne v (set_copy e u v).
Proof. intros g Hg. destruct g; simpl in *; try reflexivity. discriminate. Qed.

(** reachability does not depend on the spare copies *)
Lemma reach_transfer a b : reach a b -> forall a', agree_ne a a' -> reach a' (graft a' b).
Proof.
  intro H. induction H as [a b H | a u b Hm _ IH]; intros a' Ha.
  - apply reach_here. intro g. unfold graft. destruct (is_extra_tag g) eqn:E; [reflexivity|].
    rewrite <- (Ha g E). apply H.
  - destruct Hm as [i [Hi [He Hm]]].
    assert (Hu : agree_ne u (vflip (TS i) a')).
    { intros g Hg. rewrite (Hm g). unfold vflip. rewrite (Ha g Hg). reflexivity. }
    eapply reach_move; [apply (move_flip a' i Hi); rewrite <- (enabled_agree i a a' Ha); exact He|].
    eapply reach_veq_r; [|apply (IH _ Hu)].
    intro g. unfold graft. destruct (is_extra_tag g) eqn:E; [|reflexivity].
    unfold vflip. destruct g; try discriminate. reflexivity.
Qed.

(** v and w have the same spare copies *)
Lemma reach_transfer_back a b a' b' : reach a b -> agree_ne a a' -> agree_ne b b' ->
  (forall g, is_extra_tag g = true -> b' g = a' g) -> reach a' b'.
Proof.
  intros H Ha Hb Hx. eapply reach_veq_r; [|apply (reach_transfer a b H a' Ha)].
  intro g. unfold graft. destruct (is_extra_tag g) eqn:E; [symmetry; apply Hx, E | apply Hb, E].
Qed.

Lemma same_out_extra v w : same_out n v w -> forall g, is_extra_tag g = true -> w g = v g.
Proof. intros H g Hg. apply H. intros i _ E. subst g. discriminate. Qed.

(** ---- the formulae ---- *)
Variable names : list str.
Variable Gamma : str -> val -> Prop.
Local Notation Sat := (sat G names Gamma).

Lemma copy_is_state_respects e : respects (copy_is_state G e).
Proof. intros a b Hab Ha i Hi. rewrite <- !Hab. apply Ha, Hi. Qed.

Lemma copy_is_state_bound e v : copy_is_state G e (set_copy e v v).
Proof. intros i Hi. simpl. rewrite Nat.eqb_refl. reflexivity. Qed.

(** the only valuation that differs from the bound one in state bits and is the bound state *)
Lemma bound_unique e v u : same_out n (set_copy e v v) u -> copy_is_state G e u ->
  veq (set_copy e v v) u.
Proof.
  intros Hso Hc g. symmetry.
  destruct g as [j|i|i e']; try (apply Hso; intros i' _; discriminate).
  destruct (Nat.lt_ge_cases i n) as [Hi|Hi].
  - rewrite <- (Hc i Hi). rewrite (Hso (TX i e)) by (intros i' _; discriminate).
    simpl. rewrite Nat.eqb_refl. reflexivity.
  - apply Hso. intros i' Hi' E. injection E as ->. lia.
Qed.

Lemma AVar_sat x e w : var_of G x = Some e -> (Sat (Terminal (AVar x)) w <-> copy_is_state G e w).
Proof.
  intro Ev. simpl. split.
  - intros [e' [Ev' H]]. assert (e' = e) by congruence. subst. exact H.
  - intro H. exists e. split; assumption.
Qed.

Lemma AVar_respects x : respects (Sat (Terminal (AVar x))).
Proof.
  intros a b Hab [e [Ev H]]. exists e. split; [exact Ev|]. eapply copy_is_state_respects; eassumption.
Qed.

(** !{x}: AG EF {x}  holds exactly in the terminal SCCs *)
Theorem attractor_formula_terminal x e v : var_of G x = Some e ->
  (Sat (Hybrid Bind x None (Unary AG (Unary EF (Terminal (AVar x))))) v <-> terminal v).
Proof.
  intro Ev. set (v' := set_copy e v v).
  assert (Av : agree_ne v v') by apply agree_ne_set_copy.
  assert (RQ : respects (Sat (Terminal (AVar x)))) by apply AVar_respects.
  assert (RE : respects (EFs G (Sat (Terminal (AVar x))))).
  { apply (EUs_respects G); [intros ? ? ? ?; exact I | exact RQ]. }
  split.
  - intros [e' [Ev' [_ HAG]]]. assert (e' = e) by congruence. subst e'.
    change (AGs G (EFs G (Sat (Terminal (AVar x)))) v') in HAG.
    intros w Hw.
    assert (Hw' : reach v' (graft v' w)) by (apply (reach_transfer v w Hw), Av).
    pose proof (AGs_reach _ v' _ RE HAG Hw') as HEF.
    destruct (EUs_reach _ _ HEF) as [b [Hb Qb]].
    apply (AVar_sat x e b Ev) in Qb.
    assert (Eb : veq v' b).
    { apply bound_unique; [|exact Qb]. apply reach_same_out. eapply reach_trans; eassumption. }
    assert (Hback : reach (graft v' w) v') by (eapply reach_veq_r; [apply veq_sym; exact Eb | exact Hb]).
    eapply (reach_transfer_back _ _ w v Hback).
    + apply agree_ne_graft.
    + apply agree_ne_sym, Av.
    + intros g Hg. symmetry. apply (same_out_extra v w (reach_same_out v w Hw) g Hg).
  - intro T. exists e. split; [exact Ev|]. split; [exact I|].
    change (AGs G (EFs G (Sat (Terminal (AVar x)))) v').
    apply reach_AGs. intros u Hu.
    assert (H1 : reach v (graft v u)) by (apply (reach_transfer v' u Hu), agree_ne_sym, Av).
    pose proof (T _ H1) as H2.
    assert (H3 : reach u v').
    { eapply (reach_transfer_back _ _ u v' H2).
      - apply agree_ne_graft.
      - exact Av.
      - intros g Hg. symmetry. apply (same_out_extra v' u (reach_same_out v' u Hu) g Hg). }
    eapply reach_EFs; [exact RQ | exact H3|].
    apply (AVar_sat x e v' Ev). apply copy_is_state_bound.
Qed.

(** !{x}: AX {x}  holds exactly at the valuations without an enabled update *)
Theorem steady_formula_vsteady x e v : var_of G x = Some e ->
  (Sat (Hybrid Bind x None (Unary AX (Terminal (AVar x)))) v <-> vsteady G v).
Proof.
  intro Ev. set (v' := set_copy e v v).
  assert (Av : agree_ne v v') by apply agree_ne_set_copy.
  split.
  - intros [e' [Ev' [_ [A1 _]]]]. assert (e' = e) by congruence. subst e'. fold v' in A1.
    intros i Hi. destruct (enabled G i v) eqn:He; [|reflexivity]. exfalso.
    rewrite (enabled_agree i v v' Av) in He.
    pose proof (A1 i Hi He) as Q. apply (AVar_sat x e _ Ev) in Q.
    specialize (Q i Hi). unfold vflip, v' in Q. simpl in Q. rewrite !Nat.eqb_refl in Q.
    destruct (v (TS i)); discriminate.
  - intro Hs. exists e. split; [exact Ev|]. split; [exact I|]. fold v'. split.
    + intros i Hi He. rewrite <- (enabled_agree i v v' Av) in He. rewrite (Hs i Hi) in He. discriminate.
    + intros _. apply (AVar_sat x e v' Ev). apply copy_is_state_bound.
Qed.

Corollary steady_formula_implies_attractor_formula x e v : var_of G x = Some e ->
  Sat (Hybrid Bind x None (Unary AX (Terminal (AVar x)))) v ->
  Sat (Hybrid Bind x None (Unary AG (Unary EF (Terminal (AVar x))))) v.
Proof.
  intros Ev H. apply (attractor_formula_terminal x e v Ev). apply vsteady_terminal.
  apply (steady_formula_vsteady x e v Ev). exact H.
Qed.

(** every member of a bottom SCC satisfies the attractor formula *)
Corollary bottom_scc_sat (S : val -> Prop) x e v : var_of G x = Some e -> bottom_scc S -> S v ->
  Sat (Hybrid Bind x None (Unary AG (Unary EF (Terminal (AVar x))))) v.
Proof.
  intros Ev HS Sv. apply (attractor_formula_terminal x e v Ev). eapply bottom_scc_terminal; eassumption.
Qed.

(** and a valuation that satisfies it lies in one: the set of valuations reachable from it *)
Corollary sat_bottom_scc x e v : var_of G x = Some e ->
  Sat (Hybrid Bind x None (Unary AG (Unary EF (Terminal (AVar x))))) v ->
  bottom_scc (reach v) /\ reach v v.
Proof. intros Ev H. apply terminal_bottom_scc. apply (attractor_formula_terminal x e v Ev). exact H. Qed.

End Extras.

(** a variable name for every spare copy *)
Lemma var_of_repeat e : e < g_k G -> var_of G (repeat_n (S e) 120%N) = Some e.
Proof.
  intro He. unfold var_of. cbn [repeat_n].
  assert (E : length (repeat_n e 120%N) = e) by (induction e as [|e IH]; simpl; [reflexivity | rewrite IH; [reflexivity | lia]]).
  rewrite E. apply Nat.ltb_lt in He. rewrite He. reflexivity.
Qed.

(** ---- the evaluator ---- *)
Section Evaluator.
Variable names : list str.
Variable U : tt.
Hypothesis WF : wf_env G names U.

(** the unit only constrains the colour, so it is closed under [reach] *)
Theorem unit_closed_reach v w : reach v w -> mem L U w = mem L U v.
Proof. intro H. apply (wf_U_colour _ _ _ WF). apply reach_colour, H. Qed.

Theorem attractors_terminal e R : e < g_k G -> attractors G U e = Ok R ->
  forall v, mem L R v = true <-> (mem L U v = true /\ terminal v).
Proof.
  intros He H v. pose proof (var_of_repeat e He) as Ev.
  destruct WF as [W1 W2 W3 W4 W5 W6 W7 W8 W9 W10].
  assert (S : spec_of G U R (sat G names (fun _ _ => True)
     (Hybrid Bind (repeat_n (S e) 120%N) None (Unary AG (Unary EF (Terminal (AVar (repeat_n (S e) 120%N))))))))
    by (eapply attractor_pattern_spec; eauto).
  destruct S as [_ E]. rewrite E. rewrite (attractor_formula_terminal W8 names (fun _ _ => True) _ e v Ev). reflexivity.
Qed.

Theorem attractors_total e : exists R, attractors G U e = Ok R.
Proof.
  destruct WF as [W1 W2 W3 W4 W5 W6 W7 W8 W9 W10].
  destruct (total_attractors G U W1 W2 W9 e) as [R [E _]]. exists R. exact E.
Qed.

Theorem steady_of_vsteady v : mem L (steady_of G U) v = true <-> (mem L U v = true /\ vsteady G v).
Proof.
  destruct WF as [W1 W2 W3 W4 W5 W6 W7 W8 W9 W10].
  apply mem_steady_of; assumption.
Qed.

(** the same through [eval_node], pattern shortcuts on or off *)
Theorem eval_node_attractor_terminal sw x e c R c' : var_of G x = Some e -> duplicates c = [] ->
  eval_node G names sw (steady_of G U) (Hybrid Bind x None (Unary AG (Unary EF (Terminal (AVar x))))) U c = Ok (R, c') ->
  forall v, mem L R v = true <-> (mem L U v = true /\ terminal v).
Proof.
  intros Ev Hd H v.
  assert (Hs : var_of G x <> None) by congruence.
  pose proof (fun Hp Hq => eval_node_correct G names U WF (fun _ _ => True) sw _ c R c' Hp Hq Hd H) as E.
  destruct E as [_ E]; [simpl; auto | simpl; auto |].
  rewrite E. rewrite (attractor_formula_terminal (wf_upd_extras _ _ _ WF) names (fun _ _ => True) x e v Ev). reflexivity.
Qed.

Theorem eval_node_steady_vsteady sw x e c R c' : var_of G x = Some e -> duplicates c = [] ->
  eval_node G names sw (steady_of G U) (Hybrid Bind x None (Unary AX (Terminal (AVar x)))) U c = Ok (R, c') ->
  forall v, mem L R v = true <-> (mem L U v = true /\ vsteady G v).
Proof.
  intros Ev Hd H v.
  assert (Hs : var_of G x <> None) by congruence.
  pose proof (fun Hp Hq => eval_node_correct G names U WF (fun _ _ => True) sw _ c R c' Hp Hq Hd H) as E.
  destruct E as [_ E]; [simpl; auto | simpl; auto |].
  rewrite E. rewrite (steady_formula_vsteady (wf_upd_extras _ _ _ WF) names (fun _ _ => True) x e v Ev). reflexivity.
Qed.

End Evaluator.
End Scc.

(** ---- a concrete network: a = !a, b = false (two variables, no parameter, one copy) ----
    State graph (a,b): (0,0) <-> (1,0) is the bottom SCC; (0,1) and (1,1) are transient
    (b can only fall). *)
From HCTL Require Import Pipeline LayoutFacts.

Definition ex_G : genv :=
  mk_genv 0 2 1 [tminus (const (Lpn 0 2) true) (lit (Lpn 0 2) (TS 0)); const (Lpn 0 2) false].
Definition ex_names : list str := [[97%N]; [98%N]].
Definition ex_U : tt := expand not_extra (mk_layout 0 2 1) (const (Lpn 0 2) true).

Definition s00 : val := fun _ => false.
Definition s10 : val := fun g => tag_eqb g (TS 0).
Definition s01 : val := fun g => tag_eqb g (TS 1).

Lemma ex_wf : wf_env ex_G ex_names ex_U.
Proof.
  apply mk_genv_wf.
  - constructor; [cbv; tauto|]. constructor; [apply shaped_const | constructor].
  - apply shaped_const.
  - intros v w _. rewrite !mem_const. reflexivity.
  - simpl. lia.
Qed.

Lemma ex_attractors_run :
  exists R, attractors ex_G ex_U 0 = Ok R /\
    mem (g_L ex_G) R s00 = true /\ mem (g_L ex_G) R s10 = true /\
    mem (g_L ex_G) R s01 = false /\ mem (g_L ex_G) ex_U s01 = true.
Proof. eexists. split; [vm_compute; reflexivity|]. vm_compute. auto. Qed.

Lemma ex_s00_s10 : move ex_G s00 s10.
Proof.
  exists 0. split; [simpl; lia|]. split; [vm_compute; reflexivity|].
  intro g. unfold s10, s00, vflip. destruct (tag_eqb g (TS 0)); reflexivity.
Qed.

Lemma ex_s10_s00 : move ex_G s10 s00.
Proof.
  exists 0. split; [simpl; lia|]. split; [vm_compute; reflexivity|].
  intro g. unfold s10, s00, vflip. destruct (tag_eqb g (TS 0)); reflexivity.
Qed.

Lemma ex_s01_s00 : move ex_G s01 s00.
Proof.
  exists 1. split; [simpl; lia|]. split; [vm_compute; reflexivity|].
  intro g. unfold s01, s00, vflip. destruct (tag_eqb g (TS 1)); reflexivity.
Qed.

Lemma ex_distinct : ~ veq s00 s10 /\ ~ veq s00 s01 /\ ~ veq s10 s01.
Proof.
  split; [|split]; intro H.
  - specialize (H (TS 0)). discriminate.
  - specialize (H (TS 1)). discriminate.
  - specialize (H (TS 0)). discriminate.
Qed.

(** the component of (0,0) has exactly two members *)
Lemma ex_component w : reach ex_G s00 w -> veq s00 w \/ veq s10 w.
Proof.
  assert (Gen : forall u w, reach ex_G u w -> veq s00 u \/ veq s10 u -> veq s00 w \/ veq s10 w).
  { intros u w' H. induction H as [u w' H | u x w' Hm _ IH]; intros [E|E].
    - left. eapply veq_trans; eassumption.
    - right. eapply veq_trans; eassumption.
    - apply IH. destruct Hm as [i [Hi [He Hm]]].
      rewrite <- (enabled_veq ex_G i s00 u E) in He.
      assert (i = 0) as ->.
      { simpl in Hi. destruct i as [|[|i]]; [reflexivity | vm_compute in He; discriminate | lia]. }
      right. intro g. rewrite (Hm g). unfold vflip. rewrite <- (E g). unfold s10, s00.
      destruct (tag_eqb g (TS 0)); reflexivity.
    - apply IH. destruct Hm as [i [Hi [He Hm]]].
      rewrite <- (enabled_veq ex_G i s10 u E) in He.
      assert (i = 0) as ->.
      { simpl in Hi. destruct i as [|[|i]]; [reflexivity | vm_compute in He; discriminate | lia]. }
      left. intro g. rewrite (Hm g). unfold vflip. rewrite <- (E g). unfold s10, s00.
      destruct (tag_eqb g (TS 0)); reflexivity. }
  intro H. apply (Gen s00 w H). left. apply veq_refl.
Qed.

(** what [attractors] returns on the example, read through [attractors_terminal] *)
Theorem ex_bottom_and_transient :
  exists R, attractors ex_G ex_U 0 = Ok R /\
    (* (0,0) is reported and lies in a bottom SCC, which has exactly the two members (0,0), (1,0) *)
    mem (g_L ex_G) R s00 = true /\ terminal ex_G s00 /\
    reach ex_G s00 s10 /\ reach ex_G s10 s00 /\ ~ veq s00 s10 /\
    (forall w, reach ex_G s00 w -> veq s00 w \/ veq s10 w) /\
    (* (0,1) is in the unit, not reported, not terminal: it reaches (0,0) and cannot come back *)
    mem (g_L ex_G) ex_U s01 = true /\ mem (g_L ex_G) R s01 = false /\ ~ terminal ex_G s01 /\
    reach ex_G s01 s00 /\ ~ reach ex_G s00 s01.
Proof.
  destruct ex_attractors_run as [R [HR [M00 [M10 [M01 U01]]]]]. exists R.
  assert (Hk : 0 < g_k ex_G) by (simpl; lia).
  pose proof (attractors_terminal ex_G ex_names ex_U ex_wf 0 R Hk HR) as Spec.
  split; [exact HR|]. split; [exact M00|].
  split; [apply (Spec s00); exact M00|].
  split; [apply reach_one, ex_s00_s10|]. split; [apply reach_one, ex_s10_s00|].
  split; [apply ex_distinct|]. split; [apply ex_component|].
  split; [exact U01|]. split; [exact M01|].
  split; [intro T; assert (X : mem (g_L ex_G) R s01 = true) by (apply Spec; split; assumption); congruence|].
  split; [apply reach_one, ex_s01_s00|].
  intro H. destruct (ex_component s01 H) as [E|E]; [apply (proj1 (proj2 ex_distinct)), E | apply (proj2 (proj2 ex_distinct)), E].
Qed.
