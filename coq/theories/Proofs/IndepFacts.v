(** Independence facts (properties C03 part 2 and C15):
    - the CTL operators of Spec/Kripke.v are congruent under any "bisimulation" of valuations
      (a relation that preserves [enabled] and is preserved by the moves), even across two
      graphs with the same number of variables;
    - [sat] only reads the colour, the state and the spare copies that hold FREE variables of
      the formula; a closed formula ignores every spare copy;
    - the result of the evaluator on a closed formula ignores the spare copies, therefore
      [sanitize] never panics on it and the sanitised set equals the raw one;
    - the sanitised result does not depend on the number k of spare copies. *)
From HCTL Require Import Base Syntax TT Ops Eval Pipeline Kripke HCTL.
From HCTL Require Import TTFacts OpsFacts SemFacts EvalPure Main LayoutFacts.

(** * 1. Congruence of the CTL operators under a simulation of valuations *)

Section Sim.
Variables G G' : genv.
Variable R : val -> val -> Prop.
Hypothesis Hn : g_n G = g_n G'.
Hypothesis R_en : forall i v w, i < g_n G -> R v w -> enabled G i v = enabled G' i w.
Hypothesis R_flip : forall i v w, R v w -> R (vflip (TS i) v) (vflip (TS i) w).

Lemma sim_steady v w : R v w -> vsteady G v -> vsteady G' w.
Proof.
  intros Hr Hs i Hi. rewrite <- Hn in Hi. rewrite <- (R_en i v w Hi Hr). apply Hs. exact Hi.
Qed.

Lemma sim_steady_back v w : R v w -> vsteady G' w -> vsteady G v.
Proof.
  intros Hr Hs i Hi. rewrite (R_en i v w Hi Hr). apply Hs. rewrite <- Hn. exact Hi.
Qed.

Lemma EXs_sim (P P' : val -> Prop) : (forall v w, R v w -> P v -> P' w) ->
  forall v w, R v w -> EXs G P v -> EXs G' P' w.
Proof.
  intros HP v w Hr [[i [Hi [He Hp]]]|[Hs Hp]].
  - left. exists i. split; [rewrite <- Hn; exact Hi|].
    split; [rewrite <- (R_en i v w Hi Hr); exact He|].
    eapply HP; [apply R_flip; exact Hr | exact Hp].
  - right. split; [eapply sim_steady; eassumption | eapply HP; eassumption].
Qed.

Lemma AXs_sim (P P' : val -> Prop) : (forall v w, R v w -> P v -> P' w) ->
  forall v w, R v w -> AXs G P v -> AXs G' P' w.
Proof.
  intros HP v w Hr [H1 H2]. split.
  - intros i Hi He. rewrite <- Hn in Hi.
    eapply HP; [apply R_flip; exact Hr|]. apply H1; [exact Hi|].
    rewrite (R_en i v w Hi Hr). exact He.
  - intro Hs. eapply HP; [exact Hr|]. apply H2. eapply sim_steady_back; eassumption.
Qed.

Section Pred.
Variables P P' Q Q' : val -> Prop.
Hypothesis HP : forall v w, R v w -> P v -> P' w.
Hypothesis HQ : forall v w, R v w -> Q v -> Q' w.

Lemma EUs_sim v : EUs G P Q v -> forall w, R v w -> EUs G' P' Q' w.
Proof.
  intro H. induction H as [v Hq | v i Hp Hi He _ IH]; intros w Hr.
  - apply EUs_here. eapply HQ; eassumption.
  - apply (EUs_step G' P' Q' w i).
    + eapply HP; eassumption.
    + rewrite <- Hn. exact Hi.
    + rewrite <- (R_en i v w Hi Hr). exact He.
    + apply IH. apply R_flip. exact Hr.
Qed.

Lemma AUs_sim v : AUs G P Q v -> forall w, R v w -> AUs G' P' Q' w.
Proof.
  intro H. induction H as [v Hq | v Hp Hm IHm Hs IHs]; intros w Hr.
  - apply AUs_here. eapply HQ; eassumption.
  - apply AUs_step.
    + eapply HP; eassumption.
    + intros i Hi He. rewrite <- Hn in Hi. apply (IHm i Hi).
      * rewrite (R_en i v w Hi Hr). exact He.
      * apply R_flip. exact Hr.
    + intro Hst. apply IHs; [eapply sim_steady_back; eassumption | exact Hr].
Qed.

Lemma EGs_sim v w : R v w -> EGs G P v -> EGs G' P' w.
Proof.
  intros Hr [X [Xv HX]]. exists (fun b => exists a, R a b /\ X a).
  split; [exists v; split; assumption|].
  intros b [a [Hab Xa]]. destruct (HX a Xa) as [Pa Ea].
  split; [eapply HP; eassumption|].
  refine (EXs_sim X _ _ a b Hab Ea).
  intros a' b' Hab' Xa'. exists a'. split; assumption.
Qed.

Lemma AGs_sim v w : R v w -> AGs G P v -> AGs G' P' w.
Proof.
  intros Hr [X [Xv HX]]. exists (fun b => exists a, R a b /\ X a).
  split; [exists v; split; assumption|].
  intros b [a [Hab Xa]]. destruct (HX a Xa) as [Pa Ea].
  split; [eapply HP; eassumption|].
  refine (AXs_sim X _ _ a b Hab Ea).
  intros a' b' Hab' Xa'. exists a'. split; assumption.
Qed.

Lemma EWs_sim v w : R v w -> EWs G P Q v -> EWs G' P' Q' w.
Proof.
  intros Hr [X [Xv HX]]. exists (fun b => exists a, R a b /\ X a).
  split; [exists v; split; assumption|].
  intros b [a [Hab Xa]]. destruct (HX a Xa) as [Qa|[Pa Ea]].
  - left. eapply HQ; eassumption.
  - right. split; [eapply HP; eassumption|].
    refine (EXs_sim X _ _ a b Hab Ea).
    intros a' b' Hab' Xa'. exists a'. split; assumption.
Qed.

Lemma AWs_sim v w : R v w -> AWs G P Q v -> AWs G' P' Q' w.
Proof.
  intros Hr [X [Xv HX]]. exists (fun b => exists a, R a b /\ X a).
  split; [exists v; split; assumption|].
  intros b [a [Hab Xa]]. destruct (HX a Xa) as [Qa|[Pa Ea]].
  - left. eapply HQ; eassumption.
  - right. split; [eapply HP; eassumption|].
    refine (AXs_sim X _ _ a b Hab Ea).
    intros a' b' Hab' Xa'. exists a'. split; assumption.
Qed.
End Pred.
End Sim.

(** the two-sided ("bisimulation") form: related valuations satisfy the same operators *)
Section Bisim.
Variables G G' : genv.
Variable R : val -> val -> Prop.
Hypothesis Hn : g_n G = g_n G'.
Hypothesis R_en : forall i v w, i < g_n G -> R v w -> enabled G i v = enabled G' i w.
Hypothesis R_flip : forall i v w, R v w -> R (vflip (TS i) v) (vflip (TS i) w).

Let R' : val -> val -> Prop := fun w v => R v w.

Local Lemma Hn' : g_n G' = g_n G.
Proof. symmetry. exact Hn. Qed.
Local Lemma R_en' : forall i v w, i < g_n G' -> R' v w -> enabled G' i v = enabled G i w.
Proof. intros i v w Hi Hr. symmetry. apply R_en; [rewrite Hn; exact Hi | exact Hr]. Qed.
Local Lemma R_flip' : forall i v w, R' v w -> R' (vflip (TS i) v) (vflip (TS i) w).
Proof. intros i v w Hr. apply R_flip. exact Hr. Qed.

Section Pred.
Variables P P' Q Q' : val -> Prop.
Hypothesis HP : forall v w, R v w -> (P v <-> P' w).
Hypothesis HQ : forall v w, R v w -> (Q v <-> Q' w).

Local Lemma HPf : forall v w, R v w -> P v -> P' w.
Proof. intros v w Hr. exact (proj1 (HP v w Hr)). Qed.
Local Lemma HPb : forall w v, R' w v -> P' w -> P v.
Proof. intros w v Hr. exact (proj2 (HP v w Hr)). Qed.
Local Lemma HQf : forall v w, R v w -> Q v -> Q' w.
Proof. intros v w Hr. exact (proj1 (HQ v w Hr)). Qed.
Local Lemma HQb : forall w v, R' w v -> Q' w -> Q v.
Proof. intros w v Hr. exact (proj2 (HQ v w Hr)). Qed.

Lemma EXs_bisim v w : R v w -> (EXs G P v <-> EXs G' P' w).
Proof.
  intro Hr. split.
  - exact (EXs_sim G G' R Hn R_en R_flip P P' HPf v w Hr).
  - exact (EXs_sim G' G R' Hn' R_en' R_flip' P' P HPb w v Hr).
Qed.

Lemma AXs_bisim v w : R v w -> (AXs G P v <-> AXs G' P' w).
Proof.
  intro Hr. split.
  - exact (AXs_sim G G' R Hn R_en R_flip P P' HPf v w Hr).
  - exact (AXs_sim G' G R' Hn' R_en' R_flip' P' P HPb w v Hr).
Qed.

Lemma EUs_bisim v w : R v w -> (EUs G P Q v <-> EUs G' P' Q' w).
Proof.
  intro Hr. split; intro H.
  - exact (EUs_sim G G' R Hn R_en R_flip P P' Q Q' HPf HQf v H w Hr).
  - exact (EUs_sim G' G R' Hn' R_en' R_flip' P' P Q' Q HPb HQb w H v Hr).
Qed.

Lemma AUs_bisim v w : R v w -> (AUs G P Q v <-> AUs G' P' Q' w).
Proof.
  intro Hr. split; intro H.
  - exact (AUs_sim G G' R Hn R_en R_flip P P' Q Q' HPf HQf v H w Hr).
  - exact (AUs_sim G' G R' Hn' R_en' R_flip' P' P Q' Q HPb HQb w H v Hr).
Qed.

Lemma EGs_bisim v w : R v w -> (EGs G P v <-> EGs G' P' w).
Proof.
  intro Hr. split.
  - exact (EGs_sim G G' R Hn R_en R_flip P P' HPf v w Hr).
  - exact (EGs_sim G' G R' Hn' R_en' R_flip' P' P HPb w v Hr).
Qed.

Lemma AGs_bisim v w : R v w -> (AGs G P v <-> AGs G' P' w).
Proof.
  intro Hr. split.
  - exact (AGs_sim G G' R Hn R_en R_flip P P' HPf v w Hr).
  - exact (AGs_sim G' G R' Hn' R_en' R_flip' P' P HPb w v Hr).
Qed.

Lemma EWs_bisim v w : R v w -> (EWs G P Q v <-> EWs G' P' Q' w).
Proof.
  intro Hr. split.
  - exact (EWs_sim G G' R Hn R_en R_flip P P' Q Q' HPf HQf v w Hr).
  - exact (EWs_sim G' G R' Hn' R_en' R_flip' P' P Q' Q HPb HQb w v Hr).
Qed.

Lemma AWs_bisim v w : R v w -> (AWs G P Q v <-> AWs G' P' Q' w).
Proof.
  intro Hr. split.
  - exact (AWs_sim G G' R Hn R_en R_flip P P' Q Q' HPf HQf v w Hr).
  - exact (AWs_sim G' G R' Hn' R_en' R_flip' P' P Q' Q HPb HQb w v Hr).
Qed.
End Pred.

Lemma EFs_bisim (P P' : val -> Prop) : (forall v w, R v w -> (P v <-> P' w)) ->
  forall v w, R v w -> (EFs G P v <-> EFs G' P' w).
Proof.
  intros HP v w Hr. unfold EFs. apply EUs_bisim; [intros; tauto | exact HP | exact Hr].
Qed.

Lemma AFs_bisim (P P' : val -> Prop) : (forall v w, R v w -> (P v <-> P' w)) ->
  forall v w, R v w -> (AFs G P v <-> AFs G' P' w).
Proof.
  intros HP v w Hr. unfold AFs. apply AUs_bisim; [intros; tauto | exact HP | exact Hr].
Qed.
End Bisim.

(** * 2. Which spare copies a formula reads *)

(** [copies_ok G A t]: every FREE occurrence of a state variable in [t] (an atom {x} or a
    jump @{x}, not below a binder of a variable stored in the same copy) is stored in a
    copy of the set [A].  Stated for arbitrary trees: a binder adds its copy to the set. *)
Fixpoint copies_ok (G : genv) (A : nat -> Prop) (t : tree) : Prop :=
  match t with
  | Terminal (AVar x) => forall e, var_of G x = Some e -> A e
  | Terminal _ => True
  | Unary _ a => copies_ok G A a
  | Binary _ a b => copies_ok G A a /\ copies_ok G A b
  | Hybrid Jump x _ a => (forall e, var_of G x = Some e -> A e) /\ copies_ok G A a
  | Hybrid _ x _ a =>
      forall e, var_of G x = Some e -> copies_ok G (fun e' => e' = e \/ A e') a
  end.

(** no free variable at all *)
Definition closed_copies (G : genv) (t : tree) : Prop := copies_ok G (fun _ => False) t.
(** no free variable is stored in copy e *)
Definition avoids_copy (G : genv) (e : nat) (t : tree) : Prop := copies_ok G (fun e' => e' <> e) t.

Lemma copies_ok_mono G t : forall (A A' : nat -> Prop), (forall e, A e -> A' e) ->
  copies_ok G A t -> copies_ok G A' t.
Proof.
  induction t as [a | o a IH | o a IHa b IHb | o x d a IH]; intros A A' HA H.
  - destruct a; simpl in *; auto.
  - simpl in *. eapply IH; eassumption.
  - simpl in *. destruct H as [H1 H2]. split; [eapply IHa | eapply IHb]; eassumption.
  - destruct o; simpl in *.
    + intros e He. eapply IH; [|apply H; exact He]. intros e' [E|E]; [left; exact E | right; auto].
    + destruct H as [H1 H2]. split; [intros e He; auto | eapply IH; eassumption].
    + intros e He. eapply IH; [|apply H; exact He]. intros e' [E|E]; [left; exact E | right; auto].
    + intros e He. eapply IH; [|apply H; exact He]. intros e' [E|E]; [left; exact E | right; auto].
Qed.

(** every formula is fine with the full set of copies *)
Lemma copies_ok_top G t : forall (A : nat -> Prop), (forall e, A e) -> copies_ok G A t.
Proof.
  induction t as [a | o a IH | o a IHa b IHb | o x d a IH]; intros A HA.
  - destruct a; simpl; auto.
  - simpl. apply IH; exact HA.
  - simpl. split; [apply IHa | apply IHb]; exact HA.
  - destruct o; simpl.
    + intros e He. apply IH. intro e'. right. apply HA.
    + split; [intros e He; apply HA | apply IH; exact HA].
    + intros e He. apply IH. intro e'. right. apply HA.
    + intros e He. apply IH. intro e'. right. apply HA.
Qed.

(** the usual closedness by names implies closedness by copies, for every graph *)
Fixpoint closed_names (B : list str) (t : tree) : Prop :=
  match t with
  | Terminal (AVar x) => In x B
  | Terminal _ => True
  | Unary _ a => closed_names B a
  | Binary _ a b => closed_names B a /\ closed_names B b
  | Hybrid Jump x _ a => In x B /\ closed_names B a
  | Hybrid _ x _ a => closed_names (x :: B) a
  end.

Lemma closed_names_copies_ok G t : forall B, closed_names B t ->
  copies_ok G (fun e => exists x, In x B /\ var_of G x = Some e) t.
Proof.
  assert (Hb : forall x a,
    (forall B, closed_names B a -> copies_ok G (fun e => exists y, In y B /\ var_of G y = Some e) a) ->
    forall B, closed_names (x :: B) a -> forall e, var_of G x = Some e ->
    copies_ok G (fun e' => e' = e \/ exists y, In y B /\ var_of G y = Some e') a).
  { intros x a IH B H e He. eapply copies_ok_mono; [|apply IH; exact H].
    intros e' [y [[Hy|Hy] Hv]].
    - subst y. left. congruence.
    - right. exists y. split; assumption. }
  induction t as [a | o a IH | o a IHa b IHb | o x d a IH]; intros B H.
  - destruct a as [nm|x| | |l]; simpl in *; auto.
    intros e He. exists x. split; assumption.
  - simpl in *. apply IH; exact H.
  - simpl in *. destruct H as [H1 H2]. split; [apply IHa | apply IHb]; assumption.
  - destruct o; simpl in *.
    + intros e He. eapply Hb; eassumption.
    + destruct H as [H1 H2]. split; [|apply IH; exact H2].
      intros e He. exists x. split; assumption.
    + intros e He. eapply Hb; eassumption.
    + intros e He. eapply Hb; eassumption.
Qed.

Lemma closed_names_closed_copies G t : closed_names [] t -> closed_copies G t.
Proof.
  intro H. unfold closed_copies. eapply copies_ok_mono; [|apply closed_names_copies_ok; exact H].
  intros e [x [[] _]].
Qed.

(** * 3. [sat] only reads the colour, the state and the copies of the free variables *)

(** v and w have the same colour, the same state and the same copies e for e in A *)
Definition vagree (A : nat -> Prop) (v w : val) : Prop :=
  (forall j, v (TP j) = w (TP j)) /\ (forall i, v (TS i) = w (TS i)) /\
  (forall i e, A e -> v (TX i e) = w (TX i e)).

Lemma vagree_flip A i v w : vagree A v w -> vagree A (vflip (TS i) v) (vflip (TS i) w).
Proof.
  intros [H1 [H2 H3]]. unfold vflip. split; [|split].
  - intro j. simpl. apply H1.
  - intro i'. simpl. rewrite H2. reflexivity.
  - intros i' e He. simpl. apply H3. exact He.
Qed.

Lemma vagree_set_copy A e u u' v w : (forall i, u (TS i) = u' (TS i)) -> vagree A v w ->
  vagree (fun e' => e' = e \/ A e') (set_copy e u v) (set_copy e u' w).
Proof.
  intros Hu [H1 [H2 H3]]. unfold set_copy. split; [|split].
  - intro j. apply H1.
  - intro i. apply H2.
  - intros i e' He. destruct (Nat.eqb e e') eqn:E; [apply Hu|].
    destruct He as [He|He]; [|apply H3; exact He].
    subst e'. rewrite Nat.eqb_refl in E. discriminate.
Qed.

Lemma vagree_set_state (A : nat -> Prop) e v w : A e -> vagree A v w ->
  vagree A (set_state e v) (set_state e w).
Proof.
  intros He [H1 [H2 H3]]. unfold set_state. split; [|split].
  - intro j. apply H1.
  - intro i. apply H3. exact He.
  - intros i e' He'. apply H3. exact He'.
Qed.

Lemma ex_guard_iff {T} (F B B' : T -> Prop) : (forall e, F e -> (B e <-> B' e)) ->
  ((exists e, F e /\ B e) <-> (exists e, F e /\ B' e)).
Proof.
  intro H. split; intros [e [He Hb]]; exists e; (split; [exact He|]); apply (H e He); exact Hb.
Qed.

Section SatAgree.
Variables G G' : genv.
Variable names : list str.
Variable Gamma : str -> val -> Prop.
Hypothesis Hn : g_n G = g_n G'.
(** the update functions of both graphs read the colour and the state only, and agree *)
Hypothesis Hen : forall i v w, i < g_n G ->
  (forall j, v (TP j) = w (TP j)) -> (forall i', v (TS i') = w (TS i')) ->
  enabled G i v = enabled G' i w.
(** the context sets read the colour and the state only *)
Hypothesis HGamma : forall l v w,
  (forall j, v (TP j) = w (TP j)) -> (forall i, v (TS i) = w (TS i)) -> (Gamma l v <-> Gamma l w).

(** every variable of the formula is stored in the same copy in both graphs *)
Fixpoint vars_agree (t : tree) : Prop :=
  match t with
  | Terminal (AVar x) => var_of G x = var_of G' x
  | Terminal _ => True
  | Unary _ a => vars_agree a
  | Binary _ a b => vars_agree a /\ vars_agree b
  | Hybrid _ x _ a => var_of G x = var_of G' x /\ vars_agree a
  end.

Lemma vagree_en A i v w : i < g_n G -> vagree A v w -> enabled G i v = enabled G' i w.
Proof. intros Hi [H1 [H2 _]]. apply Hen; assumption. Qed.

Lemma dom_agree d v w : (forall j, v (TP j) = w (TP j)) -> (forall i, v (TS i) = w (TS i)) ->
  (dom Gamma d v <-> dom Gamma d w).
Proof. intros H1 H2. destruct d as [l|]; simpl; [apply HGamma; assumption | tauto]. Qed.

Lemma copy_is_state_agree (A : nat -> Prop) e v w : A e -> vagree A v w ->
  (copy_is_state G e v <-> copy_is_state G' e w).
Proof.
  intros He [H1 [H2 H3]]. unfold copy_is_state. split; intros H i Hi.
  - rewrite <- (H3 i e He), <- H2. apply H. rewrite Hn. exact Hi.
  - rewrite (H3 i e He), H2. apply H. rewrite <- Hn. exact Hi.
Qed.

Theorem sat_agree2 t : forall (A : nat -> Prop) v w,
  vars_agree t -> copies_ok G A t -> vagree A v w ->
  (sat G names Gamma t v <-> sat G' names Gamma t w).
Proof.
  induction t as [a | o a IH | o a IHa b IHb | o x d a IH]; intros A v w Hva Hc Hr.
  - destruct a as [nm|x| | |l]; simpl in *.
    + destruct Hr as [_ [H2 _]].
      split; intros [i [Hi Hv]]; exists i; (split; [exact Hi|]); [rewrite <- H2 | rewrite H2]; exact Hv.
    + rewrite <- Hva. apply ex_guard_iff. intros e He.
      eapply copy_is_state_agree; [apply Hc; exact He | exact Hr].
    + tauto.
    + tauto.
    + destruct Hr as [H1 [H2 _]]. apply HGamma; assumption.
  - assert (K : forall v' w', vagree A v' w' ->
                (sat G names Gamma a v' <-> sat G' names Gamma a w'))
      by (intros v' w' Hr'; apply (IH A); assumption).
    destruct o; simpl in *.
    + specialize (K v w Hr). tauto.
    + apply (EXs_bisim G G' (vagree A) Hn (vagree_en A) (vagree_flip A)); assumption.
    + apply (AXs_bisim G G' (vagree A) Hn (vagree_en A) (vagree_flip A)); assumption.
    + apply (EFs_bisim G G' (vagree A) Hn (vagree_en A) (vagree_flip A)); assumption.
    + apply (AFs_bisim G G' (vagree A) Hn (vagree_en A) (vagree_flip A)); assumption.
    + apply (EGs_bisim G G' (vagree A) Hn (vagree_en A) (vagree_flip A)); assumption.
    + apply (AGs_bisim G G' (vagree A) Hn (vagree_en A) (vagree_flip A)); assumption.
  - simpl in Hva, Hc. destruct Hva as [Hva Hvb]. destruct Hc as [Hca Hcb].
    assert (Ka : forall v' w', vagree A v' w' ->
                (sat G names Gamma a v' <-> sat G' names Gamma a w'))
      by (intros v' w' Hr'; apply (IHa A); assumption).
    assert (Kb : forall v' w', vagree A v' w' ->
                (sat G names Gamma b v' <-> sat G' names Gamma b w'))
      by (intros v' w' Hr'; apply (IHb A); assumption).
    destruct o; simpl.
    + specialize (Ka v w Hr). specialize (Kb v w Hr). tauto.
    + specialize (Ka v w Hr). specialize (Kb v w Hr). tauto.
    + specialize (Ka v w Hr). specialize (Kb v w Hr). tauto.
    + specialize (Ka v w Hr). specialize (Kb v w Hr). tauto.
    + specialize (Ka v w Hr). specialize (Kb v w Hr). tauto.
    + apply (EUs_bisim G G' (vagree A) Hn (vagree_en A) (vagree_flip A)); assumption.
    + apply (AUs_bisim G G' (vagree A) Hn (vagree_en A) (vagree_flip A)); assumption.
    + apply (EWs_bisim G G' (vagree A) Hn (vagree_en A) (vagree_flip A)); assumption.
    + apply (AWs_bisim G G' (vagree A) Hn (vagree_en A) (vagree_flip A)); assumption.
  - simpl in Hva. destruct Hva as [Hx Hva].
    assert (Kb : forall e, var_of G x = Some e ->
                 copies_ok G (fun e' => e' = e \/ A e') a ->
                 forall u u', (forall i, u (TS i) = u' (TS i)) ->
                 (sat G names Gamma a (set_copy e u v) <-> sat G' names Gamma a (set_copy e u' w))).
    { intros e He Hce u u' Hu. apply (IH (fun e' => e' = e \/ A e')); [exact Hva | exact Hce|].
      apply vagree_set_copy; assumption. }
    pose proof Hr as [H1 [H2 H3]].
    destruct o; simpl in *; rewrite <- Hx; apply ex_guard_iff; intros e He.
    + (* Bind *)
      pose proof (dom_agree d v w H1 H2) as Hd.
      pose proof (Kb e He (Hc e He) v w H2) as Hs. tauto.
    + (* Jump *)
      destruct Hc as [Hce Hca]. apply (IH A); [exact Hva | exact Hca|].
      apply vagree_set_state; [apply Hce; exact He | exact Hr].
    + (* Exists *)
      split; intros [u [Hd Hs]]; exists u; split.
      * eapply (dom_agree d (with_state u v) (with_state u w)); [exact H1 | reflexivity | exact Hd].
      * apply (Kb e He (Hc e He) u u (fun _ => eq_refl)). exact Hs.
      * eapply (dom_agree d (with_state u v) (with_state u w)); [exact H1 | reflexivity | exact Hd].
      * apply (Kb e He (Hc e He) u u (fun _ => eq_refl)). exact Hs.
    + (* Forall *)
      split; intros H u Hd.
      * apply (Kb e He (Hc e He) u u (fun _ => eq_refl)). apply H.
        eapply (dom_agree d (with_state u v) (with_state u w)); [exact H1 | reflexivity | exact Hd].
      * apply (Kb e He (Hc e He) u u (fun _ => eq_refl)). apply H.
        eapply (dom_agree d (with_state u v) (with_state u w)); [exact H1 | reflexivity | exact Hd].
Qed.

(** transfer of the closedness condition along [vars_agree] *)
Lemma copies_ok_transfer t : forall A, vars_agree t -> copies_ok G A t -> copies_ok G' A t.
Proof.
  induction t as [a | o a IH | o a IHa b IHb | o x d a IH]; intros A Hva Hc.
  - destruct a; simpl in *; auto. rewrite <- Hva. exact Hc.
  - simpl in *. apply IH; assumption.
  - simpl in *. destruct Hva, Hc. split; [apply IHa | apply IHb]; assumption.
  - simpl in Hva. destruct Hva as [Hx Hva]. destruct o; simpl in *; rewrite <- Hx.
    + intros e He. apply IH; [exact Hva | apply Hc; exact He].
    + destruct Hc as [H1 H2]. split; [exact H1 | apply IH; assumption].
    + intros e He. apply IH; [exact Hva | apply Hc; exact He].
    + intros e He. apply IH; [exact Hva | apply Hc; exact He].
Qed.

End SatAgree.

Lemma vars_agree_refl G t : vars_agree G G t.
Proof.
  induction t as [a | o a IH | o a IHa b IHb | o x d a IH]; simpl; auto.
  destruct a; simpl; auto.
Qed.

(** ** one graph *)
Section Indep.
Variable G : genv.
Variable names : list str.
Variable Gamma : str -> val -> Prop.
Local Notation L := (g_L G).
(** update functions do not read the spare copies ([wf_upd_extras]) *)
Hypothesis upd_extras : forall i v w, (forall g, is_extra_tag g = false -> v g = w g) ->
  mem L (upd_of G i) v = mem L (upd_of G i) w.
(** the context sets read the colour and the state only *)
Hypothesis HGamma : forall l v w,
  (forall j, v (TP j) = w (TP j)) -> (forall i, v (TS i) = w (TS i)) -> (Gamma l v <-> Gamma l w).

Lemma enabled_ignores_copies i v w :
  (forall j, v (TP j) = w (TP j)) -> (forall i', v (TS i') = w (TS i')) ->
  enabled G i v = enabled G i w.
Proof.
  intros H1 H2. unfold enabled. rewrite (H2 i). f_equal.
  apply upd_extras. intros [j|i'|i' e] Hg; simpl in Hg; auto. discriminate.
Qed.

(** valuations that agree on the colour, the state and the copies of the free variables
    satisfy the same formulae *)
Theorem sat_agree (A : nat -> Prop) t v w : copies_ok G A t -> vagree A v w ->
  (sat G names Gamma t v <-> sat G names Gamma t w).
Proof.
  intros Hc Hr. apply (sat_agree2 G G names Gamma eq_refl) with (A := A); try assumption.
  - intros i v' w' _ H1 H2. apply enabled_ignores_copies; assumption.
  - apply vars_agree_refl.
Qed.

(** overwriting a copy that holds no free variable of t is invisible *)
Theorem sat_set_copy_irrelevant e u t v : avoids_copy G e t ->
  (sat G names Gamma t (set_copy e u v) <-> sat G names Gamma t v).
Proof.
  intro Hc. apply (sat_agree (fun e' => e' <> e)); [exact Hc|].
  unfold vagree, set_copy. split; [|split]; try reflexivity.
  intros i e' He. destruct (Nat.eqb e e') eqn:E; [|reflexivity].
  apply Nat.eqb_eq in E. congruence.
Qed.

(** a closed formula does not depend on any TX tag *)
Theorem sat_closed_ignores_copies t v w : closed_copies G t ->
  (forall j, v (TP j) = w (TP j)) -> (forall i, v (TS i) = w (TS i)) ->
  (sat G names Gamma t v <-> sat G names Gamma t w).
Proof.
  intros Hc H1 H2. apply (sat_agree (fun _ => False)); [exact Hc|].
  split; [exact H1|]. split; [exact H2|]. intros i e [].
Qed.

End Indep.

(** * 4. [restrict] *)

Lemma mem_leaf L b v : mem L (Leaf b) v = b.
Proof. destruct L; reflexivity. Qed.

Section Restrict.
Variable keep : tag -> bool.

(** the set does not depend on the dropped levels *)
Definition indep_dropped (L : layout) (t : tt) : Prop :=
  forall v w, (forall g, keep g = true -> v g = w g) -> mem L t v = mem L t w.

Lemma restrict_mem L : forall t s, restrict keep L t = Some s ->
  forall v, mem (filter keep L) s v = mem L t v.
Proof.
  induction L as [|h L IH]; intros t s H v.
  - simpl in H. injection H as <-. reflexivity.
  - destruct t as [b|lo hi].
    + simpl in H. injection H as <-. rewrite !mem_leaf. reflexivity.
    + cbn [restrict] in H. cbn [filter]. destruct (keep h) eqn:K.
      * destruct (restrict keep L lo) as [a|] eqn:Ea; [|discriminate].
        destruct (restrict keep L hi) as [b|] eqn:Eb; [|discriminate].
        injection H as <-. cbn [mem].
        destruct (v h); apply IH; assumption.
      * destruct (tt_eqb lo hi) eqn:Eq; [|discriminate].
        apply tt_eqb_eq in Eq. subst hi. cbn [mem].
        rewrite (IH lo s H v). destruct (v h); reflexivity.
Qed.

Lemma restrict_shaped L : forall t s, shaped L t -> restrict keep L t = Some s ->
  shaped (filter keep L) s.
Proof.
  induction L as [|h L IH]; intros t s Sh H.
  - simpl in H. injection H as <-. exact Sh.
  - destruct t as [b|lo hi]; [contradiction|]. destruct Sh as [S1 S2].
    cbn [restrict] in H. cbn [filter]. destruct (keep h) eqn:K.
    + destruct (restrict keep L lo) as [a|] eqn:Ea; [|discriminate].
      destruct (restrict keep L hi) as [b|] eqn:Eb; [|discriminate].
      injection H as <-. split; [apply (IH lo) | apply (IH hi)]; assumption.
    + destruct (tt_eqb lo hi) eqn:Eq; [|discriminate]. apply (IH lo); assumption.
Qed.

(** conversely: a successful projection proves independence of the dropped levels *)
Lemma restrict_Some_indep L t s : restrict keep L t = Some s -> indep_dropped L t.
Proof.
  intros H v w Hvw. rewrite <- !(restrict_mem L t s H). apply mem_agree.
  intros g Hg. apply filter_In in Hg. apply Hvw. apply Hg.
Qed.

Lemma restrict_defined L : forall t, NoDup L -> shaped L t -> indep_dropped L t ->
  exists s, restrict keep L t = Some s.
Proof.
  induction L as [|h L IH]; intros t ND Sh Hind.
  - exists t. reflexivity.
  - destruct t as [b|lo hi]; [contradiction|]. destruct Sh as [S1 S2].
    inversion ND as [|? ? Hnotin ND']; subst.
    assert (Hb : forall b : bool, indep_dropped L (if b then hi else lo)).
    { intros b v w Hvw.
      assert (Hk : forall g, keep g = true -> upd v h b g = upd w h b g).
      { intros g Hg. unfold upd. destruct (tag_eqb g h); [reflexivity | apply Hvw; exact Hg]. }
      specialize (Hind (upd v h b) (upd w h b) Hk). cbn [mem] in Hind.
      rewrite !upd_same in Hind. rewrite !mem_upd_notin in Hind by assumption. exact Hind. }
    cbn [restrict]. destruct (keep h) eqn:K.
    + destruct (IH lo ND' S1 (Hb false)) as [a Ea]. destruct (IH hi ND' S2 (Hb true)) as [b Eb].
      rewrite Ea, Eb. eexists; reflexivity.
    + assert (E : lo = hi).
      { apply (tt_ext L); try assumption. intro v.
        assert (Hk : forall g, keep g = true -> upd v h false g = upd v h true g).
        { intros g Hg. unfold upd. destruct (tag_eqb g h) eqn:E; [|reflexivity].
          apply tag_eqb_eq in E. subst g. congruence. }
        specialize (Hind (upd v h false) (upd v h true) Hk). cbn [mem] in Hind.
        rewrite !upd_same in Hind. rewrite !mem_upd_notin in Hind by assumption. exact Hind. }
      subst hi. rewrite tt_eqb_refl. apply (IH lo ND' S1 (Hb false)).
Qed.

(** a set that does not depend on the dropped levels projects onto the kept levels without
    loss *)
Theorem restrict_indep_Some L t : NoDup L -> shaped L t -> indep_dropped L t ->
  exists s, restrict keep L t = Some s /\ shaped (filter keep L) s /\
            forall v, mem (filter keep L) s v = mem L t v.
Proof.
  intros ND Sh Hind. destruct (restrict_defined L t ND Sh Hind) as [s Hs].
  exists s. split; [exact Hs|]. split; [eapply restrict_shaped; eassumption|].
  apply restrict_mem. exact Hs.
Qed.

End Restrict.

(** * 5. Closed results ignore the spare copies; sanitised = raw *)

Section Closed.
Variable G : genv.
Variable names : list str.
Variable U : tt.
Hypothesis WF : wf_env G names U.
Local Notation L := (g_L G).
Local Notation st := (steady_of G U).

(** C03 (part 2) *)
Theorem closed_ignores_copies sw t R : plainf t -> supported G t -> closed_copies G t ->
  peval G names sw st t U = Ok R ->
  forall v w, (forall j, v (TP j) = w (TP j)) -> (forall i, v (TS i) = w (TS i)) ->
    mem L R v = mem L R w.
Proof.
  intros Hpl Hsup Hcl H v w Hp Hs.
  destruct (peval_correct G names U WF (fun _ _ => True) sw t R Hpl Hsup H) as [_ E].
  assert (HU : mem L U v = mem L U w) by (apply (wf_U_colour _ _ _ WF); exact Hp).
  assert (HS : sat G names (fun _ _ => True) t v <-> sat G names (fun _ _ => True) t w).
  { apply sat_closed_ignores_copies; try assumption.
    - apply (wf_upd_extras _ _ _ WF).
    - intros; tauto. }
  destruct (mem L R v) eqn:Ev; destruct (mem L R w) eqn:Ew; try reflexivity.
  - apply E in Ev. destruct Ev as [Hu Hsat].
    assert (Hw : mem L R w = true) by (apply E; split; [rewrite <- HU; exact Hu | apply HS; exact Hsat]).
    congruence.
  - apply E in Ew. destruct Ew as [Hu Hsat].
    assert (Hv : mem L R v = true) by (apply E; split; [rewrite HU; exact Hu | apply HS; exact Hsat]).
    congruence.
Qed.

(** the closed result does not depend on the levels dropped by [sanitize] *)
Lemma closed_indep_extras sw t R : plainf t -> supported G t -> closed_copies G t ->
  peval G names sw st t U = Ok R -> indep_dropped not_extra L R.
Proof.
  intros Hpl Hsup Hcl H v w Hvw. eapply closed_ignores_copies; try eassumption.
  - intro j. apply Hvw. reflexivity.
  - intro i. apply Hvw. reflexivity.
Qed.

(** C15: sanitising a closed result never panics and returns the same set *)
Theorem sanitize_eq_raw sw t R : plainf t -> supported G t -> closed_copies G t ->
  peval G names sw st t U = Ok R ->
  exists S, sanitize G R = Ok S /\ shaped (filter not_extra L) S /\
            forall v, mem (filter not_extra L) S v = mem L R v.
Proof.
  intros Hpl Hsup Hcl H.
  destruct (peval_correct G names U WF (fun _ _ => True) sw t R Hpl Hsup H) as [Sh _].
  destruct (restrict_indep_Some not_extra L R (wf_nodup _ _ _ WF) Sh
              (closed_indep_extras sw t R Hpl Hsup Hcl H)) as [S [E [SS HM]]].
  exists S. unfold sanitize. rewrite E. auto.
Qed.

(** conversely, whenever [sanitize] succeeds the raw set ignores the spare copies *)
Theorem sanitize_Ok_indep R S : sanitize G R = Ok S ->
  (forall v, mem (filter not_extra L) S v = mem L R v) /\ indep_dropped not_extra L R.
Proof.
  unfold sanitize. destruct (restrict not_extra L R) as [s|] eqn:E; [|discriminate].
  intro H. injection H as <-. split; [apply restrict_mem; exact E | eapply restrict_Some_indep; exact E].
Qed.

End Closed.

(** * 6. The sanitised result does not depend on the number of spare copies *)

Lemma var_of_some G x : var_of G x <> None -> var_of G x = Some (pred (length x)).
Proof.
  unfold var_of. destruct x as [|c r]; [congruence|].
  destruct (Nat.ltb (length r) (g_k G)); [reflexivity | congruence].
Qed.

Lemma supported_vars_agree G G' t : supported G t -> supported G' t -> vars_agree G G' t.
Proof.
  induction t as [a | o a IH | o a IHa b IHb | o x d a IH]; simpl.
  - destruct a; simpl; auto. intros H H'. rewrite (var_of_some G), (var_of_some G'); auto.
  - exact IH.
  - intros [H1 H2] [H1' H2']. auto.
  - intros [H1 H2] [H1' H2']. split; [|auto].
    rewrite (var_of_some G), (var_of_some G'); auto.
Qed.

Section KIndep.
Variables p n k k' : nat.
Variable upd_pn : list tt.
Variable unit_pn : tt.
Variable names : list str.
Hypothesis upd_ok : List.Forall (shaped (Lpn p n)) upd_pn.
Hypothesis unit_ok : shaped (Lpn p n) unit_pn.
Hypothesis unit_colour : forall v w, (forall j, v (TP j) = w (TP j)) ->
  mem (Lpn p n) unit_pn v = mem (Lpn p n) unit_pn w.
Hypothesis names_ok : length names <= n.

Lemma mem_upd_of_mk_genv kk i v :
  mem (mk_layout p n kk) (upd_of (mk_genv p n kk upd_pn) i) v =
  mem (Lpn p n) (nth i upd_pn (const (Lpn p n) false)) v.
Proof.
  unfold upd_of. cbn [g_upd mk_genv].
  change (fun g => negb (is_extra_tag g)) with not_extra.
  change (empty (mk_genv p n kk upd_pn)) with (const (mk_layout p n kk) false).
  destruct (Nat.lt_ge_cases i (length upd_pn)) as [Hi|Hi].
  - rewrite (nth_indep _ _ (expand not_extra (mk_layout p n kk) (const (Lpn p n) false)))
      by (rewrite map_length; exact Hi).
    rewrite map_nth.
    assert (Sh : shaped (Lpn p n) (nth i upd_pn (const (Lpn p n) false))).
    { rewrite List.Forall_forall in upd_ok. apply upd_ok. apply nth_In. exact Hi. }
    rewrite mem_expand by (rewrite filter_not_extra_layout; exact Sh).
    rewrite filter_not_extra_layout. reflexivity.
  - rewrite !nth_overflow by (try rewrite map_length; exact Hi).
    rewrite !mem_const. reflexivity.
Qed.

Lemma agree_Lpn v w : (forall j, v (TP j) = w (TP j)) -> (forall i, v (TS i) = w (TS i)) ->
  agree (Lpn p n) v w.
Proof.
  intros H1 H2 g Hg. unfold Lpn in Hg. apply in_app_iff in Hg.
  destruct Hg as [Hg|Hg]; apply in_map_iff in Hg; destruct Hg as [x [<- _]]; auto.
Qed.

Lemma enabled_mk_genv i v w :
  (forall j, v (TP j) = w (TP j)) -> (forall i', v (TS i') = w (TS i')) ->
  enabled (mk_genv p n k upd_pn) i v = enabled (mk_genv p n k' upd_pn) i w.
Proof.
  intros H1 H2. unfold enabled. cbn [g_L mk_genv]. rewrite !mem_upd_of_mk_genv, (H2 i).
  f_equal. apply mem_agree. apply agree_Lpn; assumption.
Qed.

Local Notation G := (mk_genv p n k upd_pn).
Local Notation G' := (mk_genv p n k' upd_pn).
Local Notation U := (expand not_extra (mk_layout p n k) unit_pn).
Local Notation U' := (expand not_extra (mk_layout p n k') unit_pn).

(** the meaning of a formula whose variables fit into both graphs is the same in both *)
Theorem sat_k_independent Gamma (A : nat -> Prop) t v w :
  (forall l v w, (forall j, v (TP j) = w (TP j)) -> (forall i, v (TS i) = w (TS i)) ->
     (Gamma l v <-> Gamma l w)) ->
  supported G t -> supported G' t -> copies_ok G A t -> vagree A v w ->
  (sat G names Gamma t v <-> sat G' names Gamma t w).
Proof.
  intros HGamma Hs Hs' Hc Hr.
  apply (sat_agree2 G G' names Gamma eq_refl) with (A := A); try assumption.
  - intros i v' w' _ H1 H2. apply enabled_mk_genv; assumption.
  - apply supported_vars_agree; assumption.
Qed.

(** in particular at one and the same valuation, for formulae with free variables too *)
Corollary sat_k_same_valuation Gamma t v :
  (forall l v w, (forall j, v (TP j) = w (TP j)) -> (forall i, v (TS i) = w (TS i)) ->
     (Gamma l v <-> Gamma l w)) ->
  supported G t -> supported G' t ->
  (sat G names Gamma t v <-> sat G' names Gamma t v).
Proof.
  intros HGamma Hs Hs'. apply (sat_k_independent Gamma (fun _ => True)); try assumption.
  - apply copies_ok_top. intro e. exact I.
  - split; [reflexivity|]. split; reflexivity.
Qed.

Lemma NoDup_Lpn : NoDup (Lpn p n).
Proof.
  unfold Lpn. rewrite <- (filter_not_extra_layout p n 0). apply NoDup_filter. apply NoDup_mk_layout.
Qed.

(** C15: both sanitised results exist, are the same tree over the layout [Lpn p n], and that
    tree is the set of (colour, state) pairs of the unit that satisfy the formula *)
Theorem k_independent sw sw' t R R' :
  plainf t -> supported G t -> supported G' t -> closed_copies G t ->
  peval G names sw (steady_of G U) t U = Ok R ->
  peval G' names sw' (steady_of G' U') t U' = Ok R' ->
  exists S, sanitize G R = Ok S /\ sanitize G' R' = Ok S /\ shaped (Lpn p n) S /\
    forall Gamma v, mem (Lpn p n) S v = true <->
      (mem (Lpn p n) unit_pn v = true /\ sat G names Gamma t v).
Proof.
  intros Hpl Hs Hs' Hcl H H'.
  pose proof (mk_genv_wf p n k upd_pn unit_pn names upd_ok unit_ok unit_colour names_ok) as WF.
  pose proof (mk_genv_wf p n k' upd_pn unit_pn names upd_ok unit_ok unit_colour names_ok) as WF'.
  assert (Hcl' : closed_copies G' t).
  { unfold closed_copies. apply (copies_ok_transfer G G'); [|exact Hcl].
    apply supported_vars_agree; assumption. }
  destruct (sanitize_eq_raw G names U WF sw t R Hpl Hs Hcl H) as [S [E [Sh HM]]].
  destruct (sanitize_eq_raw G' names U' WF' sw' t R' Hpl Hs' Hcl' H') as [S' [E' [Sh' HM']]].
  cbn [g_L mk_genv] in Sh, HM, Sh', HM'. rewrite filter_not_extra_layout in Sh, HM, Sh', HM'.
  fold (Lpn p n) in Sh, HM, Sh', HM'.
  assert (HR : forall Gamma v, mem (Lpn p n) S v = true <->
             (mem (Lpn p n) unit_pn v = true /\ sat G names Gamma t v)).
  { intros Gamma v. rewrite HM.
    destruct (peval_correct G names U WF Gamma sw t R Hpl Hs H) as [_ Ev].
    cbn [g_L mk_genv] in Ev. rewrite Ev.
    rewrite mem_expand by (rewrite filter_not_extra_layout; exact unit_ok).
    rewrite filter_not_extra_layout. reflexivity. }
  assert (HR' : forall v, mem (Lpn p n) S' v = true <->
             (mem (Lpn p n) unit_pn v = true /\ sat G' names (fun _ _ => True) t v)).
  { intro v. rewrite HM'.
    destruct (peval_correct G' names U' WF' (fun _ _ => True) sw' t R' Hpl Hs' H') as [_ Ev].
    cbn [g_L mk_genv] in Ev. rewrite Ev.
    rewrite mem_expand by (rewrite filter_not_extra_layout; exact unit_ok).
    rewrite filter_not_extra_layout. reflexivity. }
  assert (ES : S' = S).
  { apply (tt_ext (Lpn p n)); [apply NoDup_Lpn | exact Sh' | exact Sh |].
    intro v.
    assert (HS : sat G names (fun _ _ => True) t v <-> sat G' names (fun _ _ => True) t v).
    { apply (sat_k_independent (fun _ _ => True) (fun _ => False)); try assumption.
      - intros; tauto.
      - split; [reflexivity|]. split; [reflexivity|]. intros i e []. }
    destruct (mem (Lpn p n) S' v) eqn:A1; destruct (mem (Lpn p n) S v) eqn:A2; try reflexivity.
    - apply HR' in A1. destruct A1 as [Hu Hsat].
      assert (A3 : mem (Lpn p n) S v = true) by (apply (HR (fun _ _ => True)); split; [exact Hu | apply HS; exact Hsat]).
      congruence.
    - apply (HR (fun _ _ => True)) in A2. destruct A2 as [Hu Hsat].
      assert (A3 : mem (Lpn p n) S' v = true) by (apply HR'; split; [exact Hu | apply HS; exact Hsat]).
      congruence. }
  subst S'. exists S. auto.
Qed.

(** the equational form *)
Corollary k_independent_eq sw sw' t R R' S S' :
  plainf t -> supported G t -> supported G' t -> closed_copies G t ->
  peval G names sw (steady_of G U) t U = Ok R ->
  peval G' names sw' (steady_of G' U') t U' = Ok R' ->
  sanitize G R = Ok S -> sanitize G' R' = Ok S' -> S = S'.
Proof.
  intros Hpl Hs Hs' Hcl H H' E E'.
  destruct (k_independent sw sw' t R R' Hpl Hs Hs' Hcl H H') as [S0 [E0 [E0' _]]].
  congruence.
Qed.

End KIndep.
