(** Every tree the front end produces satisfies [well_named], the side condition of the
    parser round trip (C06), of the canonical forms (C09) and of the cache invariant (C04):
    - [parsed_well_named]: the result of [parse_formula],
    - [rename_well_named]: preserved by preprocessing,
    - [prepared_well_named]: the trees [validate_all] returns. *)
From HCTL Require Import Base Syntax Tokenizer Parser Preprocess Pipeline.
From HCTL Require Import EvalPure PrepFacts ParserFacts NoPanic RoundTrip LexFacts.

Section Named.
Variable ext_alnum : N -> bool.
Local Notation name_ok := (name_ok ext_alnum).
Local Notation well_named := (well_named ext_alnum).

(** what the lexer guarantees about a token (groups are flattened by [strip]) *)
Definition pre_ok (ext : bool) (x : token) : Prop :=
  match x with
  | TAtom (AProp n) => name_ok n /\ head_not_ws n /\ ~ In n op_words
  | TAtom (AVar y) => name_ok y
  | TAtom (AWild p) => ext = true /\ name_ok p
  | THyb o y d => name_ok y /\ dom_ok ext_alnum ext o d
  | _ => True
  end.

(** what [well_named] asks of the operators and atoms of a tree *)
Definition leaf_ok (ext : bool) (x : token) : Prop :=
  match x with
  | TAtom a => atom_ok ext_alnum ext a
  | THyb o y d => name_ok y /\ dom_ok ext_alnum ext o d
  | _ => True
  end.

Lemma pre_ok_norm ext x : pre_ok ext x -> leaf_ok ext (norm_tok x).
Proof.
  destruct x as [o | o | o y d | a | ts]; cbn [pre_ok norm_tok leaf_ok]; try exact (fun H => H).
  destruct a as [n | y | | | p]; cbn [leaf_ok atom_ok]; try exact (fun H => H).
  intros (N & H & O). unfold atom_of_prop_name.
  destruct (str_eqb n s_true || str_eqb n s_True || str_eqb n s_1) eqn:E1; [exact I|].
  destruct (str_eqb n s_false || str_eqb n s_False || str_eqb n s_0) eqn:E2; [exact I|].
  cbn [atom_ok]. unfold prop_ok. repeat split; try assumption; try apply N.
  unfold atom_of_prop_name. rewrite E1, E2. reflexivity.
Qed.

Lemma leaves_well_named ext t : List.Forall (leaf_ok ext) (leaves t) -> well_named ext t.
Proof.
  induction t as [a | o c IH | o l IHl r IHr | o x d c IH]; cbn [leaves well_named]; intro F.
  - inversion F as [|? ? H _]; subst. exact H.
  - inversion F; subst. apply IH. assumption.
  - apply Forall_app in F. destruct F as [Fl Fr]. inversion Fr; subst.
    split; [apply IHl | apply IHr]; assumption.
  - inversion F as [|? ? H F']; subst. cbn [leaf_ok] in H. destruct H as [H1 H2].
    split; [exact H1|]. split; [exact H2|]. apply IH, F'.
Qed.

Lemma op_word_keyword w : In w op_words ->
  alookup str_eqb w keyword_tokens <> None \/ alookup str_eqb w quantifier_words <> None.
Proof.
  unfold op_words. cbn [In].
  intros [<-|[<-|[<-|[<-|[<-|[<-|[<-|[<-|[<-|[<-|[<-|[<-|[]]]]]]]]]]]]];
    try (left; vm_compute; discriminate); right; vm_compute; discriminate.
Qed.

Lemma HybSeg_ok ext o cs x d r : HybSeg ext_alnum (dom_allowed ext o) cs x d r ->
  name_ok x /\ dom_ok ext_alnum ext o d.
Proof.
  intro H. inversion H as [w1 x' w2 r' W1 NX W2 | w1 x' w2 w3 d' w4 r' DA W1 NX W2 W3 ND W4]; subst.
  - split; [exact NX | exact I].
  - split; [exact NX|]. cbn [dom_ok]. destruct o; cbn [dom_allowed] in DA; try discriminate DA;
      subst ext; (split; [reflexivity|]); (split; [discriminate | exact ND]).
Qed.

Lemma LexR_pre_ok ext top cs ts out :
  LexR ext_alnum ext top cs ts out -> List.Forall (pre_ok ext) (strip ts).
Proof.
  intro H. induction H.
  - constructor.
  - constructor.
  - exact IHLexR.
  - rewrite strip_cons.
    assert (strip_tok t = [t] /\ pre_ok ext t) as [-> P].
    { unfold symbol_tokens in H. cbn [alookup] in H.
      repeat match type of H with (if ?b then _ else _) = _ => destruct b end;
        try discriminate H; injection H as <-; (split; [reflexivity | exact I]). }
    constructor; assumption.
  - rewrite strip_cons. constructor; [exact I | exact IHLexR].
  - rewrite strip_cons. constructor; [exact I | exact IHLexR].
  - rewrite strip_cons.
    assert (strip_tok t = [t] /\ pre_ok ext t) as [-> P].
    { apply alookup_str_In in H0. unfold keyword_tokens in H0. cbn [In] in H0.
      repeat match type of H0 with _ \/ _ => destruct H0 as [H0 | H0] end;
        try (injection H0 as _ <-; split; [reflexivity | exact I]). destruct H0. }
    constructor; assumption.
  - rewrite strip_cons. constructor; [|exact IHLexR]. cbn [pre_ok]. eapply HybSeg_ok; eassumption.
  - rewrite strip_cons. constructor; [|exact IHLexR]. cbn [pre_ok]. destruct H as (N & HW & _).
    split; [exact N|]. split; [exact HW|]. intro IN.
    destruct (op_word_keyword w IN) as [K | K]; [apply K; assumption | apply K; assumption].
  - rewrite strip_cons. constructor; [|exact IHLexR]. cbn [pre_ok]. eapply HybSeg_ok; eassumption.
  - rewrite strip_cons. constructor; [|exact IHLexR]. cbn [pre_ok]. eapply HybSeg_ok; eassumption.
  - rewrite strip_cons. constructor; [exact H | exact IHLexR].
  - rewrite strip_cons. constructor; [split; assumption | exact IHLexR].
  - rewrite strip_cons, strip_tok_group. apply Forall_app. split; assumption.
Qed.

Theorem parsed_well_named ext s t : parse_formula ext_alnum ext s = Ok t -> well_named ext t.
Proof.
  intro H. unfold parse_formula in H.
  destruct (tokenize ext_alnum ext s) as [ts| | |] eqn:T; cbn [bind] in H; try discriminate H.
  apply tokenize_sound in T. apply parse_sound in H.
  apply leaves_well_named. rewrite (leaves_strip ts t H).
  pose proof (LexR_pre_ok ext true s ts [] T) as F.
  apply Forall_forall. intros x IN. apply in_map_iff in IN. destruct IN as (y & <- & IN).
  apply pre_ok_norm. rewrite Forall_forall in F. apply F, IN.
Qed.

Lemma name_ok_xs j : name_ok (xs (S j)).
Proof.
  split; [discriminate|]. unfold xs. induction (S j) as [|m IH]; cbn [repeat_n]; constructor;
    [reflexivity | exact IH].
Qed.

Lemma name_ok_rename_var scope x : name_ok x -> name_ok (rename_var scope x).
Proof.
  intro H. unfold rename_var. destruct (index x scope) as [i|] eqn:I; [|exact H].
  destruct (index_some _ _ _ I) as [LT _].
  replace (length scope - i) with (S (length scope - S i)) by lia. apply name_ok_xs.
Qed.

Lemma rename_well_named ext t : forall scope, well_named ext t -> well_named ext (rename scope t).
Proof.
  induction t as [a | o c IH | o l IHl r IHr | o x d c IH]; intros scope W;
    cbn [well_named rename] in *.
  - destruct a as [n | y | | | p]; cbn [well_named atom_ok] in *; try exact W.
    apply name_ok_rename_var, W.
  - apply IH, W.
  - destruct W; split; [apply IHl | apply IHr]; assumption.
  - destruct W as (NX & D & W). destruct (is_quantifier o); cbn [well_named].
    + split; [apply name_ok_xs|]. split; [exact D | apply IH, W].
    + split; [apply name_ok_rename_var, NX|]. split; [exact D | apply IH, W].
Qed.

Theorem prepared_well_named props k f t' :
  prepared ext_alnum props k f t' -> well_named false t'.
Proof.
  intros (t & HP & _ & ->). apply rename_well_named. eapply parsed_well_named. exact HP.
Qed.

End Named.
