(** The entry-point model [check_trees] (Model/Pipeline.v), in the mode whose evaluation
    context marks no duplicates, returns for every formula exactly its satisfying valuations. *)
From HCTL Require Import Base Syntax Canon MarkDup TT Ops Eval Pipeline Kripke HCTL.
From HCTL Require Import TTFacts OpsFacts EvalPure Main LayoutFacts.

Section PipelineFacts.
Variable w : world.
Variable k : nat.
Hypothesis upd_ok : List.Forall (shaped (Lpn (w_p w) (w_n w))) (w_upd w).
Hypothesis unit_ok : shaped (Lpn (w_p w) (w_n w)) (w_unit w).
Hypothesis unit_colour : forall v v', (forall j, v (TP j) = v' (TP j)) ->
  mem (Lpn (w_p w) (w_n w)) (w_unit w) v = mem (Lpn (w_p w) (w_n w)) (w_unit w) v'.
Hypothesis names_ok : length (w_names w) <= w_n w.

Let G := genv_of w k.
Let U := unit_of w k.

Lemma world_wf : wf_env G (w_names w) U.
Proof. apply mk_genv_wf; assumption. Qed.

Lemma eval_all_nodup sw steady : forall ts c rs,
  List.Forall plainf ts -> duplicates c = [] ->
  eval_all G (w_names w) sw steady U ts c = Ok rs ->
  List.Forall2 (fun t R => peval G (w_names w) sw steady t U = Ok R) ts rs.
Proof.
  induction ts as [|t ts IH]; intros c rs Hpl Hd H; simpl in H.
  - injection H as <-. constructor.
  - inversion Hpl as [|? ? Hp Hps]; subst.
    destruct (eval_node_nodup G (w_names w) sw steady t U c Hp Hd) as [c1 [Hd1 E]].
    rewrite E in H.
    destruct (peval G (w_names w) sw steady t U) as [r| | |] eqn:EP; simpl in H; try discriminate.
    destruct (eval_all G (w_names w) sw steady U ts c1) as [rs'| | |] eqn:ER; simpl in H; try discriminate.
    injection H as <-. constructor; [exact EP|]. eapply IH; eassumption.
Qed.

(** plain entry points, dirty results, evaluation context without duplicates *)
Theorem check_trees_nocache_correct (Gamma : str -> val -> Prop) m ts rs :
  m_ext m = false -> m_sanitize m = false -> m_unsafe_ex m = false -> m_nocache m = true ->
  List.Forall plainf ts -> List.Forall (supported G) ts ->
  check_trees w k m ts [] [] = Ok rs ->
  List.Forall2 (fun t R => forall v,
     mem (g_L G) R v = true <-> (mem (g_L G) U v = true /\ sat G (w_names w) Gamma t v)) ts rs.
Proof.
  intros He Hs Hu Hn Hpl Hsup H. unfold check_trees in H.
  rewrite He, Hs, Hu, Hn in H. fold G U in H.
  destruct (eval_all G (w_names w) {| use_patterns := negb (m_nopatterns m) |} (steady_of G U) U ts (ctx_new []))
    as [rs'| | |] eqn:E; simpl in H; try discriminate.
  injection H as <-.
  pose proof (eval_all_nodup _ _ ts (ctx_new []) rs' Hpl eq_refl E) as F.
  clear E. revert Hpl Hsup. induction F as [|t R ts rs' HR F IH]; intros Hpl Hsup; constructor.
  - inversion Hpl; inversion Hsup; subst.
    exact (proj2 (peval_correct G (w_names w) U world_wf Gamma _ t R H1 H5 HR)).
  - inversion Hpl; inversion Hsup; subst. apply IH; assumption.
Qed.

End PipelineFacts.
