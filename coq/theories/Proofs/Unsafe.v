(** The self-loop set handed to [eval_node] is only consulted by EX, AX, AF, EG, AU, EW and
    by the steady-state shortcut (whose pattern contains AX): on formulae without those
    operators the evaluation -- including all cache traffic -- does not depend on it (C18). *)
From HCTL Require Import Base Syntax Canon MarkDup TT Ops Eval Kripke HCTL.
From HCTL Require Import TTFacts OpsFacts FixFacts SemFacts EvalPure.

Fixpoint in_fragment (t : tree) : Prop :=
  match t with
  | Terminal _ => True
  | Unary o a =>
      match o with EX | AX | AF | EG => False | _ => in_fragment a end
  | Binary o a b =>
      match o with AU | EW => False | _ => in_fragment a /\ in_fragment b end
  | Hybrid _ _ _ a => in_fragment a
  end.

Section Unsafe.
Variable G : genv.
Variable names : list str.
Variable sw : switches.

Lemma fragment_not_fixed_point_pattern t : in_fragment t -> is_fixed_point_pattern t = false.
Proof.
  intro Hf. destruct (is_fixed_point_pattern t) eqn:E; [|reflexivity].
  destruct t as [a|o a|o a b|o x d a]; try discriminate.
  simpl in E. destruct o; try discriminate. destruct d; try discriminate.
  destruct a as [a|o a|o a b|o y d a]; try discriminate. destruct o; try discriminate.
  simpl in Hf. contradiction.
Qed.

Ltac split_cache :=
  match goal with |- context [amem key_eqb ?k (duplicates ?c)] =>
    destruct (amem key_eqb k (duplicates c)) eqn:?Ed end;
  [ match goal with |- context [alookup key_eqb ?k (cache ?c)] =>
      destruct (alookup key_eqb k (cache c)) as [[? ?]|] eqn:?Ec end | ].

Theorem fragment_ignores_steady s1 s2 : forall t U c, in_fragment t ->
  eval_node G names sw s1 t U c = eval_node G names sw s2 t U c.
Proof.
  induction t as [a | o a IH | o a IHa b IHb | o x d a IH]; intros U c Hf.
  - cbn [eval_node]. destruct (canonize (render (Terminal a))) as [canon ren].
    cbn [is_attractor_pattern is_fixed_point_pattern]. rewrite !andb_false_r. reflexivity.
  - cbn [eval_node]. destruct (canonize (render (Unary o a))) as [canon ren].
    cbn [is_attractor_pattern is_fixed_point_pattern]. rewrite !andb_false_r.
    assert (Ha : in_fragment a) by (destruct o; simpl in Hf; tauto).
    rewrite (IH U c Ha).
    destruct o; simpl in Hf; try contradiction; reflexivity.
  - cbn [eval_node]. destruct (canonize (render (Binary o a b))) as [canon ren].
    cbn [is_attractor_pattern is_fixed_point_pattern]. rewrite !andb_false_r.
    assert (Hab : in_fragment a /\ in_fragment b) by (destruct o; simpl in Hf; tauto).
    destruct Hab as [Ha Hb]. rewrite (IHa U c Ha).
    split_cache; try reflexivity;
      (destruct (eval_node G names sw s2 a U c) as [[ra c1]| | |]; try reflexivity;
       cbn [bind]; rewrite (IHb U c1 Hb);
       destruct o; simpl in Hf; try contradiction; reflexivity).
  - cbn [eval_node]. destruct (canonize (render (Hybrid o x d a))) as [canon ren].
    rewrite (fragment_not_fixed_point_pattern _ Hf). rewrite !andb_false_r.
    simpl in Hf.
    split_cache; try reflexivity;
    (destruct (use_patterns sw && is_attractor_pattern (Hybrid o x d a)); [reflexivity|]);
    destruct o;
      try (rewrite IH by assumption; reflexivity);
      (destruct d as [dl|];
       [ destruct (alookup str_eqb dl _); [|reflexivity];
         destruct (hctl_var_id G x); try reflexivity; cbn [bind];
         destruct (is_empty _); [reflexivity|]; rewrite IH by assumption; reflexivity
       | rewrite IH by assumption; reflexivity ]).
Qed.

End Unsafe.

(** on a network without steady states the self-loop set is empty anyway *)
Section NoSteady.
Variable G : genv.
Local Notation L := (g_L G).
Hypothesis L_nodup : NoDup L.
Hypothesis upd_shaped : forall i, shaped L (upd_of G i).
Hypothesis TS_in : forall i, i < g_n G -> In (TS i) L.
Variable U : tt.
Hypothesis U_shaped : shaped L U.

Theorem no_steady_states_empty :
  (forall v, mem L U v = true -> ~ vsteady G v) -> steady_of G U = empty G.
Proof.
  intro H. apply (tt_ext L); try assumption.
  - apply shaped_steady_of; assumption.
  - apply shaped_const.
  - intro v. rewrite mem_empty. destruct (mem L (steady_of G U) v) eqn:E; [|reflexivity].
    apply (mem_steady_of G L_nodup upd_shaped TS_in U v U_shaped) in E.
    destruct E as [Hu Hs]. exfalso. exact (H v Hu Hs).
Qed.
End NoSteady.
