(** Printing and parsing are inverse (property C06).

    1. the stored text / height of the node record are consistent with [render] / [height];
    2. token level:     [parse_tokens (tokens_of t) = Ok t];
    3. character level: [tokenize ext (render t) = Ok (tokens_of t)] for well-named trees,
       hence [parse_formula ext (render t) = Ok t];
    4. [render] is injective on well-named trees. *)
From HCTL Require Import Base Syntax Tokenizer Parser Pipeline ParserFacts.

(** * 1. Stored fields *)

(** every node of [s] stores the text and the height of the tree it represents *)
Fixpoint consistent (s : snode) : Prop :=
  stext s = render (forget s) /\ sheight s = height (forget s) /\
  match s with
  | SNode _ _ sh =>
      match sh with
      | STerminal _ => True
      | SUnary _ c => consistent c
      | SBinary _ l r => consistent l /\ consistent r
      | SHybrid _ _ _ c => consistent c
      end
  end.

Lemma consistent_text : forall s, consistent s -> stext s = render (forget s).
Proof. intros [tx h sh] H. exact (proj1 H). Qed.

Lemma consistent_height : forall s, consistent s -> sheight s = height (forget s).
Proof. intros [tx h sh] H. exact (proj1 (proj2 H)). Qed.

Lemma consistent_mk_atom : forall a, consistent (mk_atom a).
Proof. intros a. repeat split. Qed.

Lemma consistent_mk_unary : forall c o, consistent c -> consistent (mk_unary c o).
Proof.
  intros c o Hc. pose proof (consistent_text c Hc) as Ht.
  pose proof (consistent_height c Hc) as Hh.
  unfold mk_unary.
  cbn [consistent stext sheight forget render height].
  rewrite Ht, Hh. repeat split; try assumption.
Qed.

Lemma consistent_mk_binary : forall l r o,
  consistent l -> consistent r -> consistent (mk_binary l r o).
Proof.
  intros l r o Hl Hr.
  pose proof (consistent_text l Hl) as Htl. pose proof (consistent_height l Hl) as Hhl.
  pose proof (consistent_text r Hr) as Htr. pose proof (consistent_height r Hr) as Hhr.
  unfold mk_binary.
  cbn [consistent stext sheight forget render height].
  rewrite Htl, Hhl, Htr, Hhr. repeat split; assumption.
Qed.

Lemma consistent_mk_hybrid : forall c x d o, consistent c -> consistent (mk_hybrid c x d o).
Proof.
  intros c x d o Hc. pose proof (consistent_text c Hc) as Ht.
  pose proof (consistent_height c Hc) as Hh.
  unfold mk_hybrid.
  cbn [consistent stext sheight forget render height].
  rewrite Ht, Hh. repeat split; assumption.
Qed.

Lemma forget_mk_atom : forall a, forget (mk_atom a) = Terminal a.
Proof. reflexivity. Qed.
Lemma forget_mk_unary : forall c o, forget (mk_unary c o) = Unary o (forget c).
Proof. reflexivity. Qed.
Lemma forget_mk_binary : forall l r o,
  forget (mk_binary l r o) = Binary o (forget l) (forget r).
Proof. reflexivity. Qed.
Lemma forget_mk_hybrid : forall c x d o,
  forget (mk_hybrid c x d o) = Hybrid o x d (forget c).
Proof. reflexivity. Qed.

Lemma forget_annotate : forall t, forget (annotate t) = t.
Proof.
  induction t as [a|o c IH|o l IHl r IHr|o x d c IH]; cbn [annotate].
  - reflexivity.
  - rewrite forget_mk_unary, IH. reflexivity.
  - rewrite forget_mk_binary, IHl, IHr. reflexivity.
  - rewrite forget_mk_hybrid, IH. reflexivity.
Qed.

Lemma consistent_annotate : forall t, consistent (annotate t).
Proof.
  induction t as [a|o c IH|o l IHl r IHr|o x d c IH]; cbn [annotate].
  - apply consistent_mk_atom.
  - apply consistent_mk_unary; assumption.
  - apply consistent_mk_binary; assumption.
  - apply consistent_mk_hybrid; assumption.
Qed.

Lemma annotate_text : forall t, stext (annotate t) = render t.
Proof.
  intros t. rewrite (consistent_text _ (consistent_annotate t)), forget_annotate. reflexivity.
Qed.

Lemma annotate_height : forall t, sheight (annotate t) = height t.
Proof.
  intros t. rewrite (consistent_height _ (consistent_annotate t)), forget_annotate. reflexivity.
Qed.

(** * 2. Token-level round trip *)

(** the token a rendered (sub)formula is read as: an atom, or one group *)
Definition atom_tok (a : atom) : token :=
  match a with
  | ATrue => TAtom (AProp s_True)
  | AFalse => TAtom (AProp s_False)
  | _ => TAtom a
  end.

Fixpoint tok_of (t : tree) : token :=
  match t with
  | Terminal a => atom_tok a
  | Unary o c => TGroup [TUn o; tok_of c]
  | Binary o l r => TGroup [tok_of l; TBin o; tok_of r]
  | Hybrid o x d c => TGroup [THyb o x d; tok_of c]
  end.

Definition tokens_of (t : tree) : list token := [tok_of t].

(** proposition names that the parser does not turn into constants *)
Fixpoint unreserved (t : tree) : Prop :=
  match t with
  | Terminal (AProp n) => atom_of_prop_name n = AProp n
  | Terminal _ => True
  | Unary _ c => unreserved c
  | Binary _ l r => unreserved l /\ unreserved r
  | Hybrid _ _ _ c => unreserved c
  end.

Lemma L_of_U : forall n ts t, U ts t -> L n ts t.
Proof.
  induction n as [|n IH]; intros ts t H.
  - apply L_unary; exact H.
  - apply L_skip, IH; exact H.
Qed.

Lemma L_mono : forall n m ts t, n <= m -> L n ts t -> L m ts t.
Proof.
  intros n m ts t Hnm H. induction Hnm as [|m Hnm IH]; [exact H|].
  apply L_skip; exact IH.
Qed.

Lemma G_of_U : forall ts t, U ts t -> G ts t.
Proof. intros ts t H. apply G_expr, L_of_U; exact H. Qed.

Lemma op_level_le : forall o, op_level o <= 5.
Proof. intros o; destruct o; cbn [op_level]; lia. Qed.

Lemma U_tok_of : forall t, unreserved t -> U [tok_of t] t.
Proof.
  induction t as [a|o c IH|o l IHl r IHr|o x d c IH]; intros Hu; cbn [tok_of].
  - destruct a as [n|x| | |p]; cbn [atom_tok].
    + cbn [unreserved] in Hu.
      pose proof (U_prop n) as H. rewrite Hu in H. exact H.
    + apply U_var.
    + exact (U_prop s_True).
    + exact (U_prop s_False).
    + apply U_wild.
  - cbn [unreserved] in Hu. apply U_group, G_of_U, U_un, IH; exact Hu.
  - cbn [unreserved] in Hu. destruct Hu as (Hl & Hr).
    apply U_group, G_expr.
    apply (L_mono (S (op_level o)) 6); [pose proof (op_level_le o); lia|].
    change [tok_of l; TBin o; tok_of r] with ([tok_of l] ++ TBin o :: [tok_of r]).
    apply L_bin; [reflexivity| |].
    + apply L_of_U, IHl; exact Hl.
    + apply L_of_U, IHr; exact Hr.
  - cbn [unreserved] in Hu. apply U_group, G_hyb, G_of_U, IH; exact Hu.
Qed.

Theorem G_tokens_of : forall t, unreserved t -> G (tokens_of t) t.
Proof. intros t Hu. apply G_of_U, U_tok_of; exact Hu. Qed.

Theorem parse_tokens_of : forall t, unreserved t -> parse_tokens (tokens_of t) = Ok t.
Proof. intros t Hu. apply parse_complete, G_tokens_of; exact Hu. Qed.

(** * 3. Character-level round trip *)

(** the words the tokenizer reads as operators when they stand alone *)
Definition op_words : list str :=
  [unop_str EX; unop_str AX; unop_str EF; unop_str AF; unop_str EG; unop_str AG;
   binop_str EU; binop_str AU; binop_str EW; binop_str AW;
   hybop_str Exists; hybop_str Forall].

Definition head_not_ws (n : str) : Prop :=
  match n with c :: _ => is_ws c = false | [] => True end.

Section Chars.
Variable ext_alnum : N -> bool.

Local Notation nchar := (is_name_char ext_alnum).
Local Notation cname := (collect_name ext_alnum).
Local Notation pnc := (peek_name_char ext_alnum).
Local Notation cvd := (collect_var_dom ext_alnum).
Local Notation tk := (tok ext_alnum).

(** a non-empty word of name characters *)
Definition name_ok (n : str) : Prop :=
  n <> [] /\ List.Forall (fun c => nchar c = true) n.

(** A proposition name is printed bare, so besides being a name it must
    - not start with a character that is also white space (impossible below code point 128,
      and for real Unicode; possible for an arbitrary classification [ext_alnum]),
    - not be one of true/True/1/false/False/0 (the parser reads those as constants),
    - not be exactly an operator word EX AX EF AF EG AG EU AU EW AW 3 V
      (longer names starting with these, e.g. "EXa" or "3x", are read as names). *)
Definition prop_ok (n : str) : Prop :=
  name_ok n /\ head_not_ws n /\ atom_of_prop_name n = AProp n /\ ~ In n op_words.

Definition atom_ok (ext : bool) (a : atom) : Prop :=
  match a with
  | AProp n => prop_ok n
  | AVar x => name_ok x
  | AWild p => ext = true /\ name_ok p
  | ATrue | AFalse => True
  end.

(** domains need the extended syntax and are never read after a jump *)
Definition dom_ok (ext : bool) (o : hybop) (d : option str) : Prop :=
  match d with
  | None => True
  | Some l => ext = true /\ o <> Jump /\ name_ok l
  end.

Fixpoint well_named (ext : bool) (t : tree) : Prop :=
  match t with
  | Terminal a => atom_ok ext a
  | Unary _ c => well_named ext c
  | Binary _ l r => well_named ext l /\ well_named ext r
  | Hybrid o x d c => name_ok x /\ dom_ok ext o d /\ well_named ext c
  end.

Lemma well_named_unreserved : forall ext t, well_named ext t -> unreserved t.
Proof.
  intros ext; induction t as [a|o c IH|o l IHl r IHr|o x d c IH]; intros H;
    cbn [well_named unreserved] in *.
  - destruct a as [n|x| | |p]; try exact I. exact (proj1 (proj2 (proj2 H))).
  - auto.
  - destruct H; auto.
  - destruct H as (_ & _ & H); auto.
Qed.

(** ** character classes *)

Lemma name_char_cases : forall c, nchar c = true ->
  (48 <= c <= 57 \/ 65 <= c <= 90 \/ 97 <= c <= 122 \/ c = 95 \/ 128 <= c)%N.
Proof.
  intros c H. unfold is_name_char, is_alnum, in_range, c_underscore in H.
  destruct (N.ltb_spec c 128) as [Hlt|Hge]; [|lia].
  rewrite !orb_true_iff, !andb_true_iff, !N.leb_le, N.eqb_eq in H. lia.
Qed.

Lemma is_ws_false_intro : forall c,
  ~ (9 <= c <= 13)%N -> c <> 32%N -> c <> 133%N -> c <> 160%N -> c <> 5760%N ->
  ~ (8192 <= c <= 8202)%N -> c <> 8232%N -> c <> 8233%N -> c <> 8239%N ->
  c <> 8287%N -> c <> 12288%N -> is_ws c = false.
Proof.
  intros c H1 H2 H3 H4 H5 H6 H7 H8 H9 H10 H11. unfold is_ws, in_range.
  rewrite !orb_false_iff, !andb_false_iff, !N.leb_gt, !N.eqb_neq.
  repeat split; try assumption; lia.
Qed.

(** below 128 a name character is never white space *)
Lemma ascii_name_char_not_ws : forall c, (c < 128)%N -> nchar c = true -> is_ws c = false.
Proof.
  intros c Hlt H. apply name_char_cases in H.
  apply is_ws_false_intro; lia.
Qed.

Lemma head_not_ws_ascii : forall n,
  List.Forall (fun c => (c < 128)%N) n -> List.Forall (fun c => nchar c = true) n -> head_not_ws n.
Proof.
  intros n Ha Hn. destruct n as [|c n]; [exact I|]. cbn [head_not_ws].
  inversion Ha; inversion Hn; subst. apply ascii_name_char_not_ws; assumption.
Qed.

(** ** [collect_name] on concatenations *)

Lemma collect_name_app : forall n rest,
  List.Forall (fun c => nchar c = true) n -> pnc rest = false ->
  cname (n ++ rest) = (n, rest).
Proof.
  intros n rest Hn Hr. induction Hn as [|c n Hc Hn IH].
  - cbn [app]. destruct rest as [|c r]; [reflexivity|].
    cbn [peek_name_char] in Hr. cbn [collect_name]. rewrite Hr. reflexivity.
  - cbn [app collect_name]. rewrite Hc, IH. reflexivity.
Qed.

Lemma pnc_app_cons : forall c n rest, nchar c = true -> pnc ((c :: n) ++ rest) = true.
Proof. intros c n rest H. exact H. Qed.

(** the delimiters that follow a name in a rendered formula *)
Lemma pnc_rbrace : forall cs, pnc (c_rbrace :: cs) = false.
Proof. reflexivity. Qed.
Lemma pnc_pct : forall cs, pnc (c_pct :: cs) = false.
Proof. reflexivity. Qed.
Lemma pnc_rpar : forall cs, pnc (c_rpar :: cs) = false.
Proof. reflexivity. Qed.
Lemma pnc_space : forall cs, pnc (c_space :: cs) = false.
Proof. reflexivity. Qed.
Lemma pnc_nil : pnc [] = false.
Proof. reflexivity. Qed.

(** ** single steps of [tok] *)

Lemma tok_ws : forall f c cs top ext acc,
  is_ws c = true -> tk (S f) (c :: cs) top ext acc = tk f cs top ext acc.
Proof. intros f c cs top ext acc H. cbn [tok]. rewrite H. reflexivity. Qed.

Lemma tok_space : forall f cs top ext acc,
  tk (S f) (c_space :: cs) top ext acc = tk f cs top ext acc.
Proof. reflexivity. Qed.

Lemma tok_not : forall f cs top ext acc,
  tk (S f) (c_tilde :: cs) top ext acc = tk f cs top ext (TUn Not :: acc).
Proof. reflexivity. Qed.

(** an operator word followed by a space: two steps (three with the leading space) *)
Lemma tok_unop_sp : forall o f cs top ext acc,
  tk (S (S f)) (unop_str o ++ c_space :: cs) top ext acc = tk f cs top ext (TUn o :: acc).
Proof. intros o f cs top ext acc; destruct o; reflexivity. Qed.

Lemma tok_binop_sp : forall o f cs top ext acc,
  tk (S (S (S f))) (c_space :: binop_str o ++ c_space :: cs) top ext acc =
  tk f cs top ext (TBin o :: acc).
Proof. intros o f cs top ext acc; destruct o; reflexivity. Qed.

Lemma tok_lpar : forall f cs top ext acc,
  tk (S f) (c_lpar :: cs) top ext acc =
  let* (grp, rest) := tk f cs false ext [] in tk f rest top ext (TGroup grp :: acc).
Proof. reflexivity. Qed.

Lemma tok_rpar : forall f cs ext acc,
  tk (S f) (c_rpar :: cs) false ext acc = Ok (rev acc, cs).
Proof. reflexivity. Qed.

Lemma tok_end : forall f ext acc, tk (S f) [] true ext acc = Ok (rev acc, []).
Proof. reflexivity. Qed.

Lemma tok_lbrace : forall f cs top ext acc,
  tk (S f) (c_lbrace :: cs) top ext acc =
  let (name, rest) := cname cs in
  match name with
  | [] => Err ELex
  | _ => let* rest := expect c_rbrace rest in tk f rest top ext (TAtom (AVar name) :: acc)
  end.
Proof. reflexivity. Qed.

Lemma tok_pct : forall f cs top acc,
  tk (S f) (c_pct :: cs) top true acc =
  let (name, rest) := cname cs in
  match name with
  | [] => Err ELex
  | _ => let* rest := expect c_pct rest in tk f rest top true (TAtom (AWild name) :: acc)
  end.
Proof. reflexivity. Qed.

(** the hybrid operator characters, followed by "{" *)
Lemma tok_hyb : forall o f cs top ext acc,
  tk (S f) (hybop_str o ++ c_lbrace :: cs) top ext acc =
  let* (nd, rest) := cvd (c_lbrace :: cs) (match o with Jump => false | _ => ext end) in
  tk f rest top ext
     (THyb o (fst nd) (match o with Jump => None | _ => snd nd end) :: acc).
Proof. intros o f cs top ext acc; destruct o; reflexivity. Qed.

(** ** atoms *)

Lemma tok_var : forall f x rest top ext acc,
  name_ok x ->
  tk (S f) (atom_str (AVar x) ++ rest) top ext acc = tk f rest top ext (TAtom (AVar x) :: acc).
Proof.
  intros f x rest top ext acc (Hne & Hx).
  cbn [atom_str app]. rewrite <- app_assoc. cbn [app].
  rewrite tok_lbrace, (collect_name_app x (c_rbrace :: rest) Hx (pnc_rbrace rest)).
  destruct x as [|c x]; [congruence|]. reflexivity.
Qed.

Lemma tok_wild : forall f p rest top acc,
  name_ok p ->
  tk (S f) (atom_str (AWild p) ++ rest) top true acc =
  tk f rest top true (TAtom (AWild p) :: acc).
Proof.
  intros f p rest top acc (Hne & Hp).
  cbn [atom_str app]. rewrite <- app_assoc. cbn [app].
  rewrite tok_pct, (collect_name_app p (c_pct :: rest) Hp (pnc_pct rest)).
  destruct p as [|c p]; [congruence|]. reflexivity.
Qed.


(** a bare word is read as a proposition name unless it is an operator word *)
Lemma temp_op_name_char : forall c, is_temp_op_char c = true -> nchar c = true.
Proof.
  intros c H. unfold is_temp_op_char in H.
  rewrite !orb_true_iff, !N.eqb_eq in H.
  destruct H as [[[[-> | ->] | ->] | ->] | ->]; reflexivity.
Qed.

Ltac in_words := unfold op_words; cbn [In]; repeat (first [left; reflexivity | right]).

Lemma tok_bare : forall f n rest top ext acc,
  name_ok n -> head_not_ws n -> ~ In n op_words -> pnc rest = false ->
  tk (S f) (n ++ rest) top ext acc = tk f rest top ext (TAtom (AProp n) :: acc).
Proof.
  intros f n rest top ext acc (Hne & Hn) Hws Hop Hr.
  destruct n as [|c n]; [congruence|].
  inversion Hn as [|c' n' Hc Hn' Eq]; subst c' n'. cbn [head_not_ws] in Hws.
  assert (Hcoll : cname (n ++ rest) = (n, rest)) by (apply collect_name_app; assumption).
  assert (Hne_c : forall k, nchar k = false -> N.eqb c k = false).
  { intros k Hk. destruct (N.eqb_spec c k) as [->|]; [congruence|reflexivity]. }
  cbn [app tok]. rewrite Hws.
  rewrite (Hne_c c_tilde), (Hne_c c_amp), (Hne_c c_bar), (Hne_c c_caret), (Hne_c c_eq),
    (Hne_c c_lt), (Hne_c c_gt), (Hne_c c_bang), (Hne_c c_at), (Hne_c c_bslash),
    (Hne_c c_rpar), (Hne_c c_lpar), (Hne_c c_lbrace), (Hne_c c_pct) by reflexivity.
  cbn [andb]. rewrite Hc.
  destruct ((N.eqb c c_E || N.eqb c c_A)
            && match n ++ rest with c2 :: _ => is_temp_op_char c2 | [] => false end) eqn:EA.
  - apply andb_true_iff in EA. destruct EA as (EA1 & EA2).
    destruct n as [|c2 n].
    + exfalso. cbn [app] in EA2. destruct rest as [|c2 r]; [discriminate EA2|].
      apply temp_op_name_char in EA2. cbn [peek_name_char] in Hr. congruence.
    + cbn [app] in EA2 |- *. destruct n as [|c3 n].
      * exfalso. apply Hop.
        apply orb_true_iff in EA1. unfold is_temp_op_char in EA2.
        rewrite !orb_true_iff in EA2. rewrite !N.eqb_eq in EA1. rewrite !N.eqb_eq in EA2.
        destruct EA1 as [-> | ->]; destruct EA2 as [[[[-> | ->] | ->] | ->] | ->]; in_words.
      * inversion Hn' as [|c2' n2 Hc2 Hn2 Eq2]; subst c2' n2.
        inversion Hn2 as [|c3' n3 Hc3 Hn3 Eq3]; subst c3' n3.
        rewrite (pnc_app_cons c3 n rest Hc3).
        rewrite (collect_name_app (c3 :: n) rest Hn2 Hr). reflexivity.
  - destruct (N.eqb c c_three && negb (pnc (n ++ rest))) eqn:E3.
    { exfalso. apply andb_true_iff in E3. destruct E3 as (E3 & E3').
      apply N.eqb_eq in E3. apply negb_true_iff in E3'. subst c.
      destruct n as [|c2 n]; [apply Hop; in_words|].
      inversion Hn' as [|c2' n2 Hc2 Hn2 Eq2]; subst c2' n2.
      rewrite (pnc_app_cons c2 n rest Hc2) in E3'. discriminate E3'. }
    destruct (N.eqb c c_V && negb (pnc (n ++ rest))) eqn:EV.
    { exfalso. apply andb_true_iff in EV. destruct EV as (EV & EV').
      apply N.eqb_eq in EV. apply negb_true_iff in EV'. subst c.
      destruct n as [|c2 n]; [apply Hop; in_words|].
      inversion Hn' as [|c2' n2 Hc2 Hn2 Eq2]; subst c2' n2.
      rewrite (pnc_app_cons c2 n rest Hc2) in EV'. discriminate EV'. }
    rewrite Hcoll. reflexivity.
Qed.

Lemma name_ok_True : name_ok s_True.
Proof. split; [discriminate|]. repeat constructor. Qed.
Lemma name_ok_False : name_ok s_False.
Proof. split; [discriminate|]. repeat constructor. Qed.
Lemma not_op_True : ~ In s_True op_words.
Proof. unfold op_words; cbn [In]. intuition discriminate. Qed.
Lemma not_op_False : ~ In s_False op_words.
Proof. unfold op_words; cbn [In]. intuition discriminate. Qed.

Lemma tok_atom : forall ext a f rest top acc,
  atom_ok ext a -> pnc rest = false ->
  tk (S f) (atom_str a ++ rest) top ext acc = tk f rest top ext (atom_tok a :: acc).
Proof.
  intros ext a f rest top acc Ha Hr.
  destruct a as [n|x| | |p]; cbn [atom_ok atom_tok] in *.
  - destruct Ha as (Hn & Hws & _ & Hop). apply tok_bare; assumption.
  - apply tok_var; assumption.
  - apply (tok_bare f s_True);
      [exact name_ok_True|reflexivity|exact not_op_True|exact Hr].
  - apply (tok_bare f s_False);
      [exact name_ok_False|reflexivity|exact not_op_False|exact Hr].
  - destruct Ha as (-> & Hp). apply tok_wild; assumption.
Qed.

(** ** the head of a hybrid operator: "!{x}:" and "!{x} in %d%:" *)

Lemma skip_ws_keep : forall c cs, is_ws c = false -> skip_ws (c :: cs) = c :: cs.
Proof. intros c cs H. cbn [skip_ws]. rewrite H. reflexivity. Qed.

Lemma skip_ws_skip : forall c cs, is_ws c = true -> skip_ws (c :: cs) = skip_ws cs.
Proof. intros c cs H. cbn [skip_ws]. rewrite H. reflexivity. Qed.

Lemma expect_same : forall c cs, expect c (c :: cs) = Ok cs.
Proof. intros c cs. cbn [expect]. rewrite N.eqb_refl. reflexivity. Qed.

Lemma cvd_plain : forall x cs pd,
  name_ok x -> cvd (c_lbrace :: x ++ c_rbrace :: c_colon :: cs) pd = Ok (x, None, cs).
Proof.
  intros x cs pd (Hne & Hx). unfold collect_var_dom.
  rewrite (skip_ws_keep c_lbrace) by reflexivity.
  rewrite expect_same. cbn [bind].
  rewrite (collect_name_app x (c_rbrace :: c_colon :: cs) Hx (pnc_rbrace _)).
  destruct x as [|c x]; [congruence|].
  rewrite expect_same. cbn [bind].
  rewrite (skip_ws_keep c_colon) by reflexivity.
  replace (pd && peek_is c_i (c_colon :: cs)) with false by (destruct pd; reflexivity).
  cbn [bind]. rewrite expect_same. reflexivity.
Qed.

Lemma domain_str_app : forall l cs,
  domain_str (Some l) ++ cs = c_space :: c_i :: c_n :: c_space :: c_pct :: l ++ c_pct :: cs.
Proof.
  intros l cs. cbn [domain_str s_in app]. rewrite <- app_assoc. reflexivity.
Qed.

Lemma cvd_dom : forall x l cs,
  name_ok x -> name_ok l ->
  cvd (c_lbrace :: x ++ c_rbrace :: domain_str (Some l) ++ c_colon :: cs) true
  = Ok (x, Some l, cs).
Proof.
  intros x l cs (Hne & Hx) (Hnel & Hl). rewrite domain_str_app. unfold collect_var_dom.
  rewrite (skip_ws_keep c_lbrace) by reflexivity.
  rewrite expect_same. cbn [bind].
  rewrite (collect_name_app x (c_rbrace :: _) Hx (pnc_rbrace _)).
  destruct x as [|c x]; [congruence|].
  rewrite expect_same. cbn [bind].
  rewrite (skip_ws_skip c_space) by reflexivity.
  rewrite (skip_ws_keep c_i) by reflexivity.
  cbn [andb peek_is]. rewrite N.eqb_refl. cbn [tl].
  rewrite expect_same. cbn [bind].
  rewrite (skip_ws_skip c_space) by reflexivity.
  rewrite (skip_ws_keep c_pct) by reflexivity.
  rewrite expect_same. cbn [bind].
  rewrite (collect_name_app l (c_pct :: c_colon :: cs) Hl (pnc_pct _)).
  destruct l as [|cl l]; [congruence|].
  rewrite expect_same. cbn [bind].
  rewrite (skip_ws_keep c_colon) by reflexivity.
  rewrite expect_same. reflexivity.
Qed.

Lemma tok_hybrid_head : forall ext o x d f cs top acc,
  name_ok x -> dom_ok ext o d ->
  tk (S f) (hybop_str o ++ c_lbrace :: x ++ c_rbrace :: domain_str d ++ c_colon :: cs)
     top ext acc
  = tk f cs top ext (THyb o x d :: acc).
Proof.
  intros ext o x d f cs top acc Hx Hd. rewrite tok_hyb.
  destruct d as [l|]; cbn [dom_ok] in Hd.
  - destruct Hd as (-> & Hj & Hl).
    destruct o; try congruence; rewrite (cvd_dom x l cs Hx Hl); reflexivity.
  - cbn [domain_str app]. rewrite (cvd_plain x cs _ Hx). destruct o; reflexivity.
Qed.

(** ** the rendered text, with the rest of the input appended *)

Lemma render_unary_app : forall o c rest,
  render (Unary o c) ++ rest =
  c_lpar :: match o with
            | Not => c_tilde :: render c ++ c_rpar :: rest
            | _ => unop_str o ++ c_space :: render c ++ c_rpar :: rest
            end.
Proof.
  intros o c rest; destruct o; cbn [render unop_str app]; rewrite <- app_assoc; reflexivity.
Qed.

Lemma render_binary_app : forall o l r rest,
  render (Binary o l r) ++ rest =
  c_lpar :: render l ++ c_space :: binop_str o ++ c_space :: render r ++ c_rpar :: rest.
Proof.
  intros o l r rest. cbn [render app]. f_equal.
  rewrite <- app_assoc. cbn [app]. f_equal. f_equal.
  rewrite <- app_assoc. cbn [app]. f_equal. f_equal.
  rewrite <- app_assoc. reflexivity.
Qed.

Lemma render_hybrid_app : forall o x d c rest,
  render (Hybrid o x d c) ++ rest =
  c_lpar :: hybop_str o ++ c_lbrace :: x ++ c_rbrace :: domain_str d
    ++ c_colon :: c_space :: render c ++ c_rpar :: rest.
Proof.
  intros o x d c rest. cbn [render app]. f_equal.
  rewrite <- app_assoc. cbn [app]. f_equal. f_equal.
  rewrite <- app_assoc. cbn [app]. f_equal. f_equal.
  rewrite <- app_assoc. cbn [app]. f_equal. f_equal. f_equal.
  rewrite <- app_assoc. reflexivity.
Qed.

(** ** the main lemma: one step of [tok] reads one rendered subformula *)

(** fuel needed below the step that reads [render t] *)
Fixpoint need (t : tree) : nat :=
  match t with
  | Terminal _ => 0
  | Unary Not c => 3 + need c
  | Unary _ c => 4 + need c
  | Binary _ l r => 6 + Nat.max (need l) (need r)
  | Hybrid _ _ _ c => 4 + need c
  end.

Lemma tok_render : forall ext t,
  well_named ext t ->
  forall f rest top acc, pnc rest = false -> need t <= f ->
  tk (S f) (render t ++ rest) top ext acc = tk f rest top ext (tok_of t :: acc).
Proof.
  intros ext; induction t as [a|o c IH|o l IHl r IHr|o x d c IH];
    intros Hw f rest top acc Hr Hf; cbn [well_named tok_of] in *.
  - cbn [render]. apply tok_atom; assumption.
  - rewrite render_unary_app, tok_lpar.
    destruct o; cbn [need] in Hf.
    + destruct f as [|[|[|f]]]; try (exfalso; lia).
      rewrite tok_not.
      rewrite (IH Hw (S f) (c_rpar :: rest) false [TUn Not] (pnc_rpar _)) by lia.
      rewrite tok_rpar. reflexivity.
    + destruct f as [|[|[|[|f]]]]; try (exfalso; lia). rewrite tok_unop_sp.
      rewrite (IH Hw (S f) (c_rpar :: rest) false [TUn EX] (pnc_rpar _)) by lia.
      rewrite tok_rpar. reflexivity.
    + destruct f as [|[|[|[|f]]]]; try (exfalso; lia). rewrite tok_unop_sp.
      rewrite (IH Hw (S f) (c_rpar :: rest) false [TUn AX] (pnc_rpar _)) by lia.
      rewrite tok_rpar. reflexivity.
    + destruct f as [|[|[|[|f]]]]; try (exfalso; lia). rewrite tok_unop_sp.
      rewrite (IH Hw (S f) (c_rpar :: rest) false [TUn EF] (pnc_rpar _)) by lia.
      rewrite tok_rpar. reflexivity.
    + destruct f as [|[|[|[|f]]]]; try (exfalso; lia). rewrite tok_unop_sp.
      rewrite (IH Hw (S f) (c_rpar :: rest) false [TUn AF] (pnc_rpar _)) by lia.
      rewrite tok_rpar. reflexivity.
    + destruct f as [|[|[|[|f]]]]; try (exfalso; lia). rewrite tok_unop_sp.
      rewrite (IH Hw (S f) (c_rpar :: rest) false [TUn EG] (pnc_rpar _)) by lia.
      rewrite tok_rpar. reflexivity.
    + destruct f as [|[|[|[|f]]]]; try (exfalso; lia). rewrite tok_unop_sp.
      rewrite (IH Hw (S f) (c_rpar :: rest) false [TUn AG] (pnc_rpar _)) by lia.
      rewrite tok_rpar. reflexivity.
  - destruct Hw as (Hwl & Hwr). cbn [need] in Hf.
    rewrite render_binary_app, tok_lpar.
    destruct f as [|[|[|[|[|[|f]]]]]]; try (exfalso; lia).
    rewrite (IHl Hwl (S (S (S (S (S f))))) _ false [] (pnc_space _)) by lia.
    rewrite tok_binop_sp.
    rewrite (IHr Hwr (S f) (c_rpar :: rest) false _ (pnc_rpar _)) by lia.
    rewrite tok_rpar. reflexivity.
  - destruct Hw as (Hx & Hd & Hw). cbn [need] in Hf.
    rewrite render_hybrid_app, tok_lpar.
    destruct f as [|[|[|[|f]]]]; try (exfalso; lia).
    rewrite (tok_hybrid_head ext o x d _ _ false [] Hx Hd).
    rewrite tok_space.
    rewrite (IH Hw (S f) (c_rpar :: rest) false _ (pnc_rpar _)) by lia.
    rewrite tok_rpar. reflexivity.
Qed.

(** the fuel [tokenize] provides is enough *)
Lemma need_lt : forall ext t, well_named ext t -> need t < length (render t).
Proof.
  intros ext; induction t as [a|o c IH|o l IHl r IHr|o x d c IH]; intros Hw;
    cbn [well_named need] in *.
  - cbn [render].
    assert (Hpos : forall n : str, name_ok n -> 0 < length n).
    { intros n (Hne & _). destruct n; [congruence|cbn [length]; lia]. }
    destruct a as [n|x| | |p]; cbn [atom_ok atom_str length] in *; try lia.
    + destruct Hw as (Hn & _). exact (Hpos n Hn).
    + unfold s_True; cbn [length]; lia.
    + unfold s_False; cbn [length]; lia.
  - specialize (IH Hw).
    destruct o; cbn [render unop_str app length]; rewrite app_length; cbn [length]; lia.
  - destruct Hw as (Hwl & Hwr). specialize (IHl Hwl). specialize (IHr Hwr).
    cbn [render length]. rewrite !app_length. cbn [length]. rewrite !app_length.
    cbn [length]. rewrite !app_length. cbn [length].
    assert (1 <= length (binop_str o)) by (destruct o; cbn [binop_str length]; lia). lia.
  - destruct Hw as (_ & _ & Hw). specialize (IH Hw).
    cbn [render length]. rewrite !app_length. cbn [length]. rewrite !app_length.
    cbn [length]. rewrite !app_length. cbn [length]. rewrite !app_length. cbn [length]. lia.
Qed.

Theorem tokenize_render : forall ext t,
  well_named ext t -> tokenize ext_alnum ext (render t) = Ok (tokens_of t).
Proof.
  intros ext t Hw. unfold tokenize, tokens_of.
  pose proof (need_lt ext t Hw) as Hlt.
  pose proof (tok_render ext t Hw (length (render t)) [] true [] pnc_nil) as H.
  rewrite app_nil_r in H. rewrite H by lia.
  destruct (length (render t)) as [|k]; [exfalso; lia|].
  rewrite tok_end. reflexivity.
Qed.

Theorem parse_formula_render : forall ext t,
  well_named ext t -> parse_formula ext_alnum ext (render t) = Ok t.
Proof.
  intros ext t Hw. unfold parse_formula.
  rewrite (tokenize_render ext t Hw). cbn [bind].
  apply parse_tokens_of. eapply well_named_unreserved; exact Hw.
Qed.

Theorem render_injective : forall ext t t',
  well_named ext t -> well_named ext t' -> render t = render t' -> t = t'.
Proof.
  intros ext t t' Hw Hw' E.
  pose proof (parse_formula_render ext t Hw) as H.
  pose proof (parse_formula_render ext t' Hw') as H'.
  rewrite E in H. rewrite H in H'. injection H' as ->. reflexivity.
Qed.

(** ** the side condition on proposition names is exact

    For a non-empty word [n] of name characters that does not start with a white-space
    character, the text [n] is read back as the proposition [n] exactly when [n] is neither
    reserved (true/True/1/false/False/0) nor an operator word.  If it does start with a
    white-space character (only possible above code point 127 for an [ext_alnum] that
    classifies such a character as alphanumeric) that character is simply dropped. *)

Lemma parse_bare : forall ext n,
  name_ok n -> head_not_ws n -> ~ In n op_words ->
  parse_formula ext_alnum ext n = Ok (Terminal (atom_of_prop_name n)).
Proof.
  intros ext n Hn Hws Hop. unfold parse_formula, tokenize.
  pose proof (tok_bare (length n) n [] true ext [] Hn Hws Hop pnc_nil) as H.
  rewrite app_nil_r in H. rewrite H.
  destruct Hn as (Hne & _). destruct n as [|c n]; [congruence|].
  cbn [length]. rewrite tok_end. cbn [bind rev app].
  apply parse_complete, G_of_U, U_prop.
Qed.

Lemma op_word_no_roundtrip : forall ext n,
  In n op_words -> parse_formula ext_alnum ext n <> Ok (Terminal (AProp n)).
Proof.
  intros ext n H. unfold op_words in H. cbn [In] in H.
  repeat match type of H with _ \/ _ => destruct H as [<-|H] end;
    try contradiction; destruct ext; vm_compute; discriminate.
Qed.

Theorem prop_roundtrip_iff : forall ext n,
  name_ok n -> head_not_ws n ->
  (parse_formula ext_alnum ext (render (Terminal (AProp n))) = Ok (Terminal (AProp n))
   <-> atom_of_prop_name n = AProp n /\ ~ In n op_words).
Proof.
  intros ext n Hn Hws. cbn [render atom_str]. split.
  - intros H.
    assert (Hop : ~ In n op_words).
    { intros Hin. exact (op_word_no_roundtrip ext n Hin H). }
    split; [|exact Hop].
    rewrite (parse_bare ext n Hn Hws Hop) in H. injection H as H. exact H.
  - intros (Hres & Hop). rewrite (parse_bare ext n Hn Hws Hop), Hres. reflexivity.
Qed.

Lemma leading_ws_dropped : forall ext c cs,
  is_ws c = true -> parse_formula ext_alnum ext (c :: cs) = parse_formula ext_alnum ext cs.
Proof.
  intros ext c cs H. unfold parse_formula, tokenize. cbn [length].
  rewrite (tok_ws _ c cs true ext [] H). reflexivity.
Qed.

(** ** an executable check of [well_named] (sound; used for the examples) *)

Definition name_okb (n : str) : bool :=
  match n with [] => false | _ => forallb nchar n end.

Definition prop_okb (n : str) : bool :=
  name_okb n
  && match n with c :: _ => negb (is_ws c) | [] => true end
  && match atom_of_prop_name n with AProp _ => true | _ => false end
  && negb (existsb (str_eqb n) op_words).

Definition atom_okb (ext : bool) (a : atom) : bool :=
  match a with
  | AProp n => prop_okb n
  | AVar x => name_okb x
  | AWild p => ext && name_okb p
  | ATrue | AFalse => true
  end.

Definition dom_okb (ext : bool) (o : hybop) (d : option str) : bool :=
  match d with
  | None => true
  | Some l => ext && negb (hybop_eqb o Jump) && name_okb l
  end.

Fixpoint well_namedb (ext : bool) (t : tree) : bool :=
  match t with
  | Terminal a => atom_okb ext a
  | Unary _ c => well_namedb ext c
  | Binary _ l r => well_namedb ext l && well_namedb ext r
  | Hybrid o x d c => name_okb x && dom_okb ext o d && well_namedb ext c
  end.

Lemma name_okb_sound : forall n, name_okb n = true -> name_ok n.
Proof.
  intros n H. destruct n as [|c n]; [discriminate H|].
  split; [discriminate|]. unfold name_okb in H.
  apply Forall_forall. intros k Hk. exact (proj1 (forallb_forall _ _) H k Hk).
Qed.

Lemma str_eqb_same : forall n : str, str_eqb n n = true.
Proof.
  unfold str_eqb. induction n as [|c n IH]; [reflexivity|].
  cbn [list_eqb]. rewrite N.eqb_refl, IH. reflexivity.
Qed.

Lemma prop_okb_sound : forall n, prop_okb n = true -> prop_ok n.
Proof.
  intros n H. unfold prop_okb in H. rewrite !andb_true_iff in H.
  destruct H as (((Hn & Hws) & Hres) & Hop).
  split; [exact (name_okb_sound n Hn)|]. split; [|split].
  - destruct n as [|c n]; [exact I|]. cbn [head_not_ws].
    apply negb_true_iff in Hws. exact Hws.
  - unfold atom_of_prop_name in *.
    destruct (str_eqb n s_true || str_eqb n s_True || str_eqb n s_1); [discriminate Hres|].
    destruct (str_eqb n s_false || str_eqb n s_False || str_eqb n s_0);
      [discriminate Hres|reflexivity].
  - intros Hin. apply negb_true_iff in Hop.
    assert (E : existsb (str_eqb n) op_words = true).
    { apply existsb_exists. exists n. split; [exact Hin|apply str_eqb_same]. }
    congruence.
Qed.

Lemma well_namedb_sound : forall ext t, well_namedb ext t = true -> well_named ext t.
Proof.
  intros ext; induction t as [a|o c IH|o l IHl r IHr|o x d c IH]; intros H;
    cbn [well_namedb well_named] in *.
  - destruct a as [n|x| | |p]; cbn [atom_okb atom_ok] in *; try exact I.
    + apply prop_okb_sound; exact H.
    + apply name_okb_sound; exact H.
    + apply andb_true_iff in H. destruct H as (-> & H).
      split; [reflexivity|apply name_okb_sound; exact H].
  - auto.
  - apply andb_true_iff in H. destruct H; auto.
  - rewrite !andb_true_iff in H. destruct H as ((Hx & Hd) & Hc).
    split; [apply name_okb_sound; exact Hx|]. split; [|auto].
    destruct d as [l|]; cbn [dom_okb dom_ok] in *; [|exact I].
    rewrite !andb_true_iff in Hd. destruct Hd as ((-> & Hj) & Hl).
    split; [reflexivity|]. split; [|apply name_okb_sound; exact Hl].
    intros ->. discriminate Hj.
Qed.

End Chars.
