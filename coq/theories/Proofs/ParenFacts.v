(** Redundant parentheses and constant spellings at token level (property C08, parts 2, 4b).
    Everything is derived from the grammar characterisation of the parser
    ([parse_tokens ts = Ok t <-> G ts t], ParserFacts.v). *)
From HCTL Require Import Base Syntax Parser.
From HCTL Require Import ParserFacts.

(** * From equal derivability to equal parser outcomes *)

Theorem parse_tokens_ext (a b : list token) :
  (forall t, G a t <-> G b t) -> parse_tokens a = parse_tokens b.
Proof.
  intro H.
  destruct (parse_tokens_benign a) as [[t Ha] | Ha].
  - rewrite Ha. symmetry. apply parse_complete, H, parse_sound, Ha.
  - destruct (parse_tokens_benign b) as [[t Hb] | Hb].
    + apply parse_sound, H, parse_complete in Hb. rewrite Hb in Ha. discriminate Ha.
    + rewrite Ha, Hb. reflexivity.
Qed.

(** * Moving between the levels of the grammar *)

Lemma L_mono (n : nat) (ts : list token) (t : tree) :
  L n ts t -> forall m, n <= m -> L m ts t.
Proof.
  intros H m LE. induction LE as [|m LE IH]; [exact H | apply L_skip, IH].
Qed.

Lemma op_level_lt_6 (o : binop) : op_level o < 6.
Proof. destruct o; cbn [op_level]; lia. Qed.

(** levels above 6 derive nothing new *)
Lemma L_any_6 (n : nat) (ts : list token) (t : tree) : L n ts t -> L 6 ts t.
Proof.
  intro H. induction H as [ts t HU | n o l r a b Ho Hl IHl Hr IHr | n ts t H IH].
  - apply (L_mono 0); [apply L_unary, HU | lia].
  - pose proof (op_level_lt_6 o) as LT.
    apply (L_mono (S n)); [apply L_bin; assumption | lia].
  - exact IH.
Qed.

Lemma L_G (n : nat) (ts : list token) (t : tree) : L n ts t -> G ts t.
Proof. intro H. apply G_expr, (L_any_6 n), H. Qed.

Lemma U_L (n : nat) (ts : list token) (t : tree) : U ts t -> L n ts t.
Proof. intro H. apply (L_mono 0); [apply L_unary, H | lia]. Qed.

Lemma U_G (ts : list token) (t : tree) : U ts t -> G ts t.
Proof. intro H. apply (L_G 0), L_unary, H. Qed.

(** * A group around an operand *)

Lemma wrap_G_U (ts : list token) (t : tree) : G ts t -> U [TGroup ts] t.
Proof. apply U_group. Qed.

Lemma wrap_L_U (n : nat) (ts : list token) (t : tree) : L n ts t -> U [TGroup ts] t.
Proof. intro H. apply U_group, (L_G n), H. Qed.

Lemma wrap_U_U (ts : list token) (t : tree) : U ts t -> U [TGroup ts] t.
Proof. intro H. apply U_group, U_G, H. Qed.

Lemma wrap_L_L (n m : nat) (ts : list token) (t : tree) : L n ts t -> L m [TGroup ts] t.
Proof. intro H. apply U_L, (wrap_L_U n), H. Qed.

Lemma wrap_G_G (ts : list token) (t : tree) : G ts t -> G [TGroup ts] t.
Proof. intro H. apply U_G, U_group, H. Qed.

(** ** inversion: a one-token list that is a group *)

Lemma app_cons_singleton {A} (l r : list A) (x y : A) :
  l ++ x :: r = [y] -> l = [] /\ x = y /\ r = [].
Proof.
  destruct l as [|z l]; cbn [app]; intro H.
  - injection H as -> ->. auto.
  - injection H as _ H. destruct l; discriminate H.
Qed.

Lemma L_group_inv (n : nat) (ts : list token) (t : tree) :
  L n [TGroup ts] t -> G ts t.
Proof.
  intro H. remember [TGroup ts] as l eqn:El.
  induction H as [l t HU | n o l r a b Ho Hl IHl Hr IHr | n l t H IH].
  - subst l. inversion HU; subst. assumption.
  - apply app_cons_singleton in El. destruct El as [_ [El _]]. discriminate El.
  - exact (IH El).
Qed.

Lemma G_group_inv (ts : list token) (t : tree) : G [TGroup ts] t -> G ts t.
Proof. intro H. inversion H; subst. eapply L_group_inv; eassumption. Qed.

Theorem G_group_iff (ts : list token) (t : tree) : G [TGroup ts] t <-> G ts t.
Proof. split; [apply G_group_inv | apply wrap_G_G]. Qed.

(** parentheses around the whole formula *)
Theorem parse_group (ts : list token) : parse_tokens [TGroup ts] = parse_tokens ts.
Proof. apply parse_tokens_ext. intro t. apply G_group_iff. Qed.

(** * Replacing operands by equivalent operands, anywhere at the top level of a list *)

Definition is_operand (x : token) : Prop :=
  match x with TAtom _ | TGroup _ => True | _ => False end.

(** two tokens are interchangeable: equal, or both operands (atoms or groups) that stand
    for the same trees *)
Definition teq (x y : token) : Prop :=
  x = y \/ (is_operand x /\ is_operand y /\ forall t, U [x] t <-> U [y] t).

Lemma teq_refl (x : token) : teq x x.
Proof. left. reflexivity. Qed.

Lemma teq_sym (x y : token) : teq x y -> teq y x.
Proof.
  intros [-> | [Ox [Oy H]]]; [left; reflexivity|].
  right. split; [exact Oy|]. split; [exact Ox|]. intro t. symmetry. apply H.
Qed.

Lemma Forall2_teq_refl (l : list token) : Forall2 teq l l.
Proof. induction l as [|x l IH]; constructor; [apply teq_refl | exact IH]. Qed.

Lemma Forall2_teq_sym (l l' : list token) : Forall2 teq l l' -> Forall2 teq l' l.
Proof. intro H. induction H; constructor; [apply teq_sym|]; assumption. Qed.

Lemma teq_operator (x y : token) : ~ is_operand x -> teq x y -> y = x.
Proof. intros NO [-> | [Ox _]]; [reflexivity | contradiction]. Qed.

Lemma teq_operand_U (x y : token) (t : tree) : teq x y -> U [x] t -> U [y] t.
Proof. intros [-> | [_ [_ H]]] HU; [exact HU | apply H, HU]. Qed.

Lemma Forall2_singleton_l {A B} (R : A -> B -> Prop) (x : A) (l : list B) :
  Forall2 R [x] l -> exists y, l = [y] /\ R x y.
Proof.
  intro H. inversion H as [|x0 y l0 l' Rxy Hl]; subst. inversion Hl; subst.
  exists y. split; [reflexivity | exact Rxy].
Qed.

Lemma Forall2_cons_l {A B} (R : A -> B -> Prop) (x : A) (l : list A) (l' : list B) :
  Forall2 R (x :: l) l' -> exists y l'', l' = y :: l'' /\ R x y /\ Forall2 R l l''.
Proof.
  intro H. inversion H as [|x0 y l0 l'' Rxy Hl]; subst.
  exists y, l''. split; [reflexivity|]. split; assumption.
Qed.

Lemma congruence_mut :
  (forall ts t, G ts t -> forall ts', Forall2 teq ts ts' -> G ts' t) /\
  (forall n ts t, L n ts t -> forall ts', Forall2 teq ts ts' -> L n ts' t) /\
  (forall ts t, U ts t -> forall ts', Forall2 teq ts ts' -> U ts' t).
Proof.
  apply GLU_mutind.
  - intros o x d ts t _ IH ts' F.
    apply Forall2_cons_l in F. destruct F as [y [ts'' [-> [E F]]]].
    apply teq_operator in E; [|intros []]. subst y. apply G_hyb, IH, F.
  - intros ts t _ IH ts' F. apply G_expr, IH, F.
  - intros ts t _ IH ts' F. apply L_unary, IH, F.
  - intros n o l r a b Ho _ IHl _ IHr ts' F.
    apply Forall2_app_inv_l in F. destruct F as [l' [m' [Fl [Fm ->]]]].
    apply Forall2_cons_l in Fm. destruct Fm as [y [r' [-> [E Fr]]]].
    apply teq_operator in E; [|intros []]. subst y.
    apply L_bin; [exact Ho | apply IHl, Fl | apply IHr, Fr].
  - intros n ts t _ IH ts' F. apply L_skip, IH, F.
  - intros o ts t _ IH ts' F.
    apply Forall2_cons_l in F. destruct F as [y [ts'' [-> [E F]]]].
    apply teq_operator in E; [|intros []]. subst y. apply U_un, IH, F.
  - intros name ts' F. apply Forall2_singleton_l in F. destruct F as [y [-> E]].
    apply (teq_operand_U _ _ _ E), U_prop.
  - intros x ts' F. apply Forall2_singleton_l in F. destruct F as [y [-> E]].
    apply (teq_operand_U _ _ _ E), U_var.
  - intros p ts' F. apply Forall2_singleton_l in F. destruct F as [y [-> E]].
    apply (teq_operand_U _ _ _ E), U_wild.
  - intros ts t HG _ ts' F. apply Forall2_singleton_l in F. destruct F as [y [-> E]].
    apply (teq_operand_U _ _ _ E), U_group, HG.
Qed.

Theorem G_congruence (ts ts' : list token) :
  Forall2 teq ts ts' -> forall t, G ts t <-> G ts' t.
Proof.
  intros F t. split; intro H.
  - exact (proj1 congruence_mut ts t H ts' F).
  - exact (proj1 congruence_mut ts' t H ts (Forall2_teq_sym _ _ F)).
Qed.

Theorem parse_congruence (ts ts' : list token) :
  Forall2 teq ts ts' -> parse_tokens ts = parse_tokens ts'.
Proof. intro F. apply parse_tokens_ext, G_congruence, F. Qed.

(** groups with equivalent contents are interchangeable, so the replacement may be done at
    any nesting depth *)
Lemma U_group_iff (ts : list token) (t : tree) : U [TGroup ts] t <-> G ts t.
Proof. split; [intro H; inversion H; subst; assumption | apply U_group]. Qed.

Lemma teq_group (a b : list token) :
  (forall t, G a t <-> G b t) -> teq (TGroup a) (TGroup b).
Proof.
  intro H. right. split; [exact I|]. split; [exact I|].
  intro t. rewrite !U_group_iff. apply H.
Qed.

Lemma teq_group_deep (a b : list token) : Forall2 teq a b -> teq (TGroup a) (TGroup b).
Proof. intro F. apply teq_group, G_congruence, F. Qed.

Lemma Forall2_teq_context (l r : list token) (x y : token) :
  teq x y -> Forall2 teq (l ++ [x] ++ r) (l ++ [y] ++ r).
Proof.
  intro E. apply Forall2_app; [apply Forall2_teq_refl|].
  apply Forall2_app; [constructor; [exact E | constructor] | apply Forall2_teq_refl].
Qed.

(** ** doubled parentheses *)

Lemma teq_double_group (ts : list token) : teq (TGroup [TGroup ts]) (TGroup ts).
Proof. apply teq_group. intro t. apply G_group_iff. Qed.

Theorem parse_double_group (l r ts : list token) :
  parse_tokens (l ++ [TGroup [TGroup ts]] ++ r) = parse_tokens (l ++ [TGroup ts] ++ r).
Proof. apply parse_congruence, Forall2_teq_context, teq_double_group. Qed.

(** ** parentheses around an atom *)

Lemma U_atom_G (a : atom) (t : tree) : G [TAtom a] t <-> U [TAtom a] t.
Proof.
  split; [|apply U_G]. intro H. inversion H as [| ts t' HL]; subst. clear H.
  remember [TAtom a] as l eqn:El. remember 6 as n eqn:En. clear En.
  induction HL as [l t HU | n o l r x y Ho Hl IHl Hr IHr | n l t H IH].
  - exact HU.
  - apply app_cons_singleton in El. destruct El as [_ [El _]]. discriminate El.
  - exact (IH El).
Qed.

Lemma teq_group_atom (a : atom) : teq (TGroup [TAtom a]) (TAtom a).
Proof.
  right. split; [exact I|]. split; [exact I|]. intro t.
  rewrite U_group_iff. apply U_atom_G.
Qed.

Theorem parse_group_atom (l r : list token) (a : atom) :
  parse_tokens (l ++ [TGroup [TAtom a]] ++ r) = parse_tokens (l ++ [TAtom a] ++ r).
Proof. apply parse_congruence, Forall2_teq_context, teq_group_atom. Qed.

(** ** the spellings of the constants *)

Lemma U_prop_inv (name : str) (t : tree) :
  U [TAtom (AProp name)] t -> t = Terminal (atom_of_prop_name name).
Proof. intro H. inversion H; subst. reflexivity. Qed.

Lemma teq_prop (a b : str) :
  atom_of_prop_name a = atom_of_prop_name b -> teq (TAtom (AProp a)) (TAtom (AProp b)).
Proof.
  intro E. right. split; [exact I|]. split; [exact I|]. intro t. split; intro H.
  - apply U_prop_inv in H. subst t. rewrite E. apply U_prop.
  - apply U_prop_inv in H. subst t. rewrite <- E. apply U_prop.
Qed.

Theorem parse_prop_spelling (l r : list token) (a b : str) :
  atom_of_prop_name a = atom_of_prop_name b ->
  parse_tokens (l ++ [TAtom (AProp a)] ++ r) = parse_tokens (l ++ [TAtom (AProp b)] ++ r).
Proof. intro E. apply parse_congruence, Forall2_teq_context, teq_prop, E. Qed.

Lemma true_spellings :
  atom_of_prop_name s_true = ATrue /\ atom_of_prop_name s_True = ATrue
  /\ atom_of_prop_name s_1 = ATrue.
Proof. repeat split; reflexivity. Qed.

Lemma false_spellings :
  atom_of_prop_name s_false = AFalse /\ atom_of_prop_name s_False = AFalse
  /\ atom_of_prop_name s_0 = AFalse.
Proof. repeat split; reflexivity. Qed.

Definition true_spelling (s : str) : Prop := s = s_true \/ s = s_True \/ s = s_1.
Definition false_spelling (s : str) : Prop := s = s_false \/ s = s_False \/ s = s_0.

Lemma true_spelling_atom (s : str) : true_spelling s -> atom_of_prop_name s = ATrue.
Proof. intros [-> | [-> | ->]]; reflexivity. Qed.

Lemma false_spelling_atom (s : str) : false_spelling s -> atom_of_prop_name s = AFalse.
Proof. intros [-> | [-> | ->]]; reflexivity. Qed.

Theorem parse_true_spellings (l r : list token) (a b : str) :
  true_spelling a -> true_spelling b ->
  parse_tokens (l ++ [TAtom (AProp a)] ++ r) = parse_tokens (l ++ [TAtom (AProp b)] ++ r).
Proof.
  intros Ha Hb. apply parse_prop_spelling.
  rewrite (true_spelling_atom a Ha), (true_spelling_atom b Hb). reflexivity.
Qed.

Theorem parse_false_spellings (l r : list token) (a b : str) :
  false_spelling a -> false_spelling b ->
  parse_tokens (l ++ [TAtom (AProp a)] ++ r) = parse_tokens (l ++ [TAtom (AProp b)] ++ r).
Proof.
  intros Ha Hb. apply parse_prop_spelling.
  rewrite (false_spelling_atom a Ha), (false_spelling_atom b Hb). reflexivity.
Qed.

(** * Wrapping operands of the derivation

    [GW ts ts' t]: [ts] derives [t] by [G], and [ts'] is [ts] with groups put around any
    number of operands of that derivation -- the body of a hybrid operator, either side of
    a binary operator, the operand of a unary operator, the content of a group, the whole
    formula -- at any depth.  ([LW], [UW]: the same for [L n] and [U].) *)
Inductive GW : list token -> list token -> tree -> Prop :=
| GW_hyb : forall o x d ts ts' t,
    GW ts ts' t -> GW (THyb o x d :: ts) (THyb o x d :: ts') (Hybrid o x d t)
| GW_expr : forall ts ts' t, LW 6 ts ts' t -> GW ts ts' t
| GW_wrap : forall ts ts' t, GW ts ts' t -> GW ts [TGroup ts'] t
with LW : nat -> list token -> list token -> tree -> Prop :=
| LW_unary : forall ts ts' t, UW ts ts' t -> LW 0 ts ts' t
| LW_bin : forall n o l l' r r' a b,
    op_level o = n -> LW n l l' a -> LW (S n) r r' b ->
    LW (S n) (l ++ TBin o :: r) (l' ++ TBin o :: r') (Binary o a b)
| LW_skip : forall n ts ts' t, LW n ts ts' t -> LW (S n) ts ts' t
| LW_wrap : forall n ts ts' t, LW n ts ts' t -> LW n ts [TGroup ts'] t
with UW : list token -> list token -> tree -> Prop :=
| UW_un : forall o ts ts' t, UW ts ts' t -> UW (TUn o :: ts) (TUn o :: ts') (Unary o t)
| UW_prop : forall name,
    UW [TAtom (AProp name)] [TAtom (AProp name)] (Terminal (atom_of_prop_name name))
| UW_var : forall x, UW [TAtom (AVar x)] [TAtom (AVar x)] (Terminal (AVar x))
| UW_wild : forall p, UW [TAtom (AWild p)] [TAtom (AWild p)] (Terminal (AWild p))
| UW_group : forall ts ts' t, GW ts ts' t -> UW [TGroup ts] [TGroup ts'] t
| UW_wrap : forall ts ts' t, UW ts ts' t -> UW ts [TGroup ts'] t.

Scheme GW_mind := Minimality for GW Sort Prop
  with LW_mind := Minimality for LW Sort Prop
  with UW_mind := Minimality for UW Sort Prop.
Combined Scheme GLUW_mutind from GW_mind, LW_mind, UW_mind.

Lemma wrap_mut :
  (forall ts ts' t, GW ts ts' t -> G ts t /\ G ts' t) /\
  (forall n ts ts' t, LW n ts ts' t -> L n ts t /\ L n ts' t) /\
  (forall ts ts' t, UW ts ts' t -> U ts t /\ U ts' t).
Proof.
  apply GLUW_mutind.
  - intros o x d ts ts' t _ [H H']. split; apply G_hyb; assumption.
  - intros ts ts' t _ [H H']. split; apply G_expr; assumption.
  - intros ts ts' t _ [H H']. split; [exact H | apply wrap_G_G, H'].
  - intros ts ts' t _ [H H']. split; apply L_unary; assumption.
  - intros n o l l' r r' a b Ho _ [Hl Hl'] _ [Hr Hr']. split; apply L_bin; assumption.
  - intros n ts ts' t _ [H H']. split; apply L_skip; assumption.
  - intros n ts ts' t _ [H H']. split; [exact H | apply (wrap_L_L n), H'].
  - intros o ts ts' t _ [H H']. split; apply U_un; assumption.
  - intros name. split; apply U_prop.
  - intros x. split; apply U_var.
  - intros p. split; apply U_wild.
  - intros ts ts' t _ [H H']. split; apply U_group; assumption.
  - intros ts ts' t _ [H H']. split; [exact H | apply wrap_U_U, H'].
Qed.

(** the wrapped list parses to the same tree *)
Theorem parse_wrapped (ts ts' : list token) (t : tree) :
  GW ts ts' t -> parse_tokens ts = Ok t /\ parse_tokens ts' = Ok t.
Proof.
  intro H. destruct (proj1 wrap_mut ts ts' t H) as [HG HG'].
  split; apply parse_complete; assumption.
Qed.

(** every derivation is a wrapping derivation (with no wrapping at all), so the theorem
    applies to every accepted token list *)
Lemma wrap_refl_mut :
  (forall ts t, G ts t -> GW ts ts t) /\
  (forall n ts t, L n ts t -> LW n ts ts t) /\
  (forall ts t, U ts t -> UW ts ts t).
Proof.
  apply GLU_mutind.
  - intros o x d ts t _ IH. apply GW_hyb, IH.
  - intros ts t _ IH. apply GW_expr, IH.
  - intros ts t _ IH. apply LW_unary, IH.
  - intros n o l r a b Ho _ IHl _ IHr. apply LW_bin; assumption.
  - intros n ts t _ IH. apply LW_skip, IH.
  - intros o ts t _ IH. apply UW_un, IH.
  - intros name. apply UW_prop.
  - intros x. apply UW_var.
  - intros p. apply UW_wild.
  - intros ts t _ IH. apply UW_group, IH.
Qed.

Theorem GW_refl (ts : list token) (t : tree) : parse_tokens ts = Ok t -> GW ts ts t.
Proof. intro H. apply (proj1 wrap_refl_mut), parse_sound, H. Qed.

(** ** the one-step instances *)

Theorem wrap_hybrid_body (o : hybop) (x : str) (d : option str) (ts : list token) (t : tree) :
  G ts t -> G (THyb o x d :: [TGroup ts]) (Hybrid o x d t).
Proof. intro H. apply G_hyb, wrap_G_G, H. Qed.

Theorem wrap_unary_operand (o : unop) (ts : list token) (t : tree) :
  U ts t -> U (TUn o :: [TGroup ts]) (Unary o t).
Proof. intro H. apply U_un, wrap_U_U, H. Qed.

Theorem wrap_binary_operands (n : nat) (o : binop) (l r : list token) (a b : tree) :
  op_level o = n -> L n l a -> L (S n) r b ->
  L (S n) ([TGroup l] ++ TBin o :: r) (Binary o a b)
  /\ L (S n) (l ++ TBin o :: [TGroup r]) (Binary o a b)
  /\ L (S n) ([TGroup l] ++ TBin o :: [TGroup r]) (Binary o a b).
Proof.
  intros Ho Hl Hr. repeat split; apply L_bin; try assumption;
    try (apply (wrap_L_L n), Hl); apply (wrap_L_L (S n)), Hr.
Qed.
