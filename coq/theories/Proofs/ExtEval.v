(** The cache-free evaluator for extended formulae ([peval_ext]: wild-card propositions and
    restricted quantifier domains, handled exactly as eval_node handles them) computes the
    satisfying valuations of the formula, at the valuations of the unit. *)
From HCTL Require Import Base Syntax Canon MarkDup TT Ops Eval Kripke HCTL.
From HCTL Require Import TTFacts OpsFacts FixFacts SemFacts HybridFacts EvalPure Main.
From HCTL Require Import ExtSem ExtFix ExtFacts ExtHybrid.

Section PEvalExt.
Variable G : genv.
Variable names : list str.
Variable sw : switches.
Variable steady : tt.              (* self-loop states of the TOP-LEVEL unit *)
Variable wild : list (str * tt).   (* sets of the wild-card propositions, by label *)
Variable doms : list (str * tt).   (* sets of the quantifier domains, by label *)

Fixpoint peval_ext (t : tree) (U : tt) : res tt :=
  if use_patterns sw && is_attractor_pattern t then
    let* e := hctl_var_id G (pattern_var t) in attractors G U e
  else if use_patterns sw && is_fixed_point_pattern t then Ok steady
  else
  match t with
  | Terminal ATrue => Ok U
  | Terminal AFalse => Ok (empty G)
  | Terminal (AVar x) => let* e := hctl_var_id G x in Ok (eval_hctl_var G U e)
  | Terminal (AProp nm) =>
      match index_of nm names 0 with
      | Some i => Ok (eval_prop G U i)
      | None => Panic PPropLookup
      end
  | Terminal (AWild l) =>
      (* the user's set, as it is: NOT intersected with the unit *)
      match alookup str_eqb l wild with
      | Some s => Ok s
      | None => Panic PWildCardUnreachable
      end
  | Unary o a =>
      let* x := peval_ext a U in
      match o with
      | Not => Ok (eval_neg U x)
      | EX => Ok (eval_ex G x steady)
      | AX => Ok (eval_ax G U x steady)
      | EF => eval_ef_saturated G U x
      | AF => eval_af G U x steady
      | EG => eval_eg G x steady
      | AG => eval_ag G U x
      end
  | Binary o l r =>
      let* a := peval_ext l U in
      let* b := peval_ext r U in
      match o with
      | And => Ok (tand a b)
      | Or => Ok (tor a b)
      | Xor => Ok (eval_xor U a b)
      | Imp => Ok (eval_imp U a b)
      | Iff => Ok (eval_equiv U a b)
      | EU => eval_eu_saturated G a b
      | AU => eval_au G U a b steady
      | EW => eval_ew G U a b steady
      | AW => eval_aw G U a b
      end
  | Hybrid Jump x _ a =>
      let* r := peval_ext a U in
      let* e := hctl_var_id G x in
      Ok (eval_jump G U r e)
  | Hybrid o x None a =>
      let* r := peval_ext a U in
      let* e := hctl_var_id G x in
      eval_hybrid_quantifier G U U o e r
  | Hybrid o x (Some dl) a =>
      match alookup str_eqb dl doms with
      | None => Panic PDomainLookup
      | Some dset =>
          let* e := hctl_var_id G x in
          let var_domain := compute_valid_domain_for_var G U dset e in
          let Ur := tand U var_domain in
          if is_empty Ur then Ok (match o with Forall => U | _ => empty G end)
          else
            (* the body is evaluated ON THE RESTRICTED UNIT *)
            let* r := peval_ext a Ur in
            eval_hybrid_quantifier G U Ur o e r
      end
  end.

Definition peval_ext_body (t : tree) (U : tt) : res tt :=
  match t with
  | Terminal ATrue => Ok U
  | Terminal AFalse => Ok (empty G)
  | Terminal (AVar x) => let* e := hctl_var_id G x in Ok (eval_hctl_var G U e)
  | Terminal (AProp nm) =>
      match index_of nm names 0 with
      | Some i => Ok (eval_prop G U i)
      | None => Panic PPropLookup
      end
  | Terminal (AWild l) =>
      match alookup str_eqb l wild with
      | Some s => Ok s
      | None => Panic PWildCardUnreachable
      end
  | Unary o a =>
      let* x := peval_ext a U in
      match o with
      | Not => Ok (eval_neg U x)
      | EX => Ok (eval_ex G x steady)
      | AX => Ok (eval_ax G U x steady)
      | EF => eval_ef_saturated G U x
      | AF => eval_af G U x steady
      | EG => eval_eg G x steady
      | AG => eval_ag G U x
      end
  | Binary o l r =>
      let* a := peval_ext l U in
      let* b := peval_ext r U in
      match o with
      | And => Ok (tand a b)
      | Or => Ok (tor a b)
      | Xor => Ok (eval_xor U a b)
      | Imp => Ok (eval_imp U a b)
      | Iff => Ok (eval_equiv U a b)
      | EU => eval_eu_saturated G a b
      | AU => eval_au G U a b steady
      | EW => eval_ew G U a b steady
      | AW => eval_aw G U a b
      end
  | Hybrid o x d a =>
      match o with
      | Jump =>
          let* r := peval_ext a U in
          let* e := hctl_var_id G x in
          Ok (eval_jump G U r e)
      | _ =>
          match d with
          | None =>
              let* r := peval_ext a U in
              let* e := hctl_var_id G x in
              eval_hybrid_quantifier G U U o e r
          | Some dl =>
              match alookup str_eqb dl doms with
              | None => Panic PDomainLookup
              | Some dset =>
                  let* e := hctl_var_id G x in
                  let Ur := tand U (compute_valid_domain_for_var G U dset e) in
                  if is_empty Ur then Ok (match o with Forall => U | _ => empty G end)
                  else
                    let* r := peval_ext a Ur in
                    eval_hybrid_quantifier G U Ur o e r
              end
          end
      end
  end.

Lemma peval_ext_eq t U :
  peval_ext t U =
  if use_patterns sw && is_attractor_pattern t then
    let* e := hctl_var_id G (pattern_var t) in attractors G U e
  else if use_patterns sw && is_fixed_point_pattern t then Ok steady
  else peval_ext_body t U.
Proof. destruct t as [a|o a|o a b|o x d a]; try reflexivity; destruct o, d; reflexivity. Qed.

End PEvalExt.

(** on plain formulae (no wild-card, no domain) the extended evaluator is [peval] *)
Lemma peval_ext_plain G names sw steady wild doms : forall t U, plainf t ->
  peval_ext G names sw steady wild doms t U = peval G names sw steady t U.
Proof.
  induction t as [a | o a IH | o a IHa b IHb | o x d a IH]; intros U Hpl.
  - destruct a; try reflexivity. destruct Hpl.
  - cbn [peval_ext peval]. rewrite (IH U Hpl). reflexivity.
  - destruct Hpl as [Ha Hb]. cbn [peval_ext peval]. rewrite (IHa U Ha), (IHb U Hb). reflexivity.
  - destruct Hpl as [-> Ha]. rewrite peval_ext_eq, (peval_unfold_hybrid G names sw steady o x a U).
    destruct (use_patterns sw && is_attractor_pattern (Hybrid o x None a)); [reflexivity|].
    destruct (use_patterns sw && is_fixed_point_pattern (Hybrid o x None a)); [reflexivity|].
    destruct o; cbn [peval_ext_body]; rewrite (IH U Ha); reflexivity.
Qed.

(** ---- soundness ---- *)
Section ExtSound.
Variable G : genv.
Variable names : list str.
Local Notation L := (g_L G).
Local Notation n := (g_n G).
Local Notation k := (g_k G).

Variable Utop : tt.
Hypothesis WF : wf_env G names Utop.

Variable Gamma : str -> val -> Prop.
Variable sw : switches.
Variable wild doms : list (str * tt).

(** the wild-card sets denote the context predicates *)
Definition wild_sets_ok : Prop :=
  forall l s, alookup str_eqb l wild = Some s ->
    shaped L s /\ forall v, mem L s v = true <-> Gamma l v.
(** so do the domain sets, which moreover do not read the spare copies
    (they are [expand]ed from sets over colours and states) *)
Definition dom_sets_ok : Prop :=
  forall l s, alookup str_eqb l doms = Some s ->
    shaped L s /\ extras_indep G s /\ forall v, mem L s v = true <-> Gamma l v.

Hypothesis wild_ok : wild_sets_ok.
Hypothesis doms_ok : dom_sets_ok.

Local Notation st := (steady_of G Utop).
Local Notation Sat := (sat G names Gamma).
Local Notation pev := (peval_ext G names sw st wild doms).

(** what the current unit of a scope must satisfy; [bound] lists the spare copies of the
    enclosing quantifiers WITH a domain (the copies the unit may depend on) *)
Record unit_ok (bound : list nat) (Uc : tt) : Prop := {
  uo_shaped : shaped L Uc;
  uo_state : state_indep G Uc;
  uo_sub : forall v, mem L Uc v = true -> mem L Utop v = true;
  uo_copy : forall e, ~ In e bound -> copy_indep G Uc e;
}.

(** every variable has a spare copy, and a quantifier never re-uses the copy of an enclosing
    quantifier with a domain (preprocessed formulae never re-quantify a variable at all) *)
Fixpoint scoped (bound : list nat) (t : tree) : Prop :=
  match t with
  | Terminal (AVar x) => var_of G x <> None
  | Terminal _ => True
  | Unary _ a => scoped bound a
  | Binary _ a b => scoped bound a /\ scoped bound b
  | Hybrid o x d a =>
      match o with
      | Jump => var_of G x <> None /\ scoped bound a
      | _ => exists e, var_of G x = Some e /\ ~ In e bound /\
               scoped (match d with Some _ => e :: bound | None => bound end) a
      end
  end.

Lemma top_unit_ok : unit_ok [] Utop.
Proof.
  destruct WF. split.
  - assumption.
  - intros v w H. apply wf_U_colour. intro j. apply H. reflexivity.
  - auto.
  - intros e _ u v. apply wf_U_colour. intro j. reflexivity.
Qed.

Lemma Utop_moves : forall v i, mem L Utop (vflip (TS i) v) = mem L Utop v.
Proof. destruct WF. intros v i. apply wf_U_colour. intro j. reflexivity. Qed.

(** ---- the pattern shortcuts inside a (restricted) scope ---- *)
Lemma steady_pattern_in bound Uc x : unit_ok bound Uc -> var_of G x <> None ->
  spec_in G Uc st (Sat (Hybrid Bind x None (Unary AX (Terminal (AVar x))))).
Proof.
  intros [US USt USub UC] Hx. destruct WF.
  destruct (var_of G x) as [e|] eqn:Ev; [|congruence].
  destruct (var_id_of _ _ _ (var_of_id _ _ _ Ev)) as [_ Hk].
  eapply in_of_top; [exact USub|].
  eapply steady_pattern_spec; eauto.
Qed.

Lemma attractor_pattern_in bound Uc x e R : unit_ok bound Uc ->
  var_of G x = Some e -> e < k -> copy_indep G Uc e ->
  attractors G Uc e = Ok R ->
  spec_in G Uc R (Sat (Hybrid Bind x None (Unary AG (Unary EF (Terminal (AVar x)))))).
Proof.
  intros [US USt USub UC] Ev Hk Hc H. destruct WF. unfold attractors in H.
  destruct (eval_ef_saturated G Uc (eval_hctl_var G Uc e)) as [ef| | |] eqn:E1; simpl in H; try discriminate.
  destruct (eval_ag G Uc ef) as [ag| | |] eqn:E2; simpl in H; try discriminate.
  injection H as <-.
  assert (S0 : spec_in G Uc (eval_hctl_var G Uc e) (Sat (Terminal (AVar x)))).
  { eapply in_ext; [eapply in_var; eauto|]. intros w Hu. simpl. split.
    - intro Hcs. exists e. auto.
    - intros [e' [He' Hcs]]. assert (e' = e) by congruence. subst. exact Hcs. }
  assert (S1 : spec_in G Uc ef (EFs G (Sat (Terminal (AVar x))))) by (eapply in_ef; eauto).
  assert (S2 : spec_in G Uc ag (AGs G (EFs G (Sat (Terminal (AVar x)))))) by (eapply in_ag; eauto).
  eapply in_ext; [eapply in_bind; eauto|].
  intros w Hu. simpl. split.
  - intro Hs. exists e. auto.
  - intros [e' [He' [_ Hs]]]. assert (e' = e) by congruence. subst. exact Hs.
Qed.

Lemma with_state_self_mem s v : extras_indep G s -> mem L s (with_state v v) = mem L s v.
Proof. intro H. apply H. intros g _. destruct g; reflexivity. Qed.

(** the restricted unit of a quantifier with a domain is a legitimate current unit; it may
    depend on the copy of the quantified variable *)
Lemma restricted_unit_ok bound Uc dset e : unit_ok bound Uc -> e < k ->
  shaped L dset -> extras_indep G dset ->
  unit_ok (e :: bound) (tand Uc (compute_valid_domain_for_var G Uc dset e)).
Proof.
  intros [US USt USub UC] Hk SD XD. destruct WF. split.
  - eapply Ur_shaped; eauto.
  - eapply Ur_state; eauto.
  - intros v Hv. apply USub. eapply Ur_sub with (dset := dset) (e := e); eauto.
  - intros e' He'. eapply Ur_copy; eauto.
    + intro X. apply He'. left. congruence.
    + apply UC. intro X. apply He'. right. exact X.
Qed.

(** the main induction: whatever the evaluator returns in a scope with current unit [Uc]
    denotes [sat] at the valuations of [Uc] *)
Theorem peval_ext_sound : forall t bound Uc R, unit_ok bound Uc -> scoped bound t ->
  pev t Uc = Ok R -> spec_in G Uc R (Sat t).
Proof.
  induction t as [a | o a IH | o a IHa b IHb | o x d a IH]; intros bound Uc R HU Hsc H;
    rewrite peval_ext_eq in H.
  - (* terminals *)
    simpl in H. rewrite !andb_false_r in H.
    destruct HU as [US USt USub UC]. destruct WF.
    destruct a as [nm | x | | | l]; simpl in H.
    + destruct (index_of nm names 0) as [i|] eqn:E; [|discriminate]. injection H as <-.
      eapply in_ext; [eapply in_prop; eauto|].
      intros w Hu. simpl. rewrite <- index_of_prop_index. split.
      * intro Hv. exists i. auto.
      * intros [j [Hj Hv]]. congruence.
    + destruct (hctl_var_id G x) as [e| | |] eqn:E; simpl in H; try discriminate. injection H as <-.
      destruct (var_id_of _ _ _ E) as [Ev Hk].
      eapply in_ext; [eapply in_var; eauto|].
      intros w Hu. simpl. split.
      * intro Hc. exists e. auto.
      * intros [e' [He' Hc]]. assert (e' = e) by congruence. subst. exact Hc.
    + injection H as <-. apply in_unit; assumption.
    + injection H as <-. apply in_empty.
    + destruct (alookup str_eqb l wild) as [s|] eqn:E; [|discriminate]. injection H as <-.
      destruct (wild_ok _ _ E) as [Ss Es].
      split; [assumption|]. intros w _. simpl. apply Es.
  - (* unary *)
    simpl in H. rewrite !andb_false_r in H.
    destruct (pev a Uc) as [A| | |] eqn:EA; simpl in H; try discriminate.
    specialize (IH bound Uc A HU Hsc EA).
    destruct HU as [US USt USub UC]. destruct WF.
    destruct o; simpl.
    + injection H as <-. eapply in_neg; eauto.
    + injection H as <-. eapply in_ex; eauto.
    + injection H as <-. eapply in_ax; eauto.
    + eapply in_ef; eauto.
    + eapply in_af; eauto.
    + eapply in_eg; eauto.
    + eapply in_ag; eauto.
  - (* binary *)
    simpl in H. rewrite !andb_false_r in H. destruct Hsc as [Hsa Hsb].
    destruct (pev a Uc) as [A| | |] eqn:EA; simpl in H; try discriminate.
    destruct (pev b Uc) as [B| | |] eqn:EB; simpl in H; try discriminate.
    specialize (IHa bound Uc A HU Hsa EA). specialize (IHb bound Uc B HU Hsb EB).
    destruct HU as [US USt USub UC]. destruct WF.
    destruct o; simpl.
    + injection H as <-. eapply in_and; eauto.
    + injection H as <-. eapply in_or; eauto.
    + injection H as <-. eapply in_xor; eauto.
    + injection H as <-. eapply in_imp; eauto.
    + injection H as <-. eapply in_equiv; eauto.
    + eapply in_eu; eauto.
    + eapply in_au; eauto.
    + eapply in_ew; eauto.
    + eapply in_aw; eauto.
  - (* hybrid *)
    destruct (use_patterns sw && is_attractor_pattern (Hybrid o x d a)) eqn:PA.
    { apply andb_true_iff in PA. destruct PA as [_ PA].
      destruct (attractor_pattern_inv _ PA) as [y Ey]. injection Ey as -> -> -> ->.
      simpl in H. destruct (hctl_var_id G y) as [e| | |] eqn:E; simpl in H; try discriminate.
      destruct (var_id_of _ _ _ E) as [Ev Hk].
      destruct Hsc as [e0 [Ev0 [Hnb _]]]. assert (e0 = e) by congruence. subst e0.
      eapply attractor_pattern_in; eauto. apply (uo_copy _ _ HU). exact Hnb. }
    destruct (use_patterns sw && is_fixed_point_pattern (Hybrid o x d a)) eqn:PF.
    { apply andb_true_iff in PF. destruct PF as [_ PF].
      destruct (fixed_point_pattern_inv _ PF) as [y Ey]. injection Ey as -> -> -> ->.
      injection H as <-.
      destruct Hsc as [e0 [Ev0 _]].
      eapply steady_pattern_in; eauto. congruence. }
    destruct o.
    + (* bind *)
      destruct Hsc as [e0 [Ev0 [Hnb Hsa]]].
      destruct d as [dl|]; cbn [peval_ext_body] in H.
      * (* with a domain *)
        destruct (alookup str_eqb dl doms) as [dset|] eqn:ED; [|discriminate].
        destruct (doms_ok _ _ ED) as [SD [XD GD]].
        destruct (hctl_var_id G x) as [e| | |] eqn:E; simpl in H; try discriminate.
        destruct (var_id_of _ _ _ E) as [Ev Hk]. assert (e0 = e) by congruence. subst e0.
        pose proof (uo_copy _ _ HU e Hnb) as Hce.
        destruct HU as [US USt USub UC]. destruct WF.
        destruct (is_empty (tand Uc (compute_valid_domain_for_var G Uc dset e))) eqn:Emp.
        -- injection H as <-.
           pose proof (Ur_empty G wf_nodup wf_TS_in wf_TX_in wf_TS_bound Uc US USt dset e Hk SD XD Hce Emp) as Hno.
           eapply in_ext; [apply in_empty|]. intros w Hw. simpl. split; [tauto|].
           intros [e' [_ [Hd _]]]. apply GD in Hd.
           rewrite <- (with_state_self_mem dset w XD) in Hd. rewrite (Hno w w Hw) in Hd. discriminate.
        -- destruct (pev a (tand Uc (compute_valid_domain_for_var G Uc dset e))) as [A| | |] eqn:EA;
             simpl in H; try discriminate.
           injection H as <-.
           assert (HUr : unit_ok (e :: bound) (tand Uc (compute_valid_domain_for_var G Uc dset e))).
           { apply restricted_unit_ok; try assumption. split; assumption. }
           specialize (IH (e :: bound) _ A HUr Hsa EA).
           eapply in_ext; [eapply in_bind_domain; eauto|].
           intros w Hw. simpl. split.
           ++ intros [Hd Hs]. exists e. split; [assumption|]. split; [apply GD; exact Hd | exact Hs].
           ++ intros [e' [He' [Hd Hs]]]. assert (e' = e) by congruence. subst e'.
              split; [apply GD; exact Hd | exact Hs].
      * (* without *)
        destruct (pev a Uc) as [A| | |] eqn:EA; simpl in H; try discriminate.
        destruct (hctl_var_id G x) as [e| | |] eqn:E; simpl in H; try discriminate.
        destruct (var_id_of _ _ _ E) as [Ev Hk]. assert (e0 = e) by congruence. subst e0.
        injection H as <-.
        specialize (IH bound Uc A HU Hsa EA).
        pose proof (uo_copy _ _ HU e Hnb) as Hce.
        destruct HU as [US USt USub UC]. destruct WF.
        eapply in_ext; [eapply in_bind; eauto|].
        intros w Hu. simpl. split.
        -- intro Hs. exists e. auto.
        -- intros [e' [He' [_ Hs]]]. assert (e' = e) by congruence. subst. exact Hs.
    + (* jump *)
      destruct Hsc as [Hx Hsa]. cbn [peval_ext_body] in H.
      destruct (pev a Uc) as [A| | |] eqn:EA; simpl in H; try discriminate.
      destruct (hctl_var_id G x) as [e| | |] eqn:E; simpl in H; try discriminate.
      destruct (var_id_of _ _ _ E) as [Ev Hk].
      injection H as <-.
      specialize (IH bound Uc A HU Hsa EA).
      destruct HU as [US USt USub UC]. destruct WF.
      eapply in_ext; [eapply in_jump; eauto|].
      intros w Hu. simpl. split.
      * intro Hs. exists e. auto.
      * intros [e' [He' Hs]]. assert (e' = e) by congruence. subst. exact Hs.
    + (* exists *)
      destruct Hsc as [e0 [Ev0 [Hnb Hsa]]].
      destruct d as [dl|]; cbn [peval_ext_body] in H.
      * destruct (alookup str_eqb dl doms) as [dset|] eqn:ED; [|discriminate].
        destruct (doms_ok _ _ ED) as [SD [XD GD]].
        destruct (hctl_var_id G x) as [e| | |] eqn:E; simpl in H; try discriminate.
        destruct (var_id_of _ _ _ E) as [Ev Hk]. assert (e0 = e) by congruence. subst e0.
        pose proof (uo_copy _ _ HU e Hnb) as Hce.
        destruct HU as [US USt USub UC]. destruct WF.
        destruct (is_empty (tand Uc (compute_valid_domain_for_var G Uc dset e))) eqn:Emp.
        -- injection H as <-.
           pose proof (Ur_empty G wf_nodup wf_TS_in wf_TX_in wf_TS_bound Uc US USt dset e Hk SD XD Hce Emp) as Hno.
           eapply in_ext; [apply in_empty|]. intros w Hw. simpl. split; [tauto|].
           intros [e' [_ [u [Hd _]]]]. apply GD in Hd.
           rewrite (Hno u w Hw) in Hd. discriminate.
        -- destruct (pev a (tand Uc (compute_valid_domain_for_var G Uc dset e))) as [A| | |] eqn:EA;
             simpl in H; try discriminate.
           injection H as <-.
           assert (HUr : unit_ok (e :: bound) (tand Uc (compute_valid_domain_for_var G Uc dset e))).
           { apply restricted_unit_ok; try assumption. split; assumption. }
           specialize (IH (e :: bound) _ A HUr Hsa EA).
           eapply in_ext; [eapply in_exists_domain; eauto|].
           intros w Hw. simpl. split.
           ++ intros [u [Hd Hs]]. exists e. split; [assumption|]. exists u.
              split; [apply GD; exact Hd | exact Hs].
           ++ intros [e' [He' [u [Hd Hs]]]]. assert (e' = e) by congruence. subst e'.
              exists u. split; [apply GD; exact Hd | exact Hs].
      * destruct (pev a Uc) as [A| | |] eqn:EA; simpl in H; try discriminate.
        destruct (hctl_var_id G x) as [e| | |] eqn:E; simpl in H; try discriminate.
        destruct (var_id_of _ _ _ E) as [Ev Hk]. assert (e0 = e) by congruence. subst e0.
        injection H as <-.
        specialize (IH bound Uc A HU Hsa EA).
        pose proof (uo_copy _ _ HU e Hnb) as Hce.
        destruct HU as [US USt USub UC]. destruct WF.
        eapply in_ext; [eapply in_exists; eauto|].
        intros w Hu. simpl. split.
        -- intros [u Hs]. exists e. split; [assumption|]. exists u. auto.
        -- intros [e' [He' [u [_ Hs]]]]. assert (e' = e) by congruence. subst. exists u. exact Hs.
    + (* forall *)
      destruct Hsc as [e0 [Ev0 [Hnb Hsa]]].
      destruct d as [dl|]; cbn [peval_ext_body] in H.
      * destruct (alookup str_eqb dl doms) as [dset|] eqn:ED; [|discriminate].
        destruct (doms_ok _ _ ED) as [SD [XD GD]].
        destruct (hctl_var_id G x) as [e| | |] eqn:E; simpl in H; try discriminate.
        destruct (var_id_of _ _ _ E) as [Ev Hk]. assert (e0 = e) by congruence. subst e0.
        pose proof (uo_copy _ _ HU e Hnb) as Hce.
        destruct HU as [US USt USub UC]. destruct WF.
        destruct (is_empty (tand Uc (compute_valid_domain_for_var G Uc dset e))) eqn:Emp.
        -- injection H as <-.
           pose proof (Ur_empty G wf_nodup wf_TS_in wf_TX_in wf_TS_bound Uc US USt dset e Hk SD XD Hce Emp) as Hno.
           eapply in_ext; [apply in_unit; assumption|]. intros w Hw. simpl. split; [|tauto].
           intros _. exists e. split; [assumption|]. intros u Hd. apply GD in Hd.
           rewrite (Hno u w Hw) in Hd. discriminate.
        -- destruct (pev a (tand Uc (compute_valid_domain_for_var G Uc dset e))) as [A| | |] eqn:EA;
             simpl in H; try discriminate.
           injection H as <-.
           assert (HUr : unit_ok (e :: bound) (tand Uc (compute_valid_domain_for_var G Uc dset e))).
           { apply restricted_unit_ok; try assumption. split; assumption. }
           specialize (IH (e :: bound) _ A HUr Hsa EA).
           eapply in_ext; [eapply in_forall_domain; eauto|].
           intros w Hw. simpl. split.
           ++ intros Hall. exists e. split; [assumption|]. intros u Hd. apply Hall. apply GD. exact Hd.
           ++ intros [e' [He' Hall]]. assert (e' = e) by congruence. subst e'.
              intros u Hd. apply Hall. apply GD. exact Hd.
      * destruct (pev a Uc) as [A| | |] eqn:EA; simpl in H; try discriminate.
        destruct (hctl_var_id G x) as [e| | |] eqn:E; simpl in H; try discriminate.
        destruct (var_id_of _ _ _ E) as [Ev Hk]. assert (e0 = e) by congruence. subst e0.
        injection H as <-.
        specialize (IH bound Uc A HU Hsa EA).
        pose proof (uo_copy _ _ HU e Hnb) as Hce.
        destruct HU as [US USt USub UC]. destruct WF.
        eapply in_ext; [eapply in_forall; eauto|].
        intros w Hu. simpl. split.
        -- intro Hs. exists e. split; [assumption|]. intros u _. apply Hs.
        -- intros [e' [He' Hs]]. assert (e' = e) by congruence. subst. intro u. apply Hs. exact I.
Qed.

End ExtSound.

(** ---- the operator facts, packaged for a current unit ---- *)
Section Operators.
Variable G : genv.
Variable names : list str.
Variable Utop : tt.
Hypothesis WF : wf_env G names Utop.
Local Notation L := (g_L G).
Local Notation k := (g_k G).
Local Notation st := (steady_of G Utop).
Variable bound : list nat.
Variable Uc : tt.
Hypothesis HU : unit_ok G Utop bound Uc.
Local Notation spec := (spec_in G Uc).

Theorem ops_boolean_in A B P Q : spec A P -> spec B Q ->
  spec (eval_neg Uc A) (fun w => ~ P w) /\
  spec (tand A B) (fun w => P w /\ Q w) /\
  spec (tor A B) (fun w => P w \/ Q w) /\
  spec (eval_imp Uc A B) (fun w => P w -> Q w) /\
  spec (eval_equiv Uc A B) (fun w => P w <-> Q w) /\
  spec (eval_xor Uc A B) (fun w => ~ (P w <-> Q w)).
Proof.
  intros HA HB. destruct HU as [US USt USub UC]. destruct WF.
  split; [eapply in_neg; eauto|].
  split; [eapply in_and; eauto|].
  split; [eapply in_or; eauto|].
  split; [eapply in_imp; eauto|].
  split; [eapply in_equiv; eauto | eapply in_xor; eauto].
Qed.

Theorem ops_next_in A P : spec A P ->
  spec (eval_ex G A st) (EXs G P) /\ spec (eval_ax G Uc A st) (AXs G P).
Proof.
  intros HA. destruct HU as [US USt USub UC]. destruct WF.
  split; [eapply in_ex | eapply in_ax]; eauto.
Qed.

Theorem ops_fixpoint_in A B P Q R : spec A P -> spec B Q ->
  (eval_ef_saturated G Uc A = Ok R -> spec R (EFs G P)) /\
  (eval_af G Uc A st = Ok R -> spec R (AFs G P)) /\
  (eval_eg G A st = Ok R -> spec R (EGs G P)) /\
  (eval_ag G Uc A = Ok R -> spec R (AGs G P)) /\
  (eval_eu_saturated G A B = Ok R -> spec R (EUs G P Q)) /\
  (eval_au G Uc A B st = Ok R -> spec R (AUs G P Q)) /\
  (eval_ew G Uc A B st = Ok R -> spec R (EWs G P Q)) /\
  (eval_aw G Uc A B = Ok R -> spec R (AWs G P Q)).
Proof.
  intros HA HB. destruct HU as [US USt USub UC]. destruct WF.
  split; [intro; eapply in_ef; eauto|].
  split; [intro; eapply in_af; eauto|].
  split; [intro; eapply in_eg; eauto|].
  split; [intro; eapply in_ag; eauto|].
  split; [intro; eapply in_eu; eauto|].
  split; [intro; eapply in_au; eauto|].
  split; [intro; eapply in_ew; eauto | intro; eapply in_aw; eauto].
Qed.

Theorem ops_hybrid_in A P e : e < k -> spec A P ->
  spec (eval_hctl_var G Uc e) (copy_is_state G e) /\
  spec (eval_jump G Uc A e) (fun v => P (set_state e v)) /\
  (~ In e bound ->
   spec (eval_bind G Uc (tand A Uc) e) (fun v => P (set_copy e v v)) /\
   spec (eval_exists G (tand A Uc) e) (fun v => exists u, P (set_copy e u v)) /\
   spec (eval_neg Uc (eval_exists G (eval_neg Uc A) e)) (fun v => forall u, P (set_copy e u v))).
Proof.
  intros He HA. pose proof (uo_copy _ _ _ _ HU e) as Hce.
  destruct HU as [US USt USub UC]. destruct WF.
  split; [eapply in_var; eauto|].
  split; [eapply in_jump; eauto|].
  intro Hnb. specialize (Hce Hnb).
  split; [eapply in_bind; eauto|].
  split; [eapply in_exists; eauto | eapply in_forall; eauto].
Qed.

(** the domain step: the restricted unit, and the three quantifiers that close its scope
    (the body [A] is exact on the restricted unit only) *)
Theorem ops_domain_in dset e A P : e < k -> ~ In e bound ->
  shaped L dset -> extras_indep G dset ->
  let Ur := tand Uc (compute_valid_domain_for_var G Uc dset e) in
  (forall w, mem L Ur w = true <->
             (mem L Uc w = true /\ mem L dset (set_state e w) = true)) /\
  unit_ok G Utop (e :: bound) Ur /\
  (is_empty Ur = true ->
   forall u v, mem L Uc v = true -> mem L dset (with_state u v) = false) /\
  (spec_in G Ur A P ->
   spec (eval_bind G Uc (tand A Ur) e)
        (fun v => mem L dset v = true /\ P (set_copy e v v)) /\
   spec (eval_exists G (tand A Ur) e)
        (fun v => exists u, mem L dset (with_state u v) = true /\ P (set_copy e u v)) /\
   spec (eval_neg Uc (eval_exists G (eval_neg Ur A) e))
        (fun v => forall u, mem L dset (with_state u v) = true -> P (set_copy e u v))).
Proof.
  intros He Hnb SD XD Ur. pose proof (uo_copy _ _ _ _ HU e Hnb) as Hce.
  pose proof (restricted_unit_ok G names Utop WF bound Uc dset e HU He SD XD) as HUr.
  destruct HU as [US USt USub UC]. destruct WF.
  split; [intro w; eapply mem_Ur; eauto|].
  split; [exact HUr|].
  split; [intro Emp; eapply Ur_empty; eauto|].
  intro HA.
  split; [eapply in_bind_domain; eauto|].
  split; [eapply in_exists_domain; eauto | eapply in_forall_domain; eauto].
Qed.

End Operators.

(** ---- the statement at the top level ---- *)
Section ExtCorrect.
Variable G : genv.
Variable names : list str.
Variable Utop : tt.
Hypothesis WF : wf_env G names Utop.
Variable Gamma : str -> val -> Prop.
Variable sw : switches.
Variable wild doms : list (str * tt).
Hypothesis wild_ok : wild_sets_ok G Gamma wild.
Hypothesis doms_ok : dom_sets_ok G Gamma doms.

Local Notation L := (g_L G).
Local Notation st := (steady_of G Utop).

Theorem peval_ext_correct t R : scoped G [] t ->
  peval_ext G names sw st wild doms t Utop = Ok R ->
  shaped L R /\
  forall v, mem L Utop v = true -> (mem L R v = true <-> sat G names Gamma t v).
Proof.
  intros Hsc H.
  exact (peval_ext_sound G names Utop WF Gamma sw wild doms wild_ok doms_ok t [] Utop R
           (top_unit_ok G names Utop WF) Hsc H).
Qed.

(** ---- empty domains, as the evaluator answers them ---- *)

(** no state of the colour of [v] lies in the domain (other colours may well have some):
    the existential is false at [v] ... *)
Corollary peval_ext_exists_empty_domain x d a R v :
  scoped G [] (Hybrid Exists x (Some d) a) ->
  peval_ext G names sw st wild doms (Hybrid Exists x (Some d) a) Utop = Ok R ->
  mem L Utop v = true -> domain_empty_at Gamma d v -> mem L R v = false.
Proof.
  intros Hsc H Hv Hemp. destruct (peval_ext_correct _ _ Hsc H) as [_ E].
  destruct (mem L R v) eqn:Em; [|reflexivity]. exfalso.
  apply (E v Hv) in Em. revert Em. apply exists_empty_domain. exact Hemp.
Qed.

(** ... and the universal is true *)
Corollary peval_ext_forall_empty_domain x d a R v :
  scoped G [] (Hybrid Forall x (Some d) a) ->
  peval_ext G names sw st wild doms (Hybrid Forall x (Some d) a) Utop = Ok R ->
  mem L Utop v = true -> domain_empty_at Gamma d v -> mem L R v = true.
Proof.
  intros Hsc H Hv Hemp. destruct (peval_ext_correct _ _ Hsc H) as [_ E].
  apply (E v Hv). apply forall_empty_domain; [|exact Hemp].
  destruct Hsc as [e [He _]]. congruence.
Qed.

(** binding is false at a state outside the domain *)
Corollary peval_ext_bind_outside_domain x d a R v :
  scoped G [] (Hybrid Bind x (Some d) a) ->
  peval_ext G names sw st wild doms (Hybrid Bind x (Some d) a) Utop = Ok R ->
  mem L Utop v = true -> ~ Gamma d v -> mem L R v = false.
Proof.
  intros Hsc H Hv Hout. destruct (peval_ext_correct _ _ Hsc H) as [_ E].
  destruct (mem L R v) eqn:Em; [|reflexivity]. exfalso.
  apply (E v Hv) in Em. revert Em. apply bind_outside_domain. exact Hout.
Qed.

(** the early return of eval_node: when no colour of the unit has a state in the domain the
    body is not evaluated at all *)
Lemma peval_ext_early_return o x dl a dset e U :
  o <> Jump -> alookup str_eqb dl doms = Some dset -> hctl_var_id G x = Ok e ->
  is_empty (tand U (compute_valid_domain_for_var G U dset e)) = true ->
  peval_ext G names sw st wild doms (Hybrid o x (Some dl) a) U =
  Ok (match o with Forall => U | _ => empty G end).
Proof.
  intros Ho ED E Emp. rewrite peval_ext_eq.
  assert (PA : is_attractor_pattern (Hybrid o x (Some dl) a) = false) by (destruct o; reflexivity).
  assert (PF : is_fixed_point_pattern (Hybrid o x (Some dl) a) = false) by (destruct o; reflexivity).
  rewrite PA, PF, !andb_false_r.
  destruct o; try congruence; cbn [peval_ext_body]; rewrite ED, E; cbn [bind]; rewrite Emp; reflexivity.
Qed.

End ExtCorrect.

(** ---- context sets given as one map, as the entry points provide them ---- *)
Section Context.
Variable G : genv.
Local Notation L := (g_L G).
Variable ctx : list (str * tt).

(** the meaning of label l: membership in the user's set *)
Definition Gamma_of (l : str) (v : val) : Prop :=
  match alookup str_eqb l ctx with
  | Some s => mem L s v = true
  | None => False
  end.

(** every context set is a well-formed set that only reads colours and states *)
Definition ctx_sets_ok : Prop :=
  forall l s, alookup str_eqb l ctx = Some s -> shaped L s /\ extras_indep G s.
(** the sets handed to the evaluator are those of the map *)
Definition picked_from_ctx (sets : list (str * tt)) : Prop :=
  forall l s, alookup str_eqb l sets = Some s -> alookup str_eqb l ctx = Some s.

Hypothesis ctx_ok : ctx_sets_ok.

Lemma Gamma_of_ignores_copies : ctx_ignores_copies Gamma_of.
Proof.
  intros l v w H. unfold Gamma_of. destruct (alookup str_eqb l ctx) as [s|] eqn:E; [|tauto].
  destruct (ctx_ok _ _ E) as [_ X]. rewrite (X v w H). tauto.
Qed.

Lemma picked_wild_ok sets : picked_from_ctx sets -> wild_sets_ok G Gamma_of sets.
Proof.
  intros Hp l s E. apply Hp in E. destruct (ctx_ok _ _ E) as [S _].
  split; [assumption|]. intro v. unfold Gamma_of. rewrite E. tauto.
Qed.

Lemma picked_doms_ok sets : picked_from_ctx sets -> dom_sets_ok G Gamma_of sets.
Proof.
  intros Hp l s E. apply Hp in E. destruct (ctx_ok _ _ E) as [S X].
  split; [assumption|]. split; [assumption|]. intro v. unfold Gamma_of. rewrite E. tauto.
Qed.

Theorem peval_ext_correct_ctx names Utop sw wild doms t R :
  wf_env G names Utop -> picked_from_ctx wild -> picked_from_ctx doms ->
  scoped G [] t ->
  peval_ext G names sw (steady_of G Utop) wild doms t Utop = Ok R ->
  shaped L R /\
  forall v, mem L Utop v = true -> (mem L R v = true <-> sat G names Gamma_of t v).
Proof.
  intros WF Hw Hd Hsc H.
  eapply peval_ext_correct; [exact WF | apply picked_wild_ok; exact Hw
                           | apply picked_doms_ok; exact Hd | exact Hsc | exact H].
Qed.

End Context.

(** ---- preprocessed formulae are well scoped ---- *)
From HCTL Require Import Preprocess PrepFacts.

Section Preprocessed.
Variable G : genv.

Lemma var_of_xs j : j < g_k G -> var_of G (xs (S j)) = Some j.
Proof.
  intro Hj. unfold var_of, xs. cbn [repeat_n]. rewrite repeat_n_length.
  apply Nat.ltb_lt in Hj. rewrite Hj. reflexivity.
Qed.

Lemma depth_named_scoped : forall t d bound,
  depth_named d t -> d + qdepth t <= g_k G -> (forall e, In e bound -> e < d) ->
  scoped G bound t.
Proof.
  induction t as [a | o a IH | o a IHa b IHb | o x dm a IH]; intros d bound Hn Hq Hb.
  - destruct a as [nm | x | | | l]; cbn [scoped]; try exact I.
    cbn [depth_named] in Hn. destruct Hn as [j [Hj ->]].
    rewrite var_of_xs by (cbn [qdepth] in Hq; lia). discriminate.
  - cbn [scoped]. cbn [depth_named] in Hn. cbn [qdepth] in Hq. eapply IH; eauto.
  - cbn [scoped]. cbn [depth_named] in Hn. cbn [qdepth] in Hq. destruct Hn as [Ha Hbb].
    split; [eapply IHa | eapply IHb]; eauto; lia.
  - cbn [depth_named] in Hn. cbn [qdepth] in Hq.
    assert (Hb2 : forall e, In e (match dm with Some _ => d :: bound | None => bound end) -> e < S d).
    { intros e He. destruct dm; [destruct He as [<-|He]|]; try lia; apply Hb in He; lia. }
    destruct o; cbn [is_quantifier] in Hn, Hq; cbn [scoped].
    + destruct Hn as [-> Ha]. exists d. split; [apply var_of_xs; lia|]. split.
      * intro X. apply Hb in X. lia.
      * eapply IH; eauto. lia.
    + destruct Hn as [[j [Hj ->]] Ha]. split; [rewrite var_of_xs by lia; discriminate|].
      eapply IH; eauto.
    + destruct Hn as [-> Ha]. exists d. split; [apply var_of_xs; lia|]. split.
      * intro X. apply Hb in X. lia.
      * eapply IH; eauto. lia.
    + destruct Hn as [-> Ha]. exists d. split; [apply var_of_xs; lia|]. split.
      * intro X. apply Hb in X. lia.
      * eapply IH; eauto. lia.
Qed.

(** what parse_and_minimize + check_hctl_var_support guarantee *)
Theorem preprocessed_scoped props t0 t :
  preprocess props t0 = Ok t -> num_hctl_vars t <= g_k G -> scoped G [] t.
Proof.
  intros Hp Hk.
  pose proof (preprocess_idempotent props t0 t Hp) as Hi.
  destruct (preprocess_names_by_depth props t t Hi) as [_ [Hn Hq]].
  eapply depth_named_scoped; [exact Hn | lia | intros e []].
Qed.

End Preprocessed.
