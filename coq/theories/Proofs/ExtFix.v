(** The fixed-point loops of Model/Ops.v inside a restricted unit.

    Inside the scope of a quantifier with a domain, eval_node works with a restricted unit
    [Uc] (a subset of the top-level unit [Utop]) but still hands down the steady-state set of
    the TOP-LEVEL unit, and argument sets (wild-card sets, the steady-state shortcut) need not
    be subsets of [Uc].  The theorems of FixFacts.v are redone here with hypotheses and
    conclusions "at the valuations of Uc" only: [Uc] is closed under transitions, so the
    proofs only ever look at valuations of [Uc]. *)
From HCTL Require Import Base TT Ops Kripke TTFacts OpsFacts FixFacts.

Section ExtFix.
Variable G : genv.
Local Notation L := (g_L G).
Local Notation n := (g_n G).

Hypothesis L_nodup : NoDup L.
Hypothesis upd_shaped : forall i, shaped L (upd_of G i).
Hypothesis TS_in : forall i, i < n -> In (TS i) L.

(** the top-level unit (only its steady states are used) and the current unit *)
Variable Utop Uc : tt.
Hypothesis Utop_shaped : shaped L Utop.
Hypothesis Uc_shaped : shaped L Uc.
Hypothesis Uc_moves : forall v i, mem L Uc (vflip (TS i) v) = mem L Uc v.
Hypothesis Uc_sub : forall v, mem L Uc v = true -> mem L Utop v = true.

Local Notation st := (steady_of G Utop).
Local Notation inC v := (mem L Uc v = true).
Let M (S : tt) : val -> Prop := fun v => mem L S v = true.

Lemma stt_shaped : shaped L st.
Proof. apply shaped_steady_of; assumption. Qed.

Ltac shp_extra := fail.
Ltac shp := repeat first
  [ assumption
  | shp_extra
  | apply stt_shaped
  | apply shaped_eval_ex
  | apply shaped_eval_ax
  | apply shaped_eval_neg
  | apply shaped_pre
  | apply shaped_var_pre
  | apply shaped_steady_of
  | apply shaped_can_update
  | apply shaped_tand | apply shaped_tor | apply shaped_tminus | apply shaped_txor | apply shaped_tiff
  | apply shaped_flip | apply shaped_lit
  | apply shaped_const ].

(** inside the current unit the top-level steady set is "no update enabled" *)
Lemma st_in v : inC v -> (mem L st v = true <-> vsteady G v).
Proof.
  intro Hv. rewrite mem_steady_of by assumption. split; [tauto|].
  intro Hs. split; [apply Uc_sub; exact Hv | exact Hs].
Qed.

Lemma ex_in S v : shaped L S -> inC v ->
  (mem L (eval_ex G S st) v = true <-> EXs G (M S) v).
Proof.
  intros HS Hv. rewrite mem_eval_ex by shp.
  unfold EXs, M. split; (intros [H|[H1 H2]]; [left; exact H|right]).
  - apply st_in in H2; [|exact Hv]. tauto.
  - split; [assumption|]. apply st_in; assumption.
Qed.

Lemma ax_in_unit S v : shaped L S -> mem L (eval_ax G Uc S st) v = true -> inC v.
Proof.
  intros HS H. unfold eval_ax in H. rewrite mem_eval_neg in H by shp.
  apply andb_true_iff in H. tauto.
Qed.

Lemma ax_in S v : shaped L S -> inC v ->
  (mem L (eval_ax G Uc S st) v = true <-> AXs G (M S) v).
Proof.
  intros HS Hv. unfold eval_ax.
  rewrite mem_eval_neg by shp.
  rewrite Hv. simpl. rewrite negb_true_iff.
  assert (HN : shaped L (eval_neg Uc S)) by shp.
  split.
  - intro H. unfold AXs, M. split.
    + intros i Hi He. destruct (mem L S (vflip (TS i) v)) eqn:E; [reflexivity|].
      exfalso. assert (X : mem L (eval_ex G (eval_neg Uc S) st) v = true).
      { apply ex_in; try assumption. left. exists i. split; [assumption|]. split; [assumption|].
        unfold M. rewrite mem_eval_neg by assumption. rewrite Uc_moves, Hv, E. reflexivity. }
      congruence.
    + intro Hs. destruct (mem L S v) eqn:E; [reflexivity|].
      exfalso. assert (X : mem L (eval_ex G (eval_neg Uc S) st) v = true).
      { apply ex_in; try assumption. right. split; [assumption|].
        unfold M. rewrite mem_eval_neg by assumption. rewrite Hv, E. reflexivity. }
      congruence.
  - intros [H1 H2]. destruct (mem L (eval_ex G (eval_neg Uc S) st) v) eqn:E; [|reflexivity].
    exfalso. apply ex_in in E; try assumption.
    destruct E as [[i [Hi [He Hm]]]|[Hs Hm]]; unfold M in Hm;
      rewrite mem_eval_neg in Hm by assumption; apply andb_true_iff in Hm; destruct Hm as [_ Hm];
      apply negb_true_iff in Hm.
    + specialize (H1 i Hi He). unfold M in H1. congruence.
    + specialize (H2 Hs). unfold M in H2. congruence.
Qed.

(** ---- EG ---- *)
Let Feg (old : tt) : tt := tand old (eval_ex G old st).

Lemma Feg_shaped' S : shaped L S -> shaped L (Feg S).
Proof. intro H. unfold Feg. shp. Qed.

Lemma iter_Feg_shaped' j S : shaped L S -> shaped L (Nat.iter j Feg S).
Proof. intro H. induction j; simpl; [assumption | apply Feg_shaped'; assumption]. Qed.

Ltac shp_extra ::= first [apply iter_Feg_shaped' | apply Feg_shaped'].

Lemma iter_Feg_sub' j S v : shaped L S -> mem L (Nat.iter j Feg S) v = true -> mem L S v = true.
Proof.
  intro HS. induction j; simpl; [auto|]. intro H. unfold Feg in H at 1.
  rewrite mem_tand in H by shp.
  apply andb_true_iff in H. tauto.
Qed.

Theorem eg_in phi r : shaped L phi ->
  eval_eg G phi st = Ok r ->
  shaped L r /\ forall v, inC v -> (mem L r v = true <-> EGs G (M phi) v).
Proof.
  intros Hphi H. unfold eval_eg in H. apply while_neq_spec in H.
  assert (Post : forall X : val -> Prop, (forall u, X u -> M phi u /\ EXs G X u) ->
            forall j v, inC v -> X v -> mem L (Nat.iter j Feg phi) v = true).
  { intros X HX j. induction j as [|j IHj]; intros v Hc Hv; simpl.
    - apply HX; assumption.
    - unfold Feg at 1. rewrite mem_tand by shp.
      rewrite (IHj v Hc Hv). simpl.
      apply ex_in; [apply iter_Feg_shaped'; assumption | exact Hc | ].
      destruct (HX v Hv) as [_ [[i [Hi [He Hm]]]|[Hs Hm]]].
      + left. exists i. split; [assumption|]. split; [assumption|]. unfold M.
        apply IHj; [rewrite Uc_moves; exact Hc | exact Hm].
      + right. split; [assumption|]. unfold M. apply IHj; assumption. }
  destruct H as [[E1 E2]|[j [E1 E2]]].
  - (* phi is empty *)
    subst r. split; [assumption|]. intros v Hc. split.
    + intro Hv. rewrite E1 in Hv. rewrite mem_empty in Hv. discriminate.
    + intros [X [Hv HX]]. destruct (HX v Hv) as [Hp _]. unfold M in Hp. rewrite E1 in Hp.
      rewrite mem_empty in Hp. discriminate.
  - fold Feg in E1, E2.
    assert (Hr : shaped L r) by (rewrite E1; shp).
    split; [assumption|]. intros v Hc. split.
    + intro Hv. exists (fun u => inC u /\ M r u). split; [split; assumption|].
      intros u [Hcu Hu]. split.
      * unfold M. unfold M in Hu. rewrite E1 in Hu. eapply iter_Feg_sub'; eassumption.
      * unfold M in Hu. rewrite <- E2 in Hu. unfold Feg in Hu.
        rewrite mem_tand in Hu by shp.
        apply andb_true_iff in Hu. destruct Hu as [_ Hu].
        apply ex_in in Hu; try assumption.
        destruct Hu as [[i [Hi [He Hm]]]|[Hs Hm]].
        -- left. exists i. split; [assumption|]. split; [assumption|].
           split; [rewrite Uc_moves; exact Hcu | exact Hm].
        -- right. split; [assumption|]. split; assumption.
    + intros [X [Hv HX]]. rewrite E1. eapply Post; eassumption.
Qed.

(** valuations of the current unit outside the computed EG set reach the complement of phi
    on every path *)
Theorem eg_compl_in phi r : shaped L phi ->
  eval_eg G phi st = Ok r ->
  forall v, inC v -> mem L r v = false ->
            AUs G (fun _ => True) (fun w => inC w /\ mem L phi w = false) v.
Proof.
  intros Hphi H. unfold eval_eg in H. apply while_neq_spec in H.
  assert (Iter : forall j v, inC v -> mem L (Nat.iter j Feg phi) v = false ->
            AUs G (fun _ => True) (fun w => inC w /\ mem L phi w = false) v).
  { induction j as [|j IHj]; intros v Hu Hv; simpl in Hv.
    - apply AUs_here. auto.
    - unfold Feg in Hv at 1. rewrite mem_tand in Hv by shp.
      apply andb_false_iff in Hv. destruct Hv as [Hv|Hv]; [apply IHj; assumption|].
      destruct (mem L (Nat.iter j Feg phi) v) eqn:Ev; [|apply IHj; assumption].
      assert (NE : ~ EXs G (M (Nat.iter j Feg phi)) v).
      { intro X. apply ex_in in X; [congruence | shp | exact Hu]. }
      apply AUs_step; [exact I | |].
      + intros i Hi He. apply IHj; [rewrite Uc_moves; exact Hu|].
        destruct (mem L (Nat.iter j Feg phi) (vflip (TS i) v)) eqn:E2; [|reflexivity].
        exfalso. apply NE. left. exists i. auto.
      + intro Hs. exfalso. apply NE. right. split; [exact Hs | exact Ev]. }
  destruct H as [[E1 E2]|[j [E1 E2]]].
  - intros v Hu _. apply AUs_here. split; [assumption|]. rewrite E1. apply mem_empty.
  - intros v Hu Hv. apply (Iter j); [assumption|]. rewrite E1 in Hv. exact Hv.
Qed.

(** ---- AU ---- *)
Section AU.
Variable phi1 : tt.
Hypothesis phi1_shaped : shaped L phi1.
Let Fau (old : tt) : tt := tor old (tand phi1 (eval_ax G Uc old st)).

Lemma Fau_shaped' S : shaped L S -> shaped L (Fau S).
Proof. intro H. unfold Fau. shp. Qed.

Lemma iter_Fau_shaped' j S : shaped L S -> shaped L (Nat.iter j Fau S).
Proof. intro H. induction j; simpl; [assumption | apply Fau_shaped'; assumption]. Qed.

Ltac shp_extra ::= first [apply iter_Fau_shaped' | apply Fau_shaped'].

Lemma iter_Fau_mono j S v : shaped L S -> mem L S v = true -> mem L (Nat.iter j Fau S) v = true.
Proof.
  intros HS Hv. induction j; simpl; [exact Hv|]. unfold Fau at 1.
  rewrite mem_tor by shp. rewrite IHj. reflexivity.
Qed.

Theorem au_in phi2 r : shaped L phi2 ->
  eval_au G Uc phi1 phi2 st = Ok r ->
  shaped L r /\ forall v, inC v -> (mem L r v = true <-> AUs G (M phi1) (M phi2) v).
Proof.
  intros Hphi2 H. unfold eval_au in H. fold Fau in H. apply while_neq_spec in H.
  (* every iterate is sound *)
  assert (Sound : forall j, shaped L (Nat.iter j Fau phi2) /\
            forall v, inC v -> mem L (Nat.iter j Fau phi2) v = true ->
                      AUs G (M phi1) (M phi2) v).
  { induction j as [|j [IHs IHj]]; simpl.
    - split; [assumption|]. intros v Hc Hv. apply AUs_here; exact Hv.
    - split; [apply Fau_shaped'; assumption|]. intros v Hc Hv. unfold Fau in Hv at 1.
      rewrite mem_tor in Hv by shp.
      apply orb_true_iff in Hv. destruct Hv as [Hv|Hv]; [apply IHj; assumption|].
      rewrite mem_tand in Hv by shp.
      apply andb_true_iff in Hv. destruct Hv as [Hp Hax].
      apply ax_in in Hax; try assumption. destruct Hax as [A1 A2].
      apply AUs_step; [exact Hp | | ].
      + intros i Hi He. apply IHj; [rewrite Uc_moves; exact Hc|]. apply A1; assumption.
      + intro Hs. apply IHj; [exact Hc|]. apply A2; assumption. }
  destruct H as [[E1 E2]|[j [E1 E2]]].
  - (* phi2 empty: the result is empty; nothing satisfies A[.U.] *)
    subst r. split; [assumption|].
    intros v Hc. rewrite E1. rewrite mem_empty. split; [discriminate|].
    intro HA. exfalso.
    induction HA as [v Hq | v Hp Hm IHm Hs IHs].
    + unfold M in Hq. try rewrite E1 in Hq. rewrite mem_empty in Hq. discriminate.
    + (* either some move is enabled or v is steady *)
      destruct (existsb (fun i => enabled G i v) (range n)) eqn:Ex.
      * apply existsb_exists in Ex. destruct Ex as [i [Hi He]]. apply in_range in Hi.
        apply (IHm i Hi He). rewrite Uc_moves. exact Hc.
      * apply IHs; [|exact Hc]. intros i Hi.
        destruct (enabled G i v) eqn:He; [|reflexivity].
        assert (X : existsb (fun i => enabled G i v) (range n) = true).
        { apply existsb_exists. exists i. split; [apply in_range; exact Hi | exact He]. }
        congruence.
  - destruct (Sound j) as [Sj Sound_j]. rewrite <- E1 in Sj, Sound_j.
    split; [assumption|].
    intros v Hc. split; [apply Sound_j; exact Hc|].
    intro HA. induction HA as [v Hq | v Hp Hm IHm Hs IHs].
    + (* phi2 is below every iterate *)
      rewrite E1. apply iter_Fau_mono; assumption.
    + rewrite <- E2. unfold Fau.
      rewrite mem_tor by shp.
      apply orb_true_iff. right.
      rewrite mem_tand by shp.
      unfold M in Hp. rewrite Hp. simpl.
      apply ax_in; try assumption. split.
      * intros i Hi He. apply IHm; try assumption. rewrite Uc_moves. exact Hc.
      * intro Hst. apply IHs; assumption.
Qed.
End AU.

End ExtFix.
