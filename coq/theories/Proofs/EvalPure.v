(** The evaluator without cache and without pattern shortcuts ([peval]) computes exactly the
    satisfying valuations of a plain formula; [eval_node] with a context that marks no
    duplicates and with the shortcuts switched off is [peval]. *)
From HCTL Require Import Base Syntax Canon MarkDup TT Ops Eval Kripke HCTL.
From HCTL Require Import TTFacts OpsFacts FixFacts SemFacts HybridFacts.

Lemma str_eqb_eq a b : str_eqb a b = true <-> a = b.
Proof.
  unfold str_eqb. revert b. induction a as [|x a IH]; intros [|y b]; simpl; try (split; [discriminate|congruence]).
  - tauto.
  - rewrite andb_true_iff, N.eqb_eq, IH. split; [intros [-> ->]; reflexivity | intro H; injection H; auto].
Qed.

Section PEval.
Variable G : genv.
Variable names : list str.
Variable sw : switches.
Variable steady : tt.

Fixpoint peval (t : tree) (U : tt) : res tt :=
  if use_patterns sw && is_attractor_pattern t then
    let* e := hctl_var_id G (pattern_var t) in attractors G U e
  else if use_patterns sw && is_fixed_point_pattern t then Ok steady
  else
  match t with
  | Terminal ATrue => Ok U
  | Terminal AFalse => Ok (empty G)
  | Terminal (AVar x) => let* e := hctl_var_id G x in Ok (eval_hctl_var G U e)
  | Terminal (AProp nm) =>
      match index_of nm names 0 with
      | Some i => Ok (eval_prop G U i)
      | None => Panic PPropLookup
      end
  | Terminal (AWild _) => Panic PWildCardUnreachable
  | Unary o a =>
      let* x := peval a U in
      match o with
      | Not => Ok (eval_neg U x)
      | EX => Ok (eval_ex G x steady)
      | AX => Ok (eval_ax G U x steady)
      | EF => eval_ef_saturated G U x
      | AF => eval_af G U x steady
      | EG => eval_eg G x steady
      | AG => eval_ag G U x
      end
  | Binary o l r =>
      let* a := peval l U in
      let* b := peval r U in
      match o with
      | And => Ok (tand a b)
      | Or => Ok (tor a b)
      | Xor => Ok (eval_xor U a b)
      | Imp => Ok (eval_imp U a b)
      | Iff => Ok (eval_equiv U a b)
      | EU => eval_eu_saturated G a b
      | AU => eval_au G U a b steady
      | EW => eval_ew G U a b steady
      | AW => eval_aw G U a b
      end
  | Hybrid Jump x _ a =>
      let* r := peval a U in
      let* e := hctl_var_id G x in
      Ok (eval_jump G U r e)
  | Hybrid o x None a =>
      let* r := peval a U in
      let* e := hctl_var_id G x in
      eval_hybrid_quantifier G U U o e r
  | Hybrid _ _ (Some _) _ => Panic PDomainLookup
  end.

Lemma peval_unfold_hybrid o x a U :
  peval (Hybrid o x None a) U =
  if use_patterns sw && is_attractor_pattern (Hybrid o x None a) then
    let* e := hctl_var_id G (pattern_var (Hybrid o x None a)) in attractors G U e
  else if use_patterns sw && is_fixed_point_pattern (Hybrid o x None a) then Ok steady
  else match o with
       | Jump => let* r := peval a U in let* e := hctl_var_id G x in Ok (eval_jump G U r e)
       | _ => let* r := peval a U in let* e := hctl_var_id G x in eval_hybrid_quantifier G U U o e r
       end.
Proof. destruct o; reflexivity. Qed.

End PEval.

(** plain formulae: no wild-cards, no domains *)
Fixpoint plainf (t : tree) : Prop :=
  match t with
  | Terminal (AWild _) => False
  | Terminal _ => True
  | Unary _ a => plainf a
  | Binary _ a b => plainf a /\ plainf b
  | Hybrid _ _ d a => d = None /\ plainf a
  end.

Section Soundness.
Variable G : genv.
Variable names : list str.
Local Notation L := (g_L G).
Local Notation n := (g_n G).
Local Notation k := (g_k G).

Hypothesis L_nodup : NoDup L.
Hypothesis upd_shaped : forall i, shaped L (upd_of G i).
Hypothesis TS_in : forall i, i < n -> In (TS i) L.
Hypothesis TX_in : forall i e, i < n -> e < k -> In (TX i e) L.
Hypothesis TS_bound : forall i, In (TS i) L -> i < n.
Hypothesis TX_bound : forall i e, In (TX i e) L -> i < n.
Hypothesis names_bound : forall nm i, index_of nm names 0 = Some i -> i < n.

Variable U : tt.
Hypothesis U_shaped : shaped L U.
Hypothesis U_colour : forall v w, (forall j, v (TP j) = w (TP j)) -> mem L U v = mem L U w.

Variable Gamma : str -> val -> Prop.
Variable sw : switches.
(** update functions do not read the spare copies *)
Hypothesis upd_extras : forall i v w, (forall g, is_extra_tag g = false -> v g = w g) ->
  mem L (upd_of G i) v = mem L (upd_of G i) w.

Local Notation spec := (spec_of G U).
Local Notation st := (steady_of G U).
Local Notation Sat := (sat G names Gamma).

Lemma UM : forall v i, mem L U (vflip (TS i) v) = mem L U v.
Proof. intros v i. apply U_colour. intro j. reflexivity. Qed.

Lemma index_of_prop_index nm l i : index_of nm l i = prop_index nm l i.
Proof. revert i; induction l as [|y l IH]; intro i; simpl; [reflexivity|]. destruct (str_eqb nm y); auto. Qed.

Lemma var_id_of x e : hctl_var_id G x = Ok e -> var_of G x = Some e /\ e < k.
Proof.
  unfold hctl_var_id, var_of. destruct x as [|c r]; [discriminate|].
  destruct (Nat.ltb (length r) k) eqn:E; [|discriminate].
  intro H; injection H as <-. apply Nat.ltb_lt in E. auto.
Qed.

Lemma var_of_id x e : var_of G x = Some e -> hctl_var_id G x = Ok e.
Proof.
  unfold hctl_var_id, var_of. destruct x as [|c r]; [discriminate|].
  destruct (Nat.ltb (length r) k); [|discriminate]. intro H; injection H as <-. reflexivity.
Qed.

(** ---- the pattern shortcuts ---- *)
Lemma enabled_set_copy e u v i : enabled G i (set_copy e u v) = enabled G i v.
Proof.
  unfold enabled. f_equal.
  apply upd_extras. intros g Hg. destruct g; simpl in *; try reflexivity. discriminate.
Qed.

Lemma vflip_set_copy_TX e v i : vflip (TS i) (set_copy e v v) (TX i e) = v (TS i).
Proof. unfold vflip. simpl. rewrite Nat.eqb_refl. reflexivity. Qed.

(** the steady-state shortcut: the precomputed set is the meaning of  !x: AX x *)
Lemma steady_pattern_spec x e : var_of G x = Some e -> e < k ->
  spec st (Sat (Hybrid Bind x None (Unary AX (Terminal (AVar x))))).
Proof.
  intros Ev Hk. split; [apply shaped_steady_of; assumption|]. intro v.
  rewrite (mem_steady_of G L_nodup upd_shaped TS_in U v U_shaped).
  simpl. split.
  - intros [Hu Hs]. split; [assumption|]. exists e. split; [assumption|]. split; [exact I|].
    split.
    + intros i Hi He. rewrite enabled_set_copy in He. rewrite (Hs i Hi) in He. discriminate.
    + intros _. exists e. split; [assumption|]. intros i Hi. simpl. rewrite Nat.eqb_refl. reflexivity.
  - intros [Hu [e' [Ev' [_ [A1 A2]]]]]. split; [assumption|].
    assert (e' = e) by congruence. subst e'.
    intros i Hi. destruct (enabled G i v) eqn:He; [|reflexivity]. exfalso.
    rewrite <- (enabled_set_copy e v v i) in He.
    destruct (A1 i Hi He) as [e2 [Ev2 Hc]]. assert (e2 = e) by congruence. subst e2.
    specialize (Hc i Hi). rewrite vflip_set_copy_TX in Hc.
    unfold vflip in Hc. simpl in Hc. rewrite Nat.eqb_refl in Hc. simpl in Hc.
    destruct (v (TS i)); discriminate.
Qed.

(** the attractor shortcut is modelled by its specification: it returns what the generic
    evaluation of  !x: AG EF x  returns *)
Lemma attractor_pattern_spec x e R : var_of G x = Some e -> e < k ->
  attractors G U e = Ok R ->
  spec R (Sat (Hybrid Bind x None (Unary AG (Unary EF (Terminal (AVar x)))))).
Proof.
  intros Ev Hk H. unfold attractors in H.
  destruct (eval_ef_saturated G U (eval_hctl_var G U e)) as [ef| | |] eqn:E1; simpl in H; try discriminate.
  destruct (eval_ag G U ef) as [ag| | |] eqn:E2; simpl in H; try discriminate.
  injection H as <-.
  assert (S0 : spec (eval_hctl_var G U e) (Sat (Terminal (AVar x)))).
  { eapply spec_ext; [eapply spec_var; eauto|]. intros w Hu. simpl. split.
    - intro Hc. exists e. auto.
    - intros [e' [He' Hc]]. assert (e' = e) by congruence. subst. exact Hc. }
  assert (S1 : spec ef (EFs G (Sat (Terminal (AVar x))))) by (eapply spec_ef; eauto using UM).
  assert (S2 : spec ag (AGs G (EFs G (Sat (Terminal (AVar x)))))) by (eapply spec_ag; eauto using UM).
  eapply spec_ext; [eapply spec_bind; eauto|].
  intros w Hu. simpl. split.
  - intro Hs. exists e. auto.
  - intros [e' [He' [_ Hs]]]. assert (e' = e) by congruence. subst. exact Hs.
Qed.

Lemma attractor_pattern_inv t : is_attractor_pattern t = true ->
  exists x, t = Hybrid Bind x None (Unary AG (Unary EF (Terminal (AVar x)))).
Proof.
  destruct t as [a|o a|o a b|o x d a]; try discriminate. simpl.
  destruct o; try discriminate. destruct d; try discriminate.
  destruct a as [a|o a|o a b|o y d a]; try discriminate. destruct o; try discriminate.
  destruct a as [a|o a|o a b|o y d a]; try discriminate. destruct o; try discriminate.
  destruct a as [a|o a|o a b|o y d a]; try discriminate. destruct a as [nm|y| | |l]; try discriminate.
  intro H. exists x. apply str_eqb_eq in H. subst. reflexivity.
Qed.

Lemma fixed_point_pattern_inv t : is_fixed_point_pattern t = true ->
  exists x, t = Hybrid Bind x None (Unary AX (Terminal (AVar x))).
Proof.
  destruct t as [a|o a|o a b|o x d a]; try discriminate. simpl.
  destruct o; try discriminate. destruct d; try discriminate.
  destruct a as [a|o a|o a b|o y d a]; try discriminate. destruct o; try discriminate.
  destruct a as [a|o a|o a b|o y d a]; try discriminate. destruct a as [nm|y| | |l]; try discriminate.
  intro H. exists x. apply str_eqb_eq in H. subst. reflexivity.
Qed.

(** every variable of the formula has a spare copy in the graph
    (what check_hctl_var_support guarantees for preprocessed formulae) *)
Fixpoint supported (t : tree) : Prop :=
  match t with
  | Terminal (AVar x) => var_of G x <> None
  | Terminal _ => True
  | Unary _ a => supported a
  | Binary _ a b => supported a /\ supported b
  | Hybrid _ x _ a => var_of G x <> None /\ supported a
  end.

Definition peval_body (t : tree) : res tt :=
  match t with
  | Terminal ATrue => Ok U
  | Terminal AFalse => Ok (empty G)
  | Terminal (AVar x) => let* e := hctl_var_id G x in Ok (eval_hctl_var G U e)
  | Terminal (AProp nm) =>
      match index_of nm names 0 with
      | Some i => Ok (eval_prop G U i)
      | None => Panic PPropLookup
      end
  | Terminal (AWild _) => Panic PWildCardUnreachable
  | Unary o a =>
      let* x := peval G names sw st a U in
      match o with
      | Not => Ok (eval_neg U x)
      | EX => Ok (eval_ex G x st)
      | AX => Ok (eval_ax G U x st)
      | EF => eval_ef_saturated G U x
      | AF => eval_af G U x st
      | EG => eval_eg G x st
      | AG => eval_ag G U x
      end
  | Binary o l r =>
      let* a := peval G names sw st l U in
      let* b := peval G names sw st r U in
      match o with
      | And => Ok (tand a b)
      | Or => Ok (tor a b)
      | Xor => Ok (eval_xor U a b)
      | Imp => Ok (eval_imp U a b)
      | Iff => Ok (eval_equiv U a b)
      | EU => eval_eu_saturated G a b
      | AU => eval_au G U a b st
      | EW => eval_ew G U a b st
      | AW => eval_aw G U a b
      end
  | Hybrid Jump x _ a =>
      let* r := peval G names sw st a U in
      let* e := hctl_var_id G x in
      Ok (eval_jump G U r e)
  | Hybrid o x None a =>
      let* r := peval G names sw st a U in
      let* e := hctl_var_id G x in
      eval_hybrid_quantifier G U U o e r
  | Hybrid _ _ (Some _) _ => Panic PDomainLookup
  end.

Lemma peval_eq t :
  peval G names sw st t U =
  if use_patterns sw && is_attractor_pattern t then
    let* e := hctl_var_id G (pattern_var t) in attractors G U e
  else if use_patterns sw && is_fixed_point_pattern t then Ok st
  else peval_body t.
Proof. destruct t; reflexivity. Qed.

(** the main theorem for plain formulae: whatever [peval] returns denotes [sat],
    with the pattern shortcuts switched on or off *)
Theorem peval_sound : forall t R, plainf t -> supported t ->
  peval G names sw st t U = Ok R -> spec R (Sat t).
Proof.
  induction t as [a | o a IH | o a IHa b IHb | o x d a IH]; intros R Hpl Hsup H; rewrite peval_eq in H.
  - (* terminals *)
    simpl in H. rewrite !andb_false_r in H.
    destruct a as [nm | x | | | l]; simpl in H.
    + destruct (index_of nm names 0) as [i|] eqn:E; [|discriminate]. injection H as <-.
      eapply spec_ext; [eapply spec_prop; eauto|].
      intros w Hu. simpl. rewrite <- index_of_prop_index. split.
      * intro Hv. exists i. auto.
      * intros [j [Hj Hv]]. congruence.
    + destruct (hctl_var_id G x) as [e| | |] eqn:E; simpl in H; try discriminate. injection H as <-.
      destruct (var_id_of _ _ E) as [Ev Hk].
      eapply spec_ext; [eapply spec_var; eauto|].
      intros w Hu. simpl. split.
      * intro Hc. exists e. auto.
      * intros [e' [He' Hc]]. assert (e' = e) by congruence. subst. exact Hc.
    + injection H as <-. apply spec_unit; assumption.
    + injection H as <-. apply spec_empty.
    + discriminate.
  - (* unary *)
    simpl in H. rewrite !andb_false_r in H.
    destruct (peval G names sw st a U) as [A| | |] eqn:EA; simpl in H; try discriminate.
    specialize (IH A Hpl Hsup eq_refl).
    destruct o; simpl.
    + injection H as <-. apply spec_neg; assumption.
    + injection H as <-. apply spec_ex; auto using UM.
    + injection H as <-. apply spec_ax; auto using UM.
    + eapply spec_ef; eauto using UM.
    + eapply spec_af; eauto using UM.
    + eapply spec_eg; eauto using UM.
    + eapply spec_ag; eauto using UM.
  - (* binary *)
    simpl in H. rewrite !andb_false_r in H. destruct Hpl as [Hpa Hpb]. destruct Hsup as [Hsa Hsb].
    destruct (peval G names sw st a U) as [A| | |] eqn:EA; simpl in H; try discriminate.
    destruct (peval G names sw st b U) as [B| | |] eqn:EB; simpl in H; try discriminate.
    specialize (IHa A Hpa Hsa eq_refl). specialize (IHb B Hpb Hsb eq_refl).
    destruct o; simpl.
    + injection H as <-. apply spec_and; assumption.
    + injection H as <-. apply spec_or; assumption.
    + injection H as <-. apply spec_xor; assumption.
    + injection H as <-. apply spec_imp; assumption.
    + injection H as <-. apply spec_equiv; assumption.
    + eapply spec_eu; eauto using UM.
    + eapply spec_au; eauto using UM.
    + eapply spec_ew; eauto using UM.
    + eapply spec_aw; eauto using UM.
  - (* hybrid *)
    destruct Hpl as [-> Hpa]. destruct Hsup as [Hvx Hsa].
    destruct (use_patterns sw && is_attractor_pattern (Hybrid o x None a)) eqn:PA.
    { apply andb_true_iff in PA. destruct PA as [_ PA].
      destruct (attractor_pattern_inv _ PA) as [y Ey]. injection Ey as -> -> ->.
      simpl in H. destruct (hctl_var_id G y) as [e| | |] eqn:E; simpl in H; try discriminate.
      destruct (var_id_of _ _ E) as [Ev Hk]. eapply attractor_pattern_spec; eauto. }
    destruct (use_patterns sw && is_fixed_point_pattern (Hybrid o x None a)) eqn:PF.
    { apply andb_true_iff in PF. destruct PF as [_ PF].
      destruct (fixed_point_pattern_inv _ PF) as [y Ey]. injection Ey as -> -> ->.
      injection H as <-.
      destruct (var_of G y) as [e|] eqn:Ev; [|congruence].
      destruct (var_id_of _ _ (var_of_id _ _ Ev)) as [_ Hk].
      eapply steady_pattern_spec; eauto. }
    assert (HH : exists A e, peval G names sw st a U = Ok A /\ hctl_var_id G x = Ok e /\
              match o with
              | Jump => R = eval_jump G U A e
              | _ => eval_hybrid_quantifier G U U o e A = Ok R
              end).
    { simpl in H. destruct o; simpl in H;
        destruct (peval G names sw st a U) as [A| | |] eqn:EA; simpl in H; try discriminate;
        destruct (hctl_var_id G x) as [e| | |] eqn:E; simpl in H; try discriminate;
        exists A, e; (split; [reflexivity|]); (split; [reflexivity|]); try exact H.
      injection H as <-. reflexivity. }
    destruct HH as [A [e [EA [E HR]]]].
    specialize (IH A Hpa Hsa EA). destruct (var_id_of _ _ E) as [Ev Hk].
    destruct o; simpl in HR |- *.
    + (* bind *)
      injection HR as <-.
      eapply spec_ext; [eapply spec_bind; eauto|].
      intros w Hu. simpl. split.
      * intro Hs. exists e. auto.
      * intros [e' [He' [_ Hs]]]. assert (e' = e) by congruence. subst. exact Hs.
    + (* jump *)
      subst R.
      eapply spec_ext; [eapply spec_jump; eauto|].
      intros w Hu. simpl. split.
      * intro Hs. exists e. auto.
      * intros [e' [He' Hs]]. assert (e' = e) by congruence. subst. exact Hs.
    + (* exists *)
      injection HR as <-.
      eapply spec_ext; [eapply spec_exists; eauto|].
      intros w Hu. simpl. split.
      * intros [u Hs]. exists e. split; [assumption|]. exists u. auto.
      * intros [e' [He' [u [_ Hs]]]]. assert (e' = e) by congruence. subst. exists u. exact Hs.
    + (* forall *)
      injection HR as <-.
      eapply spec_ext; [eapply spec_forall; eauto|].
      intros w Hu. simpl. split.
      * intro Hs. exists e. split; [assumption|]. intros u _. apply Hs.
      * intros [e' [He' Hs]]. assert (e' = e) by congruence. subst. intro u. apply Hs. exact I.
Qed.

End Soundness.

(** ---- eval_node with a context that marks no duplicates is peval ---- *)
Section Link.
Variable G : genv.
Variable names : list str.
Variable sw : switches.
Variable steady : tt.

Lemma bind_assoc_ok {A B} (r : res A) (c : B) :
  (let* x := (let* y := r in Ok (y, c)) in Ok x) = (let* y := r in Ok (y, c)).
Proof. destruct r; reflexivity. Qed.

Theorem eval_node_nodup : forall t U c, plainf t -> duplicates c = [] ->
  exists c', duplicates c' = [] /\
    eval_node G names sw steady t U c =
    bind (peval G names sw steady t U) (fun r => Ok (r, c')).
Proof.
  induction t as [a | o a IH | o a IHa b IHb | o x d a IH]; intros U c Hpl Hd.
  - (* terminal *)
    cbn [eval_node]. destruct (canonize (render (Terminal a))) as [canon ren].
    rewrite Hd. cbn [amem alookup andb].
    exists c. split; [assumption|].
    cbn [peval is_attractor_pattern is_fixed_point_pattern]. rewrite !andb_false_r.
    destruct a; cbn; try reflexivity;
      try (destruct (index_of s names 0); reflexivity);
      try (destruct (hctl_var_id G s); reflexivity).
  - (* unary *)
    cbn [eval_node]. destruct (canonize (render (Unary o a))) as [canon ren].
    rewrite Hd. cbn [amem alookup andb].
    cbn [peval is_attractor_pattern is_fixed_point_pattern]. rewrite !andb_false_r.
    destruct (IH U c Hpl Hd) as [c1 [Hd1 E1]]. rewrite E1.
    exists c1. split; [assumption|].
    destruct (peval G names sw steady a U) as [A| | |]; cbn; try reflexivity;
      destruct o; cbn; reflexivity.
  - (* binary *)
    destruct Hpl as [Hpa Hpb].
    cbn [eval_node]. destruct (canonize (render (Binary o a b))) as [canon ren].
    rewrite Hd. cbn [amem alookup andb].
    cbn [peval is_attractor_pattern is_fixed_point_pattern]. rewrite !andb_false_r.
    destruct (IHa U c Hpa Hd) as [c1 [Hd1 E1]]. rewrite E1.
    destruct (IHb U c1 Hpb Hd1) as [c2 [Hd2 E2]].
    exists c2. split; [assumption|].
    destruct (peval G names sw steady a U) as [A| | |]; cbn; try reflexivity.
    rewrite E2.
    destruct (peval G names sw steady b U) as [B| | |]; cbn; try reflexivity;
      destruct o; cbn; reflexivity.
  - (* hybrid *)
    destruct Hpl as [-> Hpa].
    cbn [eval_node]. destruct (canonize (render (Hybrid o x None a))) as [canon ren].
    rewrite Hd. cbn [amem alookup andb].
    rewrite (peval_unfold_hybrid G names sw steady o x a U).
    destruct (use_patterns sw && is_attractor_pattern (Hybrid o x None a)) eqn:PA.
    { exists c. split; [assumption|].
      destruct (hctl_var_id G (pattern_var (Hybrid o x None a))); cbn; try reflexivity;
        match goal with |- context [attractors ?g ?u ?e] => destruct (attractors g u e) end; reflexivity. }
    destruct (use_patterns sw && is_fixed_point_pattern (Hybrid o x None a)) eqn:PF.
    { exists c. split; [assumption|]. reflexivity. }
    destruct o.
    + (* bind *)
      set (c0 := set_free c (sinsert x None (free_doms c))).
      destruct (IH U c0 Hpa Hd) as [c1 [Hd1 E1]]. rewrite E1.
      exists (set_free c1 (aremove str_eqb x (free_doms c1))). split; [assumption|].
      destruct (peval G names sw steady a U) as [A| | |]; cbn; try reflexivity;
        destruct (hctl_var_id G x); reflexivity.
    + (* jump *)
      destruct (IH U c Hpa Hd) as [c1 [Hd1 E1]]. rewrite E1.
      exists c1. split; [assumption|].
      destruct (peval G names sw steady a U) as [A| | |]; cbn; try reflexivity;
        destruct (hctl_var_id G x); reflexivity.
    + (* exists *)
      set (c0 := set_free c (sinsert x None (free_doms c))).
      destruct (IH U c0 Hpa Hd) as [c1 [Hd1 E1]]. rewrite E1.
      exists (set_free c1 (aremove str_eqb x (free_doms c1))). split; [assumption|].
      destruct (peval G names sw steady a U) as [A| | |]; cbn; try reflexivity;
        destruct (hctl_var_id G x); reflexivity.
    + (* forall *)
      set (c0 := set_free c (sinsert x None (free_doms c))).
      destruct (IH U c0 Hpa Hd) as [c1 [Hd1 E1]]. rewrite E1.
      exists (set_free c1 (aremove str_eqb x (free_doms c1))). split; [assumption|].
      destruct (peval G names sw steady a U) as [A| | |]; cbn; try reflexivity;
        destruct (hctl_var_id G x); reflexivity.
Qed.
End Link.
