(** The cache invariant of CacheFacts.v for an ARBITRARY self-loop set handed to the
    evaluator (shaped, not reading the spare copies) -- in particular [empty G], the set of
    the mode [m_unsafe_ex].  The semantic argument of CacheFacts.v (through [sat]) is replaced
    by the syntactic commutation [peval_rename] of CopyRel.v. *)
From Coq Require Import Permutation.
From HCTL Require Import Base Syntax Preprocess Canon MarkDup TT Ops Eval Pipeline Kripke HCTL.
From HCTL Require Import TTFacts OpsFacts FixFacts SemFacts HybridFacts EvalPure Main Termination.
From HCTL Require Import IndepFacts PrepFacts RoundTrip CanonFacts CanonAlpha MarkDupFacts RenameFacts
  LayoutFacts PipelineFacts NoPanic ParsedNamed CacheFacts CopyRel.

(** a set that reads the colour and the state only *)
Definition ignores_copies (G : genv) (S : tt) : Prop :=
  forall v w, (forall j, v (TP j) = w (TP j)) -> (forall i, v (TS i) = w (TS i)) ->
    mem (g_L G) S v = mem (g_L G) S w.

Section CacheS.
Variable ext_alnum : N -> bool.
Variable ext : bool.
Variable G : genv.
Variable names : list str.
Variable sw : switches.
Variable U : tt.
Hypothesis WF : wf_env G names U.
Variable steady : tt.
Hypothesis steady_shaped : shaped (g_L G) steady.
Hypothesis steady_copies : ignores_copies G steady.
Local Notation L := (g_L G).
Local Notation pev := (peval G names sw steady).
Local Notation good := (good ext_alnum ext G names).
Local Notation dups_ok := (dups_ok ext_alnum ext).

Definition entry_okS (k : key) (S : tt) (rn : list (str * str)) : Prop :=
  exists t0, good t0 /\ canonize (render t0) = (fst k, rn) /\ length rn <= 1
             /\ pev t0 U = Ok S.

Definition cache_okLS (ca : list (key * (tt * list (str * str)))) : Prop :=
  forall k S rn, In (k, (S, rn)) ca -> entry_okS k S rn.

Definition cache_okS (c : ectx) : Prop := cache_okLS (cache c).

Lemma pev_totalS t : good t -> exists R, pev t U = Ok R /\ shaped L R.
Proof.
  intros (A & B & C & _). destruct WF.
  apply (peval_total G names sw steady U); assumption.
Qed.

(** a cache hit, without semantics *)
Theorem hit_okS t canon ren dm S rn :
  good t -> canonize (render t) = (canon, ren) -> entry_okS (canon, dm) S rn ->
  exists R, rename_back G rn ren S = Ok R /\ pev t U = Ok R.
Proof.
  intros GT CT (t0 & GT0 & CT0 & LEN & P0). cbn [fst] in CT0.
  pose proof GT as (Pl & Su & Pk & W & d & DN).
  pose proof GT0 as (Pl0 & Su0 & Pk0 & W0 & d0 & DN0).
  assert (fst (canonize (render t)) = fst (canonize (render t0))) as E by (rewrite CT, CT0; reflexivity).
  assert (length (snd (canonize (render t0))) <= 1) as LEN0 by (rewrite CT0; exact LEN).
  destruct (hit_shape ext_alnum ext d d0 t t0 W W0 DN DN0 E LEN0)
    as [[M0 ->] | (x0 & x & cn & M0 & M & O0 & O & OV0 & ET)];
    rewrite CT0 in M0; cbn [snd] in M0; subst rn.
  - exists S. split; [reflexivity | exact P0].
  - rewrite CT in M. cbn [snd] in M. subst ren.
    destruct (var_of G x0) as [e0|] eqn:V0; [|exfalso; exact (supported_occurs G t0 x0 Su0 O0 V0)].
    destruct (var_of G x) as [e|] eqn:V; [|exfalso; exact (supported_occurs G t x Su O V)].
    pose proof (var_of_id G x0 e0 V0) as I0. pose proof (var_of_id G x e V) as I1.
    exists (substitute_hctl_var G S e0 e). split.
    { cbn [rename_back find snd]. rewrite str_eqb_refl. rewrite I0, I1. reflexivity. }
    pose proof (only_var_vmap x0 t0 OV0) as ET0.
    destruct (Nat.eq_dec e0 e) as [EQ | NE].
    + subst e0. unfold substitute_hctl_var. rewrite Nat.eqb_refl.
      destruct (occurs_depth_named t0 d0 x0 DN0 O0) as [j0 ->].
      destruct (occurs_depth_named t d x DN O) as [j ->].
      unfold var_of in V0, V. cbn [xs repeat_n] in V0, V. fold (xs j0) in V0. fold (xs j) in V.
      rewrite xs_length in V0, V.
      destruct (Nat.ltb j0 (g_k G)); [|discriminate]. destruct (Nat.ltb j (g_k G)); [|discriminate].
      assert (j0 = j) by congruence. subst j0. rewrite ET, ET0. exact P0.
    + rewrite ET. rewrite <- ET0 in P0.
      exact (peval_rename G names U WF sw steady x x0 e e0 t0 S steady_shaped steady_copies
               I1 I0 NE Pl0 P0).
Qed.

Lemma cache_okLS_aremove k ca : cache_okLS ca -> cache_okLS (aremove key_eqb k ca).
Proof. intros H k' S rn IN. apply H. eapply in_aremove; exact IN. Qed.

Lemma cache_okLS_ainsert k S rn ca :
  entry_okS k S rn -> cache_okLS ca -> cache_okLS (ainsert key_eqb k (S, rn) ca).
Proof.
  intros E H k' S' rn' [EQ | IN].
  - injection EQ as <- <- <-. exact E.
  - apply H. eapply in_aremove; exact IN.
Qed.

Lemma hit_ctx_okS t k c :
  cache_okS c -> dups_ok c -> cache_okS (hit_ctx t k c) /\ dups_ok (hit_ctx t k c).
Proof.
  intros CO DO. unfold hit_ctx. destruct (is_wild_terminal t); [split; assumption|].
  destruct (alookup key_eqb k (duplicates c)) as [[|[|m]]|] eqn:E; unfold cache_okS, CacheFacts.dups_ok;
    cbn [cache duplicates set_cache set_dups].
  - split; [apply cache_okLS_aremove, CO | apply dups_okL_aremove, DO].
  - split; [apply cache_okLS_aremove, CO | apply dups_okL_aremove, DO].
  - split; [exact CO|]. apply dups_okL_ainsert; [|exact DO].
    apply (DO k (S (S m))). apply alookup_key_in, E.
  - split; assumption.
Qed.

Lemma finish_okS t k save R c1 :
  good t -> fst k = fst (canonize (render t)) -> pev t U = Ok R ->
  (save = true -> length (snd (canonize (render t))) <= 1) ->
  cache_okS c1 -> dups_ok c1 ->
  exists c', finish_at k (snd (canonize (render t))) save (R, c1) = Ok (R, c')
             /\ cache_okS c' /\ dups_ok c'.
Proof.
  intros GT EK PT LEN CO DO. unfold finish_at. destruct save.
  - eexists. split; [reflexivity|]. cbn [fst snd]. split; [|exact DO].
    unfold cache_okS. cbn [cache set_cache fst snd]. apply cache_okLS_ainsert; [|exact CO].
    exists t. split; [exact GT|]. split; [|split; [apply LEN; reflexivity | exact PT]].
    rewrite EK. destruct (canonize (render t)); reflexivity.
  - exists c1. split; [reflexivity|]. split; assumption.
Qed.

Lemma hit_caseS t c cached cren R :
  good t -> cache_okS c -> dups_ok c -> pev t U = Ok R ->
  alookup key_eqb (key_of c t) (cache c) = Some (cached, cren) ->
  exists c', (let* r := rename_back G cren (snd (canonize (render t))) cached in
              Ok (r, hit_ctx t (key_of c t) c)) = Ok (R, c')
             /\ pev t U = Ok R /\ cache_okS c' /\ dups_ok c'.
Proof.
  intros GT CO DO PT Hit. apply alookup_key_in in Hit.
  destruct (hit_okS t _ _ _ cached cren GT (surjective_pairing _) (CO _ _ _ Hit)) as (R' & RB & PR).
  rewrite RB. cbn [bind]. assert (R' = R) as -> by congruence.
  destruct (hit_ctx_okS t (key_of c t) c CO DO) as [CO' DO'].
  eexists. split; [reflexivity|]. split; [exact PT|]. split; assumption.
Qed.

Theorem eval_node_cacheS : forall t c,
  good t -> cache_okS c -> dups_ok c ->
  exists R c', eval_node G names sw steady t U c = Ok (R, c') /\ pev t U = Ok R
               /\ cache_okS c' /\ dups_ok c'.
Proof.
  induction t as [a | o a IH | o a IHa b IHb | o x d a IH]; intros c GT CO DO;
    destruct (pev_totalS _ GT) as (R & PT & _); exists R;
    rewrite (eval_node_unfold G names sw);
    match goal with
    | |- context [finish_at ?k ?ren ?save] =>
        pose proof (fun c1 CO1 DO1 =>
          finish_okS _ k save R c1 GT eq_refl PT (save_single ext_alnum ext G names _ c GT DO) CO1 DO1) as FIN;
        let F := fresh "F" in set (F := finish_at k ren save) in *; clearbody F
    end;
    match goal with
    | |- context [eval_miss ?g ?nm ?s0 ?s ?F ?t ?U ?c] =>
        assert (exists c', eval_miss g nm s0 s F t U c = Ok (R, c') /\ cache_okS c' /\ dups_ok c') as MISS;
        [| destruct MISS as (c' & EM & CO' & DO');
           assert (exists c', eval_miss g nm s0 s F t U c = Ok (R, c') /\ pev t U = Ok R
                              /\ cache_okS c' /\ dups_ok c') as MISS
             by (exists c'; repeat split; assumption);
           destruct (amem key_eqb (key_of c _) (duplicates c)) eqn:Dup;
           [destruct (alookup key_eqb (key_of c _) (cache c)) as [[cached cren]|] eqn:Hit;
            [eapply hit_caseS; eassumption | exact MISS] | exact MISS] ]
    end.
  - unfold eval_miss. cbn [peval is_attractor_pattern is_fixed_point_pattern] in *.
    rewrite !andb_false_r in *.
    destruct a as [nm | y | | | w]; cbn [bind] in *.
    + destruct (index_of nm names 0); [|discriminate PT]. injection PT as <-. exact (FIN c CO DO).
    + destruct (hctl_var_id G y); cbn [bind] in *; try discriminate PT.
      injection PT as <-. exact (FIN c CO DO).
    + injection PT as <-. exact (FIN c CO DO).
    + injection PT as <-. exact (FIN c CO DO).
    + discriminate PT.
  - destruct (IH c (good_sub_unary _ _ _ _ _ _ GT) CO DO) as (A & c1 & EA & PA & CO1 & DO1).
    unfold eval_miss. cbn [peval is_attractor_pattern is_fixed_point_pattern] in *.
    rewrite !andb_false_r in *. rewrite EA. rewrite PA in PT. cbn [bind] in *.
    rewrite PT. cbn [bind]. exact (FIN c1 CO1 DO1).
  - destruct (good_sub_binary _ _ _ _ _ _ _ GT) as [GA GB].
    destruct (IHa c GA CO DO) as (A & c1 & EA & PA & CO1 & DO1).
    destruct (IHb c1 GB CO1 DO1) as (B & c2 & EB & PB & CO2 & DO2).
    unfold eval_miss. cbn [peval is_attractor_pattern is_fixed_point_pattern] in *.
    rewrite !andb_false_r in *. rewrite EA. rewrite PA in PT. cbn [bind] in *.
    rewrite EB. rewrite PB in PT. cbn [bind] in *.
    rewrite PT. cbn [bind]. exact (FIN c2 CO2 DO2).
  - pose proof (good_sub_hybrid _ _ _ _ _ _ _ _ GT) as GA.
    assert (d = None) as -> by (destruct GT as ((E & _) & _); exact E).
    rewrite peval_unfold_hybrid in PT. unfold eval_miss.
    destruct (use_patterns sw && is_attractor_pattern (Hybrid o x None a)) eqn:PAt.
    { destruct (hctl_var_id G (pattern_var (Hybrid o x None a))); cbn [bind] in *; try discriminate PT.
      rewrite PT. cbn [bind]. exact (FIN c CO DO). }
    destruct (use_patterns sw && is_fixed_point_pattern (Hybrid o x None a)) eqn:PFx.
    { injection PT as <-. exists c. split; [reflexivity|]. split; assumption. }
    destruct o.
    + destruct (IH (set_free c (sinsert x None (free_doms c))) GA CO DO) as (A & c1 & EA & PA & CO1 & DO1).
      rewrite EA. rewrite PA in PT. cbn [bind] in *.
      destruct (hctl_var_id G x); cbn [bind] in *; try discriminate PT.
      rewrite PT. cbn [bind]. apply FIN; assumption.
    + destruct (IH c GA CO DO) as (A & c1 & EA & PA & CO1 & DO1).
      rewrite EA. rewrite PA in PT. cbn [bind] in *.
      destruct (hctl_var_id G x); cbn [bind] in *; try discriminate PT.
      injection PT as <-. apply FIN; assumption.
    + destruct (IH (set_free c (sinsert x None (free_doms c))) GA CO DO) as (A & c1 & EA & PA & CO1 & DO1).
      rewrite EA. rewrite PA in PT. cbn [bind] in *.
      destruct (hctl_var_id G x); cbn [bind] in *; try discriminate PT.
      rewrite PT. cbn [bind]. apply FIN; assumption.
    + destruct (IH (set_free c (sinsert x None (free_doms c))) GA CO DO) as (A & c1 & EA & PA & CO1 & DO1).
      rewrite EA. rewrite PA in PT. cbn [bind] in *.
      destruct (hctl_var_id G x); cbn [bind] in *; try discriminate PT.
      rewrite PT. cbn [bind]. apply FIN; assumption.
Qed.

Lemma ctx_new_cache_okS dups : cache_okS (ctx_new dups).
Proof. intros k S rn []. Qed.

Theorem eval_all_cacheS : forall ts c,
  List.Forall good ts -> cache_okS c -> dups_ok c ->
  exists rs, eval_all G names sw steady U ts c = Ok rs
             /\ List.Forall2 (fun t R => pev t U = Ok R) ts rs.
Proof.
  induction ts as [|t ts IH]; intros c F CO DO; cbn [eval_all].
  - exists []. split; [reflexivity | constructor].
  - inversion F as [|? ? GT F']; subst.
    destruct (eval_node_cacheS t c GT CO DO) as (R & c' & E & P & CO' & DO').
    rewrite E. cbn [bind]. destruct (IH c' F' CO' DO') as (rs & E' & F2).
    rewrite E'. cbn [bind]. exists (R :: rs). split; [reflexivity|]. constructor; assumption.
Qed.

Theorem eval_node_cache_transparentS t c R c' :
  good t -> cache_okS c -> dups_ok c ->
  eval_node G names sw steady t U c = Ok (R, c') ->
  pev t U = Ok R /\ cache_okS c' /\ dups_ok c'.
Proof.
  intros GT CO DO E.
  destruct (eval_node_cacheS t c GT CO DO) as (R0 & c0 & E0 & P & CO' & DO').
  rewrite E in E0. injection E0 as <- <-. repeat split; assumption.
Qed.

Theorem eval_node_cache_totalS t c :
  good t -> cache_okS c -> dups_ok c ->
  exists R c', eval_node G names sw steady t U c = Ok (R, c').
Proof.
  intros GT CO DO.
  destruct (eval_node_cacheS t c GT CO DO) as (R0 & c0 & E0 & _). exists R0, c0. exact E0.
Qed.

Theorem batch_transparentS ts c rs :
  List.Forall good ts -> cache_okS c -> dups_ok c ->
  eval_all G names sw steady U ts c = Ok rs ->
  List.Forall2 (fun t R => pev t U = Ok R) ts rs.
Proof.
  intros F CO DO E. destruct (eval_all_cacheS ts c F CO DO) as (rs0 & E0 & F2).
  rewrite E in E0. injection E0 as <-. exact F2.
Qed.

Theorem batch_transparent_markedS ts rs :
  List.Forall good ts ->
  eval_all G names sw steady U ts (ctx_new (mark_duplicates ts)) = Ok rs ->
  List.Forall2 (fun t R => pev t U = Ok R) ts rs.
Proof.
  intros F E. apply (batch_transparentS ts (ctx_new (mark_duplicates ts)) rs F); try assumption.
  - apply ctx_new_cache_okS.
  - apply mark_duplicates_dups_ok. eapply Forall_impl; [|exact F].
    intros t (_ & _ & _ & W & D). split; assumption.
Qed.

End CacheS.

(** * The entry point, every mode with [m_ext = false] *)

Lemma empty_ignores_copies G : ignores_copies G (empty G).
Proof. intros v w _ _. rewrite !mem_empty. reflexivity. Qed.

Lemma steady_of_ignores_copies G names U : wf_env G names U -> ignores_copies G (steady_of G U).
Proof.
  intros WF v w H1 H2. apply bool_eq_iff. destruct WF.
  rewrite !mem_steady_of by assumption. rewrite (wf_U_colour v w H1).
  split; intros [Hu Hs]; (split; [exact Hu|]); intros i Hi.
  - rewrite <- (enabled_ignores_copies G wf_upd_extras i v w H1 H2). apply Hs, Hi.
  - rewrite (enabled_ignores_copies G wf_upd_extras i v w H1 H2). apply Hs, Hi.
Qed.

Section WorldS.
Variable ext_alnum : N -> bool.
Variable ext : bool.
Variable w : world.
Variable k : nat.
Hypothesis upd_ok : List.Forall (shaped (Lpn (w_p w) (w_n w))) (w_upd w).
Hypothesis unit_ok : shaped (Lpn (w_p w) (w_n w)) (w_unit w).
Hypothesis unit_colour : forall v v', (forall j, v (TP j) = v' (TP j)) ->
  mem (Lpn (w_p w) (w_n w)) (w_unit w) v = mem (Lpn (w_p w) (w_n w)) (w_unit w) v'.
Hypothesis names_ok : length (w_names w) <= w_n w.

Local Notation G := (genv_of w k).
Local Notation U := (unit_of w k).
Local Notation good := (good ext_alnum ext G (w_names w)).

(** the self-loop set of a mode *)
Definition steady_of_mode (m : mode) : tt :=
  if m_unsafe_ex m then empty G else steady_of G U.

(** what the entry point returns for one formula, in any plain mode *)
Definition singleS (m : mode) (t : tree) : res tt :=
  let* r := peval G (w_names w) {| use_patterns := negb (m_nopatterns m) |} (steady_of_mode m) t U in
  if m_sanitize m then sanitize G r else Ok r.

Lemma post_mapS m ts rs :
  List.Forall2 (fun t R => peval G (w_names w) {| use_patterns := negb (m_nopatterns m) |}
                             (steady_of_mode m) t U = Ok R) ts rs ->
  (if m_sanitize m then sanitize_all G rs else Ok rs) = mapM (singleS m) ts.
Proof.
  intro F. induction F as [|t R ts rs E _ IH]; cbn [mapM sanitize_all].
  - destruct (m_sanitize m); reflexivity.
  - unfold singleS at 1. rewrite E. cbn [bind]. rewrite <- IH.
    destruct (m_sanitize m); [|reflexivity].
    destruct (sanitize G R); cbn [bind]; reflexivity.
Qed.

Theorem check_trees_mapS m ts :
  m_ext m = false -> List.Forall good ts ->
  check_trees w k m ts [] [] = mapM (singleS m) ts.
Proof.
  intros He F. unfold check_trees. rewrite He.
  pose proof (world_wf w k upd_ok unit_ok unit_colour names_ok) as WF.
  set (sw := {| use_patterns := negb (m_nopatterns m) |}).
  change (if m_unsafe_ex m then empty G else steady_of G U) with (steady_of_mode m).
  assert (shaped (g_L G) (steady_of_mode m)) as SS.
  { unfold steady_of_mode. destruct (m_unsafe_ex m); [apply shaped_empty|].
    destruct WF. apply shaped_steady_of; assumption. }
  assert (ignores_copies G (steady_of_mode m)) as SC.
  { unfold steady_of_mode. destruct (m_unsafe_ex m);
      [apply empty_ignores_copies | eapply steady_of_ignores_copies; exact WF]. }
  assert (dups_ok ext_alnum ext (ctx_new (if m_nocache m then [] else mark_duplicates ts))) as DO.
  { destruct (m_nocache m); [intros k0 m0 [] |].
    apply mark_duplicates_dups_ok. eapply Forall_impl; [|exact F].
    intros t (_ & _ & _ & W & D). split; assumption. }
  destruct (eval_all_cacheS ext_alnum ext G (w_names w) sw U WF (steady_of_mode m) SS SC ts _ F
              (ctx_new_cache_okS ext_alnum ext G (w_names w) sw U (steady_of_mode m) _) DO)
    as (rs & E & F2).
  rewrite E. cbn [bind]. apply post_mapS, F2.
Qed.

Local Notation ctm := check_trees_mapS.

Theorem cache_mode_irrelevantS m m' ts :
  m_ext m = false -> m_ext m' = false -> m_unsafe_ex m = m_unsafe_ex m' ->
  m_sanitize m = m_sanitize m' -> m_nopatterns m = m_nopatterns m' ->
  List.Forall good ts ->
  check_trees w k m ts [] [] = check_trees w k m' ts [] [].
Proof.
  intros He He' Hu Hs Hp F. rewrite (ctm m ts He F), (ctm m' ts He' F).
  unfold singleS, steady_of_mode. rewrite Hs, Hp, Hu. reflexivity.
Qed.

Theorem batch_positionS m ts rs i dt dr :
  m_ext m = false -> List.Forall good ts ->
  check_trees w k m ts [] [] = Ok rs -> i < length ts ->
  check_trees w k m [nth i ts dt] [] [] = Ok [nth i rs dr].
Proof.
  intros He F H LT. rewrite (ctm m ts He F) in H.
  assert (good (nth i ts dt)) as GI by (rewrite Forall_forall in F; apply F, nth_In, LT).
  rewrite (ctm m [nth i ts dt] He (Forall_cons _ GI (Forall_nil _))).
  apply mapM_Forall2 in H. pose proof (Forall2_nth _ ts rs i dt dr H LT) as E.
  cbn [mapM]. rewrite E. reflexivity.
Qed.

Theorem batch_permutationS m ts ts' rs :
  m_ext m = false -> List.Forall good ts -> Permutation ts ts' ->
  check_trees w k m ts [] [] = Ok rs ->
  exists rs', check_trees w k m ts' [] [] = Ok rs'
              /\ Permutation (combine ts rs) (combine ts' rs').
Proof.
  intros He F PM H. rewrite (ctm m ts He F) in H.
  assert (List.Forall good ts') as F'.
  { rewrite Forall_forall in *. intros t IN. apply F.
    eapply Permutation_in; [apply Permutation_sym; exact PM | exact IN]. }
  rewrite (ctm m ts' He F'). exact (mapM_permutation (singleS m) (Leaf false) ts ts' rs PM H).
Qed.

Theorem batch_repetitionS m t ts r1 r2 rs :
  m_ext m = false -> List.Forall good (t :: t :: ts) ->
  check_trees w k m (t :: t :: ts) [] [] = Ok (r1 :: r2 :: rs) ->
  r1 = r2 /\ check_trees w k m (t :: ts) [] [] = Ok (r1 :: rs).
Proof.
  intros He F H. rewrite (ctm m _ He F) in H.
  assert (List.Forall good (t :: ts)) as F' by (inversion F; assumption).
  rewrite (ctm m _ He F'). apply mapM_Forall2 in H.
  inversion H as [|? ? ? ? E1 H']; subst. inversion H' as [|? ? ? ? E2 H'']; subst.
  split; [congruence|]. apply mapM_Forall2. constructor; assumption.
Qed.

End WorldS.

Theorem model_check_cache_mode_irrelevantS ea (w : world) k m m' ctx fs :
  List.Forall (shaped (Lpn (w_p w) (w_n w))) (w_upd w) ->
  shaped (Lpn (w_p w) (w_n w)) (w_unit w) ->
  (forall v v', (forall j, v (TP j) = v' (TP j)) ->
     mem (Lpn (w_p w) (w_n w)) (w_unit w) v = mem (Lpn (w_p w) (w_n w)) (w_unit w) v') ->
  length (w_names w) <= w_n w ->
  m_ext m = false -> m_ext m' = false -> m_unsafe_ex m = m_unsafe_ex m' ->
  m_sanitize m = m_sanitize m' -> m_nopatterns m = m_nopatterns m' ->
  model_check ea w k m ctx fs = model_check ea w k m' ctx fs.
Proof.
  intros H1 H2 H3 H4 He He' Hu Hs Hp. unfold model_check. rewrite He, He'.
  destruct (validate_all ea false (w_names w) k ctx fs) as [r| | |] eqn:V; try reflexivity.
  destruct (validate_all_good ea w k ctx fs r V) as (ts' & -> & F). cbn [bind fst snd].
  apply (cache_mode_irrelevantS ea false w k H1 H2 H3 H4); assumption.
Qed.
