(** The meaning of a closed formula does not read the spare copies.

    [sat] of a formula whose free variables are named by at most [d] characters 'x'
    ([depth_named d], the form produced by preprocessing) depends only on the colour, the
    state and the spare copies [0 .. d-1].  For [d = 0]: the set computed for a closed formula
    does not depend on any spare copy, hence [restrict not_extra] (the model of
    SymbolicContext::transfer_from in sanitize_colored_vertices) is defined on it. *)
From HCTL Require Import Base Syntax Preprocess Canon MarkDup TT Ops Eval Kripke HCTL.
From HCTL Require Import TTFacts OpsFacts SemFacts EvalPure Main PrepFacts.

Section Indep.
Variable G : genv.
Variable names : list str.
Variable Gamma : str -> val -> Prop.
Local Notation L := (g_L G).

Hypothesis upd_extras : forall i v w, (forall g, is_extra_tag g = false -> v g = w g) ->
  mem L (upd_of G i) v = mem L (upd_of G i) w.

(** same colour, same state, same spare copies below [d] *)
Definition agree_upto (d : nat) (v w : val) : Prop :=
  (forall g, is_extra_tag g = false -> v g = w g) /\
  (forall i e, e < d -> v (TX i e) = w (TX i e)).

Lemma agree_upto_sym d v w : agree_upto d v w -> agree_upto d w v.
Proof.
  intros [H1 H2]. split.
  - intros g Hg. symmetry. apply H1, Hg.
  - intros i e He. symmetry. apply H2, He.
Qed.

Lemma agree_enabled d v w i : agree_upto d v w -> enabled G i v = enabled G i w.
Proof.
  intros [H1 _]. unfold enabled. rewrite (upd_extras i v w H1).
  rewrite (H1 (TS i) eq_refl). reflexivity.
Qed.

Lemma agree_vsteady d v w : agree_upto d v w -> vsteady G v -> vsteady G w.
Proof.
  intros A S i Hi. rewrite <- (agree_enabled d v w i A). apply S, Hi.
Qed.

Lemma agree_vflip d v w i : agree_upto d v w -> agree_upto d (vflip (TS i) v) (vflip (TS i) w).
Proof.
  intros [H1 H2]. split.
  - intros g Hg. unfold vflip. rewrite (H1 g Hg). reflexivity.
  - intros j e He. unfold vflip. rewrite (H2 j e He). reflexivity.
Qed.

Lemma agree_set_copy d u u' v w : (forall i, u (TS i) = u' (TS i)) -> agree_upto d v w ->
  agree_upto (S d) (set_copy d u v) (set_copy d u' w).
Proof.
  intros Hu [H1 H2]. split.
  - intros g Hg. destruct g as [j|i|i e]; cbn [set_copy]; try (apply H1; exact Hg).
    discriminate Hg.
  - intros i e He. cbn [set_copy]. destruct (Nat.eqb_spec d e) as [EQ|NE]; [apply Hu|].
    apply H2. lia.
Qed.

Lemma agree_set_state d e v w : e < d -> agree_upto d v w ->
  agree_upto d (set_state e v) (set_state e w).
Proof.
  intros He [H1 H2]. split.
  - intros g Hg. destruct g as [j|i|i e']; cbn [set_state]; try (apply H1; exact Hg).
    apply H2, He.
  - intros i e' He'. cbn [set_state]. apply H2, He'.
Qed.

(** a predicate that only reads the colour, the state and the copies below [d] *)
Definition resp (d : nat) (P : val -> Prop) : Prop :=
  forall v w, agree_upto d v w -> P v -> P w.

(** ** the temporal operators preserve [resp] *)

Lemma EXs_transfer d (X Y : val -> Prop) v w : agree_upto d v w ->
  (forall v' w', agree_upto d v' w' -> X v' -> Y w') -> EXs G X v -> EXs G Y w.
Proof.
  intros A T [[i [Hi [En Xi]]] | [St Xv]].
  - left. exists i. split; [exact Hi|]. split.
    + rewrite <- (agree_enabled d v w i A). exact En.
    + eapply T; [apply agree_vflip, A | exact Xi].
  - right. split; [eapply agree_vsteady; eassumption | eapply T; eassumption].
Qed.

Lemma AXs_transfer d (X Y : val -> Prop) v w : agree_upto d v w ->
  (forall v' w', agree_upto d v' w' -> X v' -> Y w') -> AXs G X v -> AXs G Y w.
Proof.
  intros A T [Mv St]. split.
  - intros i Hi En. eapply T; [apply agree_vflip, A|]. apply Mv; [exact Hi|].
    rewrite (agree_enabled d v w i A). exact En.
  - intro Sw. eapply T; [exact A|]. apply St.
    eapply agree_vsteady; [apply agree_upto_sym, A | exact Sw].
Qed.

Lemma resp_EXs d P : resp d P -> resp d (EXs G P).
Proof. intros R v w A. apply (EXs_transfer d P P v w A R). Qed.

Lemma resp_AXs d P : resp d P -> resp d (AXs G P).
Proof. intros R v w A. apply (AXs_transfer d P P v w A R). Qed.

Lemma resp_EUs d P Q : resp d P -> resp d Q -> resp d (EUs G P Q).
Proof.
  intros RP RQ v w A H. revert w A.
  induction H as [v Qv | v i Pv Hi En _ IH]; intros w A.
  - apply EUs_here. eapply RQ; eassumption.
  - apply (EUs_step G P Q w i); [eapply RP; eassumption | exact Hi | |].
    + rewrite <- (agree_enabled d v w i A). exact En.
    + apply IH, agree_vflip, A.
Qed.

Lemma resp_AUs d P Q : resp d P -> resp d Q -> resp d (AUs G P Q).
Proof.
  intros RP RQ v w A H. revert w A.
  induction H as [v Qv | v Pv _ IHm _ IHs]; intros w A.
  - apply AUs_here. eapply RQ; eassumption.
  - apply AUs_step; [eapply RP; eassumption | |].
    + intros i Hi En. apply (IHm i Hi); [|apply agree_vflip, A].
      rewrite (agree_enabled d v w i A). exact En.
    + intro Sw. apply IHs; [|exact A].
      eapply agree_vsteady; [apply agree_upto_sym, A | exact Sw].
Qed.

(** greatest fixed points: close the witness under agreement *)
Definition closure (d : nat) (X : val -> Prop) (u : val) : Prop :=
  exists u', agree_upto d u' u /\ X u'.

Lemma closure_transfer d (X : val -> Prop) v' w' : agree_upto d v' w' -> X v' -> closure d X w'.
Proof. intros A Xv. exists v'. split; assumption. Qed.

Lemma resp_EGs d P : resp d P -> resp d (EGs G P).
Proof.
  intros RP v w A [X [Xv HX]]. exists (closure d X). split; [exists v; split; assumption|].
  intros u [u' [Au Xu']]. destruct (HX u' Xu') as [Pu' Eu']. split; [eapply RP; eassumption|].
  eapply EXs_transfer; [exact Au | apply closure_transfer | exact Eu'].
Qed.

Lemma resp_AGs d P : resp d P -> resp d (AGs G P).
Proof.
  intros RP v w A [X [Xv HX]]. exists (closure d X). split; [exists v; split; assumption|].
  intros u [u' [Au Xu']]. destruct (HX u' Xu') as [Pu' Eu']. split; [eapply RP; eassumption|].
  eapply AXs_transfer; [exact Au | apply closure_transfer | exact Eu'].
Qed.

Lemma resp_EWs d P Q : resp d P -> resp d Q -> resp d (EWs G P Q).
Proof.
  intros RP RQ v w A [X [Xv HX]]. exists (closure d X). split; [exists v; split; assumption|].
  intros u [u' [Au Xu']]. destruct (HX u' Xu') as [Qu' | [Pu' Eu']].
  - left. eapply RQ; eassumption.
  - right. split; [eapply RP; eassumption|].
    eapply EXs_transfer; [exact Au | apply closure_transfer | exact Eu'].
Qed.

Lemma resp_AWs d P Q : resp d P -> resp d Q -> resp d (AWs G P Q).
Proof.
  intros RP RQ v w A [X [Xv HX]]. exists (closure d X). split; [exists v; split; assumption|].
  intros u [u' [Au Xu']]. destruct (HX u' Xu') as [Qu' | [Pu' Eu']].
  - left. eapply RQ; eassumption.
  - right. split; [eapply RP; eassumption|].
    eapply AXs_transfer; [exact Au | apply closure_transfer | exact Eu'].
Qed.

(** ** formulae *)

Lemma var_of_xs_some j e : var_of G (xs (S j)) = Some e -> e = j.
Proof.
  unfold xs. cbn [repeat_n var_of]. rewrite repeat_n_length.
  destruct (Nat.ltb j (g_k G)); [|discriminate]. intro H. injection H as <-. reflexivity.
Qed.

Theorem sat_resp : forall t d, plainf t -> depth_named d t -> resp d (sat G names Gamma t).
Proof.
  induction t as [a | o a IH | o a IHa b IHb | o x dm a IH]; intros d Hpl Hdn.
  - destruct a as [nm | x | | | l]; cbn [plainf depth_named] in Hpl, Hdn; intros v w A;
      cbn [sat]; try tauto.
    + intros [i [Hi Hv]]. exists i. split; [exact Hi|].
      rewrite <- (proj1 A (TS i) eq_refl). exact Hv.
    + destruct Hdn as [j [Hj ->]]. intros [e [He Hc]]. exists e. split; [exact He|].
      apply var_of_xs_some in He. subst e. intros i Hi.
      rewrite <- (proj2 A i j Hj), <- (proj1 A (TS i) eq_refl). apply Hc, Hi.
  - cbn [plainf depth_named] in Hpl, Hdn. pose proof (IH d Hpl Hdn) as R.
    destruct o; cbn [sat].
    + intros v w A Hn Hs. apply Hn. eapply R; [apply agree_upto_sym, A | exact Hs].
    + apply resp_EXs, R.
    + apply resp_AXs, R.
    + apply resp_EUs; [intros ? ? _ _; exact I | exact R].
    + apply resp_AUs; [intros ? ? _ _; exact I | exact R].
    + apply resp_EGs, R.
    + apply resp_AGs, R.
  - cbn [plainf depth_named] in Hpl, Hdn. destruct Hpl as [Hpa Hpb]. destruct Hdn as [Hda Hdb].
    pose proof (IHa d Hpa Hda) as Ra. pose proof (IHb d Hpb Hdb) as Rb.
    assert (Ra' : forall v w, agree_upto d v w -> sat G names Gamma a w -> sat G names Gamma a v).
    { intros v w A. apply Ra, agree_upto_sym, A. }
    assert (Rb' : forall v w, agree_upto d v w -> sat G names Gamma b w -> sat G names Gamma b v).
    { intros v w A. apply Rb, agree_upto_sym, A. }
    destruct o; cbn [sat].
    + intros v w A [H1 H2]. split; [eapply Ra | eapply Rb]; eassumption.
    + intros v w A [H1 | H2]; [left; eapply Ra | right; eapply Rb]; eassumption.
    + intros v w A Hn Hiff. apply Hn. split; intro Hs.
      * eapply Rb'; [exact A|]. apply Hiff. eapply Ra; eassumption.
      * eapply Ra'; [exact A|]. apply Hiff. eapply Rb; eassumption.
    + intros v w A Himp Hs. eapply Rb; [exact A|]. apply Himp. eapply Ra'; eassumption.
    + intros v w A Hiff. split; intro Hs.
      * eapply Rb; [exact A|]. apply Hiff. eapply Ra'; eassumption.
      * eapply Ra; [exact A|]. apply Hiff. eapply Rb'; eassumption.
    + apply resp_EUs; assumption.
    + apply resp_AUs; assumption.
    + apply resp_EWs; assumption.
    + apply resp_AWs; assumption.
  - cbn [plainf] in Hpl. destruct Hpl as [-> Hpa]. cbn [depth_named] in Hdn.
    destruct o; cbn [is_quantifier] in Hdn; cbn [sat dom].
    + (* bind *)
      destruct Hdn as [-> Hda]. pose proof (IH (S d) Hpa Hda) as R.
      intros v w A [e [He [_ Hs]]]. exists e. split; [exact He|]. split; [exact I|].
      apply var_of_xs_some in He. subst e.
      eapply R; [|exact Hs]. apply agree_set_copy; [|exact A].
      intro i. apply (proj1 A (TS i) eq_refl).
    + (* jump *)
      destruct Hdn as [[j [Hj ->]] Hda]. pose proof (IH d Hpa Hda) as R.
      intros v w A [e [He Hs]]. exists e. split; [exact He|].
      apply var_of_xs_some in He. subst e.
      eapply R; [|exact Hs]. apply agree_set_state; assumption.
    + (* exists *)
      destruct Hdn as [-> Hda]. pose proof (IH (S d) Hpa Hda) as R.
      intros v w A [e [He [u [_ Hs]]]]. exists e. split; [exact He|]. exists u. split; [exact I|].
      apply var_of_xs_some in He. subst e.
      eapply R; [|exact Hs]. apply agree_set_copy; [reflexivity | exact A].
    + (* forall *)
      destruct Hdn as [-> Hda]. pose proof (IH (S d) Hpa Hda) as R.
      intros v w A [e [He Hs]]. exists e. split; [exact He|]. intros u _.
      apply var_of_xs_some in He. subst e.
      eapply R; [|exact (Hs u I)]. apply agree_set_copy; [reflexivity | exact A].
Qed.

End Indep.

(** ** sets: the result of a closed formula is defined on the canonical context *)

Lemma restrict_keep_defined keep : forall L r, NoDup L -> shaped L r ->
  (forall v w, (forall g, keep g = true -> v g = w g) -> mem L r v = mem L r w) ->
  exists s, restrict keep L r = Some s.
Proof.
  induction L as [|h L IH]; intros r ND SH IND.
  - destruct r; cbn [restrict]; eexists; reflexivity.
  - destruct r as [b|lo hi]; [cbn [shaped] in SH; contradiction|].
    cbn [shaped] in SH. destruct SH as [Slo Shi].
    inversion ND as [|? ? Hnotin ND']; subst.
    assert (INDb : forall (b : bool) (v w : val), (forall g, keep g = true -> v g = w g) ->
              mem L (if b then hi else lo) v = mem L (if b then hi else lo) w).
    { intros b v w Hvw.
      assert (A : forall g, keep g = true -> upd v h b g = upd w h b g).
      { intros g Kg. unfold upd. destruct (tag_eqb g h); [reflexivity | apply Hvw, Kg]. }
      pose proof (IND _ _ A) as E. cbn [mem] in E. rewrite !upd_same in E.
      rewrite !mem_upd_notin in E by assumption. exact E. }
    cbn [restrict]. destruct (keep h) eqn:K.
    + destruct (IH lo ND' Slo (INDb false)) as [a ->].
      destruct (IH hi ND' Shi (INDb true)) as [b ->]. eexists; reflexivity.
    + assert (E : lo = hi).
      { apply (tt_ext L); try assumption. intro v.
        assert (A : forall g, keep g = true -> upd v h false g = upd v h true g).
        { intros g Kg. unfold upd. destruct (tag_eqb g h) eqn:T; [|reflexivity].
          apply tag_eqb_eq in T. subst g. congruence. }
        pose proof (IND _ _ A) as E. cbn [mem] in E. rewrite !upd_same in E.
        rewrite !mem_upd_notin in E by assumption. exact E. }
      subst hi. rewrite tt_eqb_refl. apply (IH lo ND' Slo (INDb false)).
Qed.

Section Closed.
Variable G : genv.
Variable names : list str.
Variable U : tt.
Hypothesis WF : wf_env G names U.
Local Notation L := (g_L G).

(** the set computed for a closed formula does not depend on the spare copies *)
Theorem closed_result_indep sw t R : plainf t -> supported G t -> depth_named 0 t ->
  peval G names sw (steady_of G U) t U = Ok R ->
  forall v w, (forall g, is_extra_tag g = false -> v g = w g) -> mem L R v = mem L R w.
Proof.
  intros Hpl Hsup Hdn HR v w Hvw.
  destruct (peval_correct G names U WF (fun _ _ => True) sw t R Hpl Hsup HR) as [_ SP].
  assert (A : agree_upto 0 v w) by (split; [exact Hvw | intros; lia]).
  assert (UE : mem L U v = mem L U w).
  { apply (wf_U_colour G names U WF). intro j. apply Hvw. reflexivity. }
  pose proof (sat_resp G names (fun _ _ => True) (wf_upd_extras G names U WF) t 0 Hpl Hdn) as RS.
  destruct (mem L R v) eqn:Ev; destruct (mem L R w) eqn:Ew; try reflexivity.
  - apply SP in Ev. destruct Ev as [Uv Sv].
    assert (X : mem L R w = true).
    { apply SP. split; [rewrite <- UE; exact Uv | eapply RS; eassumption]. }
    congruence.
  - apply SP in Ew. destruct Ew as [Uw Sw].
    assert (X : mem L R v = true).
    { apply SP. split; [rewrite UE; exact Uw|].
      eapply RS; [apply agree_upto_sym, A | exact Sw]. }
    congruence.
Qed.

(** ... so it can be transferred into the canonical context *)
Theorem closed_result_restrict sw t R : plainf t -> supported G t -> depth_named 0 t ->
  peval G names sw (steady_of G U) t U = Ok R ->
  exists s, restrict (fun g => negb (is_extra_tag g)) L R = Some s.
Proof.
  intros Hpl Hsup Hdn HR. apply restrict_keep_defined.
  - apply (wf_nodup G names U WF).
  - destruct (peval_correct G names U WF (fun _ _ => True) sw t R Hpl Hsup HR) as [SH _].
    exact SH.
  - intros v w Hvw. eapply closed_result_indep; try eassumption.
    intros g Hg. apply Hvw. rewrite Hg. reflexivity.
Qed.

End Closed.
