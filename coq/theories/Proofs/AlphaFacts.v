(** Alpha-invariance of preprocessing (property C08, part 1).

    [prep] is, up to the error "re-quantified variable", a function of the de Bruijn normal
    form [db] of the tree (PrepFacts.v) and of the number of enclosing quantifiers:

      prep props ren (xs (length scope)) t  =  dprep props (length scope) (db scope t)
                                            \/ = Err ERequantified.

    [dprep] is the preprocessing of de Bruijn forms defined below; it never answers
    [ERequantified] -- that error is the only outcome of [prep] that is not alpha-invariant
    ([db] forgets the bound names, so it cannot see that an inner quantifier re-uses the name
    of an enclosing one). *)
From HCTL Require Import Base Syntax Preprocess.
From HCTL Require Import PrepFacts.

(** * Preprocessing of de Bruijn forms *)

(** the name given to a de Bruijn variable below [n] quantifiers *)
Definition dvar_name (n : nat) (v : dvar) : str :=
  match v with
  | DBound i => xs (n - i)
  | DFree x => x
  end.

(** the tree named by depth, as a function of the de Bruijn form only *)
Fixpoint dname (n : nat) (d : dtree) : tree :=
  match d with
  | DVar v => Terminal (AVar (dvar_name n v))
  | DProp p => Terminal (AProp p)
  | DTrue => Terminal ATrue
  | DFalse => Terminal AFalse
  | DWild w => Terminal (AWild w)
  | DUnary o c => Unary o (dname n c)
  | DBinary o l r => Binary o (dname n l) (dname n r)
  | DQuant o dd c => Hybrid o (xs (S n)) dd (dname (S n) c)
  | DJump v dd c => Hybrid Jump (dvar_name n v) dd (dname n c)
  end.

(** validation and naming in the traversal order of [prep]: the first unknown proposition
    or free variable decides the error *)
Fixpoint dprep (props : list str) (n : nat) (d : dtree) : res tree :=
  match d with
  | DVar (DBound i) => Ok (Terminal (AVar (xs (n - i))))
  | DVar (DFree _) => Err EFreeVar
  | DProp p => if existsb (str_eqb p) props then Ok (Terminal (AProp p)) else Err EUnknownProp
  | DTrue => Ok (Terminal ATrue)
  | DFalse => Ok (Terminal AFalse)
  | DWild w => Ok (Terminal (AWild w))
  | DUnary o c => let* c' := dprep props n c in Ok (Unary o c')
  | DBinary o l r =>
      let* l' := dprep props n l in
      let* r' := dprep props n r in
      Ok (Binary o l' r')
  | DQuant o dd c => let* c' := dprep props (S n) c in Ok (Hybrid o (xs (S n)) dd c')
  | DJump v dd c =>
      let* c' := dprep props n c in
      match v with
      | DBound i => Ok (Hybrid Jump (xs (n - i)) dd c')
      | DFree _ => Err EFreeVar
      end
  end.

(** closed de Bruijn forms over known propositions *)
Fixpoint dclosed (props : list str) (d : dtree) : Prop :=
  match d with
  | DVar (DBound _) => True
  | DVar (DFree _) => False
  | DProp p => In p props
  | DTrue | DFalse | DWild _ => True
  | DUnary _ c => dclosed props c
  | DBinary _ l r => dclosed props l /\ dclosed props r
  | DQuant _ _ c => dclosed props c
  | DJump v _ c => dclosed props c /\ match v with DBound _ => True | DFree _ => False end
  end.

(** no quantifier binds a name that is already in scope *)
Fixpoint no_requant (scope : list str) (t : tree) : Prop :=
  match t with
  | Terminal _ => True
  | Unary _ c => no_requant scope c
  | Binary _ l r => no_requant scope l /\ no_requant scope r
  | Hybrid o x _ c =>
      if is_quantifier o then ~ In x scope /\ no_requant (x :: scope) c
      else no_requant scope c
  end.

Lemma not_quantifier_jump (o : hybop) : is_quantifier o = false -> o = Jump.
Proof. destruct o; cbn [is_quantifier]; intro H; try discriminate H; reflexivity. Qed.

(** * [rename] depends on the de Bruijn form only *)

Lemma rename_var_dref (scope : list str) (x : str) :
  rename_var scope x = dvar_name (length scope) (dref scope x).
Proof. unfold rename_var, dref. destruct (index x scope) as [i|]; reflexivity. Qed.

Theorem rename_dname (t : tree) :
  forall scope, rename scope t = dname (length scope) (db scope t).
Proof.
  induction t as [a | o c IH | o l IHl r IHr | o x d c IH]; intro scope; cbn [rename db].
  - destruct a as [p | x | | | w]; cbn [dname]; try reflexivity.
    rewrite rename_var_dref. reflexivity.
  - cbn [dname]. rewrite IH. reflexivity.
  - cbn [dname]. rewrite IHl, IHr. reflexivity.
  - destruct (is_quantifier o) eqn:Q; cbn [dname].
    + rewrite (IH (x :: scope)). reflexivity.
    + rewrite (not_quantifier_jump o Q), rename_var_dref, IH. reflexivity.
Qed.

Theorem rename_alpha (t1 t2 : tree) (s1 s2 : list str) :
  length s1 = length s2 -> db s1 t1 = db s2 t2 -> rename s1 t1 = rename s2 t2.
Proof. intros LEN E. rewrite !rename_dname, LEN, E. reflexivity. Qed.

(** * Well-scopedness = no re-quantification + closed de Bruijn form *)

Lemma dref_bound_in (scope : list str) (x : str) :
  (match dref scope x with DBound _ => True | DFree _ => False end) <-> In x scope.
Proof.
  unfold dref. destruct (index x scope) as [i|] eqn:I.
  - split; [intros _; apply (index_some x scope i I) | intros _; exact Logic.I].
  - split; [intros [] | intro IN; exact (index_none x scope I IN)].
Qed.

Theorem well_scoped_iff (props : list str) (t : tree) :
  forall scope,
    well_scoped props scope t <-> no_requant scope t /\ dclosed props (db scope t).
Proof.
  induction t as [a | o c IH | o l IHl r IHr | o x d c IH]; intro scope;
    cbn [well_scoped no_requant db].
  - destruct a as [p | x | | | w]; cbn [dclosed]; try tauto.
    pose proof (dref_bound_in scope x) as B. cbn [dclosed].
    destruct (dref scope x); tauto.
  - cbn [dclosed]. apply IH.
  - cbn [dclosed]. rewrite (IHl scope), (IHr scope). tauto.
  - destruct (is_quantifier o) eqn:Q; cbn [dclosed].
    + rewrite (IH (x :: scope)). tauto.
    + rewrite (IH scope). pose proof (dref_bound_in scope x) as B. tauto.
Qed.

(** * [prep] factors through the de Bruijn form, up to [ERequantified] *)

Lemma dprep_dname (props : list str) (d : dtree) :
  forall n t', dprep props n d = Ok t' -> t' = dname n d.
Proof.
  induction d as [v | p | | | w | o c IH | o l IHl r IHr | o dd c IH | v dd c IH];
    intros n t' H; cbn [dprep] in H; cbn [dname].
  - destruct v as [i | x]; [|discriminate H]. injection H as <-. reflexivity.
  - destruct (existsb (str_eqb p) props); [|discriminate H]. injection H as <-. reflexivity.
  - injection H as <-. reflexivity.
  - injection H as <-. reflexivity.
  - injection H as <-. reflexivity.
  - case_bind H c' Hc. injection H as <-. rewrite (IH n c' Hc). reflexivity.
  - case_bind H l' Hl. case_bind H r' Hr. injection H as <-.
    rewrite (IHl n l' Hl), (IHr n r' Hr). reflexivity.
  - case_bind H c' Hc. injection H as <-. rewrite (IH (S n) c' Hc). reflexivity.
  - case_bind H c' Hc. destruct v as [i | x]; [|discriminate H]. injection H as <-.
    rewrite (IH n c' Hc). reflexivity.
Qed.

Lemma bind_err {A B} (r : res A) (k : A -> res B) (e : errkind) :
  bind r k = Err e -> r = Err e \/ exists a, r = Ok a /\ k a = Err e.
Proof.
  destruct r as [a | e' | p |]; cbn [bind]; intro H; try discriminate H.
  - right. exists a. split; [reflexivity | exact H].
  - left. injection H as ->. reflexivity.
Qed.

Lemma dprep_never_requantified (props : list str) (d : dtree) :
  forall n, dprep props n d <> Err ERequantified.
Proof.
  induction d as [v | p | | | w | o c IH | o l IHl r IHr | o dd c IH | v dd c IH];
    intros n H; cbn [dprep] in H.
  - destruct v; discriminate H.
  - destruct (existsb (str_eqb p) props); discriminate H.
  - discriminate H.
  - discriminate H.
  - discriminate H.
  - apply bind_err in H. destruct H as [H | [c' [_ H]]]; [exact (IH n H) | discriminate H].
  - apply bind_err in H. destruct H as [H | [l' [_ H]]]; [exact (IHl n H)|].
    apply bind_err in H. destruct H as [H | [r' [_ H]]]; [exact (IHr n H) | discriminate H].
  - apply bind_err in H. destruct H as [H | [c' [_ H]]]; [exact (IH (S n) H) | discriminate H].
  - apply bind_err in H. destruct H as [H | [c' [_ H]]]; [exact (IH n H)|].
    destruct v; discriminate H.
Qed.

Lemma ren_inv_alookup_dref (scope : list str) (ren : list (str * str)) (x : str) :
  ren_inv scope ren ->
  alookup str_eqb x ren
  = match dref scope x with DBound i => Some (xs (length scope - i)) | DFree _ => None end.
Proof.
  intro INV. rewrite INV. unfold dref. destruct (index x scope); reflexivity.
Qed.

(** the general statement: for every tree, under the invariant of the map *)
Theorem prep_factors (props : list str) (t : tree) :
  forall scope ren,
    ren_inv scope ren ->
    prep props ren (xs (length scope)) t = dprep props (length scope) (db scope t)
    \/ prep props ren (xs (length scope)) t = Err ERequantified.
Proof.
  induction t as [a | o c IH | o l IHl r IHr | o x d c IH]; intros scope ren INV;
    cbn [prep db].
  - left. destruct a as [p | x | | | w]; cbn [dprep]; try reflexivity.
    rewrite (ren_inv_alookup_dref scope ren x INV). destruct (dref scope x); reflexivity.
  - cbn [dprep]. destruct (IH scope ren INV) as [-> | ->]; [left | right]; reflexivity.
  - cbn [dprep]. destruct (IHl scope ren INV) as [-> | ->]; [|right; reflexivity].
    destruct (dprep props (length scope) (db scope l)); cbn [bind];
      try (left; reflexivity).
    destruct (IHr scope ren INV) as [-> | ->]; [left | right]; reflexivity.
  - destruct (is_quantifier o) eqn:Q; cbn [dprep].
    + destruct (amem str_eqb x ren) eqn:M; [right; reflexivity|].
      rewrite xs_snoc.
      match goal with
      | |- (bind ?p _ = _) \/ _ =>
          assert (p = dprep props (S (length scope)) (db (x :: scope) c)
                  \/ p = Err ERequantified) as [E | E]
            by exact (IH (x :: scope) _ (ren_inv_push scope ren x INV));
          rewrite E; [left | right]; reflexivity
      end.
    + destruct (IH scope ren INV) as [-> | ->]; [|right; reflexivity].
      left. rewrite (ren_inv_alookup_dref scope ren x INV), (not_quantifier_jump o Q).
      destruct (dprep props (length scope) (db scope c)); cbn [bind]; try reflexivity.
      destruct (dref scope x); reflexivity.
Qed.

(** without re-quantification [prep] is exactly [dprep] of the de Bruijn form *)
Theorem prep_factors_exact (props : list str) (t : tree) :
  forall scope ren,
    ren_inv scope ren -> no_requant scope t ->
    prep props ren (xs (length scope)) t = dprep props (length scope) (db scope t).
Proof.
  induction t as [a | o c IH | o l IHl r IHr | o x d c IH]; intros scope ren INV NR;
    cbn [no_requant] in NR; cbn [prep db].
  - destruct a as [p | x | | | w]; cbn [dprep]; try reflexivity.
    rewrite (ren_inv_alookup_dref scope ren x INV). destruct (dref scope x); reflexivity.
  - cbn [dprep]. rewrite (IH scope ren INV NR). reflexivity.
  - destruct NR as [NRl NRr]. cbn [dprep].
    rewrite (IHl scope ren INV NRl), (IHr scope ren INV NRr). reflexivity.
  - destruct (is_quantifier o) eqn:Q; cbn [dprep].
    + destruct NR as [NIN NR].
      apply (ren_inv_amem scope ren x INV) in NIN. rewrite NIN, xs_snoc.
      match goal with
      | |- bind ?p _ = _ =>
          assert (p = dprep props (S (length scope)) (db (x :: scope) c)) as E
            by exact (IH (x :: scope) _ (ren_inv_push scope ren x INV) NR);
          rewrite E; reflexivity
      end.
    + rewrite (IH scope ren INV NR).
      rewrite (ren_inv_alookup_dref scope ren x INV), (not_quantifier_jump o Q).
      destruct (dprep props (length scope) (db scope c)); cbn [bind]; try reflexivity.
      destruct (dref scope x); reflexivity.
Qed.

(** * Top level *)

Theorem preprocess_factors (props : list str) (t : tree) :
  preprocess props t = dprep props 0 (db [] t) \/ preprocess props t = Err ERequantified.
Proof. exact (prep_factors props t [] [] ren_inv_nil). Qed.

Theorem preprocess_factors_exact (props : list str) (t : tree) :
  no_requant [] t -> preprocess props t = dprep props 0 (db [] t).
Proof. exact (prep_factors_exact props t [] [] ren_inv_nil). Qed.

Theorem preprocess_not_requantified (props : list str) (t : tree) :
  no_requant [] t -> preprocess props t <> Err ERequantified.
Proof.
  intros NR H. rewrite (preprocess_factors_exact props t NR) in H.
  exact (dprep_never_requantified props _ 0 H).
Qed.

(** alpha-equivalent trees are preprocessed to the same outcome, unless one of them is
    rejected for re-quantifying a variable *)
Theorem preprocess_alpha_general (props : list str) (t1 t2 : tree) :
  db [] t1 = db [] t2 ->
  preprocess props t1 = preprocess props t2
  \/ preprocess props t1 = Err ERequantified
  \/ preprocess props t2 = Err ERequantified.
Proof.
  intro E.
  destruct (preprocess_factors props t1) as [E1 | E1]; [|right; left; exact E1].
  destruct (preprocess_factors props t2) as [E2 | E2]; [|right; right; exact E2].
  left. rewrite E1, E2, E. reflexivity.
Qed.

(** ... hence to the same outcome (same tree or same error class) when neither of them
    re-quantifies *)
Theorem preprocess_alpha_invariant (props : list str) (t1 t2 : tree) :
  db [] t1 = db [] t2 -> no_requant [] t1 -> no_requant [] t2 ->
  preprocess props t1 = preprocess props t2.
Proof.
  intros E NR1 NR2.
  rewrite (preprocess_factors_exact props t1 NR1), (preprocess_factors_exact props t2 NR2), E.
  reflexivity.
Qed.

Lemma well_scoped_no_requant (props : list str) (t : tree) (scope : list str) :
  well_scoped props scope t -> no_requant scope t.
Proof. intro WS. apply (well_scoped_iff props t scope), WS. Qed.

(** acceptance transfers along alpha-equivalence to every tree that does not re-quantify *)
Theorem preprocess_alpha_ok (props : list str) (t1 t2 t' : tree) :
  db [] t1 = db [] t2 -> no_requant [] t2 ->
  preprocess props t1 = Ok t' -> preprocess props t2 = Ok t'.
Proof.
  intros E NR2 H. pose proof H as WS. apply preprocess_ok_iff in WS. destruct WS as [WS _].
  rewrite <- H. symmetry. apply preprocess_alpha_invariant; try assumption.
  exact (well_scoped_no_requant props t1 [] WS).
Qed.

(** both accepted: the same tree, whatever the names were *)
Theorem preprocess_alpha_ok_ok (props : list str) (t1 t2 t1' t2' : tree) :
  db [] t1 = db [] t2 ->
  preprocess props t1 = Ok t1' -> preprocess props t2 = Ok t2' -> t1' = t2'.
Proof.
  intros E H1 H2.
  apply preprocess_ok_iff in H1. destruct H1 as [_ ->].
  apply preprocess_ok_iff in H2. destruct H2 as [_ ->].
  apply rename_alpha; [reflexivity | exact E].
Qed.

(** the side condition cannot be dropped: [db] forgets names, re-quantification does not *)
Definition requant_example_1 : tree :=
  Hybrid Bind [c_x] None (Hybrid Bind [c_x] None (Terminal (AVar [c_x]))).
Definition requant_example_2 : tree :=
  Hybrid Bind [c_x] None (Hybrid Bind [c_x; c_x] None (Terminal (AVar [c_x; c_x]))).

Theorem preprocess_alpha_requant_counterexample (props : list str) :
  db [] requant_example_1 = db [] requant_example_2
  /\ preprocess props requant_example_1 = Err ERequantified
  /\ preprocess props requant_example_2 = Ok requant_example_2.
Proof. repeat split; reflexivity. Qed.
