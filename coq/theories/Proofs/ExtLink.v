(** eval_node, driven with a context whose duplicate counters and cache contain exactly the
    wild-card propositions (what extend_context builds on an empty context), IS the cache-free
    evaluator [peval_ext] with the cached sets as wild-card sets and the context's domain sets
    as domains. *)
From HCTL Require Import Base Syntax Canon MarkDup TT Ops Eval.
From HCTL Require Import TTFacts EvalPure ExtEval.

(** ---- canonisation: the first character is kept; plain labels are kept entirely ---- *)
Lemma canon_loop_prefix : forall fuel cs ren out cnt depth,
  exists s, fst (canon_loop fuel cs ren out cnt depth) = rev out ++ s.
Proof.
  induction fuel as [|f IH]; intros cs ren out cnt depth; cbn [canon_loop].
  - exists []. cbn [fst]. rewrite app_nil_r. reflexivity.
  - destruct cs as [|c rest]; [exists []; cbn [fst]; rewrite app_nil_r; reflexivity|].
    destruct (N.eqb c c_lpar).
    { destruct (IH rest ren (c :: out) cnt (S depth)) as [s E]. rewrite E.
      cbn [rev]. rewrite <- app_assoc. eexists; reflexivity. }
    destruct (N.eqb c c_rpar).
    { destruct depth as [|d].
      - cbn [fst rev]. eexists; reflexivity.
      - destruct (IH rest ren (c :: out) cnt d) as [s E]. rewrite E.
        cbn [rev]. rewrite <- app_assoc. eexists; reflexivity. }
    destruct ((N.eqb c c_bang || N.eqb c c_three || N.eqb c c_V)
              && match rest with c2 :: _ => N.eqb c2 c_lbrace | [] => false end).
    { destruct (read_to_rbrace (tl rest)) as [name rest'].
      match goal with |- context [canon_loop f rest' ?r ?o ?n ?d] =>
        destruct (IH rest' r o n d) as [s E] end.
      rewrite E. rewrite rev_app_distr, rev_involutive, <- app_assoc. eexists; reflexivity. }
    destruct (N.eqb c c_lbrace).
    { destruct (read_to_rbrace rest) as [name rest'].
      destruct (alookup str_eqb name ren) as [cn|].
      - match goal with |- context [canon_loop f rest' ?r ?o ?n ?d] =>
          destruct (IH rest' r o n d) as [s E] end.
        rewrite E. rewrite rev_app_distr, rev_involutive, <- app_assoc. eexists; reflexivity.
      - match goal with |- context [canon_loop f rest' ?r ?o ?n ?d] =>
          destruct (IH rest' r o n d) as [s E] end.
        rewrite E. rewrite rev_app_distr, rev_involutive, <- app_assoc. eexists; reflexivity. }
    destruct (IH rest ren (c :: out) cnt depth) as [s E]. rewrite E.
    cbn [rev]. rewrite <- app_assoc. eexists; reflexivity.
Qed.

(** the canonical text starts with the character the text starts with *)
Lemma canon_loop_head f c rest ren cnt depth :
  exists s, fst (canon_loop (S f) (c :: rest) ren [] cnt depth) = c :: s.
Proof.
  cbn [canon_loop].
  destruct (N.eqb c c_lpar) eqn:E1.
  { destruct (canon_loop_prefix f rest ren [c] cnt (S depth)) as [s E]. rewrite E.
    eexists; reflexivity. }
  destruct (N.eqb c c_rpar) eqn:E2.
  { destruct depth as [|d].
    - eexists; reflexivity.
    - destruct (canon_loop_prefix f rest ren [c] cnt d) as [s E]. rewrite E.
      eexists; reflexivity. }
  destruct ((N.eqb c c_bang || N.eqb c c_three || N.eqb c c_V)
            && match rest with c2 :: _ => N.eqb c2 c_lbrace | [] => false end).
  { destruct (read_to_rbrace (tl rest)) as [name rest'].
    match goal with |- context [canon_loop f rest' ?r ?o ?n ?d] =>
      destruct (canon_loop_prefix f rest' r o n d) as [s E] end.
    rewrite E. rewrite app_nil_r, rev_involutive. eexists; reflexivity. }
  destruct (N.eqb c c_lbrace) eqn:E4.
  { apply N.eqb_eq in E4. subst c.
    destruct (read_to_rbrace rest) as [name rest'].
    destruct (alookup str_eqb name ren) as [cn|];
    match goal with |- context [canon_loop f rest' ?r ?o ?n ?d] =>
      destruct (canon_loop_prefix f rest' r o n d) as [s E] end;
    rewrite E; rewrite app_nil_r, rev_involutive; eexists; reflexivity. }
  destruct (canon_loop_prefix f rest ren [c] cnt depth) as [s E]. rewrite E.
  eexists; reflexivity.
Qed.

Lemma canonize_head c rest : exists s, fst (canonize (c :: rest)) = c :: s.
Proof. unfold canonize. cbn [length]. apply canon_loop_head. Qed.

(** characters the canonisation reacts to *)
Definition canon_inert (c : N) : bool :=
  negb (N.eqb c c_lpar || N.eqb c c_rpar || N.eqb c c_lbrace).

Lemma canon_loop_inert : forall cs fuel ren out cnt depth,
  forallb canon_inert cs = true -> length cs <= fuel ->
  canon_loop fuel cs ren out cnt depth = (rev out ++ cs, ren).
Proof.
  induction cs as [|c rest IH]; intros fuel ren out cnt depth Hin Hf.
  - destruct fuel; cbn [canon_loop]; rewrite app_nil_r; reflexivity.
  - destruct fuel as [|f]; [cbn [length] in Hf; lia|].
    cbn [forallb] in Hin. apply andb_true_iff in Hin. destruct Hin as [Hc Hrest].
    unfold canon_inert in Hc. apply negb_true_iff in Hc.
    apply orb_false_iff in Hc. destruct Hc as [Hc H3]. apply orb_false_iff in Hc.
    destruct Hc as [H1 H2].
    cbn [canon_loop]. rewrite H1, H2, H3.
    assert (NB : match rest with c2 :: _ => N.eqb c2 c_lbrace | [] => false end = false).
    { destruct rest as [|c2 r]; [reflexivity|]. cbn [forallb] in Hrest.
      apply andb_true_iff in Hrest. destruct Hrest as [Hc2 _].
      unfold canon_inert in Hc2. apply negb_true_iff in Hc2.
      apply orb_false_iff in Hc2. tauto. }
    rewrite NB, andb_false_r.
    rewrite IH by (try assumption; cbn [length] in Hf; lia).
    cbn [rev]. rewrite <- app_assoc. reflexivity.
Qed.

(** a wild-card label without parentheses and braces is its own canonical form *)
Lemma canonize_plain_label p : forallb canon_inert p = true ->
  canonize (c_pct :: p ++ [c_pct]) = (c_pct :: p ++ [c_pct], []).
Proof.
  intro H. unfold canonize.
  rewrite canon_loop_inert; [reflexivity| |lia].
  cbn [forallb]. rewrite forallb_app, H. reflexivity.
Qed.

Lemma canon_domains_nil fd : forall acc, canon_domains fd [] acc = acc.
Proof.
  induction fd as [|[v d] fd IH]; intro acc; cbn [canon_domains alookup]; auto.
Qed.

(** ---- formulae for which the link holds ---- *)
Fixpoint linkable (t : tree) : Prop :=
  match t with
  | Terminal (AProp nm) => forall r, nm <> c_pct :: r
  | Terminal (AWild p) => canonize (c_pct :: p ++ [c_pct]) = (c_pct :: p ++ [c_pct], [])
  | Terminal _ => True
  | Unary _ a => linkable a
  | Binary _ a b => linkable a /\ linkable b
  | Hybrid _ _ _ a => linkable a
  end.

(** the rendered text of a node that is not a wild-card does not start with '%' *)
Lemma render_head t : linkable t -> is_wild_terminal t = false ->
  forall r, fst (canonize (render t)) <> c_pct :: r.
Proof.
  intros Hl Hw r.
  assert (Hd : forall c rest, render t = c :: rest -> c <> c_pct ->
               fst (canonize (render t)) <> c_pct :: r).
  { intros c rest E Hc. rewrite E. destruct (canonize_head c rest) as [s Es]. rewrite Es.
    intro X. injection X as X _. contradiction. }
  destruct t as [a|o a|o a b|o x d a].
  - destruct a as [nm|x| | |l]; cbn [render atom_str].
    + cbn [linkable] in Hl. destruct nm as [|c rest].
      * cbv. discriminate.
      * cbn [render atom_str] in Hd. apply (Hd c rest eq_refl). intro X. subst c. apply (Hl rest). reflexivity.
    + cbn [render atom_str] in Hd. eapply Hd; [reflexivity|]. cbv. discriminate.
    + eapply Hd; [reflexivity|]. cbv. discriminate.
    + eapply Hd; [reflexivity|]. cbv. discriminate.
    + discriminate.
  - assert (E : exists rest, render (Unary o a) = c_lpar :: rest)
      by (destruct o; cbn [render]; eexists; reflexivity).
    destruct E as [rest E]. eapply Hd; [exact E|]. cbv. discriminate.
  - assert (E : exists rest, render (Binary o a b) = c_lpar :: rest)
      by (cbn [render]; eexists; reflexivity).
    destruct E as [rest E]. eapply Hd; [exact E|]. cbv. discriminate.
  - assert (E : exists rest, render (Hybrid o x d a) = c_lpar :: rest)
      by (cbn [render]; eexists; reflexivity).
    destruct E as [rest E]. eapply Hd; [exact E|]. cbv. discriminate.
Qed.

Section Link.
Variable G : genv.
Variable names : list str.
Variable sw : switches.
Variable steady : tt.

(** the store of the context: duplicate counters, cache, domain sets (fixed during the
    evaluation: nothing is saved, wild-card entries are never evicted) *)
Variable D : list (key * nat).
Variable C : list (key * (tt * list (str * str))).
Variable DS : list (str * tt).
Variable wild : list (str * tt).

(** only wild-card keys are marked, and the marked ones are cached with the sets of [wild] *)
Definition store_ok : Prop :=
  (forall k, (forall r, fst k <> c_pct :: r) -> amem key_eqb k D = false) /\
  (forall p, match alookup str_eqb p wild with
             | Some s => amem key_eqb (wild_key p) D = true /\
                         alookup key_eqb (wild_key p) C = Some (s, [])
             | None => amem key_eqb (wild_key p) D = false
             end).

Hypothesis HS : store_ok.

Definition same_store (c : ectx) : Prop :=
  duplicates c = D /\ cache c = C /\ domain_sets c = DS.

Lemma same_store_set_free c x : same_store c -> same_store (set_free c x).
Proof. intros [A [B E]]. repeat split; assumption. Qed.

Local Notation pev := (peval_ext G names sw steady wild DS).

Lemma not_marked t c canon ren : linkable t -> is_wild_terminal t = false ->
  same_store c -> canonize (render t) = (canon, ren) ->
  amem key_eqb (canon, canon_domains (free_doms c) ren []) (duplicates c) = false.
Proof.
  intros Hl Hw [Hd _] EC. rewrite Hd. apply (proj1 HS). cbn [fst].
  intro r. pose proof (render_head t Hl Hw r) as X. rewrite EC in X. exact X.
Qed.

Theorem eval_node_ext : forall t U c, linkable t -> same_store c ->
  exists c', same_store c' /\
    eval_node G names sw steady t U c = bind (pev t U) (fun r => Ok (r, c')).
Proof.
  induction t as [a | o a IH | o a IHa b IHb | o x d a IH]; intros U c Hl Hc.
  - (* terminal *)
    destruct a as [nm | x | | | p].
    1-4: cbn [eval_node];
      match goal with |- context [canonize (render ?t)] =>
        destruct (canonize (render t)) as [canon ren] eqn:EC;
        rewrite (not_marked t c canon ren Hl eq_refl Hc EC) end;
      cbn [andb]; exists c; (split; [assumption|]);
      cbn [peval_ext is_attractor_pattern is_fixed_point_pattern]; rewrite !andb_false_r.
    + destruct (index_of nm names 0); reflexivity.
    + destruct (hctl_var_id G x); reflexivity.
    + reflexivity.
    + reflexivity.
    + (* wild-card: served from the cache, the context is unchanged *)
      cbn [eval_node render atom_str]. cbn [linkable] in Hl. rewrite Hl.
      rewrite canon_domains_nil. fold (wild_key p).
      destruct Hc as [Hd [Hca Hds]]. rewrite Hd, Hca.
      exists c. split; [repeat split; assumption|].
      cbn [peval_ext is_attractor_pattern is_fixed_point_pattern]. rewrite !andb_false_r.
      pose proof (proj2 HS p) as Hp.
      destruct (alookup str_eqb p wild) as [s|].
      * destruct Hp as [Hm Hl2].
        assert (Hm' : amem key_eqb (@pair str dommap (c_pct :: p ++ [c_pct]) []) D = true)
          by exact Hm.
        assert (Hl' : alookup key_eqb (@pair str dommap (c_pct :: p ++ [c_pct]) []) C = Some (s, []))
          by exact Hl2.
        rewrite Hm', Hl'. reflexivity.
      * assert (Hm' : amem key_eqb (@pair str dommap (c_pct :: p ++ [c_pct]) []) D = false)
          by exact Hp.
        rewrite Hm'. reflexivity.
  - (* unary *)
    cbn [eval_node]. destruct (canonize (render (Unary o a))) as [canon ren] eqn:EC.
    rewrite (not_marked _ c canon ren Hl eq_refl Hc EC). cbn [andb].
    cbn [peval_ext is_attractor_pattern is_fixed_point_pattern]. rewrite !andb_false_r.
    destruct (IH U c Hl Hc) as [c1 [Hc1 E1]]. rewrite E1.
    exists c1. split; [assumption|].
    destruct (pev a U) as [A| | |]; cbn; try reflexivity;
      destruct o; cbn; reflexivity.
  - (* binary *)
    pose proof Hl as [Hla Hlb].
    cbn [eval_node]. destruct (canonize (render (Binary o a b))) as [canon ren] eqn:EC.
    rewrite (not_marked _ c canon ren Hl eq_refl Hc EC). cbn [andb].
    cbn [peval_ext is_attractor_pattern is_fixed_point_pattern]. rewrite !andb_false_r.
    destruct (IHa U c Hla Hc) as [c1 [Hc1 E1]]. rewrite E1.
    destruct (IHb U c1 Hlb Hc1) as [c2 [Hc2 E2]].
    exists c2. split; [assumption|].
    destruct (pev a U) as [A| | |]; cbn; try reflexivity.
    rewrite E2.
    destruct (pev b U) as [B| | |]; cbn; try reflexivity;
      destruct o; cbn; reflexivity.
  - (* hybrid *)
    cbn [linkable] in Hl.
    cbn [eval_node]. destruct (canonize (render (Hybrid o x d a))) as [canon ren] eqn:EC.
    rewrite (not_marked (Hybrid o x d a) c canon ren Hl eq_refl Hc EC). cbn [andb].
    rewrite (peval_ext_eq G names sw steady wild DS (Hybrid o x d a) U).
    destruct (use_patterns sw && is_attractor_pattern (Hybrid o x d a)) eqn:PA.
    { exists c. split; [assumption|].
      destruct (hctl_var_id G (pattern_var (Hybrid o x d a))); cbn; try reflexivity;
        match goal with |- context [attractors ?g ?u ?e] => destruct (attractors g u e) end; reflexivity. }
    destruct (use_patterns sw && is_fixed_point_pattern (Hybrid o x d a)) eqn:PF.
    { exists c. split; [assumption|]. reflexivity. }
    assert (Q : forall o', o' <> Jump ->
      exists c', same_store c' /\
      (let c0 := set_free c (sinsert x d (free_doms c)) in
       let close := fun c1 : ectx => set_free c1 (aremove str_eqb x (free_doms c1)) in
       match d with
       | Some dl =>
           match alookup str_eqb dl (domain_sets c0) with
           | Some dset =>
               let* e := hctl_var_id G x in
               let var_domain := compute_valid_domain_for_var G U dset e in
               let Ur := tand U var_domain in
               if is_empty Ur
               then Ok (match o' with Forall => U | _ => empty G end, close c0)
               else
                let* (a0, c1) := eval_node G names sw steady a Ur c0 in
                let* r := eval_hybrid_quantifier G U Ur o' e a0 in Ok (r, close c1)
           | None => Panic PDomainLookup
           end
       | None =>
           let* (a0, c1) := eval_node G names sw steady a U c0 in
           let* e := hctl_var_id G x in
           let* r := eval_hybrid_quantifier G U U o' e a0 in Ok (r, close c1)
       end) =
      bind (match d with
            | None =>
                let* r := pev a U in
                let* e := hctl_var_id G x in
                eval_hybrid_quantifier G U U o' e r
            | Some dl =>
                match alookup str_eqb dl DS with
                | None => Panic PDomainLookup
                | Some dset =>
                    let* e := hctl_var_id G x in
                    let Ur := tand U (compute_valid_domain_for_var G U dset e) in
                    if is_empty Ur then Ok (match o' with Forall => U | _ => empty G end)
                    else
                      let* r := pev a Ur in
                      eval_hybrid_quantifier G U Ur o' e r
                end
            end) (fun r => Ok (r, c'))).
    { intros o' Ho'.
      set (c0 := set_free c (sinsert x d (free_doms c))).
      assert (Hc0 : same_store c0) by (apply same_store_set_free; exact Hc).
      cbn zeta.
      destruct d as [dl|].
      - replace (domain_sets c0) with DS by (symmetry; apply Hc0).
        destruct (alookup str_eqb dl DS) as [dset|]; [|exists c; split; [assumption|reflexivity]].
        destruct (hctl_var_id G x) as [e| | |]; cbn [bind];
          try (exists c; split; [assumption|reflexivity]).
        destruct (is_empty (tand U (compute_valid_domain_for_var G U dset e))).
        + exists (set_free c0 (aremove str_eqb x (free_doms c0))).
          split; [apply same_store_set_free; exact Hc0 | reflexivity].
        + destruct (IH (tand U (compute_valid_domain_for_var G U dset e)) c0 Hl Hc0) as [c1 [Hc1 E1]].
          rewrite E1.
          exists (set_free c1 (aremove str_eqb x (free_doms c1))).
          split; [apply same_store_set_free; exact Hc1|].
          destruct (pev a (tand U (compute_valid_domain_for_var G U dset e))) as [A| | |];
            cbn [bind]; try reflexivity;
          destruct (eval_hybrid_quantifier G U (tand U (compute_valid_domain_for_var G U dset e)) o' e A);
            reflexivity.
      - destruct (IH U c0 Hl Hc0) as [c1 [Hc1 E1]]. rewrite E1.
        exists (set_free c1 (aremove str_eqb x (free_doms c1))).
        split; [apply same_store_set_free; exact Hc1|].
        destruct (pev a U) as [A| | |]; cbn [bind]; try reflexivity;
        destruct (hctl_var_id G x) as [e| | |]; cbn [bind]; try reflexivity;
        destruct (eval_hybrid_quantifier G U U o' e A); reflexivity. }
    destruct o.
    + (* bind *) destruct (Q Bind ltac:(discriminate)) as [c' [Hc' E]]. exists c'. split; [assumption|].
      exact E.
    + (* jump *)
      destruct (IH U c Hl Hc) as [c1 [Hc1 E1]]. rewrite E1.
      exists c1. split; [assumption|]. cbn [peval_ext_body].
      destruct (pev a U) as [A| | |]; cbn; try reflexivity;
        destruct (hctl_var_id G x); reflexivity.
    + (* exists *) destruct (Q Exists ltac:(discriminate)) as [c' [Hc' E]]. exists c'. split; [assumption|].
      exact E.
    + (* forall *) destruct (Q Forall ltac:(discriminate)) as [c' [Hc' E]]. exists c'. split; [assumption|].
      exact E.
Qed.

End Link.

(** ---- the context built by extend_context on an empty context ---- *)

(** the Boolean equalities on keys decide equality *)
Lemma list_eqb_eq {A} (eqb : A -> A -> bool) :
  (forall a b, eqb a b = true <-> a = b) ->
  forall a b, list_eqb eqb a b = true <-> a = b.
Proof.
  intro H. induction a as [|x a IH]; intros [|y b]; cbn [list_eqb];
    try (split; [discriminate|congruence]).
  - tauto.
  - rewrite andb_true_iff, H, IH. split; [intros [-> ->]; reflexivity | intro E; injection E; auto].
Qed.

Lemma opt_eqb_eq {A} (eqb : A -> A -> bool) :
  (forall a b, eqb a b = true <-> a = b) ->
  forall a b, opt_eqb eqb a b = true <-> a = b.
Proof.
  intro H. intros [x|] [y|]; cbn [opt_eqb]; try (split; [discriminate|congruence]).
  - rewrite H. split; [congruence | intro E; injection E; auto].
  - tauto.
Qed.

Lemma dom_entry_eqb_eq a b : dom_entry_eqb a b = true <-> a = b.
Proof.
  destruct a as [x d], b as [y d']. unfold dom_entry_eqb. cbn [fst snd].
  rewrite andb_true_iff, str_eqb_eq, (opt_eqb_eq str_eqb str_eqb_eq).
  split; [intros [-> ->]; reflexivity | intro E; injection E; auto].
Qed.

Lemma key_eqb_eq a b : key_eqb a b = true <-> a = b.
Proof.
  destruct a as [x d], b as [y d']. unfold key_eqb. cbn [fst snd].
  rewrite andb_true_iff, str_eqb_eq, (list_eqb_eq dom_entry_eqb dom_entry_eqb_eq).
  split; [intros [-> ->]; reflexivity | intro E; injection E; auto].
Qed.

Lemma wild_key_inj p q : wild_key p = wild_key q -> p = q.
Proof.
  unfold wild_key. intro H. injection H as H. apply app_inv_tail in H. exact H.
Qed.

(** association lists over a decidable key *)
Section AList.
Context {K V : Type}.
Variable eqb : K -> K -> bool.
Hypothesis eqb_eq : forall a b, eqb a b = true <-> a = b.

Lemma eqb_refl' a : eqb a a = true.
Proof. apply eqb_eq. reflexivity. Qed.

Lemma eqb_neq a b : a <> b -> eqb a b = false.
Proof. intro H. destruct (eqb a b) eqn:E; [apply eqb_eq in E; contradiction | reflexivity]. Qed.

Lemma alookup_aremove_same k (l : list (K * V)) : alookup eqb k (aremove eqb k l) = None.
Proof.
  induction l as [|[k' v] l IH]; cbn [aremove alookup]; [reflexivity|].
  destruct (eqb k k') eqn:E; [exact IH|]. cbn [alookup]. rewrite E. exact IH.
Qed.

Lemma alookup_aremove_other k k' (l : list (K * V)) : k <> k' ->
  alookup eqb k (aremove eqb k' l) = alookup eqb k l.
Proof.
  intro Hne. induction l as [|[k2 v] l IH]; cbn [aremove alookup]; [reflexivity|].
  destruct (eqb k' k2) eqn:E.
  - apply eqb_eq in E. subst k2. rewrite (eqb_neq _ _ Hne). exact IH.
  - cbn [alookup]. destruct (eqb k k2); [reflexivity | exact IH].
Qed.

Lemma alookup_ainsert_same k v (l : list (K * V)) : alookup eqb k (ainsert eqb k v l) = Some v.
Proof. unfold ainsert. cbn [alookup]. rewrite eqb_refl'. reflexivity. Qed.

Lemma alookup_ainsert_other k k' v (l : list (K * V)) : k <> k' ->
  alookup eqb k (ainsert eqb k' v l) = alookup eqb k l.
Proof.
  intro Hne. unfold ainsert. cbn [alookup]. rewrite (eqb_neq _ _ Hne).
  apply alookup_aremove_other. exact Hne.
Qed.

Lemma alookup_in k v (l : list (K * V)) : alookup eqb k l = Some v -> In (k, v) l.
Proof.
  induction l as [|[k' v'] l IH]; cbn [alookup]; [discriminate|].
  destruct (eqb k k') eqn:E.
  - intro H. injection H as ->. apply eqb_eq in E. subst k'. left. reflexivity.
  - intro H. right. apply IH. exact H.
Qed.

Lemma alookup_app k (l1 l2 : list (K * V)) :
  alookup eqb k (l1 ++ l2) =
  match alookup eqb k l1 with Some v => Some v | None => alookup eqb k l2 end.
Proof.
  induction l1 as [|[k' v'] l1 IH]; cbn [alookup app]; [reflexivity|].
  destruct (eqb k k'); [reflexivity | exact IH].
Qed.
End AList.

Lemma amem_incr_same k D : amem key_eqb k (incr_dup k D) = true.
Proof.
  unfold incr_dup, amem.
  destruct (alookup key_eqb k D); rewrite (alookup_ainsert_same key_eqb key_eqb_eq); reflexivity.
Qed.

Lemma amem_incr_other k k' D : k <> k' -> amem key_eqb k (incr_dup k' D) = amem key_eqb k D.
Proof.
  intro Hne. unfold incr_dup, amem.
  destruct (alookup key_eqb k' D); rewrite (alookup_ainsert_other key_eqb key_eqb_eq) by exact Hne;
    reflexivity.
Qed.

(** the wild-card entries after extend_props: the LAST set given for a label wins *)
Lemma extend_props_view : forall props c q,
  match alookup str_eqb q (rev props) with
  | Some s => amem key_eqb (wild_key q) (duplicates (extend_props props c)) = true /\
              alookup key_eqb (wild_key q) (cache (extend_props props c)) = Some (s, [])
  | None => amem key_eqb (wild_key q) (duplicates (extend_props props c))
            = amem key_eqb (wild_key q) (duplicates c) /\
            alookup key_eqb (wild_key q) (cache (extend_props props c))
            = alookup key_eqb (wild_key q) (cache c)
  end.
Proof.
  induction props as [|[p s] rest IH]; intros c q.
  - cbn. auto.
  - cbn [extend_props rev]. rewrite (alookup_app str_eqb).
    set (c2 := set_cache (set_dups c (incr_dup (wild_key p) (duplicates c)))
                 (ainsert key_eqb (wild_key p) (s, [])
                    (cache (set_dups c (incr_dup (wild_key p) (duplicates c)))))).
    specialize (IH c2 q).
    destruct (alookup str_eqb q (rev rest)) as [s'|]; [exact IH|].
    destruct IH as [IH1 IH2]. cbn [alookup].
    destruct (str_eqb q p) eqn:E.
    + apply str_eqb_eq in E. subst q. rewrite IH1, IH2. subst c2. cbn [duplicates cache set_cache set_dups].
      split; [apply amem_incr_same | apply (alookup_ainsert_same key_eqb key_eqb_eq)].
    + assert (Hne : wild_key q <> wild_key p).
      { intro X. apply wild_key_inj in X. subst q.
        assert (Y : str_eqb p p = true) by (apply str_eqb_eq; reflexivity). congruence. }
      rewrite IH1, IH2. subst c2. cbn [duplicates cache set_cache set_dups].
      split; [apply amem_incr_other; exact Hne
             | apply (alookup_ainsert_other key_eqb key_eqb_eq); exact Hne].
Qed.

Lemma extend_props_unmarked : forall props c k, (forall r, fst k <> c_pct :: r) ->
  amem key_eqb k (duplicates (extend_props props c)) = amem key_eqb k (duplicates c).
Proof.
  induction props as [|[p s] rest IH]; intros c k Hk; [reflexivity|].
  cbn [extend_props]. rewrite IH by exact Hk. cbn [duplicates cache set_cache set_dups].
  apply amem_incr_other. intro X. subst k. apply (Hk (p ++ [c_pct])). reflexivity.
Qed.

Lemma fold_ainsert_in : forall (ds : list (str * tt)) acc l s,
  alookup str_eqb l (fold_left (fun acc pd => ainsert str_eqb (fst pd) (snd pd) acc) ds acc) = Some s ->
  In (l, s) ds \/ alookup str_eqb l acc = Some s.
Proof.
  induction ds as [|[d x] ds IH]; intros acc l s H; cbn [fold_left] in H; [right; exact H|].
  apply IH in H. destruct H as [H|H]; [left; right; exact H|]. cbn [fst snd] in H.
  destruct (str_eqb l d) eqn:E.
  - apply str_eqb_eq in E. subst d. rewrite (alookup_ainsert_same str_eqb str_eqb_eq) in H.
    injection H as ->. left. left. reflexivity.
  - rewrite (alookup_ainsert_other str_eqb str_eqb_eq) in H; [right; exact H|].
    intro X. subst d. assert (Y : str_eqb l l = true) by (apply str_eqb_eq; reflexivity). congruence.
Qed.

Lemma extend_props_domsets : forall props c,
  domain_sets (extend_props props c) = domain_sets c.
Proof.
  induction props as [|[p s] rest IH]; intro c; [reflexivity|].
  cbn [extend_props]. rewrite IH. reflexivity.
Qed.

(** the store of  extend_context wprops dprops (ctx_new [])  *)
Lemma extend_context_store wprops dprops :
  let c := extend_context wprops dprops (ctx_new []) in
  store_ok (duplicates c) (cache c) (rev wprops) /\
  (forall l s, alookup str_eqb l (domain_sets c) = Some s -> In (l, s) dprops).
Proof.
  cbn zeta. unfold extend_context. cbn [duplicates cache domain_sets set_domsets]. split.
  - split.
    + intros k Hk. rewrite extend_props_unmarked by exact Hk. reflexivity.
    + intro p. pose proof (extend_props_view wprops (ctx_new []) p) as H.
      destruct (alookup str_eqb p (rev wprops)) as [s|]; [exact H|].
      destruct H as [H _]. rewrite H. reflexivity.
  - intros l s H. apply fold_ainsert_in in H. destruct H as [H|H]; [exact H|].
    rewrite extend_props_domsets in H. discriminate.
Qed.

(** ---- eval_node on extended formulae, end to end ---- *)
From HCTL Require Import Kripke HCTL Main ExtFacts.

Section EvalNodeExt.
Variable G : genv.
Variable names : list str.
Variable Utop : tt.
Hypothesis WF : wf_env G names Utop.
Variable Gamma : str -> val -> Prop.
Variable sw : switches.
Local Notation L := (g_L G).

(** the sets handed to extend_context (several sets for one label must agree: they all
    denote [Gamma l]) *)
Variable wprops dprops : list (str * tt).
Hypothesis wprops_ok : forall l s, In (l, s) wprops ->
  shaped L s /\ forall v, mem L s v = true <-> Gamma l v.
Hypothesis dprops_ok : forall l s, In (l, s) dprops ->
  shaped L s /\ extras_indep G s /\ forall v, mem L s v = true <-> Gamma l v.

Theorem eval_node_ext_correct t R c' : scoped G [] t -> linkable t ->
  eval_node G names sw (steady_of G Utop) t Utop (extend_context wprops dprops (ctx_new []))
    = Ok (R, c') ->
  shaped L R /\
  forall v, mem L Utop v = true -> (mem L R v = true <-> sat G names Gamma t v).
Proof.
  intros Hsc Hl H.
  set (c := extend_context wprops dprops (ctx_new [])) in *.
  destruct (extend_context_store wprops dprops) as [HS HD]. fold c in HS, HD.
  destruct (eval_node_ext G names sw (steady_of G Utop) (duplicates c) (cache c) (domain_sets c)
              (rev wprops) HS t Utop c Hl (conj eq_refl (conj eq_refl eq_refl))) as [c1 [_ E]].
  rewrite E in H.
  destruct (peval_ext G names sw (steady_of G Utop) (rev wprops) (domain_sets c) t Utop)
    as [r| | |] eqn:EP; cbn [bind] in H; try discriminate.
  injection H as <- <-.
  eapply peval_ext_correct; [exact WF | | | exact Hsc | exact EP].
  - intros l s El. apply (alookup_in str_eqb str_eqb_eq) in El. apply in_rev in El.
    apply wprops_ok. exact El.
  - intros l s El. apply HD in El. apply dprops_ok. exact El.
Qed.

End EvalNodeExt.

(** ---- the sets the entry points hand over ---- *)
From HCTL Require Import Pipeline LayoutFacts.

(** a context set over colours and states, lifted to the layout with spare copies
    ([Pipeline.lift]), is a well-formed set that does not read the spare copies *)
Lemma lifted_set_ok p n k (upd_pn : list tt) (s : tt) :
  shaped (Lpn p n) s ->
  let G := mk_genv p n k upd_pn in
  shaped (g_L G) (expand not_extra (g_L G) s) /\
  extras_indep G (expand not_extra (g_L G) s).
Proof.
  intros Ss G0.
  assert (EL : g_L G0 = mk_layout p n k) by reflexivity.
  assert (St : shaped (filter not_extra (g_L G0)) s).
  { rewrite EL, filter_not_extra_layout. exact Ss. }
  split; [apply shaped_expand; exact St|].
  intros v w Hvw. rewrite !mem_expand by exact St. apply mem_agree.
  intros g Hg. apply filter_In in Hg. destruct Hg as [_ Hg]. unfold not_extra in Hg.
  apply negb_true_iff in Hg. apply Hvw. exact Hg.
Qed.
