(** Termination: the fuel of the fixed-point loops of Model/Ops.v always suffices.

    Every round of `while old != new` either stops or strictly changes [card old]
    (upwards for an inflationary body, downwards for a deflationary one), every round of the
    saturation loop either stops or strictly increases [card result], and [card] of a shaped
    tree lies between 0 and 2 ^ length L.  Hence [loop_fuel = S (2 ^ length L)] rounds are
    enough and no operator ever returns [OutOfFuel] on shaped arguments; the same holds
    for the whole cache-free evaluator [peval]. *)
From HCTL Require Import Base Syntax TT Ops Eval Kripke HCTL.
From HCTL Require Import TTFacts OpsFacts FixFacts HybridFacts EvalPure.

(** ---- the generic loop over an arbitrary layout ---- *)
Section Generic.
Variable L : layout.
Hypothesis L_nodup : NoDup L.

(** a proper shaped subset has strictly fewer members *)
Lemma subset_neq_card a b : shaped L a -> shaped L b -> subset L a b -> a <> b ->
  card a < card b.
Proof.
  intros Ha Hb Hsub Hne.
  destruct (subset_card L a b L_nodup Ha Hb Hsub) as [Hle Heq].
  destruct (Nat.eq_dec (card a) (card b)) as [E|E]; [exfalso; apply Hne, Heq, E | lia].
Qed.

Variable F : tt -> tt.
Hypothesis F_shaped : forall x, shaped L x -> shaped L (F x).

(** whatever the loop returns is shaped *)
Lemma while_neq_shaped fuel : forall x y r, shaped L x ->
  while_neq fuel F x y = Ok r -> shaped L r.
Proof.
  induction fuel as [|f IH]; intros x y r Hx; cbn [while_neq];
    destruct (tt_eqb x y) eqn:E; try discriminate.
  - intro H; injection H as <-; exact Hx.
  - intro H; injection H as <-; exact Hx.
  - intro H. eapply IH; [|exact H]. apply F_shaped, Hx.
Qed.

Section Inflationary.
Hypothesis F_infl : forall x, shaped L x -> subset L x (F x).

(** the loop after its first round: the state is (F y, y); measure 2 ^ length L - card y *)
Lemma while_neq_infl_step fuel : forall y, shaped L y ->
  2 ^ length L <= fuel + card y ->
  exists r, while_neq fuel F (F y) y = Ok r.
Proof.
  induction fuel as [|f IH]; intros y Hy Hfuel; cbn [while_neq];
    destruct (tt_eqb (F y) y) eqn:E; try (eexists; reflexivity).
  - exfalso.
    assert (Hne : y <> F y) by (intro X; rewrite <- X in E; rewrite tt_eqb_refl in E; discriminate).
    assert (Hlt : card y < card (F y)) by (apply subset_neq_card; auto).
    assert (Hle : card (F y) <= 2 ^ length L) by (apply card_le; auto).
    lia.
  - assert (Hne : y <> F y) by (intro X; rewrite <- X in E; rewrite tt_eqb_refl in E; discriminate).
    assert (Hlt : card y < card (F y)) by (apply subset_neq_card; auto).
    apply IH; [apply F_shaped, Hy | lia].
Qed.

(** the loop from an arbitrary state (x, y) *)
Theorem while_neq_infl fuel x y : shaped L x ->
  2 ^ length L < fuel + card x ->
  exists r, while_neq fuel F x y = Ok r.
Proof.
  intros Hx Hfuel.
  assert (Hle : card x <= 2 ^ length L) by (apply card_le; exact Hx).
  destruct fuel as [|f]; [lia|]. cbn [while_neq].
  destruct (tt_eqb x y); [eexists; reflexivity|].
  apply while_neq_infl_step; [exact Hx | lia].
Qed.
End Inflationary.

Section Deflationary.
Hypothesis F_defl : forall x, shaped L x -> subset L (F x) x.

(** the loop after its first round: the state is (F y, y); measure card y *)
Lemma while_neq_defl_step fuel : forall y, shaped L y ->
  card y <= fuel ->
  exists r, while_neq fuel F (F y) y = Ok r.
Proof.
  induction fuel as [|f IH]; intros y Hy Hfuel; cbn [while_neq];
    destruct (tt_eqb (F y) y) eqn:E; try (eexists; reflexivity).
  - exfalso.
    assert (Hne : F y <> y) by (intro X; rewrite X in E; rewrite tt_eqb_refl in E; discriminate).
    assert (Hlt : card (F y) < card y) by (apply subset_neq_card; auto).
    lia.
  - assert (Hne : F y <> y) by (intro X; rewrite X in E; rewrite tt_eqb_refl in E; discriminate).
    assert (Hlt : card (F y) < card y) by (apply subset_neq_card; auto).
    apply IH; [apply F_shaped, Hy | lia].
Qed.

Theorem while_neq_defl fuel x y : shaped L x ->
  card x < fuel ->
  exists r, while_neq fuel F x y = Ok r.
Proof.
  intros Hx Hfuel.
  destruct fuel as [|f]; [lia|]. cbn [while_neq].
  destruct (tt_eqb x y); [eexists; reflexivity|].
  apply while_neq_defl_step; [exact Hx | lia].
Qed.
End Deflationary.

End Generic.

(** ---- the operators ---- *)
Section Termination.
Variable G : genv.
Local Notation L := (g_L G).
Local Notation n := (g_n G).

Hypothesis L_nodup : NoDup L.
Hypothesis upd_shaped : forall i, shaped L (upd_of G i).

Ltac shp := repeat first
  [ assumption
  | apply shaped_eval_ex
  | apply shaped_eval_ax
  | apply shaped_eval_neg
  | apply shaped_pre
  | apply shaped_var_pre
  | apply shaped_steady_of
  | apply shaped_can_update
  | apply shaped_tand | apply shaped_tor | apply shaped_tminus | apply shaped_txor | apply shaped_tiff
  | apply shaped_exq | apply shaped_flip | apply shaped_lit
  | apply shaped_const ].

Lemma loop_fuel_eq : loop_fuel G = S (2 ^ length L).
Proof. reflexivity. Qed.

Lemma card_lt_loop_fuel x : shaped L x -> card x < loop_fuel G.
Proof. intro Hx. rewrite loop_fuel_eq. pose proof (card_le L x Hx). lia. Qed.

(** ---- EG: a deflationary loop ---- *)
Theorem eg_terminates phi st : shaped L phi -> shaped L st ->
  exists r, eval_eg G phi st = Ok r /\ shaped L r.
Proof.
  intros Hphi Hst. unfold eval_eg.
  assert (FS : forall x, shaped L x -> shaped L (tand x (eval_ex G x st))) by (intros; shp).
  destruct (while_neq_defl L L_nodup (fun old => tand old (eval_ex G old st)) FS) with
    (fuel := loop_fuel G) (x := phi) (y := empty G) as [r Hr].
  - intros x Hx v Hv. rewrite mem_tand in Hv by shp.
    apply andb_true_iff in Hv. tauto.
  - exact Hphi.
  - apply card_lt_loop_fuel, Hphi.
  - exists r. split; [exact Hr|]. eapply while_neq_shaped; [exact FS | exact Hphi | exact Hr].
Qed.

(** ---- AU: an inflationary loop ---- *)
Theorem au_terminates U phi1 phi2 st : shaped L U -> shaped L phi1 -> shaped L phi2 -> shaped L st ->
  exists r, eval_au G U phi1 phi2 st = Ok r /\ shaped L r.
Proof.
  intros HU H1 H2 Hst. unfold eval_au.
  assert (FS : forall x, shaped L x -> shaped L (tor x (tand phi1 (eval_ax G U x st))))
    by (intros; shp).
  destruct (while_neq_infl L L_nodup (fun old => tor old (tand phi1 (eval_ax G U old st))) FS) with
    (fuel := loop_fuel G) (x := phi2) (y := empty G) as [r Hr].
  - intros x Hx v Hv. rewrite mem_tor by shp. rewrite Hv. reflexivity.
  - exact H2.
  - rewrite loop_fuel_eq. lia.
  - exists r. split; [exact Hr|]. eapply while_neq_shaped; [exact FS | exact H2 | exact Hr].
Qed.

(** ---- EU by saturation ---- *)
Lemma sat_step_grows phi1 vars result r : shaped L phi1 -> shaped L result ->
  sat_step G vars phi1 result = Some r ->
  shaped L r /\ card result < card r.
Proof.
  intros H1 HR. induction vars as [|i vars IH]; cbn [sat_step]; [discriminate|].
  assert (HT : shaped L (tminus (tand phi1 (var_pre G i result)) result)) by shp.
  destruct (is_empty (tminus (tand phi1 (var_pre G i result)) result)) eqn:E; [exact IH|].
  intro H; injection H as <-.
  assert (HS : shaped L (tor result (tminus (tand phi1 (var_pre G i result)) result))) by shp.
  split; [exact HS|].
  apply (subset_neq_card L L_nodup); try assumption.
  - intros v Hv. rewrite mem_tor by assumption. rewrite Hv. reflexivity.
  - intro X.
    apply (is_empty_false_iff L _ L_nodup HT) in E. destruct E as [v Hv].
    assert (Hin : mem L (tor result (tminus (tand phi1 (var_pre G i result)) result)) v = true).
    { rewrite mem_tor by assumption. rewrite Hv. apply orb_true_r. }
    rewrite <- X in Hin.
    rewrite mem_tminus in Hv by shp. rewrite Hin in Hv.
    rewrite andb_false_r in Hv. discriminate.
Qed.

Theorem eu_loop_terminates phi1 fuel : shaped L phi1 -> forall result, shaped L result ->
  2 ^ length L < fuel + card result ->
  exists r, eu_loop G fuel phi1 result = Ok r /\ shaped L r.
Proof.
  intro H1. induction fuel as [|f IH]; intros result HR Hfuel.
  - pose proof (card_le L result HR). lia.
  - cbn [eu_loop]. destruct (sat_step G (rev (range n)) phi1 result) as [r'|] eqn:E.
    + destruct (sat_step_grows _ _ _ _ H1 HR E) as [HS Hlt].
      apply IH; [exact HS | lia].
    + exists result. split; [reflexivity | exact HR].
Qed.

Theorem eu_terminates phi1 phi2 : shaped L phi1 -> shaped L phi2 ->
  exists r, eval_eu_saturated G phi1 phi2 = Ok r /\ shaped L r.
Proof.
  intros H1 H2. unfold eval_eu_saturated. apply eu_loop_terminates; try assumption.
  rewrite loop_fuel_eq. lia.
Qed.

(** ---- corollaries ---- *)
Theorem ef_terminates U phi : shaped L U -> shaped L phi ->
  exists r, eval_ef_saturated G U phi = Ok r /\ shaped L r.
Proof. intros HU Hp. unfold eval_ef_saturated. apply eu_terminates; assumption. Qed.

Theorem af_terminates U phi st : shaped L U -> shaped L phi -> shaped L st ->
  exists r, eval_af G U phi st = Ok r /\ shaped L r.
Proof.
  intros HU Hp Hst. unfold eval_af.
  destruct (eg_terminates (eval_neg U phi) st) as [r [Hr HS]]; [shp | exact Hst |].
  rewrite Hr. cbn [bind]. eexists; split; [reflexivity | shp].
Qed.

Theorem ag_terminates U phi : shaped L U -> shaped L phi ->
  exists r, eval_ag G U phi = Ok r /\ shaped L r.
Proof.
  intros HU Hp. unfold eval_ag.
  destruct (ef_terminates U (eval_neg U phi)) as [r [Hr HS]]; [exact HU | shp |].
  rewrite Hr. cbn [bind]. eexists; split; [reflexivity | shp].
Qed.

Theorem ew_terminates U phi1 phi2 st : shaped L U -> shaped L phi1 -> shaped L phi2 -> shaped L st ->
  exists r, eval_ew G U phi1 phi2 st = Ok r /\ shaped L r.
Proof.
  intros HU H1 H2 Hst. unfold eval_ew.
  destruct (au_terminates U (eval_neg U phi2) (tand (eval_neg U phi1) (eval_neg U phi2)) st)
    as [r [Hr HS]]; [exact HU | shp | shp | exact Hst |].
  rewrite Hr. cbn [bind]. eexists; split; [reflexivity | shp].
Qed.

Theorem aw_terminates U phi1 phi2 : shaped L U -> shaped L phi1 -> shaped L phi2 ->
  exists r, eval_aw G U phi1 phi2 = Ok r /\ shaped L r.
Proof.
  intros HU H1 H2. unfold eval_aw.
  destruct (eu_terminates (eval_neg U phi2) (tand (eval_neg U phi1) (eval_neg U phi2)))
    as [r [Hr HS]]; [shp | shp |].
  rewrite Hr. cbn [bind]. eexists; split; [reflexivity | shp].
Qed.

End Termination.

(** ---- the cache-free evaluator never runs out of fuel ---- *)
Section PEvalTermination.
Variable G : genv.
Variable names : list str.
Variable sw : switches.
Variable steady : tt.
Variable U : tt.
Local Notation L := (g_L G).

Hypothesis L_nodup : NoDup L.
Hypothesis upd_shaped : forall i, shaped L (upd_of G i).
Hypothesis U_shaped : shaped L U.
Hypothesis steady_shaped : shaped L steady.

(** an outcome that is neither [OutOfFuel] nor [Err], and shaped when it is a set *)
Definition fine (r : res tt) : Prop :=
  match r with
  | Ok R => shaped L R
  | Panic _ => True
  | Err _ => False
  | OutOfFuel => False
  end.

Ltac shp := repeat first
  [ assumption
  | apply shaped_comparator
  | apply shaped_eval_ex
  | apply shaped_eval_ax
  | apply shaped_eval_neg
  | apply shaped_tand | apply shaped_tor | apply shaped_tminus | apply shaped_txor | apply shaped_tiff
  | apply shaped_exq | apply shaped_flip | apply shaped_lit
  | apply shaped_const ].

Lemma fine_bind (r : res tt) (f : tt -> res tt) :
  fine r -> (forall x, shaped L x -> fine (f x)) -> fine (bind r f).
Proof. destruct r as [x|e|p|]; cbn [bind fine]; auto. Qed.

Lemma fine_terminates (r : res tt) : (exists R, r = Ok R /\ shaped L R) -> fine r.
Proof. intros [R [-> HR]]. exact HR. Qed.

Lemma fine_var_bind x (f : nat -> res tt) :
  (forall e, fine (f e)) -> fine (bind (hctl_var_id G x) f).
Proof.
  intro Hf. unfold hctl_var_id. destruct x as [|c r]; [exact I|].
  destruct (Nat.ltb (length r) (g_k G)); cbn [bind]; [apply Hf | exact I].
Qed.

Lemma shaped_eval_hctl_var e : shaped L (eval_hctl_var G U e).
Proof. unfold eval_hctl_var. shp. Qed.
Lemma shaped_eval_prop i : shaped L (eval_prop G U i).
Proof. unfold eval_prop. shp. Qed.
Lemma shaped_eval_equiv a b : shaped L a -> shaped L b -> shaped L (eval_equiv U a b).
Proof. intros; unfold eval_equiv; shp. Qed.
Lemma shaped_eval_xor a b : shaped L a -> shaped L b -> shaped L (eval_xor U a b).
Proof. intros; unfold eval_xor. apply shaped_eval_neg; [assumption | apply shaped_eval_equiv; assumption]. Qed.
Lemma shaped_eval_imp a b : shaped L a -> shaped L b -> shaped L (eval_imp U a b).
Proof. intros; unfold eval_imp; shp. Qed.
Lemma shaped_eval_bind a e : shaped L a -> shaped L (eval_bind G U a e).
Proof. intros; unfold eval_bind, project_out_hctl_var; shp. Qed.
Lemma shaped_eval_exists a e : shaped L a -> shaped L (eval_exists G a e).
Proof. intros; unfold eval_exists, project_out_hctl_var; shp. Qed.
Lemma shaped_eval_jump a e : shaped L a -> shaped L (eval_jump G U a e).
Proof. intros; unfold eval_jump, project_out_bn_vars; shp. Qed.

Lemma fine_hybrid_quantifier o e a : shaped L a -> fine (eval_hybrid_quantifier G U U o e a).
Proof.
  intro Ha. destruct o; cbn [eval_hybrid_quantifier fine]; try exact I.
  - apply shaped_eval_bind; shp.
  - apply shaped_eval_exists; shp.
  - apply shaped_eval_neg; [assumption|]. apply shaped_eval_exists; shp.
Qed.

Lemma fine_attractors e : fine (attractors G U e).
Proof.
  unfold attractors.
  apply fine_bind; [apply fine_terminates, ef_terminates; auto using shaped_eval_hctl_var|].
  intros ef Hef. apply fine_bind; [apply fine_terminates, ag_terminates; auto|].
  intros ag Hag. cbn [fine]. apply shaped_eval_bind; shp.
Qed.

Theorem peval_fine : forall t, fine (peval G names sw steady t U).
Proof.
  induction t as [a | o a IH | o a IHa b IHb | o x d a IH].
  - cbn [peval is_attractor_pattern is_fixed_point_pattern]. rewrite !andb_false_r. cbv iota.
    destruct a as [nm | x | | | l]; cbn [fine]; try exact I; try assumption.
    + destruct (index_of nm names 0); cbn [fine]; [apply shaped_eval_prop | exact I].
    + apply fine_var_bind. intro e. apply shaped_eval_hctl_var.
    + apply shaped_const.
  - cbn [peval is_attractor_pattern is_fixed_point_pattern]. rewrite !andb_false_r. cbv iota.
    apply fine_bind; [exact IH|]. intros A HA.
    destruct o; cbn [fine].
    + apply shaped_eval_neg; assumption.
    + apply shaped_eval_ex; assumption.
    + apply shaped_eval_ax; assumption.
    + apply fine_terminates, ef_terminates; assumption.
    + apply fine_terminates, af_terminates; assumption.
    + apply fine_terminates, eg_terminates; assumption.
    + apply fine_terminates, ag_terminates; assumption.
  - cbn [peval is_attractor_pattern is_fixed_point_pattern]. rewrite !andb_false_r. cbv iota.
    apply fine_bind; [exact IHa|]. intros A HA.
    apply fine_bind; [exact IHb|]. intros B HB.
    destruct o; cbn [fine].
    + apply shaped_tand; assumption.
    + apply shaped_tor; assumption.
    + apply shaped_eval_xor; assumption.
    + apply shaped_eval_imp; assumption.
    + apply shaped_eval_equiv; assumption.
    + apply fine_terminates, eu_terminates; assumption.
    + apply fine_terminates, au_terminates; assumption.
    + apply fine_terminates, ew_terminates; assumption.
    + apply fine_terminates, aw_terminates; assumption.
  - destruct d as [dl|].
    + (* a domain: only the jump ignores it, everything else panics *)
      destruct o; cbn [peval is_attractor_pattern is_fixed_point_pattern];
        rewrite ?andb_false_r; cbv iota; try exact I.
      apply fine_bind; [exact IH|]. intros A HA.
      apply fine_var_bind. intro e. apply shaped_eval_jump; assumption.
    + rewrite peval_unfold_hybrid.
      destruct (use_patterns sw && is_attractor_pattern (Hybrid o x None a)).
      { apply fine_var_bind. intro e. apply fine_attractors. }
      destruct (use_patterns sw && is_fixed_point_pattern (Hybrid o x None a)).
      { exact steady_shaped. }
      destruct o.
      * apply fine_bind; [exact IH|]. intros A HA. apply fine_var_bind. intro e.
        apply fine_hybrid_quantifier; assumption.
      * apply fine_bind; [exact IH|]. intros A HA. apply fine_var_bind. intro e.
        apply shaped_eval_jump; assumption.
      * apply fine_bind; [exact IH|]. intros A HA. apply fine_var_bind. intro e.
        apply fine_hybrid_quantifier; assumption.
      * apply fine_bind; [exact IH|]. intros A HA. apply fine_var_bind. intro e.
        apply fine_hybrid_quantifier; assumption.
Qed.

Corollary peval_never_out_of_fuel t : peval G names sw steady t U <> OutOfFuel.
Proof. intro H. pose proof (peval_fine t) as F. rewrite H in F. exact F. Qed.

Corollary peval_never_err t e : peval G names sw steady t U <> Err e.
Proof. intro H. pose proof (peval_fine t) as F. rewrite H in F. exact F. Qed.

Corollary peval_shaped t R : peval G names sw steady t U = Ok R -> shaped L R.
Proof. intro H. pose proof (peval_fine t) as F. rewrite H in F. exact F. Qed.

(** ---- totality: on plain, supported formulae over known propositions the evaluator
    returns a set ---- *)
Fixpoint props_known (t : tree) : Prop :=
  match t with
  | Terminal (AProp nm) => index_of nm names 0 <> None
  | Terminal _ => True
  | Unary _ a => props_known a
  | Binary _ a b => props_known a /\ props_known b
  | Hybrid _ _ _ a => props_known a
  end.

Definition total (r : res tt) : Prop := exists R, r = Ok R /\ shaped L R.

Lemma total_ok R : shaped L R -> total (Ok R).
Proof. intro H. exists R. auto. Qed.

Lemma total_bind (r : res tt) (f : tt -> res tt) :
  total r -> (forall x, shaped L x -> total (f x)) -> total (bind r f).
Proof. intros [R [-> HR]] Hf. cbn [bind]. apply Hf, HR. Qed.

Lemma total_var_bind x (f : nat -> res tt) : var_of G x <> None ->
  (forall e, total (f e)) -> total (bind (hctl_var_id G x) f).
Proof.
  intros Hx Hf. unfold hctl_var_id. unfold var_of in Hx. destruct x as [|c r]; [congruence|].
  destruct (Nat.ltb (length r) (g_k G)); cbn [bind]; [apply Hf | congruence].
Qed.

Lemma total_hybrid_quantifier o e a : o <> Jump -> shaped L a ->
  total (eval_hybrid_quantifier G U U o e a).
Proof.
  intros Ho Ha. destruct o; cbn [eval_hybrid_quantifier]; try congruence; apply total_ok.
  - apply shaped_eval_bind; shp.
  - apply shaped_eval_exists; shp.
  - apply shaped_eval_neg; [assumption|]. apply shaped_eval_exists; shp.
Qed.

Lemma total_attractors e : total (attractors G U e).
Proof.
  unfold attractors.
  apply total_bind; [apply ef_terminates; auto using shaped_eval_hctl_var|].
  intros ef Hef. apply total_bind; [apply ag_terminates; auto|].
  intros ag Hag. apply total_ok. apply shaped_eval_bind; shp.
Qed.

Theorem peval_total : forall t, plainf t -> supported G t -> props_known t ->
  total (peval G names sw steady t U).
Proof.
  induction t as [a | o a IH | o a IHa b IHb | o x d a IH]; intros Hpl Hsup Hpk.
  - cbn [peval is_attractor_pattern is_fixed_point_pattern]. rewrite !andb_false_r. cbv iota.
    destruct a as [nm | x | | | l]; cbn [plainf supported props_known] in Hpl, Hsup, Hpk.
    + destruct (index_of nm names 0); [apply total_ok, shaped_eval_prop | congruence].
    + apply total_var_bind; [exact Hsup|]. intro e. apply total_ok, shaped_eval_hctl_var.
    + apply total_ok; assumption.
    + apply total_ok, shaped_const.
    + contradiction.
  - cbn [plainf supported props_known] in Hpl, Hsup, Hpk.
    cbn [peval is_attractor_pattern is_fixed_point_pattern]. rewrite !andb_false_r. cbv iota.
    apply total_bind; [apply IH; assumption|]. intros A HA.
    destruct o.
    + apply total_ok, shaped_eval_neg; assumption.
    + apply total_ok, shaped_eval_ex; assumption.
    + apply total_ok, shaped_eval_ax; assumption.
    + apply ef_terminates; assumption.
    + apply af_terminates; assumption.
    + apply eg_terminates; assumption.
    + apply ag_terminates; assumption.
  - cbn [plainf supported props_known] in Hpl, Hsup, Hpk.
    destruct Hpl as [Hpa Hpb]. destruct Hsup as [Hsa Hsb]. destruct Hpk as [Hka Hkb].
    cbn [peval is_attractor_pattern is_fixed_point_pattern]. rewrite !andb_false_r. cbv iota.
    apply total_bind; [apply IHa; assumption|]. intros A HA.
    apply total_bind; [apply IHb; assumption|]. intros B HB.
    destruct o.
    + apply total_ok, shaped_tand; assumption.
    + apply total_ok, shaped_tor; assumption.
    + apply total_ok, shaped_eval_xor; assumption.
    + apply total_ok, shaped_eval_imp; assumption.
    + apply total_ok, shaped_eval_equiv; assumption.
    + apply eu_terminates; assumption.
    + apply au_terminates; assumption.
    + apply ew_terminates; assumption.
    + apply aw_terminates; assumption.
  - cbn [plainf supported props_known] in Hpl, Hsup, Hpk.
    destruct Hpl as [-> Hpa]. destruct Hsup as [Hvx Hsa].
    rewrite peval_unfold_hybrid.
    destruct (use_patterns sw && is_attractor_pattern (Hybrid o x None a)).
    { cbn [pattern_var]. apply total_var_bind; [exact Hvx|]. intro e. apply total_attractors. }
    destruct (use_patterns sw && is_fixed_point_pattern (Hybrid o x None a)).
    { apply total_ok, steady_shaped. }
    destruct o.
    + apply total_bind; [apply IH; assumption|]. intros A HA.
      apply total_var_bind; [exact Hvx|]. intro e.
      apply total_hybrid_quantifier; [discriminate | assumption].
    + apply total_bind; [apply IH; assumption|]. intros A HA.
      apply total_var_bind; [exact Hvx|]. intro e. apply total_ok, shaped_eval_jump; assumption.
    + apply total_bind; [apply IH; assumption|]. intros A HA.
      apply total_var_bind; [exact Hvx|]. intro e.
      apply total_hybrid_quantifier; [discriminate | assumption].
    + apply total_bind; [apply IH; assumption|]. intros A HA.
      apply total_var_bind; [exact Hvx|]. intro e.
      apply total_hybrid_quantifier; [discriminate | assumption].
Qed.

End PEvalTermination.
