(** The layout built by [mk_layout] and the graphs built by [mk_genv] satisfy the
    well-formedness assumptions ([wf_env]) of the main theorems: the theorems are not vacuous
    and apply to what Pipeline.check_trees constructs. *)
From HCTL Require Import Base Syntax TT Ops Eval Pipeline Kripke HCTL.
From HCTL Require Import TTFacts OpsFacts EvalPure Main.

Lemma range_length m : length (range m) = m.
Proof. induction m as [|m IH]; simpl; [reflexivity|]. rewrite app_length, IH. simpl. lia. Qed.

Lemma NoDup_app_intro {A} (l1 l2 : list A) :
  NoDup l1 -> NoDup l2 -> (forall x, In x l1 -> In x l2 -> False) -> NoDup (l1 ++ l2).
Proof.
  intros H1 H2 Hd. induction H1 as [|x l Hx H1 IH]; simpl; [assumption|].
  constructor.
  - intro Hin. apply in_app_iff in Hin. destruct Hin as [Hin|Hin]; [contradiction|].
    apply (Hd x); [left; reflexivity | assumption].
  - apply IH. intros y Hy Hy2. apply (Hd y); [right; assumption | assumption].
Qed.

Lemma NoDup_range m : NoDup (range m).
Proof.
  induction m as [|m IH]; simpl; [constructor|].
  apply NoDup_app_intro; [assumption | constructor; [intros []|constructor] |].
  intros x Hx [->|[]]. apply in_range in Hx. lia.
Qed.

Lemma NoDup_map_inj {A B} (f : A -> B) l : (forall x y, f x = f y -> x = y) -> NoDup l -> NoDup (map f l).
Proof.
  intros Hinj H. induction H as [|x l Hx H IH]; simpl; constructor; [|assumption].
  intro Hin. apply in_map_iff in Hin. destruct Hin as [y [Hy Hyl]]. apply Hinj in Hy. subst. contradiction.
Qed.

(** membership in the layout *)
Lemma in_var_block k i g : In g (var_block k i) <-> g = TS i \/ exists e, e < k /\ g = TX i e.
Proof.
  unfold var_block. simpl. rewrite in_map_iff. split.
  - intros [H|[e [H He]]]; [left; auto | right; exists e; split; [apply in_range; assumption | auto]].
  - intros [H|[e [He H]]]; [left; auto | right; exists e; split; [auto | apply in_range; assumption]].
Qed.

Lemma in_mk_layout p n k g :
  In g (mk_layout p n k) <->
  match g with
  | TP j => j < p
  | TS i => i < n
  | TX i e => i < n /\ e < k
  end.
Proof.
  unfold mk_layout. rewrite in_app_iff, in_map_iff, in_flat_map. split.
  - intros [[j [Hj Hin]]|[i [Hi Hin]]].
    + subst g. apply in_range. assumption.
    + apply in_range in Hi. apply in_var_block in Hin. destruct Hin as [->|[e [He ->]]]; auto.
  - destruct g as [j|i|i e]; intro H.
    + left. exists j. split; [reflexivity | apply in_range; assumption].
    + right. exists i. split; [apply in_range; assumption | apply in_var_block; left; reflexivity].
    + right. exists i. destruct H as [Hi He]. split; [apply in_range; assumption |].
      apply in_var_block. right. exists e. auto.
Qed.

Lemma NoDup_var_block k i : NoDup (var_block k i).
Proof.
  unfold var_block. constructor.
  - intro H. apply in_map_iff in H. destruct H as [e [H _]]. discriminate.
  - apply NoDup_map_inj; [intros x y H; congruence | apply NoDup_range].
Qed.

Lemma NoDup_flat_blocks k l : NoDup l -> NoDup (flat_map (var_block k) l).
Proof.
  intro H. induction H as [|i l Hi H IH]; cbn [flat_map]; [constructor|].
  apply NoDup_app_intro; [apply NoDup_var_block | assumption |].
  intros g Hg Hg'. apply in_var_block in Hg. apply in_flat_map in Hg'.
  destruct Hg' as [i' [Hi' Hg']]. apply in_var_block in Hg'.
  assert (i = i') by (destruct Hg as [->|[e [_ ->]]]; destruct Hg' as [E|[e' [_ E]]]; congruence).
  subst. contradiction.
Qed.

Lemma NoDup_mk_layout p n k : NoDup (mk_layout p n k).
Proof.
  unfold mk_layout. apply NoDup_app_intro.
  - apply NoDup_map_inj; [intros x y H; congruence | apply NoDup_range].
  - apply NoDup_flat_blocks, NoDup_range.
  - intros g Hg Hg'. apply in_map_iff in Hg. destruct Hg as [j [<- _]].
    apply in_flat_map in Hg'. destruct Hg' as [i [_ Hg']]. apply in_var_block in Hg'.
    destruct Hg' as [E|[e [_ E]]]; discriminate.
Qed.

(** [expand]: a tree over the kept levels, lifted to the whole layout *)
Lemma shaped_expand keep L : forall t, shaped (filter keep L) t -> shaped L (expand keep L t).
Proof.
  induction L as [|h L IH]; intros t H; simpl in *; [exact H|].
  destruct (keep h) eqn:K.
  - simpl in H. destruct t as [b|lo hi]; [contradiction|]. destruct H as [H1 H2]. simpl. auto.
  - simpl. split; apply IH; assumption.
Qed.

Lemma mem_expand keep L : forall t v, shaped (filter keep L) t ->
  mem L (expand keep L t) v = mem (filter keep L) t v.
Proof.
  induction L as [|h L IH]; intros t v H; simpl in *; [reflexivity|].
  destruct (keep h) eqn:K.
  - simpl in H. destruct t as [b|lo hi]; [contradiction|]. destruct H as [H1 H2]. simpl.
    destruct (v h); apply IH; assumption.
  - simpl. destruct (v h); apply IH; assumption.
Qed.

Lemma filter_not_extra_layout p n k :
  filter not_extra (mk_layout p n k) = map TP (range p) ++ map TS (range n).
Proof.
  unfold mk_layout. rewrite filter_app. f_equal.
  - induction (range p) as [|j l IH]; simpl; [reflexivity|]. rewrite IH. reflexivity.
  - induction (range n) as [|i l IH]; simpl; [reflexivity|]. rewrite filter_app, IH.
    replace (filter not_extra (map (TX i) (range k))) with (@nil tag); [reflexivity|].
    induction (range k) as [|e l' IH']; simpl; [reflexivity | assumption].
Qed.

Definition Lpn (p n : nat) : layout := map TP (range p) ++ map TS (range n).

Lemma index_of_bound nm l : forall i j, index_of nm l i = Some j -> j < i + length l.
Proof.
  induction l as [|y l IH]; intros i j H; simpl in *; [discriminate|].
  destruct (str_eqb nm y).
  - injection H as <-. lia.
  - apply IH in H. lia.
Qed.

(** the graph and unit built by the pipeline are well-formed *)
Theorem mk_genv_wf p n k (upd_pn : list tt) (unit_pn : tt) (names : list str) :
  List.Forall (shaped (Lpn p n)) upd_pn ->
  shaped (Lpn p n) unit_pn ->
  (forall v w, (forall j, v (TP j) = w (TP j)) -> mem (Lpn p n) unit_pn v = mem (Lpn p n) unit_pn w) ->
  length names <= n ->
  wf_env (mk_genv p n k upd_pn) names (expand not_extra (mk_layout p n k) unit_pn).
Proof.
  intros Hupd Hunit Hcol Hnames.
  set (L := mk_layout p n k).
  assert (EL : g_L (mk_genv p n k upd_pn) = L) by reflexivity.
  assert (FL : filter not_extra L = Lpn p n) by apply filter_not_extra_layout.
  assert (Hup : forall i, shaped L (upd_of (mk_genv p n k upd_pn) i) /\
              forall v w, (forall g, is_extra_tag g = false -> v g = w g) ->
                mem L (upd_of (mk_genv p n k upd_pn) i) v = mem L (upd_of (mk_genv p n k upd_pn) i) w).
  { intro i. unfold upd_of. simpl. fold L.
    change (empty (mk_genv p n k upd_pn)) with (const L false).
    destruct (nth_in_or_default i (map (expand (fun g => negb (is_extra_tag g)) L) upd_pn) (const L false)) as [Hin|Hd].
    - apply in_map_iff in Hin. destruct Hin as [t [Ht Hin]]. rewrite <- Ht.
      assert (St : shaped (filter not_extra L) t).
      { rewrite FL. rewrite List.Forall_forall in Hupd. apply Hupd. assumption. }
      split; [apply (shaped_expand not_extra); assumption|].
      intros v w Hvw. change (fun g => negb (is_extra_tag g)) with not_extra.
      rewrite !mem_expand by assumption. apply mem_agree.
      intros g Hg. apply filter_In in Hg. destruct Hg as [_ Hg]. unfold not_extra in Hg.
      apply negb_true_iff in Hg. apply Hvw. assumption.
    - rewrite Hd. split; [apply shaped_const|]. intros v w _. rewrite !mem_const. reflexivity. }
  constructor.
  - apply NoDup_mk_layout.
  - intro i. apply Hup.
  - intros i Hi. rewrite EL. apply in_mk_layout. exact Hi.
  - intros i e Hi He. rewrite EL. apply in_mk_layout. split; assumption.
  - intros i Hi. rewrite EL in Hi. apply in_mk_layout in Hi. exact Hi.
  - intros i e Hi. rewrite EL in Hi. apply in_mk_layout in Hi. apply Hi.
  - intros nm i Hi. apply index_of_bound in Hi. simpl in *. lia.
  - intro i. apply Hup.
  - rewrite EL. apply (shaped_expand not_extra). rewrite FL. assumption.
  - intros v w Hvw. rewrite EL. rewrite !mem_expand by (rewrite FL; assumption).
    rewrite FL. apply Hcol. assumption.
Qed.

(** a concrete instance: two variables, one parameter bit, one spare copy *)
Example wf_instance :
  wf_env (mk_genv 1 2 1 [const (Lpn 1 2) true; lit (Lpn 1 2) (TS 0)]) [[97%N]; [98%N]]
         (expand not_extra (mk_layout 1 2 1) (const (Lpn 1 2) true)).
Proof.
  apply mk_genv_wf.
  - constructor; [apply shaped_const|]. constructor; [apply shaped_lit | constructor].
  - apply shaped_const.
  - intros v w _. rewrite !mem_const. reflexivity.
  - simpl. lia.
Qed.
