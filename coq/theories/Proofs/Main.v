(** Top-level statements about [eval_node], assembled from the operator facts. *)
From HCTL Require Import Base Syntax Canon MarkDup TT Ops Eval Kripke HCTL.
From HCTL Require Import TTFacts OpsFacts FixFacts SemFacts HybridFacts EvalPure.

(** What the model assumes about a symbolic graph and its unit set (the library interface):
    the layout has no repeated variable, contains exactly the state bits and spare copies of
    the n variables, update functions are well-shaped sets that do not read the spare copies,
    proposition names resolve to variables, and the unit set only constrains the colour. *)
Record wf_env (G : genv) (names : list str) (U : tt) : Prop := {
  wf_nodup : NoDup (g_L G);
  wf_upd_shaped : forall i, shaped (g_L G) (upd_of G i);
  wf_TS_in : forall i, i < g_n G -> In (TS i) (g_L G);
  wf_TX_in : forall i e, i < g_n G -> e < g_k G -> In (TX i e) (g_L G);
  wf_TS_bound : forall i, In (TS i) (g_L G) -> i < g_n G;
  wf_TX_bound : forall i e, In (TX i e) (g_L G) -> i < g_n G;
  wf_names : forall nm i, index_of nm names 0 = Some i -> i < g_n G;
  wf_upd_extras : forall i v w, (forall g, is_extra_tag g = false -> v g = w g) ->
      mem (g_L G) (upd_of G i) v = mem (g_L G) (upd_of G i) w;
  wf_U_shaped : shaped (g_L G) U;
  wf_U_colour : forall v w, (forall j, v (TP j) = w (TP j)) -> mem (g_L G) U v = mem (g_L G) U w;
}.

Section Main.
Variable G : genv.
Variable names : list str.
Variable U : tt.
Hypothesis WF : wf_env G names U.
Variable Gamma : str -> val -> Prop.
Local Notation L := (g_L G).
Local Notation st := (steady_of G U).

(** [peval] denotes [sat] *)
Theorem peval_correct sw t R : plainf t -> supported G t ->
  peval G names sw st t U = Ok R -> spec_of G U R (sat G names Gamma t).
Proof.
  destruct WF. intros. eapply peval_sound; eauto.
Qed.

(** eval_node, driven with a context that marks no duplicates (pattern shortcuts on or off),
    returns exactly the valuations of the unit that satisfy the formula *)
Theorem eval_node_correct sw t c R c' : plainf t -> supported G t -> duplicates c = [] ->
  eval_node G names sw st t U c = Ok (R, c') ->
  shaped L R /\
  forall v, mem L R v = true <-> (mem L U v = true /\ sat G names Gamma t v).
Proof.
  intros Hpl Hsup Hd H.
  destruct (eval_node_nodup G names sw st t U c Hpl Hd) as [c1 [_ E]].
  rewrite E in H.
  destruct (peval G names sw st t U) as [r| | |] eqn:EP; simpl in H; try discriminate.
  injection H as <- <-.
  exact (peval_correct sw t r Hpl Hsup EP).
Qed.

(** results stay inside the unit *)
Corollary eval_node_within_unit sw t c R c' : plainf t -> supported G t -> duplicates c = [] ->
  eval_node G names sw st t U c = Ok (R, c') ->
  forall v, mem L R v = true -> mem L U v = true.
Proof.
  intros Hpl Hsup Hd H v Hv.
  destruct (eval_node_correct sw t c R c' Hpl Hsup Hd H) as [_ E]. apply E in Hv. tauto.
Qed.

(** the pattern shortcuts do not change the result *)
Theorem shortcuts_agree t c1 c2 R1 R2 c1' c2' : plainf t -> supported G t ->
  duplicates c1 = [] -> duplicates c2 = [] ->
  eval_node G names {| use_patterns := true |} st t U c1 = Ok (R1, c1') ->
  eval_node G names {| use_patterns := false |} st t U c2 = Ok (R2, c2') ->
  R1 = R2.
Proof.
  intros Hpl Hsup Hd1 Hd2 H1 H2.
  destruct (eval_node_correct _ t c1 R1 c1' Hpl Hsup Hd1 H1) as [S1 E1].
  destruct (eval_node_correct _ t c2 R2 c2' Hpl Hsup Hd2 H2) as [S2 E2].
  apply (tt_ext L); try assumption; [apply (wf_nodup _ _ _ WF)|].
  intro v. destruct (mem L R1 v) eqn:A; destruct (mem L R2 v) eqn:B; try reflexivity.
  - apply E1 in A. apply E2 in A. congruence.
  - apply E2 in B. apply E1 in B. congruence.
Qed.

End Main.
