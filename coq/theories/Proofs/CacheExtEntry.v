(** The extended string entry point: what [validate_all] (extended syntax) returns satisfies
    the side conditions of the cache invariant of CacheExt.v, with the context predicates
    [Gamma_of] of the user's context map. *)
From HCTL Require Import Base Syntax Tokenizer Parser Preprocess Canon MarkDup TT Ops Eval Pipeline Kripke HCTL.
From HCTL Require Import TTFacts OpsFacts EvalPure Main Termination PrepFacts RoundTrip NoPanic ParsedNamed
  LayoutFacts PipelineFacts CacheFacts CacheGen.
From HCTL Require Import ExtSem ExtFix ExtFacts ExtHybrid ExtEval ExtLink CacheExt.

(** * 1. Labels of a formula *)

Fixpoint has_wild (l : str) (t : tree) : Prop :=
  match t with
  | Terminal (AWild p) => l = p
  | Terminal _ => False
  | Unary _ c => has_wild l c
  | Binary _ a b => has_wild l a \/ has_wild l b
  | Hybrid _ _ _ c => has_wild l c
  end.

Fixpoint has_dom (l : str) (t : tree) : Prop :=
  match t with
  | Terminal _ => False
  | Unary _ c => has_dom l c
  | Binary _ a b => has_dom l a \/ has_dom l b
  | Hybrid _ _ d c => d = Some l \/ has_dom l c
  end.

Lemma knownx_intro names wild doms t :
  props_known names t ->
  (forall l, has_wild l t -> alookup str_eqb l wild <> None) ->
  (forall l, has_dom l t -> alookup str_eqb l doms <> None) ->
  knownx names wild doms t.
Proof.
  induction t as [a | o c IH | o a IHa b IHb | o x d c IH]; cbn [props_known has_wild has_dom knownx];
    intros PK HW HD.
  - destruct a as [nm | y | | | p]; try exact I; [exact PK | apply HW; reflexivity].
  - apply IH; assumption.
  - destruct PK. split; [apply IHa | apply IHb]; auto.
  - split; [|apply IH; auto].
    destruct o; try exact I; destruct d as [dl|]; try exact I; apply HD; left; reflexivity.
Qed.

Lemma has_wild_rename l t : forall scope, has_wild l (rename scope t) <-> has_wild l t.
Proof.
  induction t as [a | o c IH | o a IHa b IHb | o x d c IH]; intro scope; cbn [rename has_wild].
  - destruct a; cbn [has_wild]; tauto.
  - apply IH.
  - rewrite IHa, IHb. tauto.
  - destruct (is_quantifier o); cbn [has_wild]; apply IH.
Qed.

Lemma has_dom_rename l t : forall scope, has_dom l (rename scope t) <-> has_dom l t.
Proof.
  induction t as [a | o c IH | o a IHa b IHb | o x d c IH]; intro scope; cbn [rename has_dom].
  - destruct a; cbn [has_dom]; tauto.
  - apply IH.
  - rewrite IHa, IHb. tauto.
  - destruct (is_quantifier o); cbn [has_dom]; rewrite IH; tauto.
Qed.

Lemma in_add_unique x y l : In y (add_unique x l) <-> y = x \/ In y l.
Proof.
  unfold add_unique. destruct (existsb (str_eqb x) l) eqn:E.
  - split; [intro H; right; exact H|]. intros [-> | H]; [|exact H].
    apply existsb_exists in E. destruct E as (z & IN & Q). apply str_eqb_eq in Q. subst z. exact IN.
  - rewrite in_app_iff. cbn [In]. split; [intros [H | [<- | []]]; auto | intros [-> | H]; auto].
Qed.

Lemma collect_wild_spec t : forall acc,
  (forall l, has_wild l t \/ In l (fst acc) -> In l (fst (collect_wild t acc)))
  /\ (forall l, has_dom l t \/ In l (snd acc) -> In l (snd (collect_wild t acc))).
Proof.
  induction t as [a | o c IH | o a IHa b IHb | o x d c IH]; intro acc; cbn [collect_wild has_wild has_dom].
  - destruct a as [nm | y | | | p]; cbn [fst snd]; try (split; intros l [[] | H]; exact H).
    split.
    + intros l [-> | H]; apply in_add_unique; [left; reflexivity | right; exact H].
    + intros l [[] | H]. exact H.
  - apply IH.
  - destruct (IHa acc) as [A1 A2]. destruct (IHb (collect_wild a acc)) as [B1 B2]. split.
    + intros l [[H | H] | H]; apply B1; [right; apply A1; left; exact H | left; exact H | right; apply A1; right; exact H].
    + intros l [[H | H] | H]; apply B2; [right; apply A2; left; exact H | left; exact H | right; apply A2; right; exact H].
  - destruct (IH (match d with Some l => (fst acc, add_unique l (snd acc)) | None => acc end)) as [A1 A2].
    split.
    + intros l [H | H]; apply A1; [left; exact H | right; destruct d; exact H].
    + intros l [[-> | H] | H]; apply A2.
      * right. cbn [snd]. apply in_add_unique. left. reflexivity.
      * left. exact H.
      * right. destruct d; cbn [snd]; [apply in_add_unique; right; exact H | exact H].
Qed.

Lemma pick_context_spec ctx : forall labels r, pick_context labels ctx = Ok r ->
  (forall l, In l labels -> exists s, In (l, s) r)
  /\ (forall l s, In (l, s) r -> alookup str_eqb l ctx = Some s).
Proof.
  induction labels as [|l labels IH]; intros r H; cbn [pick_context] in H.
  - injection H as <-. split; [intros l [] | intros l s []].
  - destruct (alookup str_eqb l ctx) as [s|] eqn:E; [|discriminate].
    destruct (pick_context labels ctx) as [r'| | |]; cbn [bind] in H; try discriminate. injection H as <-.
    destruct (IH r' eq_refl) as [A B]. split.
    + intros l' [<- | IN]; [exists s; left; reflexivity|]. destruct (A l' IN) as [s' H']. exists s'. right. exact H'.
    + intros l' s' [X | IN]; [injection X as <- <-; exact E | apply B, IN].
Qed.

(** * 2. The label maps built by [check_trees] *)

Lemma dedup_in (l : list (str * tt)) x : In x (dedup_labels l) -> In x l.
Proof.
  induction l as [|y l IH]; cbn [dedup_labels fold_right]; [intros []|].
  fold (dedup_labels l). destruct (amem str_eqb (fst y) (dedup_labels l)).
  - intro H. right. apply IH, H.
  - intros [<- | H]; [left; reflexivity | right; apply IH, H].
Qed.

Lemma in_alookup_some {B} (l : str) (s : B) (M : list (str * B)) :
  In (l, s) M -> alookup str_eqb l M <> None.
Proof.
  induction M as [|[l' s'] M IH]; cbn [In alookup]; [intros []|].
  intros [E | IN]; [injection E as -> ->; rewrite str_eqb_refl; discriminate|].
  destruct (str_eqb l l'); [discriminate | apply IH, IN].
Qed.

Lemma dedup_has (L0 : list (str * tt)) l s : In (l, s) L0 -> exists s', In (l, s') (dedup_labels L0).
Proof.
  induction L0 as [|y L0 IH]; cbn [dedup_labels fold_right]; [intros []|].
  fold (dedup_labels L0). intros [-> | IN].
  - cbn [fst]. unfold amem. destruct (alookup str_eqb l (dedup_labels L0)) as [s'|] eqn:E.
    + exists s'. apply alookup_some_in, E.
    + exists s. left. reflexivity.
  - destruct (IH IN) as [s' H]. exists s'. destruct (amem str_eqb (fst y) (dedup_labels L0)); [exact H | right; exact H].
Qed.

Lemma fold_ainsert_has : forall (ds : list (str * tt)) acc l,
  (exists s, In (l, s) ds) \/ alookup str_eqb l acc <> None ->
  alookup str_eqb l (fold_left (fun acc pd => ainsert str_eqb (fst pd) (snd pd) acc) ds acc) <> None.
Proof.
  induction ds as [|[d x] ds IH]; intros acc l H; cbn [fold_left].
  - destruct H as [[s []] | H]. exact H.
  - apply IH. cbn [fst snd]. destruct H as [[s [E | IN]] | H].
    + injection E as -> ->. right. rewrite (alookup_ainsert_same str_eqb str_eqb_eq). discriminate.
    + left. exists s. exact IN.
    + right. destruct (str_eqb l d) eqn:Q.
      * apply str_eqb_eq in Q. subst d. rewrite (alookup_ainsert_same str_eqb str_eqb_eq). discriminate.
      * rewrite (alookup_ainsert_other str_eqb str_eqb_eq); [exact H|].
        intro X. subst d. rewrite str_eqb_refl in Q. discriminate.
Qed.

Lemma alookup_map_lift (f : tt -> tt) (ctx : list (str * tt)) l s :
  alookup str_eqb l ctx = Some s ->
  alookup str_eqb l (map (fun ps => (fst ps, f (snd ps))) ctx) = Some (f s).
Proof.
  induction ctx as [|[l' s'] ctx IH]; cbn [alookup map fst snd]; [discriminate|].
  destruct (str_eqb l l'); [intro H; injection H as ->; reflexivity | exact IH].
Qed.

(** * 3. What [validate_all] returns in the extended syntax *)

Section ValidateX.
Variable ea : N -> bool.
Variable props : list str.
Variable k : nat.
Variable ctx : list (str * tt).

Definition validx (cp cd : list (str * tt)) (t : tree) : Prop :=
  (exists f t0, parse_formula ea true f = Ok t0 /\ preprocess props t0 = Ok t)
  /\ num_hctl_vars t <= k
  /\ (forall l, has_wild l t -> exists s, In (l, s) cp)
  /\ (forall l, has_dom l t -> exists s, In (l, s) cd).

Lemma validx_mono cp cd cp' cd' t :
  (forall x, In x cp -> In x cp') -> (forall x, In x cd -> In x cd') ->
  validx cp cd t -> validx cp' cd' t.
Proof.
  intros H1 H2 (A & B & C & D). split; [exact A|]. split; [exact B|]. split.
  - intros l H. destruct (C l H) as [s IN]. exists s. apply H1, IN.
  - intros l H. destruct (D l H) as [s IN]. exists s. apply H2, IN.
Qed.

Theorem validate_all_ext_spec : forall fs ts cp cd,
  validate_all ea true props k ctx fs = Ok (ts, cp, cd) ->
  List.Forall (validx cp cd) ts
  /\ (forall l s, In (l, s) cp -> alookup str_eqb l ctx = Some s)
  /\ (forall l s, In (l, s) cd -> alookup str_eqb l ctx = Some s).
Proof.
  induction fs as [|f fs IH]; intros ts cp cd H; cbn [validate_all] in H.
  - injection H as <- <- <-. split; [constructor|]. split; intros l s [].
  - unfold parse_and_minimize in H.
    destruct (parse_formula ea true f) as [t0| | |] eqn:PF; cbn [bind] in H; try discriminate.
    destruct (preprocess props t0) as [t| | |] eqn:PP; cbn [bind] in H; try discriminate.
    destruct (Nat.ltb k (num_hctl_vars t)) eqn:LT; [discriminate|]. apply Nat.ltb_ge in LT.
    unfold divide_wild_cards in H.
    destruct (collect_wild t ([], [])) as [ps ds] eqn:CW.
    destruct (pick_context ps ctx) as [cp1| | |] eqn:P1; cbn [bind] in H; try discriminate.
    destruct (pick_context ds ctx) as [cd1| | |] eqn:P2; cbn [bind] in H; try discriminate.
    destruct (validate_all ea true props k ctx fs) as [[[ts' cp'] cd']| | |] eqn:V; cbn [bind] in H; try discriminate.
    injection H as <- <- <-. cbn [fst snd].
    destruct (IH ts' cp' cd' eq_refl) as (F & C1 & C2).
    destruct (pick_context_spec ctx ps cp1 P1) as [A1 B1].
    destruct (pick_context_spec ctx ds cd1 P2) as [A2 B2].
    destruct (collect_wild_spec t ([], [])) as [W1 W2]. rewrite CW in W1, W2. cbn [fst snd] in W1, W2.
    split; [|split].
    + constructor.
      * split; [exists f, t0; split; assumption|]. split; [exact LT|]. split.
        -- intros l Hl. destruct (A1 l (W1 l (or_introl Hl))) as [s IN]. exists s. apply in_or_app. left. exact IN.
        -- intros l Hl. destruct (A2 l (W2 l (or_introl Hl))) as [s IN]. exists s. apply in_or_app. left. exact IN.
      * eapply Forall_impl; [|exact F]. intros t1. apply validx_mono; intros x IN; apply in_or_app; right; exact IN.
    + intros l s IN. apply in_app_or in IN. destruct IN as [IN | IN]; [apply B1, IN | apply C1, IN].
    + intros l s IN. apply in_app_or in IN. destruct IN as [IN | IN]; [apply B2, IN | apply C2, IN].
Qed.

End ValidateX.

(** * 4. The side conditions of CacheExt.v hold *)

Section EntryX.
Variable ea : N -> bool.
Variable w : world.
Variable k : nat.
Hypothesis upd_ok : List.Forall (shaped (Lpn (w_p w) (w_n w))) (w_upd w).
Hypothesis unit_ok : shaped (Lpn (w_p w) (w_n w)) (w_unit w).
Hypothesis unit_colour : forall v v', (forall j, v (TP j) = v' (TP j)) ->
  mem (Lpn (w_p w) (w_n w)) (w_unit w) v = mem (Lpn (w_p w) (w_n w)) (w_unit w) v'.
Hypothesis names_ok : length (w_names w) <= w_n w.

(** the user's context map: sets over colours and states *)
Variable ctx : list (str * tt).
Hypothesis ctx_shaped : forall l s, alookup str_eqb l ctx = Some s -> shaped (Lpn (w_p w) (w_n w)) s.

Local Notation G := (genv_of w k).
Local Notation U := (unit_of w k).

(** the same map, lifted to the layout with spare copies *)
Definition ctx_lifted : list (str * tt) := map (fun ps => (fst ps, lift w k (snd ps))) ctx.

Lemma ctx_lifted_ok : ctx_sets_ok G ctx_lifted.
Proof.
  intros l s E. unfold ctx_lifted in E.
  assert (exists s', alookup str_eqb l ctx = Some s' /\ s = lift w k s') as (s' & E' & ->).
  { clear -E. induction ctx as [|[l' s''] c IH]; cbn [map alookup fst snd] in *; [discriminate|].
    destruct (str_eqb l l'); [injection E as <-; exists s''; split; reflexivity | apply IH, E]. }
  exact (lifted_set_ok (w_p w) (w_n w) k (w_upd w) s' (ctx_shaped l s' E')).
Qed.

Variable cp cd : list (str * tt).
Hypothesis cp_ctx : forall l s, In (l, s) cp -> alookup str_eqb l ctx = Some s.
Hypothesis cd_ctx : forall l s, In (l, s) cd -> alookup str_eqb l ctx = Some s.

Lemma lifted_in (L0 : list (str * tt)) l s :
  (forall l0 s0, In (l0, s0) L0 -> alookup str_eqb l0 ctx = Some s0) ->
  In (l, s) (map (fun ps => (fst ps, lift w k (snd ps))) (dedup_labels L0)) ->
  alookup str_eqb l ctx_lifted = Some s.
Proof.
  intros HC IN. apply in_map_iff in IN. destruct IN as ([l' s'] & E & IN). cbn [fst snd] in E.
  injection E as <- <-. apply dedup_in in IN. unfold ctx_lifted. apply alookup_map_lift, HC, IN.
Qed.

Lemma wild_picked : picked_from_ctx ctx_lifted (wild_of w k cp).
Proof.
  intros l s E. apply alookup_some_in in E. unfold wild_of in E. apply in_rev in E.
  exact (lifted_in cp l s cp_ctx E).
Qed.

Lemma doms_picked : picked_from_ctx ctx_lifted (doms_of w k cp cd).
Proof.
  intros l s E. unfold doms_of, extend_context in E. cbn [domain_sets set_domsets] in E.
  apply fold_ainsert_in in E. destruct E as [IN | E].
  - exact (lifted_in cd l s cd_ctx IN).
  - rewrite extend_props_domsets in E. discriminate E.
Qed.

Lemma validx_topx t : validx ea (w_names w) k cp cd t ->
  topx ea G (w_names w) (wild_of w k cp) (doms_of w k cp cd) t.
Proof.
  intros ((f & t0 & PF & PP) & LE & HW & HD).
  destruct (preprocess_bridge (w_names w) t0 t PP) as (_ & PK & DN & _ & SUP).
  pose proof (proj1 (preprocess_ok_iff _ _ _) PP) as [_ ER].
  split; [|split; [exact DN | exact (preprocessed_scoped G (w_names w) t0 t PP LE)]].
  split; [|split; [|apply SUP; exact LE]].
  - rewrite ER. apply rename_well_named. eapply parsed_well_named. exact PF.
  - apply knownx_intro; [exact PK | |].
    + intros l Hl. destruct (HW l Hl) as [s IN]. destruct (dedup_has cp l s IN) as [s' IN'].
      apply (in_alookup_some l (lift w k s')). unfold wild_of. apply in_rev. rewrite rev_involutive.
      unfold wprops_of. apply in_map_iff. exists (l, s'). split; [reflexivity | exact IN'].
    + intros l Hl. destruct (HD l Hl) as [s IN]. destruct (dedup_has cd l s IN) as [s' IN'].
      unfold doms_of, extend_context. cbn [domain_sets set_domsets]. apply fold_ainsert_has. left.
      exists (lift w k s'). unfold dprops_of. apply in_map_iff. exists (l, s'). split; [reflexivity | exact IN'].
Qed.

End EntryX.

(** the extended string entry point: duplicate marking does not change the outcome *)
Theorem model_check_cache_mode_irrelevantX ea (w : world) k m m' ctx fs :
  List.Forall (shaped (Lpn (w_p w) (w_n w))) (w_upd w) ->
  shaped (Lpn (w_p w) (w_n w)) (w_unit w) ->
  (forall v v', (forall j, v (TP j) = v' (TP j)) ->
     mem (Lpn (w_p w) (w_n w)) (w_unit w) v = mem (Lpn (w_p w) (w_n w)) (w_unit w) v') ->
  length (w_names w) <= w_n w ->
  (forall l s, alookup str_eqb l ctx = Some s -> shaped (Lpn (w_p w) (w_n w)) s) ->
  m_ext m = true -> m_unsafe_ex m = false -> m_ext m' = true -> m_unsafe_ex m' = false ->
  m_sanitize m = m_sanitize m' -> m_nopatterns m = m_nopatterns m' ->
  model_check ea w k m ctx fs = model_check ea w k m' ctx fs.
Proof.
  intros H1 H2 H3 H4 HC He Hu He' Hu' Hs Hp. unfold model_check. rewrite He, He'.
  destruct (validate_all ea true (w_names w) k ctx fs) as [[[ts cp] cd]| | |] eqn:V; try reflexivity.
  cbn [bind fst snd].
  destruct (validate_all_ext_spec ea (w_names w) k ctx fs ts cp cd V) as (F & C1 & C2).
  pose proof (ctx_lifted_ok w k ctx HC) as CO.
  apply (cache_mode_irrelevantX ea w k H1 H2 H3 H4 cp cd (Gamma_of (genv_of w k) (ctx_lifted w k ctx))
           (Gamma_of_ignores_copies _ _ CO)
           (picked_wild_ok _ _ CO _ (wild_picked w k ctx cp C1))
           (picked_doms_ok _ _ CO _ (doms_picked w k ctx cp cd C2))); try assumption.
  eapply Forall_impl; [|exact F]. intros t. apply validx_topx.
Qed.
