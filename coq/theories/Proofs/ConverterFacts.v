(** Facts about the aeon-to-bnet converter model (Model/Converter.v), property C19. *)
From HCTL Require Import Base Converter.

(** * Induction principle for the nested type [fnupd] *)
Section FnupdInd.
  Variable P : fnupd -> Prop.
  Hypothesis Hc : forall b, P (FConst b).
  Hypothesis Hv : forall v, P (FVar v).
  Hypothesis Hn : forall f, P f -> P (FNot f).
  Hypothesis Hb : forall op l r, P l -> P r -> P (FBin op l r).
  Hypothesis Hp : forall n args, Forall P args -> P (FParam n args).

  Fixpoint fnupd_ind' (f : fnupd) : P f :=
    match f with
    | FConst b => Hc b
    | FVar v => Hv v
    | FNot g => Hn g (fnupd_ind' g)
    | FBin op l r => Hb op l r (fnupd_ind' l) (fnupd_ind' r)
    | FParam n args =>
        Hp n args ((fix go (l : list fnupd) : Forall P l :=
                      match l with
                      | [] => Forall_nil P
                      | a :: l' => Forall_cons a (fnupd_ind' a) (go l')
                      end) args)
    end.
End FnupdInd.

Lemma map_ext_Forall' : forall (A B : Type) (f g : A -> B) (l : list A),
  Forall (fun a => f a = g a) l -> map f l = map g l.
Proof.
  intros A B f g l HF. induction HF as [|a l Ha HF IH]; cbn [map].
  - reflexivity.
  - rewrite Ha, IH. reflexivity.
Qed.

(** * Names *)

Lemma gen_nil : forall p, gen p [] = p.
Proof. intros p. unfold gen. cbn [map]. apply app_nil_r. Qed.

Lemma gen_snoc : forall p b bits, gen (p ++ [bitch b]) bits = gen p (b :: bits).
Proof. intros p b bits. unfold gen. cbn [map]. rewrite <- app_assoc. reflexivity. Qed.

Lemma gen_pname : forall n bits, gen (pname n) bits = n ++ chu :: map bitch bits.
Proof. intros n bits. unfold gen, pname. rewrite <- app_assoc. reflexivity. Qed.

Lemma bitch_not_chu : forall b, N.eqb (bitch b) chu = false.
Proof. intros [|]; reflexivity. Qed.

(** decoding of the bit suffix *)
Fixpoint unbits (w : str) : option (list bool) :=
  match w with
  | [] => Some []
  | c :: w' =>
      if N.eqb c ch1 then option_map (cons true) (unbits w')
      else if N.eqb c ch0 then option_map (cons false) (unbits w')
      else None
  end.

Lemma unbits_bits : forall bits, unbits (map bitch bits) = Some bits.
Proof.
  induction bits as [|b bits IH]; cbn [map unbits].
  - reflexivity.
  - rewrite IH. destruct b; reflexivity.
Qed.

(** removing a known prefix *)
Fixpoint strip (p w : str) : option str :=
  match p, w with
  | [], _ => Some w
  | c :: p', d :: w' => if N.eqb c d then strip p' w' else None
  | _ :: _, [] => None
  end.

Lemma strip_app : forall p w, strip p (p ++ w) = Some w.
Proof.
  induction p as [|c p IH]; intros w; cbn [strip app].
  - reflexivity.
  - rewrite N.eqb_refl. apply IH.
Qed.

(** decoding of a generated name [n ++ "_" ++ bits]: split at the LAST underscore (the bit
    suffix contains none), then decode the bits. *)
Fixpoint decode (w : str) : option (str * list bool) :=
  match w with
  | [] => None
  | c :: w' =>
      match decode w' with
      | Some (n, bits) => Some (c :: n, bits)
      | None => if N.eqb c chu then option_map (fun b => ([], b)) (unbits w') else None
      end
  end.

Lemma decode_bits_none : forall bits, decode (map bitch bits) = None.
Proof.
  induction bits as [|b bits IH]; cbn [map decode].
  - reflexivity.
  - rewrite IH, bitch_not_chu. reflexivity.
Qed.

Lemma decode_gen : forall n bits, decode (gen (pname n) bits) = Some (n, bits).
Proof.
  intros n bits. rewrite gen_pname.
  induction n as [|c n IH]; cbn [app decode].
  - rewrite decode_bits_none, N.eqb_refl, unbits_bits. reflexivity.
  - rewrite IH. reflexivity.
Qed.

(** The naming scheme of the converter is injective: the names generated for different
    function symbols, or for different argument values of one symbol, never coincide.  This
    is where the '_' separator matters (without it, "f" with argument value 1 and a
    zero-arity "f1" would both produce "f1"). *)
Lemma gen_pname_inj : forall n bits n' bits',
  gen (pname n) bits = gen (pname n') bits' -> n = n' /\ bits = bits'.
Proof.
  intros n bits n' bits' E.
  assert (D : decode (gen (pname n) bits) = decode (gen (pname n') bits')) by (rewrite E; reflexivity).
  rewrite !decode_gen in D. inversion D. split; reflexivity.
Qed.

Lemma gen_inj : forall p bits bits', gen p bits = gen p bits' -> bits = bits'.
Proof.
  intros p bits bits' E. unfold gen in E. apply app_inv_head in E.
  assert (D : unbits (map bitch bits) = unbits (map bitch bits')) by (rewrite E; reflexivity).
  rewrite !unbits_bits in D. inversion D. reflexivity.
Qed.

(** * Evaluation *)

Lemma eval_flat_param : forall rho s n args, eval_flat rho s (FParam n args) = rho n.
Proof. reflexivity. Qed.

(** a function without parameters does not depend on the interpretation *)
Lemma eval_param_free : forall I I' s f, has_param f = false -> eval_fn I s f = eval_fn I' s f.
Proof.
  intros I I' s f. induction f as [b|v|g IH|op l IHl r IHr|n args]; cbn [has_param eval_fn]; intros H.
  - reflexivity.
  - reflexivity.
  - rewrite IH by exact H. reflexivity.
  - apply orb_false_iff in H. destruct H as [Hl Hr]. rewrite IHl, IHr by assumption. reflexivity.
  - discriminate H.
Qed.

Lemma eval_flat_param_free : forall rho I s f, has_param f = false -> eval_flat rho s f = eval_fn I s f.
Proof. intros rho I s f H. unfold eval_flat. apply eval_param_free. exact H. Qed.

(** ** explode: the Shannon expansion selects the leaf named by the argument values *)
Lemma explode_eval : forall rho s args p,
  eval_flat rho s (explode args p) = rho (gen p (map (eval_flat rho s) args)).
Proof.
  intros rho s args. induction args as [|a rest IH]; intros p.
  - cbn [explode map]. rewrite gen_nil. reflexivity.
  - cbn [explode map]. unfold eval_flat in *. cbn [eval_fn eval_op].
    rewrite !IH. rewrite <- gen_snoc.
    destruct (eval_fn (fun name _ => rho name) s a); cbn [negb implb andb bitch].
    + rewrite andb_true_r. reflexivity.
    + reflexivity.
Qed.

(** correspondence g <-> rho for one exploded symbol with prefix [p] *)
Definition g_of_rho (p : str) (rho : str -> bool) : list bool -> bool :=
  fun bits => rho (gen p bits).

Definition rho_of_g (p : str) (g : list bool -> bool) : str -> bool :=
  fun name =>
    match strip p name with
    | Some w => match unbits w with Some bits => g bits | None => false end
    | None => false
    end.

Lemma rho_of_g_gen : forall p g bits, rho_of_g p g (gen p bits) = g bits.
Proof. intros p g bits. unfold rho_of_g, gen. rewrite strip_app, unbits_bits. reflexivity. Qed.

Lemma g_of_rho_of_g : forall p g bits, g_of_rho p (rho_of_g p g) bits = g bits.
Proof. intros p g bits. unfold g_of_rho. apply rho_of_g_gen. Qed.

Lemma rho_of_g_of_rho : forall p rho bits, rho_of_g p (g_of_rho p rho) (gen p bits) = rho (gen p bits).
Proof. intros p rho bits. rewrite rho_of_g_gen. reflexivity. Qed.

(** (b): every valuation yields a function of the argument values (no hypothesis on args) *)
Lemma explode_family_b : forall args p rho s,
  eval_flat rho s (explode args p) = g_of_rho p rho (map (eval_flat rho s) args).
Proof. intros args p rho s. unfold g_of_rho. apply explode_eval. Qed.

Lemma map_eval_param_free : forall rho rho' s args,
  forallb (fun a => negb (has_param a)) args = true ->
  map (eval_flat rho s) args = map (eval_flat rho' s) args.
Proof.
  intros rho rho' s args H. apply map_ext_Forall'. apply Forall_forall. intros a Ha.
  rewrite forallb_forall in H. specialize (H a Ha). apply negb_true_iff in H.
  unfold eval_flat. apply eval_param_free. exact H.
Qed.

(** (a): every function of the argument values is obtained from some valuation *)
Lemma explode_family_a : forall args p g rho0 s,
  forallb (fun a => negb (has_param a)) args = true ->
  eval_flat (rho_of_g p g) s (explode args p) = g (map (eval_flat rho0 s) args).
Proof.
  intros args p g rho0 s H. rewrite explode_eval, rho_of_g_gen.
  rewrite (map_eval_param_free _ rho0 s args H). reflexivity.
Qed.

(** only the 2^|args| names [gen p bits] with |bits| = |args| matter *)
Lemma explode_depends_on_generated : forall args p rho rho' s,
  forallb (fun a => negb (has_param a)) args = true ->
  (forall bits, length bits = length args -> rho (gen p bits) = rho' (gen p bits)) ->
  eval_flat rho s (explode args p) = eval_flat rho' s (explode args p).
Proof.
  intros args p rho rho' s H Hag. rewrite !explode_eval.
  rewrite (map_eval_param_free rho rho' s args H). apply Hag. apply map_length.
Qed.

(** the family of functions, as a set equality *)
Lemma explode_family : forall args p rho0,
  forallb (fun a => negb (has_param a)) args = true ->
  forall F : (nat -> bool) -> bool,
    (exists rho, forall s, F s = eval_flat rho s (explode args p)) <->
    (exists g : list bool -> bool, forall s, F s = g (map (eval_flat rho0 s) args)).
Proof.
  intros args p rho0 H F. split.
  - intros [rho HF]. exists (g_of_rho p rho). intros s. rewrite HF, explode_family_b.
    rewrite (map_eval_param_free rho rho0 s args H). reflexivity.
  - intros [g HF]. exists (rho_of_g p g). intros s. rewrite HF.
    symmetry. apply explode_family_a. exact H.
Qed.

(** * flatten *)

Definition I_of_rho (rho : str -> bool) : str -> list bool -> bool :=
  fun n bits => rho (gen (pname n) bits).

Definition rho_of_I (I : str -> list bool -> bool) : str -> bool :=
  fun name => match decode name with Some (n, bits) => I n bits | None => false end.

Lemma rho_of_I_gen : forall I n bits, rho_of_I I (gen (pname n) bits) = I n bits.
Proof. intros I n bits. unfold rho_of_I. rewrite decode_gen. reflexivity. Qed.

Lemma I_of_rho_of_I : forall I n bits, I_of_rho (rho_of_I I) n bits = I n bits.
Proof. intros I n bits. unfold I_of_rho. apply rho_of_I_gen. Qed.

Lemma rho_of_I_of_rho : forall rho n bits,
  rho_of_I (I_of_rho rho) (gen (pname n) bits) = rho (gen (pname n) bits).
Proof. intros rho n bits. rewrite rho_of_I_gen. reflexivity. Qed.

(** every valuation of the fresh names is the image of an interpretation (no hypothesis) *)
Lemma flatten_eval_I_of_rho : forall rho s f,
  eval_flat rho s (flatten f) = eval_fn (I_of_rho rho) s f.
Proof.
  intros rho s f. induction f as [b|v|g IH|op l r IHl IHr|n args IH] using fnupd_ind'.
  - reflexivity.
  - reflexivity.
  - cbn [flatten eval_fn]. unfold eval_flat in *. cbn [eval_fn]. rewrite IH. reflexivity.
  - cbn [flatten eval_fn]. unfold eval_flat in *. cbn [eval_fn]. rewrite IHl, IHr. reflexivity.
  - cbn [flatten eval_fn]. rewrite explode_eval. unfold I_of_rho at 1.
    rewrite map_map. rewrite (map_ext_Forall' _ _ _ _ _ IH). reflexivity.
Qed.

(** every interpretation is matched by a valuation of the fresh names; this direction uses
    the injectivity of the naming scheme ([decode_gen]) *)
Lemma flatten_eval_rho_of_I : forall I s f,
  eval_flat (rho_of_I I) s (flatten f) = eval_fn I s f.
Proof.
  intros I s f. rewrite flatten_eval_I_of_rho.
  induction f as [b|v|g IH|op l r IHl IHr|n args IH] using fnupd_ind'; cbn [eval_fn].
  - reflexivity.
  - reflexivity.
  - rewrite IH. reflexivity.
  - rewrite IHl, IHr. reflexivity.
  - rewrite I_of_rho_of_I. rewrite (map_ext_Forall' _ _ _ _ _ IH). reflexivity.
Qed.

(** only the generated names matter for the flattened function *)
Lemma flatten_depends_on_generated : forall rho s f,
  eval_flat rho s (flatten f) = eval_flat (rho_of_I (I_of_rho rho)) s (flatten f).
Proof. intros rho s f. rewrite flatten_eval_rho_of_I. apply flatten_eval_I_of_rho. Qed.

Lemma flatten_family : forall f (F : (nat -> bool) -> bool),
  (exists rho, forall s, F s = eval_flat rho s (flatten f)) <->
  (exists I, forall s, F s = eval_fn I s f).
Proof.
  intros f F. split.
  - intros [rho HF]. exists (I_of_rho rho). intros s. rewrite HF. apply flatten_eval_I_of_rho.
  - intros [I HF]. exists (rho_of_I I). intros s. rewrite HF. symmetry. apply flatten_eval_rho_of_I.
Qed.

(** ** shape of the output *)
Lemma explode_flat : forall args p, forallb is_flat args = true -> is_flat (explode args p) = true.
Proof.
  induction args as [|a rest IH]; intros p H; cbn [explode is_flat].
  - reflexivity.
  - cbn [forallb] in H. apply andb_true_iff in H. destruct H as [Ha Hr].
    rewrite Ha, !IH by exact Hr. reflexivity.
Qed.

Lemma flatten_flat : forall f, is_flat (flatten f) = true.
Proof.
  intros f. induction f as [b|v|g IH|op l r IHl IHr|n args IH] using fnupd_ind'; cbn [flatten is_flat].
  - reflexivity.
  - reflexivity.
  - exact IH.
  - rewrite IHl, IHr. reflexivity.
  - apply explode_flat. apply forallb_forall. intros a Ha.
    apply in_map_iff in Ha. destruct Ha as [a0 [E Ha0]]. subst a.
    rewrite Forall_forall in IH. apply IH. exact Ha0.
Qed.

(** ** specified functions are untouched *)
Lemma flatten_param_free : forall f, has_param f = false -> flatten f = f.
Proof.
  intros f. induction f as [b|v|g IH|op l IHl r IHr|n args]; cbn [has_param flatten]; intros H.
  - reflexivity.
  - reflexivity.
  - rewrite IH by exact H. reflexivity.
  - apply orb_false_iff in H. destruct H as [Hl Hr]. rewrite IHl, IHr by assumption. reflexivity.
  - discriminate H.
Qed.

Lemma flatten_rs_param_free : forall isvar fuel f, has_param f = false -> flatten_rs isvar fuel f = f.
Proof.
  intros isvar fuel f. induction f as [b|v|g IH|op l IHl r IHr|n args]; cbn [has_param flatten_rs]; intros H.
  - reflexivity.
  - reflexivity.
  - rewrite IH by exact H. reflexivity.
  - apply orb_false_iff in H. destruct H as [Hl Hr]. rewrite IHl, IHr by assumption. reflexivity.
  - discriminate H.
Qed.

(** * The collision loop *)

(** Sufficient condition under which the loop of [explode_function] never fires: no name
    generated for a symbol occurrence of [f] is the name of a network variable. *)
Inductive clash_free (isvar : str -> bool) : fnupd -> Prop :=
| CF_const : forall b, clash_free isvar (FConst b)
| CF_var : forall v, clash_free isvar (FVar v)
| CF_not : forall g, clash_free isvar g -> clash_free isvar (FNot g)
| CF_bin : forall op l r, clash_free isvar l -> clash_free isvar r -> clash_free isvar (FBin op l r)
| CF_param : forall n args,
    (forall bits, length bits = length args -> isvar (gen (pname n) bits) = false) ->
    Forall (clash_free isvar) args ->
    clash_free isvar (FParam n args).

Lemma bump_not_var : forall isvar fuel name, isvar name = false -> bump isvar fuel name = name.
Proof. intros isvar [|k] name H; cbn [bump]; [|rewrite H]; reflexivity. Qed.

Lemma explode_rs_eq : forall isvar fuel args p,
  (forall bits, length bits = length args -> isvar (gen p bits) = false) ->
  explode_rs isvar fuel args p = explode args p.
Proof.
  intros isvar fuel args. induction args as [|a rest IH]; intros p H; cbn [explode_rs explode].
  - rewrite bump_not_var; [reflexivity|]. rewrite <- (gen_nil p). apply H. reflexivity.
  - rewrite !IH; [reflexivity| |].
    + intros bits Hl. change [ch0] with [bitch false]. rewrite gen_snoc. apply H. cbn [length]. lia.
    + intros bits Hl. change [ch1] with [bitch true]. rewrite gen_snoc. apply H. cbn [length]. lia.
Qed.

Lemma flatten_rs_eq : forall isvar fuel f, clash_free isvar f -> flatten_rs isvar fuel f = flatten f.
Proof.
  intros isvar fuel f. induction f as [b|v|g IH|op l r IHl IHr|n args IH] using fnupd_ind';
    intros CF; cbn [flatten_rs flatten].
  - reflexivity.
  - reflexivity.
  - inversion CF as [| |g' Hg| |]; subst. rewrite IH by exact Hg. reflexivity.
  - inversion CF as [| | |op' l' r' Hl Hr|]; subst. rewrite IHl, IHr by assumption. reflexivity.
  - inversion CF as [| | | |n' args' Hnames Hargs]; subst.
    assert (E : map (flatten_rs isvar fuel) args = map flatten args).
    { apply map_ext_Forall'. rewrite Forall_forall in *. intros a Ha. apply IH; [exact Ha|]. apply Hargs. exact Ha. }
    rewrite E. apply explode_rs_eq. intros bits Hl. apply Hnames. rewrite Hl. apply map_length.
Qed.

Lemma flatten_rs_family : forall isvar fuel f, clash_free isvar f ->
  forall F : (nat -> bool) -> bool,
    (exists rho, forall s, F s = eval_flat rho s (flatten_rs isvar fuel f)) <->
    (exists I, forall s, F s = eval_fn I s f).
Proof. intros isvar fuel f CF F. rewrite flatten_rs_eq by exact CF. apply flatten_family. Qed.

(** Some hypothesis on the variable names is needed in the model: if "f_" is a variable, the
    zero-arity symbols "f" and "f_" are both sent to "f__".  (The library forbids a parameter
    named like a variable, so this particular network cannot be built; [clash_free] is a
    sufficient condition, not a necessary one.) *)
Definition clash_isvar : str -> bool := str_eqb [102; 95]%N.
Definition clash_fn : fnupd := FBin BXor (FParam [102]%N []) (FParam [102; 95]%N []).

Lemma clash_example :
  flatten_rs clash_isvar 3 clash_fn = FBin BXor (FParam [102; 95; 95]%N []) (FParam [102; 95; 95]%N []) /\
  exists I, forall rho s, eval_flat rho s (flatten_rs clash_isvar 3 clash_fn) <> eval_fn I s clash_fn.
Proof.
  split; [reflexivity|].
  exists (fun n _ => str_eqb n [102]%N). intros rho s.
  change (xorb (rho [102; 95; 95]%N) (rho [102; 95; 95]%N) <> true).
  rewrite xorb_nilpotent. discriminate.
Qed.

(** * One variable of the network *)

(** the update function of a variable, an implicit one being read as the application of a
    function symbol named like the variable to its regulators (parameter names differ from
    variable names in the library, so this symbol is distinct from the explicit ones) *)
Definition update_of (name : str) (regs : list nat) (upd : option fnupd) : fnupd :=
  match upd with
  | Some f => f
  | None => FParam name (map FVar regs)
  end.

Lemma flatten_update_regulated : forall name regs upd, regs <> [] ->
  flatten_update name regs upd = Some (flatten (update_of name regs upd)).
Proof.
  intros name [|r regs] upd H; [congruence|].
  unfold flatten_update, update_of. destruct upd as [f|]; [reflexivity|].
  cbn [flatten]. rewrite map_map. cbn [flatten]. reflexivity.
Qed.

Lemma flatten_update_unregulated : forall name upd, flatten_update name [] upd = upd.
Proof. reflexivity. Qed.

Lemma str_eqb_refl : forall p : str, str_eqb p p = true.
Proof.
  unfold str_eqb. induction p as [|c p IH]; cbn [list_eqb]; [reflexivity|].
  rewrite N.eqb_refl, IH. reflexivity.
Qed.

Lemma str_eqb_pname : forall p : str, str_eqb (pname p) p = false.
Proof.
  unfold str_eqb, pname. induction p as [|c p IH]; cbn [list_eqb app]; [reflexivity|].
  rewrite N.eqb_refl. cbn [andb]. exact IH.
Qed.

(** Variables without regulators are skipped, so a parameter in their update function keeps
    its name while the same parameter is renamed everywhere else: the link between the two
    occurrences is lost. *)
Lemma skipped_variable_decorrelated : forall p : str,
  let fa := FParam p [] in
  flatten_update [97]%N [] (Some fa) = Some fa /\
  flatten_update [98]%N [0] (Some fa) = Some (FParam (pname p) []) /\
  exists rho, forall s, eval_flat rho s fa <> eval_flat rho s (FParam (pname p) []).
Proof.
  intros p fa. repeat split.
  exists (fun n => str_eqb n p). intros s. unfold fa. rewrite !eval_flat_param.
  rewrite str_eqb_refl, str_eqb_pname. discriminate.
Qed.

(** * The collision loop, exactly: the family is preserved whenever the names that the loop
    finally produces are pairwise distinct on the symbol occurrences at hand. *)

Lemma str_eqb_true : forall a b : str, str_eqb a b = true -> a = b.
Proof.
  unfold str_eqb. induction a as [|x a IH]; intros [|y b] H; cbn [list_eqb] in H; try discriminate H.
  - reflexivity.
  - apply andb_true_iff in H. destruct H as [Hx Hab]. apply N.eqb_eq in Hx. subst y.
    rewrite (IH b Hab). reflexivity.
Qed.

(** symbol occurrences of a function, with their arity *)
Fixpoint occs (f : fnupd) : list (str * nat) :=
  match f with
  | FConst _ | FVar _ => []
  | FNot g => occs g
  | FBin _ l r => occs l ++ occs r
  | FParam n args => (n, length args) :: flat_map occs args
  end.

Fixpoint all_bits (k : nat) : list (list bool) :=
  match k with
  | 0 => [[]]
  | S k' => map (cons true) (all_bits k') ++ map (cons false) (all_bits k')
  end.

Lemma all_bits_complete : forall bits, In bits (all_bits (length bits)).
Proof.
  induction bits as [|b bits IH]; cbn [length all_bits].
  - left. reflexivity.
  - apply in_or_app. destruct b; [left|right]; apply in_map; exact IH.
Qed.

Lemma all_bits_length : forall k bits, In bits (all_bits k) -> length bits = k.
Proof.
  induction k as [|k IH]; intros bits H; cbn [all_bits] in H.
  - destruct H as [H|[]]. subst bits. reflexivity.
  - apply in_app_or in H. destruct H as [H|H]; apply in_map_iff in H; destruct H as [b0 [E Hb0]];
      subst bits; cbn [length]; rewrite (IH b0 Hb0); reflexivity.
Qed.

(** all (symbol, argument values) pairs of a list [C] of (symbol, arity) pairs *)
Definition cands (C : list (str * nat)) : list (str * list bool) :=
  flat_map (fun nk => map (pair (fst nk)) (all_bits (snd nk))) C.

Lemma in_cands : forall C n bits, In (n, length bits) C -> In (n, bits) (cands C).
Proof.
  intros C n bits H. unfold cands. apply in_flat_map. exists (n, length bits). split; [exact H|].
  cbn [fst snd]. apply in_map. apply all_bits_complete.
Qed.

Lemma cands_in : forall C n bits, In (n, bits) (cands C) -> In (n, length bits) C.
Proof.
  intros C n bits H. unfold cands in H. apply in_flat_map in H. destruct H as [[n0 k] [HC H]].
  cbn [fst snd] in H. apply in_map_iff in H. destruct H as [b0 [E Hb0]]. inversion E; subst.
  rewrite (all_bits_length k bits Hb0). exact HC.
Qed.

(** the name finally used for the leaf of symbol [fst c] selected by argument values [snd c] *)
Definition name_rs (isvar : str -> bool) (fuel : nat) (c : str * list bool) : str :=
  bump isvar fuel (gen (pname (fst c)) (snd c)).

(** FRESHNESS HYPOTHESIS: the final names of the occurrences [C] are pairwise distinct *)
Definition names_distinct (isvar : str -> bool) (fuel : nat) (C : list (str * nat)) : Prop :=
  forall c1 c2, In c1 (cands C) -> In c2 (cands C) ->
    name_rs isvar fuel c1 = name_rs isvar fuel c2 -> c1 = c2.

Definition I_of_rho_rs (isvar : str -> bool) (fuel : nat) (rho : str -> bool) : str -> list bool -> bool :=
  fun n bits => rho (name_rs isvar fuel (n, bits)).

Definition rho_of_I_rs (isvar : str -> bool) (fuel : nat) (C : list (str * nat))
    (I : str -> list bool -> bool) : str -> bool :=
  fun w =>
    match find (fun c => str_eqb (name_rs isvar fuel c) w) (cands C) with
    | Some c => I (fst c) (snd c)
    | None => false
    end.

Lemma rho_of_I_rs_name : forall isvar fuel C I n bits,
  names_distinct isvar fuel C -> In (n, length bits) C ->
  rho_of_I_rs isvar fuel C I (name_rs isvar fuel (n, bits)) = I n bits.
Proof.
  intros isvar fuel C I n bits ND HC. unfold rho_of_I_rs.
  pose proof (in_cands C n bits HC) as Hin.
  destruct (find _ (cands C)) as [c|] eqn:Ef.
  - apply find_some in Ef. destruct Ef as [Hc Heq]. apply str_eqb_true in Heq.
    rewrite (ND c (n, bits) Hc Hin Heq). reflexivity.
  - pose proof (find_none _ _ Ef (n, bits) Hin) as Hn. cbn beta in Hn.
    rewrite str_eqb_refl in Hn. discriminate Hn.
Qed.

Lemma explode_rs_eval : forall isvar fuel rho s args p,
  eval_flat rho s (explode_rs isvar fuel args p) =
  rho (bump isvar fuel (gen p (map (eval_flat rho s) args))).
Proof.
  intros isvar fuel rho s args. induction args as [|a rest IH]; intros p.
  - cbn [explode_rs map]. rewrite gen_nil. reflexivity.
  - cbn [explode_rs map]. unfold eval_flat in *. cbn [eval_fn eval_op].
    rewrite !IH. rewrite <- gen_snoc.
    destruct (eval_fn (fun name _ => rho name) s a); cbn [negb implb andb bitch].
    + rewrite andb_true_r. reflexivity.
    + reflexivity.
Qed.

(** valuation -> interpretation: no hypothesis at all *)
Lemma flatten_rs_eval_I_of_rho : forall isvar fuel rho s f,
  eval_flat rho s (flatten_rs isvar fuel f) = eval_fn (I_of_rho_rs isvar fuel rho) s f.
Proof.
  intros isvar fuel rho s f. induction f as [b|v|g IH|op l r IHl IHr|n args IH] using fnupd_ind'.
  - reflexivity.
  - reflexivity.
  - cbn [flatten_rs eval_fn]. unfold eval_flat in *. cbn [eval_fn]. rewrite IH. reflexivity.
  - cbn [flatten_rs eval_fn]. unfold eval_flat in *. cbn [eval_fn]. rewrite IHl, IHr. reflexivity.
  - cbn [flatten_rs eval_fn]. rewrite explode_rs_eval. unfold I_of_rho_rs at 1, name_rs. cbn [fst snd].
    rewrite map_map. rewrite (map_ext_Forall' _ _ _ _ _ IH). reflexivity.
Qed.

(** interpretation -> valuation: one valuation serves every function whose symbol
    occurrences lie in [C], provided the final names of [C] are pairwise distinct *)
Lemma flatten_rs_eval_rho_of_I : forall isvar fuel C I s f,
  names_distinct isvar fuel C -> incl (occs f) C ->
  eval_flat (rho_of_I_rs isvar fuel C I) s (flatten_rs isvar fuel f) = eval_fn I s f.
Proof.
  intros isvar fuel C I s f ND. rewrite flatten_rs_eval_I_of_rho.
  induction f as [b|v|g IH|op l r IHl IHr|n args IH] using fnupd_ind'; cbn [eval_fn occs]; intros Hincl.
  - reflexivity.
  - reflexivity.
  - rewrite IH by exact Hincl. reflexivity.
  - rewrite IHl, IHr; [reflexivity| |]; intros x Hx; apply Hincl; apply in_or_app; [right|left]; exact Hx.
  - assert (E : map (eval_fn (I_of_rho_rs isvar fuel (rho_of_I_rs isvar fuel C I)) s) args
               = map (eval_fn I s) args).
    { apply map_ext_Forall'. rewrite Forall_forall in *. intros a Ha. apply IH; [exact Ha|].
      intros x Hx. apply Hincl. right. apply in_flat_map. exists a. split; assumption. }
    rewrite E. unfold I_of_rho_rs. apply rho_of_I_rs_name; [exact ND|].
    rewrite map_length. apply Hincl. left. reflexivity.
Qed.

Lemma flatten_rs_family_distinct : forall isvar fuel f, names_distinct isvar fuel (occs f) ->
  forall F : (nat -> bool) -> bool,
    (exists rho, forall s, F s = eval_flat rho s (flatten_rs isvar fuel f)) <->
    (exists I, forall s, F s = eval_fn I s f).
Proof.
  intros isvar fuel f ND F. split.
  - intros [rho HF]. exists (I_of_rho_rs isvar fuel rho). intros s. rewrite HF. apply flatten_rs_eval_I_of_rho.
  - intros [I HF]. exists (rho_of_I_rs isvar fuel (occs f) I). intros s. rewrite HF. symmetry.
    apply flatten_rs_eval_rho_of_I; [exact ND|apply incl_refl].
Qed.

(** [clash_free] is a special case of [names_distinct] *)
Lemma clash_free_occs : forall isvar f, clash_free isvar f ->
  forall n bits, In (n, length bits) (occs f) -> isvar (gen (pname n) bits) = false.
Proof.
  intros isvar f. induction f as [b|v|g IH|op l r IHl IHr|n args IH] using fnupd_ind';
    intros CF m bits Hin; cbn [occs] in Hin.
  - destruct Hin.
  - destruct Hin.
  - inversion CF as [| |g' Hg| |]; subst. apply IH; assumption.
  - inversion CF as [| | |op' l' r' Hl Hr|]; subst. apply in_app_or in Hin.
    destruct Hin as [Hin|Hin]; [apply IHl|apply IHr]; assumption.
  - inversion CF as [| | | |n' args' Hnames Hargs]; subst. destruct Hin as [E|Hin].
    + inversion E; subst. apply Hnames. symmetry. assumption.
    + apply in_flat_map in Hin. destruct Hin as [a [Ha Hin]]. rewrite Forall_forall in *.
      apply (IH a Ha); [apply Hargs; exact Ha|exact Hin].
Qed.

Lemma clash_free_names_distinct : forall isvar fuel f,
  clash_free isvar f -> names_distinct isvar fuel (occs f).
Proof.
  intros isvar fuel f CF [n1 b1] [n2 b2] H1 H2 E. unfold name_rs in E. cbn [fst snd] in E.
  apply cands_in in H1. apply cands_in in H2.
  rewrite !bump_not_var in E by (eapply clash_free_occs; eauto).
  apply gen_pname_inj in E. destruct E as [En Eb]. subst. reflexivity.
Qed.

(** without variables at all the loop is the identity and the names are always distinct *)
Lemma names_distinct_no_vars : forall fuel C, names_distinct (fun _ => false) fuel C.
Proof.
  intros fuel C [n1 b1] [n2 b2] H1 H2 E. unfold name_rs in E. cbn [fst snd] in E.
  rewrite !bump_not_var in E by reflexivity.
  apply gen_pname_inj in E. destruct E as [En Eb]. subst. reflexivity.
Qed.
