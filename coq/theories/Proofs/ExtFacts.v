(** Every operator of the model meets its specification under the weak invariant needed
    inside restricted quantifier scopes:

      spec_in Uc A P  :=  A is shaped and, AT THE VALUATIONS OF THE CURRENT UNIT Uc,
                          membership in A is exactly P  (outside Uc: arbitrary).

    Wild-card sets and the steady-state set of the top-level unit are not subsets of a
    restricted unit, so the strong invariant [spec_of] of SemFacts.v (subset of the unit and
    exact there) does not hold for them; [spec_in] does, is preserved by every operator, and
    the quantifier that closes a restricted scope intersects with the restricted unit before
    projecting, which is all that is needed.

    The current unit must be shaped, independent of the state bits (hence closed under
    transitions), and a subset of the top-level unit whose steady states are handed down. *)
From HCTL Require Import Base Syntax TT Ops Kripke HCTL.
From HCTL Require Import TTFacts OpsFacts FixFacts SemFacts HybridFacts ExtFix.

Definition spec_in (G : genv) (Uc A : tt) (P : val -> Prop) : Prop :=
  shaped (g_L G) A /\
  forall w, mem (g_L G) Uc w = true -> (mem (g_L G) A w = true <-> P w).

(** independence of the state bits *)
Definition state_indep (G : genv) (A : tt) : Prop :=
  forall v w, (forall g, is_state_tag g = false -> v g = w g) ->
              mem (g_L G) A v = mem (g_L G) A w.

(** independence of the spare copies *)
Definition extras_indep (G : genv) (A : tt) : Prop :=
  forall v w, (forall g, is_extra_tag g = false -> v g = w g) ->
              mem (g_L G) A v = mem (g_L G) A w.

(** independence of spare copy e *)
Definition copy_indep (G : genv) (A : tt) (e : nat) : Prop :=
  forall u v, mem (g_L G) A (set_copy e u v) = mem (g_L G) A v.

Lemma state_indep_moves G A : state_indep G A ->
  forall v i, mem (g_L G) A (vflip (TS i) v) = mem (g_L G) A v.
Proof.
  intros H v i. apply H. intros g Hg. unfold vflip.
  destruct (tag_eqb g (TS i)) eqn:E; [|reflexivity].
  apply tag_eqb_eq in E. subst g. discriminate.
Qed.

Lemma state_indep_set_state G A e v : state_indep G A ->
  mem (g_L G) A (set_state e v) = mem (g_L G) A v.
Proof.
  intro H. apply H. intros g Hg. destruct g; simpl in *; try reflexivity. discriminate.
Qed.

Section ExtFacts.
Variable G : genv.
Local Notation L := (g_L G).
Local Notation n := (g_n G).
Local Notation k := (g_k G).

Hypothesis L_nodup : NoDup L.
Hypothesis upd_shaped : forall i, shaped L (upd_of G i).
Hypothesis TS_in : forall i, i < n -> In (TS i) L.

Variable Utop Uc : tt.
Hypothesis Utop_shaped : shaped L Utop.
Hypothesis Uc_shaped : shaped L Uc.
Hypothesis Uc_state : state_indep G Uc.
Hypothesis Uc_sub : forall v, mem L Uc v = true -> mem L Utop v = true.

Local Notation st := (steady_of G Utop).
Local Notation inC v := (mem L Uc v = true).
Local Notation spec := (spec_in G Uc).
Local Notation Mem A := (fun v0 : val => mem L A v0 = true).

Lemma Uc_moves : forall v i, mem L Uc (vflip (TS i) v) = mem L Uc v.
Proof. apply state_indep_moves. exact Uc_state. Qed.

Lemma in_shaped A P : spec A P -> shaped L A.
Proof. intros [H _]; exact H. Qed.

Ltac shp := repeat first
  [ assumption
  | match goal with H : spec_in _ _ ?A _ |- shaped _ ?A => exact (in_shaped _ _ H) end
  | apply shaped_steady_of
  | apply shaped_eval_ex
  | apply shaped_eval_ax
  | apply shaped_eval_neg
  | apply shaped_pre
  | apply shaped_var_pre
  | apply shaped_can_update
  | apply shaped_tand | apply shaped_tor | apply shaped_tminus | apply shaped_txor | apply shaped_tiff
  | apply shaped_exq | apply shaped_flip | apply shaped_lit
  | apply shaped_const ].

(** ---- relation with the strong invariant ---- *)
Lemma spec_of_in A P : spec_of G Uc A P -> spec A P.
Proof.
  intros [SA EA]. split; [assumption|]. intros w Hw. rewrite EA. tauto.
Qed.

(** intersecting with the current unit restores the strong invariant *)
Lemma spec_in_restrict A P : spec A P -> spec_of G Uc (tand A Uc) P.
Proof.
  intros [SA EA]. split; [shp|]. intro w. rewrite mem_tand by assumption.
  rewrite andb_true_iff. split.
  - intros [Ha Hu]. split; [assumption|]. apply EA; assumption.
  - intros [Hu Hp]. split; [apply EA|]; assumption.
Qed.

Lemma in_ext A P P' : spec A P -> (forall w, inC w -> (P w <-> P' w)) -> spec A P'.
Proof.
  intros [SA EA] H. split; [assumption|]. intros w Hw. rewrite (EA w Hw). apply H. exact Hw.
Qed.

Lemma in_dec A P w : spec A P -> inC w -> P w \/ ~ P w.
Proof.
  intros [SA EA] Hu. destruct (mem L A w) eqn:E.
  - left. apply EA in E; assumption.
  - right. intro Hp. apply (EA w Hu) in Hp. congruence.
Qed.

(** the congruence lemmas of SemFacts.v as equivalences *)
Lemma mem_to_pred A P : spec A P -> forall w, inC w -> Mem A w -> P w.
Proof. intros [_ EA] w Hw H. apply EA; assumption. Qed.
Lemma pred_to_mem A P : spec A P -> forall w, inC w -> P w -> Mem A w.
Proof. intros [_ EA] w Hw H. apply EA; assumption. Qed.

(** ---- Boolean operators ---- *)
Lemma in_unit : spec Uc (fun _ => True).
Proof. split; [assumption|]. intros w Hw. tauto. Qed.

Lemma in_empty : spec (empty G) (fun _ => False).
Proof. split; [apply shaped_const|]. intros w _. rewrite mem_empty. split; [discriminate|tauto]. Qed.

Lemma in_neg A P : spec A P -> spec (eval_neg Uc A) (fun w => ~ P w).
Proof.
  intros HA. pose proof HA as [SA EA]. split; [shp|]. intros w Hw.
  rewrite mem_eval_neg by shp. rewrite Hw. simpl. rewrite negb_true_iff. split.
  - intros Hn Hp. apply (EA w Hw) in Hp. congruence.
  - intro Hn. destruct (mem L A w) eqn:E; [|reflexivity]. apply (EA w Hw) in E. contradiction.
Qed.

(** negation relative to the current unit yields the strong invariant *)
Lemma in_neg_strong A P : spec A P -> spec_of G Uc (eval_neg Uc A) (fun w => ~ P w).
Proof.
  intros HA. pose proof HA as [SA EA]. split; [shp|]. intro w.
  rewrite mem_eval_neg by shp. rewrite andb_true_iff, negb_true_iff. split.
  - intros [Hu Hn]. split; [assumption|]. intro Hp. apply (EA w Hu) in Hp. congruence.
  - intros [Hu Hn]. split; [assumption|]. destruct (mem L A w) eqn:E; [|reflexivity].
    apply (EA w Hu) in E. contradiction.
Qed.

Lemma in_and A B P Q : spec A P -> spec B Q -> spec (tand A B) (fun w => P w /\ Q w).
Proof.
  intros [SA EA] [SB EB]. split; [shp|]. intros w Hw.
  rewrite mem_tand by assumption. rewrite andb_true_iff, (EA w Hw), (EB w Hw). tauto.
Qed.

Lemma in_or A B P Q : spec A P -> spec B Q -> spec (tor A B) (fun w => P w \/ Q w).
Proof.
  intros [SA EA] [SB EB]. split; [shp|]. intros w Hw.
  rewrite mem_tor by assumption. rewrite orb_true_iff, (EA w Hw), (EB w Hw). tauto.
Qed.

Lemma in_imp A B P Q : spec A P -> spec B Q -> spec (eval_imp Uc A B) (fun w => P w -> Q w).
Proof.
  intros HA HB. unfold eval_imp.
  eapply in_ext; [apply in_or; [apply in_neg; exact HA | exact HB]|].
  intros w Hu. simpl. destruct (in_dec A P w HA Hu); tauto.
Qed.

Lemma in_equiv A B P Q : spec A P -> spec B Q -> spec (eval_equiv Uc A B) (fun w => P w <-> Q w).
Proof.
  intros HA HB. unfold eval_equiv.
  eapply in_ext; [apply in_or; [apply in_and; [exact HA|exact HB] | apply in_and; apply in_neg; [exact HA|exact HB]]|].
  intros w Hu. simpl. destruct (in_dec A P w HA Hu); destruct (in_dec B Q w HB Hu); tauto.
Qed.

Lemma in_xor A B P Q : spec A P -> spec B Q -> spec (eval_xor Uc A B) (fun w => ~ (P w <-> Q w)).
Proof. intros HA HB. unfold eval_xor. apply in_neg. apply in_equiv; assumption. Qed.

(** ---- EX / AX ---- *)
Lemma in_ex A P : spec A P -> spec (eval_ex G A st) (EXs G P).
Proof.
  intro HA. pose proof HA as [SA EA]. split; [shp|]. intros w Hw.
  rewrite (ex_in G L_nodup upd_shaped TS_in Utop Uc Utop_shaped Uc_sub A w SA Hw).
  split; intro H; (eapply EXs_congr; [exact Uc_moves| |exact Hw|exact H]).
  - apply (mem_to_pred _ _ HA).
  - apply (pred_to_mem _ _ HA).
Qed.

Lemma in_ax A P : spec A P -> spec (eval_ax G Uc A st) (AXs G P).
Proof.
  intro HA. pose proof HA as [SA EA]. split; [shp|]. intros w Hw.
  rewrite (ax_in G L_nodup upd_shaped TS_in Utop Uc Utop_shaped Uc_shaped Uc_moves Uc_sub A w SA Hw).
  split; intro H; (eapply AXs_congr; [exact Uc_moves| |exact Hw|exact H]).
  - apply (mem_to_pred _ _ HA).
  - apply (pred_to_mem _ _ HA).
Qed.

(** ---- EU / EF ---- *)
Lemma in_eu A B P Q R : spec A P -> spec B Q ->
  eval_eu_saturated G A B = Ok R -> spec R (EUs G P Q).
Proof.
  intros HA HB H. pose proof HA as [SA EA]. pose proof HB as [SB EB].
  destruct (eu_correct G L_nodup upd_shaped TS_in A SA B R SB H) as [SR ER].
  split; [assumption|]. intros w Hw. rewrite ER.
  split; intro HE; (eapply EUs_congr; [exact Uc_moves| | |exact HE|exact Hw]).
  - apply (mem_to_pred _ _ HA).
  - apply (mem_to_pred _ _ HB).
  - apply (pred_to_mem _ _ HA).
  - apply (pred_to_mem _ _ HB).
Qed.

Lemma in_ef A P R : spec A P -> eval_ef_saturated G Uc A = Ok R -> spec R (EFs G P).
Proof.
  intros HA H. unfold eval_ef_saturated in H. unfold EFs.
  eapply in_eu; [apply in_unit|exact HA|exact H].
Qed.

(** ---- AU ---- *)
Lemma in_au A B P Q R : spec A P -> spec B Q ->
  eval_au G Uc A B st = Ok R -> spec R (AUs G P Q).
Proof.
  intros HA HB H. pose proof HA as [SA EA]. pose proof HB as [SB EB].
  destruct (au_in G L_nodup upd_shaped TS_in Utop Uc Utop_shaped Uc_shaped Uc_moves Uc_sub
              A SA B R SB H) as [SR ER].
  split; [assumption|]. intros w Hw. rewrite (ER w Hw).
  split; intro HE; (eapply AUs_congr; [exact Uc_moves| | |exact HE|exact Hw]).
  - apply (mem_to_pred _ _ HA).
  - apply (mem_to_pred _ _ HB).
  - apply (pred_to_mem _ _ HA).
  - apply (pred_to_mem _ _ HB).
Qed.

(** ---- EG ---- *)
Lemma in_eg A P R : spec A P -> eval_eg G A st = Ok R -> spec R (EGs G P).
Proof.
  intros HA H. pose proof HA as [SA EA].
  destruct (eg_in G L_nodup upd_shaped TS_in Utop Uc Utop_shaped Uc_moves Uc_sub A R SA H)
    as [SR ER].
  split; [assumption|]. intros w Hw. rewrite (ER w Hw).
  split; intro HE; (eapply EGs_congr; [exact Uc_moves| |exact Hw|exact HE]).
  - apply (mem_to_pred _ _ HA).
  - apply (pred_to_mem _ _ HA).
Qed.

(** ---- AG = not EF not ---- *)
Lemma in_ag A P R : spec A P -> eval_ag G Uc A = Ok R -> spec R (AGs G P).
Proof.
  intros HA H. unfold eval_ag in H.
  destruct (eval_ef_saturated G Uc (eval_neg Uc A)) as [r| | |] eqn:E; simpl in H; try discriminate.
  injection H as <-.
  pose proof (in_ef _ _ _ (in_neg _ _ HA) E) as Hr.
  eapply in_ext; [apply in_neg; exact Hr|].
  intros w Hu. simpl. split.
  - (* not EF not P  ->  AG P *)
    intro Hn. exists (fun u => inC u /\ ~ EFs G (fun x => ~ P x) u). split; [split; assumption|].
    intros u [Hu' Hnu]. split.
    + destruct (in_dec A P u HA Hu') as [Hp|Hp]; [assumption|]. exfalso. apply Hnu. apply EUs_here. exact Hp.
    + split.
      * intros i Hi He. split; [rewrite Uc_moves; exact Hu'|]. intro HE. apply Hnu.
        eapply EUs_step; [exact I | exact Hi | exact He | exact HE].
      * intro Hs. split; assumption.
  - (* AG P -> not EF not P *)
    intros [X [Xw HX]] HE. unfold EFs in HE.
    induction HE as [v Hq | v i _ Hi He _ IH].
    + destruct (HX v Xw) as [Hp _]. contradiction.
    + destruct (HX v Xw) as [_ [A1 _]]. apply IH; [rewrite Uc_moves; exact Hu | apply A1; assumption].
Qed.

(** ---- AF = not EG not ---- *)
Lemma in_af A P R : spec A P -> eval_af G Uc A st = Ok R -> spec R (AFs G P).
Proof.
  intros HA H. unfold eval_af in H.
  destruct (eval_eg G (eval_neg Uc A) st) as [r| | |] eqn:E; simpl in H; try discriminate.
  injection H as <-.
  pose proof (in_neg _ _ HA) as HN.
  pose proof (in_eg _ _ _ HN E) as Hr. destruct Hr as [Sr Er].
  split; [shp|]. intros w Hw. rewrite mem_eval_neg by shp. rewrite Hw. simpl. rewrite negb_true_iff.
  pose proof HA as [SA EA]. split.
  - intro Hn. unfold AFs.
    pose proof (eg_compl_in G L_nodup upd_shaped TS_in Utop Uc Utop_shaped Uc_moves Uc_sub
                  _ _ (in_shaped _ _ HN) E w Hw Hn) as X.
    eapply AUs_congr; [exact Uc_moves| | |exact X|exact Hw]; intros u Hu'; simpl; [tauto|].
    rewrite mem_eval_neg by shp. rewrite Hu'. simpl. rewrite negb_false_iff.
    intros [_ Hm]. apply (EA u Hu'). exact Hm.
  - intro HA'. unfold AFs in HA'. revert Hw.
    induction HA' as [v Hp | v _ Hm IHm Hs IHs]; intro Hu.
    + destruct (mem L r v) eqn:E2; [|reflexivity]. exfalso.
      apply (Er v Hu) in E2. destruct E2 as [X [Xv HX]].
      destruct (HX v Xv) as [Hnp _]. contradiction.
    + destruct (mem L r v) eqn:E2; [|reflexivity]. exfalso.
      pose proof E2 as E3. apply (Er v Hu) in E3. destruct E3 as [X [Xv HX]].
      destruct (HX v Xv) as [_ [[i [Hi [He Xi]]]|[Hst _]]].
      * assert (Hu2 : inC (vflip (TS i) v)) by (rewrite Uc_moves; exact Hu).
        assert (C : mem L r (vflip (TS i) v) = false) by (apply IHm; assumption).
        assert (D : mem L r (vflip (TS i) v) = true).
        { apply (Er _ Hu2). exists X. split; assumption. }
        congruence.
      * specialize (IHs Hst Hu). congruence.
Qed.

(** ---- weak until through the strong until of the complements ---- *)
Lemma in_ew A B P Q R : spec A P -> spec B Q ->
  eval_ew G Uc A B st = Ok R -> spec R (EWs G P Q).
Proof.
  intros HA HB H. unfold eval_ew in H.
  destruct (eval_au G Uc (eval_neg Uc B) (tand (eval_neg Uc A) (eval_neg Uc B)) st) as [r| | |] eqn:E;
    simpl in H; try discriminate.
  injection H as <-.
  pose proof (in_au _ _ _ _ _ (in_neg _ _ HB) (in_and _ _ _ _ (in_neg _ _ HA) (in_neg _ _ HB)) E) as Hr.
  eapply in_ext; [apply in_neg; exact Hr|].
  intros w Hu. simpl. apply (EW_dual G Uc Uc_moves).
  - intros u Hu'. eapply in_dec; eassumption.
  - intros u Hu'. eapply in_dec; eassumption.
  - intros u Hu'. eapply in_dec; eassumption.
  - exact Hu.
Qed.

Lemma in_aw A B P Q R : spec A P -> spec B Q ->
  eval_aw G Uc A B = Ok R -> spec R (AWs G P Q).
Proof.
  intros HA HB H. unfold eval_aw in H.
  destruct (eval_eu_saturated G (eval_neg Uc B) (tand (eval_neg Uc A) (eval_neg Uc B))) as [r| | |] eqn:E;
    simpl in H; try discriminate.
  injection H as <-.
  pose proof (in_eu _ _ _ _ _ (in_neg _ _ HB) (in_and _ _ _ _ (in_neg _ _ HA) (in_neg _ _ HB)) E) as Hr.
  eapply in_ext; [apply in_neg; exact Hr|].
  intros w Hu. simpl. apply (AW_dual G Uc Uc_moves).
  - intros u Hu'. eapply in_dec; eassumption.
  - intros u Hu'. eapply in_dec; eassumption.
  - exact Hu.
Qed.

(** ---- sets that were not computed in the current scope ---- *)

(** a set that is exact on the top-level unit is exact on the current unit *)
Lemma in_of_top A P : spec_of G Utop A P -> spec A P.
Proof.
  intros [SA EA]. split; [assumption|]. intros w Hw. rewrite EA.
  apply Uc_sub in Hw. tauto.
Qed.

(** a user set denotes its own membership predicate, whatever the unit *)
Lemma in_user_set A : shaped L A -> spec A (fun v => mem L A v = true).
Proof. intro SA. split; [assumption|]. intros w _. tauto. Qed.

End ExtFacts.
