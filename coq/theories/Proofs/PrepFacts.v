(** Facts about preprocessing ([prep] / [preprocess] of Model/Preprocess.v):
    - it accepts exactly the well-scoped formulae and never panics / runs out of fuel,
    - its result is completely described by the map-free function [rename], which names every
      binder by its quantifier depth,
    - the result is alpha-equivalent to the input (equal de Bruijn normal forms),
    - the number of variables of the result is the maximal quantifier nesting depth,
    - preprocessing is idempotent. *)
From HCTL Require Import Base Syntax Preprocess.
From HCTL Require EvalPure.

(** * Strings *)

(** the name used for the binder at quantifier depth [n - 1]: [n] characters 'x' *)
Definition xs (n : nat) : str := repeat_n n c_x.

Lemma str_eqb_refl (a : str) : str_eqb a a = true.
Proof. apply EvalPure.str_eqb_eq. reflexivity. Qed.

Lemma str_eqb_neq (a b : str) : str_eqb a b = false <-> a <> b.
Proof.
  destruct (str_eqb a b) eqn:E.
  - apply EvalPure.str_eqb_eq in E. split; [discriminate | intro N; contradiction].
  - split; [|reflexivity]. intros _ EQ. apply EvalPure.str_eqb_eq in EQ. congruence.
Qed.

(** turn every boolean string comparison among the hypotheses into a (dis)equality *)
Ltac str_eq :=
  repeat match goal with
  | H : str_eqb _ _ = true |- _ => apply EvalPure.str_eqb_eq in H
  | H : str_eqb _ _ = false |- _ => apply str_eqb_neq in H
  end.

Lemma repeat_n_length {A} (n : nat) (x : A) : length (repeat_n n x) = n.
Proof. induction n as [|n IH]; cbn [repeat_n length]; [reflexivity | rewrite IH; reflexivity]. Qed.

Lemma repeat_n_snoc {A} (n : nat) (x : A) : repeat_n n x ++ [x] = repeat_n (S n) x.
Proof.
  induction n as [|n IH]; [reflexivity|].
  change (x :: (repeat_n n x ++ [x]) = x :: repeat_n (S n) x). rewrite IH. reflexivity.
Qed.

Lemma xs_snoc (n : nat) : xs n ++ [c_x] = xs (S n).
Proof. apply repeat_n_snoc. Qed.

Lemma xs_length (n : nat) : length (xs n) = n.
Proof. apply repeat_n_length. Qed.

Lemma xs_inj (a b : nat) : xs a = xs b -> a = b.
Proof. intro E. rewrite <- (xs_length a), <- (xs_length b), E. reflexivity. Qed.

Lemma xs_eqb_neq (a b : nat) : a <> b -> str_eqb (xs a) (xs b) = false.
Proof. intro N. apply str_eqb_neq. intro E. apply N, xs_inj, E. Qed.

(** * Position of a name in a scope (innermost binder first) *)

Fixpoint index (x : str) (l : list str) : option nat :=
  match l with
  | [] => None
  | y :: l' => if str_eqb x y then Some 0 else option_map S (index x l')
  end.

Lemma index_some (x : str) (l : list str) :
  forall i, index x l = Some i -> i < length l /\ In x l.
Proof.
  induction l as [|y l IH]; intros i H; cbn [index] in H; [discriminate|].
  cbn [length In]. destruct (str_eqb x y) eqn:E; str_eq.
  - injection H as <-. split; [lia | left; congruence].
  - destruct (index x l) as [j|] eqn:I; cbn [option_map] in H; [|discriminate].
    injection H as <-. destruct (IH j eq_refl) as [LT IN]. split; [lia | right; exact IN].
Qed.

Lemma index_none (x : str) (l : list str) : index x l = None -> ~ In x l.
Proof.
  induction l as [|y l IH]; intros H IN; cbn [index] in H; cbn [In] in IN; [exact IN|].
  destruct (str_eqb x y) eqn:E; [discriminate|]. str_eq.
  destruct (index x l) as [j|] eqn:I; cbn [option_map] in H; [discriminate|].
  destruct IN as [EQ|IN]; [congruence | exact (IH eq_refl IN)].
Qed.

Lemma index_in (x : str) (l : list str) :
  In x l -> exists i, index x l = Some i /\ i < length l.
Proof.
  intro IN. destruct (index x l) as [i|] eqn:I.
  - exists i. split; [reflexivity | apply (index_some x l i I)].
  - exfalso. exact (index_none x l I IN).
Qed.

Lemma index_not_in (x : str) (l : list str) : ~ In x l -> index x l = None.
Proof.
  intro NIN. destruct (index x l) as [i|] eqn:I; [|reflexivity].
  exfalso. apply NIN. apply (index_some x l i I).
Qed.

(** * Association lists *)

Lemma alookup_aremove_neq {B} (x y : str) (l : list (str * B)) :
  y <> x -> alookup str_eqb y (aremove str_eqb x l) = alookup str_eqb y l.
Proof.
  intro N. induction l as [|[k v] l IH]; [reflexivity|]. cbn [aremove alookup].
  destruct (str_eqb x k) eqn:E1.
  - destruct (str_eqb y k) eqn:E2; [|exact IH]. str_eq. congruence.
  - cbn [alookup]. destruct (str_eqb y k); [reflexivity | exact IH].
Qed.

Lemma existsb_str_in (x : str) (l : list str) : existsb (str_eqb x) l = true <-> In x l.
Proof.
  rewrite existsb_exists. split.
  - intros [y [IN E]]. str_eq. subst y. exact IN.
  - intro IN. exists x. split; [exact IN | apply str_eqb_refl].
Qed.

(** * The declarative scoping discipline *)

(** [scope] lists the variables bound by the enclosing quantifiers.  Every variable occurrence
    and every jump target is in scope, a quantifier (bind / exists / forall) binds a variable
    that is not yet in scope, every proposition is known. *)
Fixpoint well_scoped (props : list str) (scope : list str) (t : tree) : Prop :=
  match t with
  | Terminal (AVar x) => In x scope
  | Terminal (AProp p) => In p props
  | Terminal _ => True
  | Unary _ c => well_scoped props scope c
  | Binary _ l r => well_scoped props scope l /\ well_scoped props scope r
  | Hybrid o x _ c =>
      if is_quantifier o then ~ In x scope /\ well_scoped props (x :: scope) c
      else well_scoped props scope c /\ In x scope
  end.

(** * The renaming as a function of the scope only *)

(** a variable bound by the [i]-th enclosing quantifier counted from the inside, i.e. at
    quantifier depth [length scope - 1 - i], is named by [length scope - i] characters 'x' *)
Definition rename_var (scope : list str) (x : str) : str :=
  match index x scope with
  | Some i => xs (length scope - i)
  | None => x
  end.

Fixpoint rename (scope : list str) (t : tree) : tree :=
  match t with
  | Terminal (AVar x) => Terminal (AVar (rename_var scope x))
  | Terminal _ => t
  | Unary o c => Unary o (rename scope c)
  | Binary o l r => Binary o (rename scope l) (rename scope r)
  | Hybrid o x d c =>
      if is_quantifier o then Hybrid o (xs (S (length scope))) d (rename (x :: scope) c)
      else Hybrid o (rename_var scope x) d (rename scope c)
  end.

(** * The invariant of the renaming map *)

(** [ren] maps exactly the names in scope, each to the 'x'-string of its binder's depth *)
Definition ren_inv (scope : list str) (ren : list (str * str)) : Prop :=
  forall x, alookup str_eqb x ren
            = option_map (fun i => xs (length scope - i)) (index x scope).

Lemma ren_inv_nil : ren_inv [] [].
Proof. intro x. reflexivity. Qed.

Lemma ren_inv_push (scope : list str) (ren : list (str * str)) (x : str) :
  ren_inv scope ren ->
  ren_inv (x :: scope) (ainsert str_eqb x (xs (S (length scope))) ren).
Proof.
  intros INV y. unfold ainsert. cbn [alookup index length].
  destruct (str_eqb y x) eqn:E.
  - cbn [option_map]. rewrite Nat.sub_0_r. reflexivity.
  - str_eq. rewrite alookup_aremove_neq by exact E. rewrite INV.
    destruct (index y scope) as [i|]; reflexivity.
Qed.

Lemma ren_inv_lookup (scope : list str) (ren : list (str * str)) (x : str) :
  ren_inv scope ren -> In x scope -> alookup str_eqb x ren = Some (rename_var scope x).
Proof.
  intros INV IN. rewrite INV. unfold rename_var.
  destruct (index_in x scope IN) as [i [I _]]. rewrite I. reflexivity.
Qed.

Lemma ren_inv_lookup_some (scope : list str) (ren : list (str * str)) (x n : str) :
  ren_inv scope ren -> alookup str_eqb x ren = Some n -> In x scope /\ n = rename_var scope x.
Proof.
  intros INV L. rewrite INV in L. unfold rename_var.
  destruct (index x scope) as [i|] eqn:I; cbn [option_map] in L; [|discriminate].
  injection L as <-. split; [apply (index_some x scope i I) | reflexivity].
Qed.

Lemma ren_inv_amem (scope : list str) (ren : list (str * str)) (x : str) :
  ren_inv scope ren -> (amem str_eqb x ren = false <-> ~ In x scope).
Proof.
  intro INV. unfold amem. rewrite INV.
  destruct (index x scope) as [i|] eqn:I; cbn [option_map].
  - split; [discriminate|]. intro NIN. exfalso. apply NIN. apply (index_some x scope i I).
  - split; [|reflexivity]. intros _. apply index_none, I.
Qed.

(** * [prep] computes [rename] exactly on the well-scoped formulae *)

(** case analysis on the first computation of a monadic sequence in [H] *)
Ltac case_bind H c' Hc :=
  match type of H with
  | bind ?p _ = _ => destruct p as [c'| | |] eqn:Hc; cbn [bind] in H; try discriminate
  end.

Lemma prep_sound (props : list str) (t : tree) :
  forall scope ren t',
    ren_inv scope ren ->
    prep props ren (xs (length scope)) t = Ok t' ->
    well_scoped props scope t /\ t' = rename scope t.
Proof.
  induction t as [a | o c IH | o l IHl r IHr | o x d c IH]; intros scope ren t' INV H.
  - destruct a as [p | x | | | w]; cbn [prep] in H; cbn [well_scoped rename].
    + destruct (existsb (str_eqb p) props) eqn:E; [|discriminate].
      injection H as <-. split; [apply existsb_str_in, E | reflexivity].
    + destruct (alookup str_eqb x ren) as [n|] eqn:L; [|discriminate].
      injection H as <-. destruct (ren_inv_lookup_some scope ren x n INV L) as [IN ->].
      split; [exact IN | reflexivity].
    + injection H as <-. split; [exact I | reflexivity].
    + injection H as <-. split; [exact I | reflexivity].
    + injection H as <-. split; [exact I | reflexivity].
  - cbn [prep] in H. cbn [well_scoped rename].
    case_bind H c' Hc.
    injection H as <-. destruct (IH scope ren c' INV Hc) as [WS ->].
    split; [exact WS | reflexivity].
  - cbn [prep] in H. cbn [well_scoped rename].
    case_bind H l' Hl.
    case_bind H r' Hr.
    injection H as <-.
    destruct (IHl scope ren l' INV Hl) as [WSl ->].
    destruct (IHr scope ren r' INV Hr) as [WSr ->].
    split; [split; assumption | reflexivity].
  - cbn [prep] in H. cbn [well_scoped rename].
    destruct (is_quantifier o) eqn:Q.
    + destruct (amem str_eqb x ren) eqn:M; [discriminate|].
      rewrite xs_snoc in H.
      case_bind H c' Hc.
      injection H as <-.
      destruct (IH (x :: scope) _ c' (ren_inv_push scope ren x INV) Hc) as [WS ->].
      split; [|reflexivity].
      split; [apply (ren_inv_amem scope ren x INV), M | exact WS].
    + case_bind H c' Hc.
      destruct (alookup str_eqb x ren) as [n|] eqn:L; [|discriminate].
      injection H as <-.
      destruct (IH scope ren c' INV Hc) as [WS ->].
      destruct (ren_inv_lookup_some scope ren x n INV L) as [IN ->].
      split; [split; assumption | reflexivity].
Qed.

Lemma prep_complete (props : list str) (t : tree) :
  forall scope ren,
    ren_inv scope ren ->
    well_scoped props scope t ->
    prep props ren (xs (length scope)) t = Ok (rename scope t).
Proof.
  induction t as [a | o c IH | o l IHl r IHr | o x d c IH]; intros scope ren INV WS;
    cbn [well_scoped] in WS; cbn [prep rename].
  - destruct a as [p | x | | | w]; try reflexivity.
    + apply existsb_str_in in WS. rewrite WS. reflexivity.
    + rewrite (ren_inv_lookup scope ren x INV WS). reflexivity.
  - rewrite (IH scope ren INV WS). reflexivity.
  - destruct WS as [WSl WSr].
    rewrite (IHl scope ren INV WSl). cbn [bind].
    rewrite (IHr scope ren INV WSr). reflexivity.
  - destruct (is_quantifier o) eqn:Q.
    + destruct WS as [NIN WS].
      apply (ren_inv_amem scope ren x INV) in NIN. rewrite NIN.
      rewrite xs_snoc.
      pose proof (IH (x :: scope) _ (ren_inv_push scope ren x INV) WS) as E.
      match goal with
      | |- bind ?p _ = _ => replace p with (Ok (rename (x :: scope) c)) by (symmetry; exact E)
      end.
      reflexivity.
    + destruct WS as [WS IN].
      rewrite (IH scope ren INV WS). cbn [bind].
      rewrite (ren_inv_lookup scope ren x INV IN). reflexivity.
Qed.

Lemma prep_ok_iff (props : list str) (t t' : tree) (scope : list str) (ren : list (str * str)) :
  ren_inv scope ren ->
  (prep props ren (xs (length scope)) t = Ok t'
   <-> well_scoped props scope t /\ t' = rename scope t).
Proof.
  intro INV. split.
  - apply prep_sound, INV.
  - intros [WS ->]. apply prep_complete; assumption.
Qed.

(** [prep] only ever answers [Ok] or [Err] (whatever the map and the last name are) *)
Lemma prep_ok_or_err (props : list str) (t : tree) :
  forall ren last,
    (exists t', prep props ren last t = Ok t') \/ (exists e, prep props ren last t = Err e).
Proof.
  induction t as [a | o c IH | o l IHl r IHr | o x d c IH]; intros ren last; cbn [prep].
  - destruct a as [p | x | | | w]; try (left; eexists; reflexivity).
    + destruct (existsb (str_eqb p) props); [left | right]; eexists; reflexivity.
    + destruct (alookup str_eqb x ren); [left | right]; eexists; reflexivity.
  - destruct (IH ren last) as [[c' ->] | [e ->]]; cbn [bind]; [left | right]; eexists; reflexivity.
  - destruct (IHl ren last) as [[l' ->] | [e ->]]; cbn [bind]; [|right; eexists; reflexivity].
    destruct (IHr ren last) as [[r' ->] | [e ->]]; cbn [bind]; [left | right]; eexists; reflexivity.
  - destruct (is_quantifier o).
    + destruct (amem str_eqb x ren); [right; eexists; reflexivity|].
      destruct (IH (ainsert str_eqb x (last ++ [c_x]) ren) (last ++ [c_x])) as [[c' ->] | [e ->]];
        cbn [bind]; [left | right]; eexists; reflexivity.
    + destruct (IH ren last) as [[c' ->] | [e ->]]; cbn [bind]; [|right; eexists; reflexivity].
      destruct (alookup str_eqb x ren); [left | right]; eexists; reflexivity.
Qed.

(** * Top level: acceptance *)

Theorem preprocess_ok_iff (props : list str) (t t' : tree) :
  preprocess props t = Ok t' <-> well_scoped props [] t /\ t' = rename [] t.
Proof. unfold preprocess. apply (prep_ok_iff props t t' [] [] ren_inv_nil). Qed.

Theorem preprocess_accepts_iff_well_scoped (props : list str) (t : tree) :
  (exists t', preprocess props t = Ok t') <-> well_scoped props [] t.
Proof.
  split.
  - intros [t' H]. apply preprocess_ok_iff in H. apply H.
  - intro WS. exists (rename [] t). apply preprocess_ok_iff. split; [exact WS | reflexivity].
Qed.

Theorem preprocess_ok_or_err (props : list str) (t : tree) :
  (exists t', preprocess props t = Ok t') \/ (exists e, preprocess props t = Err e).
Proof. apply prep_ok_or_err. Qed.

Theorem preprocess_no_panic (props : list str) (t : tree) :
  (forall p, preprocess props t <> Panic p) /\ preprocess props t <> OutOfFuel.
Proof.
  destruct (preprocess_ok_or_err props t) as [[t' ->] | [e ->]]; split; try intro p; discriminate.
Qed.

Theorem preprocess_rejects_ill_scoped (props : list str) (t : tree) :
  ~ well_scoped props [] t -> exists e, preprocess props t = Err e.
Proof.
  intro NWS. destruct (preprocess_ok_or_err props t) as [OK | ER]; [|exact ER].
  exfalso. apply NWS, preprocess_accepts_iff_well_scoped, OK.
Qed.

(** * De Bruijn normal forms *)

Inductive dvar :=
| DBound (i : nat)     (** bound by the [i]-th enclosing quantifier, counted from the inside *)
| DFree (x : str).

Inductive dtree :=
| DVar (v : dvar)
| DProp (p : str)
| DTrue
| DFalse
| DWild (w : str)
| DUnary (o : unop) (c : dtree)
| DBinary (o : binop) (l r : dtree)
| DQuant (o : hybop) (d : option str) (c : dtree)
| DJump (v : dvar) (d : option str) (c : dtree).

Definition dref (env : list str) (x : str) : dvar :=
  match index x env with
  | Some i => DBound i
  | None => DFree x
  end.

(** [env] lists the names of the enclosing quantifiers, innermost first *)
Fixpoint db (env : list str) (t : tree) : dtree :=
  match t with
  | Terminal (AVar x) => DVar (dref env x)
  | Terminal (AProp p) => DProp p
  | Terminal ATrue => DTrue
  | Terminal AFalse => DFalse
  | Terminal (AWild w) => DWild w
  | Unary o c => DUnary o (db env c)
  | Binary o l r => DBinary o (db env l) (db env r)
  | Hybrid o x d c =>
      if is_quantifier o then DQuant o d (db (x :: env) c)
      else DJump (dref env x) d (db env c)
  end.

(** the scope after renaming: [xs n; ...; xs 2; xs 1] *)
Fixpoint xscope (n : nat) : list str :=
  match n with
  | O => []
  | S n' => xs (S n') :: xscope n'
  end.

Lemma xscope_length (n : nat) : length (xscope n) = n.
Proof. induction n as [|n IH]; cbn [xscope length]; [reflexivity | rewrite IH; reflexivity]. Qed.

Lemma index_xscope (n : nat) : forall i, i < n -> index (xs (n - i)) (xscope n) = Some i.
Proof.
  induction n as [|n IH]; intros i LT; [lia|]. cbn [xscope index].
  destruct i as [|i].
  - rewrite Nat.sub_0_r, str_eqb_refl. reflexivity.
  - replace (S n - S i) with (n - i) by lia.
    rewrite xs_eqb_neq by lia. rewrite IH by lia. reflexivity.
Qed.

Lemma xscope_in (n : nat) (x : str) : In x (xscope n) -> exists k, k < n /\ x = xs (S k).
Proof.
  induction n as [|n IH]; cbn [xscope In]; [intros []|].
  intros [<- | IN].
  - exists n. split; [lia | reflexivity].
  - destruct (IH IN) as [k [LT ->]]. exists k. split; [lia | reflexivity].
Qed.

Lemma xscope_fresh (n : nat) : ~ In (xs (S n)) (xscope n).
Proof.
  intro IN. destruct (xscope_in n _ IN) as [k [LT E]]. apply xs_inj in E. lia.
Qed.

(** a name in scope is renamed to the name at the same position of the renamed scope *)
Lemma index_rename_var (scope : list str) (x : str) (i : nat) :
  index x scope = Some i ->
  rename_var scope x = xs (length scope - i)
  /\ index (rename_var scope x) (xscope (length scope)) = Some i.
Proof.
  intro I. unfold rename_var. rewrite I. split; [reflexivity|].
  apply index_xscope. apply (index_some x scope i I).
Qed.

Lemma dref_rename_var (scope : list str) (x : str) :
  In x scope -> dref (xscope (length scope)) (rename_var scope x) = dref scope x.
Proof.
  intro IN. destruct (index_in x scope IN) as [i [I _]].
  unfold dref. destruct (index_rename_var scope x i I) as [_ ->]. rewrite I. reflexivity.
Qed.

Lemma db_rename (props : list str) (t : tree) :
  forall scope, well_scoped props scope t ->
    db (xscope (length scope)) (rename scope t) = db scope t.
Proof.
  induction t as [a | o c IH | o l IHl r IHr | o x d c IH]; intros scope WS;
    cbn [well_scoped] in WS; cbn [rename].
  - destruct a as [p | x | | | w]; try reflexivity.
    cbn [db]. rewrite (dref_rename_var scope x WS). reflexivity.
  - cbn [db]. rewrite (IH scope WS). reflexivity.
  - destruct WS as [WSl WSr]. cbn [db]. rewrite (IHl scope WSl), (IHr scope WSr). reflexivity.
  - destruct (is_quantifier o) eqn:Q; cbn [db]; rewrite Q.
    + destruct WS as [_ WS]. f_equal. apply (IH (x :: scope) WS).
    + destruct WS as [WS IN]. rewrite (dref_rename_var scope x IN), (IH scope WS). reflexivity.
Qed.

Theorem preprocess_alpha (props : list str) (t t' : tree) :
  preprocess props t = Ok t' -> db [] t' = db [] t.
Proof.
  intro H. apply preprocess_ok_iff in H. destruct H as [WS ->].
  apply (db_rename props t [] WS).
Qed.

(** * Names by depth *)

(** [d] is the number of enclosing quantifiers: the quantifier met there is named by [d + 1]
    characters 'x'; a variable occurrence or a jump names one of the [d] enclosing binders *)
Fixpoint depth_named (d : nat) (t : tree) : Prop :=
  match t with
  | Terminal (AVar x) => exists k, k < d /\ x = xs (S k)
  | Terminal _ => True
  | Unary _ c => depth_named d c
  | Binary _ l r => depth_named d l /\ depth_named d r
  | Hybrid o x _ c =>
      if is_quantifier o then x = xs (S d) /\ depth_named (S d) c
      else (exists k, k < d /\ x = xs (S k)) /\ depth_named d c
  end.

(** the quantifier depth (from the outside) of the binder of [x], for [scope] innermost first *)
Definition binder_depth (scope : list str) (x : str) : option nat :=
  option_map (fun i => length scope - S i) (index x scope).

Lemma rename_var_binder_depth (scope : list str) (x : str) :
  In x scope ->
  exists k, binder_depth scope x = Some k /\ k < length scope /\ rename_var scope x = xs (S k).
Proof.
  intro IN. destruct (index_in x scope IN) as [i [I LT]].
  exists (length scope - S i). unfold binder_depth, rename_var. rewrite I. cbn [option_map].
  split; [reflexivity|]. split; [lia|]. f_equal. lia.
Qed.

Lemma index_nth (x : str) (l : list str) :
  forall i, index x l = Some i ->
    nth_error l i = Some x /\ forall j, j < i -> nth_error l j <> Some x.
Proof.
  induction l as [|y l IH]; intros i H; cbn [index] in H; [discriminate|].
  destruct (str_eqb x y) eqn:E; str_eq.
  - injection H as <-. subst y. split; [reflexivity | intros j LT; lia].
  - destruct (index x l) as [i'|] eqn:I; cbn [option_map] in H; [|discriminate].
    injection H as <-. destruct (IH i' eq_refl) as [NTH MIN]. split; [exact NTH|].
    intros [|j] LT; cbn [nth_error].
    + intro EQ. injection EQ as EQ. congruence.
    + apply MIN. lia.
Qed.

Lemma nth_error_rev {A} (l : list A) :
  forall k, k < length l -> nth_error (rev l) k = nth_error l (length l - S k).
Proof.
  induction l as [|y l IH]; intros k LT; cbn [length] in LT; [lia|]. cbn [rev length].
  destruct (Nat.eq_dec k (length l)) as [->|NE].
  - rewrite nth_error_app2 by (rewrite rev_length; lia).
    rewrite rev_length. replace (S (length l) - S (length l)) with 0 by lia.
    replace (length l - length l) with 0 by lia. reflexivity.
  - rewrite nth_error_app1 by (rewrite rev_length; lia).
    rewrite IH by lia.
    replace (S (length l) - S k) with (S (length l - S k)) by lia. reflexivity.
Qed.

(** [binder_depth scope x = Some k] says that, counting the enclosing quantifiers from the
    outside, the [k]-th one binds [x] and no quantifier further inside does *)
Lemma binder_depth_spec (scope : list str) (x : str) (k : nat) :
  binder_depth scope x = Some k ->
  nth_error (rev scope) k = Some x
  /\ forall k', k < k' -> nth_error (rev scope) k' <> Some x.
Proof.
  unfold binder_depth. intro H.
  destruct (index x scope) as [i|] eqn:I; cbn [option_map] in H; [|discriminate].
  injection H as <-. destruct (index_some x scope i I) as [LT _].
  destruct (index_nth x scope i I) as [NTH MIN]. split.
  - rewrite nth_error_rev by lia. rewrite <- NTH. f_equal. lia.
  - intros k' LT'. destruct (Nat.lt_ge_cases k' (length scope)) as [IN|OUT].
    + rewrite nth_error_rev by lia. apply MIN. lia.
    + assert (nth_error (rev scope) k' = None) as ->; [|discriminate].
      apply nth_error_None. rewrite rev_length. exact OUT.
Qed.

Lemma rename_depth_named (props : list str) (t : tree) :
  forall scope, well_scoped props scope t -> depth_named (length scope) (rename scope t).
Proof.
  induction t as [a | o c IH | o l IHl r IHr | o x d c IH]; intros scope WS;
    cbn [well_scoped] in WS; cbn [rename].
  - destruct a as [p | x | | | w]; cbn [depth_named]; try exact I.
    destruct (rename_var_binder_depth scope x WS) as [k [_ [LT E]]]. exists k. split; assumption.
  - cbn [depth_named]. apply IH, WS.
  - destruct WS as [WSl WSr]. cbn [depth_named]. split; [apply IHl, WSl | apply IHr, WSr].
  - destruct (is_quantifier o) eqn:Q; cbn [depth_named]; rewrite Q.
    + destruct WS as [_ WS]. split; [reflexivity | apply (IH (x :: scope) WS)].
    + destruct WS as [WS IN]. split; [|apply IH, WS].
      destruct (rename_var_binder_depth scope x IN) as [k [_ [LT E]]]. exists k. split; assumption.
Qed.

(** ** the number of variables is the quantifier nesting depth *)

Fixpoint qdepth (t : tree) : nat :=
  match t with
  | Terminal _ => 0
  | Unary _ c => qdepth c
  | Binary _ l r => Nat.max (qdepth l) (qdepth r)
  | Hybrid o _ _ c => if is_quantifier o then S (qdepth c) else qdepth c
  end.

(** [xs 1; xs 2; ...; xs m] *)
Fixpoint xlist (m : nat) : list str :=
  match m with
  | O => []
  | S m' => xlist m' ++ [xs (S m')]
  end.

Lemma xlist_length (m : nat) : length (xlist m) = m.
Proof.
  induction m as [|m IH]; cbn [xlist]; [reflexivity|].
  rewrite app_length, IH. cbn [length]. lia.
Qed.

Lemma xlist_existsb (k m : nat) :
  existsb (str_eqb (xs (S k))) (xlist m) = if Nat.ltb k m then true else false.
Proof.
  induction m as [|m IH]; cbn [xlist]; [reflexivity|].
  rewrite existsb_app, IH. cbn [existsb]. rewrite orb_false_r.
  destruct (Nat.ltb_spec k m) as [LT|GE].
  - destruct (Nat.ltb_spec k (S m)); [reflexivity | lia].
  - destruct (Nat.ltb_spec k (S m)) as [LT'|GE'].
    + assert (k = m) as -> by lia. rewrite str_eqb_refl. reflexivity.
    + rewrite xs_eqb_neq by lia. reflexivity.
Qed.

Lemma add_unique_xlist (d m : nat) :
  d <= m -> add_unique (xs (S d)) (xlist m) = xlist (Nat.max m (S d)).
Proof.
  intro LE. unfold add_unique. rewrite xlist_existsb.
  destruct (Nat.ltb_spec d m) as [LT|GE].
  - replace (Nat.max m (S d)) with m by lia. reflexivity.
  - assert (d = m) as -> by lia. replace (Nat.max m (S m)) with (S m) by lia. reflexivity.
Qed.

Lemma collect_vars_rename (t : tree) :
  forall scope m, length scope <= m ->
    collect_vars (rename scope t) (xlist m) = xlist (Nat.max m (length scope + qdepth t)).
Proof.
  induction t as [a | o c IH | o l IHl r IHr | o x d c IH]; intros scope m LE;
    cbn [rename qdepth].
  - replace (Nat.max m (length scope + 0)) with m by lia.
    destruct a; reflexivity.
  - cbn [collect_vars]. apply IH, LE.
  - cbn [collect_vars]. rewrite (IHl scope m LE). rewrite IHr by lia. f_equal. lia.
  - destruct (is_quantifier o) eqn:Q; cbn [collect_vars]; rewrite Q.
    + rewrite add_unique_xlist by exact LE.
      rewrite IH by (cbn [length]; lia). f_equal. cbn [length]. lia.
    + apply IH, LE.
Qed.

Theorem num_hctl_vars_rename (t : tree) : num_hctl_vars (rename [] t) = qdepth t.
Proof.
  unfold num_hctl_vars. change (@nil str) with (xlist 0) at 2.
  rewrite (collect_vars_rename t [] 0) by (cbn [length]; lia).
  rewrite xlist_length. cbn [length]. lia.
Qed.

Theorem preprocess_names_by_depth (props : list str) (t t' : tree) :
  preprocess props t = Ok t' ->
  t' = rename [] t /\ depth_named 0 t' /\ num_hctl_vars t' = qdepth t.
Proof.
  intro H. apply preprocess_ok_iff in H. destruct H as [WS ->].
  split; [reflexivity|]. split.
  - apply (rename_depth_named props t [] WS).
  - apply num_hctl_vars_rename.
Qed.

(** * Idempotence *)

Lemma rename_var_xscope (scope : list str) (x : str) :
  In x scope ->
  In (rename_var scope x) (xscope (length scope))
  /\ rename_var (xscope (length scope)) (rename_var scope x) = rename_var scope x.
Proof.
  intro IN. destruct (index_in x scope IN) as [i [I LT]].
  destruct (index_rename_var scope x i I) as [E I'].
  split.
  - apply (index_some _ _ i I').
  - unfold rename_var at 1. rewrite I', xscope_length. symmetry. exact E.
Qed.

Lemma rename_well_scoped (props : list str) (t : tree) :
  forall scope, well_scoped props scope t ->
    well_scoped props (xscope (length scope)) (rename scope t)
    /\ rename (xscope (length scope)) (rename scope t) = rename scope t.
Proof.
  induction t as [a | o c IH | o l IHl r IHr | o x d c IH]; intros scope WS;
    cbn [well_scoped] in WS; cbn [rename].
  - destruct a as [p | x | | | w]; cbn [well_scoped rename]; try (split; [exact WS | reflexivity]).
    destruct (rename_var_xscope scope x WS) as [IN E]. split; [exact IN | rewrite E; reflexivity].
  - destruct (IH scope WS) as [WS' E]. cbn [well_scoped rename]. split; [exact WS' | rewrite E; reflexivity].
  - destruct WS as [WSl WSr].
    destruct (IHl scope WSl) as [WSl' El]. destruct (IHr scope WSr) as [WSr' Er].
    cbn [well_scoped rename]. split; [split; assumption | rewrite El, Er; reflexivity].
  - destruct (is_quantifier o) eqn:Q; cbn [well_scoped rename]; rewrite Q.
    + destruct WS as [_ WS]. destruct (IH (x :: scope) WS) as [WS' E].
      cbn [length xscope] in WS', E. rewrite xscope_length.
      split; [split; [apply xscope_fresh | exact WS'] | rewrite E; reflexivity].
    + destruct WS as [WS IN]. destruct (IH scope WS) as [WS' E].
      destruct (rename_var_xscope scope x IN) as [IN' Ex].
      split; [split; assumption | rewrite E, Ex; reflexivity].
Qed.

Theorem preprocess_idempotent (props : list str) (t t' : tree) :
  preprocess props t = Ok t' -> preprocess props t' = Ok t'.
Proof.
  intro H. apply preprocess_ok_iff in H. destruct H as [WS ->].
  destruct (rename_well_scoped props t [] WS) as [WS' E]. cbn [length xscope] in WS', E.
  apply preprocess_ok_iff. split; [exact WS' | symmetry; exact E].
Qed.
