(** Equal canonical texts = equality up to a consistent renaming of the state variables
    (property C09, second part).

    The renaming-independent normal form is the "open de Bruijn form" [open_db]: a bound
    variable is the number of quantifiers between the occurrence and its binder, a free
    variable is the rank of its first occurrence in reading order; everything else is literal.

    For sub-formulae of preprocessed formulae ([depth_named]):
    - [ctree_cto]:   the canonical tree is a function ([cto]) of the open de Bruijn form,
    - [odb_cto]:     the open de Bruijn form of the canonical tree is the one of the tree,
    hence two canonical trees (texts) are equal iff the open de Bruijn forms are. *)
From HCTL Require Import Base Syntax Preprocess Canon.
From HCTL Require Import PrepFacts RoundTrip CanonFacts.

(** * 1. Open de Bruijn forms *)

Inductive ovar :=
| OBound (i : nat)    (** bound by the [i]-th enclosing quantifier, counted from the inside *)
| OFree (k : nat).    (** the [k]-th distinct free variable in reading order *)

Inductive otree :=
| OVar (v : ovar)
| OProp (p : str)
| OTrue
| OFalse
| OWild (w : str)
| OUnary (o : unop) (c : otree)
| OBinary (o : binop) (l r : otree)
| OQuant (o : hybop) (d : option str) (c : otree)
| OJump (v : ovar) (d : option str) (c : otree).

(** [env]: names of the enclosing quantifiers, innermost first;
    [fv]: the free variables met so far, in order of first occurrence *)
Definition oref (env fv : list str) (x : str) : ovar * list str :=
  match index x env with
  | Some i => (OBound i, fv)
  | None =>
      match index x fv with
      | Some k => (OFree k, fv)
      | None => (OFree (length fv), fv ++ [x])
      end
  end.

(** reading order: left before right, the target of a jump before its body *)
Fixpoint odb (env : list str) (t : tree) (fv : list str) : otree * list str :=
  match t with
  | Terminal (AVar x) => let (v, fv') := oref env fv x in (OVar v, fv')
  | Terminal (AProp p) => (OProp p, fv)
  | Terminal ATrue => (OTrue, fv)
  | Terminal AFalse => (OFalse, fv)
  | Terminal (AWild w) => (OWild w, fv)
  | Unary o c => let (c', fv') := odb env c fv in (OUnary o c', fv')
  | Binary o l r =>
      let (l', fv1) := odb env l fv in
      let (r', fv2) := odb env r fv1 in
      (OBinary o l' r', fv2)
  | Hybrid o x d c =>
      if is_quantifier o then
        let (c', fv') := odb (x :: env) c fv in (OQuant o d c', fv')
      else
        let (v, fv1) := oref env fv x in
        let (c', fv2) := odb env c fv1 in
        (OJump v d c', fv2)
  end.

Definition open_db (t : tree) : otree := fst (odb [] t []).

(** equality up to a consistent renaming of bound and free state variables *)
Definition alpha_eq (t1 t2 : tree) : Prop := open_db t1 = open_db t2.

(** * 2. The canonical tree as a function of the open de Bruijn form *)

(** counter, and the numbers given to the free variables (by rank) *)
Definition ostate := (N * list N)%type.

(** [benv]: the numbers given to the enclosing quantifiers, innermost first *)
Definition oname (benv : list N) (v : ovar) (s : ostate) : str * ostate :=
  match v with
  | OBound i => (canon_name (nth i benv 0%N), s)
  | OFree k =>
      match nth_error (snd s) k with
      | Some c => (canon_name c, s)
      | None => (canon_name (fst s), ((fst s + 1)%N, snd s ++ [fst s]))
      end
  end.

Fixpoint cto (benv : list N) (o : otree) (s : ostate) : tree * ostate :=
  match o with
  | OVar v => let (cn, s') := oname benv v s in (Terminal (AVar cn), s')
  | OProp p => (Terminal (AProp p), s)
  | OTrue => (Terminal ATrue, s)
  | OFalse => (Terminal AFalse, s)
  | OWild w => (Terminal (AWild w), s)
  | OUnary o c => let (c', s') := cto benv c s in (Unary o c', s')
  | OBinary o l r =>
      let (l', s1) := cto benv l s in
      let (r', s2) := cto benv r s1 in
      (Binary o l' r', s2)
  | OQuant o d c =>
      let (c', s') := cto (fst s :: benv) c ((fst s + 1)%N, snd s) in
      (Hybrid o (canon_name (fst s)) d c', s')
  | OJump v d c =>
      let (cn, s1) := oname benv v s in
      let (c', s2) := cto benv c s1 in
      (Hybrid Jump cn d c', s2)
  end.

(** ** the scope of a sub-formula found below [d] quantifiers, [j] quantifiers further down *)

Fixpoint bscope (d j : nat) : list str :=
  match j with
  | O => []
  | S j' => xs (d + S j') :: bscope d j'
  end.

Lemma index_bscope_bound (d j m : nat) :
  d <= m < d + j -> index (xs (S m)) (bscope d j) = Some (d + j - S m).
Proof.
  induction j as [|j IH]; intro R; [lia|]. cbn [bscope index].
  destruct (Nat.eq_dec (S m) (d + S j)) as [E|NE].
  - rewrite E, str_eqb_refl. f_equal. lia.
  - rewrite xs_eqb_neq by exact NE. rewrite IH by lia. cbn [option_map]. f_equal. lia.
Qed.

Lemma index_bscope_free (d j m : nat) : m < d -> index (xs (S m)) (bscope d j) = None.
Proof.
  intro LT. induction j as [|j IH]; [reflexivity|]. cbn [bscope index].
  rewrite xs_eqb_neq by lia. rewrite IH. reflexivity.
Qed.

(** ** the simulation invariant between the map of [ctree] and the state of [cto] *)

Definition sim (d : nat) (fv : list str) (ren : list (str * str)) (benv fenv : list N) : Prop :=
  length fenv = length fv
  /\ (forall i c, nth_error benv i = Some c ->
        alookup str_eqb (xs (d + length benv - i)) ren = Some (canon_name c))
  /\ (forall k x c, nth_error fv k = Some x -> nth_error fenv k = Some c ->
        alookup str_eqb x ren = Some (canon_name c))
  /\ (forall x, In x fv -> exists m, m < d /\ x = xs (S m))
  /\ (forall m, m < d -> ~ In (xs (S m)) fv -> alookup str_eqb (xs (S m)) ren = None).

Lemma sim_init (d : nat) : sim d [] [] [] [].
Proof.
  split; [reflexivity|]. split; [intros [|i] c H; discriminate H|].
  split; [intros [|k] x c H; discriminate H|]. split; [intros x []|]. reflexivity.
Qed.

Lemma nth_error_lt {A} (l : list A) (i : nat) (a : A) : nth_error l i = Some a -> i < length l.
Proof. intro H. apply nth_error_Some. congruence. Qed.

Lemma sim_push d fv ren benv fenv cnt :
  sim d fv ren benv fenv ->
  sim d fv (ainsert str_eqb (xs (S (d + length benv))) (canon_name cnt) ren) (cnt :: benv) fenv.
Proof.
  intros (LEN & BE & FE & FN & UN).
  split; [exact LEN|]. split; [|split; [|split; [exact FN|]]].
  - intros i c NB. rewrite alookup_ainsert. cbn [length]. destruct i as [|i].
    + injection NB as <-. replace (d + S (length benv) - 0) with (S (d + length benv)) by lia.
      rewrite str_eqb_refl. reflexivity.
    + cbn [nth_error] in NB. pose proof (nth_error_lt _ _ _ NB) as LT.
      rewrite xs_eqb_neq by lia.
      replace (d + S (length benv) - S i) with (d + length benv - i) by lia. apply BE, NB.
  - intros k x c NX NC. rewrite alookup_ainsert.
    destruct (FN x (nth_error_In _ _ NX)) as (m & LT & ->).
    rewrite xs_eqb_neq by lia. eapply FE; eassumption.
  - intros m LT NIN. rewrite alookup_ainsert. rewrite xs_eqb_neq by lia. apply UN; assumption.
Qed.

Lemma sim_pop d fv ren benv fenv cnt :
  sim d fv ren (cnt :: benv) fenv -> sim d fv ren benv fenv.
Proof.
  intros (LEN & BE & FE & FN & UN).
  split; [exact LEN|]. split; [|split; [exact FE | split; [exact FN | exact UN]]].
  intros i c NB. pose proof (nth_error_lt _ _ _ NB) as LT.
  specialize (BE (S i) c NB). cbn [length] in BE.
  replace (d + S (length benv) - S i) with (d + length benv - i) in BE by lia. exact BE.
Qed.

Lemma sim_occ d x benv fv ren fenv cnt :
  (exists k, k < d + length benv /\ x = xs (S k)) ->
  sim d fv ren benv fenv ->
  exists fenv',
    oname benv (fst (oref (bscope d (length benv)) fv x)) (cnt, fenv)
    = (fst (cocc x (cnt, ren)), (fst (snd (cocc x (cnt, ren))), fenv'))
    /\ sim d (snd (oref (bscope d (length benv)) fv x)) (snd (snd (cocc x (cnt, ren))))
           benv fenv'.
Proof.
  intros (k & LT & ->) SIM. pose proof SIM as (LEN & BE & FE & FN & UN).
  destruct (Nat.lt_ge_cases k d) as [FREE|BOUND].
  - unfold oref. rewrite index_bscope_free by exact FREE.
    destruct (index (xs (S k)) fv) as [k'|] eqn:I.
    + destruct (index_nth _ _ _ I) as [NTH _]. destruct (index_some _ _ _ I) as [LTk _].
      destruct (nth_error fenv k') as [c|] eqn:NF; [|apply nth_error_None in NF; lia].
      pose proof (FE k' _ c NTH NF) as L.
      exists fenv. unfold cocc. cbn [fst snd]. rewrite L. cbn [fst snd].
      unfold oname. cbn [snd]. rewrite NF. split; [reflexivity | exact SIM].
    + pose proof (index_none _ _ I) as NIN. pose proof (UN k FREE NIN) as L.
      unfold cocc. cbn [fst snd]. rewrite L. unfold cbind, oname. cbn [fst snd].
      assert (nth_error fenv (length fv) = None) as -> by (apply nth_error_None; lia).
      exists (fenv ++ [cnt]). split; [reflexivity|].
      split; [rewrite !app_length; cbn [length]; lia|]. split; [|split; [|split]].
      * intros i c NB. pose proof (nth_error_lt _ _ _ NB) as LTi.
        rewrite alookup_ainsert. rewrite xs_eqb_neq by lia. apply BE, NB.
      * intros k' y c NY NC. rewrite alookup_ainsert.
        destruct (Nat.lt_ge_cases k' (length fv)) as [IN|OUT].
        -- rewrite nth_error_app1 in NY by lia. rewrite nth_error_app1 in NC by lia.
           assert (y <> xs (S k)) as NE
             by (intro E; subst y; apply NIN; eapply nth_error_In; exact NY).
           apply str_eqb_neq in NE. rewrite NE. eapply FE; eassumption.
        -- rewrite nth_error_app2 in NY by lia. rewrite nth_error_app2 in NC by lia.
           rewrite LEN in NC. destruct (k' - length fv) as [|n].
           ++ cbn [nth_error] in NY, NC. injection NY as <-. injection NC as <-.
              rewrite str_eqb_refl. reflexivity.
           ++ destruct n; discriminate NY.
      * intros y IN. apply in_app_or in IN. destruct IN as [IN | [<- | []]].
        -- apply FN, IN.
        -- exists k. split; [exact FREE | reflexivity].
      * intros m LTm NINm. rewrite alookup_ainsert.
        assert (m <> k) as NE
          by (intro E; subst m; apply NINm, in_or_app; right; left; reflexivity).
        rewrite xs_eqb_neq by lia. apply UN; [exact LTm|].
        intro IN. apply NINm, in_or_app. left. exact IN.
  - unfold oref. rewrite index_bscope_bound by lia. cbn [fst snd].
    destruct (nth_error benv (d + length benv - S k)) as [c|] eqn:NB;
      [|apply nth_error_None in NB; lia].
    pose proof (BE _ c NB) as L.
    replace (d + length benv - (d + length benv - S k)) with (S k) in L by lia.
    unfold cocc. cbn [snd]. rewrite L. cbn [fst snd]. unfold oname.
    rewrite (nth_error_nth _ _ _ NB). exists fenv. split; [reflexivity | exact SIM].
Qed.

Lemma ctree_cto (d : nat) (t : tree) :
  forall benv fv ren fenv cnt,
    depth_named (d + length benv) t ->
    sim d fv ren benv fenv ->
    exists fenv',
      cto benv (fst (odb (bscope d (length benv)) t fv)) (cnt, fenv)
      = (fst (ctree t (cnt, ren)), (fst (snd (ctree t (cnt, ren))), fenv'))
      /\ sim d (snd (odb (bscope d (length benv)) t fv)) (snd (snd (ctree t (cnt, ren))))
             benv fenv'.
Proof.
  induction t as [a | o c IH | o l IHl r IHr | o x dm c IH];
    intros benv fv ren fenv cnt DN SIM; cbn [depth_named] in DN; cbn [odb ctree].
  - destruct a as [p | x | | | w]; try (exists fenv; split; [reflexivity | exact SIM]).
    destruct (sim_occ d x benv fv ren fenv cnt DN SIM) as (fenv' & E & SIM').
    destruct (oref (bscope d (length benv)) fv x) as [v fv'].
    destruct (cocc x (cnt, ren)) as [cn [cnt' ren']]. cbn [fst snd] in *.
    exists fenv'. cbn [cto]. rewrite E. split; [reflexivity | exact SIM'].
  - destruct (IH benv fv ren fenv cnt DN SIM) as (fenv' & E & SIM').
    destruct (odb (bscope d (length benv)) c fv) as [oc fv'].
    destruct (ctree c (cnt, ren)) as [c' [cnt' ren']]. cbn [fst snd] in *.
    exists fenv'. cbn [cto]. rewrite E. split; [reflexivity | exact SIM'].
  - destruct DN as [DNl DNr].
    destruct (IHl benv fv ren fenv cnt DNl SIM) as (fenv1 & El & SIM1).
    destruct (odb (bscope d (length benv)) l fv) as [ol fv1].
    destruct (ctree l (cnt, ren)) as [l' [cnt1 ren1]]. cbn [fst snd] in *.
    destruct (IHr benv fv1 ren1 fenv1 cnt1 DNr SIM1) as (fenv2 & Er & SIM2).
    destruct (odb (bscope d (length benv)) r fv1) as [or fv2].
    destruct (ctree r (cnt1, ren1)) as [r' [cnt2 ren2]]. cbn [fst snd] in *.
    exists fenv2. cbn [cto]. rewrite El, Er. split; [reflexivity | exact SIM2].
  - destruct (is_quantifier o) eqn:Q.
    + destruct DN as [-> DN]. unfold cbind. cbn [fst snd].
      assert (depth_named (d + length (cnt :: benv)) c) as DN'
        by (cbn [length]; replace (d + S (length benv)) with (S (d + length benv)) by lia;
            exact DN).
      destruct (IH (cnt :: benv) fv _ fenv (cnt + 1)%N DN' (sim_push _ _ _ _ _ cnt SIM))
        as (fenv' & E & SIM').
      cbn [length bscope] in E, SIM'.
      replace (d + S (length benv)) with (S (d + length benv)) in E, SIM' by lia.
      destruct (odb (xs (S (d + length benv)) :: bscope d (length benv)) c fv) as [oc fv'].
      destruct (ctree c ((cnt + 1)%N, _)) as [c' [cnt' ren']]. cbn [fst snd] in *.
      exists fenv'. cbn [cto fst snd]. rewrite E.
      split; [reflexivity | eapply sim_pop; exact SIM'].
    + destruct DN as [DNx DN]. assert (o = Jump) as -> by (destruct o; try discriminate Q; reflexivity).
      destruct (sim_occ d x benv fv ren fenv cnt DNx SIM) as (fenv1 & Ex & SIM1).
      destruct (oref (bscope d (length benv)) fv x) as [v fv1].
      destruct (cocc x (cnt, ren)) as [cn [cnt1 ren1]]. cbn [fst snd] in *.
      destruct (IH benv fv1 ren1 fenv1 cnt1 DN SIM1) as (fenv2 & Ec & SIM2).
      destruct (odb (bscope d (length benv)) c fv1) as [oc fv2].
      destruct (ctree c (cnt1, ren1)) as [c' [cnt2 ren2]]. cbn [fst snd] in *.
      exists fenv2. cbn [cto]. rewrite Ex, Ec. split; [reflexivity | exact SIM2].
Qed.

(** the canonical tree of a sub-formula of a preprocessed formula is determined by its open
    de Bruijn form *)
Theorem canon_tree_of_open_db (d : nat) (t : tree) :
  depth_named d t -> canon_tree t = fst (cto [] (open_db t) (0%N, [])).
Proof.
  intro DN. unfold canon_tree, open_db.
  assert (depth_named (d + length (@nil N)) t) as DN'
    by (cbn [length]; rewrite Nat.add_0_r; exact DN).
  destruct (ctree_cto d t [] [] [] [] 0%N DN' (sim_init d)) as (fenv' & E & _).
  cbn [length bscope] in E. rewrite E. reflexivity.
Qed.

(** * 3. The open de Bruijn form of the canonical tree *)

(** the numbers in use are distinct and below the counter *)
Definition fresh (cnt : N) (benv fenv : list N) : Prop :=
  NoDup (benv ++ fenv) /\ forall c, In c (benv ++ fenv) -> (c < cnt)%N.

Lemma index_canon_notin (c : N) (l : list N) :
  ~ In c l -> index (canon_name c) (map canon_name l) = None.
Proof.
  intro NIN. apply index_not_in. intro IN. apply in_map_iff in IN.
  destruct IN as (c' & E & IN). apply canon_name_inj in E. subst c'. exact (NIN IN).
Qed.

Lemma index_canon_nth (l : list N) :
  forall i c, NoDup l -> nth_error l i = Some c ->
              index (canon_name c) (map canon_name l) = Some i.
Proof.
  induction l as [|a l IH]; intros i c ND NTH; [destruct i; discriminate NTH|].
  inversion ND as [|a' l' NIN ND' E]; subst. cbn [map index]. destruct i as [|i].
  - injection NTH as <-. rewrite str_eqb_refl. reflexivity.
  - cbn [nth_error] in NTH.
    assert (canon_name c <> canon_name a) as NE.
    { intro E. apply canon_name_inj in E. subst c. apply NIN. eapply nth_error_In; exact NTH. }
    apply str_eqb_neq in NE. rewrite NE. rewrite (IH i c ND' NTH). reflexivity.
Qed.

Lemma NoDup_snoc {A} (l : list A) (a : A) : NoDup l -> ~ In a l -> NoDup (l ++ [a]).
Proof.
  induction l as [|b l IH]; intros ND NIN; cbn [app].
  - constructor; [intros [] | constructor].
  - inversion ND as [|b' l' NINb ND' E]; subst. constructor.
    + intro IN. apply in_app_or in IN. destruct IN as [IN | [E | []]]; [exact (NINb IN)|].
      apply NIN. left. symmetry. exact E.
    + apply IH; [exact ND'|]. intro IN. apply NIN. right. exact IN.
Qed.

Lemma fresh_snoc cnt benv fenv : fresh cnt benv fenv -> fresh (cnt + 1) benv (fenv ++ [cnt]).
Proof.
  intros [ND LT]. split.
  - rewrite app_assoc. apply NoDup_snoc; [exact ND|].
    intro IN. specialize (LT _ IN). lia.
  - intros c IN. rewrite app_assoc in IN. apply in_app_or in IN.
    destruct IN as [IN | [<- | []]]; [specialize (LT _ IN)|]; lia.
Qed.

Lemma fresh_push cnt benv fenv : fresh cnt benv fenv -> fresh (cnt + 1) (cnt :: benv) fenv.
Proof.
  intros [ND LT]. split.
  - cbn [app]. constructor; [|exact ND]. intro IN. specialize (LT _ IN). lia.
  - intros c IN. cbn [app In] in IN. destruct IN as [<- | IN]; [|specialize (LT _ IN)]; lia.
Qed.

Lemma fresh_pop cnt cnt' benv fenv : fresh cnt' (cnt :: benv) fenv -> fresh cnt' benv fenv.
Proof.
  intros [ND LT]. split.
  - cbn [app] in ND. inversion ND; assumption.
  - intros c IN. apply LT. cbn [app In]. right. exact IN.
Qed.

Lemma NoDup_app_l {A} (a b : list A) : NoDup (a ++ b) -> NoDup a.
Proof.
  induction a as [|x a IH]; intro ND; [constructor|].
  cbn [app] in ND. inversion ND as [|x' l' NIN ND' E]; subst. constructor.
  - intro IN. apply NIN, in_or_app. left. exact IN.
  - apply IH, ND'.
Qed.

Lemma NoDup_app_r {A} (a b : list A) : NoDup (a ++ b) -> NoDup b.
Proof.
  induction a as [|x a IH]; intro ND; [exact ND|].
  cbn [app] in ND. inversion ND; subst. apply IH. assumption.
Qed.

Lemma NoDup_app_disj {A} (a b : list A) (x : A) : NoDup (a ++ b) -> In x a -> In x b -> False.
Proof.
  induction a as [|y a IH]; intros ND INa INb; [destruct INa|].
  cbn [app] in ND. inversion ND as [|y' l' NIN ND' E]; subst.
  destruct INa as [-> | INa].
  - apply NIN, in_or_app. right. exact INb.
  - exact (IH ND' INa INb).
Qed.

(** a variable: reading back the name given by [oname] *)
Lemma oref_oname env fv x benv fenv cnt :
  length benv = length env -> length fenv = length fv -> fresh cnt benv fenv ->
  oref (map canon_name benv) (map canon_name fenv)
       (fst (oname benv (fst (oref env fv x)) (cnt, fenv)))
  = (fst (oref env fv x),
     map canon_name (snd (snd (oname benv (fst (oref env fv x)) (cnt, fenv)))))
  /\ length (snd (snd (oname benv (fst (oref env fv x)) (cnt, fenv))))
     = length (snd (oref env fv x))
  /\ fresh (fst (snd (oname benv (fst (oref env fv x)) (cnt, fenv)))) benv
           (snd (snd (oname benv (fst (oref env fv x)) (cnt, fenv)))).
Proof.
  intros LB LF FR. pose proof FR as [ND LT]. unfold oref.
  destruct (index x env) as [i|] eqn:IE.
  - cbn [fst snd oname]. destruct (index_some _ _ _ IE) as [LTi _].
    assert (nth_error benv i = Some (nth i benv 0%N)) as NB by (apply nth_error_nth'; lia).
    split; [|split; [exact LF | exact FR]].
    rewrite (index_canon_nth benv i _ (NoDup_app_l _ _ ND) NB). reflexivity.
  - destruct (index x fv) as [k|] eqn:IF.
    + cbn [fst snd oname]. destruct (index_some _ _ _ IF) as [LTk _].
      destruct (nth_error fenv k) as [c|] eqn:NF; [|apply nth_error_None in NF; lia].
      cbn [fst snd]. split; [|split; [exact LF | exact FR]].
      rewrite index_canon_notin.
      * rewrite (index_canon_nth fenv k c (NoDup_app_r _ _ ND) NF). reflexivity.
      * intro IN. exact (NoDup_app_disj _ _ c ND IN (nth_error_In _ _ NF)).
    + cbn [fst snd oname].
      assert (nth_error fenv (length fv) = None) as -> by (apply nth_error_None; lia).
      cbn [fst snd]. split; [|split].
      * rewrite index_canon_notin
          by (intro IN; assert (cnt < cnt)%N by (apply LT, in_or_app; left; exact IN); lia).
        rewrite index_canon_notin
          by (intro IN; assert (cnt < cnt)%N by (apply LT, in_or_app; right; exact IN); lia).
        rewrite map_length, LF, map_app. reflexivity.
      * rewrite !app_length. cbn [length]. lia.
      * apply fresh_snoc, FR.
Qed.

Lemma odb_cto (t : tree) :
  forall env fv benv fenv cnt,
    length benv = length env -> length fenv = length fv -> fresh cnt benv fenv ->
    odb (map canon_name benv)
        (fst (cto benv (fst (odb env t fv)) (cnt, fenv))) (map canon_name fenv)
    = (fst (odb env t fv),
       map canon_name (snd (snd (cto benv (fst (odb env t fv)) (cnt, fenv)))))
    /\ length (snd (snd (cto benv (fst (odb env t fv)) (cnt, fenv))))
       = length (snd (odb env t fv))
    /\ fresh (fst (snd (cto benv (fst (odb env t fv)) (cnt, fenv)))) benv
             (snd (snd (cto benv (fst (odb env t fv)) (cnt, fenv)))).
Proof.
  induction t as [a | o c IH | o l IHl r IHr | o x dm c IH];
    intros env fv benv fenv cnt LB LF FR; cbn [odb].
  - destruct a as [p | x | | | w];
      try (cbn [fst snd cto odb]; split; [reflexivity | split; [exact LF | exact FR]]).
    destruct (oref_oname env fv x benv fenv cnt LB LF FR) as (E & LEN & FR').
    destruct (oref env fv x) as [v fv']. cbn [fst snd cto] in *.
    destruct (oname benv v (cnt, fenv)) as [cn [cnt' fenv']]. cbn [fst snd odb] in *.
    rewrite E. split; [reflexivity | split; [exact LEN | exact FR']].
  - destruct (IH env fv benv fenv cnt LB LF FR) as (E & LEN & FR').
    destruct (odb env c fv) as [oc fv']. cbn [fst snd cto] in *.
    destruct (cto benv oc (cnt, fenv)) as [c' [cnt' fenv']]. cbn [fst snd odb] in *.
    rewrite E. split; [reflexivity | split; [exact LEN | exact FR']].
  - pose proof (IHl env fv benv fenv cnt LB LF FR) as Hl.
    destruct (odb env l fv) as [ol fv1]. cbn [fst snd] in Hl.
    destruct (cto benv ol (cnt, fenv)) as [l' [cnt1 fenv1]] eqn:Cl. cbn [fst snd] in Hl.
    destruct Hl as (El & LEN1 & FR1).
    pose proof (IHr env fv1 benv fenv1 cnt1 LB LEN1 FR1) as Hr.
    destruct (odb env r fv1) as [or fv2]. cbn [fst snd] in Hr. cbn [fst snd cto]. rewrite Cl.
    destruct (cto benv or (cnt1, fenv1)) as [r' [cnt2 fenv2]]. cbn [fst snd odb] in *.
    destruct Hr as (Er & LEN2 & FR2).
    rewrite El, Er. split; [reflexivity | split; [exact LEN2 | exact FR2]].
  - destruct (is_quantifier o) eqn:Q.
    + assert (length (cnt :: benv) = length (x :: env)) as LB' by (cbn [length]; lia).
      destruct (IH (x :: env) fv (cnt :: benv) fenv (cnt + 1)%N LB' LF (fresh_push _ _ _ FR))
        as (E & LEN & FR').
      destruct (odb (x :: env) c fv) as [oc fv']. cbn [fst snd cto] in *.
      destruct (cto (cnt :: benv) oc ((cnt + 1)%N, fenv)) as [c' [cnt' fenv']].
      cbn [fst snd odb map] in *. rewrite Q, E.
      split; [reflexivity | split; [exact LEN | eapply fresh_pop; exact FR']].
    + pose proof (oref_oname env fv x benv fenv cnt LB LF FR) as Hx.
      destruct (oref env fv x) as [v fv1]. cbn [fst snd] in Hx.
      destruct (oname benv v (cnt, fenv)) as [cn [cnt1 fenv1]] eqn:Cx. cbn [fst snd] in Hx.
      destruct Hx as (Ex & LEN1 & FR1).
      pose proof (IH env fv1 benv fenv1 cnt1 LB LEN1 FR1) as Hc.
      destruct (odb env c fv1) as [oc fv2]. cbn [fst snd] in Hc. cbn [fst snd cto]. rewrite Cx.
      destruct (cto benv oc (cnt1, fenv1)) as [c' [cnt2 fenv2]]. cbn [fst snd odb] in *.
      destruct Hc as (Ec & LEN2 & FR2).
      change (is_quantifier Jump) with false. cbn iota. rewrite Ex, Ec.
      split; [reflexivity | split; [exact LEN2 | exact FR2]].
Qed.

Lemma fresh_init : fresh 0 [] [].
Proof. split; [constructor | intros c []]. Qed.

(** canonisation does not change the open de Bruijn form *)
Theorem open_db_canon_tree (d : nat) (t : tree) :
  depth_named d t -> open_db (canon_tree t) = open_db t.
Proof.
  intro DN. rewrite (canon_tree_of_open_db d t DN). unfold open_db.
  destruct (odb_cto t [] [] [] [] 0%N eq_refl eq_refl fresh_init) as (E & _ & _).
  cbn [map] in E. rewrite E. reflexivity.
Qed.

Theorem canon_tree_iff_alpha (d1 d2 : nat) (t1 t2 : tree) :
  depth_named d1 t1 -> depth_named d2 t2 ->
  (canon_tree t1 = canon_tree t2 <-> alpha_eq t1 t2).
Proof.
  intros DN1 DN2. unfold alpha_eq. split.
  - intro E. rewrite <- (open_db_canon_tree d1 t1 DN1), <- (open_db_canon_tree d2 t2 DN2), E.
    reflexivity.
  - intro E. rewrite (canon_tree_of_open_db d1 t1 DN1), (canon_tree_of_open_db d2 t2 DN2), E.
    reflexivity.
Qed.

(** * 4. Canonical texts *)

Section Text.
Variable ext_alnum : N -> bool.
Variable ext : bool.

Definition vals_named (s : cstate) : Prop :=
  forall x cn, alookup str_eqb x (snd s) = Some cn -> name_ok ext_alnum cn.

Lemma vals_named_cbind x s : vals_named s -> vals_named (snd (cbind x s)).
Proof.
  intros H y cn L. unfold cbind in L. cbn [snd] in L. rewrite alookup_ainsert in L.
  destruct (str_eqb y x); [injection L as <-; apply canon_name_name_ok | exact (H y cn L)].
Qed.

Lemma cocc_named x s :
  vals_named s -> name_ok ext_alnum (fst (cocc x s)) /\ vals_named (snd (cocc x s)).
Proof.
  intro H. unfold cocc. destruct (alookup str_eqb x (snd s)) as [cn|] eqn:L.
  - split; [exact (H x cn L) | exact H].
  - split; [apply canon_name_name_ok | apply vals_named_cbind, H].
Qed.

Lemma ctree_well_named (t : tree) :
  forall s, well_named ext_alnum ext t -> vals_named s ->
            well_named ext_alnum ext (fst (ctree t s)) /\ vals_named (snd (ctree t s)).
Proof.
  induction t as [a | o c IH | o l IHl r IHr | o x d c IH]; intros s OK V;
    cbn [well_named] in OK; cbn [ctree].
  - destruct a as [p | x | | | w]; try (split; [exact OK | exact V]).
    destruct (cocc_named x s V) as [A B]. destruct (cocc x s) as [cn s']. split; assumption.
  - destruct (IH s OK V) as [A B]. destruct (ctree c s) as [c' s']. split; assumption.
  - destruct OK as [OKl OKr].
    destruct (IHl s OKl V) as [A B]. destruct (ctree l s) as [l' s1]. cbn [fst snd] in *.
    destruct (IHr s1 OKr B) as [A' B']. destruct (ctree r s1) as [r' s2]. cbn [fst snd] in *.
    split; [split|]; assumption.
  - destruct OK as (OKx & OKd & OKc).
    assert (name_ok ext_alnum (fst (if is_quantifier o then cbind x s else cocc x s))
            /\ vals_named (snd (if is_quantifier o then cbind x s else cocc x s))) as [A B].
    { destruct (is_quantifier o);
        [split; [apply canon_name_name_ok | apply vals_named_cbind, V]|].
      apply cocc_named, V. }
    destruct (if is_quantifier o then cbind x s else cocc x s) as [cn s1]. cbn [fst snd] in *.
    destruct (IH s1 OKc B) as [A' B']. destruct (ctree c s1) as [c' s2]. cbn [fst snd] in *.
    split; [exact (conj A (conj OKd A')) | exact B'].
Qed.

Lemma canon_tree_well_named (t : tree) :
  well_named ext_alnum ext t -> well_named ext_alnum ext (canon_tree t).
Proof.
  intro OK. apply (ctree_well_named t (0%N, []) OK). intros x cn L. discriminate L.
Qed.

(** equal canonical texts: the sub-formulae are equal up to renaming (what caching relies on) *)
Theorem canon_text_alpha (d1 d2 : nat) (t1 t2 : tree) :
  well_named ext_alnum ext t1 -> well_named ext_alnum ext t2 ->
  depth_named d1 t1 -> depth_named d2 t2 ->
  fst (canonize (render t1)) = fst (canonize (render t2)) -> alpha_eq t1 t2.
Proof.
  intros W1 W2 DN1 DN2 E.
  rewrite (canon_commutes t1 (well_named_canon_ok _ _ _ W1)) in E.
  rewrite (canon_commutes t2 (well_named_canon_ok _ _ _ W2)) in E. cbn [fst] in E.
  apply (render_injective ext_alnum ext) in E; try (apply canon_tree_well_named; assumption).
  apply (canon_tree_iff_alpha d1 d2 t1 t2 DN1 DN2), E.
Qed.

End Text.

(** sub-formulae equal up to renaming have the same canonical text *)
Theorem alpha_canon_text (d1 d2 : nat) (t1 t2 : tree) :
  canon_ok t1 -> canon_ok t2 -> depth_named d1 t1 -> depth_named d2 t2 ->
  alpha_eq t1 t2 -> fst (canonize (render t1)) = fst (canonize (render t2)).
Proof.
  intros OK1 OK2 DN1 DN2 E.
  rewrite (canon_commutes t1 OK1), (canon_commutes t2 OK2). cbn [fst]. f_equal.
  apply (canon_tree_iff_alpha d1 d2 t1 t2 DN1 DN2), E.
Qed.

Theorem canon_iff_alpha (ext_alnum : N -> bool) (ext : bool) (d1 d2 : nat) (t1 t2 : tree) :
  well_named ext_alnum ext t1 -> well_named ext_alnum ext t2 ->
  depth_named d1 t1 -> depth_named d2 t2 ->
  (fst (canonize (render t1)) = fst (canonize (render t2)) <-> alpha_eq t1 t2).
Proof.
  intros W1 W2 DN1 DN2. split.
  - apply (canon_text_alpha ext_alnum ext d1 d2); assumption.
  - apply (alpha_canon_text d1 d2); try assumption;
      eapply well_named_canon_ok; eassumption.
Qed.

(** * 5. Relation with the de Bruijn form of PrepFacts (free variables keep their name there) *)

Definition o_of_dvar (fv : list str) (v : dvar) : ovar * list str :=
  match v with
  | DBound i => (OBound i, fv)
  | DFree x =>
      match index x fv with
      | Some k => (OFree k, fv)
      | None => (OFree (length fv), fv ++ [x])
      end
  end.

Fixpoint o_of_d (t : dtree) (fv : list str) : otree * list str :=
  match t with
  | DVar v => let (v', fv') := o_of_dvar fv v in (OVar v', fv')
  | DProp p => (OProp p, fv)
  | DTrue => (OTrue, fv)
  | DFalse => (OFalse, fv)
  | DWild w => (OWild w, fv)
  | DUnary o c => let (c', fv') := o_of_d c fv in (OUnary o c', fv')
  | DBinary o l r =>
      let (l', fv1) := o_of_d l fv in
      let (r', fv2) := o_of_d r fv1 in
      (OBinary o l' r', fv2)
  | DQuant o d c => let (c', fv') := o_of_d c fv in (OQuant o d c', fv')
  | DJump v d c =>
      let (v', fv1) := o_of_dvar fv v in
      let (c', fv2) := o_of_d c fv1 in
      (OJump v' d c', fv2)
  end.

Lemma oref_of_dref env fv x : oref env fv x = o_of_dvar fv (dref env x).
Proof. unfold oref, dref. destruct (index x env); reflexivity. Qed.

Lemma odb_of_db (t : tree) : forall env fv, odb env t fv = o_of_d (db env t) fv.
Proof.
  induction t as [a | o c IH | o l IHl r IHr | o x d c IH]; intros env fv; cbn [odb db].
  - destruct a; cbn [o_of_d]; try reflexivity. rewrite oref_of_dref. reflexivity.
  - cbn [o_of_d]. rewrite IH. reflexivity.
  - cbn [o_of_d]. rewrite IHl. destruct (o_of_d (db env l) fv) as [l' fv1].
    rewrite IHr. reflexivity.
  - destruct (is_quantifier o); cbn [o_of_d].
    + rewrite IH. reflexivity.
    + rewrite oref_of_dref. destruct (o_of_dvar fv (dref env x)) as [v fv1].
      rewrite IH. reflexivity.
Qed.

(** formulae with the same de Bruijn form (same free names) are equal up to renaming *)
Theorem db_alpha_eq (t1 t2 : tree) : db [] t1 = db [] t2 -> alpha_eq t1 t2.
Proof. intro E. unfold alpha_eq, open_db. rewrite !odb_of_db, E. reflexivity. Qed.

(** * 6. The open de Bruijn form is invariant under injective renamings of all variables *)

Fixpoint vmap (sigma : str -> str) (t : tree) : tree :=
  match t with
  | Terminal (AVar x) => Terminal (AVar (sigma x))
  | Terminal _ => t
  | Unary o c => Unary o (vmap sigma c)
  | Binary o l r => Binary o (vmap sigma l) (vmap sigma r)
  | Hybrid o x d c => Hybrid o (sigma x) d (vmap sigma c)
  end.

Section Renaming.
Variable sigma : str -> str.
Hypothesis sigma_inj : forall x y, sigma x = sigma y -> x = y.

Lemma index_map_inj (x : str) (l : list str) : index (sigma x) (map sigma l) = index x l.
Proof.
  induction l as [|y l IH]; [reflexivity|]. cbn [map index]. rewrite IH.
  destruct (str_eqb x y) eqn:E; str_eq.
  - subst y. rewrite str_eqb_refl. reflexivity.
  - assert (sigma x <> sigma y) as NE by (intro H; apply E, sigma_inj, H).
    apply str_eqb_neq in NE. rewrite NE. reflexivity.
Qed.

Lemma oref_vmap (env fv : list str) (x : str) :
  oref (map sigma env) (map sigma fv) (sigma x)
  = (fst (oref env fv x), map sigma (snd (oref env fv x))).
Proof.
  unfold oref. rewrite !index_map_inj.
  destruct (index x env); [reflexivity|]. destruct (index x fv); [reflexivity|].
  cbn [fst snd]. rewrite map_length, map_app. reflexivity.
Qed.

Lemma odb_vmap (t : tree) :
  forall env fv,
    odb (map sigma env) (vmap sigma t) (map sigma fv)
    = (fst (odb env t fv), map sigma (snd (odb env t fv))).
Proof.
  induction t as [a | o c IH | o l IHl r IHr | o x d c IH]; intros env fv; cbn [vmap odb].
  - destruct a as [p | x | | | w]; cbn [vmap odb]; try reflexivity.
    rewrite oref_vmap. destruct (oref env fv x) as [v fv']. reflexivity.
  - rewrite IH. destruct (odb env c fv) as [oc fv']. reflexivity.
  - rewrite IHl. destruct (odb env l fv) as [ol fv1]. cbn [fst snd].
    rewrite IHr. destruct (odb env r fv1) as [or fv2]. reflexivity.
  - destruct (is_quantifier o).
    + change (sigma x :: map sigma env) with (map sigma (x :: env)).
      rewrite IH. destruct (odb (x :: env) c fv) as [oc fv']. reflexivity.
    + rewrite oref_vmap. destruct (oref env fv x) as [v fv1]. cbn [fst snd].
      rewrite IH. destruct (odb env c fv1) as [oc fv2]. reflexivity.
Qed.

Theorem alpha_eq_vmap (t : tree) : alpha_eq (vmap sigma t) t.
Proof.
  unfold alpha_eq, open_db.
  change (@nil str) with (map sigma []) at 1 2. rewrite odb_vmap. reflexivity.
Qed.

End Renaming.
