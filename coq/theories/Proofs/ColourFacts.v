(** C20 -- the answer for a colour is the answer on the network instantiated by that colour.

    1. [sat] reads a graph only through [g_n], [g_k] and [enabled] at valuations of the colour
       of the valuation it is asked about (a path never leaves its colour).
    2. [instantiate c G] fixes every parameter level of every update function to the value
       given by the colour [c]; on valuations of colour [c] it has the transitions of [G], and
       its transitions do not read the colour bits at all.
    3. Consequently the evaluator returns, for a valuation of colour [c], the same answer on
       [G] and on [instantiate c G]. *)
From HCTL Require Import Base Syntax Canon MarkDup TT Ops Eval Kripke HCTL.
From HCTL Require Import TTFacts OpsFacts FixFacts SemFacts HybridFacts EvalPure Main.

(** [v] has the colour (parameter bits) of [c] *)
Definition has_colour (c v : val) : Prop := forall j, v (TP j) = c (TP j).

Lemma has_colour_refl c : has_colour c c.
Proof. intro j; reflexivity. Qed.

(** ---- the valuations visited by the semantics keep the colour ---- *)
Lemma has_colour_vflip c i v : has_colour c v -> has_colour c (vflip (TS i) v).
Proof. intros Hc j. unfold vflip. cbn [tag_eqb]. apply Hc. Qed.

Lemma has_colour_set_copy c e u v : has_colour c v -> has_colour c (set_copy e u v).
Proof. intros Hc j. unfold set_copy. apply Hc. Qed.

Lemma has_colour_set_state c e v : has_colour c v -> has_colour c (set_state e v).
Proof. intros Hc j. unfold set_state. apply Hc. Qed.

Lemma has_colour_with_state c u v : has_colour c v -> has_colour c (with_state u v).
Proof. intros Hc j. unfold with_state. apply Hc. Qed.

(** ---- 1. the operators of the specification, one direction at a time ---- *)
Section Transfer.
Variables G G' : genv.
Variable c : val.
Hypothesis Hn : g_n G = g_n G'.
Hypothesis Hen : forall i v, has_colour c v -> enabled G i v = enabled G' i v.
Variables P P' Q Q' : val -> Prop.
Hypothesis HP : forall v, has_colour c v -> P v -> P' v.
Hypothesis HQ : forall v, has_colour c v -> Q v -> Q' v.

Lemma vsteady_col v : has_colour c v -> vsteady G' v -> vsteady G v.
Proof.
  intros Hc Hs i Hi. rewrite (Hen i v Hc). apply Hs. rewrite <- Hn. exact Hi.
Qed.

Lemma vsteady_col_rev v : has_colour c v -> vsteady G v -> vsteady G' v.
Proof.
  intros Hc Hs i Hi. rewrite <- (Hen i v Hc). apply Hs. rewrite Hn. exact Hi.
Qed.

Lemma EXs_col v : has_colour c v -> EXs G P v -> EXs G' P' v.
Proof.
  intros Hc [[i [Hi [He Hp]]]|[Hs Hp]].
  - left. exists i. split; [rewrite <- Hn; exact Hi|]. split.
    + rewrite <- (Hen i v Hc). exact He.
    + apply HP; [apply has_colour_vflip; exact Hc | exact Hp].
  - right. split; [apply vsteady_col_rev; assumption | apply HP; assumption].
Qed.

Lemma EUs_col v : has_colour c v -> EUs G P Q v -> EUs G' P' Q' v.
Proof.
  intros Hc H. induction H as [v Hq | v i Hp Hi He H IH].
  - apply EUs_here. apply HQ; assumption.
  - apply EUs_step with (i := i).
    + apply HP; assumption.
    + rewrite <- Hn. exact Hi.
    + rewrite <- (Hen i v Hc). exact He.
    + apply IH. apply has_colour_vflip. exact Hc.
Qed.

(** post-fixed points are transported by restricting them to the colour *)
Lemma EGs_col v : has_colour c v -> EGs G P v -> EGs G' P' v.
Proof.
  intros Hc [X [Hx HX]].
  exists (fun u => has_colour c u /\ X u). split; [split; assumption|].
  intros u [Hcu Hxu]. destruct (HX u Hxu) as [Hp Hex]. split; [apply HP; assumption|].
  destruct Hex as [[i [Hi [He Hxi]]]|[Hs Hxs]].
  - left. exists i. split; [rewrite <- Hn; exact Hi|]. split.
    + rewrite <- (Hen i u Hcu). exact He.
    + split; [apply has_colour_vflip; exact Hcu | exact Hxi].
  - right. split; [apply vsteady_col_rev; assumption|]. split; assumption.
Qed.

Lemma EWs_col v : has_colour c v -> EWs G P Q v -> EWs G' P' Q' v.
Proof.
  intros Hc [X [Hx HX]].
  exists (fun u => has_colour c u /\ X u). split; [split; assumption|].
  intros u [Hcu Hxu]. destruct (HX u Hxu) as [Hq|[Hp Hex]]; [left; apply HQ; assumption|].
  right. split; [apply HP; assumption|].
  destruct Hex as [[i [Hi [He Hxi]]]|[Hs Hxs]].
  - left. exists i. split; [rewrite <- Hn; exact Hi|]. split.
    + rewrite <- (Hen i u Hcu). exact He.
    + split; [apply has_colour_vflip; exact Hcu | exact Hxi].
  - right. split; [apply vsteady_col_rev; assumption|]. split; assumption.
Qed.

End Transfer.

(** the universal operators use the hypotheses on [enabled] in the other direction *)
Section TransferA.
Variables G G' : genv.
Variable c : val.
Hypothesis Hn : g_n G = g_n G'.
Hypothesis Hen : forall i v, has_colour c v -> enabled G i v = enabled G' i v.
Variables P P' Q Q' : val -> Prop.
Hypothesis HP : forall v, has_colour c v -> P v -> P' v.
Hypothesis HQ : forall v, has_colour c v -> Q v -> Q' v.

Lemma AXs_col v : has_colour c v -> AXs G P v -> AXs G' P' v.
Proof.
  intros Hc [Hm Hs]. split.
  - intros i Hi He. apply HP; [apply has_colour_vflip; exact Hc|].
    apply Hm; [rewrite Hn; exact Hi | rewrite (Hen i v Hc); exact He].
  - intro Hst. apply HP; [exact Hc|]. apply Hs. eapply vsteady_col; eassumption.
Qed.

Lemma AUs_col v : has_colour c v -> AUs G P Q v -> AUs G' P' Q' v.
Proof.
  intros Hc H. induction H as [v Hq | v Hp Hm IHm Hs IHs].
  - apply AUs_here. apply HQ; assumption.
  - apply AUs_step.
    + apply HP; assumption.
    + intros i Hi He. apply IHm.
      * rewrite Hn. exact Hi.
      * rewrite (Hen i v Hc). exact He.
      * apply has_colour_vflip. exact Hc.
    + intro Hst. apply IHs; [|exact Hc]. eapply vsteady_col; eassumption.
Qed.

Lemma AGs_col v : has_colour c v -> AGs G P v -> AGs G' P' v.
Proof.
  intros Hc [X [Hx HX]].
  exists (fun u => has_colour c u /\ X u). split; [split; assumption|].
  intros u [Hcu Hxu]. destruct (HX u Hxu) as [Hp [Hm Hs]]. split; [apply HP; assumption|].
  split.
  - intros i Hi He. split; [apply has_colour_vflip; exact Hcu|].
    apply Hm; [rewrite Hn; exact Hi | rewrite (Hen i u Hcu); exact He].
  - intro Hst. split; [exact Hcu|]. apply Hs. eapply vsteady_col; eassumption.
Qed.

Lemma AWs_col v : has_colour c v -> AWs G P Q v -> AWs G' P' Q' v.
Proof.
  intros Hc [X [Hx HX]].
  exists (fun u => has_colour c u /\ X u). split; [split; assumption|].
  intros u [Hcu Hxu]. destruct (HX u Hxu) as [Hq|[Hp [Hm Hs]]]; [left; apply HQ; assumption|].
  right. split; [apply HP; assumption|]. split.
  - intros i Hi He. split; [apply has_colour_vflip; exact Hcu|].
    apply Hm; [rewrite Hn; exact Hi | rewrite (Hen i u Hcu); exact He].
  - intro Hst. split; [exact Hcu|]. apply Hs. eapply vsteady_col; eassumption.
Qed.

End TransferA.

(** the parts of [sat] that read the graph through its dimensions only *)
Lemma var_of_dims G G' x : g_k G = g_k G' -> var_of G x = var_of G' x.
Proof. intro Hk. unfold var_of. rewrite Hk. reflexivity. Qed.

Lemma copy_is_state_dims G G' e v : g_n G = g_n G' -> (copy_is_state G e v <-> copy_is_state G' e v).
Proof. intro Hn. unfold copy_is_state. rewrite Hn. tauto. Qed.

(** one direction of the main statement, for any pair of graphs that look alike in colour c *)
Lemma sat_colour_imp names Gamma c : forall t G G',
  g_n G = g_n G' -> g_k G = g_k G' ->
  (forall i v, has_colour c v -> enabled G i v = enabled G' i v) ->
  forall v, has_colour c v -> sat G names Gamma t v -> sat G' names Gamma t v.
Proof.
  induction t as [a | o a IH | o a IHa b IHb | o x d a IH]; intros G G' Hn Hk Hen v Hc H.
  - (* terminals *)
    destruct a as [nm | x | | | l]; cbn [sat] in H |- *; try exact H.
    destruct H as [e [He Hcp]]. exists e. split.
    + rewrite <- (var_of_dims G G' x Hk). exact He.
    + apply (copy_is_state_dims G G' e v Hn). exact Hcp.
  - (* unary *)
    assert (Hen' : forall i u, has_colour c u -> enabled G' i u = enabled G i u)
      by (intros i u Hu; symmetry; apply Hen; exact Hu).
    assert (F : forall u, has_colour c u -> sat G names Gamma a u -> sat G' names Gamma a u)
      by (intros u Hu; apply IH; assumption).
    assert (B : forall u, has_colour c u -> sat G' names Gamma a u -> sat G names Gamma a u)
      by (intros u Hu; apply IH; auto).
    destruct o; cbn [sat] in H |- *.
    + intro H'. apply H. apply B; assumption.
    + eapply EXs_col; eauto.
    + eapply AXs_col; eauto.
    + unfold EFs in *. eapply EUs_col; eauto.
    + unfold AFs in *. eapply AUs_col; eauto.
    + eapply EGs_col; eauto.
    + eapply AGs_col; eauto.
  - (* binary *)
    assert (Hen' : forall i u, has_colour c u -> enabled G' i u = enabled G i u)
      by (intros i u Hu; symmetry; apply Hen; exact Hu).
    assert (Fa : forall u, has_colour c u -> sat G names Gamma a u -> sat G' names Gamma a u)
      by (intros u Hu; apply IHa; assumption).
    assert (Ba : forall u, has_colour c u -> sat G' names Gamma a u -> sat G names Gamma a u)
      by (intros u Hu; apply IHa; auto).
    assert (Fb : forall u, has_colour c u -> sat G names Gamma b u -> sat G' names Gamma b u)
      by (intros u Hu; apply IHb; assumption).
    assert (Bb : forall u, has_colour c u -> sat G' names Gamma b u -> sat G names Gamma b u)
      by (intros u Hu; apply IHb; auto).
    destruct o; cbn [sat] in H |- *.
    + destruct H as [H1 H2]. split; [apply Fa | apply Fb]; assumption.
    + destruct H as [H1|H2]; [left; apply Fa | right; apply Fb]; assumption.
    + intro E. apply H. split; intro X.
      * apply Bb; [exact Hc|]. apply E. apply Fa; assumption.
      * apply Ba; [exact Hc|]. apply E. apply Fb; assumption.
    + intro X. apply Fb; [exact Hc|]. apply H. apply Ba; assumption.
    + split; intro X.
      * apply Fb; [exact Hc|]. apply H. apply Ba; assumption.
      * apply Fa; [exact Hc|]. apply H. apply Bb; assumption.
    + eapply EUs_col; eauto.
    + eapply AUs_col; eauto.
    + eapply EWs_col; eauto.
    + eapply AWs_col; eauto.
  - (* hybrid *)
    assert (F : forall u, has_colour c u -> sat G names Gamma a u -> sat G' names Gamma a u)
      by (intros u Hu; apply IH; assumption).
    destruct o; cbn [sat] in H |- *.
    + destruct H as [e [He [Hd Hs]]]. exists e.
      split; [rewrite <- (var_of_dims G G' x Hk); exact He|].
      split; [exact Hd|].
      apply (F (set_copy e v v)); [apply has_colour_set_copy; exact Hc | exact Hs].
    + destruct H as [e [He Hs]]. exists e.
      split; [rewrite <- (var_of_dims G G' x Hk); exact He|].
      apply (F (set_state e v)); [apply has_colour_set_state; exact Hc | exact Hs].
    + destruct H as [e [He [u [Hd Hs]]]]. exists e.
      split; [rewrite <- (var_of_dims G G' x Hk); exact He|].
      exists u. split; [exact Hd|].
      apply (F (set_copy e u v)); [apply has_colour_set_copy; exact Hc | exact Hs].
    + destruct H as [e [He Hs]]. exists e.
      split; [rewrite <- (var_of_dims G G' x Hk); exact He|].
      intros u Hd.
      apply (F (set_copy e u v)); [apply has_colour_set_copy; exact Hc|].
      apply Hs. exact Hd.
Qed.

(** C20, first statement *)
Theorem sat_depends_on_colour_only G G' names Gamma c :
  g_n G = g_n G' -> g_k G = g_k G' ->
  (forall i v, has_colour c v -> enabled G i v = enabled G' i v) ->
  forall t v, has_colour c v -> (sat G names Gamma t v <-> sat G' names Gamma t v).
Proof.
  intros Hn Hk Hen t v Hc. split.
  - apply sat_colour_imp with (c := c); assumption.
  - apply sat_colour_imp with (c := c); auto.
    intros i u Hu. symmetry. apply Hen. exact Hu.
Qed.

(** ---- 2. instantiation of a graph by a colour ---- *)

(** fix every parameter level of a tree to the value the colour gives it *)
Fixpoint fix_colour (c : val) (L : layout) (t : tt) : tt :=
  match L, t with
  | g :: L', Node lo hi =>
      match g with
      | TP _ => let s := fix_colour c L' (if c g then hi else lo) in Node s s
      | _ => Node (fix_colour c L' lo) (fix_colour c L' hi)
      end
  | _, _ => t
  end.

Definition instantiate (c : val) (G : genv) : genv :=
  {| g_n := g_n G; g_p := g_p G; g_k := g_k G; g_L := g_L G;
     g_upd := map (fix_colour c (g_L G)) (g_upd G) |}.

(** [v] with its colour bits replaced by those of [c] *)
Definition recolour (c v : val) : val :=
  fun g => match g with TP _ => c g | _ => v g end.

Lemma recolour_has_colour c v : has_colour c (recolour c v).
Proof. intro j. reflexivity. Qed.

Lemma recolour_id c v g : has_colour c v -> recolour c v g = v g.
Proof. intro Hc. destruct g as [j|i|i e]; cbn [recolour]; [symmetry; apply Hc | reflexivity | reflexivity]. Qed.

Lemma shaped_fix_colour c L : forall t, shaped L t -> shaped L (fix_colour c L t).
Proof.
  induction L as [|g L IH]; intros [b|lo hi]; cbn [shaped fix_colour]; try tauto.
  intros [H1 H2]. destruct g as [j|i|i e]; cbn [shaped].
  - destruct (c (TP j)); split; apply IH; assumption.
  - split; apply IH; assumption.
  - split; apply IH; assumption.
Qed.

(** membership in the fixed tree: holds for every tree and layout *)
Lemma mem_fix_colour_gen c L : forall t v,
  mem L (fix_colour c L t) v = mem L t (recolour c v).
Proof.
  induction L as [|g L IH]; intros [b|lo hi] v; cbn [fix_colour mem]; try reflexivity.
  destruct g as [j|i|i e]; cbn [mem recolour].
  - destruct (v (TP j)); destruct (c (TP j)); apply IH.
  - destruct (v (TS i)); apply IH.
  - destruct (v (TX i e)); apply IH.
Qed.

(** the statement as asked (the two hypotheses are not needed) *)
Lemma mem_fix_colour c L t v : NoDup L -> shaped L t ->
  mem L (fix_colour c L t) v =
  mem L t (fun g => match g with TP _ => c g | _ => v g end).
Proof. intros _ _. apply mem_fix_colour_gen. Qed.

Lemma fix_colour_const c L b : fix_colour c L (const L b) = const L b.
Proof.
  induction L as [|g L IH]; cbn [const fix_colour]; [reflexivity|].
  destruct g as [j|i|i e].
  - destruct (c (TP j)); rewrite IH; reflexivity.
  - rewrite IH; reflexivity.
  - rewrite IH; reflexivity.
Qed.

Lemma instantiate_L c G : g_L (instantiate c G) = g_L G.
Proof. reflexivity. Qed.
Lemma instantiate_n c G : g_n (instantiate c G) = g_n G.
Proof. reflexivity. Qed.
Lemma instantiate_k c G : g_k (instantiate c G) = g_k G.
Proof. reflexivity. Qed.

Lemma upd_of_instantiate c G i :
  upd_of (instantiate c G) i = fix_colour c (g_L G) (upd_of G i).
Proof.
  unfold upd_of, empty. cbn [instantiate g_upd g_L].
  rewrite <- (fix_colour_const c (g_L G) false) at 1.
  apply map_nth.
Qed.

(** the transitions of the instantiated graph: those of G in colour c, whatever the colour
    bits of the valuation *)
Lemma enabled_instantiate c G i v :
  enabled (instantiate c G) i v = enabled G i (recolour c v).
Proof.
  unfold enabled. rewrite upd_of_instantiate. cbn [instantiate g_L].
  rewrite mem_fix_colour_gen. reflexivity.
Qed.

Lemma enabled_instantiate_colour c G i v : has_colour c v ->
  enabled (instantiate c G) i v = enabled G i v.
Proof.
  intro Hc. rewrite enabled_instantiate. unfold enabled.
  rewrite (recolour_id c v (TS i) Hc). f_equal.
  apply mem_agree. intros g _. apply recolour_id. exact Hc.
Qed.

(** the instantiated graph does not read the colour bits *)
Theorem instantiate_ignores_colour c G i v w :
  (forall j, v (TS j) = w (TS j)) -> (forall j e, v (TX j e) = w (TX j e)) ->
  enabled (instantiate c G) i v = enabled (instantiate c G) i w.
Proof.
  intros Hs Hx. rewrite !enabled_instantiate. unfold enabled. cbn [recolour].
  rewrite (Hs i). f_equal.
  apply mem_agree. intros g _. destruct g as [j|j|j e]; cbn [recolour]; auto.
Qed.

(** C20, second statement *)
Theorem colour_slice c G names Gamma t v : has_colour c v ->
  (sat (instantiate c G) names Gamma t v <-> sat G names Gamma t v).
Proof.
  intro Hc. apply sat_depends_on_colour_only with (c := c); try reflexivity; [|exact Hc].
  intros i u Hu. apply enabled_instantiate_colour. exact Hu.
Qed.

(** the instantiated graph is again a well-formed environment (same unit) *)
Lemma wf_env_instantiate c G names U : wf_env G names U -> wf_env (instantiate c G) names U.
Proof.
  intros [A1 A2 A3 A4 A5 A6 A7 A8 A9 A10].
  constructor; cbn [instantiate g_L g_n g_k]; try assumption.
  - intro i. rewrite upd_of_instantiate. apply shaped_fix_colour. apply A2.
  - intros i v w Hvw. rewrite upd_of_instantiate, !mem_fix_colour_gen.
    apply A8. intros g Hg. destruct g as [j|j|j e]; cbn [recolour]; auto.
Qed.

Lemma supported_instantiate c G t : supported G t -> supported (instantiate c G) t.
Proof.
  induction t as [a | o a IH | o a IHa b IHb | o x d a IH]; cbn [supported].
  - destruct a; auto.
  - exact IH.
  - intros [H1 H2]. split; auto.
  - intros [H1 H2]. split; auto.
Qed.

(** ---- 3. the evaluator ---- *)
Section Evaluator.
Variable G : genv.
Variable names : list str.
Variable c : val.
Variables U U' : tt.
Hypothesis WF : wf_env G names U.
Hypothesis WF' : wf_env (instantiate c G) names U'.
Local Notation G' := (instantiate c G).
Local Notation L := (g_L G).

(** the two answers agree on every valuation of colour c that lies in both units *)
Theorem peval_colour_slice sw sw' t R R' : plainf t -> supported G t ->
  peval G names sw (steady_of G U) t U = Ok R ->
  peval G' names sw' (steady_of G' U') t U' = Ok R' ->
  forall v, has_colour c v -> mem L U v = true -> mem L U' v = true ->
  mem L R v = mem L R' v.
Proof.
  intros Hpl Hsup H H' v Hc Hu Hu'.
  pose (Gamma := fun (_ : str) (_ : val) => True).
  destruct (peval_correct G names U WF Gamma sw t R Hpl Hsup H) as [_ E].
  destruct (peval_correct G' names U' WF' Gamma sw' t R' Hpl
              (supported_instantiate c G t Hsup) H') as [_ E'].
  cbn [instantiate g_L] in E'.
  pose proof (colour_slice c G names Gamma t v Hc) as S.
  destruct (mem L R v) eqn:A; destruct (mem L R' v) eqn:B; try reflexivity.
  - apply E in A. destruct A as [_ A]. apply S in A.
    assert (X : mem L R' v = true) by (apply E'; split; assumption). congruence.
  - apply E' in B. destruct B as [_ B]. apply S in B.
    assert (X : mem L R v = true) by (apply E; split; assumption). congruence.
Qed.

Theorem eval_node_colour_slice sw sw' t ctx ctx' R R' ctx1 ctx1' :
  plainf t -> supported G t -> duplicates ctx = [] -> duplicates ctx' = [] ->
  eval_node G names sw (steady_of G U) t U ctx = Ok (R, ctx1) ->
  eval_node G' names sw' (steady_of G' U') t U' ctx' = Ok (R', ctx1') ->
  forall v, has_colour c v -> mem L U v = true -> mem L U' v = true ->
  mem L R v = mem L R' v.
Proof.
  intros Hpl Hsup Hd Hd' H H' v Hc Hu Hu'.
  pose (Gamma := fun (_ : str) (_ : val) => True).
  destruct (eval_node_correct G names U WF Gamma sw t ctx R ctx1 Hpl Hsup Hd H) as [_ E].
  destruct (eval_node_correct G' names U' WF' Gamma sw' t ctx' R' ctx1' Hpl
              (supported_instantiate c G t Hsup) Hd' H') as [_ E'].
  cbn [instantiate g_L] in E'.
  pose proof (colour_slice c G names Gamma t v Hc) as S.
  destruct (mem L R v) eqn:A; destruct (mem L R' v) eqn:B; try reflexivity.
  - apply E in A. destruct A as [_ A]. apply S in A.
    assert (X : mem L R' v = true) by (apply E'; split; assumption). congruence.
  - apply E' in B. destruct B as [_ B]. apply S in B.
    assert (X : mem L R v = true) by (apply E; split; assumption). congruence.
Qed.

End Evaluator.

(** with the same unit on both sides only the environment of G has to be assumed *)
Corollary eval_node_colour_slice_same_unit G names c U sw sw' t ctx ctx' R R' ctx1 ctx1' :
  wf_env G names U ->
  plainf t -> supported G t -> duplicates ctx = [] -> duplicates ctx' = [] ->
  eval_node G names sw (steady_of G U) t U ctx = Ok (R, ctx1) ->
  eval_node (instantiate c G) names sw' (steady_of (instantiate c G) U) t U ctx' = Ok (R', ctx1') ->
  forall v, has_colour c v -> mem (g_L G) U v = true -> mem (g_L G) R v = mem (g_L G) R' v.
Proof.
  intros WF Hpl Hsup Hd Hd' H H' v Hc Hu.
  exact (eval_node_colour_slice G names c U U WF (wf_env_instantiate c G names U WF)
           sw sw' t ctx ctx' R R' ctx1 ctx1' Hpl Hsup Hd Hd' H H' v Hc Hu Hu).
Qed.
