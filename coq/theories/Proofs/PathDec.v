(** The fixed-point operators of Spec/Kripke.v are decidable for decidable arguments.

    The valuations reachable from a valuation v differ from it only in the n state bits, so
    a least fixed point over them is reached after at most 2^n rounds of the unfolding;
    the count uses a cardinality defined by recursion over the state bits (no lists, no
    pigeonhole).  Greatest fixed points follow through the dualities of SemFacts.

    With this, the path characterisations of PathFacts need only that the argument
    predicates are decidable and respect pointwise equality. *)
From HCTL Require Import Base TT Ops Kripke Paths TTFacts OpsFacts SemFacts Laws PathFacts.

(** ---- number of valuations, among those differing from v in the first m state bits,
         that satisfy f ---- *)
Fixpoint card (m : nat) (v : val) (f : val -> bool) : nat :=
  match m with
  | O => if f v then 1 else 0
  | S m' => card m' (upd v (TS m') true) f + card m' (upd v (TS m') false) f
  end.

Lemma card_le_pow m : forall v f, card m v f <= 2 ^ m.
Proof.
  induction m as [|m IH]; intros v f; cbn [card].
  - destruct (f v); simpl; lia.
  - rewrite Nat.pow_succ_r'. pose proof (IH (upd v (TS m) true) f). pose proof (IH (upd v (TS m) false) f). lia.
Qed.

Lemma card_mono m : forall v f g,
  (forall w, same_out m v w -> f w = true -> g w = true) -> card m v f <= card m v g.
Proof.
  induction m as [|m IH]; intros v f g H; cbn [card].
  - destruct (f v) eqn:Ef; [|destruct (g v); lia].
    rewrite (H v (same_out_veq 0 v v (veq_refl v)) Ef). lia.
  - apply Nat.add_le_mono; apply IH; intros w Hw; apply H; eapply same_out_weaken; exact Hw.
Qed.

(** a subset with at least as many elements is the whole set *)
Lemma card_full m : forall v f g, bresp f -> bresp g ->
  (forall w, same_out m v w -> f w = true -> g w = true) -> card m v g <= card m v f ->
  forall w, same_out m v w -> g w = true -> f w = true.
Proof.
  induction m as [|m IH]; intros v f g Rf Rg Hfg Hc w Hw Hg.
  - pose proof (same_out_0 v w Hw) as E. cbn [card] in Hc.
    assert (Gv : g v = true) by (eapply Rg; [apply veq_sym; exact E | exact Hg]).
    rewrite Gv in Hc. destruct (f v) eqn:Ef; [|lia]. eapply Rf; [exact E | exact Ef].
  - cbn [card] in Hc.
    assert (M : forall b, card m (upd v (TS m) b) f <= card m (upd v (TS m) b) g).
    { intro b. apply card_mono. intros u Hu. apply Hfg. eapply same_out_weaken; exact Hu. }
    pose proof (M true). pose proof (M false).
    apply (IH (upd v (TS m) (w (TS m))) f g Rf Rg).
    + intros u Hu. apply Hfg. eapply same_out_weaken; exact Hu.
    + destruct (w (TS m)); lia.
    + apply same_out_split; exact Hw.
    + exact Hg.
Qed.

(** ---- least fixed points over the valuations reachable from v0 ---- *)
Section Lfp.
Variable G : genv.
Local Notation n := (g_n G).
Variable v0 : val.
Local Notation region u := (same_out n v0 u).
Variable F : (val -> bool) -> (val -> bool).
Hypothesis F_resp : forall X, bresp X -> bresp (F X).
Hypothesis F_mono : forall X Y : val -> bool, (forall u, region u -> X u = true -> Y u = true) ->
  forall u, region u -> F X u = true -> F Y u = true.

Fixpoint iter (k : nat) : val -> bool :=
  match k with O => fun _ => false | S k' => F (iter k') end.

Lemma iter_resp k : bresp (iter k).
Proof. induction k as [|k IH]; [intros u w _ H; exact H | apply F_resp, IH]. Qed.

Lemma iter_incr k : forall u, region u -> iter k u = true -> iter (S k) u = true.
Proof.
  induction k as [|k IH]; intros u Hu H; [discriminate|].
  cbn [iter] in *. eapply F_mono; [exact IH | exact Hu | exact H].
Qed.

Definition stable (k : nat) : Prop := forall u, region u -> iter (S k) u = true -> iter k u = true.

Lemma grow k : (exists j, j < k /\ stable j) \/ k <= card n v0 (iter k).
Proof.
  induction k as [|k IH]; [right; lia|].
  destruct IH as [[j [Hj Hs]]|Hc]; [left; exists j; split; [lia | exact Hs]|].
  destruct (Nat.le_gt_cases (card n v0 (iter (S k))) (card n v0 (iter k))) as [Hle|Hgt]; [|right; lia].
  left. exists k. split; [lia|]. intros u Hu H.
  eapply (card_full n v0 (iter k) (iter (S k))); [apply iter_resp | apply iter_resp | apply iter_incr | exact Hle | exact Hu | exact H].
Qed.

Lemma exists_stable : exists k, stable k.
Proof.
  destruct (grow (S (2 ^ n))) as [[j [_ Hs]]|Hc]; [exists j; exact Hs|].
  pose proof (card_le_pow n v0 (iter (S (2 ^ n)))). lia.
Qed.
End Lfp.

(** ---- the two unfoldings ---- *)
Section Unfoldings.
Variable G : genv.
Local Notation n := (g_n G).

Definition FEU (p q : val -> bool) (X : val -> bool) (u : val) : bool :=
  q u || (p u && existsb (fun i => enabled G i u && X (vflip (TS i) u)) (range n)).

Definition FAU (p q : val -> bool) (X : val -> bool) (u : val) : bool :=
  q u || (p u && (forallb (fun i => negb (enabled G i u) || X (vflip (TS i) u)) (range n)
                  && (negb (forallb (fun i => negb (enabled G i u)) (range n)) || X u))).

Lemma FEU_spec p q X u : FEU p q X u = true <->
  q u = true \/ (p u = true /\ exists i, i < n /\ enabled G i u = true /\ X (vflip (TS i) u) = true).
Proof.
  unfold FEU. rewrite orb_true_iff, andb_true_iff, existsb_exists. split.
  - intros [Hq|[Hp [i [Hin Hi]]]]; [left; exact Hq | right]. split; [exact Hp|].
    apply andb_true_iff in Hi. exists i. split; [apply in_range; exact Hin | exact Hi].
  - intros [Hq|[Hp [i [Hi [He Hx]]]]]; [left; exact Hq | right]. split; [exact Hp|].
    exists i. split; [apply in_range; exact Hi | rewrite He, Hx; reflexivity].
Qed.

Lemma steadyb_spec u : forallb (fun i => negb (enabled G i u)) (range n) = true <-> vsteady G u.
Proof.
  rewrite forallb_forall. split.
  - intros H i Hi. specialize (H i (proj2 (in_range i n) Hi)). apply negb_true_iff in H. exact H.
  - intros H i Hi. apply in_range in Hi. rewrite (H i Hi). reflexivity.
Qed.

Lemma FAU_spec p q X u : FAU p q X u = true <->
  q u = true \/ (p u = true /\ (forall i, i < n -> enabled G i u = true -> X (vflip (TS i) u) = true) /\
                 (vsteady G u -> X u = true)).
Proof.
  unfold FAU. rewrite orb_true_iff, !andb_true_iff, forallb_forall, orb_true_iff, negb_true_iff.
  split.
  - intros [Hq|[Hp [Hm Hs]]]; [left; exact Hq | right]. split; [exact Hp|]. split.
    + intros i Hi He. specialize (Hm i (proj2 (in_range i n) Hi)). rewrite He in Hm. exact Hm.
    + intro Hst. destruct Hs as [Hs|Hs]; [|exact Hs]. apply steadyb_spec in Hst. congruence.
  - intros [Hq|[Hp [Hm Hs]]]; [left; exact Hq | right]. split; [exact Hp|]. split.
    + intros i Hi. apply in_range in Hi. destruct (enabled G i u) eqn:He; [|reflexivity].
      cbn [negb orb]. apply Hm; assumption.
    + destruct (forallb (fun i => negb (enabled G i u)) (range n)) eqn:E; [|left; reflexivity].
      right. apply Hs. apply steadyb_spec. exact E.
Qed.

Lemma FEU_resp p q X : bresp p -> bresp q -> bresp X -> bresp (FEU p q X).
Proof.
  intros Rp Rq RX u w Huw H. apply FEU_spec in H. apply FEU_spec.
  destruct H as [Hq|[Hp [i [Hi [He Hx]]]]]; [left; eapply Rq; eassumption | right].
  split; [eapply Rp; eassumption|]. exists i. split; [exact Hi|]. split.
  - rewrite <- (enabled_veq G i u w Huw). exact He.
  - eapply RX; [apply vflip_veq; exact Huw | exact Hx].
Qed.

Lemma FAU_resp p q X : bresp p -> bresp q -> bresp X -> bresp (FAU p q X).
Proof.
  intros Rp Rq RX u w Huw H. apply FAU_spec in H. apply FAU_spec.
  destruct H as [Hq|[Hp [Hm Hs]]]; [left; eapply Rq; eassumption | right].
  split; [eapply Rp; eassumption|]. split.
  - intros i Hi He. eapply RX; [apply vflip_veq; exact Huw|]. apply Hm; [exact Hi|].
    rewrite (enabled_veq G i u w Huw). exact He.
  - intro Hst. eapply RX; [exact Huw|]. apply Hs. eapply vsteady_veq; [apply veq_sym; exact Huw | exact Hst].
Qed.

Lemma FEU_mono v0 p q (X Y : val -> bool) :
  (forall u, same_out n v0 u -> X u = true -> Y u = true) ->
  forall u, same_out n v0 u -> FEU p q X u = true -> FEU p q Y u = true.
Proof.
  intros HXY u Hu H. apply FEU_spec in H. apply FEU_spec.
  destruct H as [Hq|[Hp [i [Hi [He Hx]]]]]; [left; exact Hq | right].
  split; [exact Hp|]. exists i. split; [exact Hi|]. split; [exact He|].
  apply HXY; [|exact Hx]. eapply same_out_step; [exact Hu | apply step_move; assumption].
Qed.

Lemma FAU_mono v0 p q (X Y : val -> bool) :
  (forall u, same_out n v0 u -> X u = true -> Y u = true) ->
  forall u, same_out n v0 u -> FAU p q X u = true -> FAU p q Y u = true.
Proof.
  intros HXY u Hu H. apply FAU_spec in H. apply FAU_spec.
  destruct H as [Hq|[Hp [Hm Hs]]]; [left; exact Hq | right].
  split; [exact Hp|]. split.
  - intros i Hi He. apply HXY; [|apply Hm; assumption].
    eapply same_out_step; [exact Hu | apply step_move; assumption].
  - intro Hst. apply HXY; [exact Hu | apply Hs; exact Hst].
Qed.

(** ---- decidability of the least fixed points ---- *)
Section Dec.
Variables P Q : val -> Prop.
Hypothesis RP : respects P.
Hypothesis RQ : respects Q.
Hypothesis PD : forall u, P u \/ ~ P u.
Hypothesis QD : forall u, Q u \/ ~ Q u.

Theorem EUs_dec v : EUs G P Q v \/ ~ EUs G P Q v.
Proof.
  destruct (table P RP PD n v) as [p [Rp Hp]]. destruct (table Q RQ QD n v) as [q [Rq Hq]].
  pose (F := FEU p q).
  assert (FR : forall X, bresp X -> bresp (F X)) by (intros X RX; apply FEU_resp; assumption).
  assert (FM : forall X Y : val -> bool, (forall u, same_out n v u -> X u = true -> Y u = true) ->
               forall u, same_out n v u -> F X u = true -> F Y u = true) by (intros X Y; apply FEU_mono).
  destruct (exists_stable G v F FR FM) as [k Hk].
  assert (Sound : forall j u, same_out n v u -> iter F j u = true -> EUs G P Q u).
  { induction j as [|j IH]; intros u Hu H; [discriminate|].
    cbn [iter] in H. apply FEU_spec in H. destruct H as [H|[H [i [Hi [He Hx]]]]].
    - apply EUs_here. apply (Hq u Hu). exact H.
    - apply EUs_step with (i := i); [apply (Hp u Hu); exact H | exact Hi | exact He|].
      apply IH; [|exact Hx]. eapply same_out_step; [exact Hu | apply step_move; assumption]. }
  assert (Complete : forall u, EUs G P Q u -> same_out n v u -> iter F k u = true).
  { intros u H. induction H as [u Hqu | u i Hpu Hi He _ IH]; intro Hu; apply (Hk u Hu); cbn [iter]; apply FEU_spec.
    - left. apply (Hq u Hu). exact Hqu.
    - right. split; [apply (Hp u Hu); exact Hpu|]. exists i. split; [exact Hi|]. split; [exact He|].
      apply IH. eapply same_out_step; [exact Hu | apply step_move; assumption]. }
  pose proof (same_out_veq n v v (veq_refl v)) as Hv.
  destruct (iter F k v) eqn:E.
  - left. apply (Sound k v Hv E).
  - right. intro H. rewrite (Complete v H Hv) in E. discriminate.
Qed.

Theorem AUs_dec v : AUs G P Q v \/ ~ AUs G P Q v.
Proof.
  destruct (table P RP PD n v) as [p [Rp Hp]]. destruct (table Q RQ QD n v) as [q [Rq Hq]].
  pose (F := FAU p q).
  assert (FR : forall X, bresp X -> bresp (F X)) by (intros X RX; apply FAU_resp; assumption).
  assert (FM : forall X Y : val -> bool, (forall u, same_out n v u -> X u = true -> Y u = true) ->
               forall u, same_out n v u -> F X u = true -> F Y u = true) by (intros X Y; apply FAU_mono).
  destruct (exists_stable G v F FR FM) as [k Hk].
  assert (Sound : forall j u, same_out n v u -> iter F j u = true -> AUs G P Q u).
  { induction j as [|j IH]; intros u Hu H; [discriminate|].
    cbn [iter] in H. apply FAU_spec in H. destruct H as [H|[H [Hm Hs]]].
    - apply AUs_here. apply (Hq u Hu). exact H.
    - apply AUs_step; [apply (Hp u Hu); exact H | |].
      + intros i Hi He. apply IH; [|apply Hm; assumption].
        eapply same_out_step; [exact Hu | apply step_move; assumption].
      + intro Hst. apply IH; [exact Hu | apply Hs; exact Hst]. }
  assert (Complete : forall u, AUs G P Q u -> same_out n v u -> iter F k u = true).
  { intros u H. induction H as [u Hqu | u Hpu Hm IHm Hs IHs]; intro Hu; apply (Hk u Hu); cbn [iter]; apply FAU_spec.
    - left. apply (Hq u Hu). exact Hqu.
    - right. split; [apply (Hp u Hu); exact Hpu|]. split.
      + intros i Hi He. apply (IHm i Hi He). eapply same_out_step; [exact Hu | apply step_move; assumption].
      + intro Hst. apply (IHs Hst Hu). }
  pose proof (same_out_veq n v v (veq_refl v)) as Hv.
  destruct (iter F k v) eqn:E.
  - left. apply (Sound k v Hv E).
  - right. intro H. rewrite (Complete v H Hv) in E. discriminate.
Qed.
End Dec.

(** ---- greatest fixed points, through the dualities (SemFacts, with the trivial unit) ---- *)
Section DecGfp.
Variables P Q : val -> Prop.
Hypothesis RP : respects P.
Hypothesis RQ : respects Q.
Hypothesis PD : forall u, P u \/ ~ P u.
Hypothesis QD : forall u, Q u \/ ~ Q u.

Let nQ := fun w => ~ Q w.
Let nPQ := fun w => ~ P w /\ ~ Q w.

Lemma nQ_respects : respects nQ.
Proof. intros u w Huw Hu Hw. apply Hu. eapply RQ; [apply veq_sym; exact Huw | exact Hw]. Qed.
Lemma nPQ_respects : respects nPQ.
Proof.
  intros u w Huw [H1 H2]. split; intro Hw; [apply H1; eapply RP | apply H2; eapply RQ];
    try (apply veq_sym; exact Huw); exact Hw.
Qed.
Lemma nQ_dec u : nQ u \/ ~ nQ u.
Proof. unfold nQ. destruct (QD u); tauto. Qed.
Lemma nPQ_dec u : nPQ u \/ ~ nPQ u.
Proof. unfold nPQ. destruct (PD u); destruct (QD u); tauto. Qed.

Lemma mem_leaf L b v : mem L (Leaf b) v = b.
Proof. destruct L; reflexivity. Qed.

Theorem EWs_dec v : EWs G P Q v \/ ~ EWs G P Q v.
Proof.
  assert (D : forall w, AUs G nQ nPQ w \/ ~ AUs G nQ nPQ w).
  { intro w. apply AUs_dec; [apply nQ_respects | apply nPQ_respects | apply nQ_dec | apply nPQ_dec]. }
  pose proof (EW_dual G (Leaf true) (fun v0 i => eq_trans (mem_leaf _ _ _) (eq_sym (mem_leaf _ _ _))) P Q
                (fun w _ => PD w) (fun w _ => QD w) v (fun w _ => D w) (mem_leaf _ _ _)) as E.
  destruct (D v) as [H|H]; [right | left; apply E; exact H].
  intro Hw. apply E in Hw. exact (Hw H).
Qed.

Theorem AWs_dec v : AWs G P Q v \/ ~ AWs G P Q v.
Proof.
  assert (D : forall w, EUs G nQ nPQ w \/ ~ EUs G nQ nPQ w).
  { intro w. apply EUs_dec; [apply nQ_respects | apply nPQ_respects | apply nQ_dec | apply nPQ_dec]. }
  pose proof (AW_dual G (Leaf true) (fun v0 i => eq_trans (mem_leaf _ _ _) (eq_sym (mem_leaf _ _ _))) P Q
                (fun w _ => PD w) (fun w _ => QD w) v (mem_leaf _ _ _)) as E.
  destruct (D v) as [H|H]; [right | left; apply E; exact H].
  intro Hw. apply E in Hw. exact (Hw H).
Qed.
End DecGfp.

Lemma EGs_EWs P v : EGs G P v <-> EWs G P (fun _ => False) v.
Proof.
  split; intros [X [Xv HX]]; exists X; (split; [exact Xv|]); intros u Xu.
  - right. apply HX, Xu.
  - destruct (HX u Xu) as [[]|H]. exact H.
Qed.

Lemma AGs_AWs P v : AGs G P v <-> AWs G P (fun _ => False) v.
Proof.
  split; intros [X [Xv HX]]; exists X; (split; [exact Xv|]); intros u Xu.
  - right. apply HX, Xu.
  - destruct (HX u Xu) as [[]|H]. exact H.
Qed.

Theorem EGs_dec P v : respects P -> (forall u, P u \/ ~ P u) -> EGs G P v \/ ~ EGs G P v.
Proof.
  intros RP PD.
  destruct (EWs_dec P (fun _ => False) RP (fun _ _ _ H => H) PD (fun _ => or_intror (fun H => H)) v) as [H|H].
  - left. apply EGs_EWs. exact H.
  - right. intro H'. apply H. apply EGs_EWs. exact H'.
Qed.

Theorem AGs_dec P v : respects P -> (forall u, P u \/ ~ P u) -> AGs G P v \/ ~ AGs G P v.
Proof.
  intros RP PD.
  destruct (AWs_dec P (fun _ => False) RP (fun _ _ _ H => H) PD (fun _ => or_intror (fun H => H)) v) as [H|H].
  - left. apply AGs_AWs. exact H.
  - right. intro H'. apply H. apply AGs_AWs. exact H'.
Qed.

(** ================= the path characterisations, for decidable arguments ================= *)
Section Main.
Variables P Q : val -> Prop.
Hypothesis RP : respects P.
Hypothesis RQ : respects Q.

Theorem EU_paths v : EUs G P Q v <-> EU_p G P Q v.
Proof. split; [apply EUs_EU_p | apply EU_p_EUs; assumption]. Qed.

Theorem AG_paths v : AGs G P v <-> AG_p G P v.
Proof. split; [apply AGs_AG_p; assumption | apply AG_p_AGs]. Qed.

Theorem AU_paths_lr v : AUs G P Q v -> AU_p G P Q v.
Proof. apply AUs_AU_p; assumption. Qed.

Theorem AW_weak_lr v : AWs G P Q v -> AW_w G P Q v.
Proof. apply AWs_AW_w; assumption. Qed.

Hypothesis PD : forall u, P u \/ ~ P u.

Theorem EG_paths v : EGs G P v <-> EG_p G P v.
Proof.
  split; [apply EGs_EG_p; [exact RP|] | apply EG_p_EGs; exact RP].
  intro u. apply EGs_dec; assumption.
Qed.

Hypothesis QD : forall u, Q u \/ ~ Q u.

Theorem AU_paths v : AUs G P Q v <-> AU_p G P Q v.
Proof.
  split; [apply AUs_AU_p; assumption | apply AU_p_AUs; try assumption].
  intro u. apply AUs_dec; assumption.
Qed.

Theorem EW_paths v : EWs G P Q v <-> EW_p G P Q v.
Proof.
  split; [apply EWs_EW_p; [exact RP | |] | apply EW_p_EWs; assumption].
  - intro u. apply EUs_dec; assumption.
  - intro u. apply EGs_dec; assumption.
Qed.

Theorem AW_weak_paths v : AWs G P Q v <-> AW_w G P Q v.
Proof. split; [apply AWs_AW_w; assumption | apply AW_w_AWs; exact QD]. Qed.

Theorem AW_nn_paths v : AWs G P Q v <-> AW_nn G P Q v.
Proof. split; [apply AWs_AW_nn; assumption | apply AW_nn_AWs; assumption]. Qed.

Theorem AW_paths_rl v : AW_p G P Q v -> AWs G P Q v.
Proof. apply AW_p_AWs; exact QD. Qed.

Theorem AW_paths_omniscient v :
  (forall pi, path G pi -> (exists j, Q (pi j)) \/ (forall j, ~ Q (pi j))) ->
  (AWs G P Q v <-> AW_p G P Q v).
Proof. intro Omn. split; [apply AWs_AW_p; assumption | apply AW_p_AWs; exact QD]. Qed.
End Main.

End Unfoldings.

(** ================= the sets computed by the model ================= *)
Section Model.
Variable G : genv.
Variable U : tt.
Hypothesis WF : wf_graph G U.
Local Notation L := (g_L G).
Local Notation st := (steady_of G U).
Local Notation Mem A := (fun v0 : val => mem L A v0 = true).
Local Notation inU A := (forall v, mem L A v = true -> mem L U v = true).

Lemma Mem_dec A u : Mem A u \/ ~ Mem A u.
Proof. cbv beta. destruct (mem L A u); [left; reflexivity | right; discriminate]. Qed.

Variables S T R : tt.
Hypothesis SS : shaped L S.
Hypothesis IS : inU S.
Hypothesis ST : shaped L T.
Hypothesis IT : inU T.

Let HS : spec_of G U S (Mem S).
Proof. destruct WF. apply self_spec; assumption. Qed.
Let HT : spec_of G U T (Mem T).
Proof. destruct WF. apply self_spec; assumption. Qed.

Theorem eu_paths : eval_eu_saturated G S T = Ok R ->
  forall v, mem L R v = true <-> (mem L U v = true /\ EU_p G (Mem S) (Mem T) v).
Proof.
  intros H v. destruct WF as [A1 A2 A3 A4 A5].
  assert (E : spec_of G U R (EUs G (Mem S) (Mem T))) by (eapply s_eu; eauto).
  rewrite (proj2 E v).
  rewrite (EU_paths G (Mem S) (Mem T) (respects_mem L S) (respects_mem L T) v). reflexivity.
Qed.

Theorem au_paths : eval_au G U S T st = Ok R ->
  forall v, mem L R v = true <-> (mem L U v = true /\ AU_p G (Mem S) (Mem T) v).
Proof.
  intros H v. destruct WF as [A1 A2 A3 A4 A5].
  assert (E : spec_of G U R (AUs G (Mem S) (Mem T))) by (eapply s_au; eauto).
  rewrite (proj2 E v).
  rewrite (AU_paths G (Mem S) (Mem T) (respects_mem L S) (respects_mem L T) (Mem_dec S) (Mem_dec T) v). reflexivity.
Qed.

Theorem eg_paths : eval_eg G S st = Ok R ->
  forall v, mem L R v = true <-> (mem L U v = true /\ EG_p G (Mem S) v).
Proof.
  intros H v. destruct WF as [A1 A2 A3 A4 A5].
  assert (E : spec_of G U R (EGs G (Mem S))) by (eapply s_eg; eauto).
  rewrite (proj2 E v).
  rewrite (EG_paths G (Mem S) (respects_mem L S) (Mem_dec S) v). reflexivity.
Qed.

Theorem ag_paths : eval_ag G U S = Ok R ->
  forall v, mem L R v = true <-> (mem L U v = true /\ AG_p G (Mem S) v).
Proof.
  intros H v. destruct WF as [A1 A2 A3 A4 A5].
  assert (E : spec_of G U R (AGs G (Mem S))) by (eapply s_ag; eauto).
  rewrite (proj2 E v).
  rewrite (AG_paths G (Mem S) (respects_mem L S) v). reflexivity.
Qed.

Theorem ef_paths : eval_ef_saturated G U S = Ok R ->
  forall v, mem L R v = true <-> (mem L U v = true /\ EF_p G (Mem S) v).
Proof.
  intros H v. destruct WF as [A1 A2 A3 A4 A5].
  assert (E : spec_of G U R (EFs G (Mem S))) by (eapply s_ef; eauto).
  rewrite (proj2 E v). unfold EFs, EF_p.
  rewrite (EU_paths G (fun _ => True) (Mem S) (fun _ _ _ H => H) (respects_mem L S) v). reflexivity.
Qed.

Theorem af_paths : eval_af G U S st = Ok R ->
  forall v, mem L R v = true <-> (mem L U v = true /\ AF_p G (Mem S) v).
Proof.
  intros H v. destruct WF as [A1 A2 A3 A4 A5].
  assert (E : spec_of G U R (AFs G (Mem S))) by (eapply s_af; eauto).
  rewrite (proj2 E v). unfold AFs, AF_p.
  rewrite (AU_paths G (fun _ => True) (Mem S) (fun _ _ _ H => H) (respects_mem L S)
             (fun _ => or_introl I) (Mem_dec S) v). reflexivity.
Qed.

(** a state satisfies phi EW psi exactly when some path from it satisfies phi until psi or
    satisfies phi forever *)
Theorem ew_paths : eval_ew G U S T st = Ok R ->
  forall v, mem L R v = true <-> (mem L U v = true /\ EW_p G (Mem S) (Mem T) v).
Proof.
  intros H v. destruct WF as [A1 A2 A3 A4 A5].
  assert (E : spec_of G U R (EWs G (Mem S) (Mem T))) by (eapply s_ew; eauto).
  rewrite (proj2 E v).
  rewrite (EW_paths G (Mem S) (Mem T) (respects_mem L S) (respects_mem L T) (Mem_dec S) (Mem_dec T) v). reflexivity.
Qed.

(** ... and phi AW psi exactly when every path from it does, with weak until on a path in
    the form [wuntil] *)
Theorem aw_paths_weak : eval_aw G U S T = Ok R ->
  forall v, mem L R v = true <-> (mem L U v = true /\ AW_w G (Mem S) (Mem T) v).
Proof.
  intros H v. destruct WF as [A1 A2 A3 A4 A5].
  assert (E : spec_of G U R (AWs G (Mem S) (Mem T))) by (eapply s_aw; eauto).
  rewrite (proj2 E v).
  rewrite (AW_weak_paths G (Mem S) (Mem T) (respects_mem L S) (respects_mem L T) (Mem_dec T) v). reflexivity.
Qed.

Theorem aw_paths_nn : eval_aw G U S T = Ok R ->
  forall v, mem L R v = true <-> (mem L U v = true /\ AW_nn G (Mem S) (Mem T) v).
Proof.
  intros H v. destruct WF as [A1 A2 A3 A4 A5].
  assert (E : spec_of G U R (AWs G (Mem S) (Mem T))) by (eapply s_aw; eauto).
  rewrite (proj2 E v).
  rewrite (AW_nn_paths G (Mem S) (Mem T) (respects_mem L S) (respects_mem L T) (Mem_dec S) (Mem_dec T) v). reflexivity.
Qed.

Theorem aw_paths_rl : eval_aw G U S T = Ok R ->
  forall v, mem L U v = true -> AW_p G (Mem S) (Mem T) v -> mem L R v = true.
Proof.
  intros H v Hu Hp. apply (aw_paths_weak H). split; [exact Hu | apply AW_p_AW_w; exact Hp].
Qed.

Theorem aw_paths_omniscient : eval_aw G U S T = Ok R ->
  (forall pi, path G pi -> (exists j, Mem T (pi j)) \/ (forall j, ~ Mem T (pi j))) ->
  forall v, mem L R v = true <-> (mem L U v = true /\ AW_p G (Mem S) (Mem T) v).
Proof.
  intros H Omn v. destruct WF as [A1 A2 A3 A4 A5].
  assert (E : spec_of G U R (AWs G (Mem S) (Mem T))) by (eapply s_aw; eauto).
  rewrite (proj2 E v).
  rewrite (AW_paths_omniscient G (Mem S) (Mem T) (respects_mem L S) (respects_mem L T) (Mem_dec T) v Omn). reflexivity.
Qed.
End Model.
