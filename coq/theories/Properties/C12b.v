(** C12b -- graph-theoretic meaning of the two pattern formulae.  Statements only; proofs in
    Proofs/SccFacts.v.

    The implementation evaluates  !{x}: AG EF {x}  with a library routine documented to return
    "all states lying in a bottom (terminal) strongly connected component of the coloured
    asynchronous state-transition graph" and  !{x}: AX {x}  with one returning "all steady
    states (states without an enabled transition)".  The model represents both routines by the
    meaning of the formulae (C12); here that meaning is shown to be the documented one.

    Definitions (Proofs/SccFacts.v), for a network G with n = g_n G variables:

      move G v w   :=  exists i, i < n /\ enabled G i v = true /\ veq w (vflip (TS i) v)
                       one proper asynchronous transition (the artificial self-loop of a
                       steady valuation is NOT a move);
      reach G v w  :=  reflexive-transitive closure of [move G], up to pointwise equality of
                       valuations [veq] (C12b_reach_unfold);
      terminal G v :=  forall w, reach G v w -> reach G w v
      strongly_connected G S := forall a b, S a -> S b -> reach G a b
      succ_closed G S        := forall a b, S a -> move G a b -> S b
      bottom_scc G S := (exists v, S v) /\ respects S /\ strongly_connected G S /\ succ_closed G S

    A move flips one state bit TS i, i < n, and nothing else, so [reach] relates valuations of
    the same colour (TP bits) and the same spare copies (TX bits) only
    (C12b_reach_same_colour_and_copies): it is reachability inside the state-transition graph
    of one colour.  No restriction to the unit set is needed for the characterisations; the
    unit only constrains the colour and is therefore closed under [reach] (C12b_unit_closed).

    Well-formedness: [wf_env] of Proofs/Main.v, of which only [wf_upd_extras] (update functions
    do not read the spare copies) is used by the semantic theorems; the evaluator theorems use
    all of it.  [LayoutFacts.wf_instance] and [SccFacts.ex_wf] are instances. *)
From HCTL Require Import Base Syntax MarkDup TT Ops Eval Pipeline Kripke HCTL Paths.
From HCTL Require Import SemFacts EvalPure Main PathFacts LayoutFacts SccFacts.

(** ---- the reachability relation ---- *)
Theorem C12b_reach_unfold : forall G v w,
  reach G v w <-> (veq v w \/ exists u, move G v u /\ reach G u w).
Proof. exact reach_unfold. Qed.
Print Assumptions C12b_reach_unfold.

Theorem C12b_move_def : forall G v w,
  move G v w <-> exists i, i < g_n G /\ enabled G i v = true /\ veq w (vflip (TS i) v).
Proof. exact (fun G v w => iff_refl _). Qed.
Print Assumptions C12b_move_def.

Theorem C12b_reach_trans : forall G u v w, reach G u v -> reach G v w -> reach G u w.
Proof. exact reach_trans. Qed.
Print Assumptions C12b_reach_trans.

(** counting the self-loops of steady valuations ([step] of Spec/Paths.v) gives the same
    reachability relation *)
Theorem C12b_self_loops_irrelevant : forall G v w, reach_loops G v w <-> reach G v w.
Proof. exact reach_loops_iff. Qed.
Print Assumptions C12b_self_loops_irrelevant.

(** [reach v w]: some path of the specification that starts in v visits w; equivalently
    EF "is w" holds at v *)
Theorem C12b_reach_is_path_reachability : forall G v w,
  reach G v w <-> exists pi, path G pi /\ veq (pi 0) v /\ exists j, veq (pi j) w.
Proof. exact reach_iff_path. Qed.
Print Assumptions C12b_reach_is_path_reachability.

Theorem C12b_reach_is_EF : forall G v w, reach G v w <-> EFs G (fun u => veq u w) v.
Proof. exact reach_iff_EF. Qed.
Print Assumptions C12b_reach_is_EF.

(** AG is "everywhere reachable" *)
Theorem C12b_AG_is_all_reachable : forall G (P : val -> Prop) v, respects P ->
  (AGs G P v <-> forall w, reach G v w -> P w).
Proof. exact AG_iff_reach. Qed.
Print Assumptions C12b_AG_is_all_reachable.

(** reachable valuations have the same colour and the same spare copies (and the same
    unused state bits) *)
Theorem C12b_reach_same_colour_and_copies : forall G v w, reach G v w ->
  (forall j, w (TP j) = v (TP j)) /\ (forall i e, w (TX i e) = v (TX i e)) /\
  (forall i, g_n G <= i -> w (TS i) = v (TS i)).
Proof. exact reach_frame. Qed.
Print Assumptions C12b_reach_same_colour_and_copies.

(** a move changes the valuation: the transition graph has no real self-transition *)
Theorem C12b_no_real_self_transition : forall G v w, move G v w -> ~ veq w v.
Proof. exact move_neq. Qed.
Print Assumptions C12b_no_real_self_transition.

(** reachability does not read the spare copies *)
Theorem C12b_reach_ignores_copies : forall G names U, wf_env G names U ->
  forall a b, reach G a b -> forall a', agree_ne a a' -> reach G a' (graft a' b).
Proof. intros G names U [? ? ? ? ? ? ? ? ? ?]; intros; eapply reach_transfer; eauto. Qed.
Print Assumptions C12b_reach_ignores_copies.

(** ---- 1. !{x}: AG EF {x}  =  "lies in a terminal SCC" ---- *)
Theorem C12b_attractor_is_bottom_scc :
  forall (G : genv) (names : list str) (U : tt), wf_env G names U ->
  forall (Gamma : str -> val -> Prop) x e v, var_of G x = Some e -> e < g_k G ->
    (sat G names Gamma (Hybrid Bind x None (Unary AG (Unary EF (Terminal (AVar x))))) v <->
     (forall w, reach G v w -> reach G w v)).
Proof. intros G names U [? ? ? ? ? ? ? ? ? ?]; intros; eapply attractor_formula_terminal; eauto. Qed.
Print Assumptions C12b_attractor_is_bottom_scc.

Theorem C12b_terminal_def : forall G v, terminal G v <-> (forall w, reach G v w -> reach G w v).
Proof. exact (fun G v => iff_refl _). Qed.
Print Assumptions C12b_terminal_def.

(** the set of such valuations is closed under [reach] *)
Theorem C12b_terminal_closed : forall G v w, terminal G v -> reach G v w -> terminal G w.
Proof. exact terminal_closed. Qed.
Print Assumptions C12b_terminal_closed.

(** for each of them, the reachable set is a bottom SCC that contains it *)
Theorem C12b_terminal_component_is_bottom_scc : forall G v, terminal G v ->
  bottom_scc G (reach G v) /\ reach G v v.
Proof. exact terminal_bottom_scc. Qed.
Print Assumptions C12b_terminal_component_is_bottom_scc.

Theorem C12b_bottom_scc_def : forall G (S : val -> Prop),
  bottom_scc G S <->
  ((exists v, S v) /\ respects S /\ (forall a b, S a -> S b -> reach G a b) /\
   (forall a b, S a -> move G a b -> S b)).
Proof. exact (fun G S => iff_refl _). Qed.
Print Assumptions C12b_bottom_scc_def.

Theorem C12b_terminal_iff_in_bottom_scc : forall G v,
  terminal G v <-> exists S, bottom_scc G S /\ S v.
Proof. exact terminal_iff_bottom_scc. Qed.
Print Assumptions C12b_terminal_iff_in_bottom_scc.

(** a bottom SCC is closed under the successors of [step] (self-loops included), is the set
    reachable from any member, and is a maximal strongly connected set *)
Theorem C12b_bottom_scc_step_closed : forall G (S : val -> Prop) a b,
  respects S -> succ_closed G S -> S a -> step G a b -> S b.
Proof. exact succ_closed_step. Qed.
Print Assumptions C12b_bottom_scc_step_closed.

Theorem C12b_bottom_scc_is_reach_set : forall G (S : val -> Prop) v, bottom_scc G S -> S v ->
  forall w, S w <-> reach G v w.
Proof. exact bottom_scc_is_reach_set. Qed.
Print Assumptions C12b_bottom_scc_is_reach_set.

Theorem C12b_bottom_scc_maximal : forall G (S T : val -> Prop), bottom_scc G S ->
  strongly_connected G T -> (exists a, S a /\ T a) -> forall b, T b -> S b.
Proof. exact bottom_scc_maximal. Qed.
Print Assumptions C12b_bottom_scc_maximal.

(** the formula holds exactly on the union of the bottom SCCs *)
Theorem C12b_bottom_scc_members_satisfy :
  forall (G : genv) (names : list str) (U : tt), wf_env G names U ->
  forall (Gamma : str -> val -> Prop) (S : val -> Prop) x e v, var_of G x = Some e -> e < g_k G ->
    bottom_scc G S -> S v ->
    sat G names Gamma (Hybrid Bind x None (Unary AG (Unary EF (Terminal (AVar x))))) v.
Proof. intros G names U [? ? ? ? ? ? ? ? ? ?]; intros; eapply bottom_scc_sat; eauto. Qed.
Print Assumptions C12b_bottom_scc_members_satisfy.

Theorem C12b_satisfying_lie_in_bottom_scc :
  forall (G : genv) (names : list str) (U : tt), wf_env G names U ->
  forall (Gamma : str -> val -> Prop) x e v, var_of G x = Some e -> e < g_k G ->
    sat G names Gamma (Hybrid Bind x None (Unary AG (Unary EF (Terminal (AVar x))))) v ->
    bottom_scc G (reach G v) /\ reach G v v.
Proof. intros G names U [? ? ? ? ? ? ? ? ? ?]; intros; eapply sat_bottom_scc; eauto. Qed.
Print Assumptions C12b_satisfying_lie_in_bottom_scc.

(** ---- 2. !{x}: AX {x}  =  "no variable is enabled" (deadlock; the only successor is the
    self-loop) ---- *)
Theorem C12b_steady_is_fixed_point :
  forall (G : genv) (names : list str) (U : tt), wf_env G names U ->
  forall (Gamma : str -> val -> Prop) x e v, var_of G x = Some e -> e < g_k G ->
    (sat G names Gamma (Hybrid Bind x None (Unary AX (Terminal (AVar x)))) v <->
     (forall i, i < g_n G -> enabled G i v = false)).
Proof. intros G names U [? ? ? ? ? ? ? ? ? ?]; intros; eapply steady_formula_vsteady; eauto. Qed.
Print Assumptions C12b_steady_is_fixed_point.

Theorem C12b_vsteady_def : forall G v, vsteady G v <-> (forall i, i < g_n G -> enabled G i v = false).
Proof. exact (fun G v => iff_refl _). Qed.
Print Assumptions C12b_vsteady_def.

Theorem C12b_steady_no_move : forall G v, vsteady G v <-> forall w, ~ move G v w.
Proof. exact vsteady_no_move. Qed.
Print Assumptions C12b_steady_no_move.

Theorem C12b_steady_only_self_loop : forall G v, vsteady G v <-> forall w, step G v w -> veq w v.
Proof. exact vsteady_only_loop. Qed.
Print Assumptions C12b_steady_only_self_loop.

(** ---- 3. steady states are one-element bottom SCCs ---- *)
Theorem C12b_steady_subset_attractor :
  forall (G : genv) (names : list str) (U : tt), wf_env G names U ->
  forall (Gamma : str -> val -> Prop) x e v, var_of G x = Some e -> e < g_k G ->
    sat G names Gamma (Hybrid Bind x None (Unary AX (Terminal (AVar x)))) v ->
    sat G names Gamma (Hybrid Bind x None (Unary AG (Unary EF (Terminal (AVar x))))) v.
Proof. intros G names U [? ? ? ? ? ? ? ? ? ?]; intros; eapply steady_formula_implies_attractor_formula; eauto. Qed.
Print Assumptions C12b_steady_subset_attractor.

Theorem C12b_steady_is_terminal : forall G v, vsteady G v -> terminal G v.
Proof. exact vsteady_terminal. Qed.
Print Assumptions C12b_steady_is_terminal.

(** steady = no valuation other than itself is reachable *)
Theorem C12b_only_self_reachable_iff_steady : forall G v,
  vsteady G v <-> forall w, reach G v w -> veq v w.
Proof. exact vsteady_iff_reach_self. Qed.
Print Assumptions C12b_only_self_reachable_iff_steady.

(** ---- 4./5. the evaluator ---- *)
(** the unit only constrains the colour, so it is closed under [reach] *)
Theorem C12b_unit_closed : forall G names U, wf_env G names U ->
  forall v w, reach G v w -> mem (g_L G) U w = mem (g_L G) U v.
Proof. exact unit_closed_reach. Qed.
Print Assumptions C12b_unit_closed.

(** what the model of compute_attractor_states returns: the valuations of the unit that lie
    in a terminal SCC; and it always returns *)
Theorem C12b_attractors_are_bottom_sccs :
  forall (G : genv) (names : list str) (U : tt), wf_env G names U ->
  forall e R, e < g_k G -> attractors G U e = Ok R ->
  forall v, mem (g_L G) R v = true <->
            (mem (g_L G) U v = true /\ forall w, reach G v w -> reach G w v).
Proof. exact attractors_terminal. Qed.
Print Assumptions C12b_attractors_are_bottom_sccs.

Theorem C12b_attractors_total :
  forall (G : genv) (names : list str) (U : tt), wf_env G names U ->
  forall e, exists R, attractors G U e = Ok R.
Proof. exact attractors_total. Qed.
Print Assumptions C12b_attractors_total.

(** the precomputed steady-state set: the valuations of the unit without an enabled update *)
Theorem C12b_steady_of_is_deadlocks :
  forall (G : genv) (names : list str) (U : tt), wf_env G names U ->
  forall v, mem (g_L G) (steady_of G U) v = true <->
            (mem (g_L G) U v = true /\ forall i, i < g_n G -> enabled G i v = false).
Proof. exact steady_of_vsteady. Qed.
Print Assumptions C12b_steady_of_is_deadlocks.

(** through [eval_node], whatever the pattern switch *)
Theorem C12b_eval_node_attractor :
  forall (G : genv) (names : list str) (U : tt), wf_env G names U ->
  forall sw x e c R c', var_of G x = Some e -> duplicates c = [] ->
  eval_node G names sw (steady_of G U)
    (Hybrid Bind x None (Unary AG (Unary EF (Terminal (AVar x))))) U c = Ok (R, c') ->
  forall v, mem (g_L G) R v = true <->
            (mem (g_L G) U v = true /\ forall w, reach G v w -> reach G w v).
Proof. exact eval_node_attractor_terminal. Qed.
Print Assumptions C12b_eval_node_attractor.

Theorem C12b_eval_node_steady :
  forall (G : genv) (names : list str) (U : tt), wf_env G names U ->
  forall sw x e c R c', var_of G x = Some e -> duplicates c = [] ->
  eval_node G names sw (steady_of G U)
    (Hybrid Bind x None (Unary AX (Terminal (AVar x)))) U c = Ok (R, c') ->
  forall v, mem (g_L G) R v = true <->
            (mem (g_L G) U v = true /\ forall i, i < g_n G -> enabled G i v = false).
Proof. exact eval_node_steady_vsteady. Qed.
Print Assumptions C12b_eval_node_steady.

(** ---- the hypotheses are satisfiable ---- *)
Example C12b_wf_instance :
  wf_env (mk_genv 1 2 1 [const (Lpn 1 2) true; lit (Lpn 1 2) (TS 0)]) [[97%N]; [98%N]]
         (expand not_extra (mk_layout 1 2 1) (const (Lpn 1 2) true)) /\
  var_of (mk_genv 1 2 1 [const (Lpn 1 2) true; lit (Lpn 1 2) (TS 0)]) [120%N] = Some 0 /\
  0 < g_k (mk_genv 1 2 1 [const (Lpn 1 2) true; lit (Lpn 1 2) (TS 0)]).
Proof. exact (conj wf_instance (conj eq_refl (le_n 1))). Qed.
Print Assumptions C12b_wf_instance.

(** ---- 6. non-vacuity: the network  a = !a, b = false  (no parameter, one spare copy).
    (0,0) <-> (1,0) is a bottom SCC with exactly two members; (0,1) is transient: it is in the
    unit, reaches (0,0) and cannot be reached back; [attractors] reports the former and not
    the latter. ---- *)
Example C12b_example_wf : wf_env ex_G ex_names ex_U.
Proof. exact ex_wf. Qed.
Print Assumptions C12b_example_wf.

Example C12b_example :
  exists R, attractors ex_G ex_U 0 = Ok R /\
    mem (g_L ex_G) R s00 = true /\ terminal ex_G s00 /\
    reach ex_G s00 s10 /\ reach ex_G s10 s00 /\ ~ veq s00 s10 /\
    (forall w, reach ex_G s00 w -> veq s00 w \/ veq s10 w) /\
    mem (g_L ex_G) ex_U s01 = true /\ mem (g_L ex_G) R s01 = false /\ ~ terminal ex_G s01 /\
    reach ex_G s01 s00 /\ ~ reach ex_G s00 s01.
Proof. exact ex_bottom_and_transient. Qed.
Print Assumptions C12b_example.
