(** C04 (continued) -- the sub-formula cache is transparent
    (A) for EVERY self-loop set handed to the evaluator that does not read the spare copies,
        in particular in the mode [m_unsafe_ex] (plain formulae), and
    (B) for EXTENDED formulae: wild-card propositions and quantifier domains ([m_ext = true]).
    Statements only; proofs in Proofs/CopyRel.v, CacheGen.v, CacheExt.v, CacheExtEntry.v.

    (A) The semantic argument of C04b (through [sat], tied to [steady_of G U]) is replaced by a
    relational one: every operator of Model/Ops.v is parametric in the spare copy that holds a
    variable ([srel]: same members up to "copy e of the one valuation is copy e0 of the
    other"); the fixed-point loops of the two sides run in lockstep.  Hence
      peval (formula with its only name x)  =  substitute_hctl_var (peval (... with x0)) e0 e
    ([C04_peval_rename], also for [peval_ext]: [C04_peval_ext_rename]).

    (B) Inside a scope restricted by the domain of an enclosing quantifier the exact node-level
    statement is FALSE ([C04_node_exactness_refuted]): a cache hit does not look at the
    domains of the variables that do not occur in the sub-formula, so the cached set may come
    from a larger unit.  What holds at every node ([C04_eval_node_cache_ext]):
      tier 1  [spec_in G Uc R (sat t)] -- inside the current unit the result is exactly [sat];
      tier 2  where no quantifier in scope has a domain ([clean]), in particular at top level,
              the result is EQUAL to that of the cache-free evaluator [peval_ext].
    A quantifier with a domain intersects its body with its unit, which restores exactness
    ([C04_domain_quantifier_exact]).  The top-level statements are at full strength
    (equality of decision trees, no "inside the unit"). *)
From Coq Require Import Permutation.
From HCTL Require Import Base Syntax Tokenizer Parser Preprocess Canon MarkDup TT Ops Eval Pipeline Kripke HCTL.
From HCTL Require Import TTFacts EvalPure Main Termination PrepFacts RoundTrip CanonFacts CanonAlpha
  MarkDupFacts LayoutFacts PipelineFacts NoPanic RenameFacts ParsedNamed CacheFacts CopyRel CacheGen.
From HCTL Require Import ExtSem ExtFacts ExtEval ExtLink CacheExt CacheExtEntry.

(** * A. Arbitrary self-loop sets (plain formulae) *)

Theorem C04_ignores_copies_def :
  forall G S, ignores_copies G S <->
    (forall v w, (forall j, v (TP j) = w (TP j)) -> (forall i, v (TS i) = w (TS i)) ->
       mem (g_L G) S v = mem (g_L G) S w).
Proof. exact (fun G S => conj (fun H => H) (fun H => H)). Qed.

(** both self-loop sets of the entry points qualify *)
Theorem C04_steady_sets_ignore_copies :
  forall G names U, wf_env G names U ->
    ignores_copies G (steady_of G U) /\ ignores_copies G (empty G).
Proof. exact (fun G names U WF => conj (steady_of_ignores_copies G names U WF) (empty_ignores_copies G)). Qed.
Print Assumptions C04_steady_sets_ignore_copies.

(** the syntactic commutation: renaming the only variable name of a formula renames the spare
    copy in the result; no semantics, no termination argument *)
Theorem C04_peval_rename :
  forall G names U, wf_env G names U ->
  forall sw steady x x0 e e0 s S0,
    shaped (g_L G) steady ->
    (forall v w, (forall j, v (TP j) = w (TP j)) -> (forall i, v (TS i) = w (TS i)) ->
       mem (g_L G) steady v = mem (g_L G) steady w) ->
    hctl_var_id G x = Ok e -> hctl_var_id G x0 = Ok e0 -> e0 <> e -> plainf s ->
    peval G names sw steady (vmap (fun _ => x0) s) U = Ok S0 ->
    peval G names sw steady (vmap (fun _ => x) s) U = Ok (substitute_hctl_var G S0 e0 e).
Proof. exact peval_rename. Qed.
Print Assumptions C04_peval_rename.

(** the parametricity behind it, for the extended evaluator and two related units: the two
    runs end with outcomes of the same kind and related sets *)
Theorem C04_peval_ext_parametric :
  forall G names U, wf_env G names U ->
  forall e e0, e < g_k G -> e0 < g_k G ->
  forall steady, srel G e e0 steady steady ->
  forall sw x x0, hctl_var_id G x = Ok e -> hctl_var_id G x0 = Ok e0 ->
  forall wild doms,
    (forall l s, alookup str_eqb l wild = Some s -> srel G e e0 s s) ->
    (forall l s, alookup str_eqb l doms = Some s -> srel G e e0 s s) ->
  forall s Ua Ub, srel G e e0 Ua Ub ->
    rrel (srel G e e0) (peval_ext G names sw steady wild doms (vmap (fun _ => x) s) Ua)
                       (peval_ext G names sw steady wild doms (vmap (fun _ => x0) s) Ub).
Proof. exact peval_ext_rel. Qed.
Print Assumptions C04_peval_ext_parametric.

Theorem C04_srel_def :
  forall G e e0 a a0, srel G e e0 a a0 <->
    (shaped (g_L G) a /\ shaped (g_L G) a0 /\
     forall v w, ((forall j, v (TP j) = w (TP j)) /\ (forall i, v (TS i) = w (TS i))
                  /\ (forall i, v (TX i e) = w (TX i e0))) -> mem (g_L G) a v = mem (g_L G) a0 w).
Proof. exact (fun G e e0 a a0 => conj (fun H => H) (fun H => H)). Qed.

Theorem C04_peval_ext_rename :
  forall G names U, wf_env G names U ->
  forall sw steady wild doms x x0 e e0 s S0,
    shaped (g_L G) steady ->
    (forall v w, (forall j, v (TP j) = w (TP j)) -> (forall i, v (TS i) = w (TS i)) ->
       mem (g_L G) steady v = mem (g_L G) steady w) ->
    (forall l s1, alookup str_eqb l wild = Some s1 -> shaped (g_L G) s1 /\
       forall v w, (forall j, v (TP j) = w (TP j)) -> (forall i, v (TS i) = w (TS i)) ->
         mem (g_L G) s1 v = mem (g_L G) s1 w) ->
    (forall l s1, alookup str_eqb l doms = Some s1 -> shaped (g_L G) s1 /\
       forall v w, (forall j, v (TP j) = w (TP j)) -> (forall i, v (TS i) = w (TS i)) ->
         mem (g_L G) s1 v = mem (g_L G) s1 w) ->
    hctl_var_id G x = Ok e -> hctl_var_id G x0 = Ok e0 -> e0 <> e ->
    peval_ext G names sw steady wild doms (vmap (fun _ => x0) s) U = Ok S0 ->
    peval_ext G names sw steady wild doms (vmap (fun _ => x) s) U
      = Ok (substitute_hctl_var G S0 e0 e).
Proof. exact peval_ext_rename. Qed.
Print Assumptions C04_peval_ext_rename.

(** [substitute_hctl_var] on arbitrary shaped sets *)
Theorem C04_mem_substitute :
  forall G names U, wf_env G names U ->
  forall S e0 e v, shaped (g_L G) S -> e0 < g_k G -> e < g_k G -> e0 <> e ->
    mem (g_L G) (substitute_hctl_var G S e0 e) v = mem (g_L G) S (copy_from e0 e v).
Proof. exact mem_substitute. Qed.
Print Assumptions C04_mem_substitute.

(** the cache invariant of C04b with the self-loop set as a parameter *)
Theorem C04_cache_okS_def :
  forall ea ext G names sw U steady (c : ectx),
    cache_okS ea ext G names sw U steady c <->
    (forall k S rn, In (k, (S, rn)) (cache c) ->
       exists t0, good ea ext G names t0 /\ canonize (render t0) = (fst k, rn)
                  /\ length rn <= 1 /\ peval G names sw steady t0 U = Ok S).
Proof. exact (fun ea ext G names sw U steady c => conj (fun H => H) (fun H => H)). Qed.

Theorem C04_eval_node_cache_transparent_any_steady :
  forall ea ext G names sw U, wf_env G names U ->
  forall steady, shaped (g_L G) steady -> ignores_copies G steady ->
  forall t c R c',
    good ea ext G names t -> cache_okS ea ext G names sw U steady c -> dups_ok ea ext c ->
    eval_node G names sw steady t U c = Ok (R, c') ->
    peval G names sw steady t U = Ok R
    /\ cache_okS ea ext G names sw U steady c' /\ dups_ok ea ext c'.
Proof. exact eval_node_cache_transparentS. Qed.
Print Assumptions C04_eval_node_cache_transparent_any_steady.

Theorem C04_eval_node_cache_total_any_steady :
  forall ea ext G names sw U, wf_env G names U ->
  forall steady, shaped (g_L G) steady -> ignores_copies G steady ->
  forall t c,
    good ea ext G names t -> cache_okS ea ext G names sw U steady c -> dups_ok ea ext c ->
    exists R c', eval_node G names sw steady t U c = Ok (R, c').
Proof. exact eval_node_cache_totalS. Qed.
Print Assumptions C04_eval_node_cache_total_any_steady.

Theorem C04_batch_transparent_any_steady :
  forall ea ext G names sw U, wf_env G names U ->
  forall steady, shaped (g_L G) steady -> ignores_copies G steady ->
  forall ts c rs,
    List.Forall (good ea ext G names) ts ->
    cache_okS ea ext G names sw U steady c -> dups_ok ea ext c ->
    eval_all G names sw steady U ts c = Ok rs ->
    List.Forall2 (fun t R => peval G names sw steady t U = Ok R) ts rs.
Proof. exact batch_transparentS. Qed.
Print Assumptions C04_batch_transparent_any_steady.

Theorem C04_batch_transparent_marked_any_steady :
  forall ea ext G names sw U, wf_env G names U ->
  forall steady, shaped (g_L G) steady -> ignores_copies G steady ->
  forall ts rs,
    List.Forall (good ea ext G names) ts ->
    eval_all G names sw steady U ts (ctx_new (mark_duplicates ts)) = Ok rs ->
    List.Forall2 (fun t R => peval G names sw steady t U = Ok R) ts rs.
Proof. exact batch_transparent_markedS. Qed.
Print Assumptions C04_batch_transparent_marked_any_steady.

(** the entry point in every plain mode: [singleS w k m t] is [peval] with the self-loop set of
    the mode ([empty] for [m_unsafe_ex]), then the sanitiser if the mode asks for it *)
Theorem C04_singleS_def :
  forall (w : world) k m t,
    singleS w k m t =
    (let* r := peval (genv_of w k) (w_names w) {| use_patterns := negb (m_nopatterns m) |}
                     (if m_unsafe_ex m then empty (genv_of w k)
                      else steady_of (genv_of w k) (unit_of w k)) t (unit_of w k) in
     if m_sanitize m then sanitize (genv_of w k) r else Ok r).
Proof. exact (fun w k m t => eq_refl). Qed.

Theorem C04_check_trees_map_plain_modes :
  forall ea ext (w : world) k,
    List.Forall (shaped (Lpn (w_p w) (w_n w))) (w_upd w) ->
    shaped (Lpn (w_p w) (w_n w)) (w_unit w) ->
    (forall v v', (forall j, v (TP j) = v' (TP j)) ->
       mem (Lpn (w_p w) (w_n w)) (w_unit w) v = mem (Lpn (w_p w) (w_n w)) (w_unit w) v') ->
    length (w_names w) <= w_n w ->
    forall m ts,
      m_ext m = false -> List.Forall (good ea ext (genv_of w k) (w_names w)) ts ->
      check_trees w k m ts [] [] = mapM (singleS w k m) ts.
Proof. exact check_trees_mapS. Qed.
Print Assumptions C04_check_trees_map_plain_modes.

Theorem C04_cache_mode_irrelevant_plain_modes :
  forall ea ext (w : world) k,
    List.Forall (shaped (Lpn (w_p w) (w_n w))) (w_upd w) ->
    shaped (Lpn (w_p w) (w_n w)) (w_unit w) ->
    (forall v v', (forall j, v (TP j) = v' (TP j)) ->
       mem (Lpn (w_p w) (w_n w)) (w_unit w) v = mem (Lpn (w_p w) (w_n w)) (w_unit w) v') ->
    length (w_names w) <= w_n w ->
    forall m m' ts,
      m_ext m = false -> m_ext m' = false -> m_unsafe_ex m = m_unsafe_ex m' ->
      m_sanitize m = m_sanitize m' -> m_nopatterns m = m_nopatterns m' ->
      List.Forall (good ea ext (genv_of w k) (w_names w)) ts ->
      check_trees w k m ts [] [] = check_trees w k m' ts [] [].
Proof. exact cache_mode_irrelevantS. Qed.
Print Assumptions C04_cache_mode_irrelevant_plain_modes.

Theorem C04_model_check_cache_mode_irrelevant_plain_modes :
  forall ea (w : world) k m m' ctx fs,
    List.Forall (shaped (Lpn (w_p w) (w_n w))) (w_upd w) ->
    shaped (Lpn (w_p w) (w_n w)) (w_unit w) ->
    (forall v v', (forall j, v (TP j) = v' (TP j)) ->
       mem (Lpn (w_p w) (w_n w)) (w_unit w) v = mem (Lpn (w_p w) (w_n w)) (w_unit w) v') ->
    length (w_names w) <= w_n w ->
    m_ext m = false -> m_ext m' = false -> m_unsafe_ex m = m_unsafe_ex m' ->
    m_sanitize m = m_sanitize m' -> m_nopatterns m = m_nopatterns m' ->
    model_check ea w k m ctx fs = model_check ea w k m' ctx fs.
Proof. exact model_check_cache_mode_irrelevantS. Qed.
Print Assumptions C04_model_check_cache_mode_irrelevant_plain_modes.

Theorem C04_batch_position_plain_modes :
  forall ea ext (w : world) k,
    List.Forall (shaped (Lpn (w_p w) (w_n w))) (w_upd w) ->
    shaped (Lpn (w_p w) (w_n w)) (w_unit w) ->
    (forall v v', (forall j, v (TP j) = v' (TP j)) ->
       mem (Lpn (w_p w) (w_n w)) (w_unit w) v = mem (Lpn (w_p w) (w_n w)) (w_unit w) v') ->
    length (w_names w) <= w_n w ->
    forall m ts rs i dt dr,
      m_ext m = false -> List.Forall (good ea ext (genv_of w k) (w_names w)) ts ->
      check_trees w k m ts [] [] = Ok rs -> i < length ts ->
      check_trees w k m [nth i ts dt] [] [] = Ok [nth i rs dr].
Proof. exact batch_positionS. Qed.
Print Assumptions C04_batch_position_plain_modes.

Theorem C04_batch_permutation_plain_modes :
  forall ea ext (w : world) k,
    List.Forall (shaped (Lpn (w_p w) (w_n w))) (w_upd w) ->
    shaped (Lpn (w_p w) (w_n w)) (w_unit w) ->
    (forall v v', (forall j, v (TP j) = v' (TP j)) ->
       mem (Lpn (w_p w) (w_n w)) (w_unit w) v = mem (Lpn (w_p w) (w_n w)) (w_unit w) v') ->
    length (w_names w) <= w_n w ->
    forall m ts ts' rs,
      m_ext m = false -> List.Forall (good ea ext (genv_of w k) (w_names w)) ts ->
      Permutation ts ts' -> check_trees w k m ts [] [] = Ok rs ->
      exists rs', check_trees w k m ts' [] [] = Ok rs'
                  /\ Permutation (combine ts rs) (combine ts' rs').
Proof. exact batch_permutationS. Qed.
Print Assumptions C04_batch_permutation_plain_modes.

Theorem C04_batch_repetition_plain_modes :
  forall ea ext (w : world) k,
    List.Forall (shaped (Lpn (w_p w) (w_n w))) (w_upd w) ->
    shaped (Lpn (w_p w) (w_n w)) (w_unit w) ->
    (forall v v', (forall j, v (TP j) = v' (TP j)) ->
       mem (Lpn (w_p w) (w_n w)) (w_unit w) v = mem (Lpn (w_p w) (w_n w)) (w_unit w) v') ->
    length (w_names w) <= w_n w ->
    forall m t ts r1 r2 rs,
      m_ext m = false -> List.Forall (good ea ext (genv_of w k) (w_names w)) (t :: t :: ts) ->
      check_trees w k m (t :: t :: ts) [] [] = Ok (r1 :: r2 :: rs) ->
      r1 = r2 /\ check_trees w k m (t :: ts) [] [] = Ok (r1 :: rs).
Proof. exact batch_repetitionS. Qed.
Print Assumptions C04_batch_repetition_plain_modes.

(** * B. Extended formulae: wild-card propositions and quantifier domains *)

(** ** 0. definitions restated

    [G names Utop] the graph and the top-level unit; [Gamma] the context predicates;
    [wild], [doms] the sets of the wild-card and of the domain labels as the evaluator sees
    them ([wild_sets_ok], [dom_sets_ok] of C02: shaped, denote [Gamma]; domain sets do not read
    the spare copies); [st := steady_of G Utop]. *)

Theorem C04_gx_def :
  forall ea G names wild doms t,
    gx ea G names wild doms t <->
    (well_named ea true t /\ knownx names wild doms t /\ supported G t).
Proof. exact (fun ea G names wild doms t => conj (fun H => H) (fun H => H)). Qed.

(** [knownx]: propositions, wild-card labels and (for quantifiers other than jump) domain
    labels are known *)
Theorem C04_knownx_def :
  forall names wild doms t,
    knownx names wild doms t <->
    match t with
    | Terminal (AProp nm) => index_of nm names 0 <> None
    | Terminal (AWild l) => alookup str_eqb l wild <> None
    | Terminal _ => True
    | Unary _ a => knownx names wild doms a
    | Binary _ a b => knownx names wild doms a /\ knownx names wild doms b
    | Hybrid o _ d a =>
        match o, d with
        | Jump, _ | _, None => True
        | _, Some dl => alookup str_eqb dl doms <> None
        end /\ knownx names wild doms a
    end.
Proof. intros names wild doms t. destruct t as [[]| | |]; reflexivity. Qed.

Theorem C04_clean_def :
  forall fd, clean fd <-> (forall y d, alookup str_eqb y fd = Some d -> d = None).
Proof. exact (fun fd => conj (fun H => H) (fun H => H)). Qed.

(** the restrictions the domains in scope put on a valuation: for every variable [y] in scope
    with domain [dl], the state held in the copy of [y] lies in the domain set *)
Theorem C04_restr_def :
  forall G doms fd w,
    restr G doms fd w <->
    (forall y dl dset e, alookup str_eqb y fd = Some (Some dl) -> alookup str_eqb dl doms = Some dset ->
       var_of G y = Some e -> mem (g_L G) dset (set_state e w) = true).
Proof. exact (fun G doms fd w => conj (fun H => H) (fun H => H)). Qed.

(** the context of a sub-formula found below [d] quantifiers: the current unit [Uc] is the
    top-level unit restricted by exactly the domains recorded in [free_doms] *)
Theorem C04_ctxinv_def :
  forall G Utop doms c bound Uc d,
    ctxinv G Utop doms c bound Uc d <->
    (domain_sets c = doms
     /\ unit_ok G Utop bound Uc
     /\ NoDup (map fst (free_doms c))
     /\ (forall j, d <= j -> alookup str_eqb (xs (S j)) (free_doms c) = None)
     /\ (forall w, mem (g_L G) Uc w = true <->
                   (mem (g_L G) Utop w = true /\ restr G doms (free_doms c) w))).
Proof. exact (fun G Utop doms c bound Uc d => conj (fun H => H) (fun H => H)). Qed.

(** the result of a node: tier 1 always, tier 2 under [C] *)
Theorem C04_nres_def :
  forall G names Utop Gamma sw wild doms (C : Prop) t Uc R,
    nres G names Utop Gamma sw wild doms C t Uc R <->
    (spec_in G Uc R (sat G names Gamma t)
     /\ (C -> peval_ext G names sw (steady_of G Utop) wild doms t Uc = Ok R)).
Proof. exact (fun G names Utop Gamma sw wild doms C t Uc R => conj (fun H => H) (fun H => H)). Qed.

(** a regular cache entry: the set is exact, inside SOME unit [U0] that contains every
    valuation of the top-level unit meeting the restrictions written in the key
    ([key_restr]), for a sub-formula with that canonical text and an at most one-entry map;
    if the key carries no domain the set is the cache-free result at the top-level unit *)
Theorem C04_reg_entry_def :
  forall ea G names Utop Gamma sw wild doms k S rn,
    reg_entry ea G names Utop Gamma sw wild doms k S rn <->
    (exists t0 d0 bound0 U0,
       gx ea G names wild doms t0 /\ depth_named d0 t0 /\ is_wild_terminal t0 = false
       /\ scoped G bound0 t0 /\ unit_ok G Utop bound0 U0
       /\ canonize (render t0) = (fst k, rn) /\ length rn <= 1
       /\ spec_in G U0 S (sat G names Gamma t0)
       /\ (forall w, mem (g_L G) Utop w = true -> key_restr G doms (snd k) rn w ->
                     mem (g_L G) U0 w = true)
       /\ (all_none (snd k) ->
           peval_ext G names sw (steady_of G Utop) wild doms t0 Utop = Ok S)).
Proof. exact (fun ea G names Utop Gamma sw wild doms k S rn => conj (fun H => H) (fun H => H)). Qed.

Theorem C04_key_restr_def :
  forall G doms kd rn w,
    key_restr G doms kd rn w <->
    (forall x0 cn dl dset e0, rn = [(x0, cn)] -> alookup str_eqb cn kd = Some (Some dl) ->
       alookup str_eqb dl doms = Some dset -> var_of G x0 = Some e0 ->
       mem (g_L G) dset (set_state e0 w) = true).
Proof. exact (fun G doms kd rn w => conj (fun H => H) (fun H => H)). Qed.

(** the store: every cache entry is a wild-card key (text starting with '%') or a regular
    entry; every marked key is a wild-card key or has a [single_text]; the wild-card sets are
    present (marked and cached -- they are never evicted) *)
Theorem C04_storeinv_def :
  forall ea G names Utop Gamma sw wild doms c,
    storeinv ea G names Utop Gamma sw wild doms c <->
    ((forall k S rn, In (k, (S, rn)) (cache c) ->
        (exists r, fst k = c_pct :: r) \/ reg_entry ea G names Utop Gamma sw wild doms k S rn)
     /\ (forall k m, In (k, m) (duplicates c) ->
           (exists r, fst k = c_pct :: r) \/ single_text ea true (fst k))
     /\ (forall p s, alookup str_eqb p wild = Some s ->
           amem key_eqb (wild_key p) (duplicates c) = true
           /\ alookup key_eqb (wild_key p) (cache c) = Some (s, []))).
Proof. exact (fun ea G names Utop Gamma sw wild doms c => conj (fun H => H) (fun H => H)). Qed.

Theorem C04_frame_def :
  forall c c', frame c c' <-> (free_doms c' = free_doms c /\ domain_sets c' = domain_sets c).
Proof. exact (fun c c' => conj (fun H => H) (fun H => H)). Qed.

Theorem C04_topx_def :
  forall ea G names wild doms t,
    topx ea G names wild doms t <->
    (gx ea G names wild doms t /\ depth_named 0 t /\ scoped G [] t).
Proof. exact (fun ea G names wild doms t => conj (fun H => H) (fun H => H)). Qed.

(** ** 1. ingredients *)

Theorem C04_well_named_linkable :
  forall ea ext t, well_named ea ext t -> linkable t.
Proof. exact well_named_linkable. Qed.
Print Assumptions C04_well_named_linkable.

(** the extended cache-free evaluator always answers with a set *)
Theorem C04_peval_ext_total :
  forall G names sw steady wild doms,
    NoDup (g_L G) -> (forall i, shaped (g_L G) (upd_of G i)) -> shaped (g_L G) steady ->
    (forall l s, alookup str_eqb l wild = Some s -> shaped (g_L G) s) ->
    (forall l s, alookup str_eqb l doms = Some s -> shaped (g_L G) s) ->
    forall t U, shaped (g_L G) U -> knownx names wild doms t -> supported G t ->
      exists R, peval_ext G names sw steady wild doms t U = Ok R /\ shaped (g_L G) R.
Proof. exact peval_ext_total. Qed.
Print Assumptions C04_peval_ext_total.

(** renaming the only variable of an extended formula, at the level of [sat] *)
Theorem C04_sat_rename_ext :
  forall G names U, wf_env G names U ->
  forall (Gamma : str -> val -> Prop), ctx_ignores_copies Gamma ->
  forall x x0 e e0, var_of G x = Some e -> var_of G x0 = Some e0 ->
  forall s v w,
    (forall j, v (TP j) = w (TP j)) /\ (forall i, v (TS i) = w (TS i))
    /\ (forall i, v (TX i e) = w (TX i e0)) ->
    (sat G names Gamma (vmap (fun _ => x) s) v <-> sat G names Gamma (vmap (fun _ => x0) s) w).
Proof. exact sat_rename_ext. Qed.
Print Assumptions C04_sat_rename_ext.

(** ** 2. the node-level invariant *)

(** a hit on a regular entry: [rename_back] does not panic; the renamed set is exact inside the
    current unit, and equal to the cache-free result in a clean scope *)
Theorem C04_hit_ok_ext :
  forall ea G names Utop, wf_env G names Utop ->
  forall Gamma, ctx_ignores_copies Gamma ->
  forall sw wild doms, wild_sets_ok G Gamma wild -> dom_sets_ok G Gamma doms ->
  forall t c bound Uc d canon ren S rn,
    gx ea G names wild doms t -> depth_named d t -> ctxinv G Utop doms c bound Uc d ->
    canonize (render t) = (canon, ren) ->
    reg_entry ea G names Utop Gamma sw wild doms (canon, canon_domains (free_doms c) ren []) S rn ->
    exists R, rename_back G rn ren S = Ok R
              /\ nres G names Utop Gamma sw wild doms (clean (free_doms c)) t Uc R.
Proof. exact hit_okX. Qed.
Print Assumptions C04_hit_ok_ext.

(** a quantifier with a domain only needs its body inside the restricted unit, and its own
    result is exactly the cache-free one whatever the scope ([C] arbitrary, e.g. [True]) *)
Theorem C04_domain_quantifier_exact :
  forall ea G names Utop, wf_env G names Utop ->
  forall Gamma sw wild doms, wild_sets_ok G Gamma wild -> dom_sets_ok G Gamma doms ->
  forall bound Uc (C : Prop) o x dl a dset e A,
    o <> Jump -> unit_ok G Utop bound Uc -> var_of G x = Some e -> ~ In e bound ->
    alookup str_eqb dl doms = Some dset ->
    is_empty (tand Uc (compute_valid_domain_for_var G Uc dset e)) = false ->
    gx ea G names wild doms a -> scoped G (e :: bound) a ->
    spec_in G (tand Uc (compute_valid_domain_for_var G Uc dset e)) A (sat G names Gamma a) ->
    exists R,
      eval_hybrid_quantifier G Uc (tand Uc (compute_valid_domain_for_var G Uc dset e)) o e A = Ok R
      /\ nres G names Utop Gamma sw wild doms C (Hybrid o x (Some dl) a) Uc R.
Proof. exact dom_stepX. Qed.
Print Assumptions C04_domain_quantifier_exact.

(** the main invariant: in every scope [eval_node] returns a set (no panic, no exhausted
    fuel), exact inside the current unit, equal to the cache-free result in a clean scope; the
    store invariants are kept and the scope is restored *)
Theorem C04_eval_node_cache_ext :
  forall ea G names Utop, wf_env G names Utop ->
  forall Gamma, ctx_ignores_copies Gamma ->
  forall sw wild doms, wild_sets_ok G Gamma wild -> dom_sets_ok G Gamma doms ->
  forall t c bound Uc d,
    gx ea G names wild doms t -> depth_named d t -> scoped G bound t ->
    ctxinv G Utop doms c bound Uc d -> storeinv ea G names Utop Gamma sw wild doms c ->
    exists R c',
      eval_node G names sw (steady_of G Utop) t Uc c = Ok (R, c')
      /\ nres G names Utop Gamma sw wild doms (clean (free_doms c)) t Uc R
      /\ storeinv ea G names Utop Gamma sw wild doms c' /\ frame c c'.
Proof. exact eval_node_cacheX. Qed.
Print Assumptions C04_eval_node_cache_ext.

(** ** 3. batches at the top-level unit: full strength (equality of decision trees) *)

Theorem C04_batch_transparent_ext :
  forall ea G names Utop, wf_env G names Utop ->
  forall Gamma, ctx_ignores_copies Gamma ->
  forall sw wild doms, wild_sets_ok G Gamma wild -> dom_sets_ok G Gamma doms ->
  forall ts c,
    List.Forall (topx ea G names wild doms) ts ->
    free_doms c = [] /\ domain_sets c = doms ->
    storeinv ea G names Utop Gamma sw wild doms c ->
    exists rs,
      eval_all G names sw (steady_of G Utop) Utop ts c = Ok rs
      /\ List.Forall2 (fun t R => peval_ext G names sw (steady_of G Utop) wild doms t Utop = Ok R) ts rs.
Proof. exact eval_all_cacheX. Qed.
Print Assumptions C04_batch_transparent_ext.

(** the context of the extended entry points satisfies the invariants, with the wild-card
    sets [rev wprops] (the last set given for a label wins) and the domain sets it stores;
    [dups] is [mark_duplicates ts] ([C04_mark_duplicates_dups_ok]) or empty *)
Theorem C04_extend_context_invariants :
  forall ea G names Utop Gamma sw wprops dprops dups,
    dups_ok ea true (ctx_new dups) ->
    let c := extend_context wprops dprops (ctx_new dups) in
    storeinv ea G names Utop Gamma sw (rev wprops) (domain_sets c) c /\ free_doms c = [].
Proof.
  exact (fun ea G names Utop Gamma sw wprops dprops dups H =>
           conj (init_storeinv ea G names Utop Gamma sw wprops dprops dups H)
                (proj1 (init_top_ctx wprops dprops dups))).
Qed.
Print Assumptions C04_extend_context_invariants.

(** the extended entry point evaluates a batch formula by formula *)
Theorem C04_singleX_def :
  forall (w : world) k cprops cdoms m t,
    singleX w k cprops cdoms m t =
    (let* r := peval_ext (genv_of w k) (w_names w) {| use_patterns := negb (m_nopatterns m) |}
                         (steady_of (genv_of w k) (unit_of w k))
                         (wild_of w k cprops) (doms_of w k cprops cdoms) t (unit_of w k) in
     if m_sanitize m then sanitize (genv_of w k) r else Ok r).
Proof. exact (fun w k cprops cdoms m t => eq_refl). Qed.

Theorem C04_check_trees_map_ext :
  forall ea (w : world) k,
    List.Forall (shaped (Lpn (w_p w) (w_n w))) (w_upd w) ->
    shaped (Lpn (w_p w) (w_n w)) (w_unit w) ->
    (forall v v', (forall j, v (TP j) = v' (TP j)) ->
       mem (Lpn (w_p w) (w_n w)) (w_unit w) v = mem (Lpn (w_p w) (w_n w)) (w_unit w) v') ->
    length (w_names w) <= w_n w ->
    forall cprops cdoms (Gamma : str -> val -> Prop),
      ctx_ignores_copies Gamma ->
      wild_sets_ok (genv_of w k) Gamma (wild_of w k cprops) ->
      dom_sets_ok (genv_of w k) Gamma (doms_of w k cprops cdoms) ->
    forall m ts,
      m_ext m = true -> m_unsafe_ex m = false ->
      List.Forall (topx ea (genv_of w k) (w_names w) (wild_of w k cprops) (doms_of w k cprops cdoms)) ts ->
      check_trees w k m ts cprops cdoms = mapM (singleX w k cprops cdoms m) ts.
Proof. exact check_trees_mapX. Qed.
Print Assumptions C04_check_trees_map_ext.

Theorem C04_cache_mode_irrelevant_ext :
  forall ea (w : world) k,
    List.Forall (shaped (Lpn (w_p w) (w_n w))) (w_upd w) ->
    shaped (Lpn (w_p w) (w_n w)) (w_unit w) ->
    (forall v v', (forall j, v (TP j) = v' (TP j)) ->
       mem (Lpn (w_p w) (w_n w)) (w_unit w) v = mem (Lpn (w_p w) (w_n w)) (w_unit w) v') ->
    length (w_names w) <= w_n w ->
    forall cprops cdoms (Gamma : str -> val -> Prop),
      ctx_ignores_copies Gamma ->
      wild_sets_ok (genv_of w k) Gamma (wild_of w k cprops) ->
      dom_sets_ok (genv_of w k) Gamma (doms_of w k cprops cdoms) ->
    forall m m' ts,
      m_ext m = true -> m_unsafe_ex m = false -> m_ext m' = true -> m_unsafe_ex m' = false ->
      m_sanitize m = m_sanitize m' -> m_nopatterns m = m_nopatterns m' ->
      List.Forall (topx ea (genv_of w k) (w_names w) (wild_of w k cprops) (doms_of w k cprops cdoms)) ts ->
      check_trees w k m ts cprops cdoms = check_trees w k m' ts cprops cdoms.
Proof. exact cache_mode_irrelevantX. Qed.
Print Assumptions C04_cache_mode_irrelevant_ext.

Theorem C04_batch_position_ext :
  forall ea (w : world) k,
    List.Forall (shaped (Lpn (w_p w) (w_n w))) (w_upd w) ->
    shaped (Lpn (w_p w) (w_n w)) (w_unit w) ->
    (forall v v', (forall j, v (TP j) = v' (TP j)) ->
       mem (Lpn (w_p w) (w_n w)) (w_unit w) v = mem (Lpn (w_p w) (w_n w)) (w_unit w) v') ->
    length (w_names w) <= w_n w ->
    forall cprops cdoms (Gamma : str -> val -> Prop),
      ctx_ignores_copies Gamma ->
      wild_sets_ok (genv_of w k) Gamma (wild_of w k cprops) ->
      dom_sets_ok (genv_of w k) Gamma (doms_of w k cprops cdoms) ->
    forall m ts rs i dt dr,
      m_ext m = true -> m_unsafe_ex m = false ->
      List.Forall (topx ea (genv_of w k) (w_names w) (wild_of w k cprops) (doms_of w k cprops cdoms)) ts ->
      check_trees w k m ts cprops cdoms = Ok rs -> i < length ts ->
      check_trees w k m [nth i ts dt] cprops cdoms = Ok [nth i rs dr].
Proof. exact batch_positionX. Qed.
Print Assumptions C04_batch_position_ext.

Theorem C04_batch_permutation_ext :
  forall ea (w : world) k,
    List.Forall (shaped (Lpn (w_p w) (w_n w))) (w_upd w) ->
    shaped (Lpn (w_p w) (w_n w)) (w_unit w) ->
    (forall v v', (forall j, v (TP j) = v' (TP j)) ->
       mem (Lpn (w_p w) (w_n w)) (w_unit w) v = mem (Lpn (w_p w) (w_n w)) (w_unit w) v') ->
    length (w_names w) <= w_n w ->
    forall cprops cdoms (Gamma : str -> val -> Prop),
      ctx_ignores_copies Gamma ->
      wild_sets_ok (genv_of w k) Gamma (wild_of w k cprops) ->
      dom_sets_ok (genv_of w k) Gamma (doms_of w k cprops cdoms) ->
    forall m ts ts' rs,
      m_ext m = true -> m_unsafe_ex m = false ->
      List.Forall (topx ea (genv_of w k) (w_names w) (wild_of w k cprops) (doms_of w k cprops cdoms)) ts ->
      Permutation ts ts' -> check_trees w k m ts cprops cdoms = Ok rs ->
      exists rs', check_trees w k m ts' cprops cdoms = Ok rs'
                  /\ Permutation (combine ts rs) (combine ts' rs').
Proof. exact batch_permutationX. Qed.
Print Assumptions C04_batch_permutation_ext.

Theorem C04_batch_repetition_ext :
  forall ea (w : world) k,
    List.Forall (shaped (Lpn (w_p w) (w_n w))) (w_upd w) ->
    shaped (Lpn (w_p w) (w_n w)) (w_unit w) ->
    (forall v v', (forall j, v (TP j) = v' (TP j)) ->
       mem (Lpn (w_p w) (w_n w)) (w_unit w) v = mem (Lpn (w_p w) (w_n w)) (w_unit w) v') ->
    length (w_names w) <= w_n w ->
    forall cprops cdoms (Gamma : str -> val -> Prop),
      ctx_ignores_copies Gamma ->
      wild_sets_ok (genv_of w k) Gamma (wild_of w k cprops) ->
      dom_sets_ok (genv_of w k) Gamma (doms_of w k cprops cdoms) ->
    forall m t ts r1 r2 rs,
      m_ext m = true -> m_unsafe_ex m = false ->
      List.Forall (topx ea (genv_of w k) (w_names w) (wild_of w k cprops) (doms_of w k cprops cdoms))
                  (t :: t :: ts) ->
      check_trees w k m (t :: t :: ts) cprops cdoms = Ok (r1 :: r2 :: rs) ->
      r1 = r2 /\ check_trees w k m (t :: ts) cprops cdoms = Ok (r1 :: rs).
Proof. exact batch_repetitionX. Qed.
Print Assumptions C04_batch_repetition_ext.

(** ** 4. the side conditions are those of the pipeline *)

(** what [validate_all] returns in the extended syntax: parsed, preprocessed, supported
    formulae whose labels were all found in the context map *)
Theorem C04_validate_all_ext_spec :
  forall ea props k ctx fs ts cp cd,
    validate_all ea true props k ctx fs = Ok (ts, cp, cd) ->
    List.Forall (fun t =>
        (exists f t0, parse_formula ea true f = Ok t0 /\ preprocess props t0 = Ok t)
        /\ num_hctl_vars t <= k
        /\ (forall l, has_wild l t -> exists s, In (l, s) cp)
        /\ (forall l, has_dom l t -> exists s, In (l, s) cd)) ts
    /\ (forall l s, In (l, s) cp -> alookup str_eqb l ctx = Some s)
    /\ (forall l s, In (l, s) cd -> alookup str_eqb l ctx = Some s).
Proof. exact validate_all_ext_spec. Qed.
Print Assumptions C04_validate_all_ext_spec.

Theorem C04_validated_topx :
  forall ea (w : world) k cp cd t,
    validx ea (w_names w) k cp cd t ->
    topx ea (genv_of w k) (w_names w) (wild_of w k cp) (doms_of w k cp cd) t.
Proof. exact validx_topx. Qed.
Print Assumptions C04_validated_topx.

(** the extended string entry point, whatever the strings: duplicate marking does not change
    the outcome (the context predicates are those of the user's map, [Gamma_of]) *)
Theorem C04_model_check_cache_mode_irrelevant_ext :
  forall ea (w : world) k m m' ctx fs,
    List.Forall (shaped (Lpn (w_p w) (w_n w))) (w_upd w) ->
    shaped (Lpn (w_p w) (w_n w)) (w_unit w) ->
    (forall v v', (forall j, v (TP j) = v' (TP j)) ->
       mem (Lpn (w_p w) (w_n w)) (w_unit w) v = mem (Lpn (w_p w) (w_n w)) (w_unit w) v') ->
    length (w_names w) <= w_n w ->
    (forall l s, alookup str_eqb l ctx = Some s -> shaped (Lpn (w_p w) (w_n w)) s) ->
    m_ext m = true -> m_unsafe_ex m = false -> m_ext m' = true -> m_unsafe_ex m' = false ->
    m_sanitize m = m_sanitize m' -> m_nopatterns m = m_nopatterns m' ->
    model_check ea w k m ctx fs = model_check ea w k m' ctx fs.
Proof. exact model_check_cache_mode_irrelevantX. Qed.
Print Assumptions C04_model_check_cache_mode_irrelevant_ext.

(** * Examples (non-vacuity) and the counterexample to node-level exactness *)

(** the world of C04b (variables a, b; one parameter bit; two spare copies), two domains
    A = "a is 1", B = "b is 1", and
      g1 = 3{x} in %A%: (EX {x})
      g2 = 3{x} in %B%: 3{xx} in %A%: (AX (EX {xx})) *)
Definition exc_ea : N -> bool := fun _ => false.
Definition exc_w : world :=
  {| w_p := 1; w_n := 2; w_names := [[97%N]; [98%N]];
     w_upd := [const (Lpn 1 2) true; lit (Lpn 1 2) (TS 0)];
     w_unit := const (Lpn 1 2) true |}.
Definition exc_G : genv := genv_of exc_w 2.
Definition exc_U : tt := unit_of exc_w 2.
Definition exc_lA : str := [65%N].
Definition exc_lB : str := [66%N].
Definition exc_vx : tree := Terminal (AVar (xs 1)).
Definition exc_vxx : tree := Terminal (AVar (xs 2)).
Definition exc_g1 : tree := Hybrid Exists (xs 1) (Some exc_lA) (Unary EX exc_vx).
Definition exc_g2 : tree :=
  Hybrid Exists (xs 1) (Some exc_lB)
    (Hybrid Exists (xs 2) (Some exc_lA) (Unary AX (Unary EX exc_vxx))).
Definition exc_cdoms : list (str * tt) :=
  [(exc_lA, lit (Lpn 1 2) (TS 0)); (exc_lB, lit (Lpn 1 2) (TS 1))].
Definition exc_doms : list (str * tt) := doms_of exc_w 2 [] exc_cdoms.
Definition exc_md (nc : bool) : mode :=
  {| m_ext := true; m_sanitize := false; m_unsafe_ex := false; m_nocache := nc;
     m_nopatterns := false |}.

(** the hypotheses of the theorems of part B hold for this instance *)
Example C04c_ex_hypotheses :
  exists Gamma : str -> val -> Prop,
    ctx_ignores_copies Gamma
    /\ wild_sets_ok exc_G Gamma (wild_of exc_w 2 [])
    /\ dom_sets_ok exc_G Gamma exc_doms
    /\ List.Forall (topx exc_ea exc_G (w_names exc_w) (wild_of exc_w 2 []) exc_doms) [exc_g1; exc_g2].
Proof.
  assert (forall l s, alookup str_eqb l exc_cdoms = Some s -> shaped (Lpn (w_p exc_w) (w_n exc_w)) s) as CS.
  { intros l s E. unfold exc_cdoms in E. cbn [alookup] in E.
    destruct (str_eqb l exc_lA); [injection E as <-; vm_compute; tauto|].
    destruct (str_eqb l exc_lB); [injection E as <-; vm_compute; tauto | discriminate E]. }
  pose proof (ctx_lifted_ok exc_w 2 exc_cdoms CS) as CO.
  exists (Gamma_of exc_G (ctx_lifted exc_w 2 exc_cdoms)).
  split; [apply Gamma_of_ignores_copies, CO|].
  split; [apply (picked_wild_ok _ _ CO), (wild_picked exc_w 2 exc_cdoms []); intros l s []|].
  split.
  { apply (picked_doms_ok _ _ CO), (doms_picked exc_w 2 exc_cdoms [] exc_cdoms).
    intros l s [E | [E | []]]; injection E as <- <-; reflexivity. }
  assert (forall t, well_namedb exc_ea true t = true -> knownx (w_names exc_w) (wild_of exc_w 2 []) exc_doms t ->
            supported exc_G t -> depth_named 0 t -> scoped exc_G [] t ->
            topx exc_ea exc_G (w_names exc_w) (wild_of exc_w 2 []) exc_doms t) as K.
  { intros t A B C D E. split; [|split; assumption]. split; [apply well_namedb_sound, A|]. split; assumption. }
  constructor; [|constructor; [|constructor]]; apply K; try reflexivity.
  - cbn [exc_g1 knownx exc_vx]. repeat split. vm_compute. discriminate.
  - cbn. repeat split; discriminate.
  - cbn. repeat split. exists 0. split; [lia | reflexivity].
  - cbn [exc_g1 scoped exc_vx]. exists 0. split; [reflexivity|]. split; [intros []|]. vm_compute. discriminate.
  - cbn [exc_g2 knownx exc_vxx]. repeat split; vm_compute; discriminate.
  - cbn. repeat split; discriminate.
  - cbn. repeat split. exists 1. split; [lia | reflexivity].
  - cbn [exc_g2 scoped exc_vxx]. exists 0. split; [reflexivity|]. split; [intros []|].
    exists 1. split; [reflexivity|]. split; [intros [X | []]; discriminate X|]. vm_compute. discriminate.
Qed.

(** (EX {x}) of g1 and (EX {xx}) of g2 have the same key -- same canonical text, same canonical
    domain [(var0, Some A)] -- and are marked; the results with and without marking agree *)
Example C04c_ex_batch :
  (exists k0, mark_duplicates [exc_g1; exc_g2] = [(k0, 1)]
              /\ k0 = fst (node_key (Unary EX exc_vx) [(xs 1, Some exc_lA)])
              /\ k0 = fst (node_key (Unary EX exc_vxx) [(xs 1, Some exc_lB); (xs 2, Some exc_lA)]))
  /\ check_trees exc_w 2 (exc_md false) [exc_g1; exc_g2] [] exc_cdoms
     = check_trees exc_w 2 (exc_md true) [exc_g1; exc_g2] [] exc_cdoms
  /\ exists rs, check_trees exc_w 2 (exc_md false) [exc_g1; exc_g2] [] exc_cdoms = Ok rs
                /\ map card rs = [128; 96].
Proof.
  split; [eexists; repeat split; vm_compute; reflexivity|]. split; [vm_compute; reflexivity|].
  eexists. split; vm_compute; reflexivity.
Qed.

(** node-level exactness is FALSE in a restricted scope.  After g1 the cache holds the set of
    (EX {x}) computed in the unit restricted by A(x) only.  The node (EX {xx}) of g2 is then
    evaluated in the scope  x in B, xx in A  (unit [Ur2]): it is served from the cache (the
    entry is evicted), the renamed set has 32 members, the cache-free evaluation in [Ur2] has
    16 -- but the two agree inside [Ur2] (tier 1), and g2 as a whole gets the exact result
    ([C04c_ex_batch]). *)
Definition exc_c0 : ectx :=
  extend_context (wprops_of exc_w 2 []) (dprops_of exc_w 2 exc_cdoms)
                 (ctx_new (mark_duplicates [exc_g1; exc_g2])).
Definition exc_st : tt := steady_of exc_G exc_U.
Definition exc_sw : switches := {| use_patterns := true |}.
Definition exc_dset (l : str) : tt :=
  match alookup str_eqb l exc_doms with Some s => s | None => Leaf false end.
Definition exc_Ur1 : tt := tand exc_U (compute_valid_domain_for_var exc_G exc_U (exc_dset exc_lB) 0).
Definition exc_Ur2 : tt := tand exc_Ur1 (compute_valid_domain_for_var exc_G exc_Ur1 (exc_dset exc_lA) 1).
Definition exc_node : tree := Unary EX exc_vxx.

Example C04_node_exactness_refuted :
  exists r1 c1 R c2 R',
    eval_node exc_G (w_names exc_w) exc_sw exc_st exc_g1 exc_U exc_c0 = Ok (r1, c1)
    /\ length (cache c1) = 1
    /\ eval_node exc_G (w_names exc_w) exc_sw exc_st exc_node exc_Ur2
         (set_free c1 [(xs 1, Some exc_lB); (xs 2, Some exc_lA)]) = Ok (R, c2)
    /\ cache c2 = []
    /\ peval_ext exc_G (w_names exc_w) exc_sw exc_st [] exc_doms exc_node exc_Ur2 = Ok R'
    /\ R <> R' /\ card R = 32 /\ card R' = 16
    /\ tand R exc_Ur2 = tand R' exc_Ur2.
Proof.
  do 5 eexists. split; [vm_compute; reflexivity|]. split; [vm_compute; reflexivity|].
  split; [vm_compute; reflexivity|]. split; [vm_compute; reflexivity|].
  split; [vm_compute; reflexivity|]. split; [vm_compute; discriminate|].
  repeat split; vm_compute; reflexivity.
Qed.

Print Assumptions C04c_ex_hypotheses.
Print Assumptions C04c_ex_batch.
Print Assumptions C04_node_exactness_refuted.
Print Assumptions C04_ignores_copies_def.
Print Assumptions C04_srel_def.
Print Assumptions C04_cache_okS_def.
Print Assumptions C04_singleS_def.
Print Assumptions C04_gx_def.
Print Assumptions C04_knownx_def.
Print Assumptions C04_clean_def.
Print Assumptions C04_restr_def.
Print Assumptions C04_ctxinv_def.
Print Assumptions C04_nres_def.
Print Assumptions C04_reg_entry_def.
Print Assumptions C04_key_restr_def.
Print Assumptions C04_storeinv_def.
Print Assumptions C04_frame_def.
Print Assumptions C04_topx_def.
Print Assumptions C04_singleX_def.
