(** C08 -- results are invariant under meaning-preserving rewrites of the formula text.
    Statements only; the proofs are in Proofs/AlphaFacts.v (part 1), Proofs/ParenFacts.v
    (parts 2 and 4b), Proofs/SpacingFacts.v (parts 3 and 4a) and Proofs/RewriteFacts.v (the
    entry points).

    The evaluator is a function of the preprocessed tree, so two formula texts with the
    same outcome of [parse_and_minimize] get the same outcome of [model_check]
    ([C08_model_check_same_front]).  The four parts show that this outcome is not changed by
      1. renaming bound variables,
      2. redundant parentheses,
      3. white space at token boundaries,
      4. the alternative spellings of hybrid operators and of the constants.

    Vocabulary of part 1 (AlphaFacts.v; [db], [rename], [well_scoped] are from PrepFacts.v):
    - [no_requant scope t]: no quantifier (bind / exists / forall) of [t] binds a name that
      is in [scope] or bound by an enclosing quantifier of [t];
    - [dprep props n d]: validation and naming of the de Bruijn form [d] below [n]
      quantifiers, in the traversal order of [prep]: the first unknown proposition gives
      [Err EUnknownProp], the first free variable or jump target [Err EFreeVar], otherwise
      [Ok] of the tree named by depth; it never answers [Err ERequantified];
    - [dname n d]: the tree named by depth; [dclosed props d]: no free variable, only known
      propositions.

    Vocabulary of part 2 (ParenFacts.v; [G], [L], [U] are the grammar of ParserFacts.v):
    - [teq x y]: the tokens are equal, or both are operands (atoms or groups) that derive the
      same trees ([forall t, U [x] t <-> U [y] t]);
    - [GW ts ts' t]: [ts] derives [t] and [ts'] is [ts] with groups put around any number of
      operands of that derivation, at any depth ([LW], [UW]: the same for [L n], [U]).

    Vocabulary of part 3 (SpacingFacts.v), everything for an arbitrary classification
    [ext_alnum] of the code points >= 128:
    - [next c rest] / [nexts cs]: one iteration of the tokenizer loop without the recursive
      calls: it drops a white-space character ([ASkip]), reads a complete token ([APush]),
      an opening ([AOpen]) or closing ([AClose]) parenthesis, or fails ([C08_tok_next]);
    - [ws_str w]: all characters are white space; [is_sep c]: white space that is not a name
      character -- every white-space character below 128 and, if [ext_alnum] rejects white
      space as Unicode does, every white-space character ([C08_is_sep_unicode]);
      [sep_str w]: all characters are separators;
    - [name_str n]: a non-empty string of name characters; [prop_text n]: a name that does
      not start with white space and is none of [3], [V], [EX] .. [AW] ([reserved]);
    - [seg_txt x d w1 w2 w3 w4 s]: the segment [w1 {x} w2 (in w3 %d% w4)? : s] of a hybrid
      operator; [dom_ok pd d]: a domain is only written where domains are parsed;
    - [hyb_heads]: the spellings [!], [3], [V], [@], [\bind], [\exists], [\forall], [\jump]
      with their operators; [simple_ops]: [~ & | ^ => <=>] with their tokens;
    - [lsim s s']: the loop behaves on [s'] as on [s] (same action, similar rests), except
      that it may drop additional white space at the start of an iteration;
    - [respaced s s']: the syntactic counterpart, token by token from the left
      ([C08_respaced_rules]). *)
From HCTL Require Import Base Syntax Tokenizer Parser Preprocess TT Pipeline.
From HCTL Require Import PrepFacts ParserFacts RewriteFacts.

(** * 1. Names of bound variables *)

(** [rename] -- hence the result of a successful preprocessing -- depends on the de Bruijn
    form only *)
Theorem C08_rename_depends_on_db :
  forall (t1 t2 : tree) (s1 s2 : list str),
    length s1 = length s2 -> db s1 t1 = db s2 t2 -> rename s1 t1 = rename s2 t2.
Proof. exact rename_alpha. Qed.

Theorem C08_rename_is_dname :
  forall (t : tree) (scope : list str), rename scope t = dname (length scope) (db scope t).
Proof. exact rename_dname. Qed.

(** well-scopedness is "no re-quantification" plus a property of the de Bruijn form; only
    the first conjunct is not alpha-invariant *)
Theorem C08_well_scoped_iff :
  forall (props : list str) (t : tree) (scope : list str),
    well_scoped props scope t <-> no_requant scope t /\ dclosed props (db scope t).
Proof. exact well_scoped_iff. Qed.

(** the outcome of preprocessing is a function of the de Bruijn form, or the error
    "re-quantified variable" *)
Theorem C08_preprocess_factors :
  forall (props : list str) (t : tree),
    preprocess props t = dprep props 0 (db [] t) \/ preprocess props t = Err ERequantified.
Proof. exact preprocess_factors. Qed.

Theorem C08_preprocess_factors_exact :
  forall (props : list str) (t : tree),
    no_requant [] t -> preprocess props t = dprep props 0 (db [] t).
Proof. exact preprocess_factors_exact. Qed.

(** the same for [prep] under the invariant of its map *)
Theorem C08_prep_factors :
  forall (props : list str) (t : tree) (scope : list str) (ren : list (str * str)),
    (forall x, alookup str_eqb x ren
               = option_map (fun i => xs (length scope - i)) (index x scope)) ->
    prep props ren (xs (length scope)) t = dprep props (length scope) (db scope t)
    \/ prep props ren (xs (length scope)) t = Err ERequantified.
Proof. exact prep_factors. Qed.

Theorem C08_dprep_never_requantified :
  forall (props : list str) (d : dtree) (n : nat), dprep props n d <> Err ERequantified.
Proof. exact dprep_never_requantified. Qed.

Theorem C08_not_requantified :
  forall (props : list str) (t : tree),
    no_requant [] t -> preprocess props t <> Err ERequantified.
Proof. exact preprocess_not_requantified. Qed.

(** what holds without any side condition: alpha-equivalent trees have the same outcome
    (same tree or same error class) unless one of them is rejected for re-quantification *)
Theorem C08_alpha_general :
  forall (props : list str) (t1 t2 : tree),
    db [] t1 = db [] t2 ->
    preprocess props t1 = preprocess props t2
    \/ preprocess props t1 = Err ERequantified
    \/ preprocess props t2 = Err ERequantified.
Proof. exact preprocess_alpha_general. Qed.

(** alpha-equivalent trees that do not re-quantify have the same outcome: the same tree, or
    the same error class *)
Theorem C08_alpha_invariant :
  forall (props : list str) (t1 t2 : tree),
    db [] t1 = db [] t2 -> no_requant [] t1 -> no_requant [] t2 ->
    preprocess props t1 = preprocess props t2.
Proof. exact preprocess_alpha_invariant. Qed.

(** acceptance of one side transfers to every alpha-equivalent tree that does not
    re-quantify (the accepted side never does) *)
Theorem C08_alpha_ok :
  forall (props : list str) (t1 t2 t' : tree),
    db [] t1 = db [] t2 -> no_requant [] t2 ->
    preprocess props t1 = Ok t' -> preprocess props t2 = Ok t'.
Proof. exact preprocess_alpha_ok. Qed.

Theorem C08_alpha_ok_ok :
  forall (props : list str) (t1 t2 t1' t2' : tree),
    db [] t1 = db [] t2 ->
    preprocess props t1 = Ok t1' -> preprocess props t2 = Ok t2' -> t1' = t2'.
Proof. exact preprocess_alpha_ok_ok. Qed.

(** the side condition cannot be dropped:  !{x}: !{x}: {x}  and  !{x}: !{xx}: {xx}  have the
    same de Bruijn form, the first is rejected, the second accepted *)
Theorem C08_alpha_requant_counterexample :
  forall props : list str,
    db [] requant_example_1 = db [] requant_example_2
    /\ preprocess props requant_example_1 = Err ERequantified
    /\ preprocess props requant_example_2 = Ok requant_example_2.
Proof. exact preprocess_alpha_requant_counterexample. Qed.

(** * 2. Redundant parentheses (token level) *)

Theorem C08_redundant_parentheses_outer :
  forall ts : list token, parse_tokens [TGroup ts] = parse_tokens ts.
Proof. exact parse_group. Qed.

Theorem C08_redundant_parentheses_double :
  forall l r ts : list token,
    parse_tokens (l ++ [TGroup [TGroup ts]] ++ r) = parse_tokens (l ++ [TGroup ts] ++ r).
Proof. exact parse_double_group. Qed.

Theorem C08_redundant_parentheses_atom :
  forall (l r : list token) (a : atom),
    parse_tokens (l ++ [TGroup [TAtom a]] ++ r) = parse_tokens (l ++ [TAtom a] ++ r).
Proof. exact parse_group_atom. Qed.

(** interchangeable operands may be exchanged anywhere in a token list (same tree or same
    error); groups with interchangeable contents are interchangeable, so "anywhere"
    includes any nesting depth *)
Theorem C08_operand_congruence :
  forall ts ts' : list token, Forall2 teq ts ts' -> parse_tokens ts = parse_tokens ts'.
Proof. exact parse_congruence. Qed.

Theorem C08_teq_group :
  forall a b : list token, (forall t, G a t <-> G b t) -> teq (TGroup a) (TGroup b).
Proof. exact teq_group. Qed.

Theorem C08_teq_group_deep :
  forall a b : list token, Forall2 teq a b -> teq (TGroup a) (TGroup b).
Proof. exact teq_group_deep. Qed.

Theorem C08_teq_double_group :
  forall ts : list token, teq (TGroup [TGroup ts]) (TGroup ts).
Proof. exact teq_double_group. Qed.

(** a group around an operand of the derivation: the body of a hybrid operator, either side
    of a binary operator, the operand of a unary operator, the content of a group, the whole
    formula -- any number of them, at any depth *)
Theorem C08_redundant_parentheses_operands :
  forall (ts ts' : list token) (t : tree),
    GW ts ts' t -> parse_tokens ts = Ok t /\ parse_tokens ts' = Ok t.
Proof. exact parse_wrapped. Qed.

(** every accepted list is in the domain of that theorem (with nothing wrapped) *)
Theorem C08_wrapping_covers_grammar :
  forall (ts : list token) (t : tree), parse_tokens ts = Ok t -> GW ts ts t.
Proof. exact GW_refl. Qed.

(** the wrapping rules ([GW_wrap], [LW_wrap], [UW_wrap]) and the congruence rules *)
Theorem C08_wrapping_rules :
  (forall ts ts' t, GW ts ts' t -> GW ts [TGroup ts'] t) /\
  (forall n ts ts' t, LW n ts ts' t -> LW n ts [TGroup ts'] t) /\
  (forall ts ts' t, UW ts ts' t -> UW ts [TGroup ts'] t) /\
  (forall o x d ts ts' t,
     GW ts ts' t -> GW (THyb o x d :: ts) (THyb o x d :: ts') (Hybrid o x d t)) /\
  (forall ts ts' t, LW 6 ts ts' t -> GW ts ts' t) /\
  (forall ts ts' t, UW ts ts' t -> LW 0 ts ts' t) /\
  (forall n o l l' r r' a b,
     op_level o = n -> LW n l l' a -> LW (S n) r r' b ->
     LW (S n) (l ++ TBin o :: r) (l' ++ TBin o :: r') (Binary o a b)) /\
  (forall n ts ts' t, LW n ts ts' t -> LW (S n) ts ts' t) /\
  (forall o ts ts' t, UW ts ts' t -> UW (TUn o :: ts) (TUn o :: ts') (Unary o t)) /\
  (forall ts ts' t, GW ts ts' t -> UW [TGroup ts] [TGroup ts'] t).
Proof.
  exact (conj GW_wrap (conj LW_wrap (conj UW_wrap (conj GW_hyb (conj GW_expr
        (conj LW_unary (conj LW_bin (conj LW_skip (conj UW_un UW_group))))))))).
Qed.

(** one-step instances in terms of the grammar *)
Theorem C08_wrap_any_level :
  (forall ts t, G ts t -> U [TGroup ts] t) /\
  (forall n ts t, L n ts t -> U [TGroup ts] t) /\
  (forall ts t, U ts t -> U [TGroup ts] t).
Proof. exact (conj wrap_G_U (conj wrap_L_U wrap_U_U)). Qed.

Theorem C08_wrap_hybrid_body :
  forall (o : hybop) (x : str) (d : option str) (ts : list token) (t : tree),
    G ts t -> G (THyb o x d :: [TGroup ts]) (Hybrid o x d t).
Proof. exact wrap_hybrid_body. Qed.

Theorem C08_wrap_unary_operand :
  forall (o : unop) (ts : list token) (t : tree),
    U ts t -> U (TUn o :: [TGroup ts]) (Unary o t).
Proof. exact wrap_unary_operand. Qed.

Theorem C08_wrap_binary_operands :
  forall (n : nat) (o : binop) (l r : list token) (a b : tree),
    op_level o = n -> L n l a -> L (S n) r b ->
    L (S n) ([TGroup l] ++ TBin o :: r) (Binary o a b)
    /\ L (S n) (l ++ TBin o :: [TGroup r]) (Binary o a b)
    /\ L (S n) ([TGroup l] ++ TBin o :: [TGroup r]) (Binary o a b).
Proof. exact wrap_binary_operands. Qed.

(** * 3. White space (character level) *)

Section WhiteSpace.
Variable ext_alnum : N -> bool.
Variable ext : bool.

(** the loop of the tokenizer, one iteration at a time *)
Theorem C08_tok_next :
  forall (f : nat) (c : N) (rest : str) (top : bool) (acc : list token),
    tok ext_alnum (S f) (c :: rest) top ext acc
    = let* a := next ext_alnum ext c rest in continue ext_alnum ext f top acc a.
Proof. exact (tok_next ext_alnum ext). Qed.

(** the fuel of [tokenize] suffices and its amount is irrelevant *)
Theorem C08_tok_fuel_enough :
  forall (f : nat) (cs : str) (top : bool) (acc : list token),
    length cs < f ->
    tok ext_alnum f cs top ext acc <> OutOfFuel
    /\ forall ts r, tok ext_alnum f cs top ext acc = Ok (ts, r) -> length r <= length cs.
Proof. exact (tok_fuel_enough ext_alnum ext). Qed.

Theorem C08_tok_fuel_irrelevant :
  forall (f f' : nat) (cs : str) (top : bool) (acc : list token),
    length cs < f -> length cs < f' ->
    tok ext_alnum f cs top ext acc = tok ext_alnum f' cs top ext acc.
Proof. exact (tok_fuel_irrelevant ext_alnum ext). Qed.

(** leading white space: any white space *)
Theorem C08_whitespace_leading :
  forall w s : str,
    forallb is_ws w = true -> tokenize ext_alnum ext (w ++ s) = tokenize ext_alnum ext s.
Proof. exact (tokenize_leading_ws ext_alnum ext). Qed.

(** trailing white space: any white space whose first character is not (classified as) a
    name character *)
Theorem C08_whitespace_trailing :
  forall s w : str,
    forallb is_ws w = true -> peek_name_char ext_alnum w = false ->
    tokenize ext_alnum ext (s ++ w) = tokenize ext_alnum ext s.
Proof. exact (tokenize_trailing_ws ext_alnum ext). Qed.

Theorem C08_whitespace_trailing_sep :
  forall s w : str,
    sep_str ext_alnum w -> tokenize ext_alnum ext (s ++ w) = tokenize ext_alnum ext s.
Proof. exact (tokenize_trailing_sep ext_alnum ext). Qed.

(** separators: all white space below 128, all white space if [ext_alnum] is Unicode-like *)
Theorem C08_is_sep_unicode :
  forall c : N,
    (forall x, is_ws x = true -> ext_alnum x = false) -> is_sep ext_alnum c = is_ws c.
Proof. exact (is_sep_ws_unicode ext_alnum). Qed.

(** the general statements: similar inputs give the same token list (or the same error) ... *)
Theorem C08_whitespace_simulation :
  forall s s' : str,
    lsim ext_alnum ext s s' -> tokenize ext_alnum ext s' = tokenize ext_alnum ext s.
Proof. exact (tokenize_lsim ext_alnum ext). Qed.

(** ... from any state of the loop (whatever was read before is in [acc]; inside a group
    [top] is false and the unread rests are similar again) *)
Theorem C08_whitespace_simulation_loop :
  forall (f : nat) (cs cs' : str),
    lsim ext_alnum ext cs cs' ->
    forall (f' : nat) (top : bool) (acc : list token),
      length cs < f -> length cs' < f' ->
      rrel ext_alnum ext (tok ext_alnum f cs top ext acc) (tok ext_alnum f' cs' top ext acc).
Proof. exact (tok_lsim ext_alnum ext). Qed.

Theorem C08_whitespace :
  forall s s' : str,
    respaced ext_alnum ext s s' -> tokenize ext_alnum ext s' = tokenize ext_alnum ext s.
Proof. exact (tokenize_respaced ext_alnum ext). Qed.

Theorem C08_respaced_lsim :
  forall s s' : str, respaced ext_alnum ext s s' -> lsim ext_alnum ext s s'.
Proof. exact (respaced_lsim ext_alnum ext). Qed.

(** the rules of [respaced] (its constructors): an unchanged rest; an inserted separator;
    and one rule per kind of token, with the conditions under which the tokenizer reads
    exactly that text as one token *)
Theorem C08_respaced_rules :
  let R := respaced ext_alnum ext in
  (forall s, R s s) /\
  (forall c s s', is_sep ext_alnum c = true -> R s s' -> R s (c :: s')) /\
  (forall c s s', is_ws c = true -> R s s' -> R (c :: s) (c :: s')) /\
  (forall txt tk s s', In (txt, tk) simple_ops -> R s s' -> R (txt ++ s) (txt ++ s')) /\
  (forall c c2 tk s s',
     c = c_E \/ c = c_A -> temporal_token c c2 = Ok tk ->
     peek_name_char ext_alnum s = false ->
     R s s' -> R (c :: c2 :: s) (c :: c2 :: s')) /\
  (forall n s s',
     prop_text ext_alnum n -> peek_name_char ext_alnum s = false ->
     R s s' -> R (n ++ s) (n ++ s')) /\
  (forall x s s',
     name_str ext_alnum x -> R s s' ->
     R (c_lbrace :: x ++ c_rbrace :: s) (c_lbrace :: x ++ c_rbrace :: s')) /\
  (forall x s s',
     ext = true -> name_str ext_alnum x -> R s s' ->
     R (c_pct :: x ++ c_pct :: s) (c_pct :: x ++ c_pct :: s')) /\
  (forall s s', R s s' -> R (c_lpar :: s) (c_lpar :: s')) /\
  (forall s s', R s s' -> R (c_rpar :: s) (c_rpar :: s')) /\
  (forall pre pre' o x d w1 w2 w3 w4 w1' w2' w3' w4' s s',
     In (pre, o) hyb_heads -> In (pre', o) hyb_heads ->
     pre' = pre \/ peek_name_char ext_alnum pre' = false ->
     sep_str ext_alnum w1 -> ws_str w2 -> ws_str w3 -> ws_str w4 ->
     sep_str ext_alnum w1' -> ws_str w2' -> ws_str w3' -> ws_str w4' ->
     name_str ext_alnum x -> dom_ok ext_alnum (hyb_pd ext o) d -> R s s' ->
     R (pre ++ seg_txt x d w1 w2 w3 w4 s) (pre' ++ seg_txt x d w1' w2' w3' w4' s')).
Proof.
  exact (conj (rs_refl ext_alnum ext) (conj (rs_ins ext_alnum ext) (conj (rs_ws ext_alnum ext)
        (conj (rs_op ext_alnum ext) (conj (rs_temporal ext_alnum ext)
        (conj (rs_prop ext_alnum ext) (conj (rs_var ext_alnum ext) (conj (rs_wild ext_alnum ext)
        (conj (rs_lpar ext_alnum ext) (conj (rs_rpar ext_alnum ext)
              (rs_hyb ext_alnum ext))))))))))).
Qed.

(** the texts of the rules are read as one token *)
Theorem C08_token_texts :
  (forall txt tk s, In (txt, tk) simple_ops ->
     nexts ext_alnum ext (txt ++ s) = Ok (APush tk s)) /\
  (forall c c2 tk s, c = c_E \/ c = c_A -> temporal_token c c2 = Ok tk ->
     peek_name_char ext_alnum s = false ->
     nexts ext_alnum ext (c :: c2 :: s) = Ok (APush tk s)) /\
  (forall n s, prop_text ext_alnum n -> peek_name_char ext_alnum s = false ->
     nexts ext_alnum ext (n ++ s) = Ok (APush (TAtom (AProp n)) s)) /\
  (forall x s, name_str ext_alnum x ->
     nexts ext_alnum ext (c_lbrace :: x ++ c_rbrace :: s) = Ok (APush (TAtom (AVar x)) s)) /\
  (forall x s, ext = true -> name_str ext_alnum x ->
     nexts ext_alnum ext (c_pct :: x ++ c_pct :: s) = Ok (APush (TAtom (AWild x)) s)) /\
  (forall s, nexts ext_alnum ext (c_lpar :: s) = Ok (AOpen s)) /\
  (forall s, nexts ext_alnum ext (c_rpar :: s) = Ok (AClose s)) /\
  (forall pre o x d w1 w2 w3 w4 s,
     In (pre, o) hyb_heads ->
     sep_str ext_alnum w1 -> ws_str w2 -> ws_str w3 -> ws_str w4 ->
     name_str ext_alnum x -> dom_ok ext_alnum (hyb_pd ext o) d ->
     nexts ext_alnum ext (pre ++ seg_txt x d w1 w2 w3 w4 s) = Ok (APush (THyb o x d) s)).
Proof.
  exact (conj (nexts_simple_op ext_alnum ext) (conj (nexts_temporal ext_alnum ext)
        (conj (nexts_prop ext_alnum ext) (conj (nexts_var ext_alnum ext)
        (conj (nexts_wild ext_alnum ext) (conj (nexts_lpar ext_alnum ext)
        (conj (nexts_rpar ext_alnum ext) (nexts_hyb ext_alnum ext)))))))).
Qed.

(** the token boundaries, one by one: after an operator symbol ... *)
Theorem C08_whitespace_after_operator :
  forall (txt : str) (tk : token) (w s : str),
    In (txt, tk) simple_ops -> ws_str w ->
    lsim ext_alnum ext (txt ++ s) (txt ++ w ++ s).
Proof. exact (lsim_after_op ext_alnum ext). Qed.

Theorem C08_whitespace_after_temporal :
  forall (c c2 : N) (tk : token) (w s : str),
    c = c_E \/ c = c_A -> temporal_token c c2 = Ok tk ->
    peek_name_char ext_alnum s = false -> sep_str ext_alnum w ->
    respaced ext_alnum ext (c :: c2 :: s) (c :: c2 :: w ++ s).
Proof. exact (respaced_after_temporal ext_alnum ext). Qed.

(** ... around parentheses ... *)
Theorem C08_whitespace_around_lpar :
  forall w w' s : str,
    sep_str ext_alnum w -> sep_str ext_alnum w' ->
    respaced ext_alnum ext (c_lpar :: s) (w ++ c_lpar :: w' ++ s).
Proof. exact (respaced_around_lpar ext_alnum ext). Qed.

Theorem C08_whitespace_around_rpar :
  forall w w' s : str,
    sep_str ext_alnum w -> sep_str ext_alnum w' ->
    respaced ext_alnum ext (c_rpar :: s) (w ++ c_rpar :: w' ++ s).
Proof. exact (respaced_around_rpar ext_alnum ext). Qed.

(** ... between [}] and the next token, after a proposition, after a wild card ... *)
Theorem C08_whitespace_after_var :
  forall x w s : str,
    name_str ext_alnum x -> ws_str w ->
    lsim ext_alnum ext (c_lbrace :: x ++ c_rbrace :: s) (c_lbrace :: x ++ c_rbrace :: w ++ s).
Proof. exact (lsim_after_var ext_alnum ext). Qed.

Theorem C08_whitespace_after_prop :
  forall n w s : str,
    prop_text ext_alnum n -> peek_name_char ext_alnum s = false -> sep_str ext_alnum w ->
    respaced ext_alnum ext (n ++ s) (n ++ w ++ s).
Proof. exact (respaced_after_prop ext_alnum ext). Qed.

Theorem C08_whitespace_after_wild :
  forall x w s : str,
    ext = true -> name_str ext_alnum x -> sep_str ext_alnum w ->
    respaced ext_alnum ext (c_pct :: x ++ c_pct :: s) (c_pct :: x ++ c_pct :: w ++ s).
Proof. exact (respaced_after_wild ext_alnum ext). Qed.

(** ... and inside / after a hybrid segment, where [skip_ws] is called (with any admissible
    spelling of the operator) *)
Theorem C08_whitespace_hybrid :
  forall (pre pre' : str) (o : hybop) (x : str) (d : option str) (w1 w2 w3 w4 w5 s : str),
    In (pre, o) hyb_heads -> In (pre', o) hyb_heads ->
    pre' = pre \/ peek_name_char ext_alnum pre' = false ->
    sep_str ext_alnum w1 -> ws_str w2 -> ws_str w3 -> ws_str w4 -> sep_str ext_alnum w5 ->
    name_str ext_alnum x -> dom_ok ext_alnum (hyb_pd ext o) d ->
    respaced ext_alnum ext (pre ++ seg_txt x d [] [] [] [] s)
             (pre' ++ seg_txt x d w1 w2 w3 w4 (w5 ++ s)).
Proof. exact (respaced_hybrid ext_alnum ext). Qed.

(** * 4a. Spellings of the hybrid operators *)

Theorem C08_spellings_bind :
  forall (rest : str) (f : nat) (top : bool) (acc : list token),
    peek_name_char ext_alnum rest = false ->
    tok ext_alnum (S f) (c_bslash :: s_bind ++ rest) top ext acc
    = tok ext_alnum (S f) (c_bang :: rest) top ext acc.
Proof. exact (tok_spelling_bind ext_alnum ext). Qed.

Theorem C08_spellings_exists :
  forall (rest : str) (f : nat) (top : bool) (acc : list token),
    peek_name_char ext_alnum rest = false ->
    tok ext_alnum (S f) (c_bslash :: s_exists ++ rest) top ext acc
    = tok ext_alnum (S f) (c_three :: rest) top ext acc.
Proof. exact (tok_spelling_exists ext_alnum ext). Qed.

Theorem C08_spellings_forall :
  forall (rest : str) (f : nat) (top : bool) (acc : list token),
    peek_name_char ext_alnum rest = false ->
    tok ext_alnum (S f) (c_bslash :: s_forall ++ rest) top ext acc
    = tok ext_alnum (S f) (c_V :: rest) top ext acc.
Proof. exact (tok_spelling_forall ext_alnum ext). Qed.

Theorem C08_spellings_jump :
  forall (rest : str) (f : nat) (top : bool) (acc : list token),
    peek_name_char ext_alnum rest = false ->
    tok ext_alnum (S f) (c_bslash :: s_jump ++ rest) top ext acc
    = tok ext_alnum (S f) (c_at :: rest) top ext acc.
Proof. exact (tok_spelling_jump ext_alnum ext). Qed.

(** all spellings of one operator, for the whole text (with the fuel of [tokenize]) *)
Theorem C08_spellings :
  forall (pre pre' : str) (o : hybop) (seg : str),
    In (pre, o) hyb_heads -> In (pre', o) hyb_heads ->
    peek_name_char ext_alnum seg = false ->
    tokenize ext_alnum ext (pre ++ seg) = tokenize ext_alnum ext (pre' ++ seg).
Proof. exact (tokenize_spelling ext_alnum ext). Qed.

Theorem C08_spellings_side_condition_needed :
  tokenize ext_alnum ext (c_three :: [c_x]) = Ok [TAtom (AProp [c_three; c_x])]
  /\ tokenize ext_alnum ext (c_bslash :: s_exists ++ [c_x]) = Err ELex.
Proof. exact (spelling_side_condition_needed ext_alnum ext). Qed.

End WhiteSpace.

(** * 4b. Spellings of the constants *)

Theorem C08_constant_spellings :
  atom_of_prop_name s_true = ATrue /\ atom_of_prop_name s_True = ATrue
  /\ atom_of_prop_name s_1 = ATrue
  /\ atom_of_prop_name s_false = AFalse /\ atom_of_prop_name s_False = AFalse
  /\ atom_of_prop_name s_0 = AFalse.
Proof.
  exact (conj (proj1 true_spellings) (conj (proj1 (proj2 true_spellings))
        (conj (proj2 (proj2 true_spellings)) false_spellings))).
Qed.

(** names with the same [atom_of_prop_name] are interchangeable anywhere in a token list *)
Theorem C08_prop_spelling :
  forall (l r : list token) (a b : str),
    atom_of_prop_name a = atom_of_prop_name b ->
    parse_tokens (l ++ [TAtom (AProp a)] ++ r) = parse_tokens (l ++ [TAtom (AProp b)] ++ r).
Proof. exact parse_prop_spelling. Qed.

Theorem C08_true_spellings :
  forall (l r : list token) (a b : str),
    (a = s_true \/ a = s_True \/ a = s_1) -> (b = s_true \/ b = s_True \/ b = s_1) ->
    parse_tokens (l ++ [TAtom (AProp a)] ++ r) = parse_tokens (l ++ [TAtom (AProp b)] ++ r).
Proof. exact parse_true_spellings. Qed.

Theorem C08_false_spellings :
  forall (l r : list token) (a b : str),
    (a = s_false \/ a = s_False \/ a = s_0) -> (b = s_false \/ b = s_False \/ b = s_0) ->
    parse_tokens (l ++ [TAtom (AProp a)] ++ r) = parse_tokens (l ++ [TAtom (AProp b)] ++ r).
Proof. exact parse_false_spellings. Qed.

(** * The entry points *)

Section EntryPoints.
Variable ext_alnum : N -> bool.

(** the evaluator only sees the outcome of the front end *)
Theorem C08_model_check_same_front :
  forall (w : world) (k : nat) (m : mode) (ctx : list (str * tt)) (fs fs' : list str),
    Forall2 (fun s s' => parse_and_minimize ext_alnum (m_ext m) (w_names w) s
                         = parse_and_minimize ext_alnum (m_ext m) (w_names w) s') fs fs' ->
    model_check ext_alnum w k m ctx fs = model_check ext_alnum w k m ctx fs'.
Proof. exact (model_check_same_front ext_alnum). Qed.

Theorem C08_parse_formula_respaced :
  forall (ext : bool) (s s' : str),
    respaced ext_alnum ext s s' ->
    parse_formula ext_alnum ext s' = parse_formula ext_alnum ext s.
Proof. exact (parse_formula_respaced ext_alnum). Qed.

Theorem C08_model_check_respaced :
  forall (w : world) (k : nat) (m : mode) (ctx : list (str * tt)) (fs fs' : list str),
    Forall2 (respaced ext_alnum (m_ext m)) fs fs' ->
    model_check ext_alnum w k m ctx fs' = model_check ext_alnum w k m ctx fs.
Proof. exact (model_check_respaced ext_alnum). Qed.

Theorem C08_parse_formula_operands :
  forall (ext : bool) (s s' : str) (ts ts' : list token),
    tokenize ext_alnum ext s = Ok ts -> tokenize ext_alnum ext s' = Ok ts' ->
    Forall2 teq ts ts' ->
    parse_formula ext_alnum ext s = parse_formula ext_alnum ext s'.
Proof. exact (parse_formula_teq ext_alnum). Qed.

Theorem C08_parse_and_minimize_alpha :
  forall (ext : bool) (props : list str) (s1 s2 : str) (t1 t2 : tree),
    parse_formula ext_alnum ext s1 = Ok t1 -> parse_formula ext_alnum ext s2 = Ok t2 ->
    db [] t1 = db [] t2 -> no_requant [] t1 -> no_requant [] t2 ->
    parse_and_minimize ext_alnum ext props s1 = parse_and_minimize ext_alnum ext props s2.
Proof. exact (parse_and_minimize_alpha ext_alnum). Qed.

End EntryPoints.

Print Assumptions C08_rename_depends_on_db.
Print Assumptions C08_rename_is_dname.
Print Assumptions C08_well_scoped_iff.
Print Assumptions C08_preprocess_factors.
Print Assumptions C08_preprocess_factors_exact.
Print Assumptions C08_prep_factors.
Print Assumptions C08_dprep_never_requantified.
Print Assumptions C08_not_requantified.
Print Assumptions C08_alpha_general.
Print Assumptions C08_alpha_invariant.
Print Assumptions C08_alpha_ok.
Print Assumptions C08_alpha_ok_ok.
Print Assumptions C08_alpha_requant_counterexample.
Print Assumptions C08_redundant_parentheses_outer.
Print Assumptions C08_redundant_parentheses_double.
Print Assumptions C08_redundant_parentheses_atom.
Print Assumptions C08_operand_congruence.
Print Assumptions C08_teq_group.
Print Assumptions C08_teq_group_deep.
Print Assumptions C08_teq_double_group.
Print Assumptions C08_redundant_parentheses_operands.
Print Assumptions C08_wrapping_covers_grammar.
Print Assumptions C08_wrapping_rules.
Print Assumptions C08_wrap_any_level.
Print Assumptions C08_wrap_hybrid_body.
Print Assumptions C08_wrap_unary_operand.
Print Assumptions C08_wrap_binary_operands.
Print Assumptions C08_tok_next.
Print Assumptions C08_tok_fuel_enough.
Print Assumptions C08_tok_fuel_irrelevant.
Print Assumptions C08_whitespace_leading.
Print Assumptions C08_whitespace_trailing.
Print Assumptions C08_whitespace_trailing_sep.
Print Assumptions C08_is_sep_unicode.
Print Assumptions C08_whitespace_simulation.
Print Assumptions C08_whitespace_simulation_loop.
Print Assumptions C08_whitespace.
Print Assumptions C08_respaced_lsim.
Print Assumptions C08_respaced_rules.
Print Assumptions C08_token_texts.
Print Assumptions C08_whitespace_after_operator.
Print Assumptions C08_whitespace_after_temporal.
Print Assumptions C08_whitespace_around_lpar.
Print Assumptions C08_whitespace_around_rpar.
Print Assumptions C08_whitespace_after_var.
Print Assumptions C08_whitespace_after_prop.
Print Assumptions C08_whitespace_after_wild.
Print Assumptions C08_whitespace_hybrid.
Print Assumptions C08_spellings_bind.
Print Assumptions C08_spellings_exists.
Print Assumptions C08_spellings_forall.
Print Assumptions C08_spellings_jump.
Print Assumptions C08_spellings.
Print Assumptions C08_spellings_side_condition_needed.
Print Assumptions C08_constant_spellings.
Print Assumptions C08_prop_spelling.
Print Assumptions C08_true_spellings.
Print Assumptions C08_false_spellings.
Print Assumptions C08_model_check_same_front.
Print Assumptions C08_parse_formula_respaced.
Print Assumptions C08_model_check_respaced.
Print Assumptions C08_parse_formula_operands.
Print Assumptions C08_parse_and_minimize_alpha.
