(** C16 -- result archives reload to the sets written (src/generate_output.rs
    [build_result_archive], src/load_inputs.rs [load_bdd_bundle]).  Statements only; model in
    Model/Shell.v, proofs in Proofs/ShellFacts.v.

    Reading guide.  An archive is the ordered list of its entries (name, content).  The BDD
    text codec is a parameter [print] / [parse] with the law [parse (print b) = Some b].
    [build_result_archive print results model formulae] is the archive written for the result
    map [results] (an association list label -> set, in the order in which the HashMap is
    iterated); [load_names parse names a []] is the loader visiting the entry names in the
    order [names], where [is_file_names a names] says that [names] lists every distinct entry
    name of [a] once (zip 0.6.6 returns them in HashMap order); [load_bdd_bundle parse a] is
    the loader visiting them in archive order.  Loaded maps are compared through [alookup],
    through their entries, or literally.

    A label [l] is [admissible] if it is not empty and does not end with '/': this is exactly
    the condition under which [Path::extension] of "l.bdd" is "bdd" ([C16_admissible_exact]);
    e.g. the entry ".bdd" written for the empty label has no extension and is skipped. *)
From HCTL Require Import Base Tokenizer TT Shell.
From HCTL Require Import ShellFacts.

(** * Entries of the archive *)

Theorem C16_entries : forall print (sets : setmap) model formulae,
  length (build_result_archive print sets model formulae) = length sets + 2.
Proof. exact build_length. Qed.

Theorem C16_entry_names : forall print (sets : setmap) model formulae,
  map fst (build_result_archive print sets model formulae)
  = map (fun l => l ++ s_dot_bdd) (map fst sets) ++ [s_model_aeon; s_formulae_txt].
Proof. exact build_names. Qed.

(** the model can be read back from the archive (this is what the archive is for) *)
Theorem C16_model_entry : forall print (sets : setmap) model formulae,
  by_name s_model_aeon (build_result_archive print sets model formulae) = Some model.
Proof. exact by_name_build_model. Qed.

(** * Admissible labels *)

Theorem C16_admissible_exact : forall l,
  extension (l ++ s_dot_bdd) = Some s_bdd <-> admissible l.
Proof. exact extension_bdd_iff. Qed.

(** * Round trip *)

(** pairwise distinct admissible labels: whatever the two iteration orders, the loader
    succeeds and returns the same association list up to order *)
Theorem C16_roundtrip : forall print parse, (forall b, parse (print b) = Some b) ->
  forall (sets : setmap) model formulae names,
    NoDup (map fst sets) -> Forall admissible (map fst sets) ->
    is_file_names (build_result_archive print sets model formulae) names ->
    exists m,
      load_names parse names (build_result_archive print sets model formulae) [] = LOk m /\
      NoDup (map fst m) /\
      (forall l, alookup str_eqb l m = alookup str_eqb l sets) /\
      (forall l b, In (l, b) m <-> In (l, b) sets) /\
      length m = length sets.
Proof. exact roundtrip. Qed.

(** entries visited in archive order: literally the same list, in reverse insertion order *)
Theorem C16_roundtrip_in_order : forall print parse, (forall b, parse (print b) = Some b) ->
  forall (sets : setmap) model formulae,
    NoDup (map fst sets) -> Forall admissible (map fst sets) ->
    load_bdd_bundle parse (build_result_archive print sets model formulae) = LOk (rev sets).
Proof. exact roundtrip_exact. Qed.

(** without the admissibility hypothesis: exactly the sets with an admissible label come
    back, the others are silently dropped *)
Theorem C16_roundtrip_general : forall print parse, (forall b, parse (print b) = Some b) ->
  forall (sets : setmap) model formulae names,
    NoDup (map fst sets) ->
    is_file_names (build_result_archive print sets model formulae) names ->
    exists m,
      load_names parse names (build_result_archive print sets model formulae) [] = LOk m /\
      NoDup (map fst m) /\
      forall l b, In (l, b) m <-> In (l, b) sets /\ admissible l.
Proof. exact roundtrip_general_entries. Qed.

(** * The metadata entries *)

(** [model.aeon] and [formulae.txt] are skipped by the loader, in any archive and whatever
    they contain; by [C16_roundtrip] ([In (l, b) m <-> In (l, b) sets]) they contribute no
    label to the loaded map either *)
Theorem C16_other_entries_ignored : forall parse n names (a : archive) (loaded : setmap),
  n = s_model_aeon \/ n = s_formulae_txt ->
  load_names parse (n :: names) a loaded = load_names parse names a loaded.
Proof. exact load_names_skip_metadata. Qed.

(** any entry whose extension is not "bdd" is skipped *)
Theorem C16_non_bdd_entries_ignored : forall parse n names (a : archive) (loaded : setmap),
  opt_eqb str_eqb (extension n) (Some s_bdd) = false ->
  load_names parse (n :: names) a loaded = load_names parse names a loaded.
Proof. exact load_names_skip. Qed.

(** * formulae.txt *)

(** line i of the [formulae.txt] entry is formula i, for formulae without a line feed and
    without a final carriage return ([one_line]; a formula "f\r" would be read back as "f") *)
Theorem C16_formula_order : forall print (sets : setmap) model formulae,
  Forall one_line formulae ->
  exists content,
    by_name s_formulae_txt (build_result_archive print sets model formulae) = Some content /\
    lines content = formulae /\
    forall i, nth_error (lines content) i = nth_error formulae i.
Proof. exact formula_order. Qed.

(** the formulae returned by [load_formulae] are such formulae *)
Theorem C16_loaded_formulae_one_line : forall content, Forall one_line (load_formulae content).
Proof. intros; eapply clean_all_one_line, load_formulae_clean. Qed.

Print Assumptions C16_entries.
Print Assumptions C16_entry_names.
Print Assumptions C16_model_entry.
Print Assumptions C16_admissible_exact.
Print Assumptions C16_roundtrip.
Print Assumptions C16_roundtrip_in_order.
Print Assumptions C16_roundtrip_general.
Print Assumptions C16_other_entries_ignored.
Print Assumptions C16_non_bdd_entries_ignored.
Print Assumptions C16_formula_order.
Print Assumptions C16_loaded_formulae_one_line.
