(** C07 -- preprocessing validates binding and renames variables without changing meaning.
    Statements only; the proofs are in Proofs/PrepFacts.v.

    Vocabulary (all defined in PrepFacts.v, independently of [prep] and of its map):
    - [well_scoped props scope t]: every variable occurrence and jump target of [t] is in
      [scope], a quantifier (bind / exists / forall) binds a name that is not in scope and
      adds it for its body, every proposition is in [props];
    - [db env t]: the de Bruijn normal form of [t] (binders carry no name, a bound occurrence
      is the number of quantifiers between it and its binder, a free one keeps its name);
    - [xs n]: the string of [n] characters 'x';
    - [rename scope t]: [t] with the quantifier at depth [d] named [xs (S d)] and with every
      occurrence / jump target named after the depth of its own binder ([rename_var],
      [binder_depth]);
    - [depth_named d t]: in [t], seen below [d] quantifiers, the quantifier at depth [d'] is
      named [xs (S d')] and every occurrence / jump target is the name of an enclosing one;
    - [qdepth t]: the maximal number of nested quantifiers of [t] (jumps do not count). *)
From HCTL Require Import Base Syntax Preprocess.
From HCTL Require Import PrepFacts.

(** ** 1. preprocessing accepts exactly the well-scoped formulae *)

Theorem C07_accepts_iff_well_scoped :
  forall (props : list str) (t : tree),
    (exists t', preprocess props t = Ok t') <-> well_scoped props [] t.
Proof. exact preprocess_accepts_iff_well_scoped. Qed.

(** the same for the generalised function, under the invariant of the map: [ren] maps the
    names in scope (and only them) to the 'x'-string of their binder's depth, and the last
    used name is the one of the innermost binder *)
Theorem C07_prep_accepts_iff_well_scoped :
  forall (props : list str) (t t' : tree) (scope : list str) (ren : list (str * str)),
    (forall x, alookup str_eqb x ren
               = option_map (fun i => xs (length scope - i)) (index x scope)) ->
    (prep props ren (xs (length scope)) t = Ok t'
     <-> well_scoped props scope t /\ t' = rename scope t).
Proof. exact prep_ok_iff. Qed.

(** it never panics and never runs out of fuel: the only failures are error values *)
Theorem C07_no_panic :
  forall (props : list str) (t : tree),
    (forall p, preprocess props t <> Panic p) /\ preprocess props t <> OutOfFuel.
Proof. exact preprocess_no_panic. Qed.

Theorem C07_ok_or_err :
  forall (props : list str) (t : tree),
    (exists t', preprocess props t = Ok t') \/ (exists e, preprocess props t = Err e).
Proof. exact preprocess_ok_or_err. Qed.

Theorem C07_rejects_ill_scoped :
  forall (props : list str) (t : tree),
    ~ well_scoped props [] t -> exists e, preprocess props t = Err e.
Proof. exact preprocess_rejects_ill_scoped. Qed.

(** ** 2. the result is alpha-equivalent to the input *)

Theorem C07_alpha :
  forall (props : list str) (t t' : tree),
    preprocess props t = Ok t' -> db [] t' = db [] t.
Proof. exact preprocess_alpha. Qed.

(** ** 3. names are determined by the quantifier depth *)

Theorem C07_xs_is_repeat : forall n : nat, xs n = repeat_n n c_x.
Proof. reflexivity. Qed.

(** the binder at depth [d] is named by [d + 1] characters 'x', every occurrence and every
    jump names an enclosing binder, and the number of variables of the result is the maximal
    quantifier nesting depth of the input *)
Theorem C07_names_by_depth :
  forall (props : list str) (t t' : tree),
    preprocess props t = Ok t' ->
    t' = rename [] t /\ depth_named 0 t' /\ num_hctl_vars t' = qdepth t.
Proof. exact preprocess_names_by_depth. Qed.

(** "names its binder": [rename] gives an occurrence of [x] the name of the innermost
    enclosing quantifier that binds [x] -- the one at depth [k] counted from the outside *)
Theorem C07_occurrence_names_its_binder :
  forall (scope : list str) (x : str),
    In x scope ->
    exists k, binder_depth scope x = Some k /\ k < length scope
              /\ rename_var scope x = repeat_n (S k) c_x.
Proof. exact rename_var_binder_depth. Qed.

Theorem C07_binder_depth_spec :
  forall (scope : list str) (x : str) (k : nat),
    binder_depth scope x = Some k ->
    nth_error (rev scope) k = Some x
    /\ forall k', k < k' -> nth_error (rev scope) k' <> Some x.
Proof. exact binder_depth_spec. Qed.

(** ** 4. preprocessing is idempotent *)

Theorem C07_idempotent :
  forall (props : list str) (t t' : tree),
    preprocess props t = Ok t' -> preprocess props t' = Ok t'.
Proof. exact preprocess_idempotent. Qed.

Print Assumptions C07_accepts_iff_well_scoped.
Print Assumptions C07_prep_accepts_iff_well_scoped.
Print Assumptions C07_no_panic.
Print Assumptions C07_ok_or_err.
Print Assumptions C07_rejects_ill_scoped.
Print Assumptions C07_alpha.
Print Assumptions C07_xs_is_repeat.
Print Assumptions C07_names_by_depth.
Print Assumptions C07_occurrence_names_its_binder.
Print Assumptions C07_binder_depth_spec.
Print Assumptions C07_idempotent.
