(** C05, lexical half -- the tokenizer implements the documented lexical structure.
    Statements only; the proofs are in Proofs/LexFacts.v (and Proofs/NoPanic.v).

    The specification [Lex ext s ts] (LexFacts.v, section 1) reads the input by cases on its
    head.  [LexR ext top cs ts out] is the same relation with the nesting made explicit: [cs]
    consists of the tokens [ts] followed, at top level, by the end of the input ([out = []])
    and, inside parentheses, by the closing ')' and the unread rest [out];
    [Lex ext s ts := LexR ext true s ts []].  The cases:
    - white space ([is_ws]) is skipped;
    - '~' '&' '|' '^' are single-character operator tokens ([symbol_tokens]); "=>" and "<=>"
      are fixed spellings (a lone '=' '<' '>' has no reading);
    - an IDENTIFIER ([ident w r]) is a maximal non-empty run [w] of name characters that does
      not start with white space.  It is the operator EX AX EF AF EG AG / EU AU EW AW iff it
      is exactly that word ([keyword_tokens]); it starts a hybrid segment iff it is exactly
      "3" or "V" ([quantifier_words]); otherwise it is the proposition [TAtom (AProp w)];
    - '{' name '}' is a variable token; '%' name '%' is a wild-card token, only if [ext];
      ([name_ok]: a non-empty word of name characters);
    - a hybrid segment is one of  '!'  '@'  ([hybrid_symbols]),  "3"  "V"  (identifiers), or
      a backslash followed by a maximal run of name characters that is exactly one of
      "exists" "forall" "bind" "jump" ([hybrid_words]); followed by ([HybSeg])
        ws* '{' name '}' ws* ':'     or, only if [ext] and not for '@' / "\jump"
        ws* '{' name '}' ws* 'i' 'n' ws* '%' name '%' ws* ':'       ([dom_allowed]);
    - '(' ... ')' yields [TGroup] of the recursively read content and must be closed; a ')'
      without opening counterpart has no reading, nor has any other character.

    Result: [tokenize] answers [Ok ts] exactly for the readings of the specification, for
    every classification [ext_alnum] of the code points >= 128.  No corner was found where
    "maximal identifier, keyword iff exact match" and the tokenizer disagree (the look-ahead
    of the code, E/A + one of XFGUW + "no name character follows", is exactly that rule:
    [tok_word] in LexFacts.v).  The one point to note is in the examples at the end: white
    space is tested first, so a code point classified as white space AND as alphanumeric
    would be skipped at the head of the input but be part of an identifier behind a name
    character.  No such code point exists in Unicode; the model allows it because
    [ext_alnum] is arbitrary, and the specification says so ([head_not_ws] in [ident]). *)
From HCTL Require Import Base Syntax Tokenizer Parser Pipeline.
From HCTL Require Import NoPanic RoundTrip LexFacts.

(** ** 1. the tokenizer implements the specification *)

Theorem C05_tokenize_iff_lex :
  forall (ext_alnum : N -> bool) (ext : bool) (s : str) (ts : list token),
    tokenize ext_alnum ext s = Ok ts <-> Lex ext_alnum ext s ts.
Proof. exact tokenize_iff_lex. Qed.

Theorem C05_tokenize_sound :
  forall (ext_alnum : N -> bool) (ext : bool) (s : str) (ts : list token),
    tokenize ext_alnum ext s = Ok ts -> Lex ext_alnum ext s ts.
Proof. exact tokenize_sound. Qed.

Theorem C05_tokenize_complete :
  forall (ext_alnum : N -> bool) (ext : bool) (s : str) (ts : list token),
    Lex ext_alnum ext s ts -> tokenize ext_alnum ext s = Ok ts.
Proof. exact tokenize_complete. Qed.

(** hence a string has at most one reading *)
Theorem C05_lex_functional :
  forall (ext_alnum : N -> bool) (ext : bool) (s : str) (ts ts' : list token),
    Lex ext_alnum ext s ts -> Lex ext_alnum ext s ts' -> ts = ts'.
Proof. exact Lex_functional. Qed.

(** and it is rejected, with a lexical error, iff it has none *)
Theorem C05_tokenize_err_iff_no_lex :
  forall (ext_alnum : N -> bool) (ext : bool) (s : str),
    tokenize ext_alnum ext s = Err ELex <-> (forall ts, ~ Lex ext_alnum ext s ts).
Proof. exact tokenize_err_iff. Qed.

(** the same at the level of the recursive function, with explicit fuel, accumulator and
    nesting: any fuel above the length of the input gives the reading *)
Theorem C05_tok_sound :
  forall (ext_alnum : N -> bool) (f : nat) (cs : str) (top ext : bool)
         (acc ts' : list token) (out : str),
    tok ext_alnum f cs top ext acc = Ok (ts', out) ->
    exists ts, ts' = rev acc ++ ts /\ LexR ext_alnum ext top cs ts out.
Proof. exact tok_sound. Qed.

Theorem C05_tok_complete :
  forall (ext_alnum : N -> bool) (ext top : bool) (cs : str) (ts : list token) (out : str),
    LexR ext_alnum ext top cs ts out ->
    forall (f : nat) (acc : list token), length cs < f ->
      tok ext_alnum f cs top ext acc = Ok (rev acc ++ ts, out).
Proof. exact tok_complete. Qed.

(** the helper reading the variable and domain of a hybrid operator *)
Theorem C05_collect_var_dom_iff :
  forall (ext_alnum : N -> bool) (cs : str) (pd : bool) (x : str) (d : option str) (r : str),
    collect_var_dom ext_alnum cs pd = Ok (x, d, r) <-> HybSeg ext_alnum pd cs x d r.
Proof. intros; split; [apply cvd_sound | apply cvd_complete]. Qed.

(** maximal munch: on a maximal run [c :: w] of name characters the tokenizer decides by
    the WHOLE run -- operator iff it is exactly an operator word, quantifier iff exactly
    "3" / "V", proposition otherwise *)
Theorem C05_identifier_step :
  forall (ext_alnum : N -> bool) (f : nat) (c : N) (w r : str) (top ext : bool)
         (acc : list token),
    is_ws c = false ->
    List.Forall (fun c => is_name_char ext_alnum c = true) (c :: w) ->
    peek_name_char ext_alnum r = false ->
    tok ext_alnum (S f) (c :: w ++ r) top ext acc =
    match alookup str_eqb (c :: w) keyword_tokens with
    | Some t => tok ext_alnum f r top ext (t :: acc)
    | None =>
        match alookup str_eqb (c :: w) quantifier_words with
        | Some o =>
            let* (nd, rest) := collect_var_dom ext_alnum r ext in
            tok ext_alnum f rest top ext (THyb o (fst nd) (snd nd) :: acc)
        | None => tok ext_alnum f r top ext (TAtom (AProp (c :: w)) :: acc)
        end
    end.
Proof. exact tok_word. Qed.

(** ** 2. the extended syntax is conservative over the plain syntax *)

Theorem C05_extended_conservative :
  forall (ext_alnum : N -> bool) (s : str) (ts : list token),
    tokenize ext_alnum false s = Ok ts -> tokenize ext_alnum true s = Ok ts.
Proof. exact tokenize_conservative. Qed.

Theorem C05_extended_conservative_parse :
  forall (ext_alnum : N -> bool) (s : str) (t : tree),
    parse_formula ext_alnum false s = Ok t -> parse_formula ext_alnum true s = Ok t.
Proof. exact parse_formula_conservative. Qed.

Theorem C05_extended_conservative_lex :
  forall (ext_alnum : N -> bool) (s : str) (ts : list token),
    Lex ext_alnum false s ts -> Lex ext_alnum true s ts.
Proof. intros; eapply LexR_plain_ext; eauto. Qed.

(** ** 3. the plain syntax rejects the extended constructs *)

(** restated from NoPanic.v: plain tokens contain no wild-card and no domain *)
Theorem C05_plain_rejects_extended :
  forall (ext_alnum : N -> bool) (s : str) (ts : list token),
    tokenize ext_alnum false s = Ok ts -> plain_toks ts.
Proof. exact tokenize_plain. Qed.

(** exactly: the plain readings are the extended readings without wild-card and domain *)
Theorem C05_plain_iff_extended_plain :
  forall (ext_alnum : N -> bool) (s : str) (ts : list token),
    tokenize ext_alnum false s = Ok ts <->
    tokenize ext_alnum true s = Ok ts /\ plain_toks ts.
Proof. exact tokenize_plain_iff. Qed.

(** a '%' anywhere in the input (also inside parentheses, also after a hybrid variable) is a
    lexical error in the plain syntax *)
Theorem C05_plain_rejects_pct :
  forall (ext_alnum : N -> bool) (s : str),
    In c_pct s -> tokenize ext_alnum false s = Err ELex.
Proof. exact tokenize_plain_rejects_pct. Qed.

(** and on inputs without '%' the two syntaxes coincide (same tokens or both reject) *)
Theorem C05_no_pct_modes_agree :
  forall (ext_alnum : N -> bool) (s : str),
    ~ In c_pct s -> tokenize ext_alnum true s = tokenize ext_alnum false s.
Proof. exact tokenize_no_pct_agree. Qed.

Theorem C05_no_pct_modes_agree_parse :
  forall (ext_alnum : N -> bool) (s : str),
    ~ In c_pct s -> parse_formula ext_alnum true s = parse_formula ext_alnum false s.
Proof. exact parse_formula_no_pct_agree. Qed.

(** ** 4. corner cases, computed (ASCII only: [ext_alnum] irrelevant) *)

Definition no_ext : N -> bool := fun _ => false.
Local Notation ch_E := 69%N.  Local Notation ch_X := 88%N.  Local Notation ch_a := 97%N.
Local Notation ch_x := 120%N. Local Notation ch_d := 100%N. Local Notation ch_B := 66%N.
Local Notation ch_sp := 32%N.

(** "EXa" is a proposition, "EX a" and "EX(a)" the operator *)
Example C05_ex_EXa : tokenize no_ext false [ch_E; ch_X; ch_a] = Ok [TAtom (AProp [ch_E; ch_X; ch_a])].
Proof. reflexivity. Qed.
Example C05_ex_EX_a :
  tokenize no_ext false [ch_E; ch_X; ch_sp; ch_a] = Ok [TUn EX; TAtom (AProp [ch_a])].
Proof. reflexivity. Qed.
Example C05_ex_EX_par :
  tokenize no_ext false [ch_E; ch_X; c_lpar; ch_a; c_rpar] = Ok [TUn EX; TGroup [TAtom (AProp [ch_a])]].
Proof. reflexivity. Qed.
(** "AB", "E", "EXX" are propositions *)
Example C05_ex_AB : tokenize no_ext false [c_A; ch_B] = Ok [TAtom (AProp [c_A; ch_B])].
Proof. reflexivity. Qed.
Example C05_ex_E : tokenize no_ext false [ch_E] = Ok [TAtom (AProp [ch_E])].
Proof. reflexivity. Qed.
Example C05_ex_EXX : tokenize no_ext false [ch_E; ch_X; ch_X] = Ok [TAtom (AProp [ch_E; ch_X; ch_X])].
Proof. reflexivity. Qed.
(** "3x" is a proposition, "3{x}:a" and "3 {x} : a" the quantifier, "3" alone an error *)
Example C05_ex_3x : tokenize no_ext false [c_three; ch_x] = Ok [TAtom (AProp [c_three; ch_x])].
Proof. reflexivity. Qed.
Example C05_ex_3_seg :
  tokenize no_ext false [c_three; c_lbrace; ch_x; c_rbrace; c_colon; ch_a]
  = Ok [THyb Exists [ch_x] None; TAtom (AProp [ch_a])].
Proof. reflexivity. Qed.
Example C05_ex_3_seg_ws :
  tokenize no_ext false [c_three; ch_sp; c_lbrace; ch_x; c_rbrace; ch_sp; c_colon; ch_sp; ch_a]
  = Ok [THyb Exists [ch_x] None; TAtom (AProp [ch_a])].
Proof. reflexivity. Qed.
Example C05_ex_3_alone : tokenize no_ext false [c_three] = Err ELex.
Proof. reflexivity. Qed.
(** no white space inside the braces *)
Example C05_ex_brace_ws : tokenize no_ext false [c_lbrace; ch_sp; ch_x; c_rbrace] = Err ELex.
Proof. reflexivity. Qed.
(** after a backslash the maximal name is compared: "\jump{x}:a" yes, "\jumpx{x}:a" no *)
Example C05_ex_bs_jump :
  tokenize no_ext false (c_bslash :: s_jump ++ [c_lbrace; ch_x; c_rbrace; c_colon; ch_a])
  = Ok [THyb Jump [ch_x] None; TAtom (AProp [ch_a])].
Proof. reflexivity. Qed.
Example C05_ex_bs_jumpx :
  tokenize no_ext false (c_bslash :: s_jump ++ [ch_x; c_lbrace; ch_x; c_rbrace; c_colon; ch_a])
  = Err ELex.
Proof. reflexivity. Qed.
(** domains: only in the extended syntax, and never after '@' *)
Example C05_ex_dom_ext :
  tokenize no_ext true
    [c_bang; c_lbrace; ch_x; c_rbrace; ch_sp; c_i; c_n; ch_sp; c_pct; ch_d; c_pct; c_colon; ch_a]
  = Ok [THyb Bind [ch_x] (Some [ch_d]); TAtom (AProp [ch_a])].
Proof. reflexivity. Qed.
Example C05_ex_dom_plain :
  tokenize no_ext false
    [c_bang; c_lbrace; ch_x; c_rbrace; ch_sp; c_i; c_n; ch_sp; c_pct; ch_d; c_pct; c_colon; ch_a]
  = Err ELex.
Proof. reflexivity. Qed.
Example C05_ex_dom_jump :
  tokenize no_ext true
    [c_at; c_lbrace; ch_x; c_rbrace; ch_sp; c_i; c_n; ch_sp; c_pct; ch_d; c_pct; c_colon; ch_a]
  = Err ELex.
Proof. reflexivity. Qed.
(** parentheses must match *)
Example C05_ex_unopened : tokenize no_ext false [ch_a; c_rpar] = Err ELex.
Proof. reflexivity. Qed.
Example C05_ex_unclosed : tokenize no_ext false [c_lpar; ch_a] = Err ELex.
Proof. reflexivity. Qed.

(** The one artefact of an arbitrary [ext_alnum]: classify NO-BREAK SPACE (160, white space)
    as alphanumeric.  At the head of the input it is skipped; behind a name character it is
    part of the identifier, so "EX<160>" is a proposition, not the operator EX. *)
Definition nbsp_alnum : N -> bool := fun c => N.eqb c 160.
Example C05_ex_ws_alnum_head :
  tokenize nbsp_alnum false [160%N; ch_a] = Ok [TAtom (AProp [ch_a])].
Proof. reflexivity. Qed.
Example C05_ex_ws_alnum_inside :
  tokenize nbsp_alnum false [ch_a; 160%N; ch_a] = Ok [TAtom (AProp [ch_a; 160%N; ch_a])].
Proof. reflexivity. Qed.
Example C05_ex_ws_alnum_keyword :
  tokenize nbsp_alnum false [ch_E; ch_X; 160%N] = Ok [TAtom (AProp [ch_E; ch_X; 160%N])].
Proof. reflexivity. Qed.

Print Assumptions C05_tokenize_iff_lex.
Print Assumptions C05_tokenize_sound.
Print Assumptions C05_tokenize_complete.
Print Assumptions C05_lex_functional.
Print Assumptions C05_tokenize_err_iff_no_lex.
Print Assumptions C05_tok_sound.
Print Assumptions C05_tok_complete.
Print Assumptions C05_collect_var_dom_iff.
Print Assumptions C05_identifier_step.
Print Assumptions C05_extended_conservative.
Print Assumptions C05_extended_conservative_parse.
Print Assumptions C05_extended_conservative_lex.
Print Assumptions C05_plain_rejects_extended.
Print Assumptions C05_plain_iff_extended_plain.
Print Assumptions C05_plain_rejects_pct.
Print Assumptions C05_no_pct_modes_agree.
Print Assumptions C05_no_pct_modes_agree_parse.
Print Assumptions C05_ex_EXa.
Print Assumptions C05_ex_EX_a.
Print Assumptions C05_ex_EX_par.
Print Assumptions C05_ex_AB.
Print Assumptions C05_ex_E.
Print Assumptions C05_ex_EXX.
Print Assumptions C05_ex_3x.
Print Assumptions C05_ex_3_seg.
Print Assumptions C05_ex_3_seg_ws.
Print Assumptions C05_ex_3_alone.
Print Assumptions C05_ex_brace_ws.
Print Assumptions C05_ex_bs_jump.
Print Assumptions C05_ex_bs_jumpx.
Print Assumptions C05_ex_dom_ext.
Print Assumptions C05_ex_dom_plain.
Print Assumptions C05_ex_dom_jump.
Print Assumptions C05_ex_unopened.
Print Assumptions C05_ex_unclosed.
Print Assumptions C05_ex_ws_alnum_head.
Print Assumptions C05_ex_ws_alnum_inside.
Print Assumptions C05_ex_ws_alnum_keyword.
