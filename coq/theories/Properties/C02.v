(** C02 -- wild-card propositions and restricted quantifier domains have the documented
    meaning (evaluator without cache).
    This file contains only statements; the proofs live in theories/Proofs/Ext*.v.

    Vocabulary:
    - [peval_ext G names sw steady wild doms t U] (ExtEval.v): the cache-free evaluator of
      extended formulae.  [AWild l] returns the set of label [l] in [wild] as it is (not
      intersected with the unit); [Hybrid o x (Some dl) a] looks up the domain set, computes
      [compute_valid_domain_for_var], restricts the unit, returns early when the restricted
      unit is empty, otherwise evaluates the body ON THE RESTRICTED UNIT and closes the scope
      with [eval_hybrid_quantifier] -- exactly as [eval_node] does; the steady-state set
      handed down stays that of the top-level unit.
    - [spec_in G Uc A P] (ExtFacts.v): [A] is a shaped set and, at the valuations of the
      current unit [Uc], membership in [A] is exactly [P] (outside: arbitrary).
    - [unit_ok G Utop bound Uc] (ExtEval.v): the current unit is shaped, independent of the
      state bits, a subset of the top-level unit, and independent of every spare copy not in
      [bound] (the copies of the enclosing quantifiers with a domain).
    - [scoped G bound t] (ExtEval.v): every variable of [t] has a spare copy and no quantifier
      re-uses the copy of an enclosing quantifier with a domain.  Preprocessed formulae that
      pass the variable-support check are [scoped G []] (C02_preprocessed_scoped).
    - [wild_sets_ok] / [dom_sets_ok]: the sets of the labels are shaped and denote the context
      predicates [Gamma l]; domain sets do not read the spare copies.  (Nothing else is
      required: in particular context sets need NOT be subsets of the unit.)
    - [linkable t] (ExtLink.v): proposition names do not start with '%', and wild-card labels
      are their own canonical text (true for labels without parentheses and braces,
      C02_plain_label_linkable). *)
From HCTL Require Import Base Syntax Canon MarkDup Preprocess TT Ops Eval Kripke HCTL.
From HCTL Require Import EvalPure Main ExtSem ExtFacts ExtEval ExtLink.

(** ** 1. The three equivalences of the README, as statements about [sat] *)

(** !{x} in %d%: a   ==   !{x}: (%d% & a) *)
Theorem C02_bind_domain_equiv :
  forall (G : genv) (names : list str) (Gamma : str -> val -> Prop),
    ctx_ignores_copies Gamma ->
    forall (x d : str) (a : tree) (v : val),
      sat G names Gamma (Hybrid Bind x (Some d) a) v <->
      sat G names Gamma (Hybrid Bind x None (Binary And (Terminal (AWild d)) a)) v.
Proof. exact bind_domain_equiv. Qed.

(** 3{x} in %d%: @{x}: a   ==   3{x}: @{x}: (%d% & a) *)
Theorem C02_exists_domain_equiv :
  forall (G : genv) (names : list str) (Gamma : str -> val -> Prop),
    ctx_ignores_copies Gamma ->
    forall (x d : str) (a : tree) (v : val),
      sat G names Gamma (Hybrid Exists x (Some d) (Hybrid Jump x None a)) v <->
      sat G names Gamma
        (Hybrid Exists x None (Hybrid Jump x None (Binary And (Terminal (AWild d)) a))) v.
Proof. exact exists_domain_equiv. Qed.

(** V{x} in %d%: @{x}: a   ==   V{x}: @{x}: (%d% => a) *)
Theorem C02_forall_domain_equiv :
  forall (G : genv) (names : list str) (Gamma : str -> val -> Prop),
    ctx_ignores_copies Gamma ->
    forall (x d : str) (a : tree) (v : val),
      sat G names Gamma (Hybrid Forall x (Some d) (Hybrid Jump x None a)) v <->
      sat G names Gamma
        (Hybrid Forall x None (Hybrid Jump x None (Binary Imp (Terminal (AWild d)) a))) v.
Proof. exact forall_domain_equiv. Qed.

(** ** 2. Empty domains, as statements about [sat]
    ([domain_empty_at Gamma d v]: no state of the colour of [v] is in the domain; other
    colours are irrelevant) *)

Theorem C02_exists_empty_domain_sat :
  forall (G : genv) (names : list str) (Gamma : str -> val -> Prop)
         (x d : str) (a : tree) (v : val),
    domain_empty_at Gamma d v -> ~ sat G names Gamma (Hybrid Exists x (Some d) a) v.
Proof. exact exists_empty_domain. Qed.

Theorem C02_forall_empty_domain_sat :
  forall (G : genv) (names : list str) (Gamma : str -> val -> Prop)
         (x d : str) (a : tree) (v : val),
    var_of G x <> None -> domain_empty_at Gamma d v ->
    sat G names Gamma (Hybrid Forall x (Some d) a) v.
Proof. exact forall_empty_domain. Qed.

Theorem C02_bind_empty_domain_sat :
  forall (G : genv) (names : list str) (Gamma : str -> val -> Prop),
    ctx_ignores_copies Gamma ->
    forall (x d : str) (a : tree) (v : val),
      domain_empty_at Gamma d v -> ~ sat G names Gamma (Hybrid Bind x (Some d) a) v.
Proof. exact bind_empty_domain. Qed.

(** ** 3. The main theorem: the cache-free extended evaluator computes [sat] on the unit *)

Theorem C02_extended_correct :
  forall (G : genv) (names : list str) (Utop : tt), wf_env G names Utop ->
  forall (Gamma : str -> val -> Prop) (sw : switches) (wild doms : list (str * tt)),
    wild_sets_ok G Gamma wild -> dom_sets_ok G Gamma doms ->
  forall (t : tree) (R : tt),
    scoped G [] t ->
    peval_ext G names sw (steady_of G Utop) wild doms t Utop = Ok R ->
    shaped (g_L G) R /\
    forall v, mem (g_L G) Utop v = true ->
              (mem (g_L G) R v = true <-> sat G names Gamma t v).
Proof. exact peval_ext_correct. Qed.

(** the invariant behind it: in every scope, with current unit [Uc] (the top-level unit
    restricted by the domains of the enclosing quantifiers), whatever the evaluator returns is
    exact at the valuations of [Uc] *)
Theorem C02_extended_correct_in_scope :
  forall (G : genv) (names : list str) (Utop : tt), wf_env G names Utop ->
  forall (Gamma : str -> val -> Prop) (sw : switches) (wild doms : list (str * tt)),
    wild_sets_ok G Gamma wild -> dom_sets_ok G Gamma doms ->
  forall (t : tree) (bound : list nat) (Uc R : tt),
    unit_ok G Utop bound Uc -> scoped G bound t ->
    peval_ext G names sw (steady_of G Utop) wild doms t Uc = Ok R ->
    spec_in G Uc R (sat G names Gamma t).
Proof. exact peval_ext_sound. Qed.

(** the same with the context given as one map of sets, [Gamma l v := mem (set of l) v] *)
Theorem C02_extended_correct_ctx :
  forall (G : genv) (ctx : list (str * tt)), ctx_sets_ok G ctx ->
  forall (names : list str) (Utop : tt) (sw : switches) (wild doms : list (str * tt))
         (t : tree) (R : tt),
    wf_env G names Utop -> picked_from_ctx ctx wild -> picked_from_ctx ctx doms ->
    scoped G [] t ->
    peval_ext G names sw (steady_of G Utop) wild doms t Utop = Ok R ->
    shaped (g_L G) R /\
    forall v, mem (g_L G) Utop v = true ->
              (mem (g_L G) R v = true <-> sat G names (Gamma_of G ctx) t v).
Proof. exact peval_ext_correct_ctx. Qed.

Theorem C02_ctx_ignores_copies :
  forall (G : genv) (ctx : list (str * tt)),
    ctx_sets_ok G ctx -> ctx_ignores_copies (Gamma_of G ctx).
Proof. exact Gamma_of_ignores_copies. Qed.

(** preprocessed formulae that pass check_hctl_var_support are well scoped *)
Theorem C02_preprocessed_scoped :
  forall (G : genv) (props : list str) (t0 t : tree),
    preprocess props t0 = Ok t -> num_hctl_vars t <= g_k G -> scoped G [] t.
Proof. exact preprocessed_scoped. Qed.

(** on plain formulae the extended evaluator is the evaluator of C01 *)
Theorem C02_peval_ext_plain :
  forall (G : genv) (names : list str) (sw : switches) (steady : tt)
         (wild doms : list (str * tt)) (t : tree) (U : tt),
    plainf t -> peval_ext G names sw steady wild doms t U = peval G names sw steady t U.
Proof. exact peval_ext_plain. Qed.

(** ** 4. Empty domains, as the evaluator answers them *)

Theorem C02_exists_empty_domain :
  forall (G : genv) (names : list str) (Utop : tt), wf_env G names Utop ->
  forall (Gamma : str -> val -> Prop) (sw : switches) (wild doms : list (str * tt)),
    wild_sets_ok G Gamma wild -> dom_sets_ok G Gamma doms ->
  forall (x d : str) (a : tree) (R : tt) (v : val),
    scoped G [] (Hybrid Exists x (Some d) a) ->
    peval_ext G names sw (steady_of G Utop) wild doms (Hybrid Exists x (Some d) a) Utop = Ok R ->
    mem (g_L G) Utop v = true -> domain_empty_at Gamma d v -> mem (g_L G) R v = false.
Proof. exact peval_ext_exists_empty_domain. Qed.

Theorem C02_forall_empty_domain :
  forall (G : genv) (names : list str) (Utop : tt), wf_env G names Utop ->
  forall (Gamma : str -> val -> Prop) (sw : switches) (wild doms : list (str * tt)),
    wild_sets_ok G Gamma wild -> dom_sets_ok G Gamma doms ->
  forall (x d : str) (a : tree) (R : tt) (v : val),
    scoped G [] (Hybrid Forall x (Some d) a) ->
    peval_ext G names sw (steady_of G Utop) wild doms (Hybrid Forall x (Some d) a) Utop = Ok R ->
    mem (g_L G) Utop v = true -> domain_empty_at Gamma d v -> mem (g_L G) R v = true.
Proof. exact peval_ext_forall_empty_domain. Qed.

Theorem C02_bind_outside_domain :
  forall (G : genv) (names : list str) (Utop : tt), wf_env G names Utop ->
  forall (Gamma : str -> val -> Prop) (sw : switches) (wild doms : list (str * tt)),
    wild_sets_ok G Gamma wild -> dom_sets_ok G Gamma doms ->
  forall (x d : str) (a : tree) (R : tt) (v : val),
    scoped G [] (Hybrid Bind x (Some d) a) ->
    peval_ext G names sw (steady_of G Utop) wild doms (Hybrid Bind x (Some d) a) Utop = Ok R ->
    mem (g_L G) Utop v = true -> ~ Gamma d v -> mem (g_L G) R v = false.
Proof. exact peval_ext_bind_outside_domain. Qed.

(** the early return: no colour of the unit has a state in the domain, the body is not
    evaluated (so it can neither panic nor run out of fuel) *)
Theorem C02_early_return :
  forall (G : genv) (names : list str) (Utop : tt) (sw : switches)
         (wild doms : list (str * tt)) (o : hybop) (x dl : str) (a : tree)
         (dset : tt) (e : nat) (U : tt),
    o <> Jump -> alookup str_eqb dl doms = Some dset -> hctl_var_id G x = Ok e ->
    is_empty (tand U (compute_valid_domain_for_var G U dset e)) = true ->
    peval_ext G names sw (steady_of G Utop) wild doms (Hybrid o x (Some dl) a) U =
    Ok (match o with Forall => U | _ => empty G end).
Proof. exact peval_ext_early_return. Qed.

(** ** 5. The operator facts under the weak invariant (current unit [Uc]) *)

Theorem C02_ops_boolean :
  forall (G : genv) (names : list str) (Utop : tt), wf_env G names Utop ->
  forall (bound : list nat) (Uc : tt), unit_ok G Utop bound Uc ->
  forall (A B : tt) (P Q : val -> Prop),
    spec_in G Uc A P -> spec_in G Uc B Q ->
    spec_in G Uc (eval_neg Uc A) (fun w => ~ P w) /\
    spec_in G Uc (tand A B) (fun w => P w /\ Q w) /\
    spec_in G Uc (tor A B) (fun w => P w \/ Q w) /\
    spec_in G Uc (eval_imp Uc A B) (fun w => P w -> Q w) /\
    spec_in G Uc (eval_equiv Uc A B) (fun w => P w <-> Q w) /\
    spec_in G Uc (eval_xor Uc A B) (fun w => ~ (P w <-> Q w)).
Proof. exact ops_boolean_in. Qed.

Theorem C02_ops_next :
  forall (G : genv) (names : list str) (Utop : tt), wf_env G names Utop ->
  forall (bound : list nat) (Uc : tt), unit_ok G Utop bound Uc ->
  forall (A : tt) (P : val -> Prop),
    spec_in G Uc A P ->
    spec_in G Uc (eval_ex G A (steady_of G Utop)) (EXs G P) /\
    spec_in G Uc (eval_ax G Uc A (steady_of G Utop)) (AXs G P).
Proof. exact ops_next_in. Qed.

Theorem C02_ops_fixpoint :
  forall (G : genv) (names : list str) (Utop : tt), wf_env G names Utop ->
  forall (bound : list nat) (Uc : tt), unit_ok G Utop bound Uc ->
  forall (A B : tt) (P Q : val -> Prop) (R : tt),
    spec_in G Uc A P -> spec_in G Uc B Q ->
    (eval_ef_saturated G Uc A = Ok R -> spec_in G Uc R (EFs G P)) /\
    (eval_af G Uc A (steady_of G Utop) = Ok R -> spec_in G Uc R (AFs G P)) /\
    (eval_eg G A (steady_of G Utop) = Ok R -> spec_in G Uc R (EGs G P)) /\
    (eval_ag G Uc A = Ok R -> spec_in G Uc R (AGs G P)) /\
    (eval_eu_saturated G A B = Ok R -> spec_in G Uc R (EUs G P Q)) /\
    (eval_au G Uc A B (steady_of G Utop) = Ok R -> spec_in G Uc R (AUs G P Q)) /\
    (eval_ew G Uc A B (steady_of G Utop) = Ok R -> spec_in G Uc R (EWs G P Q)) /\
    (eval_aw G Uc A B = Ok R -> spec_in G Uc R (AWs G P Q)).
Proof. exact ops_fixpoint_in. Qed.

Theorem C02_ops_hybrid :
  forall (G : genv) (names : list str) (Utop : tt), wf_env G names Utop ->
  forall (bound : list nat) (Uc : tt), unit_ok G Utop bound Uc ->
  forall (A : tt) (P : val -> Prop) (e : nat),
    e < g_k G -> spec_in G Uc A P ->
    spec_in G Uc (eval_hctl_var G Uc e) (copy_is_state G e) /\
    spec_in G Uc (eval_jump G Uc A e) (fun v => P (set_state e v)) /\
    (~ In e bound ->
     spec_in G Uc (eval_bind G Uc (tand A Uc) e) (fun v => P (set_copy e v v)) /\
     spec_in G Uc (eval_exists G (tand A Uc) e) (fun v => exists u, P (set_copy e u v)) /\
     spec_in G Uc (eval_neg Uc (eval_exists G (eval_neg Uc A) e))
             (fun v => forall u, P (set_copy e u v))).
Proof. exact ops_hybrid_in. Qed.

(** the domain step *)
Theorem C02_ops_domain :
  forall (G : genv) (names : list str) (Utop : tt), wf_env G names Utop ->
  forall (bound : list nat) (Uc : tt), unit_ok G Utop bound Uc ->
  forall (dset : tt) (e : nat) (A : tt) (P : val -> Prop),
    e < g_k G -> ~ In e bound -> shaped (g_L G) dset -> extras_indep G dset ->
    let Ur := tand Uc (compute_valid_domain_for_var G Uc dset e) in
    (forall w, mem (g_L G) Ur w = true <->
               (mem (g_L G) Uc w = true /\ mem (g_L G) dset (set_state e w) = true)) /\
    unit_ok G Utop (e :: bound) Ur /\
    (is_empty Ur = true ->
     forall u v, mem (g_L G) Uc v = true -> mem (g_L G) dset (with_state u v) = false) /\
    (spec_in G Ur A P ->
     spec_in G Uc (eval_bind G Uc (tand A Ur) e)
             (fun v => mem (g_L G) dset v = true /\ P (set_copy e v v)) /\
     spec_in G Uc (eval_exists G (tand A Ur) e)
             (fun v => exists u, mem (g_L G) dset (with_state u v) = true /\ P (set_copy e u v)) /\
     spec_in G Uc (eval_neg Uc (eval_exists G (eval_neg Ur A) e))
             (fun v => forall u, mem (g_L G) dset (with_state u v) = true -> P (set_copy e u v))).
Proof. exact ops_domain_in. Qed.

(** ** 6. The link to [eval_node] *)

(** with a context whose duplicate counters and cache hold exactly the wild-card sets,
    eval_node is the cache-free extended evaluator; the store of the context is unchanged *)
Theorem C02_eval_node_is_peval_ext :
  forall (G : genv) (names : list str) (sw : switches) (steady : tt)
         (D : list (key * nat)) (C : list (key * (tt * list (str * str))))
         (DS wild : list (str * tt)),
    store_ok D C wild ->
  forall (t : tree) (U : tt) (c : ectx),
    linkable t -> same_store D C DS c ->
    exists c', same_store D C DS c' /\
      eval_node G names sw steady t U c =
      bind (peval_ext G names sw steady wild DS t U) (fun r => Ok (r, c')).
Proof. exact eval_node_ext. Qed.

(** extend_context on the empty context builds such a store (the last set given for a
    label wins) *)
Theorem C02_extend_context_store :
  forall (wprops dprops : list (str * tt)),
    let c := extend_context wprops dprops (ctx_new []) in
    store_ok (duplicates c) (cache c) (rev wprops) /\
    (forall l s, alookup str_eqb l (domain_sets c) = Some s -> In (l, s) dprops).
Proof. exact extend_context_store. Qed.

Theorem C02_plain_label_linkable :
  forall p : str, forallb canon_inert p = true -> linkable (Terminal (AWild p)).
Proof. exact canonize_plain_label. Qed.

(** end to end: eval_node, driven as the extended entry points drive it when no sub-formula
    is marked as duplicate, returns exactly the satisfying valuations of the unit *)
Theorem C02_eval_node_extended_correct :
  forall (G : genv) (names : list str) (Utop : tt), wf_env G names Utop ->
  forall (Gamma : str -> val -> Prop) (sw : switches) (wprops dprops : list (str * tt)),
    (forall l s, In (l, s) wprops ->
       shaped (g_L G) s /\ forall v, mem (g_L G) s v = true <-> Gamma l v) ->
    (forall l s, In (l, s) dprops ->
       shaped (g_L G) s /\ extras_indep G s /\ forall v, mem (g_L G) s v = true <-> Gamma l v) ->
  forall (t : tree) (R : tt) (c' : ectx),
    scoped G [] t -> linkable t ->
    eval_node G names sw (steady_of G Utop) t Utop (extend_context wprops dprops (ctx_new []))
      = Ok (R, c') ->
    shaped (g_L G) R /\
    forall v, mem (g_L G) Utop v = true ->
              (mem (g_L G) R v = true <-> sat G names Gamma t v).
Proof. exact eval_node_ext_correct. Qed.

Print Assumptions C02_bind_domain_equiv.
Print Assumptions C02_exists_domain_equiv.
Print Assumptions C02_forall_domain_equiv.
Print Assumptions C02_exists_empty_domain_sat.
Print Assumptions C02_forall_empty_domain_sat.
Print Assumptions C02_bind_empty_domain_sat.
Print Assumptions C02_extended_correct.
Print Assumptions C02_extended_correct_in_scope.
Print Assumptions C02_extended_correct_ctx.
Print Assumptions C02_ctx_ignores_copies.
Print Assumptions C02_preprocessed_scoped.
Print Assumptions C02_peval_ext_plain.
Print Assumptions C02_exists_empty_domain.
Print Assumptions C02_forall_empty_domain.
Print Assumptions C02_bind_outside_domain.
Print Assumptions C02_early_return.
Print Assumptions C02_ops_boolean.
Print Assumptions C02_ops_next.
Print Assumptions C02_ops_fixpoint.
Print Assumptions C02_ops_hybrid.
Print Assumptions C02_ops_domain.
Print Assumptions C02_eval_node_is_peval_ext.
Print Assumptions C02_extend_context_store.
Print Assumptions C02_plain_label_linkable.
Print Assumptions C02_eval_node_extended_correct.
